(** C22: toChunk's size field decodes to the chunk length: [hexint (to_hex n) = Some n]. *)
From Coq Require Import List NArith Bool Arith Lia ZifyBool.
From C22 Require Import Gen Model Proofs SegProofs RoundTrip Final.
Import ListNotations.
Local Open Scope N_scope.

Lemma below_16_cases : forall (P : N -> bool),
  forallb (fun n => P (N.of_nat n)) (seq 0 16) = true -> forall d, d < 16 -> P d = true.
Proof.
  intros P H d Hd. rewrite forallb_forall in H.
  specialize (H (N.to_nat d)). rewrite N2Nat.id in H. apply H. apply in_seq. lia.
Qed.

Lemma hexchar_ok : forall d, d < 16 -> is_hexdigit (hexchar d) = true /\ digit_val (hexchar d) = d.
Proof.
  intros d Hd.
  pose proof (below_16_cases (fun d => is_hexdigit (hexchar d) && N.eqb (digit_val (hexchar d)) d)
                ltac:(vm_compute; reflexivity) d Hd) as H.
  apply andb_true_iff in H. destruct H as [H1 H2]. apply N.eqb_eq in H2. split; assumption.
Qed.

Definition hexval_from (a : N) (b : bytes) : N := fold_left (fun acc c => 16 * acc + digit_val c) b a.

Lemma hexval_from_app : forall l1 l2 a, hexval_from a (l1 ++ l2) = hexval_from (hexval_from a l1) l2.
Proof. intros. unfold hexval_from. apply fold_left_app. Qed.

Lemma to_hex_aux_spec : forall fuel n acc, n < 16 ^ N.of_nat (S fuel) ->
  exists ds, to_hex_aux (S fuel) n acc = ds ++ acc /\ ds <> [] /\ forallb is_hexdigit ds = true /\
             forall a, hexval_from a ds = a * 16 ^ N.of_nat (length ds) + n.
Proof.
  induction fuel as [|fuel IH]; intros n acc Hn; cbn [to_hex_aux]; destruct (N.ltb n 16) eqn:E.
  1,3: destruct (hexchar_ok n ltac:(lia)) as [H1 H2];
       exists [hexchar n]; repeat split;
       [ discriminate | simpl; rewrite H1; reflexivity
       | intros a; unfold hexval_from; cbn [fold_left length]; rewrite H2;
         change (N.of_nat 1) with 1; rewrite N.pow_1_r; lia ].
  - change (16 ^ N.of_nat 1) with 16 in Hn. lia.
  - assert (Hq : n / 16 < 16 ^ N.of_nat (S fuel)).
    { apply N.div_lt_upper_bound; [lia|]. rewrite (Nat2N.inj_succ (S fuel)), N.pow_succ_r' in Hn. exact Hn. }
    destruct (IH (n / 16) (hexchar (n mod 16) :: acc) Hq) as (ds & Hds & Hne & Hall & Hval).
    assert (Hm : n mod 16 < 16) by (apply N.mod_lt; lia).
    destruct (hexchar_ok (n mod 16) Hm) as [H1 H2].
    exists (ds ++ [hexchar (n mod 16)]). repeat split.
    + cbn [to_hex_aux] in Hds. rewrite Hds, <- app_assoc. reflexivity.
    + destruct ds; discriminate.
    + rewrite forallb_app, Hall. simpl. rewrite H1. reflexivity.
    + intros a. rewrite hexval_from_app, Hval. unfold hexval_from at 1. cbn [fold_left]. rewrite H2.
      rewrite app_length. simpl length. rewrite Nat.add_1_r, Nat2N.inj_succ, N.pow_succ_r'.
      pose proof (N.div_mod n 16 ltac:(lia)). set (p := 16 ^ N.of_nat (length ds)) in *. clearbody p. nia.
Qed.

Lemma to_hex_fuel : forall n, n < 16 ^ N.of_nat (S (N.to_nat (N.log2 n))).
Proof.
  intros n. rewrite Nat2N.inj_succ, N2Nat.id.
  destruct (N.eq_dec n 0) as [->|Hn]; [vm_compute; reflexivity|].
  destruct (N.log2_spec n ltac:(lia)) as [_ H2].
  eapply N.lt_le_trans; [exact H2|]. apply N.pow_le_mono_l. lia.
Qed.

Theorem hexint_to_hex : forall n, hexint (to_hex n) = Some n.
Proof.
  intros n. unfold to_hex.
  destruct (to_hex_aux_spec (N.to_nat (N.log2 n)) n [] (to_hex_fuel n)) as (ds & Hds & Hne & Hall & Hval).
  rewrite Hds, app_nil_r. unfold hexint, ishexdigits. rewrite Hall.
  destruct ds as [|d ds']; [congruence|]. simpl negb. cbn [andb]. f_equal.
  change (hexval (d :: ds')) with (hexval_from 0 (d :: ds')). rewrite Hval. lia.
Qed.

Local Close Scope N_scope.

(** toChunk writes a well-formed chunk (for any data whose hex length fits the size-line limit, i.e.
    shorter than 16^1023 bytes) *)
Lemma toChunk_enc : forall data, toChunk data = enc_chunk (mkchunk (to_hex (N.of_nat (length data))) None data).
Proof. intros. unfold toChunk, enc_chunk, enc_sizeline. simpl. rewrite <- !app_assoc. reflexivity. Qed.

Lemma toChunk_wf : forall data, data <> [] -> length (to_hex (N.of_nat (length data))) < max_size_line ->
  wf_chunk (mkchunk (to_hex (N.of_nat (length data))) None data) = true.
Proof.
  intros data Hne Hlen. unfold wf_chunk. cbn [c_digits c_ext c_data]. rewrite hexint_to_hex, N.eqb_refl.
  unfold wf_sizeline. cbn [enc_ext wf_ext]. rewrite app_nil_r.
  destruct data; [congruence|]. simpl negb. cbn [andb].
  destruct (Nat.ltb _ _) eqn:E; [reflexivity|]. apply Nat.ltb_ge in E. lia.
Qed.

Lemma toChunk_roundtrip : forall maxtr (datas : list bytes) x parts,
  Forall (fun d => d <> [] /\ length (to_hex (N.of_nat (length d))) < max_size_line) datas ->
  (2 <= maxtr)%N ->
  concat parts = flat_map toChunk datas ++ [48; 13; 10; 13; 10]%N ++ x ->
  decode true maxtr parts = (concat datas, Finished x).
Proof.
  intros maxtr datas x parts Hd Hm Hp.
  set (cs := map (fun d => mkchunk (to_hex (N.of_nat (length d))) None d) datas).
  assert (Hcs : forallb wf_chunk cs = true).
  { unfold cs. clear - Hd. induction Hd as [|d ds Hd1 _ IH]; simpl; [reflexivity|].
    destruct Hd1 as [H1 H2]. rewrite (toChunk_wf d H1 H2), IH. reflexivity. }
  assert (Henc : flat_map toChunk datas = flat_map enc_chunk cs).
  { unfold cs. clear. induction datas as [|d ds IH]; simpl; [reflexivity|]. rewrite toChunk_enc, IH. reflexivity. }
  assert (Hdat : concat datas = concat (map c_data cs)).
  { unfold cs. clear. induction datas as [|d ds IH]; simpl; [reflexivity|]. rewrite <- IH. reflexivity. }
  rewrite Hdat. apply (roundtrip maxtr cs [48]%N None [] x parts Hcs eq_refl eq_refl).
  - simpl. lia.
  - rewrite Hp, Henc. unfold encode, enc_sizeline, enc_trailers, CRLF. simpl. rewrite <- !app_assoc. reflexivity.
Qed.
