(** C38 proofs. *)
From Coq Require Import List NArith Bool Lia.
From C38 Require Import Model.
Import ListNotations.
Local Open Scope N_scope.

(** ---- sender: two replace passes = the one-pass reference encoding ---- *)
Lemma replace1_app : forall x rep a b, replace1 x rep (a ++ b) = replace1 x rep a ++ replace1 x rep b.
Proof. intros; unfold replace1; apply flat_map_app. Qed.

Lemma telnet_write_enc : forall s, telnet_write s = flat_map enc s.
Proof.
  unfold telnet_write. induction s as [|b s IH]; [reflexivity|].
  change (b :: s) with ([b] ++ s). rewrite !replace1_app, IH, flat_map_app. f_equal.
  unfold enc, replace1. cbn [flat_map app]. destruct (N.eqb_spec b IAC) as [->|Hb]; [reflexivity|].
  cbn [flat_map app]. destruct (N.eqb_spec b LF); reflexivity.
Qed.

Lemma telnet_write_app : forall a b, telnet_write (a ++ b) = telnet_write a ++ telnet_write b.
Proof. intros; rewrite !telnet_write_enc; apply flat_map_app. Qed.

Lemma wire_enc : forall ops, forallb is_data_op ops = true -> wire ops = flat_map enc (payload ops).
Proof.
  unfold wire, payload. induction ops as [|o ops IH]; intros Hd; [reflexivity|].
  cbn [forallb] in Hd. apply andb_true_iff in Hd as [Ho Hd].
  cbn [flat_map]. rewrite flat_map_app, (IH Hd). f_equal.
  destruct o; try discriminate Ho; cbn [op_wire op_payload]; apply telnet_write_enc.
Qed.

(** ---- receiver: chunked delivery vs. the whole stream ---- *)
Lemma sem_app : forall a st b,
  sem st (a ++ b) = let '(s1, x) := sem st a in let '(s2, y) := sem s1 b in (s2, x ++ y).
Proof.
  induction a as [|c a IH]; intros st b; cbn [app sem].
  - destruct (sem st b); reflexivity.
  - destruct (step st c) as [st' act0]. rewrite IH.
    destruct (sem st' a) as [s1 x]. destruct (sem s1 b) as [s2 y]. reflexivity.
Qed.

Definition acts_syms (l : list act) : list sym := flat_map act_syms l.

Lemma flat_evs_app : forall a b, flat_evs (a ++ b) = flat_evs a ++ flat_evs b.
Proof. intros; apply flat_map_app. Qed.

Lemma flat_flush : forall buf, flat_evs (flush buf) = map SByte (rev buf).
Proof.
  destruct buf as [|x buf]; [reflexivity|].
  unfold flush, flat_evs. cbn [flat_map ev_syms]. apply app_nil_r.
Qed.

Definition all_ok (l : list act) : bool := forallb (fun a => negb (bad a)) l.

Lemma feed_sem : forall bs st buf,
  all_ok (snd (sem st bs)) = true ->
  fst (feed st buf bs) = fst (sem st bs)
  /\ flat_evs (snd (feed st buf bs)) = map SByte (rev buf) ++ acts_syms (snd (sem st bs)).
Proof.
  induction bs as [|b r IH]; intros st buf Hok; cbn [feed sem].
  - cbn [fst snd]. rewrite flat_flush. unfold acts_syms; cbn. now rewrite app_nil_r.
  - cbn [sem] in Hok. destruct (step st b) as [st' a] eqn:Hstep.
    destruct (sem st' r) as [s2 l] eqn:Hsem. cbn [fst snd all_ok forallb] in Hok |- *.
    apply andb_true_iff in Hok as [Ha Hl].
    assert (Hl' : all_ok (snd (sem st' r)) = true) by (rewrite Hsem; exact Hl).
    destruct a as [|l0|c arg|cmds|].
    + destruct (IH st' buf Hl') as [H1 H2]. rewrite Hsem in H1, H2. cbn [fst snd] in H1, H2.
      split; [exact H1|]. rewrite H2. reflexivity.
    + destruct (IH st' (rev_append l0 buf) Hl') as [H1 H2]. rewrite Hsem in H1, H2. cbn [fst snd] in H1, H2.
      split; [exact H1|]. rewrite H2. unfold acts_syms. cbn [flat_map act_syms].
      rewrite rev_append_rev, rev_app_distr, rev_involutive, map_app, <- app_assoc. reflexivity.
    + destruct (IH st' [] Hl') as [H1 H2]. rewrite Hsem in H1, H2. cbn [fst snd] in H1, H2.
      destruct (feed st' [] r) as [s3 evs]. cbn [fst snd] in *.
      split; [exact H1|]. rewrite flat_evs_app, flat_flush.
      change (flat_evs (ECmd c arg :: evs)) with (SCmd c arg :: flat_evs evs). rewrite H2. reflexivity.
    + destruct cmds as [|c d]; [discriminate Ha|].
      destruct (IH st' [] Hl') as [H1 H2]. rewrite Hsem in H1, H2. cbn [fst snd] in H1, H2.
      destruct (feed st' [] r) as [s3 evs]. cbn [fst snd] in *.
      split; [exact H1|]. rewrite flat_evs_app, flat_flush.
      change (flat_evs (ESub c d :: evs)) with (SSub c d :: flat_evs evs). rewrite H2. reflexivity.
    + discriminate Ha.
Qed.

Lemma all_ok_app : forall a b, all_ok (a ++ b) = all_ok a && all_ok b.
Proof. intros; apply forallb_app. Qed.

Lemma run_sem : forall cs st,
  clean st (concat cs) = true ->
  fst (run st cs) = fst (sem st (concat cs))
  /\ flat_evs (snd (run st cs)) = acts_syms (snd (sem st (concat cs))).
Proof.
  unfold clean. induction cs as [|c cs IH]; intros st Hok; cbn [run concat].
  - split; reflexivity.
  - cbn [concat] in Hok. rewrite sem_app in Hok |- *.
    destruct (sem st c) as [s1 x] eqn:H1. destruct (sem s1 (concat cs)) as [s2 y] eqn:H2.
    cbn [fst snd] in Hok |- *. fold (all_ok (x ++ y)) in Hok. rewrite all_ok_app in Hok.
    apply andb_true_iff in Hok as [Hx Hy].
    destruct (feed_sem c st []) as [F1 F2]; [rewrite H1; exact Hx|]. rewrite H1 in F1, F2. cbn [fst snd] in F1, F2.
    destruct (feed st [] c) as [s1' e1]. cbn [fst snd] in F1, F2. subst s1'.
    destruct (IH s1) as [R1 R2]; [rewrite H2; exact Hy|]. rewrite H2 in R1, R2. cbn [fst snd] in R1, R2.
    destruct (run s1 cs) as [s2' e2]. cbn [fst snd] in *.
    split; [exact R1|]. rewrite flat_evs_app, F2, R2. unfold acts_syms. cbn [rev map app]. now rewrite flat_map_app.
Qed.

(** every segmentation of an exception-free stream delivers the same symbols and ends in the same state *)
Lemma segmentation_invariant : forall cs1 cs2 st,
  concat cs1 = concat cs2 -> clean st (concat cs1) = true ->
  fst (run st cs1) = fst (run st cs2) /\ flat_evs (snd (run st cs1)) = flat_evs (snd (run st cs2)).
Proof.
  intros cs1 cs2 st Heq Hc.
  destruct (run_sem cs1 st Hc) as [A1 A2]. rewrite Heq in Hc.
  destruct (run_sem cs2 st Hc) as [B1 B2]. rewrite Heq in A1, A2.
  split; congruence.
Qed.

(** no empty applicationDataReceived call *)
Definition ev_ok (e : ev) : bool := match e with EData [] => false | _ => true end.

Lemma flush_ok : forall buf, forallb ev_ok (flush buf) = true.
Proof.
  destruct buf as [|x buf]; [reflexivity|]. unfold flush. cbn [forallb ev_ok].
  destruct (rev (x :: buf)) eqn:E; [|reflexivity].
  apply (f_equal (@length N)) in E. rewrite rev_length in E. discriminate E.
Qed.

Lemma feed_ok : forall bs st buf, forallb ev_ok (snd (feed st buf bs)) = true.
Proof.
  induction bs as [|b r IH]; intros st buf; cbn [feed].
  - apply flush_ok.
  - destruct (step st b) as [st' a]. destruct a as [|l0|c arg|[|c d]|].
    + apply IH.
    + apply IH.
    + specialize (IH st' []). destruct (feed st' [] r) as [s3 evs]. cbn [snd] in *.
      rewrite forallb_app, flush_ok. exact IH.
    + cbn [snd]. rewrite forallb_app, flush_ok. reflexivity.
    + specialize (IH st' []). destruct (feed st' [] r) as [s3 evs]. cbn [snd] in *.
      rewrite forallb_app, flush_ok. exact IH.
    + reflexivity.
Qed.

Lemma run_ok : forall cs st, forallb ev_ok (snd (run st cs)) = true.
Proof.
  induction cs as [|c cs IH]; intros st; cbn [run]; [reflexivity|].
  pose proof (feed_ok c st []) as F. destruct (feed st [] c) as [s1 e1].
  specialize (IH s1). destruct (run s1 cs) as [s2 e2]. cbn [snd] in *.
  rewrite forallb_app, F, IH. reflexivity.
Qed.

(** ---- the escaped stream through the byte machine ---- *)
Definition bytes_act (a : act) : bool := match a with ANone | ABytes _ => true | _ => false end.
Definition act_bytes (a : act) : list N := match a with ABytes l => l | _ => [] end.
Definition acts_bytes (l : list act) : list N := flat_map act_bytes l.

Lemma neq_eqb : forall a b : N, a <> b -> (a =? b) = false.
Proof. intros; now apply N.eqb_neq. Qed.

Lemma sem_cons' : forall st b r st' a s2 l,
  step st b = (st', a) -> sem st' r = (s2, l) -> sem st (b :: r) = (s2, a :: l).
Proof. intros st b r st' a s2 l H1 H2. cbn [sem]. now rewrite H1, H2. Qed.

Lemma step_data_other : forall b, b <> IAC -> b <> CR -> step Data b = (Data, ABytes [b]).
Proof. intros b H1 H2. cbn [step]. now rewrite (neq_eqb _ _ H1), (neq_eqb _ _ H2). Qed.

Lemma step_nl_other : forall b, b <> LF -> b <> NUL -> b <> IAC -> step Newline b = (Data, ABytes [CR; b]).
Proof. intros b H1 H2 H3. cbn [step]. now rewrite (neq_eqb _ _ H1), (neq_eqb _ _ H2), (neq_eqb _ _ H3). Qed.

(** CR-free application bytes: each source byte takes the machine from Data back to Data and is
    delivered as itself *)
Lemma sem_enc_crfree : forall s, cr_free s ->
  exists l, sem Data (flat_map enc s) = (Data, l)
            /\ forallb bytes_act l = true /\ acts_bytes l = s.
Proof.
  induction s as [|b s IH]; intros Hcr.
  - exists []. repeat split.
  - inversion Hcr as [|? ? Hb Hs]; subst. destruct (IH Hs) as (l & Hl & Hb1 & Hb2).
    cbn [flat_map]. unfold enc.
    destruct (N.eqb_spec b IAC) as [->|Hi].
    + exists (ANone :: ABytes [IAC] :: l). cbn [app]. split.
      * eapply sem_cons'; [reflexivity|]. eapply sem_cons'; [reflexivity|exact Hl].
      * split; [exact Hb1|]. unfold acts_bytes in *. cbn [flat_map act_bytes app]. now rewrite Hb2.
    + destruct (N.eqb_spec b LF) as [->|Hl'].
      * exists (ANone :: ABytes [LF] :: l). cbn [app]. split.
        -- eapply sem_cons'; [reflexivity|]. eapply sem_cons'; [reflexivity|exact Hl].
        -- split; [exact Hb1|]. unfold acts_bytes in *. cbn [flat_map act_bytes app]. now rewrite Hb2.
      * exists (ABytes [b] :: l). cbn [app]. split.
        -- eapply sem_cons'; [apply step_data_other; assumption|exact Hl].
        -- split; [exact Hb1|]. unfold acts_bytes in *. cbn [flat_map act_bytes app]. now rewrite Hb2.
Qed.

(** any application bytes (CR allowed): the machine stays in {Data, Newline}, produces application
    bytes only, and the IAC bytes delivered are exactly the IAC bytes sent *)
Definition quiet (st : pstate) : bool := match st with Data | Newline => true | _ => false end.

Lemma filter_iac_cons_ne : forall b l, b <> IAC -> filter is_iac (b :: l) = filter is_iac l.
Proof. intros b l Hb. cbn [filter]. unfold is_iac at 1. now rewrite (neq_eqb _ _ Hb). Qed.

Lemma sem_enc_any : forall s st, quiet st = true ->
  exists st' l, sem st (flat_map enc s) = (st', l) /\ quiet st' = true
            /\ forallb bytes_act l = true /\ filter is_iac (acts_bytes l) = filter is_iac s.
Proof.
  assert (CRne : CR <> IAC) by discriminate.
  induction s as [|b s IH]; intros st Hq.
  - exists st, []. repeat split. exact Hq.
  - cbn [flat_map]. unfold enc.
    destruct (N.eqb_spec b IAC) as [->|Hi].
    + destruct (IH Data eq_refl) as (st' & l & Hl & Hq' & Hb1 & Hb2).
      destruct st; try discriminate Hq.
      * exists st', (ANone :: ABytes [IAC] :: l). cbn [app]. split.
        { eapply sem_cons'; [reflexivity|]. eapply sem_cons'; [reflexivity|exact Hl]. }
        split; [exact Hq'|]. split; [exact Hb1|].
        unfold acts_bytes in *. cbn [flat_map act_bytes app]. cbn [filter]. unfold is_iac at 1 3.
        cbn [N.eqb IAC Pos.eqb]. now rewrite Hb2.
      * exists st', (ABytes [CR] :: ABytes [IAC] :: l). cbn [app]. split.
        { eapply sem_cons'; [reflexivity|]. eapply sem_cons'; [reflexivity|exact Hl]. }
        split; [exact Hq'|]. split; [exact Hb1|].
        unfold acts_bytes in *. cbn [flat_map act_bytes app]. rewrite (filter_iac_cons_ne _ _ CRne).
        cbn [filter]. unfold is_iac at 1 3. cbn [N.eqb IAC Pos.eqb]. now rewrite Hb2.
    + rewrite (filter_iac_cons_ne _ _ Hi).
      destruct (N.eqb_spec b LF) as [->|Hl'].
      * destruct (IH Data eq_refl) as (st' & l & Hl & Hq' & Hb1 & Hb2).
        destruct st; try discriminate Hq.
        -- exists st', (ANone :: ABytes [LF] :: l). cbn [app]. split.
           { eapply sem_cons'; [reflexivity|]. eapply sem_cons'; [reflexivity|exact Hl]. }
           split; [exact Hq'|]. split; [exact Hb1|].
           unfold acts_bytes in *. cbn [flat_map act_bytes app]. rewrite (filter_iac_cons_ne _ _ Hi). exact Hb2.
        -- exists st', (ABytes [CR; CR] :: ABytes [LF] :: l). cbn [app]. split.
           { eapply sem_cons'; [reflexivity|]. eapply sem_cons'; [reflexivity|exact Hl]. }
           split; [exact Hq'|]. split; [exact Hb1|].
           unfold acts_bytes in *. cbn [flat_map act_bytes app].
           rewrite !(filter_iac_cons_ne _ _ CRne), (filter_iac_cons_ne _ _ Hi). exact Hb2.
      * cbn [app]. destruct st; try discriminate Hq.
        -- destruct (N.eqb_spec b CR) as [->|Hc].
           ++ destruct (IH Newline eq_refl) as (st' & l & Hl & Hq' & Hb1 & Hb2).
              exists st', (ANone :: l). split.
              { eapply sem_cons'; [reflexivity|exact Hl]. }
              split; [exact Hq'|]. split; [exact Hb1|exact Hb2].
           ++ destruct (IH Data eq_refl) as (st' & l & Hl & Hq' & Hb1 & Hb2).
              exists st', (ABytes [b] :: l). split.
              { eapply sem_cons'; [apply step_data_other; assumption|exact Hl]. }
              split; [exact Hq'|]. split; [exact Hb1|].
              unfold acts_bytes in *. cbn [flat_map act_bytes app]. rewrite (filter_iac_cons_ne _ _ Hi). exact Hb2.
        -- destruct (IH Data eq_refl) as (st' & l & Hl & Hq' & Hb1 & Hb2).
           destruct (N.eqb_spec b NUL) as [->|Hn].
           ++ exists st', (ABytes [CR] :: l). split.
              { eapply sem_cons'; [reflexivity|exact Hl]. }
              split; [exact Hq'|]. split; [exact Hb1|].
              unfold acts_bytes in *. cbn [flat_map act_bytes app]. rewrite (filter_iac_cons_ne _ _ CRne). exact Hb2.
           ++ exists st', (ABytes [CR; b] :: l). split.
              { eapply sem_cons'; [apply step_nl_other; assumption|exact Hl]. }
              split; [exact Hq'|]. split; [exact Hb1|].
              unfold acts_bytes in *. cbn [flat_map act_bytes app].
              rewrite (filter_iac_cons_ne _ _ CRne), (filter_iac_cons_ne _ _ Hi). exact Hb2.
Qed.

(** from "only byte actions" to the event level *)
Lemma bytes_act_ok : forall l, forallb bytes_act l = true -> all_ok l = true.
Proof.
  induction l as [|a l IH]; [reflexivity|]. unfold all_ok in *. cbn [forallb]. intros H.
  apply andb_true_iff in H as [Ha Hl]. rewrite (IH Hl). destruct a; try discriminate Ha; reflexivity.
Qed.

Lemma bytes_act_syms : forall l, forallb bytes_act l = true -> acts_syms l = map SByte (acts_bytes l).
Proof.
  induction l as [|a l IH]; [reflexivity|]. cbn [forallb]. intros H.
  apply andb_true_iff in H as [Ha Hl]. unfold acts_syms, acts_bytes in *. cbn [flat_map].
  rewrite map_app, (IH Hl). destruct a; try discriminate Ha; reflexivity.
Qed.

Lemma flat_bytes_only : forall evs bs,
  flat_evs evs = map SByte bs -> forallb ev_ok evs = true ->
  forallb is_data evs = true /\ app_bytes evs = bs.
Proof.
  induction evs as [|e evs IH]; intros bs Hf Hok.
  - destruct bs; [split; reflexivity|discriminate Hf].
  - cbn [forallb] in Hok. apply andb_true_iff in Hok as [He Hok].
    unfold flat_evs in Hf. cbn [flat_map] in Hf. fold (flat_evs evs) in Hf.
    destruct e as [d|c a|c d|t].
    + cbn [ev_syms] in Hf.
      assert (Hsplit : exists bs2, bs = d ++ bs2 /\ flat_evs evs = map SByte bs2).
      { clear -Hf. revert bs Hf. induction d as [|x d IHd]; intros bs Hf.
        - exists bs. split; [reflexivity|exact Hf].
        - destruct bs as [|y bs]; [discriminate Hf|]. cbn in Hf. injection Hf as Hxy Hf.
          destruct (IHd bs Hf) as (bs2 & -> & H2). exists bs2. subst. split; [reflexivity|exact H2]. }
      destruct Hsplit as (bs2 & -> & H2). destruct (IH bs2 H2 Hok) as [I1 I2].
      split.
      * cbn [forallb]. rewrite I1. destruct d; [discriminate He|reflexivity].
      * unfold app_bytes in *. cbn [flat_map]. now rewrite I2.
    + destruct bs; discriminate Hf.
    + destruct bs; discriminate Hf.
    + destruct bs; discriminate Hf.
Qed.

(** ---- mixed streams: data, commands, subnegotiations ---- *)
Lemma sem_subneg_body : forall d cs,
  exists l, sem (Subneg cs) (replace1 IAC [IAC; IAC] d ++ [IAC; SE]) = (Data, l ++ [ASub (cs ++ d)])
            /\ acts_syms l = [] /\ all_ok l = true.
Proof.
  induction d as [|b d IH]; intros cs.
  - exists [ANone]. cbn [replace1 flat_map app]. rewrite app_nil_r. split; [|split; reflexivity].
    eapply sem_cons'; [reflexivity|]. eapply sem_cons'; [reflexivity|reflexivity].
  - unfold replace1. cbn [flat_map]. fold (replace1 IAC [IAC; IAC] d).
    destruct (IH (cs ++ [b])) as (l & Hl & Hs & Ho). rewrite <- app_assoc in Hl. cbn [app] in Hl.
    destruct (N.eqb_spec b IAC) as [->|Hb].
    + exists (ANone :: ANone :: l). cbn [app]. split; [|split; [exact Hs|exact Ho]].
      eapply sem_cons'; [reflexivity|]. eapply sem_cons'; [reflexivity|exact Hl].
    + exists (ANone :: l). cbn [app]. split; [|split; [exact Hs|exact Ho]].
      eapply sem_cons'; [cbn [step]; now rewrite (neq_eqb _ _ Hb)|exact Hl].
Qed.

Lemma acts_syms_app : forall a b, acts_syms (a ++ b) = acts_syms a ++ acts_syms b.
Proof. intros; apply flat_map_app. Qed.

Lemma sem_op : forall o, op_ok o ->
  exists l, sem Data (op_wire o) = (Data, l) /\ all_ok l = true /\ acts_syms l = op_syms o.
Proof.
  intros o Hok. destruct o as [s|ss|a d|bs]; cbn [op_ok op_wire op_syms] in *.
  - rewrite telnet_write_enc. destruct (sem_enc_crfree _ Hok) as (l & Hl & Hb1 & Hb2).
    exists l. split; [exact Hl|]. split; [apply bytes_act_ok, Hb1|]. now rewrite (bytes_act_syms _ Hb1), Hb2.
  - rewrite telnet_write_enc. destruct (sem_enc_crfree _ Hok) as (l & Hl & Hb1 & Hb2).
    exists l. split; [exact Hl|]. split; [apply bytes_act_ok, Hb1|]. now rewrite (bytes_act_syms _ Hb1), Hb2.
  - destruct (sem_subneg_body d [a]) as (l & Hl & Hs & Ho).
    exists (ANone :: ANone :: ANone :: l ++ [ASub (a :: d)]). cbn [app]. split; [|split].
    + eapply sem_cons'; [reflexivity|]. eapply sem_cons'; [reflexivity|].
      eapply sem_cons'; [cbn [step]; now rewrite (neq_eqb _ _ Hok)|exact Hl].
    + unfold all_ok in *. cbn [forallb negb bad andb]. rewrite forallb_app, Ho. reflexivity.
    + change (ANone :: ANone :: ANone :: l ++ [ASub (a :: d)]) with ([ANone; ANone; ANone] ++ l ++ [ASub (a :: d)]).
      rewrite !acts_syms_app, Hs. reflexivity.
  - destruct bs as [|i [|c [|o [|x bs]]]]; try contradiction.
    + destruct Hok as [-> Hc]. exists [ANone; ACmd c None]. split; [|split; reflexivity].
      eapply sem_cons'; [reflexivity|].
      assert (Hstep : step Escaped c = (Data, ACmd c None)); [|eapply sem_cons'; [exact Hstep|reflexivity]].
      cbn [step]. unfold is_simple in Hc.
      assert (Hne : (c =? IAC) = false /\ (c =? SB) = false).
      { cbn [existsb simple_cmds] in Hc. split; apply N.eqb_neq; intros ->; discriminate Hc. }
      destruct Hne as [-> ->]. unfold is_simple. now rewrite Hc.
    + destruct Hok as [-> Hc]. exists [ANone; ANone; ACmd c (Some o)]. split; [|split; reflexivity].
      eapply sem_cons'; [reflexivity|].
      assert (Hstep : step Escaped c = (Command c, ANone)); [|eapply sem_cons'; [exact Hstep|eapply sem_cons'; reflexivity]].
      cbn [step].
      assert (Hne : (c =? IAC) = false /\ (c =? SB) = false /\ is_simple c = false).
      { unfold is_neg in Hc. cbn [existsb neg_cmds] in Hc.
        repeat split; try (apply N.eqb_neq; intros ->; discriminate Hc).
        unfold is_simple. cbn [existsb simple_cmds].
        repeat (apply orb_true_iff in Hc as [Hc|Hc]; [apply N.eqb_eq in Hc; subst c; reflexivity|]). discriminate Hc. }
      destruct Hne as (-> & -> & ->). now rewrite Hc.
Qed.

Lemma sem_ops : forall ops, Forall op_ok ops ->
  exists l, sem Data (wire ops) = (Data, l) /\ all_ok l = true /\ acts_syms l = flat_map op_syms ops.
Proof.
  induction ops as [|o ops IH]; intros Hok.
  - exists []. repeat split.
  - inversion Hok as [|? ? Ho Hops]; subst. destruct (IH Hops) as (l2 & Hl2 & Ho2 & Hs2).
    destruct (sem_op o Ho) as (l1 & Hl1 & Ho1 & Hs1).
    exists (l1 ++ l2). unfold wire. cbn [flat_map]. fold (wire ops). rewrite sem_app, Hl1, Hl2.
    split; [reflexivity|]. split; [now rewrite all_ok_app, Ho1, Ho2|]. now rewrite acts_syms_app, Hs1, Hs2.
Qed.

(** ---- the property theorems ---- *)
Lemma roundtrip_any_segmentation : forall ops cs,
  forallb is_data_op ops = true -> cr_free (payload ops) -> concat cs = wire ops ->
  fst (run Data cs) = Data
  /\ forallb is_data (snd (run Data cs)) = true
  /\ app_bytes (snd (run Data cs)) = payload ops.
Proof.
  intros ops cs Hd Hcr Hw. rewrite (wire_enc _ Hd) in Hw.
  destruct (sem_enc_crfree _ Hcr) as (l & Hl & Hb1 & Hb2).
  assert (Hc : clean Data (concat cs) = true).
  { unfold clean. rewrite Hw, Hl. apply (bytes_act_ok _ Hb1). }
  destruct (run_sem cs Data Hc) as [R1 R2]. rewrite Hw, Hl in R1, R2. cbn [fst snd] in R1, R2.
  rewrite (bytes_act_syms _ Hb1), Hb2 in R2.
  split; [exact R1|]. apply flat_bytes_only; [exact R2|apply run_ok].
Qed.

Lemma iac_never_command : forall ops cs,
  forallb is_data_op ops = true -> concat cs = wire ops ->
  quiet (fst (run Data cs)) = true
  /\ forallb is_data (snd (run Data cs)) = true
  /\ filter is_iac (app_bytes (snd (run Data cs))) = filter is_iac (payload ops).
Proof.
  intros ops cs Hd Hw. rewrite (wire_enc _ Hd) in Hw.
  destruct (sem_enc_any (payload ops) Data eq_refl) as (st' & l & Hl & Hq & Hb1 & Hb2).
  assert (Hc : clean Data (concat cs) = true).
  { unfold clean. rewrite Hw, Hl. apply (bytes_act_ok _ Hb1). }
  destruct (run_sem cs Data Hc) as [R1 R2]. rewrite Hw, Hl in R1, R2. cbn [fst snd] in R1, R2.
  rewrite (bytes_act_syms _ Hb1) in R2.
  destruct (flat_bytes_only _ _ R2 (run_ok cs Data)) as [F1 F2].
  rewrite R1, F2. repeat split; [exact Hq|exact F1|exact Hb2].
Qed.

Lemma mixed_stream : forall ops cs,
  Forall op_ok ops -> concat cs = wire ops ->
  fst (run Data cs) = Data /\ flat_evs (snd (run Data cs)) = flat_map op_syms ops.
Proof.
  intros ops cs Hok Hw. destruct (sem_ops ops Hok) as (l & Hl & Ho & Hs).
  assert (Hc : clean Data (concat cs) = true) by (unfold clean; rewrite Hw, Hl; exact Ho).
  destruct (run_sem cs Data Hc) as [R1 R2]. rewrite Hw, Hl in R1, R2. cbn [fst snd] in R1, R2.
  split; [exact R1|]. now rewrite R2, Hs.
Qed.

(** the hypotheses are inhabited by a non-trivial input: IAC, LF and command bytes in the data, a
    command and a subnegotiation carrying IAC in between, delivered byte by byte *)
Example mixed_example :
  let ops := [Write [65; 255; 10; 251]; Raw [255; 253; 1]; WriteSeq [[255]; [244; 10]];
              ReqNeg 31 [0; 255; 240]; Write [255]] in
  Forall op_ok ops
  /\ flat_evs (snd (run Data (map (fun b => [b]) (wire ops)))) = flat_map op_syms ops
  /\ wire ops = [65; 255; 255; 13; 10; 251; 255; 253; 1; 255; 255; 244; 13; 10;
                 255; 250; 31; 0; 255; 255; 240; 255; 240; 255; 255].
Proof.
  cbv zeta. split; [|split; vm_compute; reflexivity].
  repeat constructor; cbn; try discriminate; intros H; discriminate H.
Qed.
