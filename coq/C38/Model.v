(** C38: telnet transparency (src/twisted/conch/telnet.py).

    Sender:   TelnetTransport.write = data.replace(IAC, IAC IAC) then (ProtocolTransportMixin.write)
              .replace(LF, CR LF); writeSequence(seq) as repaired by fixes/C38-writesequence-escaping.patch
              = write(b"".join(seq))   (the pinned code hands seq to the raw transport unescaped).
    Receiver: Telnet.dataReceived, the byte-wise state machine, with the exact grouping of
              applicationDataReceived calls (one local buffer per dataReceived call, flushed before every
              command / subnegotiation callback and at the end of the call) and the two exceptions the
              code can raise (ValueError "Stumped": buffer of the call lost, state unchanged, rest of the
              chunk dropped; IndexError from negotiate([]) on IAC SB IAC SE).
    Bytes are N; every definition and theorem is for all N (a superset of bytes). *)
From Coq Require Import List NArith Bool.
Import ListNotations.
Local Open Scope N_scope.

Definition NUL : N := 0.
Definition LF : N := 10.
Definition CR : N := 13.
Definition SE : N := 240.
Definition SB : N := 250.
Definition IAC : N := 255.

(** [b in (EOR, NOP, DM, BRK, IP, AO, AYT, EC, EL, GA)] *)
Definition simple_cmds : list N := [239; 241; 242; 243; 244; 245; 246; 247; 248; 249].
Definition is_simple (b : N) : bool := existsb (N.eqb b) simple_cmds.
(** [b in (WILL, WONT, DO, DONT)] *)
Definition neg_cmds : list N := [251; 252; 253; 254].
Definition is_neg (b : N) : bool := existsb (N.eqb b) neg_cmds.

(** ---- receiver ---- *)
Inductive pstate :=
| Data | Escaped | Command (c : N) | Newline | Subneg (cmds : list N) | SubnegEsc (cmds : list N).

(** what one byte does besides changing the state *)
Inductive act :=
| ANone
| ABytes (l : list N)               (* appDataBuffer.append(...) *)
| ACmd (c : N) (arg : option N)     (* flush; commandReceived(c, arg) *)
| ASub (cmds : list N)              (* flush; negotiate(cmds)  (cmds = [] raises IndexError) *)
| AStumped.                         (* raise ValueError("Stumped", b) *)

Definition step (st : pstate) (b : N) : pstate * act :=
  match st with
  | Data =>
      if b =? IAC then (Escaped, ANone)
      else if b =? CR then (Newline, ANone)
      else (Data, ABytes [b])
  | Escaped =>
      if b =? IAC then (Data, ABytes [b])
      else if b =? SB then (Subneg [], ANone)
      else if is_simple b then (Data, ACmd b None)
      else if is_neg b then (Command b, ANone)
      else (Escaped, AStumped)
  | Command c => (Data, ACmd c (Some b))
  | Newline =>
      if b =? LF then (Data, ABytes [LF])
      else if b =? NUL then (Data, ABytes [CR])
      else if b =? IAC then (Escaped, ABytes [CR])
      else (Data, ABytes [CR; b])
  | Subneg cs =>
      if b =? IAC then (SubnegEsc cs, ANone) else (Subneg (cs ++ [b]), ANone)
  | SubnegEsc cs =>
      if b =? SE then (Data, ASub cs) else (Subneg (cs ++ [b]), ANone)
  end.

(** API-level events: the callbacks made (and the exception that left dataReceived, if any) *)
Inductive ev :=
| EData (bs : list N)               (* applicationDataReceived(bs) *)
| ECmd (c : N) (arg : option N)     (* commandReceived(c, arg) *)
| ESub (c : N) (data : list N)      (* unhandledSubnegotiation(c, data)  (negotiationMap empty) *)
| EErr (tag : N).                   (* 0 = ValueError (Stumped), 1 = IndexError (empty subnegotiation) *)

(** the local appDataBuffer is kept reversed *)
Definition flush (buf : list N) : list ev :=
  match buf with [] => [] | _ => [EData (rev buf)] end.

(** one dataReceived(bs) call *)
Fixpoint feed (st : pstate) (buf : list N) (bs : list N) : pstate * list ev :=
  match bs with
  | [] => (st, flush buf)
  | b :: r =>
      let '(st', a) := step st b in
      match a with
      | ANone => feed st' buf r
      | ABytes l => feed st' (rev_append l buf) r
      | ACmd c arg => let '(s2, evs) := feed st' [] r in (s2, flush buf ++ ECmd c arg :: evs)
      | ASub [] => (st', flush buf ++ [EErr 1])
      | ASub (c :: d) => let '(s2, evs) := feed st' [] r in (s2, flush buf ++ ESub c d :: evs)
      | AStumped => (st, [EErr 0])
      end
  end.

(** a sequence of dataReceived calls (the network's segmentation of the stream) *)
Fixpoint run (st : pstate) (cs : list (list N)) : pstate * list ev :=
  match cs with
  | [] => (st, [])
  | c :: r => let '(s1, e1) := feed st [] c in let '(s2, e2) := run s1 r in (s2, e1 ++ e2)
  end.

(** ---- sender ---- *)
(** bytes.replace with a one-byte pattern *)
Definition replace1 (x : N) (rep : list N) (s : list N) : list N :=
  flat_map (fun b => if b =? x then rep else [b]) s.

Definition telnet_write (s : list N) : list N :=
  replace1 LF [CR; LF] (replace1 IAC [IAC; IAC] s).

(** the calls that put bytes on the wire: write, writeSequence, requestNegotiation(about, data)
    (= IAC SB about data.replace(IAC, IAC IAC) IAC SE), and [Raw]: bytes handed to the underlying
    transport directly (what _do/_dont/_will/_wont do; also used for malformed streams) *)
Inductive op :=
| Write (s : list N) | WriteSeq (ss : list (list N)) | ReqNeg (about : N) (data : list N) | Raw (bs : list N).

Definition op_wire (o : op) : list N :=
  match o with
  | Write s => telnet_write s
  | WriteSeq ss => telnet_write (concat ss)
  | ReqNeg a d => [IAC; SB; a] ++ replace1 IAC [IAC; IAC] d ++ [IAC; SE]
  | Raw bs => bs
  end.
Definition op_payload (o : op) : list N :=
  match o with Write s => s | WriteSeq ss => concat ss | _ => [] end.
Definition is_data_op (o : op) : bool := match o with Write _ | WriteSeq _ => true | _ => false end.
Definition wire (ops : list op) : list N := flat_map op_wire ops.
Definition payload (ops : list op) : list N := flat_map op_payload ops.

(** ---- vocabulary of the theorems ---- *)
(** the reference encoding: one pass, IAC doubled, LF sent as CR LF *)
Definition enc (b : N) : list N :=
  if b =? IAC then [IAC; IAC] else if b =? LF then [CR; LF] else [b].

(** events / actions flattened to a stream of symbols (so that the grouping of application bytes
    into callbacks, which legitimately depends on the segmentation, is factored out) *)
Inductive sym := SByte (b : N) | SCmd (c : N) (arg : option N) | SSub (c : N) (d : list N) | SErr (t : N).

Definition ev_syms (e : ev) : list sym :=
  match e with
  | EData bs => map SByte bs
  | ECmd c a => [SCmd c a]
  | ESub c d => [SSub c d]
  | EErr t => [SErr t]
  end.
Definition flat_evs (l : list ev) : list sym := flat_map ev_syms l.

Definition act_syms (a : act) : list sym :=
  match a with
  | ANone => []
  | ABytes l => map SByte l
  | ACmd c a => [SCmd c a]
  | ASub [] => [SErr 1]
  | ASub (c :: d) => [SSub c d]
  | AStumped => [SErr 0]
  end.

(** the whole stream through the byte machine, no chunking, no exceptions: the reference semantics *)
Fixpoint sem (st : pstate) (bs : list N) : pstate * list act :=
  match bs with
  | [] => (st, [])
  | b :: r => let '(st', a) := step st b in let '(s2, l) := sem st' r in (s2, a :: l)
  end.

Definition bad (a : act) : bool :=
  match a with AStumped | ASub [] => true | _ => false end.
(** the stream raises no exception anywhere *)
Definition clean (st : pstate) (bs : list N) : bool := forallb (fun a => negb (bad a)) (snd (sem st bs)).

Definition is_data (e : ev) : bool := match e with EData (_ :: _) => true | _ => false end.
Definition app_bytes (l : list ev) : list N :=
  flat_map (fun e => match e with EData bs => bs | _ => [] end) l.
Definition cr_free (s : list N) : Prop := Forall (fun b => b <> CR) s.
Definition is_iac (b : N) : bool := b =? IAC.

(** a well-formed mixed stream: CR-free application data, simple commands, option commands,
    subnegotiations sent with requestNegotiation *)
Definition op_ok (o : op) : Prop :=
  match o with
  | Write s => cr_free s
  | WriteSeq ss => cr_free (concat ss)
  | ReqNeg a d => a <> IAC
  | Raw [i; c] => i = IAC /\ is_simple c = true
  | Raw [i; c; o] => i = IAC /\ is_neg c = true
  | Raw _ => False
  end.
Definition op_syms (o : op) : list sym :=
  match o with
  | Write s => map SByte s
  | WriteSeq ss => map SByte (concat ss)
  | ReqNeg a d => [SSub a d]
  | Raw [i; c] => [SCmd c None]
  | Raw [i; c; o] => [SCmd c (Some o)]
  | Raw _ => []
  end.

(** splitting a stream into deliveries of the given sizes (remainder = last delivery); harness only *)
Fixpoint split_by (lens : list nat) (bs : list N) : list (list N) :=
  match lens with
  | [] => match bs with [] => [] | _ => [bs] end
  | n :: r => match bs with
              | [] => []
              | _ => firstn (S n) bs :: split_by r (skipn (S n) bs)
              end
  end.
