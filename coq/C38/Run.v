(** C38: printers used by the correspondence check only. *)
From Coq Require Import List NArith Bool String.
From TwLib Require Import Show.
From C38 Require Import Model.
Import ListNotations.
Local Open Scope string_scope.

Definition show_arg (a : option N) : string :=
  match a with None => "-" | Some b => show_hex [b] end.

Definition show_ev (e : ev) : string :=
  match e with
  | EData bs => "D:" ++ show_hex bs
  | ECmd c a => "C:" ++ show_hex [c] ++ ":" ++ show_arg a
  | ESub c d => "S:" ++ show_hex [c] ++ ":" ++ show_hex d
  | EErr 0%N => "!ValueError"
  | EErr _ => "!IndexError"
  end.

Definition show_state (s : pstate) : string :=
  match s with
  | Data => "data" | Escaped => "escaped" | Command _ => "command" | Newline => "newline"
  | Subneg _ => "subnegotiation" | SubnegEsc _ => "subnegotiation-escaped"
  end.

(** input: the operations that put bytes on the wire, delivery sizes - 1 *)
Definition run_show (c : list op * list nat) : string :=
  let '(ops, lens) := c in
  let w := wire ops in
  let '(s, es) := run Data (split_by lens w) in
  "w=" ++ show_hex w ++ " e=" ++ String.concat " " (map show_ev es) ++ " s=" ++ show_state s.
