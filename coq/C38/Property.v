(** C38 property theorems: telnet carries application bytes transparently.
    [run Data cs] = a fresh Telnet receiving the deliveries [cs] (one dataReceived call each);
    [wire ops] = the bytes the sending TelnetTransport hands to its transport for the calls [ops]. *)
From Coq Require Import List NArith Bool.
From C38 Require Import Model Proofs.
Import ListNotations.
Local Open Scope N_scope.

(** For any CR-free byte strings written with write / writeSequence in any grouping, and ANY segmentation
    [cs] of the wire stream: the receiver makes only applicationDataReceived calls (no command, no
    subnegotiation, no exception), each with at least one byte, their concatenation is exactly the
    bytes written, and the parser is back in state "data". *)
Theorem app_bytes_roundtrip_any_segmentation : forall (ops : list op) (cs : list (list N)),
  forallb is_data_op ops = true ->
  cr_free (payload ops) ->
  concat cs = wire ops ->
  fst (run Data cs) = Data
  /\ forallb is_data (snd (run Data cs)) = true
  /\ app_bytes (snd (run Data cs)) = payload ops.
Proof. exact roundtrip_any_segmentation. Qed.
Print Assumptions app_bytes_roundtrip_any_segmentation.

(** For ANY byte strings (CR allowed) written with write / writeSequence and any segmentation: still
    nothing but application data is delivered (an IAC in application data is never interpreted as a
    command), and the IAC bytes delivered are exactly the IAC bytes written (none lost, none invented). *)
Theorem IAC_data_never_a_command : forall (ops : list op) (cs : list (list N)),
  forallb is_data_op ops = true ->
  concat cs = wire ops ->
  quiet (fst (run Data cs)) = true
  /\ forallb is_data (snd (run Data cs)) = true
  /\ filter is_iac (app_bytes (snd (run Data cs))) = filter is_iac (payload ops).
Proof. exact iac_never_command. Qed.
Print Assumptions IAC_data_never_a_command.

(** Application data interleaved with telnet commands and subnegotiations (requestNegotiation, whose
    payload may contain IAC): under any segmentation the receiver sees exactly the written bytes, the
    commands and the subnegotiation payloads, in order. *)
Theorem mixed_stream_roundtrip : forall (ops : list op) (cs : list (list N)),
  Forall op_ok ops ->
  concat cs = wire ops ->
  fst (run Data cs) = Data /\ flat_evs (snd (run Data cs)) = flat_map op_syms ops.
Proof. exact mixed_stream. Qed.
Print Assumptions mixed_stream_roundtrip.

(** nothing_lost / segmentation invariance for every wire stream (commands, subnegotiations, bare CR,
    anything) that raises no exception when parsed: all segmentations deliver the same symbols and
    leave the parser in the same state, from any parser state. *)
Theorem nothing_lost_any_segmentation : forall (cs1 cs2 : list (list N)) (st : pstate),
  concat cs1 = concat cs2 -> clean st (concat cs1) = true ->
  fst (run st cs1) = fst (run st cs2) /\ flat_evs (snd (run st cs1)) = flat_evs (snd (run st cs2)).
Proof. exact segmentation_invariant. Qed.
Print Assumptions nothing_lost_any_segmentation.

(** applicationDataReceived is never called with an empty string, whatever arrives *)
Theorem no_empty_data_callback : forall (cs : list (list N)) (st : pstate),
  forallb ev_ok (snd (run st cs)) = true.
Proof. exact run_ok. Qed.
Print Assumptions no_empty_data_callback.

(** line feeds are sent as CR LF and IAC doubled, in one pass, nothing else is touched *)
Theorem wire_is_reference_encoding : forall ops : list op,
  forallb is_data_op ops = true -> wire ops = flat_map enc (payload ops).
Proof. exact wire_enc. Qed.
Print Assumptions wire_is_reference_encoding.
