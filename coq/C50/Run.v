(** C50: printers used by the correspondence check only. *)
From Coq Require Import List Arith Bool String.
From TwLib Require Import Show LtsRun.
From C50 Require Import Model.
Import ListNotations.
Local Open Scope string_scope.

(** compact trace: one letter per step (the pid that moved is the schedule entry, not repeated),
    digits only for pids read from the link.  harness/c50.py expands it for messages.
      x dead pid, no step        A symlink ok, lock()=True clean    B symlink ok, lock()=True not clean
      e symlink EEXIST           n readlink ENOENT (lock)           r<q> readlink -> q (lock)
      a kill ok, lock()=False    d kill ESRCH                       m rmlink ok (lock)     g rmlink ENOENT (lock)
      o readlink -> own pid (unlock)   V<q> readlink -> q, ValueError   O readlink ENOENT, OSError
      U rmlink ok, unlock() returns    Q rmlink ENOENT, OSError *)
Definition show_ev (e : ev) : string :=
  match e with
  | ESkip => "x"
  | ESymOk c => if c then "A" else "B"
  | ESymExists => "e"
  | EReadGone => "n"
  | ERead q => "r" ++ show_nat q
  | EKillAlive => "a"
  | EKillDead => "d"
  | ERmOk => "m"
  | ERmGone => "g"
  | EUReadOwn => "o"
  | EUNotOwner q => "V" ++ show_nat q
  | EUGone => "O"
  | EURmOk => "U"
  | EURmGone => "Q"
  end.

(** case = (dead pids, cas, number of live processes n (pids 0..n-1), initial link, initial holder,
    processes that start with unlock() on an inherited object, processes that release twice, schedule) *)
Definition run_show (c : list pid * bool * nat * option pid * option pid * list pid * list pid * list pid) : string :=
  let '(ds, cas, n, l0, held, us, dbls, sched) := c in
  let '(s, es) := exec_log (dead_of ds) cas (dead_of dbls) (init_fork l0 held us) sched in
  String.concat "" (map show_ev es)
  ++ "|" ++ match link s with None => "-" | Some q => show_nat q end
  ++ "|" ++ String.concat "," (map show_nat (filter (holds s) (seq 0 n))).
