(** C50: FilesystemLock (src/twisted/python/lockfile.py, POSIX branch) as a labelled transition
    system: any number of processes, each identified with its pid, step through
    [lock()] / [unlock()] one *primitive call* at a time ([symlink], [readlink], [kill], [rmlink]);
    the only shared state is the lock path, which is either absent or a symlink whose content is a pid.
    One schedule entry [p] = "process p performs its next primitive call, atomically, together with
    the local computation up to its next primitive call".  A schedule (list of pids) is one
    interleaving; theorems quantify over all schedules, hence all interleavings and all N.

    [dead q = true]: no process with pid q exists ([kill(q,0)] raises ESRCH); such a pid never steps.
    [cas]: [false] = the code as it is ([rmlink] removes whatever is at the path);
           [true]  = the hypothetical repair "remove the link only if it still holds the pid found dead"
                     (atomic compare-and-remove), used to delimit the known-finding class. *)
From Coq Require Import List Arith Bool.
From TwLib Require Import LtsRun.
Import ListNotations.

Definition pid := nat.

(** where a process is: the primitive call it performs next *)
Inductive loc :=
| Idle                           (* in no call, not holding; next step starts lock(): symlink *)
| LSym (clean : bool)            (* lock(): loops back to symlink *)
| LRead (clean : bool)           (* lock(): symlink said EEXIST; readlink next *)
| LKill (clean : bool) (q : pid) (* lock(): read owner q; kill(q,0) next *)
| LRm (clean : bool) (q : pid)   (* lock(): kill said ESRCH for q; rmlink next *)
| Held (clean : bool)            (* lock() returned True (self.clean = clean); next step starts unlock(): readlink *)
| URm                            (* unlock(): link content was own pid; rmlink next *)
| UStart.                        (* holds nothing, but its next step starts unlock() (a lock object inherited
                                    across fork with locked = True, or plain misuse); readlink next *)

Inductive ev :=
| ESkip                          (* dead pid scheduled: nothing happens *)
| ESymOk (clean : bool)          (* symlink created; lock() returns True *)
| ESymExists                     (* symlink: EEXIST *)
| EReadGone                      (* lock(): readlink ENOENT -> retry *)
| ERead (q : pid)                (* lock(): readlink -> q *)
| EKillAlive                     (* kill ok; lock() returns False *)
| EKillDead                      (* kill: ESRCH *)
| ERmOk                          (* lock(): stale link removed; clean := False; retry *)
| ERmGone                        (* lock(): rmlink ENOENT (or compare failed when cas) -> retry *)
| EUReadOwn                      (* unlock(): readlink -> own pid *)
| EUNotOwner (q : pid)           (* unlock(): readlink -> q <> own pid; ValueError *)
| EUGone                         (* unlock(): readlink ENOENT; OSError propagates *)
| EURmOk                         (* unlock(): link removed; unlock() returns *)
| EURmGone.                      (* unlock(): rmlink ENOENT; OSError propagates *)

Record st := mk { link : option pid; pc : pid -> loc }.

Definition upd (f : pid -> loc) (p : pid) (v : loc) : pid -> loc :=
  fun q => if Nat.eqb q p then v else f q.

Definition holds (s : st) (p : pid) : bool :=
  match pc s p with Held _ | URm => true | _ => false end.

Section Protocol.
  Variable dead : pid -> bool.
  Variable cas : bool.
  Variable dbl : pid -> bool.   (* [dbl p]: after every release p calls unlock() once more (a double release) *)

  Definition goto (s : st) (p : pid) (v : loc) : st := mk (link s) (upd (pc s) p v).

  Definition sym (s : st) (p : pid) (c : bool) : st * ev :=
    match link s with
    | None => (mk (Some p) (upd (pc s) p (Held c)), ESymOk c)
    | Some _ => (goto s p (LRead c), ESymExists)
    end.

  Definition stepe (s : st) (p : pid) : st * ev :=
    if dead p then (s, ESkip) else
    match pc s p with
    | Idle => sym s p true
    | LSym c => sym s p c
    | LRead c =>
        match link s with
        | None => (goto s p (LSym c), EReadGone)
        | Some q => (goto s p (LKill c q), ERead q)
        end
    | LKill c q =>
        if dead q then (goto s p (LRm c q), EKillDead) else (goto s p Idle, EKillAlive)
    | LRm c q =>
        match link s with
        | None => (goto s p (LSym c), ERmGone)
        | Some r =>
            if cas && negb (Nat.eqb r q) then (goto s p (LSym c), ERmGone)
            else (mk None (upd (pc s) p (LSym false)), ERmOk)
        end
    | Held c =>
        match link s with
        | None => (goto s p Idle, EUGone)
        | Some q => if Nat.eqb q p then (goto s p URm, EUReadOwn) else (goto s p Idle, EUNotOwner q)
        end
    | URm =>
        match link s with
        | None => (goto s p Idle, EURmGone)
        | Some _ => (mk None (upd (pc s) p (if dbl p then UStart else Idle)), EURmOk)
        end
    | UStart =>
        match link s with
        | None => (goto s p Idle, EUGone)
        | Some q => if Nat.eqb q p then (goto s p URm, EUReadOwn) else (goto s p Idle, EUNotOwner q)
        end
    end.

  Definition step (s : st) (p : pid) : st := fst (stepe s p).

  (** state after a schedule / state and event log after a schedule *)
  Definition exec (s : st) (sched : list pid) : st := run step s sched.
  Definition exec_log (s : st) (sched : list pid) : st * list ev := rune stepe s sched.
End Protocol.

(** every process idle; the lock path absent ([None]) or a link left behind with content [q] *)
Definition init (l0 : option pid) : st := mk l0 (fun _ => Idle).

(** a start after forks: process [h] (if any) already holds the lock it acquired on a free path, and the
    processes in [us] are forked copies whose first call is unlock() on the inherited object *)
Definition init_fork (l0 : option pid) (held : option pid) (us : list pid) : st :=
  mk (match held with Some h => Some h | None => l0 end)
     (fun p => match held with
               | Some h => if Nat.eqb p h then Held true else if existsb (Nat.eqb p) us then UStart else Idle
               | None => if existsb (Nat.eqb p) us then UStart else Idle
               end).

Definition dead_of (ds : list pid) : pid -> bool := fun p => existsb (Nat.eqb p) ds.
