(** C50: invariants of the FilesystemLock protocol over every interleaving. *)
From Coq Require Import List Arith Bool Lia.
From TwLib Require Import LtsRun.
From C50 Require Import Model.
Import ListNotations.

Lemma upd_same f p v : upd f p v p = v.
Proof. unfold upd. rewrite Nat.eqb_refl. reflexivity. Qed.

Lemma upd_other f p v q : q <> p -> upd f p v q = f q.
Proof. intros H. unfold upd. destruct (Nat.eqb_spec q p); [contradiction | reflexivity]. Qed.

Section Proofs.
  Variable dead : pid -> bool.
  Variable cas : bool.
  Variable dbl : pid -> bool.
  Notation stepe := (stepe dead cas dbl).
  Notation step := (step dead cas dbl).
  Notation exec := (exec dead cas dbl).

  (** the inductive invariant.
      I1  a holder's pid is the link content, and holders are alive;
      I2  a process is about to remove a link only for an owner it found dead, and (code as it is)
          only in the repaired protocol -- with [cas = false] that location is unreachable under I3/I4;
      I3  (cas = false) the link never names a dead pid;
      I4  (cas = false) a pid read from the link is not dead. *)
  Definition Inv (s : st) : Prop :=
    (forall p, holds s p = true -> link s = Some p /\ dead p = false)
    /\ (forall p c q, pc s p = LRm c q -> dead q = true /\ cas = true)
    /\ (cas = false -> forall q, link s = Some q -> dead q = false)
    /\ (cas = false -> forall p c q, pc s p = LKill c q -> dead q = false).

  Lemma holds_upd_other f l p v q : q <> p -> holds (mk l (upd f p v)) q = holds (mk l f) q.
  Proof. intros H. unfold holds. cbn. rewrite upd_other by exact H. reflexivity. Qed.

  Lemma holds_upd_same f l p v :
    holds (mk l (upd f p v)) p = match v with Held _ | URm => true | _ => false end.
  Proof. unfold holds. cbn. rewrite upd_same. reflexivity. Qed.

  (** generic preservation when process [p] moves to a non-holding location [v] that is neither
      [LRm] nor [LKill], leaving the link alone *)
  Ltac split_inv := split; [|split; [|split]].

  Lemma inv_goto s p v :
    Inv s ->
    (match v with Held _ | URm => False | _ => True end) ->
    (forall c q, v = LRm c q -> dead q = true /\ cas = true) ->
    (cas = false -> forall c q, v = LKill c q -> dead q = false) ->
    Inv (goto s p v).
  Proof.
    intros (I1 & I2 & I3 & I4) Hv Hrm Hk. unfold goto. split_inv.
    - intros r Hr. cbn [link]. destruct (Nat.eq_dec r p) as [->|Hne].
      + rewrite holds_upd_same in Hr. destruct v; try discriminate; contradiction.
      + rewrite holds_upd_other in Hr by exact Hne. apply I1. destruct s; exact Hr.
    - intros r c q Hr. cbn [pc] in Hr. destruct (Nat.eq_dec r p) as [->|Hne].
      + rewrite upd_same in Hr. eapply Hrm, Hr.
      + rewrite upd_other in Hr by exact Hne. eapply I2, Hr.
    - intros Hc q Hq. cbn [link] in Hq. eapply I3; eassumption.
    - intros Hc r c q Hr. cbn [pc] in Hr. destruct (Nat.eq_dec r p) as [->|Hne].
      + rewrite upd_same in Hr. eapply Hk; eassumption.
      + rewrite upd_other in Hr by exact Hne. eapply I4; eassumption.
  Qed.

  (** a successful symlink by a live process when the path is absent *)
  Lemma inv_sym_ok s p c :
    Inv s -> link s = None -> dead p = false -> Inv (mk (Some p) (upd (pc s) p (Held c))).
  Proof.
    intros (I1 & I2 & I3 & I4) Hl Hp. split_inv.
    - intros r Hr. cbn [link]. destruct (Nat.eq_dec r p) as [->|Hne]; [split; [reflexivity | exact Hp]|].
      rewrite holds_upd_other in Hr by exact Hne.
      assert (H : holds s r = true) by (destruct s; exact Hr).
      apply I1 in H. rewrite Hl in H. destruct H; discriminate.
    - intros r c' q Hr. cbn [pc] in Hr. destruct (Nat.eq_dec r p) as [->|Hne].
      + rewrite upd_same in Hr. discriminate.
      + rewrite upd_other in Hr by exact Hne. eapply I2, Hr.
    - intros Hc q Hq. cbn [link] in Hq. inversion Hq; subst. exact Hp.
    - intros Hc r c' q Hr. cbn [pc] in Hr. destruct (Nat.eq_dec r p) as [->|Hne].
      + rewrite upd_same in Hr. discriminate.
      + rewrite upd_other in Hr by exact Hne. eapply I4; eassumption.
  Qed.

  (** removing the link when no *other* process holds it, the mover going to non-holding [v] *)
  Lemma inv_remove s p v :
    Inv s ->
    (forall r, r <> p -> holds s r = false) ->
    (match v with Idle | LSym _ | UStart => True | _ => False end) ->
    Inv (mk None (upd (pc s) p v)).
  Proof.
    intros (I1 & I2 & I3 & I4) Hno Hv. split_inv.
    - intros r Hr. destruct (Nat.eq_dec r p) as [->|Hne].
      + rewrite holds_upd_same in Hr. destruct v; try discriminate; contradiction.
      + rewrite holds_upd_other in Hr by exact Hne.
        assert (H : holds s r = true) by (destruct s; exact Hr).
        rewrite Hno in H by exact Hne. discriminate.
    - intros r c q Hr. cbn [pc] in Hr. destruct (Nat.eq_dec r p) as [->|Hne].
      + rewrite upd_same in Hr. destruct v; try discriminate; contradiction.
      + rewrite upd_other in Hr by exact Hne. eapply I2, Hr.
    - intros Hc q Hq. discriminate.
    - intros Hc r c q Hr. cbn [pc] in Hr. destruct (Nat.eq_dec r p) as [->|Hne].
      + rewrite upd_same in Hr. destruct v; try discriminate; contradiction.
      + rewrite upd_other in Hr by exact Hne. eapply I4; eassumption.
  Qed.

  Lemma inv_sym s p c : Inv s -> dead p = false -> Inv (fst (sym s p c)).
  Proof.
    intros HI Hp. unfold sym. destruct (link s) as [q|] eqn:El; cbn [fst].
    - apply inv_goto; [exact HI | exact I | intros; discriminate | intros; discriminate].
    - apply inv_sym_ok; assumption.
  Qed.

  Lemma step_inv s p : Inv s -> Inv (step s p).
  Proof.
    intros HI. unfold Model.step, Model.stepe.
    destruct (dead p) eqn:Ep; [exact HI|].
    destruct (pc s p) as [|c|c|c q|c q|c| |] eqn:Epc.
    - apply inv_sym; assumption.
    - apply inv_sym; assumption.
    - destruct (link s) as [q|] eqn:El; cbn [fst].
      + apply inv_goto; [exact HI | exact I | intros; discriminate |].
        intros Hc c' q' E. inversion E; subst. destruct HI as (_ & _ & I3 & _). eapply I3; eassumption.
      + apply inv_goto; [exact HI | exact I | intros; discriminate | intros; discriminate].
    - destruct (dead q) eqn:Eq; cbn [fst].
      + apply inv_goto; [exact HI | exact I | | intros; discriminate].
        intros c' q' E. inversion E; subst. split; [exact Eq|].
        destruct cas eqn:Ec; [reflexivity|]. destruct HI as (_ & _ & _ & I4).
        rewrite (I4 Ec _ _ _ Epc) in Eq. discriminate.
      + apply inv_goto; [exact HI | exact I | intros; discriminate | intros; discriminate].
    - pose proof HI as HI'. destruct HI as (I1 & I2 & I3 & I4). destruct (I2 _ _ _ Epc) as [Hdq Hcas].
      destruct (link s) as [r|] eqn:El; cbn [fst].
      + destruct (cas && negb (Nat.eqb r q)) eqn:Eg; cbn [fst].
        * apply inv_goto; [exact HI' | exact I | intros; discriminate | intros; discriminate].
        * (* the link is removed: with cas, r = q, which is dead, so no holder owns it *)
          rewrite Hcas in Eg. cbn in Eg. apply negb_false_iff, Nat.eqb_eq in Eg. subst r.
          apply inv_remove; [exact HI' | | exact I].
          intros r Hne. destruct (holds s r) eqn:Hh; [|reflexivity].
          destruct (I1 _ Hh) as [E Hd]. congruence.
      + apply inv_goto; [exact HI' | exact I | intros; discriminate | intros; discriminate].
    - destruct (link s) as [q|] eqn:El; cbn [fst].
      + destruct (Nat.eqb q p) eqn:Eq; cbn [fst].
        * (* stays a holder: link unchanged, pc p := URm *)
          destruct HI as (I1 & I2 & I3 & I4). unfold goto. split_inv.
          -- intros r Hr. cbn [link]. destruct (Nat.eq_dec r p) as [->|Hne].
             ++ apply I1. unfold holds. rewrite Epc. reflexivity.
             ++ rewrite holds_upd_other in Hr by exact Hne. apply I1. destruct s; exact Hr.
          -- intros r c' q' Hr. cbn [pc] in Hr. destruct (Nat.eq_dec r p) as [->|Hne].
             ++ rewrite upd_same in Hr. discriminate.
             ++ rewrite upd_other in Hr by exact Hne. eapply I2, Hr.
          -- intros Hc q' Hq. cbn [link] in Hq. eapply I3; eassumption.
          -- intros Hc r c' q' Hr. cbn [pc] in Hr. destruct (Nat.eq_dec r p) as [->|Hne].
             ++ rewrite upd_same in Hr. discriminate.
             ++ rewrite upd_other in Hr by exact Hne. eapply I4; eassumption.
        * apply inv_goto; [exact HI | exact I | intros; discriminate | intros; discriminate].
      + apply inv_goto; [exact HI | exact I | intros; discriminate | intros; discriminate].
    - destruct (link s) as [q|] eqn:El; cbn [fst].
      + apply inv_remove; [exact HI | | destruct (dbl p); exact I].
        intros r Hne. destruct (holds s r) eqn:Hh; [|reflexivity].
        destruct HI as (I1 & _). destruct (I1 _ Hh) as [E _].
        assert (Hp : holds s p = true) by (unfold holds; rewrite Epc; reflexivity).
        destruct (I1 _ Hp) as [E' _]. congruence.
      + apply inv_goto; [exact HI | exact I | intros; discriminate | intros; discriminate].
    - (* unlock() first, on an inherited object *)
      destruct (link s) as [q|] eqn:El; cbn [fst].
      + destruct (Nat.eqb q p) eqn:Eq; cbn [fst].
        * apply Nat.eqb_eq in Eq. subst q.
          destruct HI as (I1 & I2 & I3 & I4). unfold goto. split_inv.
          -- intros r Hr. cbn [link]. destruct (Nat.eq_dec r p) as [->|Hne].
             ++ split; [exact El | exact Ep].
             ++ rewrite holds_upd_other in Hr by exact Hne. apply I1. destruct s; exact Hr.
          -- intros r c' q' Hr. cbn [pc] in Hr. destruct (Nat.eq_dec r p) as [->|Hne].
             ++ rewrite upd_same in Hr. discriminate.
             ++ rewrite upd_other in Hr by exact Hne. eapply I2, Hr.
          -- intros Hc q' Hq. cbn [link] in Hq. eapply I3; eassumption.
          -- intros Hc r c' q' Hr. cbn [pc] in Hr. destruct (Nat.eq_dec r p) as [->|Hne].
             ++ rewrite upd_same in Hr. discriminate.
             ++ rewrite upd_other in Hr by exact Hne. eapply I4; eassumption.
        * apply inv_goto; [exact HI | exact I | intros; discriminate | intros; discriminate].
      + apply inv_goto; [exact HI | exact I | intros; discriminate | intros; discriminate].
  Qed.

  (** the guard: either the repaired protocol, or no dead owner in the initial link *)
  Definition guard (l0 : option pid) : Prop := cas = true \/ forall d, l0 = Some d -> dead d = false.

  Lemma init_inv l0 : guard l0 -> Inv (init l0).
  Proof.
    intros G. unfold init. split_inv.
    - intros p H. discriminate.
    - intros p c q H. discriminate.
    - intros Hc q Hq. destruct G as [G|G]; [congruence | apply G, Hq].
    - intros Hc p c q H. discriminate.
  Qed.

  Lemma exec_inv l0 sched : guard l0 -> Inv (exec (init l0) sched).
  Proof. intros G. unfold Model.exec. apply run_invariant; [exact step_inv | apply init_inv, G]. Qed.

  (** ---- any well-formed start (in particular: after forks) ---- *)
  Definition wf_start (s0 : st) : Prop :=
    (forall p, holds s0 p = true -> link s0 = Some p /\ dead p = false)
    /\ (forall p c q, pc s0 p <> LRm c q)
    /\ (forall p c q, pc s0 p <> LKill c q)
    /\ (cas = false -> forall q, link s0 = Some q -> dead q = false).

  Lemma wf_inv s0 : wf_start s0 -> Inv s0.
  Proof.
    intros (W1 & W2 & W3 & W4). split_inv.
    - exact W1.
    - intros p c q H. exfalso. eapply W2, H.
    - exact W4.
    - intros _ p c q H. exfalso. eapply W3, H.
  Qed.

  Lemma exec_inv_wf s0 sched : wf_start s0 -> Inv (exec s0 sched).
  Proof. intros W. unfold Model.exec. apply run_invariant; [exact step_inv | apply wf_inv, W]. Qed.

  Lemma init_fork_wf l0 held us :
    (forall h, held = Some h -> dead h = false) ->
    (held = None -> cas = true \/ forall d, l0 = Some d -> dead d = false) ->
    wf_start (init_fork l0 held us).
  Proof.
    intros Hh Hl. unfold init_fork. destruct held as [h|]; unfold wf_start, holds; cbn [link pc].
    - split; [|split; [|split]].
      + intros p H. destruct (Nat.eqb p h) eqn:E.
        * apply Nat.eqb_eq in E. subst p. split; [reflexivity | apply Hh; reflexivity].
        * destruct (existsb (Nat.eqb p) us); discriminate.
      + intros p c q H. destruct (Nat.eqb p h); [discriminate|]. destruct (existsb (Nat.eqb p) us); discriminate.
      + intros p c q H. destruct (Nat.eqb p h); [discriminate|]. destruct (existsb (Nat.eqb p) us); discriminate.
      + intros _ q H. inversion H; subst. apply Hh. reflexivity.
    - split; [|split; [|split]].
      + intros p H. destruct (existsb (Nat.eqb p) us); discriminate.
      + intros p c q H. destruct (existsb (Nat.eqb p) us); discriminate.
      + intros p c q H. destruct (existsb (Nat.eqb p) us); discriminate.
      + intros Hc q H. destruct (Hl eq_refl) as [G|G]; [congruence | apply G, H].
  Qed.

  (** unlock() by a process that does not own the link: ValueError, link untouched, everybody else unmoved *)
  Lemma ustart_refused s p q :
    dead p = false -> pc s p = UStart -> link s = Some q -> q <> p ->
    stepe s p = (goto s p Idle, EUNotOwner q).
  Proof.
    intros Hp Hpc Hl Hne. unfold Model.stepe. rewrite Hp, Hpc, Hl.
    destruct (Nat.eqb_spec q p); [contradiction | reflexivity].
  Qed.

  Lemma inv_mutex s : Inv s ->
    (forall p, holds s p = true -> link s = Some p /\ dead p = false)
    /\ (forall p q, holds s p = true -> holds s q = true -> p = q).
  Proof.
    intros (I1 & _). split; [exact I1|]. intros p q Hp Hq.
    destruct (I1 _ Hp) as [E1 _]. destruct (I1 _ Hq) as [E2 _]. congruence.
  Qed.

  Lemma mutex_guarded l0 sched : guard l0 ->
    let s := exec (init l0) sched in
    (forall p, holds s p = true -> link s = Some p /\ dead p = false)
    /\ (forall p q, holds s p = true -> holds s q = true -> p = q).
  Proof. intros G. apply inv_mutex, exec_inv, G. Qed.

  (** steps of other processes do not move [p] *)
  Lemma step_other_pc s q p : q <> p -> pc (step s q) p = pc s p.
  Proof.
    intros Hne. unfold Model.step, Model.stepe, sym, goto.
    destruct (dead q); [reflexivity|].
    destruct (pc s q) as [|c|c|c r|c r|c| |]; repeat (match goal with
      | |- context [match link s with _ => _ end] => destruct (link s)
      | |- context [if ?b then _ else _] => destruct b
      end); cbn [fst pc]; rewrite ?upd_other by (intro E; apply Hne; symmetry; exact E); reflexivity.
  Qed.

  Lemma exec_others_pc others : forall s p, Forall (fun q => q <> p) others -> pc (exec s others) p = pc s p.
  Proof.
    induction others as [|q r IH]; intros s p H; [reflexivity|].
    inversion H as [|? ? Hq Hr]; subst. unfold Model.exec in *. cbn [run].
    rewrite IH by exact Hr. apply step_other_pc, Hq.
  Qed.

  (** a holder can always release: whatever the others do in between, its unlock() finds its own
      pid, removes the link and returns *)
  Lemma release l0 sched p c others :
    guard l0 ->
    let s := exec (init l0) sched in
    pc s p = Held c ->
    Forall (fun q => q <> p) others ->
    let s1 := step s p in
    let s2 := exec s1 others in
    snd (stepe s p) = EUReadOwn /\ holds s2 p = true
    /\ snd (stepe s2 p) = EURmOk /\ link (step s2 p) = None
    /\ pc (step s2 p) p = (if dbl p then UStart else Idle).
  Proof.
    intros G s Hpc Hoth s1 s2.
    assert (HI : Inv s) by (apply exec_inv, G).
    assert (Hh : holds s p = true) by (unfold holds; rewrite Hpc; reflexivity).
    destruct HI as (I1 & Irest). destruct (I1 _ Hh) as [El Hd].
    assert (E1 : stepe s p = (goto s p URm, EUReadOwn)).
    { unfold Model.stepe. rewrite Hd, Hpc, El, Nat.eqb_refl. reflexivity. }
    assert (Hs1 : pc s1 p = URm).
    { unfold s1, Model.step. rewrite E1. cbn. apply upd_same. }
    assert (HI1 : Inv s1) by (apply step_inv; split; assumption).
    assert (HI2 : Inv s2) by (unfold s2, Model.exec; apply run_invariant; [exact step_inv | exact HI1]).
    assert (Hs2 : pc s2 p = URm) by (unfold s2; rewrite exec_others_pc by exact Hoth; exact Hs1).
    assert (Hh2 : holds s2 p = true) by (unfold holds; rewrite Hs2; reflexivity).
    destruct HI2 as (J1 & _). destruct (J1 _ Hh2) as [El2 _].
    assert (E2 : stepe s2 p = (mk None (upd (pc s2) p (if dbl p then UStart else Idle)), EURmOk)).
    { unfold Model.stepe. rewrite Hd, Hs2, El2. reflexivity. }
    split; [rewrite E1; reflexivity|]. split; [exact Hh2|].
    unfold Model.step. rewrite E2. cbn. split; [reflexivity|]. split; [reflexivity | apply upd_same].
  Qed.

  (** progress: a live, idle contender running alone acquires a free or stale lock within 5 of its
      own steps (1 if free: symlink; 5 if stale: symlink, readlink, kill, rmlink, symlink).
      Holds from ANY state with those properties, reachable or not. *)
  Lemma solo_acquires s p :
    dead p = false -> pc s p = Idle ->
    (link s = None \/ exists q, link s = Some q /\ dead q = true) ->
    exists k c, k <= 5 /\ pc (exec s (repeat p k)) p = Held c /\ link (exec s (repeat p k)) = Some p
                /\ (c = true <-> link s = None).
  Proof.
    intros Hp Hpc [Hl | [q [Hl Hq]]].
    - exists 1, true. split; [lia|]. unfold Model.exec. cbn [repeat run].
      unfold Model.step, Model.stepe, sym. rewrite Hp, Hpc, Hl. cbn.
      rewrite upd_same. repeat split; auto.
    - exists 5, false. split; [lia|]. unfold Model.exec. cbn [repeat run].
      (* symlink -> EEXIST; readlink -> q; kill -> ESRCH; rmlink; symlink *)
      set (s1 := step s p).
      assert (P1 : pc s1 p = LRead true /\ link s1 = Some q).
      { unfold s1, Model.step, Model.stepe, sym. rewrite Hp, Hpc, Hl. cbn. rewrite upd_same. auto. }
      destruct P1 as [P1 L1].
      set (s2 := step s1 p).
      assert (P2 : pc s2 p = LKill true q /\ link s2 = Some q).
      { unfold s2, Model.step, Model.stepe. rewrite Hp, P1, L1. cbn. rewrite upd_same. auto. }
      destruct P2 as [P2 L2].
      set (s3 := step s2 p).
      assert (P3 : pc s3 p = LRm true q /\ link s3 = Some q).
      { unfold s3, Model.step, Model.stepe. rewrite Hp, P2, Hq. cbn. rewrite upd_same. auto. }
      destruct P3 as [P3 L3].
      set (s4 := step s3 p).
      assert (P4 : pc s4 p = LSym false /\ link s4 = None).
      { unfold s4, Model.step, Model.stepe. rewrite Hp, P3, L3, Nat.eqb_refl, andb_false_r. cbn.
        rewrite upd_same. auto. }
      destruct P4 as [P4 L4].
      assert (P5 : pc (step s4 p) p = Held false /\ link (step s4 p) = Some p).
      { unfold Model.step, Model.stepe, sym. rewrite Hp, P4, L4. cbn. rewrite upd_same. auto. }
      destruct P5 as [P5 L5].
      repeat split; auto; intros H; [discriminate | rewrite Hl in H; discriminate].
  Qed.
End Proofs.

(** ---- the full statement is false of the code as it is: two contenders break the same stale lock ---- *)
Definition f21_dead : pid -> bool := dead_of [2].
Definition f21_sched : list pid := [0; 0; 0; 1; 1; 1; 1; 1; 0; 0].

Lemma f21_both_hold :
  let s := exec f21_dead false (fun _ => false) (init (Some 2)) f21_sched in
  holds s 0 = true /\ holds s 1 = true /\ link s = Some 0.
Proof. vm_compute. repeat split. Qed.

(** the victim then cannot release: its unlock() raises ValueError *)
Lemma f21_victim_cannot_release :
  snd (stepe f21_dead false (fun _ => false) (exec f21_dead false (fun _ => false) (init (Some 2)) f21_sched) 1) = EUNotOwner 0.
Proof. vm_compute. reflexivity. Qed.

(** non-triviality of the guarded theorems: a guarded run in which the lock changes hands *)
Example guarded_run_nontrivial :
  let s := exec (dead_of [7]) false (fun _ => false) (init None) [0; 1; 1; 1; 0; 0; 1; 2; 2] in
  holds s 1 = true /\ holds s 0 = false /\ link s = Some 1 /\ pc s 2 = LKill true 1.
Proof. vm_compute. repeat split. Qed.
