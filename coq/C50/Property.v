(** C50 property theorems: FilesystemLock, any number of processes, every interleaving of their
    symlink / readlink / kill / rmlink calls (a schedule is a list of pids; one entry = one primitive
    call of that process).  [dead] says which pids have no process; [init l0] = everybody idle and the
    lock path absent ([None]) or left behind with content [q] ([Some q]).

    FULL STATEMENT (false of the code as it is, see [mutex_with_stale_lock_refuted]):
      forall dead dbl l0 sched p q, let s := exec dead false dbl (init l0) sched in
        holds s p = true -> holds s q = true -> p = q.
    What is proved of the code as it is: the same under the exact guard "the initial link does not name
    a dead pid" ([mutex_without_dead_owner]); and, for the protocol with an atomic compare-and-remove in
    place of [rmlink] in the stale-lock path, the full statement ([mutex_with_atomic_break]). *)
From Coq Require Import List Arith Bool.
From TwLib Require Import LtsRun.
From C50 Require Import Model Proofs.
Import ListNotations.

(** code as it is, no stale lock at the start: at most one holder at any time, and the link content is
    the holder's pid -- for every N and every interleaving of lock()/unlock() calls *)
Theorem mutex_without_dead_owner : forall (dead dbl : pid -> bool) (l0 : option pid) (sched : list pid),
  (forall d, l0 = Some d -> dead d = false) ->
  let s := exec dead false dbl (init l0) sched in
  (forall p, holds s p = true -> link s = Some p /\ dead p = false)
  /\ (forall p q, holds s p = true -> holds s q = true -> p = q).
Proof. intros dead dbl l0 sched G. apply mutex_guarded. right. exact G. Qed.
Print Assumptions mutex_without_dead_owner.

(** code as it is, stale lock of dead pid 2, contenders 0 and 1: after
    0:symlink(EEXIST) 0:readlink 0:kill(ESRCH) | 1:symlink(EEXIST) 1:readlink 1:kill(ESRCH) 1:rmlink 1:symlink(ok)
    | 0:rmlink (removes 1's link) 0:symlink(ok)   both lock() calls have returned True *)
Theorem mutex_with_stale_lock_refuted : exists (dead : pid -> bool) (l0 : option pid) (sched : list pid) (p q : pid),
  let s := exec dead false (fun _ => false) (init l0) sched in
  p <> q /\ holds s p = true /\ holds s q = true.
Proof.
  exists f21_dead, (Some 2), f21_sched, 0, 1.
  split; [discriminate|]. split; apply f21_both_hold.
Qed.
Print Assumptions mutex_with_stale_lock_refuted.

(** with an atomic compare-and-remove in the stale path the full statement holds: any initial link *)
Theorem mutex_with_atomic_break : forall (dead dbl : pid -> bool) (l0 : option pid) (sched : list pid),
  let s := exec dead true dbl (init l0) sched in
  (forall p, holds s p = true -> link s = Some p /\ dead p = false)
  /\ (forall p q, holds s p = true -> holds s q = true -> p = q).
Proof. intros dead dbl l0 sched. apply mutex_guarded. left. reflexivity. Qed.
Print Assumptions mutex_with_atomic_break.

(** a holder can always release (no stale lock at the start): whatever the other processes do between
    the two primitive calls of its unlock(), readlink returns its own pid, rmlink removes the link and
    unlock() returns *)
Theorem holder_can_release : forall (dead dbl : pid -> bool) (l0 : option pid) (sched : list pid) p c others,
  (forall d, l0 = Some d -> dead d = false) ->
  let s := exec dead false dbl (init l0) sched in
  pc s p = Held c ->
  Forall (fun q => q <> p) others ->
  let s2 := exec dead false dbl (step dead false dbl s p) others in
  snd (stepe dead false dbl s p) = EUReadOwn /\ holds s2 p = true
  /\ snd (stepe dead false dbl s2 p) = EURmOk
  /\ link (step dead false dbl s2 p) = None
  /\ pc (step dead false dbl s2 p) p = (if dbl p then UStart else Idle).
Proof. intros dead dbl l0 sched p c others G. apply release. right. exact G. Qed.
Print Assumptions holder_can_release.

(** a lock left by a dead process (or a free one) is acquired by a live idle contender that runs alone,
    within 5 of its own primitive calls, from ANY state; [clean] is True exactly when the path was free *)
Theorem single_contender_acquires_stale : forall (dead : pid -> bool) (cas : bool) (dbl : pid -> bool) (s : st) p,
  dead p = false -> pc s p = Idle ->
  (link s = None \/ exists q, link s = Some q /\ dead q = true) ->
  exists k c, k <= 5 /\ pc (exec dead cas dbl s (repeat p k)) p = Held c
              /\ link (exec dead cas dbl s (repeat p k)) = Some p
              /\ (c = true <-> link s = None).
Proof. exact solo_acquires. Qed.
Print Assumptions single_contender_acquires_stale.

(** in the refuting run the robbed holder cannot release: its unlock() raises ValueError *)
(* [dbl p]: p calls unlock() a second time after every release (a double release) -- all theorems hold for every [dbl] *)
Theorem robbed_holder_cannot_release_refuted :
  exists (dead : pid -> bool) (l0 : option pid) (sched : list pid) (p q : pid),
    let s := exec dead false (fun _ => false) (init l0) sched in
    holds s p = true /\ snd (stepe dead false (fun _ => false) s p) = EUNotOwner q.
Proof. exists f21_dead, (Some 2), f21_sched, 1, 0. split; [apply f21_both_hold | exact f21_victim_cannot_release]. Qed.
Print Assumptions robbed_holder_cannot_release_refuted.

(** lock objects inherited across fork.  Start: process [h] (alive) already holds the lock, the processes in
    [us] are forked copies whose first call is unlock() on the inherited object (its [locked] attribute is True,
    but the link names [h]); everybody else is idle.  For every N and every interleaving: still at most one
    holder, and the link names it -- in the code as it is the pid written and compared is the caller's
    (os.getpid() at the time of the call), never one cached in the object *)
Theorem mutex_with_inherited_lock_objects : forall (dead dbl : pid -> bool) (h : pid) (us sched : list pid),
  dead h = false ->
  let s := exec dead false dbl (init_fork None (Some h) us) sched in
  (forall p, holds s p = true -> link s = Some p /\ dead p = false)
  /\ (forall p q, holds s p = true -> holds s q = true -> p = q).
Proof.
  intros dead dbl h us sched Hh. apply (inv_mutex dead false), (exec_inv_wf dead false dbl), init_fork_wf; [|discriminate].
  intros h' E. inversion E; subst. exact Hh.
Qed.
Print Assumptions mutex_with_inherited_lock_objects.

(** unlock() by a process whose pid is not the link content raises ValueError and leaves the link alone *)
Theorem unlock_by_non_owner_refused : forall (dead : pid -> bool) (cas : bool) (dbl : pid -> bool) (s : st) p q,
  dead p = false -> pc s p = UStart -> link s = Some q -> q <> p ->
  snd (stepe dead cas dbl s p) = EUNotOwner q
  /\ link (step dead cas dbl s p) = Some q
  /\ (forall r, r <> p -> pc (step dead cas dbl s p) r = pc s r).
Proof.
  intros dead cas dbl s p q Hp Hpc Hl Hne. unfold step. rewrite (ustart_refused dead cas dbl s p q Hp Hpc Hl Hne). cbn.
  split; [reflexivity|]. split; [exact Hl|]. intros r Hr. apply upd_other, Hr.
Qed.
Print Assumptions unlock_by_non_owner_refused.
