(** DeferredK: the kernel of twisted.internet.defer.Deferred (src/twisted/internet/defer.py) as an
    executable machine over a heap of Deferred records.  Definitions only (lemmas: DeferredKFacts.v).

    What is transcribed (line numbers of the pinned defer.py):
      - Deferred.addCallbacks (478), callback/errback (864/889), pause/unpause (928/934), cancel (944),
        _startRunCallbacks (972), _continuation (996) and the iterative _runCallbacks loop (1003) with its
        explicit [chain] stack, the _CONTINUE entries, the "steal the result of an already-fired returned
        Deferred" branch and the "pause and chain" branch.
    Callbacks are defunctionalised ([beh]): return a value / None / a Failure / a Deferred of the heap, raise,
    or return the argument.  They cannot call back into the kernel, so [_runningCallbacks] is never observed
    set at an operation boundary and is not represented.  Cancellers are a fixed behaviour per Deferred.
    [fx] selects the repaired loop ([true]: a paused Deferred on top of the chain stack is popped and the
    loop continues with the Deferred below it) or the pinned one ([false]: [return], dropping the stack). *)
From Coq Require Import List Arith ZArith Bool.
Import ListNotations.

Inductive value :=
| VNone                (* Python None *)
| VInt (z : Z)         (* an ordinary value *)
| VFail (e : Z)        (* a Failure wrapping exception class number e *)
| VDef (i : nat).      (* the Deferred with heap index i *)

Definition cancelled_error : Z := (-1)%Z.

Inductive beh :=
| BRet (v : value)     (* return v  (VFail: return a Failure; VDef: return a Deferred) *)
| BRaise (e : Z)       (* raise exception class e *)
| BPass.               (* return the argument unchanged *)

Definition apply_beh (b : beh) (arg : value) : value :=
  match b with BRet v => v | BRaise e => VFail e | BPass => arg end.

(** one element of [Deferred.callbacks]: a (callback, errback) pair added by the [k]-th add operation
    ([None] = passthru/_failthru, which returns its argument), or the _CONTINUE marker of a waiting Deferred *)
Inductive entry := Pair (k : nat) (cb eb : option beh) | Cont (c : nat).

Inductive canceller :=
| CNone                (* Deferred() without a canceller *)
| CNothing             (* canceller that returns without firing *)
| CCallback (z : Z)    (* canceller that calls d.callback(z) *)
| CErrback (e : Z)     (* canceller that calls d.errback(E_e()) *)
| CRaise (e : Z).      (* canceller that raises E_e *)

Record dfr := mkD {
  cbs : list entry;        (* callbacks *)
  res : option value;      (* result; None = attribute not set yet *)
  called : bool;
  paused : Z;              (* Python int: unbalanced unpause makes it negative *)
  chained : option nat;    (* _chainedTo *)
  suppress : bool;         (* _suppressAlreadyCalled *)
  canc : canceller }.

Definition new_dfr (c : canceller) : dfr := mkD [] None false 0%Z None false c.

Definition set_cbs l D := mkD l (res D) (called D) (paused D) (chained D) (suppress D) (canc D).
Definition set_res r D := mkD (cbs D) r (called D) (paused D) (chained D) (suppress D) (canc D).
Definition set_called b D := mkD (cbs D) (res D) b (paused D) (chained D) (suppress D) (canc D).
Definition set_paused p D := mkD (cbs D) (res D) (called D) p (chained D) (suppress D) (canc D).
Definition set_chained c D := mkD (cbs D) (res D) (called D) (paused D) c (suppress D) (canc D).
Definition set_suppress b D := mkD (cbs D) (res D) (called D) (paused D) (chained D) b (canc D).

Definition heap := list dfr.
Definition get (h : heap) (i : nat) : option dfr := nth_error h i.
Fixpoint upd (h : heap) (i : nat) (f : dfr -> dfr) : heap :=
  match h, i with
  | [], _ => []
  | D :: r, O => f D :: r
  | D :: r, S j => D :: upd r j f
  end.

Inductive src := ByUser | ByCanceller | ByCancel.

Inductive ev :=
| ERun (d k : nat) (arg : value)        (* user callback/errback of add-operation k, on Deferred d, called with arg *)
| EFired (d : nat) (v : value) (s : src) (* d accepted a result (called False -> True) *)
| EAlready (d : nat)                    (* AlreadyCalledError raised to the caller *)
| ESwallow (d : nat)                    (* late result silently ignored (_suppressAlreadyCalled) *)
| ECancelNone (d : nat)                 (* cancel() of an unfired Deferred that has no canceller *)
| ECanceller (d : nat)                  (* the canceller of d was invoked *)
| ECancRaise (d : nat) (e : Z)          (* ... and raised; the exception leaves cancel() *)
| ERecursion (d : nat).                 (* cancel() forwarding did not end (cyclic results): RecursionError *)

Definition is_fail (v : value) : bool := match v with VFail _ => true | _ => false end.

(** [resultResult is _NO_RESULT or type(resultResult) is Deferred or currentResult.paused] *)
Definition waiting (X : dfr) : bool :=
  match res X with None => true | Some (VDef _) => true | Some _ => false end
  || negb (Z.eqb (paused X) 0).

Definition cur_result (D : dfr) : value := match res D with Some v => v | None => VNone end.

(** One pass through the body of [while chain:] up to the next [current.callbacks.pop(0)] (or the pop of the
    chain stack).  Returns the new heap, the new chain stack (top first) and the events emitted;
    [None] when the stack is empty (the loop has ended). *)
Definition step (fx : bool) (h : heap) (chain : list nat) : option (heap * list nat * list ev) :=
  match chain with
  | [] => None
  | cur :: rest =>
    match get h cur with
    | None => Some (h, rest, [])
    | Some D =>
      if negb (Z.eqb (paused D) 0)
      then Some (h, if fx then rest else [], [])          (* pinned code: [return] *)
      else
        match cbs D with
        | [] => Some (upd h cur (set_chained None), rest, [])                    (* finished: chain.pop() *)
        | item :: more =>
          let h0 := upd h cur (fun D => set_cbs more (set_chained None D)) in
          let r := cur_result D in
          match item with
          | Cont c =>
              let h1 := upd h0 c (set_res (Some r)) in                          (* chainee.result = current.result *)
              let h2 := upd h1 cur (set_res (Some VNone)) in                    (* current.result = None *)
              let h3 := upd h2 c (fun C => set_paused (paused C - 1)%Z C) in    (* chainee.paused -= 1 *)
              Some (h3, c :: cur :: rest, [])                                   (* chain.append(chainee) *)
          | Pair k cb eb =>
              let side := if is_fail r then eb else cb in
              let r' := match side with Some b => apply_beh b r | None => r end in
              let evs := match side with Some _ => [ERun cur k r] | None => [] end in
              let h1 := upd h0 cur (set_res (Some r')) in
              match r' with
              | VDef x =>
                  match get h1 x with
                  | None => Some (h1, cur :: rest, evs)
                  | Some X =>
                      if waiting X
                      then
                        let h2 := upd h1 cur (fun D => set_chained (Some x) (set_paused (paused D + 1)%Z D)) in
                        let h3 := upd h2 x (fun X => set_cbs (cbs X ++ [Cont cur]) X) in
                        Some (h3, rest, evs)                                    (* break; finished; chain.pop() *)
                      else
                        let h2 := upd h1 x (set_res (Some VNone)) in            (* steal *)
                        let h3 := upd h2 cur (set_res (res X)) in
                        Some (h3, cur :: rest, evs)
                  end
              | _ => Some (h1, cur :: rest, evs)
              end
          end
        end
    end
  end.

Fixpoint iter (fx : bool) (fuel : nat) (h : heap) (chain : list nat) {struct fuel} : option (heap * list ev) :=
  match step fx h chain with
  | None => Some (h, [])
  | Some (h', chain', evs) =>
      match fuel with
      | O => None
      | S f => match iter fx f h' chain' with
               | None => None
               | Some (h2, l) => Some (h2, evs ++ l)
               end
      end
  end.

Definition total_cbs (h : heap) : nat := fold_right (fun D n => length (cbs D) + n) 0 h.
(** every [step] strictly decreases this (DeferredKFacts.step_measure), so [iter] with this much fuel never
    runs out (DeferredKFacts.iter_terminates) *)
Definition measure (h : heap) (chain : list nat) : nat := 2 * total_cbs h + length chain.

(** [d._runCallbacks()] *)
Definition runCallbacks (fx : bool) (h : heap) (d : nat) : heap * list ev :=
  match iter fx (measure h [d]) h [d] with Some r => r | None => (h, []) end.

(** [d._startRunCallbacks(v)] *)
Definition fire (fx : bool) (h : heap) (d : nat) (v : value) (s : src) : heap * list ev :=
  match get h d with
  | None => (h, [])
  | Some D =>
      if called D
      then if suppress D then (upd h d (set_suppress false), [ESwallow d]) else (h, [EAlready d])
      else
        let h1 := upd h d (fun D => set_res (Some v) (set_called true D)) in
        let '(h2, l) := runCallbacks fx h1 d in (h2, EFired d v s :: l)
  end.

(** [d.cancel()]; the recursion is the forwarding [self.result.cancel()] *)
Fixpoint cancel (fx : bool) (fuel : nat) (h : heap) (d : nat) {struct fuel} : heap * list ev :=
  match fuel with
  | O => (h, [ERecursion d])
  | S f =>
    match get h d with
    | None => (h, [])
    | Some D =>
      if called D
      then match res D with Some (VDef r) => cancel fx f h r | _ => (h, []) end
      else
        match canc D with
        | CNone =>
            let h1 := upd h d (set_suppress true) in
            let '(h2, l) := fire fx h1 d (VFail cancelled_error) ByCancel in (h2, ECancelNone d :: l)
        | CNothing =>
            let '(h2, l) := fire fx h d (VFail cancelled_error) ByCancel in (h2, ECanceller d :: l)
        | CCallback z =>
            let '(h2, l) := fire fx h d (VInt z) ByCanceller in (h2, ECanceller d :: l)
        | CErrback e =>
            let '(h2, l) := fire fx h d (VFail e) ByCanceller in (h2, ECanceller d :: l)
        | CRaise e => (h, [ECanceller d; ECancRaise d e])
        end
    end
  end.

Inductive op :=
| OAdd (d : nat) (cb eb : option beh)   (* addCallbacks / addCallback / addErrback / addBoth *)
| OCallback (d : nat) (z : Z)
| OErrback (d : nat) (e : Z)
| OPause (d : nat)
| OUnpause (d : nat)
| OCancel (d : nat).

Record state := mkS { heap_of : heap; next_k : nat }.

Definition exec (fx : bool) (s : state) (o : op) : state * list ev :=
  let h := heap_of s in
  let k := next_k s in
  match o with
  | OAdd d cb eb =>
      match get h d with
      | None => (s, [])
      | Some D =>
          let h1 := upd h d (fun D => set_cbs (cbs D ++ [Pair k cb eb]) D) in
          let '(h2, l) := if called D then runCallbacks fx h1 d else (h1, []) in
          (mkS h2 (S k), l)
      end
  | OCallback d z => let '(h2, l) := fire fx h d (VInt z) ByUser in (mkS h2 k, l)
  | OErrback d e => let '(h2, l) := fire fx h d (VFail e) ByUser in (mkS h2 k, l)
  | OPause d => (mkS (upd h d (fun D => set_paused (paused D + 1)%Z D)) k, [])
  | OUnpause d =>
      match get h d with
      | None => (s, [])
      | Some D =>
          let h1 := upd h d (fun D => set_paused (paused D - 1)%Z D) in
          let '(h2, l) := if Z.eqb (paused D - 1) 0 && called D then runCallbacks fx h1 d else (h1, []) in
          (mkS h2 k, l)
      end
  | OCancel d => let '(h2, l) := cancel fx (S (length h)) h d in (mkS h2 k, l)
  end.

Fixpoint run (fx : bool) (s : state) (ops : list op) : state * list (list ev) :=
  match ops with
  | [] => (s, [])
  | o :: r =>
      let '(s1, l) := exec fx s o in
      let '(s2, ls) := run fx s1 r in (s2, l :: ls)
  end.

Definition init (cs : list canceller) : state := mkS (map new_dfr cs) 0.

(** a program: one canceller behaviour per Deferred, then the operations *)
Definition program := (list canceller * list op)%type.
Definition run_program (fx : bool) (p : program) : state * list (list ev) := run fx (init (fst p)) (snd p).
