(** CPython's heapq on Python lists, as used by ReactorBase (cluster "timers", C08): heappush,
    heappop, heapify with the exact _siftdown / _siftup comparison order, so that the position of
    equal-key elements — and therefore the order in which the reactor runs calls scheduled for the
    same time — is the one CPython produces.  Elements are compared with [<] on [key] only
    (DelayedCall.__lt__ compares [time]).  Definitions only; facts are in TimersHeapFacts.v.

    The algorithms are written with swaps where heapq keeps a "hole" and writes the moved item once
    at the end; both compute the same list (the item being moved is never compared with itself). *)
From Coq Require Import List Arith ZArith Bool.
Import ListNotations.

Section Heap.
  Variable A : Type.
  Variable key : A -> Z.
  Variable d : A.                      (* default for out-of-range reads (never reached) *)

  Definition lt (a b : A) : bool := (key a <? key b)%Z.

  Fixpoint upd (h : list A) (i : nat) (x : A) : list A :=
    match h, i with
    | [], _ => []
    | _ :: r, O => x :: r
    | y :: r, S i' => y :: upd r i' x
    end.

  Definition swap (h : list A) (i j : nat) : list A :=
    upd (upd h i (nth j h d)) j (nth i h d).

  Definition parent (i : nat) : nat := (i - 1) / 2.

  (** heapq._siftdown(heap, startpos, pos): move heap[pos] towards the root while it is smaller than
      its parent, not beyond startpos.  Also the loop of ReactorBase._moveCallLaterSooner
      (startpos = 0; "if heap[parent] <= elt: break" is the same test).  fuel >= pos suffices. *)
  Fixpoint bubble_up (fuel start pos : nat) (h : list A) : list A :=
    match fuel with
    | O => h
    | S f =>
        if start <? pos then
          let pp := parent pos in
          if lt (nth pos h d) (nth pp h d) then bubble_up f start pp (swap h pos pp) else h
        else h
    end.

  (** first loop of heapq._siftup(heap, pos): bubble the smaller child up until a leaf is reached
      (the right child is chosen unless left < right).  Returns the leaf position.  fuel >= length. *)
  Fixpoint sink (fuel pos : nat) (h : list A) : nat * list A :=
    match fuel with
    | O => (pos, h)
    | S f =>
        let c := 2 * pos + 1 in
        if c <? length h then
          let r := c + 1 in
          let c' := if (r <? length h) && negb (lt (nth c h d) (nth r h d)) then r else c in
          sink f c' (swap h pos c')
        else (pos, h)
    end.

  (** heapq._siftup(heap, pos) *)
  Definition siftup (h : list A) (pos : nat) : list A :=
    let '(p, h1) := sink (length h) pos h in bubble_up p pos p h1.

  (** heapq.heappush *)
  Definition heappush (h : list A) (x : A) : list A :=
    bubble_up (length h) 0 (length h) (h ++ [x]).

  (** heapq.heappop: None on an empty heap *)
  Definition heappop (h : list A) : option (A * list A) :=
    match h with
    | [] => None
    | top :: _ =>
        let lastelt := last h d in
        match removelast h with
        | [] => Some (lastelt, [])
        | h' => Some (top, siftup (upd h' 0 lastelt) 0)
        end
    end.

  (** heapq.heapify: for i in reversed(range(n//2)): _siftup(x, i) *)
  Definition heapify (h : list A) : list A :=
    fold_left siftup (rev (seq 0 (length h / 2))) h.

  (** the heap invariant on the sub-forest of positions whose parent is >= k *)
  Definition heap_from (k : nat) (h : list A) : Prop :=
    forall j, (0 < j < length h)%nat -> (k <= parent j)%nat ->
              (key (nth (parent j) h d) <= key (nth j h d))%Z.
  Definition heap (h : list A) : Prop := heap_from 0 h.
End Heap.

Arguments upd {A}.
Arguments swap {A}.
Arguments bubble_up {A}.
Arguments sink {A}.
Arguments siftup {A}.
Arguments heappush {A}.
Arguments heappop {A}.
Arguments heapify {A}.
Arguments heap_from {A}.
Arguments heap {A}.
