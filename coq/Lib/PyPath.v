(** PyPath: the POSIX path algebra of CPython's [posixpath] on byte strings ([list N]) —
    [split b"/"], [sep.join], [normpath], [join], [isabs], [abspath] — written out as executable
    Gallina, together with the *segment view* used as specification ([segments] = the non-empty
    components of a path string) and the lemmas that relate the two.

    The definitions are the ASSUMED semantics of the CPython functions (trusted base item
    "semantics of CPython builtins"); they are validated against [os.path] by the C26 correspondence
    run on generated hostile inputs.  The lemmas are proved here once and reused by C26 / C54.

    Bytes are [N]; the theorems hold for every [N], a superset of bytes.  The same algebra models
    [str] paths: the functions only compare elements with '/' (47) and '.' (46). *)
From Coq Require Import List NArith Bool Arith Lia.
Import ListNotations.

Definition bytes := list N.

Definition SL : N := 47%N.          (* '/' *)
Definition DT : N := 46%N.          (* '.' *)
Definition is_sl (c : N) : bool := N.eqb c SL.
Definition dot : bytes := [DT].
Definition dotdot : bytes := [DT; DT].

Fixpoint beq (a b : bytes) : bool :=
  match a, b with
  | [], [] => true
  | x :: a', y :: b' => N.eqb x y && beq a' b'
  | _, _ => false
  end.

Definition is_nil (s : bytes) : bool := match s with [] => true | _ => false end.

(** [s.startswith(p)] *)
Fixpoint startswith (s p : bytes) {struct p} : bool :=
  match p with
  | [] => true
  | x :: p' => match s with
               | [] => false
               | y :: s' => N.eqb x y && startswith s' p'
               end
  end.

(** [b"/" in s] *)
Definition has_sl (s : bytes) : bool := existsb is_sl s.

(** [s.endswith(b"/")] *)
Fixpoint endswith_sl (s : bytes) : bool :=
  match s with
  | [] => false
  | [c] => is_sl c
  | _ :: r => endswith_sl r
  end.

(** [s.split(b"/")]  (never returns the empty list) *)
Fixpoint split_sl (s : bytes) : list bytes :=
  match s with
  | [] => [[]]
  | c :: r =>
      if is_sl c then [] :: split_sl r
      else match split_sl r with
           | [] => [[c]]
           | h :: t => (c :: h) :: t
           end
  end.

(** [b"/".join(l)] *)
Fixpoint join_sl (l : list bytes) : bytes :=
  match l with
  | [] => []
  | x :: r => match r with [] => x | _ :: _ => x ++ SL :: join_sl r end
  end.

(** the number posixpath.normpath calls [initial_slashes]: 0, 1, or 2 (exactly two leading slashes) *)
Definition init_slashes (s : bytes) : nat :=
  match s with
  | a :: r =>
      if is_sl a then
        match r with
        | b :: r2 =>
            if is_sl b then
              match r2 with
              | c :: _ => if is_sl c then 1 else 2
              | [] => 2
              end
            else 1
        | [] => 1
        end
      else 0
  | [] => 0
  end.

(** one iteration of normpath's loop; [st] is [new_comps] REVERSED (top of stack first) *)
Definition norm_step (init : bool) (st : list bytes) (c : bytes) : list bytes :=
  if is_nil c || beq c dot then st
  else if negb (beq c dotdot) then c :: st
  else match st with
       | [] => if init then [] else [c]
       | top :: rest => if beq top dotdot then c :: st else rest
       end.

Definition render (k : nat) (cs : list bytes) : bytes := repeat SL k ++ join_sl cs.

(** [posixpath.normpath] *)
Definition normpath (s : bytes) : bytes :=
  if is_nil s then dot
  else
    let k := init_slashes s in
    let cs := rev (fold_left (norm_step (negb (Nat.eqb k 0))) (split_sl s) []) in
    let p := render k cs in
    if is_nil p then dot else p.

Definition isabs (s : bytes) : bool := match s with c :: _ => is_sl c | [] => false end.

(** [posixpath.join(a, b)] *)
Definition pjoin (a b : bytes) : bytes :=
  if isabs b then b
  else if is_nil a || endswith_sl a then a ++ b
  else a ++ SL :: b.

(** [posixpath.abspath] with the process's current directory as a parameter *)
Definition abspath (cwd p : bytes) : bytes :=
  normpath (if isabs p then p else pjoin cwd p).

(** ---- the specification view: a path string denotes its list of non-empty components ---- *)
Definition segments (s : bytes) : list bytes := filter (fun c => negb (is_nil c)) (split_sl s).

(** a component that normpath leaves alone: non-empty, no '/', not "." and not ".." *)
Definition okc (c : bytes) : bool :=
  negb (is_nil c) && negb (has_sl c) && negb (beq c dot) && negb (beq c dotdot).

Fixpoint prefix_of (p l : list bytes) {struct p} : bool :=
  match p with
  | [] => true
  | x :: p' => match l with [] => false | y :: l' => beq x y && prefix_of p' l' end
  end.

(** ======================================================================================= *)
(** Lemmas *)

Lemma beq_eq : forall a b, beq a b = true <-> a = b.
Proof.
  induction a as [|x a IH]; destruct b as [|y b]; cbn; split; intro H; try easy.
  - apply andb_true_iff in H as [H1 H2]. apply N.eqb_eq in H1. apply IH in H2. now subst.
  - injection H as -> ->. rewrite N.eqb_refl. cbn. now apply IH.
Qed.

Lemma beq_refl : forall a, beq a a = true.
Proof. intro a. now apply beq_eq. Qed.

Lemma beq_neq : forall a b, beq a b = false <-> a <> b.
Proof.
  intros a b. split.
  - intros H E. apply beq_eq in E. congruence.
  - intro H. destruct (beq a b) eqn:E; [apply beq_eq in E; contradiction | reflexivity].
Qed.

Lemma is_sl_true : forall c, is_sl c = true <-> c = SL.
Proof. intro c. unfold is_sl. apply N.eqb_eq. Qed.

Lemma startswith_app : forall s p, startswith s p = true <-> exists t, s = p ++ t.
Proof.
  intros s p. revert s. induction p as [|x p IH]; intro s; cbn.
  - split; [intros _; now exists s | reflexivity].
  - destruct s as [|y s].
    + split; [discriminate | intros [t Ht]; discriminate].
    + split.
      * intro H. apply andb_true_iff in H as [H1 H2]. apply N.eqb_eq in H1. apply IH in H2 as [t ->].
        subst. now exists t.
      * intros [t Ht]. injection Ht as -> ->. rewrite N.eqb_refl. cbn. apply IH. now exists t.
Qed.

Lemma split_sl_nonnil : forall s, split_sl s <> [].
Proof.
  destruct s as [|c r]; cbn; [discriminate|].
  destruct (is_sl c); [discriminate|]. destruct (split_sl r); discriminate.
Qed.

Lemma split_sl_cons_sl : forall r, split_sl (SL :: r) = [] :: split_sl r.
Proof. reflexivity. Qed.

Lemma split_sl_app : forall a b, split_sl (a ++ SL :: b) = split_sl a ++ split_sl b.
Proof.
  induction a as [|c a IH]; intro b.
  - reflexivity.
  - cbn [app split_sl]. destruct (is_sl c) eqn:Ec.
    + now rewrite IH.
    + rewrite IH. destruct (split_sl a) as [|h t] eqn:Ea.
      * now apply split_sl_nonnil in Ea.
      * reflexivity.
Qed.

Lemma split_sl_nosl : forall s, has_sl s = false -> split_sl s = [s].
Proof.
  induction s as [|c s IH]; intro H; [reflexivity|].
  cbn in H. apply orb_false_iff in H as [H1 H2].
  cbn. rewrite H1, (IH H2). reflexivity.
Qed.

Lemma split_sl_no_sl_inside : forall s c, In c (split_sl s) -> has_sl c = false.
Proof.
  induction s as [|x s IH]; intros c H.
  - cbn in H. destruct H as [<-|[]]. reflexivity.
  - cbn in H. destruct (is_sl x) eqn:Ex.
    + destruct H as [<-|H]; [reflexivity | now apply IH].
    + destruct (split_sl s) as [|h t] eqn:Es.
      * destruct H as [<-|[]]. cbn. now rewrite Ex.
      * destruct H as [<-|H].
        -- cbn. rewrite Ex. cbn. apply IH. now left.
        -- apply IH. now right.
Qed.

Lemma segments_nil : segments [] = [].
Proof. reflexivity. Qed.

Lemma segments_cons_sl : forall r, segments (SL :: r) = segments r.
Proof. reflexivity. Qed.

Lemma segments_app : forall a b, segments (a ++ SL :: b) = segments a ++ segments b.
Proof. intros. unfold segments. now rewrite split_sl_app, filter_app. Qed.

Lemma segments_snoc_sl : forall a, segments (a ++ [SL]) = segments a.
Proof. intro a. rewrite segments_app, segments_nil. apply app_nil_r. Qed.

Lemma segments_nosl : forall s, has_sl s = false -> s <> [] -> segments s = [s].
Proof.
  intros s H Hn. unfold segments. rewrite (split_sl_nosl s H). cbn.
  destruct s; [contradiction | reflexivity].
Qed.

Lemma segments_repeat_sl : forall k t, segments (repeat SL k ++ t) = segments t.
Proof. induction k as [|k IH]; intro t; [reflexivity|]. cbn [repeat app]. now rewrite segments_cons_sl. Qed.

Lemma segments_no_sl_inside : forall s c, In c (segments s) -> has_sl c = false /\ c <> [].
Proof.
  intros s c H. unfold segments in H. apply filter_In in H as [H1 H2]. split.
  - now apply split_sl_no_sl_inside with s.
  - destruct c; [discriminate | discriminate].
Qed.

Lemma okc_spec : forall c, okc c = true <-> (c <> [] /\ has_sl c = false /\ c <> dot /\ c <> dotdot).
Proof.
  intro c. unfold okc. rewrite !andb_true_iff, !negb_true_iff, !beq_neq. split.
  - intros [[[H1 H2] H3] H4]. repeat split; auto. intros ->. discriminate.
  - intros (H1 & H2 & H3 & H4). repeat split; auto. destruct c; [contradiction | reflexivity].
Qed.

Lemma segments_join_sl : forall cs, forallb okc cs = true -> segments (join_sl cs) = cs.
Proof.
  induction cs as [|x r IH]; intro H; [reflexivity|].
  cbn in H. apply andb_true_iff in H as [Hx Hr]. apply okc_spec in Hx as (Hx1 & Hx2 & _ & _).
  cbn [join_sl]. destruct r as [|y r'].
  - now apply segments_nosl.
  - rewrite segments_app, (segments_nosl x Hx2 Hx1), (IH Hr). reflexivity.
Qed.

Lemma segments_render : forall k cs, forallb okc cs = true -> segments (render k cs) = cs.
Proof. intros. unfold render. rewrite segments_repeat_sl. now apply segments_join_sl. Qed.

(** normpath's loop ignores empty components, so it is a function of [segments] *)
Lemma norm_fold_filter : forall init l st,
  fold_left (norm_step init) l st
  = fold_left (norm_step init) (filter (fun c => negb (is_nil c)) l) st.
Proof.
  induction l as [|c l IH]; intro st; [reflexivity|].
  cbn [filter fold_left]. destruct c as [|x c'].
  - cbn [is_nil negb]. unfold norm_step at 2. cbn [is_nil orb]. apply IH.
  - cbn [is_nil negb fold_left]. apply IH.
Qed.

(** components that are ok are simply pushed *)
Lemma norm_fold_ok : forall init cs st,
  forallb okc cs = true -> fold_left (norm_step init) cs st = rev cs ++ st.
Proof.
  induction cs as [|c cs IH]; intros st H; [reflexivity|].
  cbn in H. apply andb_true_iff in H as [Hc Hr]. cbn [fold_left rev].
  rewrite (IH _ Hr), <- app_assoc. cbn. f_equal.
  apply okc_spec in Hc as (H1 & _ & H3 & H4).
  unfold norm_step. destruct c; [contradiction|]. cbn [is_nil orb].
  apply beq_neq in H3, H4. now rewrite H3, H4.
Qed.

(** with initial slashes the stack never holds "..", ".", an empty component, or one with '/' *)
Lemma norm_step_abs_ok : forall st c,
  forallb okc st = true -> has_sl c = false -> forallb okc (norm_step true st c) = true.
Proof.
  intros st c Hst Hc. unfold norm_step.
  destruct (is_nil c || beq c dot) eqn:E1; [assumption|].
  apply orb_false_iff in E1 as [En Ed].
  destruct (beq c dotdot) eqn:E2; cbn [negb].
  - destruct st as [|top rest]; [reflexivity|].
    cbn in Hst. apply andb_true_iff in Hst as [Ht Hrest].
    destruct (beq top dotdot) eqn:E3; [|assumption].
    apply okc_spec in Ht as (_ & _ & _ & Ht). apply beq_eq in E3. contradiction.
  - cbn. rewrite Hst, andb_true_r. unfold okc. now rewrite En, Hc, Ed, E2.
Qed.

Lemma norm_fold_abs_ok : forall l st,
  forallb okc st = true -> (forall c, In c l -> has_sl c = false) ->
  forallb okc (fold_left (norm_step true) l st) = true.
Proof.
  induction l as [|c l IH]; intros st Hst Hl; [assumption|].
  cbn [fold_left]. apply IH.
  - apply norm_step_abs_ok; [assumption | apply Hl; now left].
  - intros c' Hc'. apply Hl. now right.
Qed.

Lemma forallb_rev : forall (f : bytes -> bool) l, forallb f (rev l) = forallb f l.
Proof.
  induction l as [|x l IH]; [reflexivity|]. cbn. rewrite forallb_app, IH. cbn.
  rewrite andb_true_r. apply andb_comm.
Qed.

Lemma isabs_init : forall s, isabs s = true -> init_slashes s = 1 \/ init_slashes s = 2.
Proof.
  intros [|a r] H; [discriminate|]. cbn in H. cbn. rewrite H.
  destruct r as [|b r2]; [now left|]. destruct (is_sl b); [|now left].
  destruct r2 as [|c r3]; [now right|]. destruct (is_sl c); [now left | now right].
Qed.

(** the components normpath keeps for an absolute path *)
Definition abs_comps (s : bytes) : list bytes := rev (fold_left (norm_step true) (segments s) []).

Lemma abs_comps_ok : forall s, forallb okc (abs_comps s) = true.
Proof.
  intro s. unfold abs_comps. rewrite forallb_rev. apply norm_fold_abs_ok; [reflexivity|].
  intros c Hc. now apply segments_no_sl_inside in Hc.
Qed.

(** normpath of an absolute path: its one or two leading slashes, then the kept components *)
Lemma normpath_abs : forall s, isabs s = true ->
  normpath s = render (init_slashes s) (abs_comps s).
Proof.
  intros s H. unfold normpath. destruct s as [|a r]; [discriminate|]. cbn [is_nil].
  destruct (isabs_init _ H) as [E|E]; rewrite E; cbn [Nat.eqb negb];
    rewrite norm_fold_filter; fold (segments (a :: r)); fold (abs_comps (a :: r)); reflexivity.
Qed.

Definition first_not_sl (t : bytes) : Prop :=
  match t with c :: _ => is_sl c = false | [] => True end.

Lemma init_slashes_render : forall k t, (k = 1 \/ k = 2) -> first_not_sl t ->
  init_slashes (repeat SL k ++ t) = k.
Proof.
  intros k t [-> | ->] H; cbn; destruct t as [|c t']; cbn in *; try reflexivity; now rewrite H.
Qed.

Lemma okc_first_not_sl : forall c t, okc c = true -> first_not_sl (c ++ t).
Proof.
  intros c t H. apply okc_spec in H as (H1 & H2 & _). destruct c as [|x c]; [contradiction|].
  cbn in *. now apply orb_false_iff in H2 as [H2 _].
Qed.

Lemma join_sl_first_not_sl : forall cs t, forallb okc cs = true -> cs <> [] -> first_not_sl (join_sl cs ++ t).
Proof.
  intros [|c cs] t H Hn; [contradiction|]. cbn in H. apply andb_true_iff in H as [Hc _].
  cbn [join_sl]. destruct cs.
  - now apply okc_first_not_sl.
  - rewrite <- app_assoc. now apply okc_first_not_sl.
Qed.

Lemma init_slashes_render_ok : forall k cs, (k = 1 \/ k = 2) -> forallb okc cs = true ->
  init_slashes (render k cs) = k.
Proof.
  intros k cs Hk H. unfold render. apply init_slashes_render; [assumption|].
  destruct cs as [|c cs']; [exact I|].
  rewrite <- (app_nil_r (join_sl (c :: cs'))). apply join_sl_first_not_sl; [assumption | discriminate].
Qed.

(** a normal absolute path: what [FilePath.path] always is *)
Definition absnormal (p : bytes) : Prop :=
  exists k cs, (k = 1 \/ k = 2) /\ forallb okc cs = true /\ p = render k cs.

Lemma normpath_abs_absnormal : forall s, isabs s = true -> absnormal (normpath s).
Proof.
  intros s H. exists (init_slashes s), (abs_comps s). split; [now apply isabs_init|].
  split; [apply abs_comps_ok | now apply normpath_abs].
Qed.

Lemma render_isabs : forall k cs, (k = 1 \/ k = 2) -> isabs (render k cs) = true.
Proof. intros k cs [-> | ->]; reflexivity. Qed.

Lemma absnormal_isabs : forall p, absnormal p -> isabs p = true.
Proof. intros p (k & cs & Hk & _ & ->). now apply render_isabs. Qed.

Lemma absnormal_segments_ok : forall p, absnormal p -> forallb okc (segments p) = true.
Proof. intros p (k & cs & Hk & H & ->). now rewrite segments_render. Qed.

(** normpath is the identity on normal absolute paths *)
Lemma normpath_absnormal : forall p, absnormal p -> normpath p = p.
Proof.
  intros p (k & cs & Hk & H & ->). rewrite normpath_abs by now apply render_isabs.
  rewrite init_slashes_render_ok by assumption. f_equal.
  unfold abs_comps. rewrite segments_render by assumption.
  rewrite norm_fold_ok by assumption. rewrite app_nil_r. apply rev_involutive.
Qed.

Lemma endswith_sl_snoc : forall s, endswith_sl s = true -> exists s', s = s' ++ [SL].
Proof.
  induction s as [|c s IH]; intro H; [discriminate|].
  destruct s as [|d s'].
  - cbn in H. apply is_sl_true in H. subst. now exists [].
  - change (endswith_sl (d :: s') = true) in H. destruct (IH H) as [s'' E]. exists (c :: s''). now rewrite E.
Qed.

(** join concatenates the segment lists (relative second argument) *)
Lemma segments_pjoin : forall a b, isabs b = false -> segments (pjoin a b) = segments a ++ segments b.
Proof.
  intros a b Hb. unfold pjoin. rewrite Hb. destruct (is_nil a || endswith_sl a) eqn:E.
  - apply orb_true_iff in E as [E|E].
    + destruct a; [reflexivity | discriminate].
    + destruct (endswith_sl_snoc _ E) as [a' ->]. rewrite <- app_assoc. cbn [app].
      now rewrite segments_app, segments_snoc_sl.
  - apply segments_app.
Qed.

Lemma pjoin_isabs : forall a b, isabs a = true -> isabs (pjoin a b) = true.
Proof.
  intros a b Ha. unfold pjoin. destruct (isabs b) eqn:Hb; [assumption|].
  destruct a as [|x a]; [discriminate|]. now destruct (is_nil (x :: a) || endswith_sl (x :: a)).
Qed.

Lemma endswith_sl_app_ok : forall t c, okc c = true -> endswith_sl (t ++ c) = false.
Proof.
  intros t c H. apply okc_spec in H as (H1 & H2 & _).
  induction t as [|x t IH].
  - cbn. induction c as [|y c IHc]; [contradiction|].
    cbn in H2. apply orb_false_iff in H2 as [Hy Hc]. destruct c as [|z c']; [exact Hy|].
    change (endswith_sl (z :: c') = false). apply IHc; [discriminate | assumption].
  - cbn [app]. destruct (t ++ c) eqn:E.
    + destruct t; [cbn in E; subst; contradiction | discriminate].
    + exact IH.
Qed.

Lemma join_sl_snoc : forall cs c, cs <> [] -> join_sl (cs ++ [c]) = join_sl cs ++ SL :: c.
Proof.
  induction cs as [|x cs IH]; intros c Hn; [contradiction|].
  destruct cs as [|y cs'].
  - reflexivity.
  - cbn [app join_sl] in *. rewrite IH by discriminate. now rewrite <- app_assoc.
Qed.

(** the leading-slash count survives joining a relative name onto a normal absolute path *)
Lemma init_slashes_pjoin : forall k cs b, (k = 1 \/ k = 2) -> forallb okc cs = true ->
  isabs b = false -> init_slashes (pjoin (render k cs) b) = k.
Proof.
  intros k cs b Hk H Hb. unfold pjoin. rewrite Hb.
  destruct cs as [|c cs'].
  - (* the root: ends with a slash *)
    unfold render. cbn [join_sl]. rewrite app_nil_r.
    assert (E : is_nil (repeat SL k) || endswith_sl (repeat SL k) = true) by (destruct Hk as [-> | ->]; reflexivity).
    rewrite E. apply init_slashes_render; [assumption|].
    destruct b as [|x b]; [exact I | exact Hb].
  - assert (E : is_nil (render k (c :: cs')) || endswith_sl (render k (c :: cs')) = false).
    { apply orb_false_iff. split.
      - destruct Hk as [-> | ->]; reflexivity.
      - unfold render. destruct (exists_last (l := c :: cs')) as (l' & z & El); [discriminate|].
        rewrite El in *. rewrite forallb_app in H. apply andb_true_iff in H as [_ Hz]. cbn in Hz.
        rewrite andb_true_r in Hz. destruct l' as [|w l''].
        + cbn [app join_sl]. now apply endswith_sl_app_ok.
        + rewrite join_sl_snoc by discriminate. rewrite app_assoc.
          change (SL :: z) with ([SL] ++ z). rewrite app_assoc. now apply endswith_sl_app_ok. }
    rewrite E. unfold render. rewrite <- app_assoc. apply init_slashes_render; [assumption|].
    apply join_sl_first_not_sl; [assumption | discriminate].
Qed.

Lemma prefix_of_app : forall p t, prefix_of p (p ++ t) = true.
Proof. induction p as [|x p IH]; intro t; [reflexivity|]. cbn. now rewrite beq_refl, IH. Qed.

Lemma prefix_of_spec : forall p l, prefix_of p l = true <-> exists t, l = p ++ t.
Proof.
  induction p as [|x p IH]; intro l; cbn.
  - split; [intros _; now exists l | reflexivity].
  - destruct l as [|y l]; [split; [discriminate | intros [t Ht]; discriminate]|].
    rewrite andb_true_iff, beq_eq, IH. split.
    + intros [-> [t ->]]. now exists t.
    + intros [t Ht]. injection Ht as -> ->. split; [reflexivity | now exists t].
Qed.

Lemma length_join_sl_snoc : forall cs c, c <> [] -> length (join_sl cs) < length (join_sl (cs ++ [c])).
Proof.
  intros cs c Hc. destruct cs as [|x cs'].
  - cbn. destruct c; [contradiction | cbn; lia].
  - rewrite join_sl_snoc by discriminate. rewrite app_length. cbn. lia.
Qed.
