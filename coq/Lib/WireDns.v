(** WireDns: executable model of the wire codec of twisted/names/dns.py, shared by C32 (round trip)
    and C33 (totality / termination).  Hand-written (H-tie); no proofs here.

    Positions are ABSOLUTE offsets into the whole message (the decoder works on
    BytesIO(message); the encoder's compression dictionary stores body offset + 12).

    Decoding side   [readp] = readPrecisely;  [name_step]/[dec_name] = Name.decode (one pass of its
                    `while 1` loop / the loop run with a binary fuel);  [dec_field]/[dec_fields] =
                    the Record_*.decode methods described by a field schema;  [dec_rr],
                    [dec_section], [dec_message] = RRHeader.decode, Message.parseRecords, Message.decode
                    (= Message.fromStr).
    Encoding side   [enc_labels] = Name.encode, in the REPAIRED form (fixes/C32-*.patch): a label
                    longer than 63 bytes or a name longer than 255 bytes on the wire is refused with
                    ValueError, and offsets >= 2^14 are not entered into the compression dictionary;
                    [enc_field(s)], [enc_rr], [enc_message] = the encode methods / Message.toStr
                    with the maxSize truncation.
    Outcomes        [Done v] = returned v, [Raise e] = raised exception class e, [Fuel] = the
                    model's iteration budget ran out (shown impossible in WireDnsTotal.v). *)
From Coq Require Import List NArith ZArith Bool.
From TwLib Require Import PyInt WireIter.
Import ListNotations.
Open Scope N_scope.

Inductive outcome (A : Type) : Type := Done (a : A) | Raise (e : pyexn) | Fuel.
Arguments Done {A} a.
Arguments Raise {A} e.
Arguments Fuel {A}.

Definition obind {A B} (o : outcome A) (f : A -> outcome B) : outcome B :=
  match o with Done a => f a | Raise e => Raise e | Fuel => Fuel end.

Definition label := list N.

(** ------------------------------------------------------------------ reading --- *)

Definition slice (msg : list N) (pos l : N) : list N := takeN l (dropN pos msg).

(** readPrecisely(strio, l) for l >= 0 *)
Definition readp (msg : list N) (pos l : N) : outcome (list N * N) :=
  let b := slice msg pos l in
  if blen b <? l then Raise EOFError else Done (b, pos + l).

(** ord(readPrecisely(strio, 1)) *)
Definition read1 (msg : list N) (pos : N) : outcome (N * N) :=
  match dropN pos msg with
  | b :: _ => Done (b, pos + 1)
  | [] => Raise EOFError
  end.

(** struct.unpack of k big-endian unsigned bytes *)
Definition read_u (msg : list N) (pos : N) (k : nat) : outcome (N * N) :=
  obind (readp msg pos (N.of_nat k)) (fun '(b, p) => Done (from_be b, p)).

(** file.read(-n): everything that is left *)
Definition read_all (msg : list N) (pos : N) : list N * N :=
  (dropN pos msg, N.max pos (blen msg)).

(** ------------------------------------------------------------------ Name.decode --- *)

Record nstate := mkN { n_pos : N; n_vis : list N; n_acc : list label; n_off : N }.

Definition name_step (msg : list N) (s : nstate) : nstate + outcome (list label * N) :=
  match read1 msg (n_pos s) with
  | Done (l, p1) =>
      if l =? 0 then inr (Done (n_acc s, if 0 <? n_off s then n_off s else p1))
      else if N.shiftr l 6 =? 3 then
        match read1 msg p1 with
        | Done (b2, p2) =>
            let new_off := N.lor (N.shiftl (N.land l 63) 8) b2 in
            if existsb (N.eqb new_off) (n_vis s) then inr (Raise ValueError)
            else inl (mkN new_off (new_off :: n_vis s) (n_acc s) (if n_off s =? 0 then p2 else n_off s))
        | Raise e => inr (Raise e)
        | Fuel => inr Fuel
        end
      else
        match readp msg p1 l with
        | Done (lab, p2) => inl (mkN p2 (n_vis s) (n_acc s ++ [lab]) (n_off s))
        | Raise e => inr (Raise e)
        | Fuel => inr Fuel
        end
  | Raise e => inr (Raise e)
  | Fuel => inr Fuel
  end.

(** budget: (2^14 + 1) * (len + 2) + len + 2 passes of the loop *)
Definition name_fuel_N (msg : list N) : N := 16385 * (blen msg + 2) + blen msg + 2.
Definition name_fuel (msg : list N) : positive := N.succ_pos (name_fuel_N msg).

Definition dec_name (msg : list N) (pos : N) : outcome (list label * N) :=
  match iter_pos (name_step msg) (name_fuel msg) (mkN pos [] [] 0) with
  | inl _ => Fuel
  | inr r => r
  end.

(** ------------------------------------------------------------------ field schemas --- *)

Inductive fty :=
| FU (k : nat)            (* k-byte big-endian unsigned (B, H, L / I) *)
| FU48                    (* TSIG time: struct.pack("!Q", t)[2:] *)
| FS32                    (* struct 'l': signed 32 bit *)
| FName (compress : bool) (* a domain name; compress = the encoder passes compDict on *)
| FBytes (k : nat)        (* k raw bytes (addresses) *)
| FCharstr                (* one length byte + bytes *)
| FRest (hdr : N)         (* readPrecisely(strio, length - hdr): the rest of the rdata *)
| FCharstrs               (* TXT / SPF: character strings until rdlength is used up *)
| FLen16                  (* 16-bit length + bytes (TSIG MAC / other data) *)
| FA6.                    (* Record_A6: prefix length, suffix bytes, optional prefix name *)

Inductive fval :=
| VU (n : N)
| VS (z : Z)
| VName (ls : list label)
| VBytes (b : list N)
| VList (l : list (list N))
| VA6 (plen : N) (suffix : list N) (prefix : list label).

Definition name_only : list fty := [FName true].

(** Message._recordTypes, by TYPE number; anything else is UnknownRecord *)
Definition schema_of (ty : N) : list fty :=
  match ty with
  | 1 => [FBytes 4]                                                  (* A *)
  | 2 | 3 | 4 | 5 | 7 | 8 | 9 | 12 | 39 => name_only                 (* NS MD MF CNAME MB MG MR PTR DNAME *)
  | 6 => [FName true; FName true; FU 4; FS32; FS32; FS32; FU 4]      (* SOA "!LlllL" *)
  | 10 => [FRest 0]                                                  (* NULL *)
  | 11 => [FBytes 4; FU 1; FRest 5]                                  (* WKS *)
  | 13 => [FCharstr; FCharstr]                                       (* HINFO *)
  | 14 | 17 => [FName true; FName true]                              (* MINFO RP *)
  | 15 | 18 => [FU 2; FName true]                                    (* MX AFSDB *)
  | 16 | 99 => [FCharstrs]                                           (* TXT SPF *)
  | 28 => [FBytes 16]                                                (* AAAA *)
  | 33 => [FU 2; FU 2; FU 2; FName false]                            (* SRV *)
  | 35 => [FU 2; FU 2; FCharstr; FCharstr; FCharstr; FName false]    (* NAPTR *)
  | 38 => [FA6]                                                      (* A6 *)
  | 44 => [FU 1; FU 1; FRest 2]                                      (* SSHFP *)
  | 250 => [FName true; FU48; FU 2; FLen16; FU 2; FU 2; FLen16]      (* TSIG *)
  | _ => [FRest 0]                                                   (* UnknownRecord *)
  end.

(** int((128 - prefixLen) / 8.0): truncation toward zero *)
Definition a6_bytes (plen : N) : Z := Z.quot (128 - Z.of_N plen) 8.

(** two's complement *)
Definition s32_of (n : N) : Z := if n <? 2147483648 then Z.of_N n else (Z.of_N n - 4294967296)%Z.

(** while soFar < length: L = read1; data.append(readPrecisely(L)); soFar += L + 1 *)
Fixpoint dec_charstrs (fuel : nat) (msg : list N) (pos soFar len : N) (acc : list (list N))
  : outcome (list (list N) * N) :=
  if soFar <? len then
    match fuel with
    | O => Fuel
    | S f =>
      obind (read1 msg pos) (fun '(L, p1) =>
      obind (readp msg p1 L) (fun '(d, p2) =>
      dec_charstrs f msg p2 (soFar + L + 1) len (acc ++ [d])))
    end
  else Done (acc, pos).

Definition dec_field (msg : list N) (t : fty) (pos rdlen : N) : outcome (fval * N) :=
  match t with
  | FU k => obind (read_u msg pos k) (fun '(n, p) => Done (VU n, p))
  | FU48 => obind (read_u msg pos 6) (fun '(n, p) => Done (VU n, p))
  | FS32 => obind (read_u msg pos 4) (fun '(n, p) => Done (VS (s32_of n), p))
  | FName _ => obind (dec_name msg pos) (fun '(ls, p) => Done (VName ls, p))
  | FBytes k => obind (readp msg pos (N.of_nat k)) (fun '(b, p) => Done (VBytes b, p))
  | FCharstr => obind (read1 msg pos) (fun '(l, p1) =>
                obind (readp msg p1 l) (fun '(b, p2) => Done (VBytes b, p2)))
  | FRest hdr =>
      if rdlen <? hdr then let '(b, p) := read_all msg pos in Done (VBytes b, p)
      else obind (readp msg pos (rdlen - hdr)) (fun '(b, p) => Done (VBytes b, p))
  | FCharstrs => obind (dec_charstrs (S (N.to_nat rdlen)) msg pos 0 rdlen [])
                       (fun '(l, p) => Done (VList l, p))
  | FLen16 => obind (read_u msg pos 2) (fun '(n, p1) =>
              obind (readp msg p1 n) (fun '(b, p2) => Done (VBytes b, p2)))
  | FA6 =>
      obind (read1 msg pos) (fun '(plen, p1) =>
      let nb := a6_bytes plen in
      let suffix_step :=
        if (nb =? 0)%Z then Done (repeat 0 16, p1)
        else if (nb <? 0)%Z then
          let '(b, p) := read_all msg p1 in Done (repeat 0 (Z.to_nat (16 - nb)) ++ b, p)
        else obind (readp msg p1 (Z.to_N nb)) (fun '(b, p) => Done (repeat 0 (Z.to_nat (16 - nb)) ++ b, p)) in
      obind suffix_step (fun '(suffix, p2) =>
      if plen =? 0 then Done (VA6 plen suffix [], p2)
      else obind (dec_name msg p2) (fun '(ls, p3) => Done (VA6 plen suffix ls, p3))))
  end.

Fixpoint dec_fields (msg : list N) (ts : list fty) (pos rdlen : N) : outcome (list fval * N) :=
  match ts with
  | [] => Done ([], pos)
  | t :: r => obind (dec_field msg t pos rdlen) (fun '(v, p) =>
              obind (dec_fields msg r p rdlen) (fun '(vs, p') => Done (v :: vs, p')))
  end.

(** ------------------------------------------------------------------ queries, RRs, messages --- *)

Record query := mkQ { q_name : list label; q_type : N; q_cls : N }.
Record rr := mkRR { r_name : list label; r_type : N; r_cls : N; r_ttl : N; r_data : list fval }.

Record header := mkH {
  h_id : N; h_answer : N; h_opCode : N; h_auth : N; h_trunc : N; h_recDes : N;
  h_recAv : N; h_authenticData : N; h_checkingDisabled : N; h_rCode : N }.

Record message := mkM {
  m_hdr : header; m_queries : list query; m_answers : list rr; m_authority : list rr; m_additional : list rr }.

Definition dec_query (msg : list N) (pos : N) : outcome (query * N) :=
  obind (dec_name msg pos) (fun '(ls, p1) =>
  obind (readp msg p1 4) (fun '(b, p2) =>
  Done (mkQ ls (from_be (takeN 2 b)) (from_be (dropN 2 b)), p2))).

(** RRHeader.decode followed by payload.decode(strio, rdlength) *)
Definition dec_rr (msg : list N) (pos : N) : outcome (rr * N) :=
  obind (dec_name msg pos) (fun '(ls, p1) =>
  obind (readp msg p1 10) (fun '(b, p2) =>
  let ty := from_be (takeN 2 b) in
  let cls := from_be (takeN 2 (dropN 2 b)) in
  let ttl := from_be (takeN 4 (dropN 4 b)) in
  let rdlen := from_be (dropN 8 b) in
  obind (dec_fields msg (schema_of ty) p2 rdlen) (fun '(vs, p3) =>
  Done (mkRR ls ty cls ttl vs, p3)))).

(** a `for i in range(n)` loop whose body returns from the function on EOFError.
    result: items decoded, position, and whether EOFError ended the loop *)
Fixpoint dec_loop {A} (dec : list N -> N -> outcome (A * N)) (n : nat) (msg : list N) (pos : N) (acc : list A)
  : outcome (list A * N * bool) :=
  match n with
  | O => Done (acc, pos, false)
  | S n' =>
    match dec msg pos with
    | Done (x, p) => dec_loop dec n' msg p (acc ++ [x])
    | Raise EOFError => Done (acc, pos, true)
    | Raise e => Raise e
    | Fuel => Fuel
    end
  end.

(** after an EOFError every later read of the stream fails with EOFError as well (the failed read
    consumed what was left, or the position was already past the end), so the remaining sections
    stay empty *)
Definition dec_section (eof : bool) (n : N) (msg : list N) (pos : N) : outcome (list rr * N * bool) :=
  if eof then Done ([], pos, true) else dec_loop dec_rr (N.to_nat n) msg pos [].

Definition bit (x : N) (i : N) : N := N.land (N.shiftr x i) 1.

(** Message.decode / fromStr *)
Definition dec_message (msg : list N) : outcome message :=
  obind (readp msg 0 12) (fun '(h, p0) =>
  let id := from_be (takeN 2 h) in
  let byte3 := from_be (takeN 1 (dropN 2 h)) in
  let byte4 := from_be (takeN 1 (dropN 3 h)) in
  let nq := from_be (takeN 2 (dropN 4 h)) in
  let nans := from_be (takeN 2 (dropN 6 h)) in
  let nns := from_be (takeN 2 (dropN 8 h)) in
  let nadd := from_be (takeN 2 (dropN 10 h)) in
  let hd := mkH id (bit byte3 7) (N.land (N.shiftr byte3 3) 15) (bit byte3 2) (bit byte3 1) (bit byte3 0)
                (bit byte4 7) (bit byte4 5) (bit byte4 4) (N.land byte4 15) in
  obind (dec_loop dec_query (N.to_nat nq) msg p0 []) (fun '(qs, p1, eof1) =>
  if eof1 then Done (mkM hd qs [] [] [])      (* `except EOFError: return` inside the query loop *)
  else
  obind (dec_section false nans msg p1) (fun '(an, p2, eof2) =>
  obind (dec_section eof2 nns msg p2) (fun '(ns, p3, eof3) =>
  obind (dec_section eof3 nadd msg p3) (fun '(ad, _, _) =>
  Done (mkM hd qs an ns ad)))))).

(** ------------------------------------------------------------------ Name.encode (repaired) --- *)

Definition dict := list (list label * N).

Fixpoint bytes_eqb (a b : list N) : bool :=
  match a, b with
  | [], [] => true
  | x :: a', y :: b' => (x =? y) && bytes_eqb a' b'
  | _, _ => false
  end.

Fixpoint name_eqb (a b : list label) : bool :=
  match a, b with
  | [], [] => true
  | x :: a', y :: b' => bytes_eqb x y && name_eqb a' b'
  | _, _ => false
  end.

Fixpoint lookup (d : dict) (k : list label) : option N :=
  match d with
  | [] => None
  | (k', off) :: r => if name_eqb k' k then Some off else lookup r k
  end.

(** bytes of the name on the wire without compression: sum (len + 1) + 1 *)
Fixpoint wire_len (ls : list label) : N :=
  match ls with [] => 1 | l :: r => 1 + blen l + wire_len r end.

(** the loop of Name.encode; [compress] = compDict is not None; [pos] = strio.tell() + 12 *)
Fixpoint enc_labels (compress : bool) (ls : list label) (pos : N) (d : dict) : res (list N * dict) :=
  match ls with
  | [] => Ok ([0], d)
  | l :: r =>
    match (if compress then lookup d ls else None) with
    | Some off =>
        let v := N.lor 49152 off in                    (* struct.pack("!H", 0xC000 | off) *)
        if v <? 65536 then Ok (to_be 2 v, d) else Err StructError
    | None =>
        let d1 := if (compress && (pos <? 16384))%bool then (ls, pos) :: d else d in
        if 63 <? blen l then Err ValueError
        else match enc_labels compress r (pos + 1 + blen l) d1 with
             | Ok (b, d2) => Ok ((blen l :: l) ++ b, d2)
             | Err e => Err e
             end
    end
  end.

Definition enc_name (compress : bool) (ls : list label) (pos : N) (d : dict) : res (list N * dict) :=
  if 255 <? wire_len ls then Err ValueError else enc_labels compress ls pos d.

(** ------------------------------------------------------------------ field / record encoders --- *)

Definition enc_u (k : nat) (n : N) : res (list N) :=
  if n <? 256 ^ N.of_nat k then Ok (to_be k n) else Err StructError.

Fixpoint enc_charstrs (l : list (list N)) : res (list N) :=
  match l with
  | [] => Ok []
  | d :: r => if 255 <? blen d then Err StructError
              else match enc_charstrs r with Ok b => Ok ((blen d :: d) ++ b) | Err e => Err e end
  end.

(** suffix[-n:] for n > 0 *)
Definition last_bytes (n : N) (b : list N) : list N := dropN (blen b - n) b.

Definition enc_field (t : fty) (v : fval) (pos : N) (d : dict) : res (list N * dict) :=
  match t, v with
  | FU k, VU n => match enc_u k n with Ok b => Ok (b, d) | Err e => Err e end
  | FU48, VU n => if n <? 18446744073709551616 then Ok (dropN 2 (to_be 8 n), d) else Err StructError
  | FS32, VS z => if ((-2147483648 <=? z) && (z <? 2147483648))%Z
                  then Ok (to_be 4 (Z.to_N (z mod 4294967296)), d) else Err StructError
  | FName c, VName ls => enc_name c ls pos d
  | FBytes _, VBytes b => Ok (b, d)
  | FCharstr, VBytes b => if 255 <? blen b then Err StructError else Ok (blen b :: b, d)
  | FRest _, VBytes b => Ok (b, d)
  | FCharstrs, VList l => match enc_charstrs l with Ok b => Ok (b, d) | Err e => Err e end
  | FLen16, VBytes b => if 65535 <? blen b then Err StructError else Ok (to_be 2 (blen b) ++ b, d)
  | FA6, VA6 plen suffix prefix =>
      if 255 <? plen then Err StructError else
      let nb := a6_bytes plen in
      let sfx := if (nb =? 0)%Z then [] else last_bytes (Z.to_N nb) suffix in
      if plen =? 0 then Ok ([plen] ++ sfx, d)
      else match enc_name false prefix (pos + 1 + blen sfx) d with
           | Ok (b, d') => Ok ([plen] ++ sfx ++ b, d')
           | Err e => Err e
           end
  | _, _ => Err TypeError
  end.

Fixpoint enc_fields (ts : list fty) (vs : list fval) (pos : N) (d : dict) : res (list N * dict) :=
  match ts, vs with
  | [], [] => Ok ([], d)
  | t :: tr, v :: vr =>
      match enc_field t v pos d with
      | Ok (b, d1) => match enc_fields tr vr (pos + blen b) d1 with
                      | Ok (b', d2) => Ok (b ++ b', d2)
                      | Err e => Err e
                      end
      | Err e => Err e
      end
  | _, _ => Err TypeError
  end.

Definition enc_query (q : query) (pos : N) (d : dict) : res (list N * dict) :=
  match enc_name true (q_name q) pos d with
  | Ok (b, d1) =>
      match enc_u 2 (q_type q), enc_u 2 (q_cls q) with
      | Ok t, Ok c => Ok (b ++ t ++ c, d1)
      | _, _ => Err StructError
      end
  | Err e => Err e
  end.

(** RRHeader.encode: name, "!HHIH" with rdlength 0, payload, then the rdlength patched in *)
Definition enc_rr (r : rr) (pos : N) (d : dict) : res (list N * dict) :=
  match enc_name true (r_name r) pos d with
  | Ok (b, d1) =>
      match enc_u 2 (r_type r), enc_u 2 (r_cls r), enc_u 4 (r_ttl r) with
      | Ok t, Ok c, Ok l =>
          match enc_fields (schema_of (r_type r)) (r_data r) (pos + blen b + 10) d1 with
          | Ok (pl, d2) =>
              match enc_u 2 (blen pl) with
              | Ok rl => Ok (b ++ t ++ c ++ l ++ rl ++ pl, d2)
              | Err e => Err e
              end
          | Err e => Err e
          end
      | _, _, _ => Err StructError
      end
  | Err e => Err e
  end.

Fixpoint enc_list {A} (enc : A -> N -> dict -> res (list N * dict)) (l : list A) (pos : N) (d : dict)
  : res (list N * dict) :=
  match l with
  | [] => Ok ([], d)
  | x :: r =>
      match enc x pos d with
      | Ok (b, d1) => match enc_list enc r (pos + blen b) d1 with
                      | Ok (b', d2) => Ok (b ++ b', d2)
                      | Err e => Err e
                      end
      | Err e => Err e
      end
  end.

(** the untruncated body (everything after the 12-byte header) *)
Definition enc_body (m : message) : res (list N) :=
  match enc_list enc_query (m_queries m) 12 [] with
  | Ok (b1, d1) =>
    match enc_list enc_rr (m_answers m) (12 + blen b1) d1 with
    | Ok (b2, d2) =>
      match enc_list enc_rr (m_authority m) (12 + blen b1 + blen b2) d2 with
      | Ok (b3, d3) =>
        match enc_list enc_rr (m_additional m) (12 + blen b1 + blen b2 + blen b3) d3 with
        | Ok (b4, _) => Ok (b1 ++ b2 ++ b3 ++ b4)
        | Err e => Err e
        end
      | Err e => Err e
      end
    | Err e => Err e
    end
  | Err e => Err e
  end.

Definition enc_header (h : header) (trunc nq nan nns nad : N) : res (list N) :=
  let byte3 := N.lor (N.shiftl (N.land (h_answer h) 1) 7)
              (N.lor (N.shiftl (N.land (h_opCode h) 15) 3)
              (N.lor (N.shiftl (N.land (h_auth h) 1) 2)
              (N.lor (N.shiftl (N.land trunc 1) 1) (N.land (h_recDes h) 1)))) in
  let byte4 := N.lor (N.shiftl (N.land (h_recAv h) 1) 7)
              (N.lor (N.shiftl (N.land (h_authenticData h) 1) 5)
              (N.lor (N.shiftl (N.land (h_checkingDisabled h) 1) 4) (N.land (h_rCode h) 15))) in
  match enc_u 2 (h_id h), enc_u 2 nq, enc_u 2 nan, enc_u 2 nns, enc_u 2 nad with
  | Ok i, Ok a, Ok b, Ok c, Ok e => Ok (i ++ [byte3; byte4] ++ a ++ b ++ c ++ e)
  | _, _, _, _, _ => Err StructError
  end.

(** Message.toStr with maxSize (0 = no limit): the body is cut at maxSize - 12 and the trunc
    flag set when it does not fit; the counts in the header stay those of the whole message *)
Definition enc_message (m : message) (maxSize : N) : res (list N) :=
  match enc_body m with
  | Ok body =>
      let too_big := (negb (maxSize =? 0) && (maxSize <? blen body + 12))%bool in
      let body' := if too_big then takeN (maxSize - 12) body else body in
      let tr := if too_big then 1 else h_trunc (m_hdr m) in
      match enc_header (m_hdr m) tr (blen (m_queries m)) (blen (m_answers m))
                       (blen (m_authority m)) (blen (m_additional m)) with
      | Ok h => Ok (h ++ body')
      | Err e => Err e
      end
  | Err e => Err e
  end.
