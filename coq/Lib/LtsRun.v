(** Labelled transition systems given by a total step function, their runs over a
    schedule (a list of labels = one interleaving), and invariants lifted from one step
    to every schedule.  Used by C50 (FilesystemLock), C49 (Team), C53 (LogFile).

    A system is [step : S -> L -> S]; an interleaving of N processes is a list of labels
    each naming the process (or environment action) that moves next; "for every
    interleaving" is therefore "for every list of labels". *)
From Coq Require Import List.
Import ListNotations.

Section Lts.
  Context {S L : Type}.
  Variable step : S -> L -> S.

  Fixpoint run (s : S) (ls : list L) : S :=
    match ls with
    | [] => s
    | l :: r => run (step s l) r
    end.

  Lemma run_app s a b : run s (a ++ b) = run (run s a) b.
  Proof. revert s; induction a as [|l a IH]; intros s; cbn; [reflexivity | apply IH]. Qed.

  Lemma run_snoc s a l : run s (a ++ [l]) = step (run s a) l.
  Proof. rewrite run_app. reflexivity. Qed.

  Lemma run_fold s ls : run s ls = fold_left step ls s.
  Proof. revert s; induction ls as [|l r IH]; intros s; cbn; [reflexivity | apply IH]. Qed.

  (** an invariant preserved by every step holds after every schedule *)
  Lemma run_invariant (Inv : S -> Prop) :
    (forall s l, Inv s -> Inv (step s l)) ->
    forall ls s, Inv s -> Inv (run s ls).
  Proof.
    intros Hstep ls; induction ls as [|l r IH]; intros s H; cbn; [exact H|].
    apply IH, Hstep, H.
  Qed.

  (** the same for an invariant that only steps taken by admissible labels preserve *)
  Lemma run_invariant_guarded (Inv : S -> Prop) (ok : L -> Prop) :
    (forall s l, ok l -> Inv s -> Inv (step s l)) ->
    forall ls s, Forall ok ls -> Inv s -> Inv (run s ls).
  Proof.
    intros Hstep ls; induction ls as [|l r IH]; intros s Hok H; cbn; [exact H|].
    inversion Hok as [|? ? Hl Hr]; subst. apply IH; [exact Hr|]. apply Hstep; assumption.
  Qed.

  (** reachability *)
  Definition reachable (init : S) (s : S) : Prop := exists ls, s = run init ls.

  Lemma reachable_init init : reachable init init.
  Proof. exists []. reflexivity. Qed.

  Lemma reachable_step init s l : reachable init s -> reachable init (step s l).
  Proof. intros [ls E]. exists (ls ++ [l]). rewrite run_snoc, <- E. reflexivity. Qed.

  Lemma reachable_run init s ls : reachable init s -> reachable init (run s ls).
  Proof. intros [l0 E]. exists (l0 ++ ls). rewrite run_app, <- E. reflexivity. Qed.

  Lemma reachable_invariant (Inv : S -> Prop) init :
    Inv init -> (forall s l, Inv s -> Inv (step s l)) -> forall s, reachable init s -> Inv s.
  Proof. intros H0 Hs s [ls E]. subst. apply run_invariant; assumption. Qed.
End Lts.

(** systems that also emit one event per step: the run collects the log in order *)
Section LtsEv.
  Context {S L E : Type}.
  Variable stepe : S -> L -> S * E.

  Fixpoint rune (s : S) (ls : list L) : S * list E :=
    match ls with
    | [] => (s, [])
    | l :: r => let '(s1, e) := stepe s l in let '(s2, es) := rune s1 r in (s2, e :: es)
    end.

  Lemma rune_cons s l r :
    rune s (l :: r) = (fst (rune (fst (stepe s l)) r), snd (stepe s l) :: snd (rune (fst (stepe s l)) r)).
  Proof. cbn [rune]. destruct (stepe s l) as [s1 e]. cbn [fst snd]. destruct (rune s1 r); reflexivity. Qed.

  Lemma rune_state s ls : fst (rune s ls) = run (fun s l => fst (stepe s l)) s ls.
  Proof.
    revert s; induction ls as [|l r IH]; intros s; [reflexivity|].
    rewrite rune_cons. cbn [fst run]. apply IH.
  Qed.

  Lemma rune_length s ls : length (snd (rune s ls)) = length ls.
  Proof.
    revert s; induction ls as [|l r IH]; intros s; [reflexivity|].
    rewrite rune_cons. cbn [snd length]. rewrite IH. reflexivity.
  Qed.

  Lemma rune_app s a b :
    rune s (a ++ b) = (fst (rune (fst (rune s a)) b), snd (rune s a) ++ snd (rune (fst (rune s a)) b)).
  Proof.
    revert s; induction a as [|l a IH]; intros s.
    - cbn. destruct (rune s b); reflexivity.
    - rewrite <- app_comm_cons, !rune_cons, IH. cbn [fst snd]. reflexivity.
  Qed.
End LtsEv.
