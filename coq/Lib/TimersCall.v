(** Shared by C08 / C09 / C10 (cluster "timers"): the DelayedCall record of
    src/twisted/internet/base.py, the operations a test program / a call body can apply to it,
    the event log, and Python's stable [list.sort] (as insertion sort; any stable sort computes the
    same list).  Times are integers: the harness generates dyadic rationals n / 2^k and the model
    works on n (float exactness on that range is a recorded assumption).  Definitions only. *)
From Coq Require Import List Arith ZArith Bool.
Import ListNotations.
Local Open Scope Z_scope.

(** DelayedCall: [time], [delayed_time], [cancelled]; [cid] = creation index (the harness
    numbers calls in creation order); [cres] is a ghost flag: "has been rescheduled by a
    successful reset/delay" (no code reads it). *)
Record call := mkCall { cid : nat; ctime : Z; cdelay : Z; ccanc : bool; cres : bool }.

Definition getTime (c : call) : Z := ctime c + cdelay c.

(** DelayedCall.reset(secondsFromNow) on an active call; the bool says whether [resetter] is invoked *)
Definition do_reset (now s : Z) (c : call) : call * bool :=
  let nt := now + s in
  if nt <? ctime c then (mkCall (cid c) nt 0 (ccanc c) true, true)
  else (mkCall (cid c) (ctime c) (nt - ctime c) (ccanc c) true, false).

(** DelayedCall.delay(secondsLater) on an active call *)
Definition do_delay (s : Z) (c : call) : call * bool :=
  let d := cdelay c + s in
  if d <? 0 then (mkCall (cid c) (ctime c + d) 0 (ccanc c) true, true)
  else (mkCall (cid c) (ctime c) d (ccanc c) true, false).

(** DelayedCall.activate_delay *)
Definition activate (c : call) : call := mkCall (cid c) (ctime c + cdelay c) 0 (ccanc c) (cres c).

Definition set_canc (c : call) : call := mkCall (cid c) (ctime c) (cdelay c) true (cres c).

(** what a call body (or the test program between iterations) can do to the timer API; call ids
    refer to creation order *)
Inductive bop :=
| BCallLater (d : Z)
| BCancel (i : nat)
| BReset (i : nat) (s : Z)
| BDelay (i : nat) (s : Z)
| BSnap                       (* call getDelayedCalls() and record what it returns *)
| BRaise.                     (* (in a call function) raise an exception: the rest of the function is not executed *)

Definition nonneg_bop (b : bop) : Prop :=
  match b with BCallLater d => 0 <= d | BReset _ s => 0 <= s | BDelay _ s => 0 <= s | _ => True end.

(** the event log (ghost + what the correspondence check prints) *)
Inductive ev :=
| ENew (i : nat) (t : Z)                    (* callLater returned call #i scheduled for t *)
| ECancel (i : nat)                         (* cancel() succeeded *)
| EReset (i : nat) (t : Z)                  (* reset() succeeded; getTime() is now t *)
| EDelay (i : nat) (t : Z)                  (* delay() succeeded; getTime() is now t *)
| EErrCalled (i : nat)                      (* AlreadyCalled *)
| EErrCancelled (i : nat)                   (* AlreadyCancelled *)
| ENoSuch (i : nat)                         (* the program named a call that does not exist yet: no-op *)
| ERun (c : call) (now : Z) (others : list call)  (* call c's function starts; clock reads now;
                                                     others = the other pending calls at that moment (ghost) *)
| EEnd (i : nat)                            (* call #i's function returned *)
| ERaise (i : nat)                          (* call #i's function raised *)
| EIter                                     (* Clock.advance / reactor.runUntilCurrent is entered *)
| EDone (n : Z)                             (* ... returned; the clock reads n *)
| ETimeout (t : option Z)                   (* reactor.timeout() returned t *)
| ESnap (p : list (nat * Z)).               (* getDelayedCalls(): (id, getTime) in the order returned *)

(** run a call function (a script) on a state: stops at the first [BRaise]; the bool says whether it raised *)
Fixpoint run_body {S : Type} (exec : S -> bop -> S) (bs : list bop) (s : S) : S * bool :=
  match bs with
  | [] => (s, false)
  | BRaise :: _ => (s, true)
  | b :: r => run_body exec r (exec s b)
  end.

(** ---- lookups by id ---- *)
Fixpoint find_id (i : nat) (l : list call) : option call :=
  match l with
  | [] => None
  | c :: r => if Nat.eqb (cid c) i then Some c else find_id i r
  end.

Fixpoint remove_id (i : nat) (l : list call) : list call :=
  match l with
  | [] => []
  | c :: r => if Nat.eqb (cid c) i then r else c :: remove_id i r
  end.

(** replace (in place) the first call whose id is [cid c'] by [c'] *)
Fixpoint replace_id (c' : call) (l : list call) : list call :=
  match l with
  | [] => []
  | c :: r => if Nat.eqb (cid c) (cid c') then c' :: r else c :: replace_id c' r
  end.

Definition memn (i : nat) (l : list nat) : bool := existsb (Nat.eqb i) l.

(** ---- Python's stable sort by key, as insertion sort ---- *)
Section Sort.
  Variable key : call -> Z.
  Fixpoint insert (x : call) (l : list call) : list call :=
    match l with
    | [] => [x]
    | y :: r => if key x <=? key y then x :: l else y :: insert x r
    end.
  Fixpoint sort (l : list call) : list call :=
    match l with
    | [] => []
    | x :: r => insert x (sort r)
    end.
End Sort.

Definition snapshot (l : list call) : list (nat * Z) := map (fun c => (cid c, getTime c)) l.

(** readings of the log *)
Definition run_of (e : ev) : list call := match e with ERun c _ _ => [c] | _ => [] end.
Definition runs (l : list ev) : list call := flat_map run_of l.
Definition run_ids (l : list ev) : list nat := map cid (runs l).
Definition run_times (l : list ev) : list Z := map getTime (runs l).
Definition cancel_of (e : ev) : list nat := match e with ECancel i => [i] | _ => [] end.
Definition cancelled_ids (l : list ev) : list nat := flat_map cancel_of l.
