(** WireIter: bounded iteration of a step function with BINARY fuel.

    [iter_pos p step s] runs [step] at most [Pos.to_nat p] times from [s] and stops at the first
    [inr] (a result); [inl s'] means the budget ran out in state [s'].  The recursion is on the
    structure of the positive, so a budget of many millions costs nothing under [vm_compute]
    unless the steps are really taken.  [iter_pos_nat] relates it to the obvious unary version,
    and [iter_nat_measure] is the termination principle: a natural-number measure that every
    continuing step strictly decreases bounds the number of steps. *)
From Coq Require Import PArith NArith Arith Lia.

Section Iter.
  Context {S R : Type} (step : S -> S + R).

  Fixpoint iter_nat (n : nat) (s : S) : S + R :=
    match n with
    | O => inl s
    | Datatypes.S n' => match step s with inl s' => iter_nat n' s' | inr r => inr r end
    end.

  Fixpoint iter_pos (p : positive) (s : S) : S + R :=
    match p with
    | xH => step s
    | xO q => match iter_pos q s with inl s' => iter_pos q s' | inr r => inr r end
    | xI q => match step s with
              | inl s1 => match iter_pos q s1 with inl s2 => iter_pos q s2 | inr r => inr r end
              | inr r => inr r
              end
    end.

  Lemma iter_nat_add a b s :
    iter_nat (a + b) s = match iter_nat a s with inl s' => iter_nat b s' | inr r => inr r end.
  Proof.
    revert s; induction a as [|a IH]; intros s; [reflexivity|].
    cbn [plus iter_nat]. destruct (step s); [apply IH|reflexivity].
  Qed.

  Lemma iter_pos_nat p : forall s, iter_pos p s = iter_nat (Pos.to_nat p) s.
  Proof.
    induction p as [q IH|q IH|]; intros s.
    - rewrite Pos2Nat.inj_xI. cbn [iter_pos].
      replace (Datatypes.S (2 * Pos.to_nat q)) with (1 + (Pos.to_nat q + Pos.to_nat q))%nat by lia.
      rewrite iter_nat_add. cbn [iter_nat]. destruct (step s) as [s1|r]; [|reflexivity].
      rewrite iter_nat_add, <- IH. destruct (iter_pos q s1); [apply IH|reflexivity].
    - rewrite Pos2Nat.inj_xO. cbn [iter_pos].
      replace (2 * Pos.to_nat q)%nat with (Pos.to_nat q + Pos.to_nat q)%nat by lia.
      rewrite iter_nat_add, <- IH. destruct (iter_pos q s); [apply IH|reflexivity].
    - change (Pos.to_nat 1) with 1%nat. cbn [iter_nat iter_pos]. destruct (step s); reflexivity.
  Qed.

  (** more fuel never changes a result already reached *)
  Lemma iter_nat_mono n m s r : iter_nat n s = inr r -> (n <= m)%nat -> iter_nat m s = inr r.
  Proof.
    intros H L. replace m with (n + (m - n))%nat by lia. rewrite iter_nat_add, H. reflexivity.
  Qed.

  (** termination by a measure *)
  Lemma iter_nat_measure (mu : S -> nat) :
    (forall s s', step s = inl s' -> (mu s' < mu s)%nat) ->
    forall n s, (mu s < n)%nat -> exists r, iter_nat n s = inr r.
  Proof.
    intros D. induction n as [|n IH]; intros s L; [lia|].
    cbn [iter_nat]. destruct (step s) as [s'|r] eqn:E; [|eauto].
    apply IH. specialize (D s s' E). lia.
  Qed.

  (** the same with an invariant carried along *)
  Lemma iter_nat_measure_inv (mu : S -> nat) (I : S -> Prop) :
    (forall s s', I s -> step s = inl s' -> I s' /\ (mu s' < mu s)%nat) ->
    forall n s, I s -> (mu s < n)%nat -> exists r, iter_nat n s = inr r.
  Proof.
    intros D. induction n as [|n IH]; intros s Is L; [lia|].
    cbn [iter_nat]. destruct (step s) as [s'|r] eqn:E; [|eauto].
    destruct (D s s' Is E) as [Is' Lt]. apply IH; [exact Is'|lia].
  Qed.
End Iter.
