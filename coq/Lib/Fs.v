(** Fs: a small POSIX-ish filesystem for crash-safety arguments.

    State: a finite map  path -> File content | Dir | Link target  (association list, read only
    through [lookup]).  Paths are opaque byte strings (a flat namespace: the model does not check
    that a parent directory exists and [SRmdir] does not check emptiness — the programs modelled on
    top of it work inside one existing directory).

    Atomic steps ([step]) are the units at which a process can die:
      [SCreat p]      open(p, O_WRONLY|O_CREAT|O_TRUNC): p becomes an empty file
      [SCreatX p]     open(p, O_CREAT|O_EXCL|...): as SCreat, but refused when p exists
      [SAppend p b]   ONE more byte of a write() reaches the file (so a crash "after any prefix of
                      steps" covers a partial write of every length; [write_steps] expands a write)
      [SUnlink p]  [SRename a b] (POSIX: atomically replaces b)  [SMkdir p]  [SRmdir p]
      [SSymlink t p]  (fails if p exists — the atomic test-and-set used by lock files)
    A step that the kernel would refuse yields [None] ([apply]); [run] stops at the first refused
    step (the Python exception ends the operation).  POSIX atomicity of rename/symlink/unlink is
    the DEFINITION of these steps (trusted base: "POSIX rename atomicity"); process crash only
    (completed system calls persist; power loss / fsync are out of scope).

    [crash_states s l] = the states after every prefix of [l]. *)
From Coq Require Import List NArith Bool Arith Lia.
Import ListNotations.

Definition path := list N.

Inductive node :=
| File (content : list N)
| Dir
| Link (target : list N).

Definition fs := list (path * node).

Fixpoint path_eqb (a b : path) : bool :=
  match a, b with
  | [], [] => true
  | x :: a', y :: b' => N.eqb x y && path_eqb a' b'
  | _, _ => false
  end.

Fixpoint lookup (s : fs) (p : path) : option node :=
  match s with
  | [] => None
  | (q, n) :: r => if path_eqb p q then Some n else lookup r p
  end.

Fixpoint remove (s : fs) (p : path) : fs :=
  match s with
  | [] => []
  | (q, n) :: r => if path_eqb p q then remove r p else (q, n) :: remove r p
  end.

Definition update (s : fs) (p : path) (n : node) : fs := (p, n) :: remove s p.

Definition keys (s : fs) : list path := map fst s.

(** read-only system calls *)
Definition read (s : fs) (p : path) : option (list N) :=
  match lookup s p with Some (File c) => Some c | _ => None end.
Definition exists_ (s : fs) (p : path) : bool :=
  match lookup s p with Some _ => true | None => false end.
Definition is_file (s : fs) (p : path) : bool :=
  match lookup s p with Some (File _) => true | _ => false end.
Definition is_dir (s : fs) (p : path) : bool :=
  match lookup s p with Some Dir => true | _ => false end.
Definition readlink (s : fs) (p : path) : option (list N) :=
  match lookup s p with Some (Link t) => Some t | _ => None end.
(** glob / listdir: the existing paths that satisfy a predicate (in map order; callers must not
    depend on the order, as with os.listdir) *)
Definition glob (s : fs) (f : path -> bool) : list path := filter f (keys s).

Inductive step :=
| SCreat (p : path)
| SCreatX (p : path)
| SAppend (p : path) (b : N)
| SUnlink (p : path)
| SRename (a b : path)
| SMkdir (p : path)
| SRmdir (p : path)
| SSymlink (target p : path).

Definition apply (s : fs) (st : step) : option fs :=
  match st with
  | SCreat p =>
      match lookup s p with
      | Some Dir | Some (Link _) => None
      | _ => Some (update s p (File []))
      end
  | SCreatX p =>
      match lookup s p with None => Some (update s p (File [])) | Some _ => None end
  | SAppend p b =>
      match lookup s p with
      | Some (File c) => Some (update s p (File (c ++ [b])))
      | _ => None
      end
  | SUnlink p =>
      match lookup s p with
      | Some (File _) | Some (Link _) => Some (remove s p)
      | _ => None
      end
  | SRename a b =>
      match lookup s a with
      | None => None
      | Some n =>
          if path_eqb a b then Some s
          else match lookup s b, n with
               | Some Dir, File _ | Some Dir, Link _ => None       (* EISDIR *)
               | Some (File _), Dir | Some (Link _), Dir => None   (* ENOTDIR *)
               | _, _ => Some (update (remove s a) b n)
               end
      end
  | SMkdir p =>
      match lookup s p with None => Some (update s p Dir) | Some _ => None end
  | SRmdir p =>
      match lookup s p with Some Dir => Some (remove s p) | _ => None end
  | SSymlink t p =>
      match lookup s p with None => Some (update s p (Link t)) | Some _ => None end
  end.

(** run a program; the first refused step ends it *)
Fixpoint run (s : fs) (l : list step) : fs :=
  match l with
  | [] => s
  | st :: r => match apply s st with Some s' => run s' r | None => s end
  end.

(** does every step succeed? *)
Fixpoint run_ok (s : fs) (l : list step) : bool :=
  match l with
  | [] => true
  | st :: r => match apply s st with Some s' => run_ok s' r | None => false end
  end.

(** a write of [data] to an open file, one step per byte *)
Definition write_steps (p : path) (data : list N) : list step := map (SAppend p) data.
(** open(p, "wb"); write(data); close() *)
Definition write_file (p : path) (data : list N) : list step := SCreat p :: write_steps p data.

Fixpoint prefixes {A} (l : list A) : list (list A) :=
  match l with
  | [] => [[]]
  | x :: r => [] :: map (cons x) (prefixes r)
  end.

(** the states a crash can leave behind: after any prefix of the steps *)
Definition crash_states (s : fs) (l : list step) : list fs := map (run s) (prefixes l).

(** the paths a step can modify *)
Definition touches (st : step) : list path :=
  match st with
  | SCreat p | SCreatX p | SAppend p _ | SUnlink p | SMkdir p | SRmdir p | SSymlink _ p => [p]
  | SRename a b => [a; b]
  end.

Definition fs_equiv (s1 s2 : fs) : Prop := forall p, lookup s1 p = lookup s2 p.

(** ======================================================================================= *)

Lemma path_eqb_eq : forall a b, path_eqb a b = true <-> a = b.
Proof.
  induction a as [|x a IH]; destruct b as [|y b]; cbn; split; intro H; try easy.
  - apply andb_true_iff in H as [H1 H2]. apply N.eqb_eq in H1. apply IH in H2. now subst.
  - injection H as -> ->. rewrite N.eqb_refl. cbn. now apply IH.
Qed.

Lemma path_eqb_refl : forall a, path_eqb a a = true.
Proof. intro a. now apply path_eqb_eq. Qed.

Lemma path_eqb_neq : forall a b, path_eqb a b = false <-> a <> b.
Proof.
  intros a b. split.
  - intros H E. apply path_eqb_eq in E. congruence.
  - intro H. destruct (path_eqb a b) eqn:E; [apply path_eqb_eq in E; contradiction | reflexivity].
Qed.

Lemma path_eqb_sym : forall a b, path_eqb a b = path_eqb b a.
Proof.
  intros a b. destruct (path_eqb a b) eqn:E.
  - apply path_eqb_eq in E. subst. symmetry. apply path_eqb_refl.
  - apply path_eqb_neq in E. symmetry. apply path_eqb_neq. congruence.
Qed.

Lemma lookup_remove_eq : forall s p, lookup (remove s p) p = None.
Proof.
  induction s as [|[q n] r IH]; intro p; [reflexivity|].
  cbn. destruct (path_eqb p q) eqn:E; [apply IH|]. cbn. rewrite E. apply IH.
Qed.

Lemma lookup_remove_neq : forall s p q, p <> q -> lookup (remove s p) q = lookup s q.
Proof.
  induction s as [|[k n] r IH]; intros p q H; [reflexivity|].
  cbn. destruct (path_eqb p k) eqn:E.
  - apply path_eqb_eq in E. subst k.
    assert (path_eqb q p = false) as -> by (apply path_eqb_neq; congruence). now apply IH.
  - cbn. destruct (path_eqb q k); [reflexivity | now apply IH].
Qed.

Lemma lookup_update_eq : forall s p n, lookup (update s p n) p = Some n.
Proof. intros. cbn. now rewrite path_eqb_refl. Qed.

Lemma lookup_update_neq : forall s p q n, p <> q -> lookup (update s p n) q = lookup s q.
Proof.
  intros s p q n H. cbn.
  assert (path_eqb q p = false) as -> by (apply path_eqb_neq; congruence).
  now apply lookup_remove_neq.
Qed.

Lemma lookup_update : forall s p q n,
  lookup (update s p n) q = if path_eqb q p then Some n else lookup s q.
Proof.
  intros. destruct (path_eqb q p) eqn:E.
  - apply path_eqb_eq in E. subst. apply lookup_update_eq.
  - apply path_eqb_neq in E. apply lookup_update_neq. congruence.
Qed.

Lemma lookup_remove : forall s p q,
  lookup (remove s p) q = if path_eqb q p then None else lookup s q.
Proof.
  intros. destruct (path_eqb q p) eqn:E.
  - apply path_eqb_eq in E. subst. apply lookup_remove_eq.
  - apply path_eqb_neq in E. apply lookup_remove_neq. congruence.
Qed.

Lemma lookup_In_keys : forall s p n, lookup s p = Some n -> In p (keys s).
Proof.
  induction s as [|[q m] r IH]; intros p n H; [discriminate|].
  cbn in *. destruct (path_eqb p q) eqn:E.
  - apply path_eqb_eq in E. now left.
  - right. now apply IH with n.
Qed.

Lemma In_keys_lookup : forall s p, In p (keys s) -> exists n, lookup s p = Some n.
Proof.
  induction s as [|[q m] r IH]; intros p H; [contradiction|].
  cbn in *. destruct (path_eqb p q) eqn:E; [now exists m|].
  destruct H as [H|H]; [subst; now rewrite path_eqb_refl in E | now apply IH].
Qed.

Lemma glob_In : forall s f p, In p (glob s f) <-> (exists n, lookup s p = Some n) /\ f p = true.
Proof.
  intros s f p. unfold glob. rewrite filter_In. split.
  - intros [H1 H2]. split; [now apply In_keys_lookup | assumption].
  - intros [[n H1] H2]. split; [now apply lookup_In_keys with n | assumption].
Qed.

(** frame: a step changes nothing at a path it does not touch *)
Lemma apply_frame : forall s st s' q,
  apply s st = Some s' -> ~ In q (touches st) -> lookup s' q = lookup s q.
Proof.
  intros s st s' q H Hq. destruct st; cbn in H, Hq.
  - destruct (lookup s p) as [[| |]|]; inversion H; subst; apply lookup_update_neq; tauto.
  - destruct (lookup s p); inversion H; subst. apply lookup_update_neq; tauto.
  - destruct (lookup s p) as [[| |]|]; inversion H; subst; apply lookup_update_neq; tauto.
  - destruct (lookup s p) as [[| |]|]; inversion H; subst; apply lookup_remove_neq; tauto.
  - destruct (lookup s a) as [n|]; [|discriminate].
    destruct (path_eqb a b); [inversion H; now subst|].
    assert (E : lookup (update (remove s a) b n) q = lookup s q).
    { rewrite lookup_update_neq by tauto. apply lookup_remove_neq. tauto. }
    destruct (lookup s b) as [[| |]|]; destruct n; inversion H; subst; exact E.
  - destruct (lookup s p); inversion H; subst. apply lookup_update_neq; tauto.
  - destruct (lookup s p) as [[| |]|]; inversion H; subst; apply lookup_remove_neq; tauto.
  - destruct (lookup s p); inversion H; subst. apply lookup_update_neq; tauto.
Qed.

Lemma run_frame : forall l s q,
  Forall (fun st => ~ In q (touches st)) l -> lookup (run s l) q = lookup s q.
Proof.
  induction l as [|st l IH]; intros s q H; [reflexivity|].
  inversion H as [|? ? H1 H2]; subst. cbn. destruct (apply s st) as [s'|] eqn:E; [|reflexivity].
  rewrite (IH s' q H2). now apply apply_frame with st.
Qed.

Lemma run_app : forall l1 l2 s, run_ok s l1 = true -> run s (l1 ++ l2) = run (run s l1) l2.
Proof.
  induction l1 as [|st l1 IH]; intros l2 s H; [reflexivity|].
  cbn in *. destruct (apply s st) as [s'|]; [now apply IH | discriminate].
Qed.

Lemma run_ok_app : forall l1 l2 s, run_ok s (l1 ++ l2) = run_ok s l1 && run_ok (run s l1) l2.
Proof.
  induction l1 as [|st l1 IH]; intros l2 s; [reflexivity|].
  cbn. destruct (apply s st) as [s'|]; [apply IH | reflexivity].
Qed.

Lemma prefixes_spec : forall {A} (l pre : list A), In pre (prefixes l) <-> exists suf, l = pre ++ suf.
Proof.
  induction l as [|x l IH]; intro pre; cbn.
  - split.
    + intros [<-|[]]. now exists [].
    + intros [suf H]. destruct pre; [now left | discriminate].
  - split.
    + intros [<-|H]; [now exists (x :: l)|].
      apply in_map_iff in H as (p & <- & Hp). apply IH in Hp as [suf ->]. now exists suf.
    + intros [suf H]. destruct pre as [|y pre]; [now left|]. right.
      cbn in H. injection H as -> ->. apply in_map_iff. exists pre. split; [reflexivity|].
      apply IH. now exists suf.
Qed.

Lemma prefixes_self : forall {A} (l : list A), In l (prefixes l).
Proof. intros. apply prefixes_spec. exists []. now rewrite app_nil_r. Qed.

Lemma crash_states_spec : forall s l s',
  In s' (crash_states s l) <-> exists pre suf, l = pre ++ suf /\ s' = run s pre.
Proof.
  intros s l s'. unfold crash_states. rewrite in_map_iff. split.
  - intros (pre & <- & H). apply prefixes_spec in H as [suf ->]. now exists pre, suf.
  - intros (pre & suf & -> & ->). exists pre. split; [reflexivity|]. apply prefixes_spec. now exists suf.
Qed.

(** every prefix of a write leaves a prefix of the data in the file *)
Lemma run_write_steps : forall data s p c,
  lookup s p = Some (File c) ->
  run_ok s (write_steps p data) = true
  /\ lookup (run s (write_steps p data)) p = Some (File (c ++ data))
  /\ forall q, q <> p -> lookup (run s (write_steps p data)) q = lookup s q.
Proof.
  induction data as [|b data IH]; intros s p c H.
  - cbn. rewrite app_nil_r. auto.
  - change (write_steps p (b :: data)) with (SAppend p b :: write_steps p data).
    cbn [run run_ok apply]. rewrite H.
    destruct (IH (update s p (File (c ++ [b]))) p (c ++ [b])) as (I1 & I2 & I3); [apply lookup_update_eq|].
    rewrite I1, I2, <- app_assoc. split; [reflexivity|]. split; [reflexivity|].
    intros q Hq. rewrite (I3 q Hq). apply lookup_update_neq. congruence.
Qed.

Lemma write_steps_prefix : forall data p pre suf,
  write_steps p data = pre ++ suf -> exists k, pre = write_steps p (firstn k data).
Proof.
  induction data as [|b data IH]; intros p pre suf H.
  - cbn in H. destruct pre; [now exists 0 | discriminate].
  - destruct pre as [|st pre]; [now exists 0|].
    cbn in H. injection H as <- H. destruct (IH p pre suf H) as [k ->]. now exists (S k).
Qed.

Lemma write_steps_touch : forall p data q, q <> p ->
  Forall (fun st => ~ In q (touches st)) (write_steps p data).
Proof.
  intros p data q H. unfold write_steps. apply Forall_forall. intros st Hs.
  apply in_map_iff in Hs as (b & <- & _). cbn. intros [E|[]]. congruence.
Qed.

(** ---- the key list stays duplicate-free (so [glob] returns each name once) ---- *)
Lemma In_keys_remove : forall s p q, In q (keys (remove s p)) <-> In q (keys s) /\ q <> p.
Proof.
  induction s as [|[k n] r IH]; intros p q; cbn.
  - tauto.
  - destruct (path_eqb p k) eqn:E.
    + apply path_eqb_eq in E. subst k. rewrite IH. split; [tauto|]. intros [[H|H] Hn]; [congruence | tauto].
    + apply path_eqb_neq in E. cbn. rewrite IH. split.
      * intros [H|[H Hn]]; [subst; split; [now left | congruence] | tauto].
      * intros [[H|H] Hn]; [now left | right; tauto].
Qed.

Lemma NoDup_keys_remove : forall s p, NoDup (keys s) -> NoDup (keys (remove s p)).
Proof.
  induction s as [|[k n] r IH]; intros p H; cbn; [constructor|].
  inversion H as [|? ? Hk Hr]; subst. destruct (path_eqb p k); [now apply IH|].
  cbn. constructor; [|now apply IH]. intro Hin. apply In_keys_remove in Hin. tauto.
Qed.

Lemma NoDup_keys_update : forall s p n, NoDup (keys s) -> NoDup (keys (update s p n)).
Proof.
  intros s p n H. unfold update. cbn. constructor; [|now apply NoDup_keys_remove].
  intro Hin. apply In_keys_remove in Hin. tauto.
Qed.

Lemma NoDup_keys_apply : forall s st s', NoDup (keys s) -> apply s st = Some s' -> NoDup (keys s').
Proof.
  intros s st s' H E. destruct st; cbn in E.
  - destruct (lookup s p) as [[| |]|]; inversion E; subst; now apply NoDup_keys_update.
  - destruct (lookup s p); inversion E; subst; now apply NoDup_keys_update.
  - destruct (lookup s p) as [[| |]|]; inversion E; subst; now apply NoDup_keys_update.
  - destruct (lookup s p) as [[| |]|]; inversion E; subst; now apply NoDup_keys_remove.
  - destruct (lookup s a) as [n|]; [|discriminate]. destruct (path_eqb a b); [inversion E; now subst|].
    assert (G : NoDup (keys (update (remove s a) b n))) by (apply NoDup_keys_update; now apply NoDup_keys_remove).
    destruct (lookup s b) as [[| |]|]; destruct n; inversion E; subst; exact G.
  - destruct (lookup s p); inversion E; subst; now apply NoDup_keys_update.
  - destruct (lookup s p) as [[| |]|]; inversion E; subst; now apply NoDup_keys_remove.
  - destruct (lookup s p); inversion E; subst; now apply NoDup_keys_update.
Qed.

Lemma NoDup_keys_run : forall l s, NoDup (keys s) -> NoDup (keys (run s l)).
Proof.
  induction l as [|st l IH]; intros s H; [assumption|]. cbn.
  destruct (apply s st) as [s'|] eqn:E; [|assumption]. apply IH. now apply NoDup_keys_apply with s st.
Qed.

Lemma NoDup_glob : forall s f, NoDup (keys s) -> NoDup (glob s f).
Proof. intros. unfold glob. now apply NoDup_filter. Qed.
