(** PyInt: CPython integer <-> bytes conversions used by the wire codecs (C37, C44, C32, C33).

    Bytes are [N] (a byte string is a [list N]); Python ints are [Z] at the API level and [N]
    for the unsigned payloads.  These definitions ARE the assumed semantics of
      int.to_bytes(k, "big") / int.from_bytes(b, "big") / cryptography.utils.int_to_bytes,
      struct.pack / struct.unpack for the unsigned big-endian formats !B !H !I !L (>L),
      Python slicing s[a:b] with step 1,
      little-endian base-128 digit strings (banana).
    They are validated against CPython by the correspondence runs of the properties that use
    them (C37 and C44 run them directly on boundary values). *)
From Coq Require Import List NArith ZArith Lia ZifyBool Bool.
Import ListNotations.
Local Open Scope N_scope.

(** ---------------------------------------------------------------- lists indexed by N --- *)

(** [takeN]/[dropN] are [firstn]/[skipn] with a binary count (no unary blow-up under
    vm_compute when a length field says 2^32-1). *)
Fixpoint takeN {A} (n : N) (l : list A) : list A :=
  match l with
  | [] => []
  | x :: r => if n =? 0 then [] else x :: takeN (N.pred n) r
  end.

Fixpoint dropN {A} (n : N) (l : list A) : list A :=
  match l with
  | [] => []
  | x :: r => if n =? 0 then l else dropN (N.pred n) r
  end.

Definition blen {A} (l : list A) : N := N.of_nat (length l).

Lemma blen_app {A} (a b : list A) : blen (a ++ b) = blen a + blen b.
Proof. unfold blen. rewrite app_length. lia. Qed.

Lemma blen_cons {A} (x : A) l : blen (x :: l) = 1 + blen l.
Proof. unfold blen. cbn [length]. lia. Qed.

Lemma blen_nil {A} : blen (@nil A) = 0.
Proof. reflexivity. Qed.

Lemma takeN_0 {A} (l : list A) : takeN 0 l = [].
Proof. destruct l; reflexivity. Qed.

Lemma dropN_0 {A} (l : list A) : dropN 0 l = l.
Proof. destruct l; reflexivity. Qed.

Lemma takeN_app_exact {A} (a b : list A) : takeN (blen a) (a ++ b) = a.
Proof.
  induction a as [|x a IH]; [apply takeN_0|].
  rewrite blen_cons. cbn [app takeN].
  destruct (1 + blen a =? 0) eqn:E; [lia|].
  replace (N.pred (1 + blen a)) with (blen a) by lia. now rewrite IH.
Qed.

Lemma dropN_app_exact {A} (a b : list A) : dropN (blen a) (a ++ b) = b.
Proof.
  induction a as [|x a IH]; [apply dropN_0|].
  rewrite blen_cons. cbn [app dropN].
  destruct (1 + blen a =? 0) eqn:E; [lia|].
  replace (N.pred (1 + blen a)) with (blen a) by lia. exact IH.
Qed.

Lemma takeN_all {A} (n : N) (l : list A) : blen l <= n -> takeN n l = l.
Proof.
  revert n; induction l as [|x l IH]; intros n H; [reflexivity|].
  rewrite blen_cons in H. cbn [takeN]. destruct (n =? 0) eqn:E; [lia|].
  rewrite IH; [reflexivity|lia].
Qed.

Lemma dropN_all {A} (n : N) (l : list A) : blen l <= n -> dropN n l = [].
Proof.
  revert n; induction l as [|x l IH]; intros n H; [reflexivity|].
  rewrite blen_cons in H. cbn [dropN]. destruct (n =? 0) eqn:E; [lia|].
  apply IH; lia.
Qed.

Lemma takeN_dropN {A} (n : N) (l : list A) : takeN n l ++ dropN n l = l.
Proof.
  revert n; induction l as [|x l IH]; intros n; [reflexivity|].
  cbn [takeN dropN]. destruct (n =? 0); [reflexivity|]. cbn [app]. now rewrite IH.
Qed.

Lemma blen_takeN {A} (n : N) (l : list A) : blen (takeN n l) = N.min n (blen l).
Proof.
  revert n; induction l as [|x l IH]; intros n; [cbn; lia|].
  cbn [takeN]. destruct (n =? 0) eqn:E; [cbn; lia|].
  rewrite !blen_cons, IH. lia.
Qed.

Lemma blen_dropN {A} (n : N) (l : list A) : blen (dropN n l) = blen l - n.
Proof.
  revert n; induction l as [|x l IH]; intros n; [cbn; lia|].
  cbn [dropN]. destruct (n =? 0) eqn:E; [rewrite blen_cons; lia|].
  rewrite blen_cons, IH. lia.
Qed.

Lemma dropN_dropN {A} (a b : N) (l : list A) : dropN a (dropN b l) = dropN (b + a) l.
Proof.
  revert a b; induction l as [|x l IH]; intros a b; [reflexivity|].
  cbn [dropN]. destruct (b =? 0) eqn:E.
  - replace (b + a) with a by lia. reflexivity.
  - destruct (b + a =? 0) eqn:E2; [lia|]. rewrite IH. f_equal. lia.
Qed.

Lemma dropN_app_ge {A} (n : N) (a b : list A) : blen a <= n -> dropN n (a ++ b) = dropN (n - blen a) b.
Proof.
  intros H. replace n with (blen a + (n - blen a)) at 1 by lia.
  rewrite <- dropN_dropN, dropN_app_exact. reflexivity.
Qed.

(** Python slicing [s[a:b]] (step 1), all cases including negative and out-of-range indices. *)
Definition clampZ (len i : Z) : N :=
  Z.to_N (if (i <? 0)%Z then Z.max 0 (len + i) else Z.min i len).

Definition pyslice {A} (s : list A) (a b : Z) : list A :=
  let n := Z.of_N (blen s) in
  let a' := clampZ n a in
  let b' := clampZ n b in
  takeN (b' - a') (dropN a' s).

(** [s[a:]] *)
Definition pyslice_from {A} (s : list A) (a : Z) : list A :=
  dropN (clampZ (Z.of_N (blen s)) a) s.

(** [s[:b]] *)
Definition pyslice_to {A} (s : list A) (b : Z) : list A :=
  takeN (clampZ (Z.of_N (blen s)) b) s.

Lemma clampZ_nonneg len i : (0 <= i)%Z -> (0 <= len)%Z -> clampZ len i = Z.to_N (Z.min i len).
Proof. intros. unfold clampZ. destruct (i <? 0)%Z eqn:E; [lia|reflexivity]. Qed.

(** slicing a concatenation exactly at the seam *)
Lemma pyslice_app_mid {A} (p x r : list A) :
  pyslice (p ++ x ++ r) (Z.of_N (blen p)) (Z.of_N (blen p + blen x)) = x.
Proof.
  unfold pyslice. rewrite !blen_app.
  rewrite !clampZ_nonneg by lia.
  replace (Z.to_N (Z.min (Z.of_N (blen p)) (Z.of_N (blen p + (blen x + blen r))))) with (blen p) by lia.
  replace (Z.to_N (Z.min (Z.of_N (blen p + blen x)) (Z.of_N (blen p + (blen x + blen r)))))
    with (blen p + blen x) by lia.
  rewrite dropN_app_exact. replace (blen p + blen x - blen p) with (blen x) by lia.
  apply takeN_app_exact.
Qed.

Lemma pyslice_from_app {A} (p r : list A) : pyslice_from (p ++ r) (Z.of_N (blen p)) = r.
Proof.
  unfold pyslice_from. rewrite blen_app, clampZ_nonneg by lia.
  replace (Z.to_N (Z.min (Z.of_N (blen p)) (Z.of_N (blen p + blen r)))) with (blen p) by lia.
  apply dropN_app_exact.
Qed.

(** ---------------------------------------------------------------- big-endian integers --- *)

Definition is_byte (b : N) : bool := b <? 256.

(** int.from_bytes(l, "big") *)
Definition from_be (l : list N) : N := fold_left (fun acc b => N.shiftl acc 8 + b) l 0.
(* [N.shiftl acc 8] is [acc * 256] (lemma [shl8]); the shift keeps vm_compute linear on long inputs *)

(** n.to_bytes(k, "big") for 0 <= n < 256^k  (the value is reduced mod 256^k otherwise; callers
    guard the range, as CPython raises OverflowError / struct.error there) *)
Fixpoint to_be (k : nat) (n : N) : list N :=
  match k with
  | O => []
  | S k' => to_be k' (N.shiftr n 8) ++ [N.land n 255]
  end.
(* [N.shiftr n 8] = n / 256 and [N.land n 255] = n mod 256 (lemmas [shr8], [land255]) *)

Lemma shl8 a : N.shiftl a 8 = a * 256.
Proof. now rewrite N.shiftl_mul_pow2. Qed.
Lemma shr8 a : N.shiftr a 8 = a / 256.
Proof. now rewrite N.shiftr_div_pow2. Qed.
Lemma land255 a : N.land a 255 = a mod 256.
Proof. change 255 with (N.ones 8). now rewrite N.land_ones. Qed.
Lemma shr7 a : N.shiftr a 7 = a / 128.
Proof. now rewrite N.shiftr_div_pow2. Qed.
Lemma land127 a : N.land a 127 = a mod 128.
Proof. change 127 with (N.ones 7). now rewrite N.land_ones. Qed.

(** number of bytes of the shortest big-endian representation: (bit_length + 7) // 8 *)
Definition nbytes (n : N) : nat := N.to_nat ((N.size n + 7) / 8).

(** cryptography.utils.int_to_bytes(n) = n.to_bytes((n.bit_length() + 7) // 8 or 1, "big") *)
Definition to_be_min (n : N) : list N := to_be (Nat.max 1 (nbytes n)) n.

Lemma from_be_snoc l b : from_be (l ++ [b]) = from_be l * 256 + b.
Proof. unfold from_be. rewrite fold_left_app. cbn [fold_left]. now rewrite shl8. Qed.

Lemma from_be_zero_cons l : from_be (0 :: l) = from_be l.
Proof. reflexivity. Qed.

Lemma length_to_be k n : length (to_be k n) = k.
Proof. revert n; induction k as [|k IH]; intros n; [reflexivity|]. cbn [to_be]. rewrite app_length, IH. cbn. lia. Qed.

Lemma blen_to_be k n : blen (to_be k n) = N.of_nat k.
Proof. unfold blen. now rewrite length_to_be. Qed.

Lemma to_be_bytes k n : forallb is_byte (to_be k n) = true.
Proof.
  revert n; induction k as [|k IH]; intros n; [reflexivity|].
  cbn [to_be]. rewrite forallb_app, IH, land255. cbn [forallb andb]. unfold is_byte.
  assert (n mod 256 < 256) by (apply N.mod_lt; lia).
  destruct (n mod 256 <? 256) eqn:E; [reflexivity|lia].
Qed.

Lemma from_be_to_be k n : from_be (to_be k n) = n mod 256 ^ N.of_nat k.
Proof.
  revert n; induction k as [|k IH]; intros n.
  - cbn. now rewrite N.mod_1_r.
  - cbn [to_be]. rewrite from_be_snoc, IH, shr8, land255.
    rewrite Nnat.Nat2N.inj_succ, N.pow_succ_r'.
    rewrite N.mod_mul_r by (try apply N.pow_nonzero; lia). lia.
Qed.

Lemma from_be_to_be_small k n : n < 256 ^ N.of_nat k -> from_be (to_be k n) = n.
Proof. intros H. rewrite from_be_to_be. now apply N.mod_small. Qed.

Lemma pow256 k : 256 ^ k = 2 ^ (8 * k).
Proof. rewrite N.pow_mul_r. reflexivity. Qed.

Lemma nbytes_bound n : n < 256 ^ N.of_nat (nbytes n).
Proof.
  unfold nbytes. rewrite Nnat.N2Nat.id, pow256.
  eapply N.lt_le_trans; [apply N.size_gt|].
  apply N.pow_le_mono_r; [lia|].
  pose proof (N.div_mod (N.size n + 7) 8 ltac:(lia)) as D.
  pose proof (N.mod_lt (N.size n + 7) 8 ltac:(lia)). lia.
Qed.

Lemma from_be_to_be_min n : from_be (to_be_min n) = n.
Proof.
  unfold to_be_min. apply from_be_to_be_small.
  eapply N.lt_le_trans; [apply nbytes_bound|].
  apply N.pow_le_mono_r; lia.
Qed.

Lemma to_be_min_bytes n : forallb is_byte (to_be_min n) = true.
Proof. apply to_be_bytes. Qed.

Lemma to_be_min_nonempty n : to_be_min n <> [].
Proof.
  unfold to_be_min. intros H. apply (f_equal (@length N)) in H.
  rewrite length_to_be in H. cbn [length] in H. lia.
Qed.

(** from_be is injective on equal-length byte strings (used by the fixed-width unpackers) *)
Lemma from_be_bound l : forallb is_byte l = true -> from_be l < 256 ^ blen l.
Proof.
  induction l as [|b l IH] using rev_ind; intros H; [cbn; lia|].
  rewrite forallb_app in H. apply andb_true_iff in H as [Hl Hb]. cbn in Hb. unfold is_byte in Hb.
  rewrite from_be_snoc, blen_app. specialize (IH Hl).
  replace (blen [b]) with 1 by reflexivity. rewrite N.pow_add_r, N.pow_1_r.
  destruct (b <? 256) eqn:E; [|discriminate]. nia.
Qed.

Lemma to_be_from_be l : forallb is_byte l = true -> to_be (length l) (from_be l) = l.
Proof.
  induction l as [|b l IH] using rev_ind; intros H; [reflexivity|].
  rewrite forallb_app in H. apply andb_true_iff in H as [Hl Hb]. cbn in Hb. unfold is_byte in Hb.
  destruct (b <? 256) eqn:E; [|discriminate].
  rewrite app_length. cbn [length]. rewrite Nat.add_1_r. cbn [to_be].
  rewrite from_be_snoc, shr8, land255.
  replace ((from_be l * 256 + b) / 256) with (from_be l).
  2:{ apply N.div_unique with b; lia. }
  replace ((from_be l * 256 + b) mod 256) with b.
  2:{ apply N.mod_unique with (from_be l); lia. }
  now rewrite IH.
Qed.

(** ---------------------------------------------------------------- struct pack / unpack --- *)

(** struct.pack("!B"|"!H"|"!I"/"!L", n): k = 1, 2, 4 bytes; struct.error outside the range *)
Definition pack_be (k : nat) (n : Z) : option (list N) :=
  if ((0 <=? n)%Z && (n <? 256 ^ Z.of_nat k)%Z)%bool then Some (to_be k (Z.to_N n)) else None.

(** struct.unpack of the same formats: exactly k bytes required, else struct.error *)
Definition unpack_be (k : nat) (b : list N) : option Z :=
  if Nat.eqb (length b) k then Some (Z.of_N (from_be b)) else None.

Lemma unpack_pack_be k n b : pack_be k n = Some b -> unpack_be k b = Some n.
Proof.
  unfold pack_be, unpack_be. destruct ((0 <=? n)%Z && (n <? 256 ^ Z.of_nat k)%Z)%bool eqn:G; [|discriminate].
  intros E; inversion E; subst b; clear E.
  rewrite length_to_be, Nat.eqb_refl. f_equal.
  apply andb_true_iff in G as [G1 G2].
  rewrite from_be_to_be_small; [lia|].
  apply Z.leb_le in G1. apply Z.ltb_lt in G2.
  assert (Z.of_N (256 ^ N.of_nat k) = (256 ^ Z.of_nat k)%Z) as P.
  { rewrite N2Z.inj_pow. now rewrite nat_N_Z. }
  lia.
Qed.

Lemma pack_be_length k n b : pack_be k n = Some b -> length b = k.
Proof.
  unfold pack_be. destruct (_ && _)%bool; [|discriminate]. intros E; inversion E. apply length_to_be.
Qed.

(** ---------------------------------------------------------------- base 128, little-endian - *)

(** digits of n, least significant first, no trailing zero digit; [] for 0 *)
Fixpoint le128_pos (p : positive) (fuel : nat) : list N :=
  match fuel with
  | O => []
  | S f => N.land (Npos p) 127 :: match N.shiftr (Npos p) 7 with 0 => [] | Npos q => le128_pos q f end
  end.

Definition to_le128 (n : N) : list N :=
  match n with 0 => [] | Npos p => le128_pos p (N.to_nat (N.size n)) end.

(** sum of d_i * 128^i *)
Fixpoint from_le128 (l : list N) : N :=
  match l with [] => 0 | d :: r => d + N.shiftl (from_le128 r) 7 end.

Lemma from_le128_cons d r : from_le128 (d :: r) = d + 128 * from_le128 r.
Proof. cbn [from_le128]. rewrite N.shiftl_mul_pow2. change (2 ^ 7) with 128. lia. Qed.

Lemma from_le128_pos p fuel : (N.size (Npos p) <= N.of_nat fuel) -> from_le128 (le128_pos p fuel) = Npos p.
Proof.
  revert p; induction fuel as [|f IH]; intros p H.
  - cbn in H. lia.
  - cbn [le128_pos]. rewrite from_le128_cons, shr7, land127.
    pose proof (N.div_mod (Npos p) 128 ltac:(lia)) as D.
    destruct (N.pos p / 128) as [|q] eqn:Q.
    + cbn [from_le128]. lia.
    + rewrite IH; [lia|].
      assert (N.pos q < N.pos p) as Hlt.
      { rewrite <- Q. apply N.div_lt; lia. }
      assert (N.size (N.pos q) < N.size (N.pos p)) as Hs.
      { rewrite !N.size_log2 by lia.
        assert (N.pos q * 128 <= N.pos p) as Hm.
        { clear -D. revert D. generalize (N.pos p mod 128). intros r D. lia. }
        change 128 with (2 ^ 7) in Hm.
        apply N.log2_le_mono in Hm. rewrite N.log2_mul_pow2 in Hm by lia. lia. }
      lia.
Qed.

Lemma from_to_le128 n : from_le128 (to_le128 n) = n.
Proof.
  destruct n as [|p]; [reflexivity|]. unfold to_le128. apply from_le128_pos.
  rewrite Nnat.N2Nat.id. lia.
Qed.

Lemma le128_pos_digits p fuel : forallb (fun d => d <? 128) (le128_pos p fuel) = true.
Proof.
  revert p; induction fuel as [|f IH]; intros p; [reflexivity|].
  cbn [le128_pos forallb]. rewrite shr7, land127.
  assert (N.pos p mod 128 < 128) by (apply N.mod_lt; lia).
  destruct (N.pos p mod 128 <? 128) eqn:E; [|lia]. cbn [andb].
  destruct (N.pos p / 128); [reflexivity|apply IH].
Qed.

Lemma to_le128_digits n : forallb (fun d => d <? 128) (to_le128 n) = true.
Proof. destruct n; [reflexivity|apply le128_pos_digits]. Qed.

(** ---------------------------------------------------------------- exceptions as values --- *)

(** the exception classes the modelled kernels can raise (compared by class name only) *)
Inductive pyexn := StructError | AssertionError | TypeError | OverflowError | ValueError | EOFError | IndexError.

Inductive res (A : Type) : Type := Ok (a : A) | Err (e : pyexn).
Arguments Ok {A} a.
Arguments Err {A} e.

Definition bind {A B} (r : res A) (f : A -> res B) : res B :=
  match r with Ok a => f a | Err e => Err e end.
