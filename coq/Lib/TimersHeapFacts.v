(** Facts about Lib/TimersHeap.v: every heapq operation (and the in-place sift-up of
    _moveCallLaterSooner) preserves the heap invariant and the multiset of elements; the root of a
    heap is a minimum. *)
From Coq Require Import List Arith ZArith Bool Lia ZifyBool ZifyNat Permutation.
From TwLib Require Import TimersHeap.
Import ListNotations.
Ltac Zify.zify_post_hook ::= Z.to_euclidean_division_equations.

Section Facts.
  Variable A : Type.
  Variable key : A -> Z.
  Variable d : A.

  Notation g h i := (nth i h d).
  Notation K x := (key x).
  Notation swap := (swap d).
  Notation bubble_up := (bubble_up key d).
  Notation sink := (sink key d).
  Notation siftup := (siftup key d).
  Notation heappush := (heappush key d).
  Notation heappop := (heappop key d).
  Notation heapify := (heapify key d).
  Notation heap_from := (heap_from key d).
  Notation heap := (heap key d).

  (** ---- upd / swap ---- *)
  Lemma upd_length : forall h i (x : A), length (upd h i x) = length h.
  Proof.
    induction h as [|y r IH]; intros i x; cbn; [reflexivity|].
    destruct i; cbn; [reflexivity|]. rewrite IH. reflexivity.
  Qed.

  Lemma nth_upd_eq : forall h i (x : A), (i < length h)%nat -> g (upd h i x) i = x.
  Proof.
    induction h as [|y r IH]; intros i x Hi; cbn in *; [lia|].
    destruct i; cbn; [reflexivity|]. apply IH. lia.
  Qed.

  Lemma nth_upd_neq : forall h i j (x : A), i <> j -> g (upd h i x) j = g h j.
  Proof.
    induction h as [|y r IH]; intros i j x Hij; cbn; [reflexivity|].
    destruct i; destruct j; cbn; try reflexivity; try lia. apply IH. lia.
  Qed.

  Lemma upd_perm : forall h i (x : A), (i < length h)%nat -> Permutation (g h i :: upd h i x) (x :: h).
  Proof.
    induction h as [|y r IH]; intros i x Hi; cbn in *; [lia|].
    destruct i; cbn.
    - apply perm_swap.
    - eapply perm_trans. { apply perm_swap. }
      eapply perm_trans. { apply perm_skip. apply IH. lia. }
      apply perm_swap.
  Qed.

  Lemma swap_length : forall h i j, length (swap h i j) = length h.
  Proof. intros. unfold TimersHeap.swap. rewrite !upd_length. reflexivity. Qed.

  Lemma nth_swap : forall h i j k, (i < length h)%nat -> (j < length h)%nat ->
    g (swap h i j) k = if Nat.eqb k j then g h i else if Nat.eqb k i then g h j else g h k.
  Proof.
    intros h i j k Hi Hj. unfold TimersHeap.swap.
    destruct (Nat.eqb k j) eqn:E1.
    - apply Nat.eqb_eq in E1. subst. apply nth_upd_eq. rewrite upd_length. exact Hj.
    - apply Nat.eqb_neq in E1. rewrite nth_upd_neq by lia.
      destruct (Nat.eqb k i) eqn:E2.
      + apply Nat.eqb_eq in E2. subst. apply nth_upd_eq. exact Hi.
      + apply Nat.eqb_neq in E2. apply nth_upd_neq. lia.
  Qed.

  Lemma swap_perm : forall h i j, (i < length h)%nat -> (j < length h)%nat -> Permutation (swap h i j) h.
  Proof.
    intros h i j Hi Hj. unfold TimersHeap.swap.
    set (h1 := upd h i (g h j)).
    assert (P1 : Permutation (g h1 j :: upd h1 j (g h i)) (g h i :: h1)).
    { apply upd_perm. unfold h1. rewrite upd_length. exact Hj. }
    assert (P2 : Permutation (g h i :: h1) (g h j :: h)).
    { unfold h1. apply upd_perm. exact Hi. }
    assert (E : g h1 j = g h j).
    { unfold h1. destruct (Nat.eq_dec i j) as [->|Hne]; [apply nth_upd_eq; exact Hj | apply nth_upd_neq; exact Hne]. }
    rewrite E in P1. eapply Permutation_cons_inv. eapply perm_trans; [exact P1 | exact P2].
  Qed.

  (** ---- descendants ---- *)
  Inductive desc (k : nat) : nat -> Prop :=
  | desc_refl : desc k k
  | desc_child : forall j, (0 < j)%nat -> desc k (parent j) -> desc k j.

  Lemma desc_le : forall k j, desc k j -> (k <= j)%nat.
  Proof. intros k j H. induction H; [lia|]. unfold parent in *. lia. Qed.

  Lemma desc_up : forall k j, desc k j -> j <> k -> (0 < j)%nat /\ desc k (parent j) /\ (k <= parent j)%nat.
  Proof.
    intros k j H Hne. inversion H; subst; [congruence|].
    split; [assumption|]. split; [assumption|]. apply desc_le. assumption.
  Qed.

  Lemma desc0 : forall n, desc 0 n.
  Proof.
    induction n as [n IH] using lt_wf_ind. destruct n; [constructor|].
    apply desc_child; [lia|]. apply IH. unfold parent. lia.
  Qed.

  (** ---- bubble_up (heapq._siftdown / _moveCallLaterSooner) ---- *)
  (** the heap invariant with [pos] possibly too small for its place *)
  Definition almost (k : nat) (h : list A) (pos : nat) : Prop :=
    (forall j, (0 < j < length h)%nat -> (k <= parent j)%nat -> j <> pos -> (K (g h (parent j)) <= K (g h j))%Z)
    /\ (forall c, (0 < c < length h)%nat -> parent c = pos -> (k < pos)%nat ->
                  (K (g h (parent pos)) <= K (g h c))%Z).

  Lemma bubble_up_length : forall fuel k pos h, (pos < length h)%nat -> length (bubble_up fuel k pos h) = length h.
  Proof.
    induction fuel as [|f IH]; intros k pos h Hp; cbn [TimersHeap.bubble_up]; [reflexivity|].
    destruct (k <? pos)%nat eqn:E; [|reflexivity].
    destruct (TimersHeap.lt A key (g h pos) (g h (parent pos))); [|reflexivity].
    rewrite IH; [apply swap_length|]. rewrite swap_length. unfold parent. lia.
  Qed.

  Lemma bubble_up_perm : forall fuel k pos h, (pos < length h)%nat -> Permutation (bubble_up fuel k pos h) h.
  Proof.
    induction fuel as [|f IH]; intros k pos h Hp; cbn [TimersHeap.bubble_up]; [apply Permutation_refl|].
    destruct (k <? pos)%nat eqn:E; [|apply Permutation_refl].
    destruct (TimersHeap.lt A key (g h pos) (g h (parent pos))); [|apply Permutation_refl].
    assert (Hpp : (parent pos < length h)%nat) by (unfold parent; lia).
    eapply perm_trans; [apply IH; rewrite swap_length; exact Hpp|]. apply swap_perm; assumption.
  Qed.

  Lemma bubble_up_heap : forall fuel k pos h,
    (pos <= fuel)%nat -> (pos < length h)%nat -> desc k pos -> almost k h pos ->
    heap_from k (bubble_up fuel k pos h).
  Proof.
    induction fuel as [|f IH]; intros k pos h Hf Hp Hd [A1 A2]; cbn [TimersHeap.bubble_up].
    - assert (pos = 0)%nat by lia. subst. apply desc_le in Hd.
      intros j Hj Hk. apply A1; auto. lia.
    - destruct (k <? pos)%nat eqn:E.
      + apply Nat.ltb_lt in E.
        destruct (desc_up k pos Hd ltac:(lia)) as [Hpos [Hdp Hkp]].
        set (pp := parent pos) in *.
        assert (Hpp : (pp < pos)%nat) by (unfold pp, parent; lia).
        unfold TimersHeap.lt. destruct (K (g h pos) <? K (g h pp))%Z eqn:Hlt.
        * apply Z.ltb_lt in Hlt. apply IH; try lia.
          { rewrite swap_length. lia. }
          { exact Hdp. }
          split.
          { intros j Hj Hkj Hne. rewrite swap_length in Hj.
            rewrite !nth_swap by lia.
            destruct (Nat.eqb (parent j) pp) eqn:E1.
            - apply Nat.eqb_eq in E1.
              destruct (Nat.eqb j pp) eqn:E2; [apply Nat.eqb_eq in E2; lia|].
              destruct (Nat.eqb j pos) eqn:E3; [lia|].
              apply Nat.eqb_neq in E3. specialize (A1 j Hj Hkj E3). rewrite E1 in A1. lia.
            - apply Nat.eqb_neq in E1.
              destruct (Nat.eqb j pp) eqn:E2; [apply Nat.eqb_eq in E2; lia|].
              destruct (Nat.eqb j pos) eqn:E3; [apply Nat.eqb_eq in E3; subst j; unfold pp in E1; lia|].
              apply Nat.eqb_neq in E3.
              destruct (Nat.eqb (parent j) pos) eqn:E4.
              + apply Nat.eqb_eq in E4. apply A2; auto.
              + apply A1; auto. }
          { intros c Hc Hpc Hk. rewrite swap_length in Hc.
            destruct (desc_up k pp Hdp ltac:(lia)) as [Hpp0 [_ Hkpp]].
            assert (Hppp : (parent pp < pp)%nat) by (unfold parent; lia).
            rewrite !nth_swap by lia.
            replace (Nat.eqb (parent pp) pp) with false by (symmetry; apply Nat.eqb_neq; lia).
            replace (Nat.eqb (parent pp) pos) with false by (symmetry; apply Nat.eqb_neq; lia).
            replace (Nat.eqb c pp) with false by (symmetry; apply Nat.eqb_neq; unfold parent in Hpc; lia).
            assert (Hg : (K (g h (parent pp)) <= K (g h pp))%Z) by (apply A1; lia).
            destruct (Nat.eqb c pos) eqn:E3; [exact Hg|].
            apply Nat.eqb_neq in E3.
            assert (Hs : (K (g h (parent c)) <= K (g h c))%Z) by (apply A1; lia).
            rewrite Hpc in Hs. lia. }
        * apply Z.ltb_ge in Hlt. intros j Hj Hkj.
          destruct (Nat.eq_dec j pos) as [->|Hne]; [exact Hlt | apply A1; auto].
      + apply Nat.ltb_ge in E. pose proof (desc_le _ _ Hd). assert (pos = k) by lia. subst pos.
        intros j Hj Hkj. apply A1; auto. unfold parent in Hkj. lia.
  Qed.

  (** ---- sink (first loop of heapq._siftup) ---- *)
  Definition sinkinv (k : nat) (h : list A) (pos : nat) : Prop :=
    (forall j, (0 < j < length h)%nat -> (k <= parent j)%nat -> j <> pos -> parent j <> pos ->
               (K (g h (parent j)) <= K (g h j))%Z)
    /\ (forall c, (0 < c < length h)%nat -> parent c = pos -> (k < pos)%nat ->
                  (K (g h (parent pos)) <= K (g h c))%Z).

  Lemma sink_spec : forall fuel k pos h,
    (length h - pos <= fuel)%nat -> (pos < length h)%nat -> desc k pos -> sinkinv k h pos ->
    let r := sink fuel pos h in
    length (snd r) = length h /\ Permutation (snd r) h /\ (fst r < length h)%nat /\ desc k (fst r)
    /\ almost k (snd r) (fst r).
  Proof.
    induction fuel as [|f IH]; intros k pos h Hf Hp Hd [S1 S2]; cbn [TimersHeap.sink].
    - lia.
    - destruct (2 * pos + 1 <? length h)%nat eqn:E.
      + apply Nat.ltb_lt in E.
        set (c := (2 * pos + 1)%nat) in *.
        set (c' := if ((c + 1 <? length h)%nat && negb (TimersHeap.lt A key (g h c) (g h (c + 1))))%bool then (c + 1)%nat else c).
        assert (Hc' : (c' = c \/ c' = c + 1)%nat /\ (c' < length h)%nat
                      /\ (forall o, (o = c \/ o = c + 1)%nat -> (o < length h)%nat -> (K (g h c') <= K (g h o))%Z)).
        { unfold c'. unfold TimersHeap.lt. destruct (c + 1 <? length h)%nat eqn:E1; cbn [andb negb].
          - apply Nat.ltb_lt in E1. destruct (K (g h c) <? K (g h (c + 1)))%Z eqn:E2; cbn [andb negb].
            + apply Z.ltb_lt in E2. split; [left; reflexivity|]. split; [lia|]. intros o [Ho|Ho] _; subst o; lia.
            + apply Z.ltb_ge in E2. split; [right; reflexivity|]. split; [lia|]. intros o [Ho|Ho] _; subst o; lia.
          - apply Nat.ltb_ge in E1. split; [left; reflexivity|]. split; [lia|]. intros o [Ho|Ho] Hlo; subst o; lia. }
        clearbody c'. destruct Hc' as [Hc'1 [Hc'2 Hmin]].
        assert (Hpar : parent c' = pos) by (unfold parent, c in *; lia).
        specialize (IH k c' (swap h pos c')).
        rewrite swap_length in IH.
        assert (Hd' : desc k c') by (apply desc_child; [lia | rewrite Hpar; exact Hd]).
        destruct IH as [L [P [F [D Al]]]]; try lia; try assumption.
        { split.
          - intros j Hj Hkj Hne Hnp. rewrite swap_length in Hj. rewrite !nth_swap by lia.
            replace (Nat.eqb j c') with false by (symmetry; apply Nat.eqb_neq; lia).
            replace (Nat.eqb (parent j) c') with false by (symmetry; apply Nat.eqb_neq; lia).
            destruct (Nat.eqb j pos) eqn:E1.
            + apply Nat.eqb_eq in E1. subst j.
              replace (Nat.eqb (parent pos) pos) with false by (symmetry; apply Nat.eqb_neq; unfold parent; lia).
              apply S2; try lia. unfold parent in Hkj. lia.
            + apply Nat.eqb_neq in E1. destruct (Nat.eqb (parent j) pos) eqn:E2.
              * apply Nat.eqb_eq in E2. apply Hmin; [|lia]. unfold parent, c in *. lia.
              * apply Nat.eqb_neq in E2. apply S1; auto.
          - intros cc Hcc Hpc Hk. rewrite swap_length in Hcc. rewrite !nth_swap by lia.
            rewrite Hpar. rewrite Nat.eqb_refl.
            replace (Nat.eqb pos c') with false by (symmetry; apply Nat.eqb_neq; lia).
            replace (Nat.eqb cc c') with false by (symmetry; apply Nat.eqb_neq; unfold parent in Hpc; lia).
            replace (Nat.eqb cc pos) with false by (symmetry; apply Nat.eqb_neq; unfold parent in Hpc; lia).
            assert (Hs : (K (g h (parent cc)) <= K (g h cc))%Z).
            { apply S1; [lia | rewrite Hpc; lia | unfold parent in Hpc; lia | rewrite Hpc; lia]. }
            rewrite Hpc in Hs. exact Hs. }
        cbn in *. split; [exact L|]. split; [|split; [exact F | split; [exact D | exact Al]]].
        eapply perm_trans; [exact P|]. apply swap_perm; lia.
      + apply Nat.ltb_ge in E. cbn. split; [reflexivity|]. split; [apply Permutation_refl|].
        split; [exact Hp|]. split; [exact Hd|]. split.
        * intros j Hj Hkj Hne. apply S1; auto. unfold parent. lia.
        * intros c Hc Hpc. unfold parent in Hpc. lia.
  Qed.

  (** ---- siftup ---- *)
  Lemma siftup_spec : forall h k, (k < length h)%nat -> heap_from (S k) h ->
    length (siftup h k) = length h /\ Permutation (siftup h k) h /\ heap_from k (siftup h k).
  Proof.
    intros h k Hk Hh. unfold TimersHeap.siftup.
    pose proof (sink_spec (length h) k k h ltac:(lia) Hk (desc_refl k)) as Hs.
    destruct (sink (length h) k h) as [p h1] eqn:E. cbn in Hs.
    destruct Hs as [L [P [F [D Al]]]].
    { split.
      - intros j Hj Hkj Hne Hnp. apply Hh; auto. lia.
      - intros c Hc Hpc Hlt. lia. }
    rewrite <- L in F. split; [|split].
    - rewrite bubble_up_length by exact F. exact L.
    - eapply perm_trans; [apply bubble_up_perm; exact F | exact P].
    - apply bubble_up_heap; auto.
  Qed.

  (** ---- heap facts ---- *)
  Lemma heap_from_vacuous : forall k h, (length h / 2 <= k)%nat -> heap_from k h.
  Proof. intros k h Hk j Hj Hkj. unfold parent in Hkj. lia. Qed.

  Lemma heap_from_mono : forall k k' h, (k <= k')%nat -> heap_from k h -> heap_from k' h.
  Proof. intros k k' h Hle Hh j Hj Hkj. apply Hh; auto. lia. Qed.

  Lemma heap_root_min : forall h, heap h -> forall j, (j < length h)%nat -> (K (g h 0) <= K (g h j))%Z.
  Proof.
    intros h Hh j. induction j as [j IH] using lt_wf_ind. intros Hj.
    destruct j; [lia|].
    assert (H1 : (K (g h (parent (S j))) <= K (g h (S j)))%Z) by (apply Hh; lia).
    assert (H2 : (K (g h 0) <= K (g h (parent (S j))))%Z) by (apply IH; unfold parent; lia).
    lia.
  Qed.

  Lemma heap_root_min_in : forall h, heap h -> forall x, In x h -> (K (g h 0) <= K x)%Z.
  Proof.
    intros h Hh x Hx. destruct (In_nth _ _ d Hx) as [j [Hj E]]. rewrite <- E. apply heap_root_min; auto.
  Qed.

  Lemma heap_nil : heap [].
  Proof. intros j Hj. cbn in Hj. lia. Qed.

  (** ---- heappush ---- *)
  Lemma heappush_spec : forall h x, heap h ->
    Permutation (heappush h x) (x :: h) /\ heap (heappush h x).
  Proof.
    intros h x Hh. unfold TimersHeap.heappush.
    assert (Hl : length (h ++ [x]) = S (length h)) by (rewrite app_length; cbn; lia).
    split.
    - eapply perm_trans; [apply bubble_up_perm; lia|].
      apply Permutation_sym. apply Permutation_cons_append.
    - apply bubble_up_heap; try lia.
      + apply desc0.
      + split.
        * intros j Hj Hk Hne. rewrite Hl in Hj.
          rewrite !app_nth1 by (unfold parent; lia). apply Hh; lia.
        * intros c Hc Hpc. rewrite Hl in Hc. unfold parent in Hpc. lia.
  Qed.

  (** ---- heappop ---- *)
  Lemma heappop_spec : forall h x h', heap h -> heappop h = Some (x, h') ->
    Permutation (x :: h') h /\ heap h' /\ (forall y, In y h' -> (K x <= K y)%Z).
  Proof.
    intros h x h' Hh E. unfold TimersHeap.heappop in E.
    destruct h as [|top t]; [discriminate|].
    assert (Hne : top :: t <> []) by discriminate.
    pose proof (app_removelast_last d Hne) as Hsplit.
    set (hl := last (top :: t) d) in *. set (hr := removelast (top :: t)) in *.
    assert (Hmin : forall y, In y (top :: t) -> (K top <= K y)%Z).
    { intros y Hy. apply (heap_root_min_in _ Hh y Hy). }
    destruct hr as [|a r] eqn:Er.
    - inversion E; subst x h'. cbn in Hsplit. inversion Hsplit; subst.
      split; [apply Permutation_refl|]. split; [apply heap_nil|]. intros y [].
    - inversion E; subst x h'. clear E.
      assert (Ha : a = top) by (cbn in Hsplit; inversion Hsplit; reflexivity). subst a.
      assert (Hlen : length (top :: t) = S (length (top :: r))).
      { rewrite Hsplit at 1. rewrite app_length. cbn. lia. }
      set (h2 := upd (top :: r) 0 hl).
      assert (Hh2 : heap_from 1 h2).
      { intros j Hj Hk. unfold h2 in *. rewrite upd_length in Hj.
        rewrite !nth_upd_neq by (unfold parent in *; lia).
        assert (E1 : forall i, (i < length (top :: r))%nat -> g (top :: r) i = g (top :: t) i).
        { intros i Hi. rewrite Hsplit. rewrite app_nth1 by exact Hi. reflexivity. }
        rewrite !E1 by (unfold parent; lia). apply Hh; lia. }
      destruct (siftup_spec h2 0) as [L [P H0]]; [unfold h2; cbn; lia | exact Hh2|].
      assert (Pall : Permutation (top :: siftup h2 0) (top :: t)).
      { rewrite Hsplit. cbn [app].
        apply perm_skip. eapply perm_trans; [exact P|]. unfold h2. cbn.
        apply Permutation_cons_append. }
      split; [exact Pall|]. split; [exact H0|].
      intros y Hy. apply Hmin. eapply Permutation_in; [exact Pall|]. right. exact Hy.
  Qed.

  Lemma heappop_none : forall h, heappop h = None -> h = [].
  Proof.
    intros h E. unfold TimersHeap.heappop in E. destruct h as [|top t]; [reflexivity|].
    destruct (removelast (top :: t)); discriminate.
  Qed.

  (** ---- heapify ---- *)
  Lemma heapify_aux : forall m h, (m <= length h / 2)%nat -> heap_from m h ->
    let r := fold_left siftup (rev (seq 0 m)) h in
    length r = length h /\ Permutation r h /\ heap r.
  Proof.
    induction m as [|m IH]; intros h Hm Hh r; subst r.
    - cbn. split; [reflexivity|]. split; [apply Permutation_refl | exact Hh].
    - rewrite seq_S, rev_app_distr. cbn [plus rev app fold_left].
      destruct (siftup_spec h m) as [L [P H0]]; [lia | exact Hh|].
      destruct (IH (siftup h m)) as [L2 [P2 H2]]; [rewrite L; lia | exact H0|].
      split; [lia|]. split; [eapply perm_trans; eassumption | exact H2].
  Qed.

  Lemma heapify_spec : forall h, Permutation (heapify h) h /\ heap (heapify h).
  Proof.
    intros h. unfold TimersHeap.heapify.
    destruct (heapify_aux (length h / 2) h) as [_ [P H0]]; [lia | apply heap_from_vacuous; lia|].
    split; assumption.
  Qed.

  (** ---- in-place modifications ---- *)
  (** replacing an element by one with the same key keeps the heap *)
  Lemma heap_upd_same_key : forall h p x, heap h -> (p < length h)%nat -> K x = K (g h p) -> heap (upd h p x).
  Proof.
    intros h p x Hh Hp Hk j Hj _. rewrite upd_length in Hj.
    assert (E : forall i, K (g (upd h p x) i) = K (g h i)).
    { intros i. destruct (Nat.eq_dec p i) as [<-|Hne]; [rewrite nth_upd_eq by exact Hp; exact Hk|].
      rewrite nth_upd_neq by exact Hne. reflexivity. }
    rewrite !E. apply Hh; lia.
  Qed.

  (** _moveCallLaterSooner: the key at [p] was lowered, then the element is sifted up *)
  Lemma move_sooner_spec : forall h p x, heap h -> (p < length h)%nat -> (K x <= K (g h p))%Z ->
    heap (bubble_up p 0 p (upd h p x)) /\ Permutation (bubble_up p 0 p (upd h p x)) (upd h p x).
  Proof.
    intros h p x Hh Hp Hk. split.
    - apply bubble_up_heap; try lia.
      + rewrite upd_length. exact Hp.
      + apply desc0.
      + split.
        * intros j Hj _ Hne. rewrite upd_length in Hj. rewrite (nth_upd_neq h p j) by lia.
          destruct (Nat.eq_dec (parent j) p) as [E|E].
          { rewrite E. rewrite nth_upd_eq by exact Hp.
            assert (Hs : (K (g h (parent j)) <= K (g h j))%Z) by (apply Hh; lia). rewrite E in Hs. lia. }
          { rewrite nth_upd_neq by lia. apply Hh; lia. }
        * intros c Hc Hpc Hlt. rewrite upd_length in Hc.
          rewrite !nth_upd_neq by (unfold parent in *; lia).
          assert (H1 : (K (g h (parent c)) <= K (g h c))%Z) by (apply Hh; lia).
          assert (H2 : (K (g h (parent p)) <= K (g h p))%Z) by (apply Hh; lia).
          rewrite Hpc in H1. lia.
    - apply bubble_up_perm. rewrite upd_length. exact Hp.
  Qed.
End Facts.
