(** http-client cluster: reference resolution as RedirectAgent performs it.

    twisted.web.client._urljoin is a composition of urllib.parse.urldefrag / urljoin (CPython
    3.12.1); urllib's urljoin implements RFC 3986 section 5.2 (merge, remove_dot_segments,
    recomposition) with two deliberate deviations that are reproduced here because the agent's
    observable behaviour depends on them: (a) a reference that carries its own scheme+authority is
    taken verbatim (no dot-segment removal), (b) an empty query/fragment is indistinguishable from
    an absent one.  This file is a TRUSTED transcription of those functions on the fragment
    "no white space or controls, no '[' ']' ';', ASCII only" (outside it urllib strips, validates
    IPv6 literals, splits params or raises); it is validated against urllib.parse on generated
    inputs by the C27 correspondence run (cases of kind "join").  No proofs here. *)
From Coq Require Import List NArith Bool.
From TwLib Require Import HttpClientBytes.
Import ListNotations.
Local Open Scope N_scope.

Definition u_is_alpha (c : N) : bool := ((65 <=? c) && (c <=? 90)) || ((97 <=? c) && (c <=? 122)).
Definition u_is_digit (c : N) : bool := (48 <=? c) && (c <=? 57).
(** urllib.parse.scheme_chars *)
Definition scheme_char (c : N) : bool :=
  u_is_alpha c || u_is_digit c || (c =? 43) || (c =? 45) || (c =? 46).

Definition memb_bytes (x : bytes) (l : list bytes) : bool := existsb (eqb_bytes x) l.

Definition uses_relative : list bytes :=
  [[]; [102; 116; 112]; [104; 116; 116; 112]; [103; 111; 112; 104; 101; 114]; [110; 110; 116; 112]; [105; 109; 97; 112]; [119; 97; 105; 115]; [102; 105; 108; 101]; [104; 116; 116; 112; 115]; [115; 104; 116; 116; 112]; [109; 109; 115]; [112; 114; 111; 115; 112; 101; 114; 111]; [114; 116; 115; 112]; [114; 116; 115; 112; 115]; [114; 116; 115; 112; 117]; [115; 102; 116; 112]; [115; 118; 110]; [115; 118; 110; 43; 115; 115; 104]; [119; 115]; [119; 115; 115]].
Definition uses_netloc : list bytes :=
  [[]; [102; 116; 112]; [104; 116; 116; 112]; [103; 111; 112; 104; 101; 114]; [110; 110; 116; 112]; [116; 101; 108; 110; 101; 116]; [105; 109; 97; 112]; [119; 97; 105; 115]; [102; 105; 108; 101]; [109; 109; 115]; [104; 116; 116; 112; 115]; [115; 104; 116; 116; 112]; [115; 110; 101; 119; 115]; [112; 114; 111; 115; 112; 101; 114; 111]; [114; 116; 115; 112]; [114; 116; 115; 112; 115]; [114; 116; 115; 112; 117]; [114; 115; 121; 110; 99]; [115; 118; 110]; [115; 118; 110; 43; 115; 115; 104]; [115; 102; 116; 112]; [110; 102; 115]; [103; 105; 116]; [103; 105; 116; 43; 115; 115; 104]; [119; 115]; [119; 115; 115]].

Record parts := mkParts {
  u_scheme : bytes; u_netloc : bytes; u_path : bytes; u_query : bytes; u_fragment : bytes }.

(** i = url.find(':') > 0, url[0] a letter, url[:i] all scheme_chars  ->  (lower scheme, rest) *)
Definition split_scheme (url : bytes) : option (bytes * bytes) :=
  match split_at 58 url with
  | Some (c :: s, rest) =>
      if u_is_alpha c && forallb scheme_char (c :: s) then Some (lower (c :: s), rest) else None
  | _ => None
  end.

(** _splitnetloc: up to the first of '/', '?', '#' *)
Fixpoint span_netloc (l : bytes) : bytes * bytes :=
  match l with
  | [] => ([], [])
  | c :: r => if (c =? 47) || (c =? 63) || (c =? 35) then ([], l)
              else let (a, b) := span_netloc r in (c :: a, b)
  end.

(** s.split(x, 1) when x occurs, (s, "") otherwise *)
Definition cut (x : N) (l : bytes) : bytes * bytes :=
  match split_at x l with Some p => p | None => (l, []) end.

Definition starts_slashslash (l : bytes) : option bytes :=
  match l with
  | c :: d :: r => if (c =? 47) && (d =? 47) then Some r else None
  | _ => None
  end.

Definition urlsplit (url default_scheme : bytes) : parts :=
  let (scheme, url1) := match split_scheme url with
                        | Some p => p
                        | None => (default_scheme, url)
                        end in
  let (netloc, url2) := match starts_slashslash url1 with
                        | Some r => span_netloc r
                        | None => ([], url1)
                        end in
  let (url3, frag) := cut 35 url2 in
  let (path, query) := cut 63 url3 in
  mkParts scheme netloc path query frag.

Definition nonnil (l : bytes) : bool := match l with [] => false | _ => true end.
Definition starts_with_slash (l : bytes) : bool := match l with c :: _ => c =? 47 | [] => false end.

Definition urlunsplit (p : parts) : bytes :=
  let url := u_path p in
  let url :=
    if nonnil (u_netloc p)
       || (nonnil (u_scheme p) && memb_bytes (u_scheme p) uses_netloc
           && negb (match starts_slashslash url with Some _ => true | None => false end))
    then [47; 47] ++ u_netloc p ++ (if nonnil url && negb (starts_with_slash url) then 47 :: url else url)
    else url in
  let url := if nonnil (u_scheme p) then u_scheme p ++ 58 :: url else url in
  let url := if nonnil (u_query p) then url ++ 63 :: u_query p else url in
  if nonnil (u_fragment p) then url ++ 35 :: u_fragment p else url.

(** s.split('/') and '/'.join *)
Fixpoint split_on (x : N) (l : bytes) : list bytes :=
  match l with
  | [] => [[]]
  | c :: r => if c =? x then [] :: split_on x r
              else match split_on x r with
                   | s :: ss => (c :: s) :: ss
                   | [] => [[c]]
                   end
  end.

Fixpoint join_with (x : N) (segs : list bytes) : bytes :=
  match segs with
  | [] => []
  | [s] => s
  | s :: r => s ++ x :: join_with x r
  end.

Definition DOT : bytes := [46].
Definition DOTDOT : bytes := [46; 46].

(** base_parts = bpath.split('/'); if base_parts[-1] != '': del base_parts[-1] *)
Definition base_parts (bpath : bytes) : list bytes :=
  let ps := split_on 47 bpath in
  match List.rev ps with
  | last :: r => if nonnil last then List.rev r else ps
  | [] => ps
  end.

(** segments[1:-1] = filter(None, segments[1:-1]) *)
Definition squeeze_middle (segs : list bytes) : list bytes :=
  match segs with
  | first :: rest =>
      match List.rev rest with
      | last :: mid_rev => first :: filter nonnil (List.rev mid_rev) ++ [last]
      | [] => segs
      end
  | [] => []
  end.

(** the dot-segment loop; [acc] is resolved_path reversed *)
Fixpoint resolve_dots (segs : list bytes) (acc : list bytes) : list bytes :=
  match segs with
  | [] => List.rev acc
  | s :: r =>
      if eqb_bytes s DOTDOT then resolve_dots r (match acc with _ :: a => a | [] => [] end)
      else if eqb_bytes s DOT then resolve_dots r acc
      else resolve_dots r (s :: acc)
  end.

Definition urljoin (base url : bytes) : bytes :=
  if negb (nonnil base) then url
  else if negb (nonnil url) then base
  else
    let b := urlsplit base [] in
    let r := urlsplit url (u_scheme b) in
    if negb (eqb_bytes (u_scheme r) (u_scheme b)) || negb (memb_bytes (u_scheme r) uses_relative)
    then url
    else if memb_bytes (u_scheme r) uses_netloc && nonnil (u_netloc r)
    then urlunsplit r
    else
      let netloc := if memb_bytes (u_scheme r) uses_netloc then u_netloc b else u_netloc r in
      if negb (nonnil (u_path r)) then
        urlunsplit (mkParts (u_scheme r) netloc (u_path b)
                            (if nonnil (u_query r) then u_query r else u_query b) (u_fragment r))
      else
        let segments :=
          if starts_with_slash (u_path r) then split_on 47 (u_path r)
          else squeeze_middle (base_parts (u_path b) ++ split_on 47 (u_path r)) in
        let resolved := resolve_dots segments [] in
        let resolved :=
          match List.rev segments with
          | last :: _ => if eqb_bytes last DOT || eqb_bytes last DOTDOT then resolved ++ [[]] else resolved
          | [] => resolved
          end in
        let path := join_with 47 resolved in
        urlunsplit (mkParts (u_scheme r) netloc (if nonnil path then path else [47])
                            (u_query r) (u_fragment r)).

(** urldefrag *)
Definition urldefrag (url : bytes) : bytes * bytes :=
  if memb 35 url then
    let p := urlsplit url [] in
    (urlunsplit (mkParts (u_scheme p) (u_netloc p) (u_path p) (u_query p) []), u_fragment p)
  else (url, []).

(** twisted.web.client._urljoin: the fragment of the base survives unless the reference has one *)
Definition tw_urljoin (base url : bytes) : bytes :=
  let (base', base_frag) := urldefrag base in
  let (url', url_frag) := urldefrag (urljoin base' url) in
  urljoin url' (35 :: (if nonnil url_frag then url_frag else base_frag)).

(** twisted.web.client.URI.fromBytes: (scheme, host, port) *)
Definition HTTPS : bytes := [104; 116; 116; 112; 115].

Definition rsplit_colon (l : bytes) : option (bytes * bytes) :=
  match split_at 58 (List.rev l) with
  | Some (port_rev, host_rev) => Some (List.rev host_rev, List.rev port_rev)
  | None => None
  end.

Definition origin (uri : bytes) : bytes * bytes * N :=
  let p := urlsplit uri [] in
  let default_port := if eqb_bytes (u_scheme p) HTTPS then 443 else 80 in
  match rsplit_colon (u_netloc p) with
  | Some (host, port) =>
      match read_dec port with
      | Some n => (u_scheme p, host, n)
      | None => (u_scheme p, u_netloc p, default_port)
      end
  | None => (u_scheme p, u_netloc p, default_port)
  end.

Definition same_origin (a b : bytes) : bool :=
  let '(s1, h1, p1) := origin a in
  let '(s2, h2, p2) := origin b in
  eqb_bytes s1 s2 && eqb_bytes h1 h2 && (p1 =? p2).
