(** Segmentation invariance for stream receivers (DESIGN.md section 2, "Seg.v").

    A byte stream [s] reaches a protocol cut into deliveries [cs] with [concat cs = s].  This file
    gives three layers, each usable on its own, all generic in the byte type [B], the event type [E]:

    1. [Machine]  — any [feed : S -> list B -> list E * S] that is compositional
                    ([feed s (a ++ b)] = feed a, then feed b) sees the same events and ends in the
                    same state for every chunking: [run_concat], [run_chunks].
    2. [Buffered] — a receiver of the form "append to the buffer, then drain it":
                    [bfeed (Some (x, buf)) c = drain x (buf ++ c)], [None] = closed (absorbing).
                    If [drain] is [prefix_stable] and [close_stable] then the receiver is
                    segmentation-invariant: [buffered_segmentation_invariant], [buffered_all_chunkings];
                    and a stream that is not rejected has no rejected prefix: [closed_monotone].
    3. [Framed]   — a drain that is the iteration of a one-frame [step] (emit a frame and continue
                    with the rest / wait for more bytes / fail and close).  Three local facts about
                    [step] (an emitted frame is unchanged by appending bytes, so is a failure, and
                    emitting consumes at least one byte) give prefix- and close-stability:
                    [framed_prefix_stable], [framed_close_stable], [framed_all_chunkings].

    Nothing here is specific to a protocol; instances live in the property directories. *)
From Coq Require Import List Arith Lia.
Import ListNotations.
Set Implicit Arguments.

(** [cs] is a chunking (segmentation into deliveries) of [s]. *)
Definition chunks {B} (cs : list (list B)) (s : list B) : Prop := concat cs = s.

Lemma chunks_whole {B} (s : list B) : chunks [s] s.
Proof. unfold chunks; simpl; apply app_nil_r. Qed.

Lemma chunks_bytes {B} (s : list B) : chunks (map (fun x => [x]) s) s.
Proof. unfold chunks; induction s as [|x s IH]; simpl; [reflexivity | now rewrite IH]. Qed.

Lemma chunks_cons {B} (c : list B) cs s : chunks cs s -> chunks (c :: cs) (c ++ s).
Proof. unfold chunks; simpl; intros ->; reflexivity. Qed.

(* ------------------------------------------------------------------------------------------ *)
Section Machine.
  Variables B E S : Type.
  Variable feed : S -> list B -> list E * S.

  (** deliver the chunks one after the other, collecting the events *)
  Fixpoint run (s : S) (cs : list (list B)) : list E * S :=
    match cs with
    | [] => ([], s)
    | c :: cs' => let (e, s1) := feed s c in let (e', s2) := run s1 cs' in (e ++ e', s2)
    end.

  Variable Inv : S -> Prop.
  Hypothesis feed_inv : forall s c, Inv s -> Inv (snd (feed s c)).
  Hypothesis feed_nil : forall s, Inv s -> feed s [] = ([], s).
  Hypothesis feed_app : forall s a b, Inv s ->
    feed s (a ++ b) = let (e1, s1) := feed s a in let (e2, s2) := feed s1 b in (e1 ++ e2, s2).

  Theorem run_concat : forall cs s, Inv s -> run s cs = feed s (concat cs).
  Proof.
    induction cs as [|c cs IH]; intros s Hs; simpl.
    - now rewrite feed_nil.
    - rewrite feed_app by assumption.
      pose proof (feed_inv c Hs) as Hi. destruct (feed s c) as [e s1]; simpl in Hi.
      now rewrite IH.
  Qed.

  Corollary run_chunks : forall cs1 cs2 s, Inv s -> concat cs1 = concat cs2 -> run s cs1 = run s cs2.
  Proof. intros cs1 cs2 s Hs Hc. now rewrite !run_concat, Hc. Qed.

  Corollary run_whole : forall cs s0 s, Inv s0 -> chunks cs s -> run s0 cs = run s0 [s].
  Proof. intros cs s0 s Hs Hc. apply run_chunks; [assumption|]. rewrite Hc; simpl; now rewrite app_nil_r. Qed.

  Lemma run_inv : forall cs s, Inv s -> Inv (snd (run s cs)).
  Proof.
    induction cs as [|c cs IH]; intros s Hs; simpl; [assumption|].
    pose proof (feed_inv c Hs) as Hi. destruct (feed s c) as [e s1]; simpl in Hi.
    specialize (IH s1 Hi). destruct (run s1 cs); assumption.
  Qed.
End Machine.

(* ------------------------------------------------------------------------------------------ *)
Section Buffered.
  Variables B E X : Type.
  (** [drain x buf] = (events, [Some (x', unconsumed)]) or (events, [None]) when the receiver asked
      for the connection to be closed; [x] is whatever parser mode the receiver keeps besides the
      buffer ([unit] for most). *)
  Variable drain : X -> list B -> list E * option (X * list B).

  Definition bstate : Type := option (X * list B).

  Definition bfeed (s : bstate) (c : list B) : list E * bstate :=
    match s with
    | None => ([], None)
    | Some (x, b) => drain x (b ++ c)
    end.

  (** bytes that were not needed to emit [ev] may as well arrive later *)
  Definition prefix_stable : Prop := forall x b c ev x' r,
    drain x b = (ev, Some (x', r)) ->
    drain x (b ++ c) = let (ev', s') := drain x' (r ++ c) in (ev ++ ev', s').

  (** a close request is final: what follows the offending bytes does not matter *)
  Definition close_stable : Prop := forall x b c ev,
    drain x b = (ev, None) -> drain x (b ++ c) = (ev, None).

  (** a state in which nothing is left to do until more bytes arrive *)
  Definition settled (s : bstate) : Prop :=
    match s with None => True | Some (x, b) => drain x b = ([], Some (x, b)) end.

  Hypothesis PS : prefix_stable.
  Hypothesis CS : close_stable.

  Lemma drain_settled : forall x b, settled (snd (drain x b)).
  Proof.
    intros x b. destruct (drain x b) as [ev [[x' r]|]] eqn:Hd; simpl; [|exact I].
    pose proof (PS [] Hd) as H. rewrite !app_nil_r, Hd in H.
    destruct (drain x' r) as [ev' s']. inversion H as [[H1 H2]].
    assert (ev' = []) as ->.
    { apply (app_inv_head ev). now rewrite app_nil_r. }
    reflexivity.
  Qed.

  Lemma bfeed_settled : forall s c, settled s -> settled (snd (bfeed s c)).
  Proof. intros [[x b]|] c _; simpl; [apply drain_settled | exact I]. Qed.

  Lemma bfeed_nil : forall s, settled s -> bfeed s [] = ([], s).
  Proof. intros [[x b]|] Hs; simpl in *; [now rewrite app_nil_r | reflexivity]. Qed.

  Lemma bfeed_app : forall s a b, settled s ->
    bfeed s (a ++ b) = let (e1, s1) := bfeed s a in let (e2, s2) := bfeed s1 b in (e1 ++ e2, s2).
  Proof.
    intros [[x buf]|] a b _; simpl; [|reflexivity].
    rewrite app_assoc.
    destruct (drain x (buf ++ a)) as [ev [[x' r]|]] eqn:Hd.
    - rewrite (PS b Hd). simpl. reflexivity.
    - rewrite (CS b Hd). simpl. now rewrite app_nil_r.
  Qed.

  (** THE generic lemma: a buffered parser whose drain function is prefix-stable (and whose close is
      final) delivers, for every chunking, exactly what it delivers for the whole stream at once. *)
  Theorem buffered_segmentation_invariant : forall cs s, settled s ->
    run bfeed s cs = bfeed s (concat cs).
  Proof. intros cs s Hs. apply run_concat with (Inv := settled); auto using bfeed_settled, bfeed_nil, bfeed_app. Qed.

  Corollary buffered_all_chunkings : forall cs1 cs2 s, settled s -> concat cs1 = concat cs2 ->
    run bfeed s cs1 = run bfeed s cs2.
  Proof. intros cs1 cs2 s Hs Hc. now rewrite !buffered_segmentation_invariant, Hc. Qed.

  (** starting with an empty buffer *)
  Corollary buffered_from_empty : forall x cs s, drain x [] = ([], Some (x, [])) -> chunks cs s ->
    run bfeed (Some (x, [])) cs = drain x s.
  Proof. intros x cs s H0 Hc. rewrite buffered_segmentation_invariant by exact H0. simpl. now rewrite Hc. Qed.

  (** no prefix of an accepted stream is rejected *)
  Lemma closed_monotone : forall x b c, snd (drain x (b ++ c)) <> None -> snd (drain x b) <> None.
  Proof.
    intros x b c H Hn. destruct (drain x b) as [ev s] eqn:Hd; simpl in Hn; subst s.
    rewrite (CS c Hd) in H. now apply H.
  Qed.

  (** the events for a prefix of the stream are a prefix of the events for the stream *)
  Lemma events_monotone : forall x b c, exists ev', fst (drain x (b ++ c)) = fst (drain x b) ++ ev'.
  Proof.
    intros x b c. destruct (drain x b) as [ev [[x' r]|]] eqn:Hd; simpl.
    - rewrite (PS c Hd). destruct (drain x' (r ++ c)) as [ev' s']. now exists ev'.
    - rewrite (CS c Hd). exists []. simpl. now rewrite app_nil_r.
  Qed.
End Buffered.

(* ------------------------------------------------------------------------------------------ *)
(** one-frame step result *)
Inductive step_result (B E X : Type) : Type :=
| Emit (ev : list E) (x' : X) (rest : list B)   (* consumed a frame (or skipped bytes); go on with [rest] *)
| Wait                                          (* need more bytes; buffer kept as it is *)
| Fail (ev : list E).                           (* protocol violation / limit: events, then closed *)
Arguments Emit {B E X}.
Arguments Wait {B E X}.
Arguments Fail {B E X}.

Section Framed.
  Variables B E X : Type.
  Variable step : X -> list B -> step_result B E X.

  (** iterate [step]; the fuel is only there to make the recursion structural and is always
      sufficient in [fdrain] (see [fdrain_unfold], which does not mention it) *)
  Fixpoint drain_fuel (n : nat) (x : X) (b : list B) : list E * option (X * list B) :=
    match n with
    | 0 => ([], Some (x, b))
    | S n' =>
        match step x b with
        | Emit ev x' rest => let (ev', s) := drain_fuel n' x' rest in (ev ++ ev', s)
        | Wait => ([], Some (x, b))
        | Fail ev => (ev, None)
        end
    end.

  Definition fdrain (x : X) (b : list B) := drain_fuel (S (length b)) x b.

  (** the three local facts *)
  Hypothesis emit_shrinks : forall x b ev x' r, step x b = Emit ev x' r -> length r < length b.
  Hypothesis emit_stable : forall x b c ev x' r, step x b = Emit ev x' r -> step x (b ++ c) = Emit ev x' (r ++ c).
  Hypothesis fail_stable : forall x b c ev, step x b = Fail ev -> step x (b ++ c) = Fail ev.

  Lemma drain_fuel_enough : forall n m x b, length b < n -> length b < m -> drain_fuel n x b = drain_fuel m x b.
  Proof.
    induction n as [|n IH]; intros m x b Hn Hm; [lia|].
    destruct m as [|m]; [lia|]. simpl.
    destruct (step x b) as [ev x' r| |ev] eqn:Hs; try reflexivity.
    apply emit_shrinks in Hs. rewrite (IH m x' r) by lia. reflexivity.
  Qed.

  Lemma fdrain_unfold : forall x b,
    fdrain x b = match step x b with
                 | Emit ev x' rest => let (ev', s) := fdrain x' rest in (ev ++ ev', s)
                 | Wait => ([], Some (x, b))
                 | Fail ev => (ev, None)
                 end.
  Proof.
    intros x b. unfold fdrain at 1. simpl.
    destruct (step x b) as [ev x' r| |ev] eqn:Hs; try reflexivity.
    pose proof (emit_shrinks Hs). unfold fdrain. rewrite drain_fuel_enough with (m := S (length r)) by lia.
    reflexivity.
  Qed.

  Lemma framed_prefix_stable : prefix_stable fdrain.
  Proof.
    unfold prefix_stable. intros x b. remember (length b) as n eqn:Hn. revert x b Hn.
    induction n as [n IH] using lt_wf_ind. intros x b Hn c ev x' r Hd.
    rewrite fdrain_unfold in Hd. rewrite (fdrain_unfold x (b ++ c)).
    destruct (step x b) as [ev1 x1 r1| |ev1] eqn:Hs.
    - rewrite (emit_stable c Hs).
      destruct (fdrain x1 r1) as [ev2 s2] eqn:Hd2. inversion Hd; subst ev s2; clear Hd.
      pose proof (emit_shrinks Hs) as Hlt.
      rewrite (IH (length r1) ltac:(lia) x1 r1 eq_refl c _ _ _ Hd2).
      destruct (fdrain x' (r ++ c)) as [ev3 s3]. now rewrite app_assoc.
    - inversion Hd; subst. simpl. rewrite <- fdrain_unfold. destruct (fdrain x' (r ++ c)); reflexivity.
    - discriminate.
  Qed.

  Lemma framed_close_stable : close_stable fdrain.
  Proof.
    unfold close_stable. intros x b. remember (length b) as n eqn:Hn. revert x b Hn.
    induction n as [n IH] using lt_wf_ind. intros x b Hn c ev Hd.
    rewrite fdrain_unfold in Hd. rewrite (fdrain_unfold x (b ++ c)).
    destruct (step x b) as [ev1 x1 r1| |ev1] eqn:Hs.
    - rewrite (emit_stable c Hs).
      destruct (fdrain x1 r1) as [ev2 s2] eqn:Hd2. inversion Hd; subst ev s2; clear Hd.
      pose proof (emit_shrinks Hs) as Hlt.
      now rewrite (IH (length r1) ltac:(lia) x1 r1 eq_refl c _ Hd2).
    - discriminate.
    - rewrite (fail_stable c Hs). assumption.
  Qed.

  (** a framed receiver is segmentation-invariant *)
  Theorem framed_segmentation_invariant : forall cs s, settled fdrain s ->
    run (bfeed fdrain) s cs = bfeed fdrain s (concat cs).
  Proof. apply buffered_segmentation_invariant; [apply framed_prefix_stable | apply framed_close_stable]. Qed.

  Corollary framed_all_chunkings : forall x cs s, step x [] = Wait -> chunks cs s ->
    run (bfeed fdrain) (Some (x, [])) cs = fdrain x s.
  Proof.
    intros x cs s H0 Hc. apply buffered_from_empty;
      [apply framed_prefix_stable | apply framed_close_stable | | exact Hc].
    rewrite fdrain_unfold, H0. reflexivity.
  Qed.
End Framed.

(* ------------------------------------------------------------------------------------------ *)
(** [Buffered] again, for receivers whose drain function is only well-behaved on the (mode, buffer)
    pairs that can actually occur: [Good] is an invariant of those pairs (kept by appending bytes
    and by draining); stability is required for good pairs only. *)
Section BufferedInv.
  Variables B E X : Type.
  Variable drain : X -> list B -> list E * option (X * list B).
  Variable Good : X -> list B -> Prop.

  Definition prefix_stable_on : Prop := forall x b c ev x' r, Good x b ->
    drain x b = (ev, Some (x', r)) ->
    drain x (b ++ c) = let (ev', s') := drain x' (r ++ c) in (ev ++ ev', s').
  Definition close_stable_on : Prop := forall x b c ev, Good x b ->
    drain x b = (ev, None) -> drain x (b ++ c) = (ev, None).
  Definition good_extends : Prop := forall x b c, Good x b -> Good x (b ++ c).
  Definition good_drains : Prop := forall x b ev x' r, Good x b -> drain x b = (ev, Some (x', r)) -> Good x' r.

  Hypothesis PS : prefix_stable_on.
  Hypothesis CS : close_stable_on.
  Hypothesis GE : good_extends.
  Hypothesis GD : good_drains.

  Definition good_settled (s : bstate B X) : Prop :=
    match s with None => True | Some (x, b) => Good x b /\ drain x b = ([], Some (x, b)) end.

  Lemma drain_good_settled : forall x b, Good x b -> good_settled (snd (drain x b)).
  Proof.
    intros x b Hg. destruct (drain x b) as [ev [[x' r]|]] eqn:Hd; simpl; [|exact I].
    split; [eapply GD; eauto|].
    pose proof (PS [] Hg Hd) as H. rewrite !app_nil_r, Hd in H.
    destruct (drain x' r) as [ev' s']. inversion H as [[H1 H2]].
    assert (ev' = []) as ->.
    { apply (app_inv_head ev). now rewrite app_nil_r. }
    reflexivity.
  Qed.

  Theorem buffered_inv_segmentation_invariant : forall cs s, good_settled s ->
    run (bfeed drain) s cs = bfeed drain s (concat cs).
  Proof.
    intros cs s Hs. apply run_concat with (Inv := good_settled); auto.
    - intros [[x b]|] c H; simpl; [|exact I]. destruct H as [Hg _]. apply drain_good_settled. now apply GE.
    - intros [[x b]|] H; simpl in *; [|reflexivity]. destruct H as [_ H]. now rewrite app_nil_r.
    - intros [[x buf]|] a b H; simpl; [|reflexivity]. destruct H as [Hg _].
      rewrite app_assoc. pose proof (GE a Hg) as Hg'.
      destruct (drain x (buf ++ a)) as [ev [[x' r]|]] eqn:Hd.
      + rewrite (PS b Hg' Hd). simpl. reflexivity.
      + rewrite (CS b Hg' Hd). simpl. now rewrite app_nil_r.
  Qed.

  Corollary buffered_inv_from_empty : forall x cs s, Good x [] -> drain x [] = ([], Some (x, [])) -> chunks cs s ->
    run (bfeed drain) (Some (x, [])) cs = drain x s.
  Proof.
    intros x cs s Hg H0 Hc. rewrite buffered_inv_segmentation_invariant by (split; assumption).
    simpl. now rewrite Hc.
  Qed.
End BufferedInv.
