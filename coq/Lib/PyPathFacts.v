(** PyPathFacts: further lemmas on the path algebra of TwLib.PyPath (shared by C26 and C54):
    what normpath(join(p, name)) is for a normal absolute p and a single name. *)
From Coq Require Import List NArith Bool Arith Lia.
From TwLib Require Import PyPath.
Import ListNotations.

Lemma normpath_nonnil : forall s, normpath s <> [].
Proof.
  intro s. unfold normpath. destruct (is_nil s); [discriminate|].
  match goal with |- (if is_nil ?p then _ else _) <> _ => destruct p eqn:E end; cbn; discriminate.
Qed.

Lemma nosl_not_abs : forall n, has_sl n = false -> isabs n = false.
Proof. intros [|c n] H; [reflexivity|]. cbn in *. now apply orb_false_iff in H as [H _]. Qed.

Lemma abspath_abs : forall cwd x, isabs x = true -> abspath cwd x = normpath x.
Proof. intros cwd x H. unfold abspath. now rewrite H. Qed.

Lemma prefix_of_refl : forall l, prefix_of l l = true.
Proof. intro l. rewrite <- (app_nil_r l) at 2. apply prefix_of_app. Qed.

Lemma prefix_of_trans : forall a b c, prefix_of a b = true -> prefix_of b c = true -> prefix_of a c = true.
Proof.
  intros a b c H1 H2. apply prefix_of_spec in H1 as [t1 ->]. apply prefix_of_spec in H2 as [t2 ->].
  rewrite <- app_assoc. apply prefix_of_app.
Qed.

(** ---- joining ONE slash-free, non-empty name onto a normal absolute path and normalising ---- *)
Lemma normpath_pjoin_name : forall k cs n,
  (k = 1 \/ k = 2) -> forallb okc cs = true -> has_sl n = false -> n <> [] ->
  normpath (pjoin (render k cs) n) = render k (rev (norm_step true (rev cs) n)).
Proof.
  intros k cs n Hk Hcs Hn Hne.
  assert (Hrel : isabs n = false) by now apply nosl_not_abs.
  rewrite normpath_abs by (apply pjoin_isabs; now apply render_isabs).
  rewrite init_slashes_pjoin by assumption. f_equal.
  unfold abs_comps. rewrite segments_pjoin by assumption.
  rewrite segments_render by assumption. rewrite (segments_nosl n Hn Hne).
  rewrite fold_left_app. rewrite (norm_fold_ok true cs [] Hcs). rewrite app_nil_r. reflexivity.
Qed.

Lemma okc_of_step : forall n, has_sl n = false -> n <> [] -> beq n dot = false -> beq n dotdot = false -> okc n = true.
Proof.
  intros n H1 H2 H3 H4. unfold okc. rewrite H1, H3, H4. destruct n; [contradiction | reflexivity].
Qed.

(** the three things one name can do *)
Lemma step_name_cases : forall cs n,
  forallb okc cs = true -> has_sl n = false -> n <> [] ->
  (n = dot /\ rev (norm_step true (rev cs) n) = cs)
  \/ (okc n = true /\ rev (norm_step true (rev cs) n) = cs ++ [n])
  \/ (n = dotdot /\ rev (norm_step true (rev cs) n) = removelast cs).
Proof.
  intros cs n Hcs Hn Hne. unfold norm_step.
  destruct n as [|x n']; [contradiction|]. cbn [is_nil orb].
  destruct (beq (x :: n') dot) eqn:Ed.
  - left. apply beq_eq in Ed. split; [assumption | apply rev_involutive].
  - destruct (beq (x :: n') dotdot) eqn:Edd; cbn [negb].
    + right. right. apply beq_eq in Edd. split; [assumption|].
      destruct (rev cs) as [|top rest] eqn:Er.
      * assert (cs = []) as -> by (rewrite <- (rev_involutive cs), Er; reflexivity). reflexivity.
      * assert (Ecs : cs = rev rest ++ [top]) by (rewrite <- (rev_involutive cs), Er; reflexivity).
        assert (Ht : okc top = true).
        { rewrite Ecs, forallb_app in Hcs. apply andb_true_iff in Hcs as [_ Hcs]. cbn in Hcs.
          now rewrite andb_true_r in Hcs. }
        apply okc_spec in Ht as (_ & _ & _ & Ht). apply beq_neq in Ht. rewrite Ht.
        rewrite Ecs. now rewrite removelast_last.
    + right. left. split; [now apply okc_of_step|]. cbn [rev]. now rewrite rev_involutive.
Qed.

Lemma absnormal_render : forall k cs, (k = 1 \/ k = 2) -> forallb okc cs = true -> absnormal (render k cs).
Proof. intros k cs Hk H. now exists k, cs. Qed.

Lemma render_not_prefix_of_shorter : forall k cs top,
  okc top = true -> startswith (render k cs) (render k (cs ++ [top])) = false.
Proof.
  intros k cs top Ht. destruct (startswith _ _) eqn:E; [|reflexivity].
  apply startswith_app in E as [t E]. apply (f_equal (@length N)) in E.
  unfold render in E. rewrite !app_length in E.
  apply okc_spec in Ht as (Ht & _). pose proof (length_join_sl_snoc cs top Ht). exfalso. unfold bytes in *. lia.
Qed.
