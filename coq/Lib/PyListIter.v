(** CPython list-iterator semantics for "iterate a list while it is being mutated"
    (cluster coop-triggers: C11 Cooperator._metarator / Cooperator.stop, C12, C57 LogPublisher).

    A CPython [list_iterator] is a pair (reference to the list object, index).  [next] reads the
    CURRENT contents of the list: if [index < len(list)] it returns [list[index]] and increments
    the index, otherwise it raises StopIteration (and detaches).  Removing an element in front
    of the index therefore shifts the remaining elements under the iterator, which skips one. *)
From Coq Require Import List Arith Bool Lia.
Import ListNotations.

Section Iter.
  Context {A : Type}.

  (** [next(it)] on the live list [l] with iterator index [i] *)
  Definition it_next (l : list A) (i : nat) : option (A * nat) :=
    match nth_error l i with
    | Some x => Some (x, S i)
    | None => None
    end.

  Lemma it_next_In l i x j : it_next l i = Some (x, j) -> In x l /\ j = S i /\ i < length l.
  Proof.
    unfold it_next. destruct (nth_error l i) eqn:E; [|discriminate].
    intros H. inversion H; subst. split; [eapply nth_error_In; eauto|].
    split; [reflexivity|]. apply nth_error_Some. congruence.
  Qed.

  Lemma it_next_None l i : it_next l i = None <-> length l <= i.
  Proof.
    unfold it_next. destruct (nth_error l i) eqn:E.
    - split; [discriminate|]. intros H. apply nth_error_None in H. congruence.
    - split; [|reflexivity]. intros _. apply nth_error_None. exact E.
  Qed.
End Iter.

(** [list.remove(x)]: removes the first occurrence (elements are ids: nat) *)
Fixpoint remove_first (x : nat) (l : list nat) : list nat :=
  match l with
  | [] => []
  | y :: r => if Nat.eqb x y then r else y :: remove_first x r
  end.

Lemma remove_first_In x y l : In y (remove_first x l) -> In y l.
Proof.
  induction l as [|z r IH]; cbn; [auto|].
  destruct (Nat.eqb_spec x z); cbn; intuition.
Qed.

Lemma remove_first_In_neq x y l : y <> x -> In y l -> In y (remove_first x l).
Proof.
  intros Hn. induction l as [|z r IH]; cbn; [auto|].
  destruct (Nat.eqb_spec x z); cbn; intros [E | H]; subst; auto; congruence.
Qed.

Lemma remove_first_NoDup x l : NoDup l -> NoDup (remove_first x l).
Proof.
  induction 1 as [|z r Hz Hr IH]; cbn; [constructor|].
  destruct (Nat.eqb_spec x z); [assumption|].
  constructor; [|assumption]. intros H. apply Hz. eapply remove_first_In; eauto.
Qed.

Lemma remove_first_not_In x l : NoDup l -> ~ In x (remove_first x l).
Proof.
  induction 1 as [|z r Hz Hr IH]; cbn; [auto|].
  destruct (Nat.eqb_spec x z); [subst; assumption|].
  cbn. intros [E | H]; [congruence | auto].
Qed.

Lemma remove_first_notin x l : ~ In x l -> remove_first x l = l.
Proof.
  induction l as [|z r IH]; cbn; [reflexivity|].
  intros H. destruct (Nat.eqb_spec x z); [subst; tauto|]. f_equal. apply IH. tauto.
Qed.

Lemma remove_first_length x l : In x l -> S (length (remove_first x l)) = length l.
Proof.
  induction l as [|z r IH]; cbn; [tauto|].
  destruct (Nat.eqb_spec x z); [reflexivity|].
  intros [E | H]; [congruence|]. cbn. f_equal. auto.
Qed.

(** ---- the loop  [for x in l: l.remove(x)]  (what Cooperator.stop() does through
    _completeWith -> _removeTask on the unpatched code).  [fuel] bounds the number of
    iterations; [length l] always suffices. *)
Fixpoint for_removing (fuel : nat) (l : list nat) (i : nat) : list nat * list nat :=
  match fuel with
  | 0 => ([], l)
  | S f =>
      match it_next l i with
      | None => ([], l)
      | Some (x, j) =>
          let '(vis, rest) := for_removing f (remove_first x l) j in (x :: vis, rest)
      end
  end.

(** elements at even positions / odd positions *)
Fixpoint evens (l : list nat) : list nat :=
  match l with
  | [] => []
  | [x] => [x]
  | x :: _ :: r => x :: evens r
  end.
Fixpoint odds (l : list nat) : list nat :=
  match l with
  | [] => []
  | [_] => []
  | _ :: y :: r => y :: odds r
  end.

Lemma remove_first_app_notin p x r : ~ In x p -> remove_first x (p ++ x :: r) = p ++ r.
Proof.
  induction p as [|z p IH]; cbn.
  - rewrite Nat.eqb_refl. reflexivity.
  - intros H. destruct (Nat.eqb_spec x z); [subst; tauto|]. f_equal. apply IH. tauto.
Qed.

(** The body visits exactly the elements at even positions and leaves the odd ones in the
    list: every second element is skipped.  (Generalised over the already-skipped prefix [p].) *)
Lemma for_removing_spec : forall r p fuel,
  NoDup (p ++ r) -> length r <= fuel ->
  for_removing fuel (p ++ r) (length p) = (evens r, p ++ odds r).
Proof.
  intros r. remember (length r) as n eqn:Hn. revert r Hn.
  induction n as [n IH] using lt_wf_ind. intros r Hn p fuel Hnd Hf.
  destruct r as [|x r].
  - destruct fuel; cbn; [reflexivity|]. unfold it_next.
    replace (nth_error (p ++ []) (length p)) with (@None nat); [reflexivity|].
    symmetry. apply nth_error_None. rewrite app_nil_r. lia.
  - destruct fuel as [|fuel]; [cbn in Hn; lia|]. cbn [for_removing]. unfold it_next.
    rewrite nth_error_app2 by lia. rewrite Nat.sub_diag. cbn [nth_error].
    assert (Hx : ~ In x p).
    { intros Hin. apply NoDup_remove_2 in Hnd. apply Hnd. apply in_or_app. left. exact Hin. }
    rewrite remove_first_app_notin by exact Hx.
    destruct r as [|y r].
    + destruct fuel; cbn.
      * rewrite app_nil_r. reflexivity.
      * unfold it_next. replace (nth_error (p ++ []) (S (length p))) with (@None nat).
        { rewrite app_nil_r. reflexivity. }
        symmetry. apply nth_error_None. rewrite app_nil_r. lia.
    + replace (p ++ y :: r) with ((p ++ [y]) ++ r) by (rewrite <- app_assoc; reflexivity).
      replace (S (length p)) with (length (p ++ [y])) by (rewrite app_length; cbn; lia).
      cbn in Hn, Hf. rewrite (IH (length r)) with (r := r); try lia; try reflexivity.
      * cbn [evens odds]. rewrite <- app_assoc. reflexivity.
      * rewrite <- app_assoc. cbn. apply NoDup_remove_1 in Hnd. exact Hnd.
Qed.

Corollary for_removing_all l :
  NoDup l -> for_removing (length l) l 0 = (evens l, odds l).
Proof. intros H. apply (for_removing_spec l [] (length l)); [exact H | lia]. Qed.

Lemma odds_nonempty x y l : odds (x :: y :: l) <> [].
Proof. cbn. discriminate. Qed.

(** ---- the repaired loop  [for x in list(l): l.remove(x)]  empties the list *)
Fixpoint remove_each (xs : list nat) (l : list nat) : list nat :=
  match xs with
  | [] => l
  | x :: r => remove_each r (remove_first x l)
  end.

Lemma remove_each_self l : remove_each l l = [].
Proof.
  induction l as [|x r IH]; cbn; [reflexivity|]. rewrite Nat.eqb_refl. exact IH.
Qed.

(** position of an element (first occurrence) *)
Fixpoint index_of (x : nat) (l : list nat) : nat :=
  match l with
  | [] => 0
  | y :: r => if Nat.eqb x y then 0 else S (index_of x r)
  end.

Lemma index_of_lt x l : In x l -> index_of x l < length l.
Proof.
  induction l as [|y r IH]; cbn; [tauto|].
  destruct (Nat.eqb_spec x y); [lia|]. intros [E | H]; [congruence|]. apply IH in H. lia.
Qed.

Lemma nth_error_index_of x l : In x l -> nth_error l (index_of x l) = Some x.
Proof.
  induction l as [|y r IH]; cbn; [tauto|].
  destruct (Nat.eqb_spec x y); [subst; reflexivity|]. intros [E | H]; [congruence|]. cbn. auto.
Qed.
