(** Segmentation invariance for framed receivers whose application reacts (extension of Seg.v).

    [FramedWeak]  the iteration [fdrain] of a one-frame [step] is prefix- and close-stable as soon as every
                  emitting step is stable *as seen through the drain*
                    step x b = Emit ev x' r  ->  fdrain x (b ++ c) = ev ++ fdrain x' (r ++ c)
                  which is weaker than Seg.Framed's [emit_stable] and also holds for steps that hand
                  over "whatever is there" (raw data, counted bodies) when events are byte-granular.
    [Until]       the same receiver with an application that may PAUSE it after a step ([stop x b]):
                  deliveries and resumptions in any order and any segmentation only delay events —
                  what was delivered so far followed by what the still-buffered bytes will produce is
                  exactly what the never-paused receiver produces for the whole stream
                  ([pause_transparent]); once nothing is paused any more the two coincide
                  ([pause_transparent_settled]). *)
From Coq Require Import List Arith Lia.
From TwLib Require Import Seg.
Import ListNotations.
Set Implicit Arguments.

Section FramedWeak.
  Variables B E X : Type.
  Variable step : X -> list B -> step_result B E X.

  Hypothesis emit_shrinks : forall x b ev x' r, step x b = Emit ev x' r -> length r < length b.
  Hypothesis fail_stable : forall x b c ev, step x b = Fail ev -> step x (b ++ c) = Fail ev.
  Hypothesis emit_drain_stable : forall x b c ev x' r, step x b = Emit ev x' r ->
    fdrain step x (b ++ c) = let (ev', s) := fdrain step x' (r ++ c) in (ev ++ ev', s).

  Let unfold := fdrain_unfold step emit_shrinks.

  Lemma weak_prefix_stable : prefix_stable (fdrain step).
  Proof.
    unfold prefix_stable. intros x b. remember (length b) as n eqn:Hn. revert x b Hn.
    induction n as [n IH] using lt_wf_ind. intros x b Hn c ev x' r Hd.
    rewrite unfold in Hd.
    destruct (step x b) as [ev1 x1 r1| |ev1] eqn:Hs.
    - rewrite (emit_drain_stable c Hs).
      destruct (fdrain step x1 r1) as [ev2 s2] eqn:Hd2. inversion Hd; subst ev s2; clear Hd.
      pose proof (emit_shrinks Hs) as Hlt.
      rewrite (IH (length r1) ltac:(lia) x1 r1 eq_refl c _ _ _ Hd2).
      destruct (fdrain step x' (r ++ c)) as [ev3 s3]. now rewrite app_assoc.
    - inversion Hd; subst. simpl. destruct (fdrain step x' (r ++ c)); reflexivity.
    - discriminate.
  Qed.

  Lemma weak_close_stable : close_stable (fdrain step).
  Proof.
    unfold close_stable. intros x b. remember (length b) as n eqn:Hn. revert x b Hn.
    induction n as [n IH] using lt_wf_ind. intros x b Hn c ev Hd.
    rewrite unfold in Hd.
    destruct (step x b) as [ev1 x1 r1| |ev1] eqn:Hs.
    - rewrite (emit_drain_stable c Hs).
      destruct (fdrain step x1 r1) as [ev2 s2] eqn:Hd2. inversion Hd; subst ev s2; clear Hd.
      pose proof (emit_shrinks Hs) as Hlt.
      now rewrite (IH (length r1) ltac:(lia) x1 r1 eq_refl c _ Hd2).
    - discriminate.
    - rewrite (unfold x (b ++ c)), (fail_stable c Hs). assumption.
  Qed.

  Theorem weak_all_chunkings : forall x cs s, step x [] = Wait -> chunks cs s ->
    run (bfeed (fdrain step)) (Some (x, [])) cs = fdrain step x s.
  Proof.
    intros x cs s H0 Hc. apply buffered_from_empty; [apply weak_prefix_stable | apply weak_close_stable | | exact Hc].
    rewrite unfold, H0. reflexivity.
  Qed.

  (* ---------------------------------------------------------------------------------------- *)
  (** ** an application that pauses the receiver *)
  Variable stop : X -> list B -> bool.     (* the application pauses during the step taken from (x, b) *)

  Fixpoint until_fuel (n : nat) (x : X) (b : list B) : list E * option (X * list B) * bool :=
    match n with
    | 0 => ([], Some (x, b), false)
    | S n' =>
        match step x b with
        | Emit ev x' r =>
            if stop x b then (ev, Some (x', r), true)
            else let '(ev', s, p) := until_fuel n' x' r in (ev ++ ev', s, p)
        | Wait => ([], Some (x, b), false)
        | Fail ev => (ev, None, false)
        end
    end.
  Definition until (x : X) (b : list B) := until_fuel (S (length b)) x b.

  Lemma until_fuel_enough : forall n m x b, length b < n -> length b < m -> until_fuel n x b = until_fuel m x b.
  Proof.
    induction n as [|n IH]; intros m x b Hn Hm; [lia|].
    destruct m as [|m]; [lia|]. simpl.
    destruct (step x b) as [ev x' r| |ev] eqn:Hs; try reflexivity.
    destruct (stop x b); [reflexivity|].
    apply emit_shrinks in Hs. rewrite (IH m x' r) by lia. reflexivity.
  Qed.

  Lemma until_unfold : forall x b,
    until x b = match step x b with
                | Emit ev x' r =>
                    if stop x b then (ev, Some (x', r), true)
                    else let '(ev', s, p) := until x' r in (ev ++ ev', s, p)
                | Wait => ([], Some (x, b), false)
                | Fail ev => (ev, None, false)
                end.
  Proof.
    intros x b. unfold until at 1. simpl.
    destruct (step x b) as [ev x' r| |ev] eqn:Hs; try reflexivity.
    destruct (stop x b); [reflexivity|].
    pose proof (emit_shrinks Hs). unfold until. rewrite until_fuel_enough with (m := S (length r)) by lia.
    reflexivity.
  Qed.

  (** stopping early is sound: the rest can be done later, with more bytes *)
  Lemma until_sound : forall x b c ev st p, until x b = (ev, st, p) ->
    fdrain step x (b ++ c) = match st with
                             | Some (x', r) => let (ev', s) := fdrain step x' (r ++ c) in (ev ++ ev', s)
                             | None => (ev, None)
                             end.
  Proof.
    intros x b. remember (length b) as n eqn:Hn. revert x b Hn.
    induction n as [n IH] using lt_wf_ind. intros x b Hn c ev st p Hu.
    rewrite until_unfold in Hu.
    destruct (step x b) as [ev1 x1 r1| |ev1] eqn:Hs.
    - rewrite (emit_drain_stable c Hs). destruct (stop x b).
      + inversion Hu; subst. reflexivity.
      + destruct (until x1 r1) as [[ev2 s2] p2] eqn:Hu2. inversion Hu; subst ev st p; clear Hu.
        pose proof (emit_shrinks Hs) as Hlt.
        rewrite (IH (length r1) ltac:(lia) x1 r1 eq_refl c _ _ _ Hu2).
        destruct s2 as [[x' r]|]; [|reflexivity].
        destruct (fdrain step x' (r ++ c)). now rewrite app_assoc.
    - inversion Hu; subst. simpl. destruct (fdrain step x (b ++ c)); reflexivity.
    - inversion Hu; subst. rewrite (unfold x (b ++ c)), (fail_stable c Hs). reflexivity.
  Qed.

  (** not paused at the end of [until] = nothing more to do with the bytes at hand *)
  Lemma until_settled : forall x b ev x' r, until x b = (ev, Some (x', r), false) -> step x' r = Wait.
  Proof.
    intros x b. remember (length b) as n eqn:Hn. revert x b Hn.
    induction n as [n IH] using lt_wf_ind. intros x b Hn ev x' r Hu.
    rewrite until_unfold in Hu.
    destruct (step x b) as [ev1 x1 r1| |ev1] eqn:Hs.
    - destruct (stop x b); [discriminate|].
      destruct (until x1 r1) as [[ev2 s2] p2] eqn:Hu2. inversion Hu; subst.
      pose proof (emit_shrinks Hs) as Hlt. apply (IH (length r1) ltac:(lia) x1 r1 eq_refl _ _ _ Hu2).
    - inversion Hu; subst. assumption.
    - discriminate.
  Qed.

  (** deliveries and resumptions *)
  Inductive op := Data (c : list B) | Resume.
  Definition pstate : Type := option (X * list B * bool).

  Definition pfeed (s : pstate) (o : op) : list E * pstate :=
    match s with
    | None => ([], None)
    | Some (x, b, paused) =>
        let go (b' : list B) :=
          let '(ev, st, p) := until x b' in
          (ev, match st with Some (x', r) => Some (x', r, p) | None => None end) in
        match o with
        | Data c => if paused then ([], Some (x, b ++ c, true)) else go (b ++ c)
        | Resume => go b
        end
    end.

  Fixpoint prun (s : pstate) (ops : list op) : list E * pstate :=
    match ops with
    | [] => ([], s)
    | o :: r => let (e, s1) := pfeed s o in let (e', s2) := prun s1 r in (e ++ e', s2)
    end.

  Fixpoint data_of (ops : list op) : list B :=
    match ops with [] => [] | Data c :: r => c ++ data_of r | Resume :: r => data_of r end.

  Theorem pause_transparent : forall ops x b paused,
    fdrain step x (b ++ data_of ops) =
    match prun (Some (x, b, paused)) ops with
    | (ev, Some (x', r, _)) => let (ev', s) := fdrain step x' r in (ev ++ ev', s)
    | (ev, None) => (ev, None)
    end.
  Proof.
    induction ops as [|o ops IH]; intros x b paused.
    - simpl. rewrite app_nil_r. destruct (fdrain step x b); reflexivity.
    - assert (Hgo : forall b' rest, data_of ops = rest ->
                fdrain step x (b' ++ rest) =
                match (let (e, s1) := (let '(ev, st, p) := until x b' in
                                        (ev, match st with Some (x', r) => Some (x', r, p) | None => None end)) in
                       let (e', s2) := prun s1 ops in (e ++ e', s2)) with
                | (ev, Some (x', r, _)) => let (ev', s) := fdrain step x' r in (ev ++ ev', s)
                | (ev, None) => (ev, None)
                end).
      { intros b' rest Hrest. destruct (until x b') as [[ev1 st1] p1] eqn:Hu.
        rewrite (until_sound _ _ rest Hu). destruct st1 as [[x1 r1]|].
        - subst rest. rewrite (IH x1 r1 p1). destruct (prun (Some (x1, r1, p1)) ops) as [e' [[[x2 r2] p2]|]].
          + destruct (fdrain step x2 r2). now rewrite app_assoc.
          + reflexivity.
        - assert (Hn : prun None ops = ([], None)).
          { clear. induction ops as [|o ops IHo]; [reflexivity|]. simpl. now rewrite IHo. }
          rewrite Hn. now rewrite app_nil_r. }
      destruct o as [c|]; cbn [data_of prun pfeed].
      + destruct paused.
        * rewrite app_assoc. rewrite (IH x (b ++ c) true).
          destruct (prun (Some (x, b ++ c, true)) ops) as [e' [[[x2 r2] p2]|]]; reflexivity.
        * rewrite app_assoc. apply Hgo. reflexivity.
      + apply Hgo. reflexivity.
  Qed.

  (** a run that ends unpaused has delivered everything the never-paused receiver delivers *)
  Lemma prun_settled : forall ops x b paused ev x' r,
    step x b = Wait \/ paused = true ->
    prun (Some (x, b, paused)) ops = (ev, Some (x', r, false)) -> step x' r = Wait.
  Proof.
    induction ops as [|o ops IH]; intros x b paused ev x' r H0 Hp.
    - simpl in Hp. inversion Hp; subst. destruct H0 as [H0|H0]; [assumption | discriminate].
    - assert (Hgo : forall b' e, (let (e0, s1) := (let '(ev0, st, p) := until x b' in
                                          (ev0, match st with Some (x1, r1) => Some (x1, r1, p) | None => None end)) in
                        let (e', s2) := prun s1 ops in (e0 ++ e', s2)) = (e, Some (x', r, false)) -> step x' r = Wait).
      { intros b' e He. destruct (until x b') as [[ev1 st1] p1] eqn:Hu. destruct st1 as [[x1 r1]|].
        - destruct (prun (Some (x1, r1, p1)) ops) as [e' s2] eqn:Hr. injection He as He1 He2. subst s2.
          apply (IH x1 r1 p1 e' x' r); [|exact Hr].
          destruct p1; [now right | left; eapply until_settled; eauto].
        - assert (Hn : prun None ops = ([], None)).
          { clear. induction ops as [|o ops IHo]; [reflexivity|]. simpl. now rewrite IHo. }
          rewrite Hn in He. discriminate. }
      destruct o as [c|]; cbn [prun pfeed] in Hp.
      + destruct paused.
        * destruct (prun (Some (x, b ++ c, true)) ops) as [e' s2] eqn:Hr. injection Hp as Hp1 Hp2. subst s2.
          apply (IH x (b ++ c) true e' x' r); [now right | exact Hr].
        * eapply Hgo; eauto.
      + eapply Hgo; eauto.
  Qed.

  Theorem pause_transparent_settled : forall ops x ev x' r,
    step x [] = Wait ->
    prun (Some (x, [], false)) ops = (ev, Some (x', r, false)) ->
    fdrain step x (data_of ops) = (ev, Some (x', r)).
  Proof.
    intros ops x ev x' r H0 Hp.
    pose proof (pause_transparent ops x [] false) as H. rewrite Hp in H. simpl in H. rewrite H.
    pose proof (prun_settled ops (or_introl H0) Hp) as Hw.
    rewrite unfold, Hw. now rewrite app_nil_r.
  Qed.
End FramedWeak.

(** Seg.Framed's stronger [emit_stable] gives the drain-level law *)
Lemma emit_stable_gives_drain_stable : forall (B E X : Type) (step : X -> list B -> step_result B E X),
  (forall x b ev x' r, step x b = Emit ev x' r -> length r < length b) ->
  forall x b c ev x' r, step x (b ++ c) = Emit ev x' (r ++ c) ->
    fdrain step x (b ++ c) = let (ev', s) := fdrain step x' (r ++ c) in (ev ++ ev', s).
Proof. intros B E X step Hsh x b c ev x' r H. rewrite (fdrain_unfold step Hsh), H. reflexivity. Qed.
