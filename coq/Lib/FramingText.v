(** Text-form helpers shared by the framing cluster (C30 argument types):
    - single-character splitting lemmas for [PyBytes.split1];
    - fixed-width and signed decimal numerals ("%04i", "%+d") with their parsers;
    - a strict UTF-8 decoder (what bytes.decode("utf-8") accepts: shortest form, no surrogates,
      at most U+10FFFF) and the round trip with [CodecsText.utf8]. *)
From Coq Require Import List Arith NArith ZArith Bool Lia.
From TwLib Require Import PyBytes CodecsText.
Import ListNotations.
Ltac Zify.zify_post_hook ::= Z.to_euclidean_division_equations.

(* ------------------------------------------------------------------------------------------ *)
(** * splitting at a single byte *)
Definition lacks (c : N) (t : bytes) : bool := forallb (fun x => negb (N.eqb x c)) t.

Lemma lacks_split : forall c t rest, lacks c t = true -> split1 [c] (t ++ c :: rest) = Some (t, rest).
Proof.
  induction t as [|x t IH]; intros rest H.
  - simpl. rewrite N.eqb_refl. reflexivity.
  - simpl in H. apply andb_true_iff in H as [Hx Ht]. apply negb_true_iff in Hx.
    change ((x :: t) ++ c :: rest) with (x :: (t ++ c :: rest)). rewrite split1_unfold.
    assert (E : startswith [c] (x :: t ++ c :: rest) = false) by (cbn [startswith]; rewrite (N.eqb_sym c x), Hx; reflexivity).
    rewrite E. now rewrite (IH rest Ht).
Qed.

Lemma lacks_none : forall c t, lacks c t = true -> split1 [c] t = None.
Proof.
  induction t as [|x t IH]; intros H; [reflexivity|].
  simpl in H. apply andb_true_iff in H as [Hx Ht]. apply negb_true_iff in Hx.
  rewrite split1_unfold.
  assert (E : startswith [c] (x :: t) = false) by (cbn [startswith]; rewrite (N.eqb_sym c x), Hx; reflexivity).
  rewrite E. now rewrite (IH Ht).
Qed.

Lemma lacks_app : forall c a b, lacks c (a ++ b) = lacks c a && lacks c b.
Proof. intros. unfold lacks. apply forallb_app. Qed.

Definition all_digits (b : bytes) : bool := forallb is_digit b.

Lemma digits_lack : forall c t, is_digit c = false -> all_digits t = true -> lacks c t = true.
Proof.
  intros c t Hc H. unfold lacks, all_digits in *. apply forallb_forall. intros x Hx.
  rewrite forallb_forall in H. specialize (H x Hx). apply negb_true_iff. apply N.eqb_neq. intros ->. congruence.
Qed.

(* ------------------------------------------------------------------------------------------ *)
(** * decimal numerals *)
Definition zeros (k : nat) : bytes := repeat 48%N k.

Lemma zeros_digits : forall k, all_digits (zeros k) = true.
Proof. induction k; simpl; [reflexivity | assumption]. Qed.

Lemma dec_acc_zeros : forall k acc, dec_acc acc (zeros k) = (acc * 10 ^ N.of_nat k)%N.
Proof.
  induction k as [|k IH]; intros acc.
  - simpl. lia.
  - cbn [zeros repeat dec_acc]. fold (zeros k). rewrite IH, pow10_succ. lia.
Qed.

Lemma digits_to_N_zeros_app : forall k ds, digits_to_N (zeros k ++ ds) = digits_to_N ds.
Proof. intros k ds. unfold digits_to_N. rewrite dec_acc_app, dec_acc_zeros. reflexivity. Qed.

Lemma N_to_digits_all_digits : forall n, all_digits (N_to_digits n) = true.
Proof.
  intros n. destruct (N.eq_dec n 0) as [->|Hn]; [reflexivity|].
  destruct (digits_shape (S (N.to_nat (N.log2 n))) n [] (lt_pow10_log2 n) ltac:(lia)) as (d & ds & Heq & Hd & _ & Hds & _).
  unfold N_to_digits. rewrite Heq, app_nil_r. unfold all_digits. cbn [forallb]. unfold digitp in Hd. rewrite Hd. simpl.
  apply forallb_forall. intros y Hy. rewrite Forall_forall in Hds. apply (Hds y Hy).
Qed.

Lemma N_to_digits_nonempty : forall n, N_to_digits n <> [].
Proof.
  intros n. destruct (N.eq_dec n 0) as [->|Hn]; [discriminate|].
  destruct (digits_shape (S (N.to_nat (N.log2 n))) n [] (lt_pow10_log2 n) ltac:(lia)) as (d & ds & Heq & _).
  unfold N_to_digits. rewrite Heq. discriminate.
Qed.

(** a number below 10^w has at most w digits *)
Lemma N_to_digits_length : forall n w, 0 < w -> (n < 10 ^ N.of_nat w)%N -> length (N_to_digits n) <= w.
Proof.
  intros n w Hw Hn. destruct (N.eq_dec n 0) as [->|Hn0]; [simpl; lia|].
  destruct (digits_shape (S (N.to_nat (N.log2 n))) n [] (lt_pow10_log2 n) ltac:(lia)) as (d & ds & Heq & _ & _ & _ & Hlen).
  unfold N_to_digits. rewrite Heq, app_nil_r. cbn [length].
  assert (Hlt : (10 ^ N.of_nat (length ds) < 10 ^ N.of_nat w)%N) by lia.
  apply N.pow_lt_mono_r_iff in Hlt; lia.
Qed.

(** "%0wi" % n *)
Definition pad (w : nat) (n : N) : bytes := zeros (w - length (N_to_digits n)) ++ N_to_digits n.

Lemma pad_length : forall w n, 0 < w -> (n < 10 ^ N.of_nat w)%N -> length (pad w n) = w.
Proof.
  intros w n Hw Hn. unfold pad, zeros. rewrite app_length, repeat_length.
  pose proof (N_to_digits_length n w Hw Hn). lia.
Qed.

Lemma pad_value : forall w n, digits_to_N (pad w n) = n.
Proof. intros w n. unfold pad. rewrite digits_to_N_zeros_app. apply digits_to_N_to_digits. Qed.

Lemma pad_digits : forall w n, all_digits (pad w n) = true.
Proof.
  intros w n. unfold pad, all_digits. rewrite forallb_app. fold (all_digits (zeros (w - length (N_to_digits n)))).
  rewrite zeros_digits. apply N_to_digits_all_digits.
Qed.

(** "%+d" % z and its parser *)
Definition PLUS : N := 43%N.
Definition MINUSc : N := 45%N.
Definition signed_text (z : Z) : bytes :=
  match z with
  | Zneg p => MINUSc :: N_to_digits (Npos p)
  | _ => PLUS :: N_to_digits (Z.to_N z)
  end.
Definition parse_signed (b : bytes) : option Z :=
  match b with
  | x :: ds =>
      if negb (all_digits ds) || (match ds with [] => true | _ => false end) then None
      else if N.eqb x PLUS then Some (Z.of_N (digits_to_N ds))
      else if N.eqb x MINUSc then Some (Z.opp (Z.of_N (digits_to_N ds)))
      else None
  | [] => None
  end.

Lemma parse_signed_text : forall z, parse_signed (signed_text z) = Some z.
Proof.
  intros z. unfold signed_text, parse_signed.
  destruct z as [|p|p].
  - reflexivity.
  - cbn [Z.to_N]. rewrite N_to_digits_all_digits. pose proof (N_to_digits_nonempty (Npos p)).
    destruct (N_to_digits (N.pos p)) eqn:E; [congruence|]. rewrite <- E. cbn [negb orb]. rewrite N.eqb_refl.
    rewrite digits_to_N_to_digits. reflexivity.
  - rewrite N_to_digits_all_digits. pose proof (N_to_digits_nonempty (Npos p)).
    destruct (N_to_digits (N.pos p)) eqn:E; [congruence|]. rewrite <- E. cbn [negb orb].
    change (N.eqb MINUSc PLUS) with false. cbv iota. rewrite N.eqb_refl. rewrite digits_to_N_to_digits. reflexivity.
Qed.

Lemma signed_text_lacks : forall c z, is_digit c = false -> c <> PLUS -> c <> MINUSc -> lacks c (signed_text z) = true.
Proof.
  intros c z Hd Hp Hm. unfold signed_text.
  destruct z; unfold lacks; cbn [forallb]; apply andb_true_iff; split;
    try (apply negb_true_iff, N.eqb_neq; congruence);
    apply (digits_lack c _ Hd), N_to_digits_all_digits.
Qed.

(* ------------------------------------------------------------------------------------------ *)
(** * UTF-8 *)
Definition scalar (c : N) : bool := ((c <? 55296) || (57343 <? c))%N && (c <? 1114112)%N.

Definition cont (b : N) : bool := ((128 <=? b) && (b <? 192))%N.

Fixpoint utf8_decode (b : bytes) : option (list N) :=
  let ret (c : N) (r : option (list N)) := match r with Some l => Some (c :: l) | None => None end in
  match b with
  | [] => Some []
  | b0 :: r =>
      if (b0 <? 128)%N then ret b0 (utf8_decode r)
      else if ((194 <=? b0) && (b0 <? 224))%N then
        match r with
        | b1 :: r1 => if cont b1 then ret ((b0 - 192) * 64 + (b1 - 128))%N (utf8_decode r1) else None
        | _ => None
        end
      else if ((224 <=? b0) && (b0 <? 240))%N then
        match r with
        | b1 :: b2 :: r2 =>
            let c := ((b0 - 224) * 4096 + (b1 - 128) * 64 + (b2 - 128))%N in
            if cont b1 && cont b2 && (2048 <=? c)%N && scalar c then ret c (utf8_decode r2) else None
        | _ => None
        end
      else if ((240 <=? b0) && (b0 <? 245))%N then
        match r with
        | b1 :: b2 :: b3 :: r3 =>
            let c := ((b0 - 240) * 262144 + (b1 - 128) * 4096 + (b2 - 128) * 64 + (b3 - 128))%N in
            if cont b1 && cont b2 && cont b3 && (65536 <=? c)%N && scalar c then ret c (utf8_decode r3) else None
        | _ => None
        end
      else None
  end.

Lemma utf8_decode_char : forall c rest, scalar c = true ->
  utf8_decode (utf8 c ++ rest) = match utf8_decode rest with Some l => Some (c :: l) | None => None end.
Proof.
  intros c rest Hs. unfold scalar in Hs. apply andb_true_iff in Hs as [Hsur Hmax]. apply N.ltb_lt in Hmax.
  unfold utf8.
  destruct (c <? 128)%N eqn:E1.
  - cbn [app utf8_decode]. rewrite E1. reflexivity.
  - apply N.ltb_ge in E1. destruct (c <? 2048)%N eqn:E2.
    + apply N.ltb_lt in E2. cbn [app utf8_decode].
      assert (A0 : (192 + c / 64 <? 128)%N = false) by (apply N.ltb_ge; lia). rewrite A0.
      assert (A1 : ((194 <=? 192 + c / 64) && (192 + c / 64 <? 224))%N = true).
      { apply andb_true_iff. split; [apply N.leb_le | apply N.ltb_lt]; lia. }
      rewrite A1.
      assert (A2 : cont (128 + c mod 64) = true).
      { unfold cont. apply andb_true_iff. split; [apply N.leb_le | apply N.ltb_lt]; lia. }
      rewrite A2.
      replace ((192 + c / 64 - 192) * 64 + (128 + c mod 64 - 128))%N with c by lia. reflexivity.
    + apply N.ltb_ge in E2. destruct (c <? 65536)%N eqn:E3.
      * apply N.ltb_lt in E3. cbn [app utf8_decode].
        assert (A0 : (224 + c / 4096 <? 128)%N = false) by (apply N.ltb_ge; lia). rewrite A0.
        assert (A1 : ((194 <=? 224 + c / 4096) && (224 + c / 4096 <? 224))%N = false).
        { apply andb_false_iff. right. apply N.ltb_ge. lia. }
        rewrite A1.
        assert (A2 : ((224 <=? 224 + c / 4096) && (224 + c / 4096 <? 240))%N = true).
        { apply andb_true_iff. split; [apply N.leb_le | apply N.ltb_lt]; lia. }
        rewrite A2.
        assert (C1 : cont (128 + (c / 64) mod 64) = true).
        { unfold cont. apply andb_true_iff. split; [apply N.leb_le | apply N.ltb_lt]; lia. }
        assert (C2 : cont (128 + c mod 64) = true).
        { unfold cont. apply andb_true_iff. split; [apply N.leb_le | apply N.ltb_lt]; lia. }
        rewrite C1, C2.
        replace ((224 + c / 4096 - 224) * 4096 + (128 + (c / 64) mod 64 - 128) * 64 + (128 + c mod 64 - 128))%N with c by lia.
        assert (B : (2048 <=? c)%N = true) by (apply N.leb_le; lia). rewrite B.
        unfold scalar. rewrite Hsur. assert (M : (c <? 1114112)%N = true) by (apply N.ltb_lt; lia). rewrite M. reflexivity.
      * apply N.ltb_ge in E3. cbn [app utf8_decode].
        assert (A0 : (240 + c / 262144 <? 128)%N = false) by (apply N.ltb_ge; lia). rewrite A0.
        assert (A1 : ((194 <=? 240 + c / 262144) && (240 + c / 262144 <? 224))%N = false).
        { apply andb_false_iff. right. apply N.ltb_ge. lia. }
        rewrite A1.
        assert (A2 : ((224 <=? 240 + c / 262144) && (240 + c / 262144 <? 240))%N = false).
        { apply andb_false_iff. right. apply N.ltb_ge. lia. }
        rewrite A2.
        assert (A3 : ((240 <=? 240 + c / 262144) && (240 + c / 262144 <? 245))%N = true).
        { apply andb_true_iff. split; [apply N.leb_le | apply N.ltb_lt]; lia. }
        rewrite A3.
        assert (C1 : cont (128 + (c / 4096) mod 64) = true).
        { unfold cont. apply andb_true_iff. split; [apply N.leb_le | apply N.ltb_lt]; lia. }
        assert (C2 : cont (128 + (c / 64) mod 64) = true).
        { unfold cont. apply andb_true_iff. split; [apply N.leb_le | apply N.ltb_lt]; lia. }
        assert (C3 : cont (128 + c mod 64) = true).
        { unfold cont. apply andb_true_iff. split; [apply N.leb_le | apply N.ltb_lt]; lia. }
        rewrite C1, C2, C3.
        replace ((240 + c / 262144 - 240) * 262144 + (128 + (c / 4096) mod 64 - 128) * 4096 +
                 (128 + (c / 64) mod 64 - 128) * 64 + (128 + c mod 64 - 128))%N with c by lia.
        assert (B : (65536 <=? c)%N = true) by (apply N.leb_le; lia). rewrite B.
        unfold scalar. rewrite Hsur. assert (M : (c <? 1114112)%N = true) by (apply N.ltb_lt; lia). rewrite M. reflexivity.
Qed.

(** decode(encode(s)) = s for every string of Unicode scalar values *)
Theorem utf8_roundtrip : forall s, forallb scalar s = true -> utf8_decode (utf8_str s) = Some s.
Proof.
  induction s as [|c s IH]; intros H; [reflexivity|].
  simpl in H. apply andb_true_iff in H as [Hc Hs].
  unfold utf8_str. cbn [flat_map]. rewrite (utf8_decode_char c _ Hc). fold (utf8_str s). now rewrite (IH Hs).
Qed.
