(** Byte-string helpers for the HTTP response properties (C20, C25, C21), cluster http-response.
    Bytes are [N]; a byte string is [list N].  Everything here is total and computable; the lemmas are
    the ones the response-parsing theorems need (strict CRLF line splitting, optional white space,
    positional numerals in base 10 / 16, counted prefixes). *)
From Coq Require Import List NArith ZArith Bool Lia ZifyBool Arith.
Import ListNotations.
Local Open Scope N_scope.

Ltac Zify.zify_post_hook ::= Z.to_euclidean_division_equations.

Notation bytes := (list N).

Definition CRLF : bytes := [13; 10].

(** ------------------------------------------------------------------------------------------ *)
(** equality, prefixes *)

Fixpoint beq (a b : bytes) : bool :=
  match a, b with
  | [], [] => true
  | x :: a', y :: b' => (x =? y) && beq a' b'
  | _, _ => false
  end.

Lemma beq_eq a : forall b, beq a b = true <-> a = b.
Proof.
  induction a as [|x a IH]; intros [|y b]; cbn; split; intro H; try reflexivity; try discriminate.
  - apply andb_true_iff in H as [H1 H2]. apply N.eqb_eq in H1. apply IH in H2. subst. reflexivity.
  - inversion H; subst. rewrite N.eqb_refl. cbn. apply IH. reflexivity.
Qed.

Lemma beq_refl a : beq a a = true.
Proof. apply beq_eq. reflexivity. Qed.

Fixpoint strip_prefix (p l : bytes) : option bytes :=
  match p, l with
  | [], _ => Some l
  | x :: p', y :: l' => if x =? y then strip_prefix p' l' else None
  | _ :: _, [] => None
  end.

Lemma strip_prefix_app p l : strip_prefix p (p ++ l) = Some l.
Proof. induction p as [|x p IH]; cbn; [reflexivity|]. rewrite N.eqb_refl. exact IH. Qed.

(** ------------------------------------------------------------------------------------------ *)
(** CR / LF freedom and the strict line splitter: a line ends at the first CRLF; a bare CR or a
    bare LF before it makes the input unparseable (RFC 9112 section 2.2, strict reading) *)

Definition is_crlf_byte (c : N) : bool := (c =? 13) || (c =? 10).
Definition no_crlf (l : bytes) : bool := forallb (fun c => negb (is_crlf_byte c)) l.

Lemma no_crlf_app a b : no_crlf (a ++ b) = no_crlf a && no_crlf b.
Proof. apply forallb_app. Qed.

Fixpoint take_line (l : bytes) : option (bytes * bytes) :=
  match l with
  | [] => None
  | c :: r =>
      if c =? 13 then
        match r with
        | d :: r' => if d =? 10 then Some ([], r') else None
        | [] => None
        end
      else if c =? 10 then None
      else match take_line r with
           | Some (a, b) => Some (c :: a, b)
           | None => None
           end
  end.

Lemma take_line_app l r : no_crlf l = true -> take_line (l ++ 13 :: 10 :: r) = Some (l, r).
Proof.
  induction l as [|c l IH]; cbn; intro H; [reflexivity|].
  apply andb_true_iff in H as [Hc Hl]. unfold is_crlf_byte in Hc.
  destruct (c =? 13) eqn:E1; [discriminate|]. destruct (c =? 10) eqn:E2; [discriminate|].
  rewrite (IH Hl). reflexivity.
Qed.

(** what take_line returns really is a CR/LF-free line followed by CRLF *)
Lemma take_line_sound l : forall a b, take_line l = Some (a, b) -> l = a ++ 13 :: 10 :: b /\ no_crlf a = true.
Proof.
  induction l as [|c l IH]; cbn; intros a b H; [discriminate|].
  destruct (c =? 13) eqn:E1.
  - destruct l as [|d l']; [discriminate|]. destruct (d =? 10) eqn:E2; [|discriminate].
    inversion H; subst. apply N.eqb_eq in E1, E2. subst. split; reflexivity.
  - destruct (c =? 10) eqn:E2; [discriminate|].
    destruct (take_line l) as [[a' b']|] eqn:E; [|discriminate]. inversion H; subst.
    destruct (IH _ _ eq_refl) as [-> Hn]. split; [reflexivity|].
    cbn. unfold is_crlf_byte. rewrite E1, E2. exact Hn.
Qed.

(** ------------------------------------------------------------------------------------------ *)
(** optional white space (SP / HTAB) *)

Definition is_ws (c : N) : bool := (c =? 32) || (c =? 9).

Fixpoint drop_ws (l : bytes) : bytes :=
  match l with
  | c :: r => if is_ws c then drop_ws r else l
  | [] => []
  end.

Definition trim_ows (l : bytes) : bytes := rev (drop_ws (rev (drop_ws l))).

Lemma trim_ows_sp l : trim_ows (32 :: l) = trim_ows l.
Proof. reflexivity. Qed.

(** ------------------------------------------------------------------------------------------ *)
(** ASCII case *)

Definition lower (c : N) : N := if (65 <=? c) && (c <=? 90) then c + 32 else c.
Definition upper (c : N) : N := if (97 <=? c) && (c <=? 122) then c - 32 else c.

Ltac case_ifs :=
  repeat match goal with
         | |- context [if ?b then _ else _] => let E := fresh "E" in destruct b eqn:E
         | H : context [if ?b then _ else _] |- _ => let E := fresh "E" in destruct b eqn:E
         end.

Lemma lower_upper c : lower (upper c) = lower c.
Proof. unfold lower, upper. case_ifs; lia. Qed.
Lemma lower_lower c : lower (lower c) = lower c.
Proof. unfold lower. case_ifs; lia. Qed.
Lemma upper_lower c : upper (lower c) = upper c.
Proof. unfold lower, upper. case_ifs; lia. Qed.

(** ------------------------------------------------------------------------------------------ *)
(** token (RFC 9110 section 5.6.2): 1*tchar *)

Definition is_alpha (c : N) : bool := ((65 <=? c) && (c <=? 90)) || ((97 <=? c) && (c <=? 122)).
Definition is_digit (c : N) : bool := (48 <=? c) && (c <=? 57).
(** ! # $ % & ' * + - . ^ _ ` | ~ *)
Definition is_tchar (c : N) : bool :=
  is_alpha c || is_digit c ||
  existsb (N.eqb c) [33; 35; 36; 37; 38; 39; 42; 43; 45; 46; 94; 95; 96; 124; 126].

Definition is_token (l : bytes) : bool :=
  match l with [] => false | _ => forallb is_tchar l end.

Lemma tchar_facts c : is_tchar c = true -> c <> 13 /\ c <> 10 /\ c <> 58 /\ c <> 32 /\ c <> 9.
Proof. unfold is_tchar, is_alpha, is_digit. cbn [existsb]. lia. Qed.

Lemma forallb_impl (p q : N -> bool) l : (forall c, p c = true -> q c = true) -> forallb p l = true -> forallb q l = true.
Proof.
  intros H. induction l as [|c l IH]; cbn; [reflexivity|]. intro A. apply andb_true_iff in A as [A1 A2].
  rewrite (H _ A1), (IH A2). reflexivity.
Qed.

Lemma token_no_crlf l : forallb is_tchar l = true -> no_crlf l = true.
Proof. apply forallb_impl. intros c Hc. apply tchar_facts in Hc. unfold is_crlf_byte. lia. Qed.

(** ------------------------------------------------------------------------------------------ *)
(** span / takeWhile *)

Fixpoint take_while (p : N -> bool) (l : bytes) : bytes :=
  match l with
  | c :: r => if p c then c :: take_while p r else []
  | [] => []
  end.

Fixpoint drop_while (p : N -> bool) (l : bytes) : bytes :=
  match l with
  | c :: r => if p c then drop_while p r else l
  | [] => []
  end.

Lemma take_while_all p l : forallb p l = true -> take_while p l = l.
Proof.
  induction l as [|c l IH]; cbn; [reflexivity|]. intro H. apply andb_true_iff in H as [Hc Hl].
  rewrite Hc, (IH Hl). reflexivity.
Qed.

Lemma take_while_app_stop p a c r : forallb p a = true -> p c = false -> take_while p (a ++ c :: r) = a.
Proof.
  induction a as [|x a IH]; cbn; intros Ha Hc; [rewrite Hc; reflexivity|].
  apply andb_true_iff in Ha as [Hx Ha]. rewrite Hx, (IH Ha Hc). reflexivity.
Qed.

Lemma drop_while_app_stop p a c r : forallb p a = true -> p c = false -> drop_while p (a ++ c :: r) = c :: r.
Proof.
  induction a as [|x a IH]; cbn; intros Ha Hc; [rewrite Hc; reflexivity|].
  apply andb_true_iff in Ha as [Hx Ha]. rewrite Hx. exact (IH Ha Hc).
Qed.

(** ------------------------------------------------------------------------------------------ *)
(** counted prefix (never converts the count to [nat]) *)

Fixpoint take_N (n : N) (l : bytes) : option (bytes * bytes) :=
  match l with
  | [] => if n =? 0 then Some ([], []) else None
  | c :: r =>
      if n =? 0 then Some ([], l)
      else match take_N (n - 1) r with
           | Some (a, b) => Some (c :: a, b)
           | None => None
           end
  end.

Definition lenN (l : bytes) : N := N.of_nat (length l).

Lemma take_N_app a : forall b, take_N (lenN a) (a ++ b) = Some (a, b).
Proof.
  unfold lenN. induction a as [|c a IH]; intro b.
  - cbn. destruct b; reflexivity.
  - cbn [app length take_N]. destruct (N.of_nat (S (length a)) =? 0) eqn:E; [lia|].
    replace (N.of_nat (S (length a)) - 1) with (N.of_nat (length a)) by lia.
    rewrite IH. reflexivity.
Qed.

Lemma take_N_sound l : forall n a b, take_N n l = Some (a, b) -> l = a ++ b /\ lenN a = n.
Proof.
  unfold lenN. induction l as [|c l IH]; cbn; intros n a b H.
  - destruct (n =? 0) eqn:E; [|discriminate]. inversion H; subst. split; [reflexivity|cbn; lia].
  - destruct (n =? 0) eqn:E.
    + inversion H; subst. split; [reflexivity|cbn; lia].
    + destruct (take_N (n - 1) l) as [[a' b']|] eqn:E2; [|discriminate]. inversion H; subst.
      destruct (IH _ _ _ E2) as [-> Hl]. split; [reflexivity|]. cbn [length]. lia.
Qed.

(** ------------------------------------------------------------------------------------------ *)
(** positional numerals, most significant digit first; base 10 (Python "%d" of a non-negative int) and
    base 16 lower case (Python format ":x") *)

Definition digit_char (d : N) : N := if d <? 10 then 48 + d else 87 + d.

Definition char_digit (b c : N) : option N :=
  if (48 <=? c) && (c <=? 57) then Some (c - 48)
  else if (b =? 16) && (97 <=? c) && (c <=? 102) then Some (c - 87)
  else if (b =? 16) && (65 <=? c) && (c <=? 70) then Some (c - 55)
  else None.

Fixpoint to_radix_aux (b : N) (fuel : nat) (n : N) : bytes :=
  match fuel with
  | O => []
  | S f => if n <? b then [digit_char n] else to_radix_aux b f (n / b) ++ [digit_char (n mod b)]
  end.

Definition to_radix (b n : N) : bytes := to_radix_aux b (S (N.to_nat (N.size n))) n.
Definition to_dec := to_radix 10.
Definition to_hex := to_radix 16.

Definition radix_step (b : N) (acc : option N) (c : N) : option N :=
  match acc, char_digit b c with
  | Some a, Some d => Some (a * b + d)
  | _, _ => None
  end.

(** 1*DIGIT / 1*HEXDIG *)
Definition of_radix (b : N) (l : bytes) : option N :=
  match l with [] => None | _ => fold_left (radix_step b) l (Some 0) end.
Definition of_dec := of_radix 10.
Definition of_hex := of_radix 16.

Definition good_base (b : N) : Prop := b = 10 \/ b = 16.

Lemma char_digit_char b d : good_base b -> d < b -> char_digit b (digit_char d) = Some d.
Proof. unfold good_base, char_digit, digit_char. intros [-> | ->] H; case_ifs; try f_equal; lia. Qed.

Lemma to_radix_aux_S b f n :
  to_radix_aux b (S f) n = if n <? b then [digit_char n] else to_radix_aux b f (n / b) ++ [digit_char (n mod b)].
Proof. reflexivity. Qed.

Lemma to_radix_aux_ok b : good_base b -> forall f n, n < 2 ^ N.of_nat f ->
  fold_left (radix_step b) (to_radix_aux b (S f) n) (Some 0) = Some n /\ to_radix_aux b (S f) n <> [].
Proof.
  intros Hb. induction f as [|f IH]; intros n Hn.
  - change (2 ^ N.of_nat 0) with 1 in Hn. assert (n = 0) by lia. subst. cbn [to_radix_aux].
    assert (0 <? b = true) as -> by (destruct Hb; subst; reflexivity).
    split; [|discriminate]. cbn [fold_left]. unfold radix_step.
    rewrite char_digit_char; [|exact Hb|destruct Hb; subst; lia]. reflexivity.
  - rewrite (to_radix_aux_S b (S f) n). destruct (n <? b) eqn:E.
    + split; [|discriminate]. cbn [fold_left]. unfold radix_step.
      rewrite char_digit_char; [|exact Hb|lia]. f_equal; lia.
    + assert (Hq : n / b < 2 ^ N.of_nat f).
      { rewrite Nat2N.inj_succ, N.pow_succ_r' in Hn. set (p := 2 ^ N.of_nat f) in *. clearbody p.
        destruct Hb; subst; lia. }
      destruct (IH _ Hq) as [H1 H2]. split.
      * rewrite fold_left_app, H1. cbn [fold_left]. unfold radix_step.
        rewrite char_digit_char; [|exact Hb|destruct Hb; subst; lia].
        f_equal; destruct Hb; subst; lia.
      * intro C. apply app_eq_nil in C as [_ C]. discriminate.
Qed.

Lemma of_radix_to_radix b n : good_base b -> of_radix b (to_radix b n) = Some n.
Proof.
  intro Hb. unfold of_radix, to_radix.
  assert (Hn : n < 2 ^ N.of_nat (N.to_nat (N.size n))) by (rewrite N2Nat.id; apply N.size_gt).
  destruct (to_radix_aux_ok b Hb _ _ Hn) as [H1 H2].
  destruct (to_radix_aux b (S (N.to_nat (N.size n))) n) eqn:E; [contradiction|]. exact H1.
Qed.

(** the digit characters: 0-9 a-f *)
Definition is_lhex (c : N) : bool := ((48 <=? c) && (c <=? 57)) || ((97 <=? c) && (c <=? 102)).

Lemma to_radix_aux_chars b : good_base b -> forall f n, forallb is_lhex (to_radix_aux b f n) = true.
Proof.
  intros Hb. induction f as [|f IH]; intro n; cbn [to_radix_aux]; [reflexivity|].
  destruct (n <? b) eqn:E.
  - cbn [forallb]. rewrite andb_true_r. unfold is_lhex, digit_char. destruct Hb; subst; case_ifs; lia.
  - rewrite forallb_app, IH. cbn [forallb andb]. rewrite andb_true_r. unfold is_lhex, digit_char.
    destruct Hb; subst; case_ifs; lia.
Qed.

Lemma to_radix_chars b n : good_base b -> forallb is_lhex (to_radix b n) = true.
Proof. intro Hb. apply to_radix_aux_chars, Hb. Qed.

Lemma lhex_no_crlf l : forallb is_lhex l = true -> no_crlf l = true.
Proof. apply forallb_impl. intro c. unfold is_lhex, is_crlf_byte. lia. Qed.

(** three-digit status codes: "%d" of 100..999 is exactly three characters (finite check by reflection) *)
Definition codes_100_999 : list N := map N.of_nat (seq 100 900).

Lemma to_dec_three_digits c : 100 <= c <= 999 -> length (to_dec c) = 3%nat.
Proof.
  intro H.
  assert (A : forallb (fun c => Nat.eqb (length (to_dec c)) 3) codes_100_999 = true) by (vm_compute; reflexivity).
  rewrite forallb_forall in A.
  assert (I : In c codes_100_999).
  { unfold codes_100_999. rewrite <- (N2Nat.id c). apply in_map, in_seq. lia. }
  apply A in I. apply Nat.eqb_eq in I. exact I.
Qed.
