(** Families of chunkings of one stream and a run-length summary of per-chunking observation
    strings; used only by correspondence printers (Run.v files) so that one case can stand for
    hundreds of chunkings without hundreds of byte-string literals. *)
From Coq Require Import List Arith NArith String.
From TwLib Require Import Show.
Import ListNotations.

Definition fbytes := list N.

(** the whole stream, every 2-split, every 3-split whose first cut is within the first [k] bytes
    ... here: every 3-split, and byte by byte *)
Definition splits2 (s : fbytes) : list (list fbytes) :=
  map (fun i => [firstn i s; skipn i s]) (seq 1 (List.length s - 1)).

Definition splits3 (lim : nat) (s : fbytes) : list (list fbytes) :=
  let n := List.length s in
  flat_map (fun i => map (fun j => [firstn i s; firstn (j - i) (skipn i s); skipn j s])
                         (seq (i + 1) (Nat.min lim (n - 1) - i)))
           (seq 1 (Nat.min lim (n - 1))).

Definition bytewise (s : fbytes) : list fbytes := map (fun x => [x]) s.

(** whole, all 2-splits, all 3-splits with both cuts among the first [lim] positions, byte by byte *)
Definition split_family (lim : nat) (s : fbytes) : list (list fbytes) :=
  ([[s]] ++ splits2 s ++ splits3 lim s ++ [bytewise s])%list.

Local Open Scope string_scope.
Fixpoint rle (prev : string) (k : nat) (l : list string) : list string :=
  match l with
  | [] => [show_nat k ++ "*" ++ prev]
  | r :: t => if String.eqb r prev then rle prev (S k) t else (show_nat k ++ "*" ++ prev) :: rle r 1 t
  end.
Definition summary (l : list string) : string :=
  match l with [] => "" | r :: t => String.concat ";" (rle r 1 t) end.
