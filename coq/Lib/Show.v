(** Canonical printing of model observations as Coq [string]s, one line per case.
    Used only by the correspondence check (never inside a property theorem). *)
From Coq Require Import String Ascii List NArith ZArith DecimalString.
Import ListNotations.
Local Open Scope string_scope.

Definition show_N (n : N) : string := NilZero.string_of_uint (N.to_uint n).
Definition show_nat (n : nat) : string := show_N (N.of_nat n).
Definition show_Z (z : Z) : string :=
  match z with
  | Z0 => "0"
  | Zpos p => show_N (Npos p)
  | Zneg p => "-" ++ show_N (Npos p)
  end.
Definition show_bool (b : bool) : string := if b then "T" else "F".

Definition hex_digit (n : N) : ascii :=
  match n with
  | 0%N => "0" | 1%N => "1" | 2%N => "2" | 3%N => "3" | 4%N => "4" | 5%N => "5" | 6%N => "6"
  | 7%N => "7" | 8%N => "8" | 9%N => "9" | 10%N => "a" | 11%N => "b" | 12%N => "c"
  | 13%N => "d" | 14%N => "e" | _ => "f"
  end%char.

(** bytes are [list N]; each printed as two lower-case hex digits (values are taken mod 256). *)
Fixpoint show_hex (b : list N) : string :=
  match b with
  | [] => ""
  | x :: r => String (hex_digit (N.div (N.modulo x 256) 16)) (String (hex_digit (N.modulo x 16)) (show_hex r))
  end.

Definition show_list {A} (f : A -> string) (l : list A) : string :=
  "[" ++ String.concat "," (map f l) ++ "]".

Definition show_option {A} (f : A -> string) (o : option A) : string :=
  match o with None => "None" | Some x => "Some(" ++ f x ++ ")" end.

Definition show_pair {A B} (f : A -> string) (g : B -> string) (p : A * B) : string :=
  "(" ++ f (fst p) ++ "," ++ g (snd p) ++ ")".
