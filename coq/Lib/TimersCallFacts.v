(** Lemmas about Lib/TimersCall.v: the stable insertion sort, lookups by id, DelayedCall arithmetic. *)
From Coq Require Import List Arith ZArith Bool Lia Permutation Sorted.
From TwLib Require Import TimersCall.
Import ListNotations.
Local Open Scope Z_scope.

(** ---- DelayedCall arithmetic ---- *)
Lemma reset_getTime : forall now s c, getTime (fst (do_reset now s c)) = now + s.
Proof.
  intros now s c. unfold do_reset, getTime. destruct (now + s <? ctime c) eqn:E; cbn; lia.
Qed.

Lemma delay_getTime : forall s c, getTime (fst (do_delay s c)) = getTime c + s.
Proof.
  intros s c. unfold do_delay, getTime. destruct (cdelay c + s <? 0) eqn:E; cbn; lia.
Qed.

Lemma reset_cid : forall now s c, cid (fst (do_reset now s c)) = cid c.
Proof. intros. unfold do_reset. destruct (_ <? _); reflexivity. Qed.
Lemma delay_cid : forall s c, cid (fst (do_delay s c)) = cid c.
Proof. intros. unfold do_delay. destruct (_ <? _); reflexivity. Qed.
Lemma reset_cres : forall now s c, cres (fst (do_reset now s c)) = true.
Proof. intros. unfold do_reset. destruct (_ <? _); reflexivity. Qed.
Lemma delay_cres : forall s c, cres (fst (do_delay s c)) = true.
Proof. intros. unfold do_delay. destruct (_ <? _); reflexivity. Qed.
Lemma reset_ccanc : forall now s c, ccanc (fst (do_reset now s c)) = ccanc c.
Proof. intros. unfold do_reset. destruct (_ <? _); reflexivity. Qed.
Lemma delay_ccanc : forall s c, ccanc (fst (do_delay s c)) = ccanc c.
Proof. intros. unfold do_delay. destruct (_ <? _); reflexivity. Qed.
Lemma reset_cdelay_nonneg : forall now s c, 0 <= cdelay (fst (do_reset now s c)).
Proof. intros. unfold do_reset. destruct (_ <? _) eqn:E; cbn; lia. Qed.
Lemma delay_cdelay_nonneg : forall s c, 0 <= cdelay (fst (do_delay s c)).
Proof. intros. unfold do_delay. destruct (_ <? _) eqn:E; cbn; lia. Qed.

(** ---- the stable sort ---- *)
Section SortFacts.
  Variable key : call -> Z.
  Definition kle (a b : call) : Prop := key a <= key b.

  Lemma insert_perm : forall x l, Permutation (insert key x l) (x :: l).
  Proof.
    intros x l. induction l as [|y r IH]; cbn.
    - apply Permutation_refl.
    - destruct (key x <=? key y).
      + apply Permutation_refl.
      + eapply perm_trans. { apply perm_skip. exact IH. } apply perm_swap.
  Qed.

  Lemma sort_perm : forall l, Permutation (sort key l) l.
  Proof.
    induction l as [|x r IH]; cbn.
    - apply perm_nil.
    - eapply perm_trans. { apply insert_perm. } apply perm_skip. exact IH.
  Qed.

  Lemma insert_sorted : forall x l, StronglySorted kle l -> StronglySorted kle (insert key x l).
  Proof.
    intros x l Hs. induction Hs as [|y r Hr IH Hy]; cbn.
    - constructor; constructor.
    - destruct (key x <=? key y) eqn:E.
      + constructor.
        * constructor; assumption.
        * constructor.
          { unfold kle. lia. }
          { eapply Forall_impl; [|exact Hy]. intros a Ha. unfold kle in *. lia. }
      + constructor.
        * exact IH.
        * eapply Permutation_Forall. { apply Permutation_sym. apply insert_perm. }
          constructor; [unfold kle; lia | exact Hy].
  Qed.

  Lemma sort_sorted : forall l, StronglySorted kle (sort key l).
  Proof.
    induction l as [|x r IH]; cbn.
    - constructor.
    - apply insert_sorted. exact IH.
  Qed.

  Lemma sort_head_min : forall l c r, sort key l = c :: r -> Forall (fun o => key c <= key o) r.
  Proof.
    intros l c r E. pose proof (sort_sorted l) as Hs. rewrite E in Hs.
    inversion Hs; subst. assumption.
  Qed.

  (** stability, in the form used for "creation order among equals": a relation [R] that holds
      between every element and the elements after it still does after sorting, provided it holds
      trivially for pairs with strictly increasing keys (those are the only pairs the sort swaps) *)
  Lemma insert_ordered : forall (R : call -> call -> Prop) x l,
    (forall y, key y < key x -> R y x) ->
    StronglySorted R l -> Forall (R x) l -> StronglySorted R (insert key x l).
  Proof.
    intros R x l Hlt Hs. induction Hs as [|y r Hr IH Hy]; intros Hx; cbn.
    - constructor; constructor.
    - destruct (key x <=? key y) eqn:E.
      + constructor; [constructor; assumption | exact Hx].
      + inversion Hx; subst. constructor.
        * apply IH. assumption.
        * eapply Permutation_Forall. { apply Permutation_sym. apply insert_perm. }
          constructor; [apply Hlt; lia | exact Hy].
  Qed.

  Lemma sort_ordered : forall (R : call -> call -> Prop) l,
    (forall x y, key y < key x -> R y x) ->
    StronglySorted R l -> StronglySorted R (sort key l).
  Proof.
    intros R l Hlt Hs. induction Hs as [|x r Hr IH Hx]; cbn.
    - constructor.
    - apply insert_ordered.
      + intros y Hy. apply Hlt. exact Hy.
      + exact IH.
      + eapply Permutation_Forall. { apply Permutation_sym. apply sort_perm. } exact Hx.
  Qed.
End SortFacts.

(** ---- lookups by id ---- *)
Lemma find_id_some : forall i l c, find_id i l = Some c -> In c l /\ cid c = i.
Proof.
  intros i l. induction l as [|y r IH]; cbn; intros c H.
  - discriminate.
  - destruct (Nat.eqb (cid y) i) eqn:E.
    + inversion H; subst. apply Nat.eqb_eq in E. auto.
    + destruct (IH _ H). auto.
Qed.

Lemma find_id_none : forall i l, find_id i l = None -> ~ In i (map cid l).
Proof.
  intros i l. induction l as [|y r IH]; cbn; intros H.
  - tauto.
  - destruct (Nat.eqb (cid y) i) eqn:E; [discriminate|].
    apply Nat.eqb_neq in E. intros [H1|H1]; [congruence | exact (IH H H1)].
Qed.

Lemma find_id_in : forall i l, In i (map cid l) -> exists c, find_id i l = Some c.
Proof.
  intros i l H. destruct (find_id i l) eqn:E; [eauto|]. exfalso. exact (find_id_none _ _ E H).
Qed.

Lemma remove_id_perm : forall i l c, find_id i l = Some c -> Permutation l (c :: remove_id i l).
Proof.
  intros i l. induction l as [|y r IH]; cbn; intros c H.
  - discriminate.
  - destruct (Nat.eqb (cid y) i) eqn:E.
    + inversion H; subst. apply Permutation_refl.
    + eapply perm_trans. { apply perm_skip. apply IH. exact H. } apply perm_swap.
Qed.

Lemma remove_id_incl : forall i l x, In x (remove_id i l) -> In x l.
Proof.
  intros i l. induction l as [|y r IH]; cbn; intros x H.
  - exact H.
  - destruct (Nat.eqb (cid y) i); [right; exact H|].
    destruct H as [H|H]; [left; exact H | right; apply IH; exact H].
Qed.

Lemma remove_id_Forall : forall (P : call -> Prop) i l, Forall P l -> Forall P (remove_id i l).
Proof.
  intros P i l H. apply Forall_forall. intros x Hx. rewrite Forall_forall in H. apply H.
  eapply remove_id_incl. exact Hx.
Qed.

Lemma remove_id_ordered : forall (R : call -> call -> Prop) i l,
  StronglySorted R l -> StronglySorted R (remove_id i l).
Proof.
  intros R i l Hs. induction Hs as [|y r Hr IH Hy]; cbn.
  - constructor.
  - destruct (Nat.eqb (cid y) i); [exact Hr|].
    constructor; [exact IH | apply remove_id_Forall; exact Hy].
Qed.

Lemma replace_id_map : forall c' l, map cid (replace_id c' l) = map cid l.
Proof.
  intros c' l. induction l as [|y r IH]; cbn.
  - reflexivity.
  - destruct (Nat.eqb (cid y) (cid c')) eqn:E; cbn.
    + apply Nat.eqb_eq in E. congruence.
    + rewrite IH. reflexivity.
Qed.

Lemma replace_id_in : forall c' l x, In x (replace_id c' l) -> x = c' \/ In x l.
Proof.
  intros c' l. induction l as [|y r IH]; cbn; intros x H.
  - tauto.
  - destruct (Nat.eqb (cid y) (cid c')); cbn in H.
    + destruct H; [left; auto | right; right; assumption].
    + destruct H as [H|H]; [right; left; exact H|]. destruct (IH _ H); auto.
Qed.

Lemma replace_id_Forall : forall (P : call -> Prop) c' l, P c' -> Forall P l -> Forall P (replace_id c' l).
Proof.
  intros P c' l Hc H. apply Forall_forall. intros x Hx. rewrite Forall_forall in H.
  destruct (replace_id_in _ _ _ Hx) as [->|Hi]; auto.
Qed.

Lemma replace_id_ordered : forall (R : call -> call -> Prop) c' l,
  (forall a, R a c') -> (forall b, R c' b) ->
  StronglySorted R l -> StronglySorted R (replace_id c' l).
Proof.
  intros R c' l Ha Hb Hs. induction Hs as [|y r Hr IH Hy]; cbn.
  - constructor.
  - destruct (Nat.eqb (cid y) (cid c')).
    + constructor; [exact Hr | apply Forall_forall; intros; apply Hb].
    + constructor; [exact IH | apply replace_id_Forall; [apply Ha | exact Hy]].
Qed.

Lemma ordered_app_one : forall (R : call -> call -> Prop) l c,
  StronglySorted R l -> Forall (fun a => R a c) l -> StronglySorted R (l ++ [c]).
Proof.
  intros R l c Hs. induction Hs as [|y r Hr IH Hy]; intros Hc; cbn.
  - constructor; constructor.
  - inversion Hc; subst. constructor.
    + apply IH. assumption.
    + apply Forall_app. split; [exact Hy | constructor; [assumption | constructor]].
Qed.

Lemma memn_in : forall i l, memn i l = true <-> In i l.
Proof.
  intros i l. unfold memn. rewrite existsb_exists. split.
  - intros [x [Hx E]]. apply Nat.eqb_eq in E. subst. exact Hx.
  - intros H. exists i. split; [exact H | apply Nat.eqb_refl].
Qed.

(** whatever every timer operation preserves, a call function preserves (raising or not) *)
Lemma run_body_inv : forall (S : Type) (exec : S -> bop -> S) (P : S -> Prop),
  (forall s b, P s -> P (exec s b)) -> forall bs s, P s -> P (fst (run_body exec bs s)).
Proof.
  intros S exec P Hstep bs. induction bs as [|b r IH]; intros s H; cbn; [exact H|].
  destruct b; try (apply IH; apply Hstep; exact H). exact H.
Qed.
