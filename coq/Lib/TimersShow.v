(** Printing of timer event logs for the correspondence checks of C08 / C09 (cluster "timers"). *)
From Coq Require Import List Arith ZArith NArith Bool String Ascii.
From TwLib Require Import Show TimersCall.
Import ListNotations.
Local Open Scope string_scope.

Fixpoint ins_id (x : nat * Z) (l : list (nat * Z)) : list (nat * Z) :=
  match l with
  | [] => [x]
  | y :: r => if Nat.leb (fst x) (fst y) then x :: l else y :: ins_id x r
  end.
Definition sort_id (l : list (nat * Z)) : list (nat * Z) := fold_right ins_id [] l.

Definition show_ev (e : ev) : string :=
  match e with
  | ENew i t => "L" ++ show_nat i ++ "@" ++ show_Z t
  | ECancel i => "C" ++ show_nat i
  | EReset i t => "R" ++ show_nat i ++ "@" ++ show_Z t
  | EDelay i t => "D" ++ show_nat i ++ "@" ++ show_Z t
  | EErrCalled i => "XA" ++ show_nat i
  | EErrCancelled i => "XC" ++ show_nat i
  | ENoSuch i => "N" ++ show_nat i
  | ERun c n _ => "(r" ++ show_nat (cid c) ++ "@" ++ show_Z n ++ ":" ++ show_Z (getTime c)
  | EEnd _ => ")"
  | ERaise _ => ")!"
  | EIter => "A"
  | EDone n => "=" ++ show_Z n
  | ETimeout None => "Tnone"
  | ETimeout (Some t) => "T" ++ show_Z t
  | ESnap p => "[" ++ String.concat "," (map (fun x => show_nat (fst x) ++ ":" ++ show_Z (snd x)) (sort_id p)) ++ "]"
  end.

(** the log is kept newest first *)
Definition show_log (l : list ev) : string := String.concat " " (map show_ev (rev l)).

(** Printing a long string out of vm_compute is slow (about 0.1 s per KB), so the checks compare a
    digest: the first 60 characters, then a polynomial hash of the whole string. *)
Fixpoint hash_str (s : string) (acc : Z) : Z :=
  match s with
  | EmptyString => acc
  | String c r => hash_str r (Z.land (acc * 1000003 + Z.of_N (N_of_ascii c)) 1152921504606846975)%Z
  end.
Definition digest (s : string) : string := substring 0 60 s ++ "#" ++ show_Z (hash_str s 7%Z).
