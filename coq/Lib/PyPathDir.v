(** PyPathDir: posixpath.basename / dirname / splitext on byte strings (assumed CPython semantics, validated by
    the C26 correspondence) and what they give on a direct child of a normal absolute path. *)
From Coq Require Import List NArith Bool Arith Lia.
From TwLib Require Import PyPath.
Import ListNotations.

(** p[p.rfind("/")+1:] *)
Definition basename (p : bytes) : bytes := last (split_sl p) [].

Fixpoint rstrip_sl (s : bytes) : bytes :=
  match s with
  | [] => []
  | c :: r => match rstrip_sl r with
              | [] => if is_sl c then [] else [c]
              | r' => c :: r'
              end
  end.

Definition all_sl (s : bytes) : bool := forallb is_sl s.

(** head = p[:p.rfind("/")+1]; stripped of trailing slashes unless it consists of slashes only *)
Definition no_comps (l : list bytes) : bool := match l with [] => true | _ => false end.
Definition dirname (p : bytes) : bytes :=
  let hd := removelast (split_sl p) in
  if no_comps hd then []
  else let head := join_sl hd ++ [SL] in if all_sl head then head else rstrip_sl head.

(** os.path.splitext(p)[1] for a path whose last component is [basename p]: the part from the last '.'
    of the basename, unless only dots precede it *)
Fixpoint last_dot_split (b : bytes) : option (bytes * bytes) :=   (* (before last dot, from last dot) *)
  match b with
  | [] => None
  | c :: r =>
      match last_dot_split r with
      | Some (pre, ext) => Some (c :: pre, ext)
      | None => if N.eqb c DT then Some ([], c :: r) else None
      end
  end.

Definition ext_of (p : bytes) : bytes :=
  match last_dot_split (basename p) with
  | Some (pre, ext) => if forallb (N.eqb DT) pre then [] else ext
  | None => []
  end.

(** ---- lemmas ---- *)
Lemma rstrip_sl_snoc : forall x, rstrip_sl (x ++ [SL]) = rstrip_sl x.
Proof.
  induction x as [|c x IH]; [reflexivity|]. cbn [app rstrip_sl]. now rewrite IH.
Qed.

Lemma rstrip_sl_id : forall x, x <> [] -> endswith_sl x = false -> rstrip_sl x = x.
Proof.
  induction x as [|c x IH]; intros Hn He; [contradiction|].
  destruct x as [|d x'].
  - cbn in *. now rewrite He.
  - change (endswith_sl (d :: x') = false) in He.
    cbn [rstrip_sl]. change (match rstrip_sl (d :: x') with [] => if is_sl c then [] else [c] | r' => c :: r' end = c :: d :: x').
    rewrite IH by (assumption || discriminate). reflexivity.
Qed.

Lemma split_join_sl : forall cs, cs <> [] -> forallb okc cs = true -> split_sl (join_sl cs) = cs.
Proof.
  induction cs as [|x r IH]; intros Hn H; [contradiction|].
  cbn in H. apply andb_true_iff in H as [Hx Hr]. apply okc_spec in Hx as (_ & Hx & _ & _).
  cbn [join_sl]. destruct r as [|y r'].
  - now apply split_sl_nosl.
  - rewrite split_sl_app, (split_sl_nosl x Hx), IH by (assumption || discriminate). reflexivity.
Qed.

Lemma split_render : forall k cs, cs <> [] -> forallb okc cs = true ->
  split_sl (render k cs) = repeat [] k ++ cs.
Proof.
  induction k as [|k IH]; intros cs Hn H; unfold render in *; cbn [repeat app].
  - now apply split_join_sl.
  - rewrite split_sl_cons_sl. now rewrite IH.
Qed.

Lemma removelast_app_one : forall {A} (l : list A) x, removelast (l ++ [x]) = l.
Proof. intros. apply removelast_last. Qed.

Lemma join_sl_repeat_nil : forall k cs, cs <> [] -> join_sl (repeat [] k ++ cs) = repeat SL k ++ join_sl cs.
Proof.
  induction k as [|k IH]; intros cs Hn; [reflexivity|].
  cbn [repeat app]. cbn [join_sl]. destruct (repeat [] k ++ cs) eqn:E.
  - destruct k; cbn in E; [now subst | discriminate].
  - rewrite <- E. rewrite IH by assumption. reflexivity.
Qed.

Lemma join_sl_repeat_nil_only : forall k, join_sl (repeat [] (S k)) = repeat SL k.
Proof.
  induction k as [|k IH]; [reflexivity|]. cbn [repeat] in *. cbn [join_sl] in *.
  destruct (repeat [] k) eqn:E; cbn in *; rewrite IH; reflexivity.
Qed.

Lemma all_sl_repeat : forall k, all_sl (repeat SL k) = true.
Proof. unfold all_sl. induction k; [reflexivity|]. cbn. now rewrite IHk. Qed.

Lemma all_sl_render_false : forall k cs t, cs <> [] -> forallb okc cs = true -> all_sl (render k cs ++ t) = false.
Proof.
  intros k cs t Hn H. unfold render, all_sl. rewrite <- app_assoc, forallb_app. apply andb_false_iff. right.
  destruct cs as [|c cs']; [contradiction|]. cbn in H. apply andb_true_iff in H as [Hc _].
  apply okc_spec in Hc as (H1 & H2 & _). destruct c as [|x c']; [contradiction|].
  cbn in H2. apply orb_false_iff in H2 as [Hx _].
  cbn [join_sl]. destruct cs'; cbn; now rewrite Hx.
Qed.

Lemma render_not_endswith_sl : forall k cs, cs <> [] -> forallb okc cs = true -> endswith_sl (render k cs) = false.
Proof.
  intros k cs Hn H. destruct (exists_last Hn) as (l & z & ->).
  rewrite forallb_app in H. apply andb_true_iff in H as [_ Hz]. cbn in Hz. rewrite andb_true_r in Hz.
  unfold render. destruct l as [|w l'].
  - cbn [app join_sl]. now apply endswith_sl_app_ok.
  - rewrite join_sl_snoc by discriminate. rewrite app_assoc.
    change (SL :: z) with ([SL] ++ z). rewrite app_assoc. now apply endswith_sl_app_ok.
Qed.

Lemma render_nonnil : forall k cs, (k = 1 \/ k = 2) -> render k cs <> [].
Proof. intros k cs [-> | ->]; discriminate. Qed.

(** the directory and the name of a direct child of a normal absolute path *)
Lemma dirname_child : forall k cs c, (k = 1 \/ k = 2) -> forallb okc cs = true -> okc c = true ->
  dirname (render k (cs ++ [c])) = render k cs.
Proof.
  intros k cs c Hk Hcs Hc.
  assert (Hall : forallb okc (cs ++ [c]) = true) by (rewrite forallb_app, Hcs; cbn; now rewrite Hc).
  unfold dirname. rewrite split_render by (assumption || (destruct cs; discriminate)).
  rewrite app_assoc, removelast_last. cbn zeta.
  destruct cs as [|x cs'].
  - rewrite app_nil_r. destruct Hk as [-> | ->]; reflexivity.
  - assert (Hn : x :: cs' <> []) by discriminate.
    match goal with |- context [no_comps ?l] =>
      assert (Nc : no_comps l = false) by (destruct k; reflexivity); rewrite Nc end.
    rewrite join_sl_repeat_nil by assumption. fold (render k (x :: cs')).
    rewrite all_sl_render_false by assumption.
    rewrite rstrip_sl_snoc. apply rstrip_sl_id; [now apply render_nonnil | now apply render_not_endswith_sl].
Qed.

Lemma basename_child : forall k cs c, forallb okc cs = true -> okc c = true ->
  basename (render k (cs ++ [c])) = c.
Proof.
  intros k cs c Hcs Hc.
  assert (Hall : forallb okc (cs ++ [c]) = true) by (rewrite forallb_app, Hcs; cbn; now rewrite Hc).
  unfold basename. rewrite split_render by (assumption || (destruct cs; discriminate)).
  rewrite app_assoc. apply last_last.
Qed.
