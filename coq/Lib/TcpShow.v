(** Support for the C15 trace-validation run: the position-determined byte pattern the harness writes, and the
    Adler-32 checksum (zlib.adler32) used to print long byte strings compactly.  Not used by any theorem.
    Written without division in the per-byte loops (vm_compute speed). *)
From Coq Require Import List NArith.
Import ListNotations.
Local Open Scope N_scope.

(** byte i of the stream with this salt: (i mod 251 + (i / 251) mod 241 + salt) mod 256 *)
Definition byte_of (salt a b : N) : N := N.land (a + b + salt) 255.

(** a = i mod 251, b = (i / 251) mod 241, carried along instead of recomputed *)
Fixpoint pat_from (salt : N) (n : nat) (a b : N) : list N :=
  match n with
  | O => []
  | S n' =>
      byte_of salt a b ::
        (if a =? 250 then pat_from salt n' 0 (if b =? 240 then 0 else b + 1)
         else pat_from salt n' (a + 1) b)
  end.

(** bytes off .. off+len-1 of the stream of the side with this salt *)
Definition pat (salt off len : N) : list N :=
  pat_from salt (N.to_nat len) (off mod 251) ((off / 251) mod 241).

Definition wrap (m x : N) : N := if m <=? x then x - m else x.
Definition adler_step (ab : N * N) (x : N) : N * N :=
  let a := wrap 65521 (fst ab + N.land x 255) in (a, wrap 65521 (snd ab + a)).
Definition adler32 (d : list N) : N :=
  let ab := fold_left adler_step d (1, 0) in snd ab * 65536 + fst ab.
