(** DeferredKR: the Deferred kernel WITH RE-ENTRANT CALLBACKS.  Same transcription of defer.py as DeferredK (which
    stays the model of script-free programs and carries the C01/C02/C03 theorems), extended by
      - callback behaviours that are *scripts*: a list of kernel operations executed inside the callback
        (addCallbacks on any Deferred including the one that is running, callback / errback / pause / unpause /
        cancel of any Deferred), followed by an ordinary behaviour (return / raise / pass);
      - the re-entrancy guard [_runningCallbacks]: set on [current] around the callback call; [_runCallbacks] returns
        at once on a Deferred whose guard is set (so an add to the running Deferred only appends); every other nested
        [_runCallbacks] (a fired Deferred getting a callback, a Deferred being fired or unpaused from inside a
        callback) is a complete nested walk with a fresh chain list.  The walk itself does not test the guard of a
        Deferred it reaches through a _CONTINUE entry (as in the code);
      - exceptions leaving a script operation (AlreadyCalledError, a canceller's exception, RecursionError of a
        cyclic cancel) abort the script and become the callback's failure result.
    The machine is fuelled: [walk fuel] runs nested walks with [walk (fuel-1)]; [None] = out of fuel.
    The repaired loop only (fix of F1). *)
From Coq Require Import List Arith ZArith Bool.
From TwLib Require Import DeferredK.
Import ListNotations.

Definition already_error : Z := (-2)%Z.
Definition recursion_error : Z := (-3)%Z.

Inductive sop :=
| SAdd (d : nat) (cb eb : option beh)
| SCallback (d : nat) (z : Z)
| SErrback (d : nat) (e : Z)
| SPause (d : nat)
| SUnpause (d : nat)
| SCancel (d : nat).

(** [RB script b]: run the script, then behave as [b].
    [RChain d]: the pair [chainDeferred(d)] adds — [d.callback] / [d.errback] called with the argument; returns None *)
Inductive rbeh := RB (script : list sop) (b : beh) | RChain (d : nat).

Inductive rentry := RPair (k : nat) (cb eb : option rbeh) | RCont (c : nat).

Record rdfr := mkR {
  rcbs : list rentry;
  rres : option value;
  rcalled : bool;
  rpaused : Z;
  rsuppress : bool;
  rcanc : canceller;
  rrunning : bool }.          (* _runningCallbacks *)

Definition new_rdfr (c : canceller) : rdfr := mkR [] None false 0%Z false c false.

Definition rset_cbs l D := mkR l (rres D) (rcalled D) (rpaused D) (rsuppress D) (rcanc D) (rrunning D).
Definition rset_res r D := mkR (rcbs D) r (rcalled D) (rpaused D) (rsuppress D) (rcanc D) (rrunning D).
Definition rset_called b D := mkR (rcbs D) (rres D) b (rpaused D) (rsuppress D) (rcanc D) (rrunning D).
Definition rset_paused p D := mkR (rcbs D) (rres D) (rcalled D) p (rsuppress D) (rcanc D) (rrunning D).
Definition rset_suppress b D := mkR (rcbs D) (rres D) (rcalled D) (rpaused D) b (rcanc D) (rrunning D).
Definition rset_running b D := mkR (rcbs D) (rres D) (rcalled D) (rpaused D) (rsuppress D) (rcanc D) b.

Definition rheap := list rdfr.
Definition rget (h : rheap) (i : nat) : option rdfr := nth_error h i.
Fixpoint rupd (h : rheap) (i : nat) (f : rdfr -> rdfr) : rheap :=
  match h, i with
  | [], _ => []
  | D :: r, O => f D :: r
  | D :: r, S j => D :: rupd r j f
  end.

(** heap and the counter that numbers add-operations (top-level and inside scripts, in execution order) *)
Record rst := mkRS { rheap_of : rheap; rnext : nat }.
Definition with_heap (s : rst) (h : rheap) : rst := mkRS h (rnext s).

Definition rwaiting (X : rdfr) : bool :=
  match rres X with None => true | Some (VDef _) => true | Some _ => false end
  || negb (Z.eqb (rpaused X) 0).
Definition rcur_result (D : rdfr) : value := match rres D with Some v => v | None => VNone end.

(** outcome of an operation: new state, events, exception raised to the caller *)
Definition outcome := (rst * list ev * option Z)%type.

Section WithNestedWalks.
  (** a complete walk [_runCallbacks] with a fresh chain list, with less fuel *)
  Variable walk_rec : rst -> list nat -> option (rst * list ev).

  (** [d._runCallbacks()] *)
  Definition run_cbs (s : rst) (d : nat) : option (rst * list ev) :=
    match rget (rheap_of s) d with
    | None => Some (s, [])
    | Some D => if rrunning D then Some (s, []) else walk_rec s [d]
    end.

  Inductive fired := FAccepted | FSwallowed | FAlready.

  (** [d._startRunCallbacks(v)] *)
  Definition fire_r (s : rst) (d : nat) (v : value) (by_ : src) : option (rst * list ev * fired) :=
    match rget (rheap_of s) d with
    | None => Some (s, [], FAccepted)
    | Some D =>
        if rcalled D
        then if rsuppress D
             then Some (with_heap s (rupd (rheap_of s) d (rset_suppress false)), [], FSwallowed)
             else Some (s, [], FAlready)
        else
          let s1 := with_heap s (rupd (rheap_of s) d (fun D => rset_res (Some v) (rset_called true D))) in
          match run_cbs s1 d with
          | None => None
          | Some (s2, l) => Some (s2, EFired d v by_ :: l, FAccepted)
          end
    end.

  Definition fire_exc (f : fired) : option Z := match f with FAlready => Some already_error | _ => None end.

  (** [d.cancel()] *)
  Fixpoint cancel_r (fuel : nat) (s : rst) (d : nat) : option outcome :=
    match fuel with
    | O => Some (s, [], Some recursion_error)
    | S f =>
        match rget (rheap_of s) d with
        | None => Some (s, [], None)
        | Some D =>
            if rcalled D
            then match rres D with Some (VDef r) => cancel_r f s r | _ => Some (s, [], None) end
            else
              let go (s0 : rst) (pre : list ev) (v : value) (by_ : src) :=
                match fire_r s0 d v by_ with
                | None => None
                | Some (s2, l, fk) => Some (s2, pre ++ l, fire_exc fk)
                end in
              match rcanc D with
              | CNone => go (with_heap s (rupd (rheap_of s) d (rset_suppress true))) [ECancelNone d]
                            (VFail cancelled_error) ByCancel
              | CNothing => go s [ECanceller d] (VFail cancelled_error) ByCancel
              | CCallback z => go s [ECanceller d] (VInt z) ByCanceller
              | CErrback e => go s [ECanceller d] (VFail e) ByCanceller
              | CRaise e => Some (s, [ECanceller d], Some e)
              end
        end
    end.

  Definition add_r (s : rst) (d : nat) (cb eb : option rbeh) : option (rst * list ev) :=
    match rget (rheap_of s) d with
    | None => Some (s, [])
    | Some D =>
        let s1 := mkRS (rupd (rheap_of s) d (fun D => rset_cbs (rcbs D ++ [RPair (rnext s) cb eb]) D)) (S (rnext s)) in
        if rcalled D then run_cbs s1 d else Some (s1, [])
    end.

  Definition unpause_r (s : rst) (d : nat) : option (rst * list ev) :=
    match rget (rheap_of s) d with
    | None => Some (s, [])
    | Some D =>
        let s1 := with_heap s (rupd (rheap_of s) d (fun D => rset_paused (rpaused D - 1)%Z D)) in
        if Z.eqb (rpaused D - 1) 0 && rcalled D then run_cbs s1 d else Some (s1, [])
    end.

  Definition lift (r : option (rst * list ev)) : option outcome :=
    match r with None => None | Some (s, l) => Some (s, l, None) end.

  Definition wrap (b : option beh) : option rbeh := match b with Some x => Some (RB [] x) | None => None end.

  (** one kernel operation executed from inside a callback *)
  Definition exec_sop (s : rst) (o : sop) : option outcome :=
    match o with
    | SAdd d cb eb => lift (add_r s d (wrap cb) (wrap eb))
    | SCallback d z =>
        match fire_r s d (VInt z) ByUser with None => None | Some (s', l, fk) => Some (s', l, fire_exc fk) end
    | SErrback d e =>
        match fire_r s d (VFail e) ByUser with None => None | Some (s', l, fk) => Some (s', l, fire_exc fk) end
    | SPause d => Some (with_heap s (rupd (rheap_of s) d (fun D => rset_paused (rpaused D + 1)%Z D)), [], None)
    | SUnpause d => lift (unpause_r s d)
    | SCancel d => cancel_r (S (length (rheap_of s))) s d
    end.

  (** the script: operations in order; an exception aborts it *)
  Fixpoint exec_script (s : rst) (ops : list sop) : option outcome :=
    match ops with
    | [] => Some (s, [], None)
    | o :: r =>
        match exec_sop s o with
        | None => None
        | Some (s1, l1, Some e) => Some (s1, l1, Some e)
        | Some (s1, l1, None) =>
            match exec_script s1 r with
            | None => None
            | Some (s2, l2, x) => Some (s2, l1 ++ l2, x)
            end
        end
    end.

  (** what the walk does next with its chain list *)
  Inductive nxt :=
  | NPop               (* [chain.pop()]: current is paused, finished, or has started waiting *)
  | NStay              (* go on with the inner [while current.callbacks:] loop *)
  | NPush (c : nat).   (* [chain.append(chainee)] *)

  (** one pass through the loop body for the Deferred [cur] on top of the chain list.
      [chk]: we are at the top of the outer loop ([if current.paused: ...] is tested); [false]: we are continuing the
      inner [while current.callbacks:] loop, which does NOT look at [paused] again — a pause()/unpause() of the running
      Deferred from inside its own callback takes effect only when the walk next comes back to it.
      [None] = a nested walk ran out of fuel. *)
  Definition step_r (chk : bool) (s : rst) (cur : nat) : option (rst * nxt * list ev) :=
    let h := rheap_of s in
    match rget h cur with
    | None => Some (s, NPop, [])
    | Some D =>
      if chk && negb (Z.eqb (rpaused D) 0) then Some (s, NPop, [])
      else
        match rcbs D with
        | [] => Some (s, NPop, [])
        | item :: more =>
          let h0 := rupd h cur (rset_cbs more) in
          let r := rcur_result D in
          match item with
          | RCont c =>
              let h1 := rupd h0 c (rset_res (Some r)) in
              let h2 := rupd h1 cur (rset_res (Some VNone)) in
              let h3 := rupd h2 c (fun C => rset_paused (rpaused C - 1)%Z C) in
              Some (with_heap s h3, NPush c, [])
          | RPair k cb eb =>
              let side := if is_fail r then eb else cb in
              (* the callback call: guard set, script, guard cleared, return value / exception *)
              let called_ :=
                match side with
                | None => Some (with_heap s h0, [], r)
                | Some (RB script b) =>
                    let sg := with_heap s (rupd h0 cur (rset_running true)) in
                    match exec_script sg script with
                    | None => None
                    | Some (s1, l, x) =>
                        let s2 := with_heap s1 (rupd (rheap_of s1) cur (rset_running false)) in
                        Some (s2, ERun cur k r :: l, match x with Some e => VFail e | None => apply_beh b r end)
                    end
                | Some (RChain d2) =>
                    (* d2.callback(r) / d2.errback(r); not one of the instrumented user callbacks: no ERun *)
                    let sg := with_heap s (rupd h0 cur (rset_running true)) in
                    match fire_r sg d2 r ByUser with
                    | None => None
                    | Some (s1, l, fk) =>
                        let s2 := with_heap s1 (rupd (rheap_of s1) cur (rset_running false)) in
                        Some (s2, l, match fire_exc fk with Some e => VFail e | None => VNone end)
                    end
                end in
              match called_ with
              | None => None
              | Some (s2, evs, r') =>
                  let h1 := rupd (rheap_of s2) cur (rset_res (Some r')) in
                  match r' with
                  | VDef x =>
                      match rget h1 x with
                      | None => Some (with_heap s2 h1, NStay, evs)
                      | Some X =>
                          if rwaiting X
                          then
                            let h2 := rupd h1 cur (fun D => rset_paused (rpaused D + 1)%Z D) in
                            let h3 := rupd h2 x (fun X => rset_cbs (rcbs X ++ [RCont cur]) X) in
                            Some (with_heap s2 h3, NPop, evs)
                          else
                            let h2 := rupd h1 x (rset_res (Some VNone)) in
                            let h3 := rupd h2 cur (rset_res (rres X)) in
                            Some (with_heap s2 h3, NStay, evs)
                      end
                  | _ => Some (with_heap s2 h1, NStay, evs)
                  end
              end
          end
        end
    end.
End WithNestedWalks.

(** the iterative loop: an explicit chain list, top first *)
Fixpoint walk_from (fuel : nat) (chk : bool) (s : rst) (chain : list nat) {struct fuel} : option (rst * list ev) :=
  match fuel with
  | O => None
  | S f =>
      match chain with
      | [] => Some (s, [])
      | cur :: rest =>
          match step_r (walk_from f true) chk s cur with
          | None => None
          | Some (s', n, evs) =>
              match (match n with
                     | NPop => walk_from f true s' rest
                     | NStay => walk_from f false s' (cur :: rest)
                     | NPush c => walk_from f true s' (c :: cur :: rest)
                     end) with
              | None => None
              | Some (s'', l) => Some (s'', evs ++ l)
              end
          end
      end
  end.

(** [_runCallbacks] from its first line (after the guard test) *)
Definition walk (fuel : nat) : rst -> list nat -> option (rst * list ev) := walk_from fuel true.

(** ---- top-level operations ---- *)
Inductive rop :=
| ROAdd (d : nat) (cb eb : option rbeh)
| ROCallback (d : nat) (z : Z)
| ROErrback (d : nat) (e : Z)
| ROPause (d : nat)
| ROUnpause (d : nat)
| ROCancel (d : nat).

(** a top-level operation, given the function that performs a complete nested walk *)
Definition exec_w (w : rst -> list nat -> option (rst * list ev)) (s : rst) (o : rop) : option (rst * list ev) :=
  let fire_top d v :=
    match fire_r w s d v ByUser with
    | None => None
    | Some (s', l, FAccepted) => Some (s', l)
    | Some (s', l, FSwallowed) => Some (s', l ++ [ESwallow d])
    | Some (s', l, FAlready) => Some (s', l ++ [EAlready d])
    end in
  match o with
  | ROAdd d cb eb => add_r w s d cb eb
  | ROCallback d z => fire_top d (VInt z)
  | ROErrback d e => fire_top d (VFail e)
  | ROPause d => Some (with_heap s (rupd (rheap_of s) d (fun D => rset_paused (rpaused D + 1)%Z D)), [])
  | ROUnpause d => unpause_r w s d
  | ROCancel d =>
      match cancel_r w (S (length (rheap_of s))) s d with
      | None => None
      | Some (s', l, None) => Some (s', l)
      | Some (s', l, Some e) =>
          Some (s', l ++ [if Z.eqb e recursion_error then ERecursion d else ECancRaise d e])
      end
  end.

Fixpoint run_w (w : rst -> list nat -> option (rst * list ev)) (s : rst) (ops : list rop)
  : option (rst * list (list ev)) :=
  match ops with
  | [] => Some (s, [])
  | o :: r =>
      match exec_w w s o with
      | None => None
      | Some (s1, l) => match run_w w s1 r with None => None | Some (s2, ls) => Some (s2, l :: ls) end
      end
  end.

(** the model of the code: nested walks are the iterative loop *)
Definition exec_r (fuel : nat) : rst -> rop -> option (rst * list ev) := exec_w (walk fuel).
Definition run_r (fuel : nat) : rst -> list rop -> option (rst * list (list ev)) := run_w (walk fuel).

Definition rinit (cs : list canceller) : rst := mkRS (map new_rdfr cs) 0.
Definition rprogram := (list canceller * list rop)%type.
Definition run_rprogram (fuel : nat) (p : rprogram) : option (rst * list (list ev)) :=
  run_r fuel (rinit (fst p)) (snd p).
