(** DeferredKFacts: basic lemmas about the DeferredK machine, shared by C01/C02/C03.
    - heap access ([get]/[upd]);
    - frame: the callback loop never changes [called], [suppress], [canc] of any Deferred, keeps the heap
      size, and emits only [ERun] events;
    - termination: every [step] strictly decreases [measure], so [iter] started with [measure] fuel (this is
      what [runCallbacks] does) never runs out of fuel; fuel monotonicity. *)
From Coq Require Import List Arith ZArith Bool Lia.
From TwLib Require Import DeferredK.
Import ListNotations.

(** ---- heap access ---- *)
Lemma upd_length h i f : length (upd h i f) = length h.
Proof. revert i; induction h as [|D r IH]; intros [|j]; cbn; auto. Qed.

Lemma get_upd_same h i f : get (upd h i f) i = option_map f (get h i).
Proof. revert i; induction h as [|D r IH]; intros [|j]; cbn; auto. Qed.

Lemma get_upd_other h i j f : i <> j -> get (upd h i f) j = get h j.
Proof.
  revert i j; induction h as [|D r IH]; intros [|i] [|j] Hne; cbn; auto; try congruence.
Qed.

Lemma get_upd h i j f : get (upd h i f) j = if Nat.eqb i j then option_map f (get h j) else get h j.
Proof.
  destruct (Nat.eqb_spec i j) as [->|Hne]; [apply get_upd_same | apply get_upd_other, Hne].
Qed.

Lemma upd_none h i f : get h i = None -> upd h i f = h.
Proof. revert i; induction h as [|D r IH]; intros [|j]; cbn; auto; try discriminate. intros H. f_equal. apply IH, H. Qed.

Lemma get_some_lt h i D : get h i = Some D -> i < length h.
Proof. intros H. apply nth_error_Some. unfold get in H. congruence. Qed.

Lemma get_lt_some h i : i < length h -> exists D, get h i = Some D.
Proof. intros H. destruct (get h i) eqn:E; eauto. apply nth_error_None in E. lia. Qed.

(** ---- the static part of a Deferred: what the callback loop never touches ---- *)
Definition static (D : dfr) : bool * bool * canceller := (called D, suppress D, canc D).

(** [h'] has the same Deferreds as [h] with the same static parts *)
Definition sframe (h h' : heap) : Prop := forall j, option_map static (get h' j) = option_map static (get h j).

Lemma sframe_refl h : sframe h h.
Proof. intros j. reflexivity. Qed.

Lemma sframe_trans h1 h2 h3 : sframe h1 h2 -> sframe h2 h3 -> sframe h1 h3.
Proof. intros A B j. rewrite B. apply A. Qed.

Lemma sframe_upd h i f : (forall D, static (f D) = static D) -> sframe h (upd h i f).
Proof.
  intros Hf j. rewrite get_upd. destruct (Nat.eqb i j); [|reflexivity].
  destruct (get h j); cbn; [rewrite Hf|]; reflexivity.
Qed.

Lemma sframe_length h h' : sframe h h' -> length h' = length h.
Proof.
  intros F.
  destruct (Nat.lt_trichotomy (length h') (length h)) as [L|[E|L]]; [|exact E|]; exfalso.
  - specialize (F (length h')). destruct (get_lt_some h _ L) as [D HD]. rewrite HD in F.
    assert (N : get h' (length h') = None) by (apply nth_error_None; lia). rewrite N in F. discriminate.
  - specialize (F (length h)). destruct (get_lt_some h' _ L) as [D HD]. rewrite HD in F.
    assert (N : get h (length h) = None) by (apply nth_error_None; lia). rewrite N in F. discriminate.
Qed.

Lemma sframe_get h h' j D : sframe h h' -> get h j = Some D ->
  exists D', get h' j = Some D' /\ static D' = static D.
Proof.
  intros F H. specialize (F j). rewrite H in F. destruct (get h' j) as [D'|]; [|discriminate].
  exists D'. split; [reflexivity|]. cbn in F. congruence.
Qed.

Lemma sframe_get_inv h h' j D' : sframe h h' -> get h' j = Some D' ->
  exists D, get h j = Some D /\ static D' = static D.
Proof.
  intros F H. specialize (F j). rewrite H in F. destruct (get h j) as [D|]; [|discriminate].
  exists D. split; [reflexivity|]. cbn in F. congruence.
Qed.

Definition is_run (e : ev) : Prop := match e with ERun _ _ _ => True | _ => False end.
Definition only_runs (l : list ev) : Prop := Forall is_run l.

Ltac sfr := repeat (first [ apply sframe_refl
                          | eapply sframe_trans; [|apply sframe_upd; intros ?; reflexivity] ]).

Lemma step_frame fx h ch h' ch' evs :
  step fx h ch = Some (h', ch', evs) -> sframe h h' /\ only_runs evs.
Proof.
  unfold step. destruct ch as [|cur rest]; [discriminate|].
  destruct (get h cur) as [D|] eqn:HD.
  2:{ intros E; inversion E; subst. split; [apply sframe_refl|constructor]. }
  destruct (negb (paused D =? 0)%Z).
  { intros E; inversion E; subst. split; [apply sframe_refl|constructor]. }
  destruct (cbs D) as [|item more].
  { intros E; inversion E; subst. split; [sfr|constructor]. }
  destruct item as [k cb eb|c].
  - set (side := if is_fail (cur_result D) then eb else cb).
    set (r' := match side with Some b => apply_beh b (cur_result D) | None => cur_result D end).
    assert (Hev : only_runs (match side with Some _ => [ERun cur k (cur_result D)] | None => [] end)).
    { destruct side; repeat constructor. }
    destruct r' as [| z | e | x] eqn:Er'; try (intros E; inversion E; subst; split; [sfr|exact Hev]).
    match goal with |- context [get ?hh x] => destruct (get hh x) as [X|] end.
    2:{ intros E; inversion E; subst; split; [sfr|exact Hev]. }
    destruct (waiting X); intros E; inversion E; subst; (split; [sfr|exact Hev]).
  - intros E; inversion E; subst. split; [sfr|constructor].
Qed.

Lemma only_runs_app l1 l2 : only_runs l1 -> only_runs l2 -> only_runs (l1 ++ l2).
Proof. apply Forall_app_intro || (intros; apply Forall_app; auto). Qed.

Lemma iter_frame fx fuel : forall h ch h' l,
  iter fx fuel h ch = Some (h', l) -> sframe h h' /\ only_runs l.
Proof.
  induction fuel as [|f IH]; intros h ch h' l; cbn [iter].
  - destruct (step fx h ch) as [[[h1 ch1] evs]|] eqn:S; [discriminate|].
    intros E; inversion E; subst. split; [apply sframe_refl|constructor].
  - destruct (step fx h ch) as [[[h1 ch1] evs]|] eqn:S.
    + destruct (iter fx f h1 ch1) as [[h2 l2]|] eqn:I; [|discriminate].
      intros E; inversion E; subst.
      destruct (step_frame _ _ _ _ _ _ S) as [F1 R1]. destruct (IH _ _ _ _ I) as [F2 R2].
      split; [eapply sframe_trans; eauto | apply only_runs_app; auto].
    + intros E; inversion E; subst. split; [apply sframe_refl|constructor].
Qed.

Lemma runCallbacks_frame fx h d h' l :
  runCallbacks fx h d = (h', l) -> sframe h h' /\ only_runs l.
Proof.
  unfold runCallbacks. destruct (iter fx (measure h [d]) h [d]) as [[h2 l2]|] eqn:I.
  - intros E; inversion E; subst. eapply iter_frame; eauto.
  - intros E; inversion E; subst. split; [apply sframe_refl|constructor].
Qed.

(** ---- termination ---- *)
Lemma total_cbs_upd_same h i f : (forall D, cbs (f D) = cbs D) -> total_cbs (upd h i f) = total_cbs h.
Proof.
  intros Hf. revert i; induction h as [|D r IH]; intros [|j]; cbn; auto.
  all: try (rewrite Hf; reflexivity).
Qed.

Lemma total_cbs_pop h i D item more g :
  get h i = Some D -> cbs D = item :: more -> (forall D, cbs (g D) = cbs D) ->
  S (total_cbs (upd h i (fun D => set_cbs more (g D)))) = total_cbs h.
Proof.
  revert i; induction h as [|D0 r IH]; intros [|j] HD Hc Hg; cbn in *; try discriminate.
  - inversion HD; subst. rewrite Hc. cbn. reflexivity.
  - specialize (IH j HD Hc Hg). unfold total_cbs in IH. lia.
Qed.

Lemma total_cbs_push h i e :
  total_cbs (upd h i (fun X => set_cbs (cbs X ++ [e]) X)) <= S (total_cbs h).
Proof.
  revert i; induction h as [|D0 r IH]; intros [|j]; cbn; try lia.
  - rewrite app_length. cbn. lia.
  - specialize (IH j). unfold total_cbs in IH. lia.
Qed.

Ltac tcs := repeat (rewrite total_cbs_upd_same by (intros ?; reflexivity)).

Lemma step_measure fx h ch h' ch' evs :
  step fx h ch = Some (h', ch', evs) -> measure h' ch' < measure h ch.
Proof.
  unfold step, measure. destruct ch as [|cur rest]; [discriminate|].
  destruct (get h cur) as [D|] eqn:HD.
  2:{ intros E; inversion E; subst. cbn. lia. }
  destruct (negb (paused D =? 0)%Z).
  { intros E; inversion E; subst. destruct fx; cbn; lia. }
  destruct (cbs D) as [|item more] eqn:HC.
  { intros E; inversion E; subst. tcs. cbn. lia. }
  pose proof (total_cbs_pop h cur D item more (set_chained None) HD HC (fun _ => eq_refl)) as Hpop.
  destruct item as [k cb eb|c].
  - set (side := if is_fail (cur_result D) then eb else cb).
    set (r' := match side with Some b => apply_beh b (cur_result D) | None => cur_result D end).
    destruct r' as [| z | e | x] eqn:Er'; try (intros E; inversion E; subst; tcs; cbn [length]; lia).
    match goal with |- context [get ?hh x] => destruct (get hh x) as [X|] end.
    2:{ intros E; inversion E; subst; tcs; cbn [length]; lia. }
    destruct (waiting X); intros E; inversion E; subst.
    + match goal with |- context [upd ?hh x (fun X0 => set_cbs (cbs X0 ++ [?e0]) X0)] =>
        pose proof (total_cbs_push hh x e0) as Hpush;
        remember (total_cbs (upd hh x (fun X0 => set_cbs (cbs X0 ++ [e0]) X0))) as T eqn:ET; clear ET;
        revert Hpush end.
      tcs. cbn [length]. lia.
    + tcs. cbn [length]. lia.
  - intros E; inversion E; subst. tcs. cbn [length]. lia.
Qed.

Lemma iter_terminates fx fuel : forall h ch, measure h ch <= fuel -> iter fx fuel h ch <> None.
Proof.
  induction fuel as [|f IH]; intros h ch Hm; cbn [iter].
  - destruct (step fx h ch) as [[[h1 ch1] evs]|] eqn:S; [|discriminate].
    apply step_measure in S. lia.
  - destruct (step fx h ch) as [[[h1 ch1] evs]|] eqn:S; [|discriminate].
    pose proof (step_measure _ _ _ _ _ _ S) as Hlt.
    destruct (iter fx f h1 ch1) as [[h2 l2]|] eqn:I; [discriminate|].
    exfalso. apply (IH h1 ch1); [lia|exact I].
Qed.

Lemma iter_mono fx f : forall h ch r f', iter fx f h ch = Some r -> f <= f' -> iter fx f' h ch = Some r.
Proof.
  induction f as [|f IH]; intros h ch r f' H Hle.
  - cbn [iter] in H. destruct (step fx h ch) as [[[h1 ch1] evs]|] eqn:S; [discriminate|].
    destruct f'; cbn [iter]; rewrite S; exact H.
  - destruct f' as [|f']; [lia|]. cbn [iter] in *.
    destruct (step fx h ch) as [[[h1 ch1] evs]|] eqn:S; [|exact H].
    destruct (iter fx f h1 ch1) as [[h2 l2]|] eqn:I; [|discriminate].
    rewrite (IH _ _ _ f' I) by lia. exact H.
Qed.

(** [runCallbacks] is the loop run to completion: it agrees with [iter] at every sufficient fuel *)
Lemma runCallbacks_iter fx h d :
  iter fx (measure h [d]) h [d] = Some (runCallbacks fx h d).
Proof.
  unfold runCallbacks. destruct (iter fx (measure h [d]) h [d]) eqn:I; [reflexivity|].
  exfalso. eapply iter_terminates; [|exact I]. lia.
Qed.

Lemma runCallbacks_any_fuel fx h d f r : iter fx f h [d] = Some r -> runCallbacks fx h d = r.
Proof.
  intros H. pose proof (runCallbacks_iter fx h d) as R.
  destruct (Nat.le_ge_cases f (measure h [d])) as [L|L].
  - rewrite (iter_mono _ _ _ _ _ _ H L) in R. congruence.
  - rewrite (iter_mono _ _ _ _ _ _ R L) in H. congruence.
Qed.
