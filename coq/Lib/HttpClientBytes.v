(** http-client cluster: byte-string utilities shared by C24 / C27 / C23.
    Bytes are [N]; a byte string is [list N].  Everything here is proved, nothing assumed.

    - [split_crlf]  : cut at the first CR LF            (+ law on [l ++ CRLF ++ rest] when l has no CR)
    - [split_at x]  : cut at the first occurrence of x  (+ law)
    - [take_n]      : cut after n bytes                 (+ law)
    - [show_dec]/[read_dec], [show_hex]/[read_hex] : the "%d" / "%x" renderings of a natural number
      and the 1*DIGIT / 1*HEXDIG readers, with the round-trip laws (through the stdlib's
      [N.to_uint]/[N.of_uint] and [N.to_hex_uint]/[N.of_hex_uint]).  *)
From Coq Require Import List Arith NArith Bool Lia.
From Coq Require Decimal Hexadecimal DecimalN HexadecimalN DecimalPos HexadecimalPos.
Import ListNotations.
Local Open Scope N_scope.

Definition bytes := list N.
Definition lenN (l : bytes) : N := N.of_nat (length l).

Definition CR : N := 13.
Definition LF : N := 10.
Definition SP : N := 32.
Definition HT : N := 9.
Definition CRLF : bytes := [13; 10].

Fixpoint eqb_bytes (a b : bytes) : bool :=
  match a, b with
  | [], [] => true
  | x :: a', y :: b' => (x =? y) && eqb_bytes a' b'
  | _, _ => false
  end.

Lemma eqb_bytes_spec : forall a b, eqb_bytes a b = true <-> a = b.
Proof.
  induction a as [|x a IH]; destruct b as [|y b]; cbn [eqb_bytes]; split; intro H; try easy.
  - apply andb_true_iff in H. destruct H as [H1 H2]. apply N.eqb_eq in H1. apply IH in H2. now subst.
  - inversion H; subst. rewrite N.eqb_refl. cbn. now apply IH.
Qed.

Lemma eqb_bytes_refl : forall a, eqb_bytes a a = true.
Proof. intro a. now apply eqb_bytes_spec. Qed.

Definition memb (c : N) (l : bytes) : bool := existsb (N.eqb c) l.

Lemma memb_In : forall c l, memb c l = true <-> In c l.
Proof.
  intros c l. unfold memb. rewrite existsb_exists. split.
  - intros [x [Hin Hx]]. apply N.eqb_eq in Hx. now subst.
  - intro H. exists c. split; [assumption | apply N.eqb_refl].
Qed.

Lemma memb_false_not_In : forall c l, memb c l = false -> ~ In c l.
Proof. intros c l H Hin. apply memb_In in Hin. congruence. Qed.

(** ASCII lower-casing (for case-insensitive header names) *)
Definition lower1 (c : N) : N := if (65 <=? c) && (c <=? 90) then c + 32 else c.
Definition lower (l : bytes) : bytes := map lower1 l.

(** ---- cutting ---- *)
Fixpoint split_crlf (l : bytes) : option (bytes * bytes) :=
  match l with
  | [] => None
  | c :: r =>
      match r with
      | [] => None
      | d :: r' =>
          if (c =? 13) && (d =? 10) then Some ([], r')
          else match split_crlf r with
               | Some (a, b) => Some (c :: a, b)
               | None => None
               end
      end
  end.

Lemma split_crlf_app : forall l rest,
  ~ In 13 l -> split_crlf (l ++ 13 :: 10 :: rest) = Some (l, rest).
Proof.
  induction l as [|c l IH]; intros rest Hno.
  - reflexivity.
  - assert (Hc : c <> 13) by (intro E; apply Hno; left; now subst).
    assert (Hl : ~ In 13 l) by (intro E; apply Hno; now right).
    specialize (IH rest Hl).
    change ((c :: l) ++ 13 :: 10 :: rest) with (c :: (l ++ 13 :: 10 :: rest)).
    destruct (l ++ 13 :: 10 :: rest) as [|d r'] eqn:E.
    + destruct l; discriminate E.
    + cbn [split_crlf]. apply N.eqb_neq in Hc. rewrite Hc. cbn [andb].
      cbn [split_crlf] in IH. rewrite IH. reflexivity.
Qed.

Fixpoint split_at (x : N) (l : bytes) : option (bytes * bytes) :=
  match l with
  | [] => None
  | c :: r => if c =? x then Some ([], r)
              else match split_at x r with
                   | Some (a, b) => Some (c :: a, b)
                   | None => None
                   end
  end.

Lemma split_at_app : forall x l rest,
  ~ In x l -> split_at x (l ++ x :: rest) = Some (l, rest).
Proof.
  induction l as [|c l IH]; intros rest Hno.
  - cbn. now rewrite N.eqb_refl.
  - assert (Hc : c <> x) by (intro E; apply Hno; left; now subst).
    assert (Hl : ~ In x l) by (intro E; apply Hno; now right).
    change ((c :: l) ++ x :: rest) with (c :: (l ++ x :: rest)). cbn [split_at].
    apply N.eqb_neq in Hc. rewrite Hc. now rewrite IH.
Qed.

Definition take_n (n : N) (l : bytes) : option (bytes * bytes) :=
  if n <=? lenN l then Some (firstn (N.to_nat n) l, skipn (N.to_nat n) l) else None.

Lemma take_n_app : forall a b, take_n (lenN a) (a ++ b) = Some (a, b).
Proof.
  intros a b. unfold take_n, lenN. rewrite app_length.
  destruct (N.of_nat (length a) <=? N.of_nat (length a + length b)) eqn:E.
  - rewrite Nnat.Nat2N.id. rewrite firstn_app, skipn_app, Nat.sub_diag, firstn_all, skipn_all.
    cbn. now rewrite app_nil_r.
  - apply N.leb_gt in E. lia.
Qed.

Lemma lenN_app : forall a b, lenN (a ++ b) = lenN a + lenN b.
Proof. intros. unfold lenN. rewrite app_length. lia. Qed.

Lemma lenN_nil_iff : forall a, lenN a = 0 <-> a = [].
Proof. intros [|x a]; unfold lenN; cbn [length]; split; intro H; try easy; lia. Qed.

(** ---- optional white space ---- *)
Definition is_ows (c : N) : bool := (c =? 32) || (c =? 9).
Fixpoint drop_ows (l : bytes) : bytes :=
  match l with
  | c :: r => if is_ows c then drop_ows r else l
  | [] => []
  end.
Definition trim_ows (l : bytes) : bytes := List.rev (drop_ows (List.rev (drop_ows l))).

(** ---- "%d" ---- *)
Fixpoint dec_bytes (u : Decimal.uint) : bytes :=
  match u with
  | Decimal.Nil => []
  | Decimal.D0 u => 48 :: dec_bytes u | Decimal.D1 u => 49 :: dec_bytes u
  | Decimal.D2 u => 50 :: dec_bytes u | Decimal.D3 u => 51 :: dec_bytes u
  | Decimal.D4 u => 52 :: dec_bytes u | Decimal.D5 u => 53 :: dec_bytes u
  | Decimal.D6 u => 54 :: dec_bytes u | Decimal.D7 u => 55 :: dec_bytes u
  | Decimal.D8 u => 56 :: dec_bytes u | Decimal.D9 u => 57 :: dec_bytes u
  end.

Definition dec_digit (c : N) : option (Decimal.uint -> Decimal.uint) :=
  if c =? 48 then Some Decimal.D0 else if c =? 49 then Some Decimal.D1
  else if c =? 50 then Some Decimal.D2 else if c =? 51 then Some Decimal.D3
  else if c =? 52 then Some Decimal.D4 else if c =? 53 then Some Decimal.D5
  else if c =? 54 then Some Decimal.D6 else if c =? 55 then Some Decimal.D7
  else if c =? 56 then Some Decimal.D8 else if c =? 57 then Some Decimal.D9
  else None.

Fixpoint parse_dec (l : bytes) : option Decimal.uint :=
  match l with
  | [] => Some Decimal.Nil
  | c :: r => match dec_digit c, parse_dec r with
              | Some d, Some u => Some (d u)
              | _, _ => None
              end
  end.

Lemma parse_dec_bytes : forall u, parse_dec (dec_bytes u) = Some u.
Proof. induction u; cbn [dec_bytes parse_dec]; try reflexivity; rewrite IHu; reflexivity. Qed.

Definition show_dec (n : N) : bytes := dec_bytes (N.to_uint n).
Definition read_dec (l : bytes) : option N :=
  match l with
  | [] => None
  | _ => match parse_dec l with Some u => Some (N.of_uint u) | None => None end
  end.

Lemma dec_bytes_nonnil : forall u, u <> Decimal.Nil -> dec_bytes u <> [].
Proof. destruct u; intros H; try easy. Qed.

Lemma show_dec_nonnil : forall n, show_dec n <> [].
Proof.
  intro n. unfold show_dec. apply dec_bytes_nonnil.
  destruct n as [|p]; [easy | apply DecimalPos.Unsigned.to_uint_nonnil].
Qed.

Lemma read_show_dec : forall n, read_dec (show_dec n) = Some n.
Proof.
  intro n. unfold read_dec. pose proof (show_dec_nonnil n) as Hn.
  destruct (show_dec n) as [|c r] eqn:E; [easy|].
  rewrite <- E. unfold show_dec. rewrite parse_dec_bytes.
  now rewrite DecimalN.Unsigned.of_to.
Qed.

Lemma dec_bytes_digits : forall u c, In c (dec_bytes u) -> 48 <= c <= 57.
Proof.
  induction u; cbn [dec_bytes]; intros c H; try easy;
    (destruct H as [H | H]; [subst; lia | now apply IHu]).
Qed.

Lemma show_dec_digits : forall n c, In c (show_dec n) -> 48 <= c <= 57.
Proof. intros n c. apply dec_bytes_digits. Qed.

(** ---- "%x" ---- *)
Fixpoint hex_bytes (u : Hexadecimal.uint) : bytes :=
  match u with
  | Hexadecimal.Nil => []
  | Hexadecimal.D0 u => 48 :: hex_bytes u | Hexadecimal.D1 u => 49 :: hex_bytes u
  | Hexadecimal.D2 u => 50 :: hex_bytes u | Hexadecimal.D3 u => 51 :: hex_bytes u
  | Hexadecimal.D4 u => 52 :: hex_bytes u | Hexadecimal.D5 u => 53 :: hex_bytes u
  | Hexadecimal.D6 u => 54 :: hex_bytes u | Hexadecimal.D7 u => 55 :: hex_bytes u
  | Hexadecimal.D8 u => 56 :: hex_bytes u | Hexadecimal.D9 u => 57 :: hex_bytes u
  | Hexadecimal.Da u => 97 :: hex_bytes u | Hexadecimal.Db u => 98 :: hex_bytes u
  | Hexadecimal.Dc u => 99 :: hex_bytes u | Hexadecimal.Dd u => 100 :: hex_bytes u
  | Hexadecimal.De u => 101 :: hex_bytes u | Hexadecimal.Df u => 102 :: hex_bytes u
  end.

Definition hex_digit (c : N) : option (Hexadecimal.uint -> Hexadecimal.uint) :=
  if c =? 48 then Some Hexadecimal.D0 else if c =? 49 then Some Hexadecimal.D1
  else if c =? 50 then Some Hexadecimal.D2 else if c =? 51 then Some Hexadecimal.D3
  else if c =? 52 then Some Hexadecimal.D4 else if c =? 53 then Some Hexadecimal.D5
  else if c =? 54 then Some Hexadecimal.D6 else if c =? 55 then Some Hexadecimal.D7
  else if c =? 56 then Some Hexadecimal.D8 else if c =? 57 then Some Hexadecimal.D9
  else if (c =? 97) || (c =? 65) then Some Hexadecimal.Da
  else if (c =? 98) || (c =? 66) then Some Hexadecimal.Db
  else if (c =? 99) || (c =? 67) then Some Hexadecimal.Dc
  else if (c =? 100) || (c =? 68) then Some Hexadecimal.Dd
  else if (c =? 101) || (c =? 69) then Some Hexadecimal.De
  else if (c =? 102) || (c =? 70) then Some Hexadecimal.Df
  else None.

Fixpoint parse_hex (l : bytes) : option Hexadecimal.uint :=
  match l with
  | [] => Some Hexadecimal.Nil
  | c :: r => match hex_digit c, parse_hex r with
              | Some d, Some u => Some (d u)
              | _, _ => None
              end
  end.

Lemma parse_hex_bytes : forall u, parse_hex (hex_bytes u) = Some u.
Proof. induction u; cbn [hex_bytes parse_hex]; try reflexivity; rewrite IHu; reflexivity. Qed.

Definition show_hexN (n : N) : bytes := hex_bytes (N.to_hex_uint n).
Definition read_hex (l : bytes) : option N :=
  match l with
  | [] => None
  | _ => match parse_hex l with Some u => Some (N.of_hex_uint u) | None => None end
  end.

Lemma hex_bytes_nonnil : forall u, u <> Hexadecimal.Nil -> hex_bytes u <> [].
Proof. destruct u; intros H; try easy. Qed.

Lemma show_hexN_nonnil : forall n, show_hexN n <> [].
Proof.
  intro n. unfold show_hexN. apply hex_bytes_nonnil.
  destruct n as [|p]; [easy | apply HexadecimalPos.Unsigned.to_uint_nonnil].
Qed.

Lemma read_show_hex : forall n, read_hex (show_hexN n) = Some n.
Proof.
  intro n. unfold read_hex. pose proof (show_hexN_nonnil n) as Hn.
  destruct (show_hexN n) as [|c r] eqn:E; [easy|].
  rewrite <- E. unfold show_hexN. rewrite parse_hex_bytes.
  now rewrite HexadecimalN.Unsigned.of_to.
Qed.

Lemma hex_bytes_digits : forall u c, In c (hex_bytes u) -> 48 <= c <= 102.
Proof.
  induction u; cbn [hex_bytes]; intros c H; try easy;
    (destruct H as [H | H]; [subst; lia | now apply IHu]).
Qed.

Lemma show_hexN_digits : forall n c, In c (show_hexN n) -> 48 <= c <= 102.
Proof. intros n c. apply hex_bytes_digits. Qed.
