(** Small list / permutation facts shared by the timer proofs (cluster "timers"). *)
From Coq Require Import List Arith ZArith Bool Lia Permutation.
From TwLib Require Import TimersCall.
Import ListNotations.

Lemma tperm_add_one : forall (A B S : list nat) n,
  Permutation (A ++ B) S -> Permutation ((A ++ [n]) ++ B) (S ++ [n]).
Proof.
  intros A B S n H. rewrite <- app_assoc. cbn.
  eapply perm_trans. { apply Permutation_sym. apply Permutation_middle. }
  eapply perm_trans. 2:{ apply Permutation_cons_append. }
  apply perm_skip. exact H.
Qed.

Lemma tperm_move_mid : forall (M R X : list nat) i,
  Permutation (M ++ R ++ i :: X) (i :: M ++ R ++ X).
Proof. intros. rewrite !app_assoc. apply Permutation_sym. apply Permutation_middle. Qed.

Lemma tperm_move_mid2 : forall (M R X : list nat) i,
  Permutation (M ++ (i :: R) ++ X) (i :: M ++ R ++ X).
Proof. intros. cbn. apply Permutation_sym. apply Permutation_middle. Qed.

Lemma trun_ids_cons : forall e l, run_ids (e :: l) = map cid (run_of e) ++ run_ids l.
Proof. intros. unfold run_ids, runs. cbn [flat_map]. apply map_app. Qed.
Lemma trun_times_cons : forall e l, run_times (e :: l) = map getTime (run_of e) ++ run_times l.
Proof. intros. unfold run_times, runs. cbn [flat_map]. apply map_app. Qed.
Lemma tcancelled_ids_cons : forall e l, cancelled_ids (e :: l) = cancel_of e ++ cancelled_ids l.
Proof. reflexivity. Qed.

Lemma tNoDup_app_inv : forall (l l' : list nat),
  NoDup (l ++ l') -> NoDup l /\ NoDup l' /\ (forall x, In x l -> ~ In x l').
Proof.
  induction l as [|a l IH]; cbn; intros l' H.
  - split; [constructor|]. split; [exact H|]. tauto.
  - inversion H as [|? ? Hna Hnd]; subst. destruct (IH _ Hnd) as [H1 [H2 H3]].
    split; [|split].
    + constructor; [|exact H1]. intros Hin. apply Hna. apply in_or_app. left. exact Hin.
    + exact H2.
    + intros x [<-|Hx] Hin; [apply Hna; apply in_or_app; right; exact Hin | exact (H3 x Hx Hin)].
Qed.

Lemma filter_perm : forall (A : Type) (f : A -> bool) l l',
  Permutation l l' -> Permutation (filter f l) (filter f l').
Proof.
  intros A f l l' H. induction H; cbn.
  - constructor.
  - destruct (f x); [apply perm_skip|]; assumption.
  - destruct (f x); destruct (f y); try apply Permutation_refl. apply perm_swap.
  - eapply perm_trans; eassumption.
Qed.

Lemma filter_idem : forall (A : Type) (f : A -> bool) l, filter f (filter f l) = filter f l.
Proof.
  intros A f l. induction l as [|x r IH]; cbn; [reflexivity|].
  destruct (f x) eqn:E; cbn; [rewrite E, IH|]; auto.
Qed.
