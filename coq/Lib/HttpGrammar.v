(** RFC 9110 / RFC 9112 reference recognisers, written from the RFC text (not from twisted).
    Used as *Spec* by the HTTP properties (C19 ...).  Bytes are [N].

    RFC 9110 5.6.2   token = 1*tchar
                     tchar = "!" / "#" / "$" / "%" / "&" / "'" / "*" / "+" / "-" / "." /
                             "^" / "_" / "`" / "|" / "~" / DIGIT / ALPHA
    RFC 9112 3       request-line = method SP request-target SP HTTP-version
                     method = token ;  HTTP-version = "HTTP/" DIGIT "." DIGIT
                     (request-target forms all consist of visible ASCII, no whitespace: 3.2)
    RFC 9112 5       field-line = field-name ":" OWS field-value OWS ; field-name = token
    RFC 9110 5.5     field-value bytes: VCHAR / obs-text, SP / HTAB inside; never NUL, CR, LF
    RFC 9112 6.3     message body length of a request:
                       3. Transfer-Encoding and Content-Length both present: "ought to be handled
                          as an error" -- the property demands 400;
                       4. Transfer-Encoding present: chunked must be the final coding, otherwise 400;
                          a coding the server does not implement is answered with an error (RFC 9112 6.1: 501 / 400);
                       5. Content-Length invalid (not 1*DIGIT, or several differing / repeated values): 400;
                       6. valid Content-Length: that many octets;
                       7. neither: length 0.
    RFC 9112 7.1     chunked-body = *chunk last-chunk trailer-section CRLF (see C22). *)
From Coq Require Import List NArith Bool.
Import ListNotations.

Definition octets := list N.
Definition SP : N := 32%N.
Definition HTAB : N := 9%N.

Definition between (lo hi c : N) : bool := (N.leb lo c && N.leb c hi)%bool.
Definition is_DIGIT (c : N) : bool := between 48 57 c.
Definition is_ALPHA (c : N) : bool := (between 65 90 c || between 97 122 c)%bool.
Definition is_VCHAR (c : N) : bool := between 33 126 c.
Definition is_obs_text (c : N) : bool := between 128 255 c.

(* "!" / "#" / "$" / "%" / "&" / "'" / "*" / "+" / "-" / "." / "^" / "_" / "`" / "|" / "~" *)
Definition tchar_specials : list N := [33; 35; 36; 37; 38; 39; 42; 43; 45; 46; 94; 95; 96; 124; 126]%N.
Definition is_tchar_rfc (c : N) : bool :=
  (is_DIGIT c || is_ALPHA c || existsb (N.eqb c) tchar_specials)%bool.
Definition nonempty {A} (l : list A) : bool := match l with [] => false | _ => true end.
Definition rfc_token (b : octets) : bool := (forallb is_tchar_rfc b && nonempty b)%bool.

Fixpoint octets_eqb (a b : octets) : bool :=
  match a, b with
  | [], [] => true
  | x :: a', y :: b' => (N.eqb x y && octets_eqb a' b')%bool
  | _, _ => false
  end.

Definition HTTP_1_1 : octets := [72; 84; 84; 80; 47; 49; 46; 49]%N.
Definition HTTP_1_0 : octets := [72; 84; 84; 80; 47; 49; 46; 48]%N.

(* a request line an HTTP/1.x server has to accept: the three fields, separated by exactly one SP *)
Definition rfc_request_line_fields (m t v : octets) : bool :=
  (rfc_token m && nonempty t && forallb is_VCHAR t && (octets_eqb v HTTP_1_1 || octets_eqb v HTTP_1_0))%bool.

Definition to_lower (c : N) : N := if between 65 90 c then (c + 32)%N else c.
Definition lower (b : octets) : octets := map to_lower b.
Definition all_digits (b : octets) : bool := (forallb is_DIGIT b && nonempty b)%bool.
Definition decimal (b : octets) : N := fold_left (fun acc c => (10 * acc + (c - 48))%N) b 0%N.

Definition chunked_name : octets := [99; 104; 117; 110; 107; 101; 100]%N.

Inductive framing := FNoBody | FLength (n : N) | FChunked.

(* RFC 9112 6.3 for requests; [None] = the request must be rejected (400).  Arguments: the
   Content-Length field values and the Transfer-Encoding field values, in order of appearance. *)
Definition rfc_request_framing (cls tes : list octets) : option framing :=
  match tes, cls with
  | [], [] => Some FNoBody
  | [], [v] => if all_digits v then Some (FLength (decimal v)) else None
  | [], _ => None
  | [t], [] => if octets_eqb (lower t) chunked_name then Some FChunked else None
  | _, _ => None
  end.
