(** RFC 9112 message syntax as a *generator*: how a client may write a request head -- section 3
    request-line, section 5 field lines "field-name ":" OWS field-value OWS" with optional obs-fold
    continuation lines (section 5.2), section 2.1 CRLF line ends.  Spec material for C19 (written from
    the RFC, not from twisted). *)
From Coq Require Import List NArith Bool.
From TwLib Require Import HttpGrammar.
Import ListNotations.

Definition CRLFo : octets := [13; 10]%N.
Definition COLONo : N := 58%N.

(* RFC 9110 5.5: a field value consists of VCHAR / obs-text / SP / HTAB: never CR, LF or NUL *)
Definition is_field_octet (c : N) : bool := (negb (N.eqb c 0) && negb (N.eqb c 13) && negb (N.eqb c 10))%bool.
Definition is_ows (c : N) : bool := (N.eqb c SP || N.eqb c HTAB)%bool.

(* OWS around the value is not part of it (RFC 9112 5.1) *)
Fixpoint drop_ows (b : octets) : octets :=
  match b with x :: r => if is_ows x then drop_ows r else b | [] => [] end.
Definition trim_ows (b : octets) : octets := rev (drop_ows (rev (drop_ows b))).

(** a field as written on the wire: "name:" raw CRLF, then any number of obs-fold continuation lines
    (1*(SP/HTAB), text) CRLF *)
Record field := mkfield { f_name : octets; f_raw : octets; f_conts : list (octets * octets) }.

(* RFC 9112 5.2: a recipient replaces each obs-fold by SP before interpreting the value *)
Definition f_unfolded (f : field) : octets := f_raw f ++ flat_map (fun c => SP :: snd c) (f_conts f).
Definition f_value (f : field) : octets := trim_ows (f_unfolded f).
Definition field_pair (f : field) : octets * octets := (f_name f, f_value f).

Definition wf_cont (c : octets * octets) : bool :=
  (nonempty (fst c) && forallb is_ows (fst c) && forallb is_field_octet (snd c) &&
   match snd c with x :: _ => negb (is_ows x) | [] => true end)%bool.
Definition wf_field (f : field) : bool :=
  (rfc_token (f_name f) && forallb is_field_octet (f_raw f) && forallb wf_cont (f_conts f))%bool.

Definition first_line (f : field) : octets := f_name f ++ COLONo :: f_raw f.
Definition cont_line (c : octets * octets) : octets := fst c ++ snd c.
Definition field_lines (f : field) : octets :=
  first_line f ++ CRLFo ++ flat_map (fun c => cont_line c ++ CRLFo) (f_conts f).
Definition request_line (m t v : octets) : octets := m ++ SP :: t ++ SP :: v.
Definition render_head (m t v : octets) (fields : list field) : octets :=
  request_line m t v ++ CRLFo ++ flat_map field_lines fields ++ CRLFo.

(* the canonical way to write a field: "name: value" *)
Definition canonical (name value : octets) : field := mkfield name (SP :: value) [].

(** RFC 9112 5: field-line = field-name ":" OWS field-value OWS, field-name = token; a value never
    contains NUL (RFC 9110 5.5).  Recogniser for one (unfolded) line. *)
Fixpoint split_colon (l : octets) : option (octets * octets) :=
  match l with
  | [] => None
  | x :: r => if N.eqb x COLONo then Some ([], r)
              else match split_colon r with Some (n, v) => Some (x :: n, v) | None => None end
  end.
Definition rfc_field_line (l : octets) : bool :=
  match split_colon l with
  | None => false
  | Some (n, v) => (rfc_token n && negb (existsb (N.eqb 0) v))%bool
  end.
