(** RFC 9112 message syntax as a *generator*: how a conforming client writes a request head
    (section 3 request-line, section 5 field lines in their canonical form "name: value", section 2.1
    CRLF line ends).  Spec material for C19 (written from the RFC, not from twisted). *)
From Coq Require Import List NArith Bool.
From TwLib Require Import HttpGrammar.
Import ListNotations.

Definition CRLFo : octets := [13; 10]%N.
Definition COLONo : N := 58%N.

(* RFC 9110 5.5: field-content = field-vchar [ 1*( SP / HTAB / field-vchar ) field-vchar ],
   field-vchar = VCHAR / obs-text: no CR, LF or NUL anywhere, no leading / trailing whitespace *)
Definition is_field_octet (c : N) : bool := (negb (N.eqb c 0) && negb (N.eqb c 13) && negb (N.eqb c 10))%bool.
Definition is_ows (c : N) : bool := (N.eqb c SP || N.eqb c HTAB)%bool.
Definition wf_field_value (v : octets) : bool :=
  (forallb is_field_octet v &&
   match v with [] => true | x :: _ => (negb (is_ows x) && negb (is_ows (last v 0%N)))%bool end)%bool.
Definition wf_field (f : octets * octets) : bool := (rfc_token (fst f) && wf_field_value (snd f))%bool.

Definition field_line (f : octets * octets) : octets := fst f ++ COLONo :: SP :: snd f.
Definition request_line (m t v : octets) : octets := m ++ SP :: t ++ SP :: v.
Definition render_head (m t v : octets) (fields : list (octets * octets)) : octets :=
  request_line m t v ++ CRLFo ++ flat_map (fun f => field_line f ++ CRLFo) fields ++ CRLFo.
