(** CodecsText (cluster codecs-text): the [re.sub] skeleton used by the IRC dequoting functions,
    UTF-8 encoding of code points, and small list helpers.  Strings are [list N]. *)
From Coq Require Import List NArith Bool Arith Lia.
From TwLib Require Import PyStr.
Import ListNotations.
Local Open Scope N_scope.

Fixpoint assoc (c : N) (t : list (N * list N)) : option (list N) :=
  match t with
  | [] => None
  | (k, v) :: r => if N.eqb k c then Some v else assoc c r
  end.

(** [re.compile(re.escape(q) + ".", re.DOTALL).sub(cb, s)] where [cb] maps the match [q x] to
    [table[x]] if [x] is a key and to [x] otherwise: leftmost non-overlapping matches of [q]
    followed by ANY character (DOTALL); a [q] that is the last character does not match and stays. *)
Fixpoint re_sub_escape_aux (q : N) (t : list (N * list N)) (pending : bool) (s : list N) : list N :=
  match s with
  | [] => if pending then [q] else []
  | c :: r =>
      if pending then (match assoc c t with Some v => v | None => [c] end) ++ re_sub_escape_aux q t false r
      else if N.eqb c q then re_sub_escape_aux q t true r
      else c :: re_sub_escape_aux q t false r
  end.

Definition re_sub_escape (q : N) (t : list (N * list N)) (s : list N) : list N :=
  re_sub_escape_aux q t false s.

(** dequoting undoes a per-character quoting [f] in which every character is written either as
    itself (and is not the escape character) or as [q; x] with [table[x]] = the character *)
Lemma re_sub_escape_flat_map : forall q t (f : N -> list N) s,
  (forall c, In c s ->
     (f c = [c] /\ N.eqb c q = false) \/ (exists x, f c = [q; x] /\ assoc x t = Some [c])) ->
  re_sub_escape q t (flat_map f s) = s.
Proof.
  intros q t f s. unfold re_sub_escape. induction s as [|c s IH]; intros H; [reflexivity|].
  cbn [flat_map].
  assert (Hs : forall c0, In c0 s ->
            (f c0 = [c0] /\ N.eqb c0 q = false) \/ (exists x, f c0 = [q; x] /\ assoc x t = Some [c0]))
    by (intros c0 Hc0; apply H; right; exact Hc0).
  destruct (H c (or_introl eq_refl)) as [[E Eq] | [x [E Ex]]]; rewrite E.
  - cbn [app re_sub_escape_aux]. rewrite Eq. rewrite IH by exact Hs. reflexivity.
  - cbn [app re_sub_escape_aux]. rewrite N.eqb_refl, Ex. cbn [app]. rewrite IH by exact Hs. reflexivity.
Qed.

(** UTF-8 of a code point (surrogates are excluded by the callers' assumptions) *)
Definition utf8 (c : N) : list N :=
  if c <? 128 then [c]
  else if c <? 2048 then [192 + c / 64; 128 + c mod 64]
  else if c <? 65536 then [224 + c / 4096; 128 + (c / 64) mod 64; 128 + c mod 64]
  else [240 + c / 262144; 128 + (c / 4096) mod 64; 128 + (c / 64) mod 64; 128 + c mod 64].

Definition utf8_str (s : list N) : list N := flat_map utf8 s.

Lemma utf8_ascii : forall c, c < 128 -> utf8 c = [c].
Proof. intros c H. unfold utf8. apply N.ltb_lt in H. rewrite H. reflexivity. Qed.

(** every octet of the encoding of a non-ASCII code point is >= 128 *)
Lemma utf8_bytes : forall c b, In b (utf8 c) -> (c < 128 /\ b = c) \/ 128 <= b.
Proof.
  intros c b H. unfold utf8 in H.
  destruct (c <? 128) eqn:E1.
  - apply N.ltb_lt in E1. destruct H as [<- | []]. left. split; [exact E1 | reflexivity].
  - right. destruct (c <? 2048); [|destruct (c <? 65536)]; cbn [In] in H;
      intuition (subst; match goal with |- 128 <= ?k + _ => transitivity k; [lia | apply N.le_add_r] end).
Qed.

Lemma utf8_length_ge1 : forall c, (1 <= length (utf8 c))%nat.
Proof. intros c. unfold utf8. destruct (c <? 128), (c <? 2048), (c <? 65536); cbn; lia. Qed.
