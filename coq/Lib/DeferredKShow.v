(** DeferredKShow: canonical printing of DeferredK runs (correspondence check only). *)
From Coq Require Import List Arith ZArith Bool String.
From TwLib Require Import Show DeferredK.
Import ListNotations.
Local Open Scope string_scope.

Definition show_value (v : value) : string :=
  match v with
  | VNone => "N"
  | VInt z => show_Z z
  | VFail e => if Z.eqb e cancelled_error then "EC" else "E" ++ show_Z e
  | VDef i => "D" ++ show_nat i
  end.

Definition show_ev (e : ev) : list string :=
  match e with
  | ERun d k a => ["R" ++ show_nat d ++ "." ++ show_nat k ++ "(" ++ show_value a ++ ")"]
  | EFired d _ _ => ["F" ++ show_nat d]
  | EAlready _ => ["A"]
  | ESwallow _ => ["S"]
  | ECancelNone _ => []
  | ECanceller d => ["K" ++ show_nat d]
  | ECancRaise _ e => ["X" ++ show_Z e]
  | ERecursion _ => ["RE"]
  end.

Definition show_evs (l : list ev) : string :=
  match flat_map show_ev l with [] => "-" | ss => String.concat "," ss end.

Definition pending_ids (D : dfr) : list nat :=
  flat_map (fun e => match e with Pair k _ _ => [k] | Cont _ => [] end) (cbs D).

Definition show_dfr (D : dfr) : string :=
  show_bool (called D) ++ ":" ++ match res D with None => "-" | Some v => show_value v end
  ++ ":" ++ show_Z (paused D) ++ ":" ++ show_list show_nat (pending_ids D).

Definition show_run (r : state * list (list ev)) : string :=
  String.concat " " (map show_evs (snd r)) ++ " | " ++ String.concat " " (map show_dfr (heap_of (fst r))).

Definition show_program (fx : bool) (p : program) : string := show_run (run_program fx p).
