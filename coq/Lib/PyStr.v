(** PyStr: executable model of the Python [str]/[bytes] methods used by the text codecs
    (cluster codecs-text: C46, C28, C43, C41).  Strings are [list N] (code points or bytes).

    [py_replace old new s] is CPython's [s.replace(old, new)] for NON-EMPTY [old]:
    non-overlapping occurrences, scanned left to right.  (The translator refuses an empty
    [old]; CPython's behaviour for it -- insertion between all characters -- is not modelled.)
    These definitions are the assumed semantics of the builtins; they are validated against
    CPython by every correspondence run that evaluates a generated [Gen.v]. *)
From Coq Require Import List NArith Bool Arith Lia.
Import ListNotations.

Definition str := list N.

(** [s.startswith(p)] *)
Fixpoint starts_with (p s : list N) : bool :=
  match p, s with
  | [], _ => true
  | _ :: _, [] => false
  | a :: p', b :: s' => N.eqb a b && starts_with p' s'
  end.

(** structural formulation: [skip] = characters of a matched occurrence still to be dropped *)
Fixpoint replace_aux (old new : list N) (skip : nat) (s : list N) : list N :=
  match s with
  | [] => []
  | c :: r =>
      match skip with
      | S k => replace_aux old new k r
      | O => if starts_with old s
             then new ++ replace_aux old new (length old - 1) r
             else c :: replace_aux old new 0 r
      end
  end.

Definition py_replace (old new s : list N) : list N := replace_aux old new 0 s.

(** [sep.join(parts)] *)
Fixpoint py_join (sep : list N) (parts : list (list N)) : list N :=
  match parts with
  | [] => []
  | [p] => p
  | p :: r => p ++ sep ++ py_join sep r
  end.

(** [s.endswith(p)] *)
Definition ends_with (p s : list N) : bool := starts_with (rev p) (rev s).

(** [c in s] for a one-character [c] *)
Fixpoint mem (c : N) (s : list N) : bool :=
  match s with [] => false | x :: r => N.eqb c x || mem c r end.

(** per-character substitution *)
Definition subst1 (a : N) (new : list N) (c : N) : list N := if N.eqb c a then new else [c].

(** ---------------------------------------------------------------------------------------- *)
(** characterising lemmas *)

Lemma starts_with_app : forall p s, starts_with p (p ++ s) = true.
Proof.
  induction p as [|a p IH]; intros s; cbn; [reflexivity|].
  rewrite N.eqb_refl, IH. reflexivity.
Qed.

Lemma starts_with_spec : forall p s, starts_with p s = true <-> exists r, s = p ++ r.
Proof.
  induction p as [|a p IH]; intros s; cbn.
  - split; [intros _; exists s; reflexivity | reflexivity].
  - destruct s as [|b s]; cbn.
    + split; [discriminate | intros [r Hr]; discriminate].
    + rewrite andb_true_iff, N.eqb_eq, IH. split.
      * intros [-> [r ->]]. exists r. reflexivity.
      * intros [r Hr]. injection Hr as -> ->. split; [reflexivity | exists r; reflexivity].
Qed.

Lemma mem_In : forall c s, mem c s = true <-> In c s.
Proof.
  induction s as [|x s IH]; cbn; [split; [discriminate | tauto]|].
  rewrite orb_true_iff, N.eqb_eq, IH. split; intros [H|H]; auto.
Qed.

(** replacing a single character is a per-character substitution *)
Lemma py_replace_single : forall a new s,
  py_replace [a] new s = flat_map (subst1 a new) s.
Proof.
  intros a new s. unfold py_replace.
  induction s as [|c r IH]; [reflexivity|].
  cbn [replace_aux starts_with flat_map length Nat.sub].
  unfold subst1 at 1. rewrite N.eqb_sym, andb_true_r.
  destruct (N.eqb c a); cbn [Nat.sub]; rewrite IH; reflexivity.
Qed.

Lemma flat_map_flat_map : forall (A B C : Type) (f : B -> list C) (g : A -> list B) (l : list A),
  flat_map f (flat_map g l) = flat_map (fun x => flat_map f (g x)) l.
Proof.
  intros A B C f g l. induction l as [|x l IH]; [reflexivity|].
  cbn. rewrite flat_map_app, IH. reflexivity.
Qed.

Lemma flat_map_ext' : forall (A B : Type) (f g : A -> list B) (l : list A),
  (forall x, f x = g x) -> flat_map f l = flat_map g l.
Proof. intros A B f g l H. induction l as [|x l IH]; cbn; [reflexivity|]. rewrite H, IH. reflexivity. Qed.

(** a chain of single-character replacements is one per-character substitution *)
Lemma replace_single_chain : forall a new (f : N -> list N) s,
  py_replace [a] new (flat_map f s) = flat_map (fun c => flat_map (subst1 a new) (f c)) s.
Proof. intros. rewrite py_replace_single, flat_map_flat_map. reflexivity. Qed.

(** the text is unchanged when [old] does not occur (stated for the first character) *)
Lemma replace_aux_no_first : forall old new s a,
  hd_error old = Some a -> ~ In a s -> replace_aux old new 0 s = s.
Proof.
  intros old new s a Hhd. induction s as [|c r IH]; intros Hni; [reflexivity|].
  cbn [replace_aux].
  destruct old as [|o old']; [discriminate|]. injection Hhd as ->.
  cbn [starts_with]. destruct (N.eqb a c) eqn:E.
  - apply N.eqb_eq in E. subst. exfalso. apply Hni. left. reflexivity.
  - cbn. rewrite IH; [reflexivity|]. intros H. apply Hni. right. exact H.
Qed.

Lemma py_join_cons : forall sep p q r, py_join sep (p :: q :: r) = p ++ sep ++ py_join sep (q :: r).
Proof. reflexivity. Qed.

(** ---------------------------------------------------------------------------------------- *)
(** three-character patterns [a;b;c] replaced by something that starts with [a;b]
    (both multi-character replacements of the flattener have this shape:
     "-->" -> "--&gt;" and "]]>" -> "]]]]><![CDATA[>") *)
Section Replace3.
  Variables (a b c : N) (new' : list N).
  Definition old3 : list N := [a; b; c].
  Definition new3 : list N := a :: b :: new'.
  Definition R3 (s : list N) : list N := replace_aux old3 new3 0 s.

  Lemma R3_py : forall s, py_replace old3 new3 s = R3 s.
  Proof. reflexivity. Qed.

  Lemma R3_nil : R3 [] = [].
  Proof. reflexivity. Qed.

  Lemma R3_match : forall r, R3 (a :: b :: c :: r) = new3 ++ R3 r.
  Proof.
    intros r. unfold R3, old3. cbn [replace_aux starts_with length Nat.sub].
    rewrite !N.eqb_refl. reflexivity.
  Qed.

  Lemma R3_nomatch : forall x r, starts_with old3 (x :: r) = false -> R3 (x :: r) = x :: R3 r.
  Proof. intros x r H. unfold R3. cbn [replace_aux]. rewrite H. reflexivity. Qed.

  (** a match at the head means the text is a :: b :: c :: _ *)
  Lemma old3_match_inv : forall s, starts_with old3 s = true -> exists r, s = a :: b :: c :: r.
  Proof.
    intros s H. apply starts_with_spec in H. destruct H as [r ->]. exists r. reflexivity.
  Qed.

  Lemma R3_cases : forall s,
    s = [] \/ (exists r, s = a :: b :: c :: r /\ R3 s = new3 ++ R3 r)
    \/ (exists x r, s = x :: r /\ starts_with old3 s = false /\ R3 s = x :: R3 r).
  Proof.
    intros [|x r]; [left; reflexivity|]. right.
    destruct (starts_with old3 (x :: r)) eqn:E.
    - left. destruct (old3_match_inv _ E) as [r' Hr]. exists r'. split; [exact Hr|].
      rewrite Hr. apply R3_match.
    - right. exists x, r. repeat split. apply R3_nomatch. exact E.
  Qed.

  (** the replaced text begins like the original (one and two characters of lookahead),
      whatever follows *)
  Lemma R3_sw1 : forall p r X, starts_with [p] (R3 r ++ X) = starts_with [p] (r ++ X).
  Proof.
    intros p r X. destruct (R3_cases r) as [-> | [[r' [-> E]] | [x [r' [-> [_ E]]]]]]; [reflexivity| |];
      rewrite E; reflexivity.
  Qed.

  Lemma R3_sw2 : forall p q r X, starts_with [p; q] (R3 r ++ X) = starts_with [p; q] (r ++ X).
  Proof.
    intros p q r X. destruct (R3_cases r) as [-> | [[r' [-> E]] | [x [r' [-> [_ E]]]]]]; [reflexivity| |];
      rewrite E.
    - reflexivity.
    - cbn [app starts_with]. f_equal. apply (R3_sw1 q r' X).
  Qed.

  Lemma R3_sw3 : forall x r X, starts_with old3 (x :: R3 r ++ X) = starts_with old3 (x :: r ++ X).
  Proof. intros x r X. unfold old3. cbn [starts_with]. f_equal. apply R3_sw2. Qed.

  (** where the pattern does not match at the head of [s] it does not match at the head of
      [s ++ X] either, provided [X] cannot complete it *)
  Lemma nomatch_app : forall x r X,
    starts_with old3 (x :: r) = false ->
    starts_with [c] X = false -> starts_with [b; c] X = false ->
    starts_with old3 (x :: r ++ X) = false.
  Proof.
    intros x r X H H1 H2. unfold old3 in *. cbn [starts_with] in *.
    destruct (N.eqb a x); [|reflexivity]. cbn [andb] in *.
    destruct r as [|y r]; [exact H2|]. cbn [app starts_with] in *.
    destruct (N.eqb b y); [|reflexivity]. cbn [andb] in *.
    destruct r as [|z r]; [exact H1|]. exact H.
  Qed.
End Replace3.
