(** Executable models of the Python [bytes] methods used by the framing code, with the lemmas
    that characterise them.  Bytes are [N] ([list N] for byte strings), so every lemma holds for
    all [N], a superset of bytes.  These definitions ARE the assumed semantics of the CPython
    builtins (trusted base); they are exercised against CPython by the correspondence runs of the
    properties that use them (C16, C47, C30).

      [startswith p s]      s.startswith(p)
      [find sep s]          s.find(sep)              ([None] = -1); sep non-empty
      [split1 sep s]        s.split(sep, 1)          ([None] = one-element result, i.e. the
                                                      "ValueError on unpacking" branch); sep non-empty
      [split_all sep s]     s.split(sep)             sep non-empty
      [slice_to n s]/[slice_from n s]    s[:n] / s[n:]  for 0 <= n
      [be_to_N bs]/[N_to_be k n]         int.from_bytes(bs,'big') / n.to_bytes(k,'big')
                                         (= struct.unpack/pack of "!B" "!H" "!I" for k = 1,2,4)
      [digits_to_N ds]      int(ds) for ASCII decimal digits;  [N_to_digits n] = str(n).encode()  *)
From Coq Require Import List Arith NArith Bool Lia.
Import ListNotations.

Definition bytes := list N.

Definition slice_to (n : nat) (s : bytes) : bytes := firstn n s.
Definition slice_from (n : nat) (s : bytes) : bytes := skipn n s.

Fixpoint startswith (p s : bytes) : bool :=
  match p, s with
  | [], _ => true
  | x :: p', y :: s' => N.eqb x y && startswith p' s'
  | _ :: _, [] => false
  end.

Fixpoint beq (a b : bytes) : bool :=
  match a, b with
  | [], [] => true
  | x :: a', y :: b' => N.eqb x y && beq a' b'
  | _, _ => false
  end.

(** leftmost occurrence of [sep]: the bytes before it and the bytes after it *)
Fixpoint split1 (sep s : bytes) : option (bytes * bytes) :=
  if startswith sep s then Some ([], skipn (length sep) s)
  else match s with
       | [] => None
       | x :: s' => match split1 sep s' with
                    | Some (a, r) => Some (x :: a, r)
                    | None => None
                    end
       end.

Definition find (sep s : bytes) : option nat :=
  match split1 sep s with Some (a, _) => Some (length a) | None => None end.

Fixpoint split_fuel (n : nat) (sep s : bytes) : list bytes :=
  match n with
  | 0 => [s]
  | S n' => match split1 sep s with
            | None => [s]
            | Some (a, r) => a :: split_fuel n' sep r
            end
  end.
Definition split_all (sep s : bytes) : list bytes := split_fuel (length s) sep s.

(** big-endian unsigned integers *)
Fixpoint be_acc (acc : N) (bs : bytes) : N :=
  match bs with [] => acc | b :: r => be_acc (acc * 256 + b) r end.
Definition be_to_N (bs : bytes) : N := be_acc 0 bs.
Fixpoint N_to_be (k : nat) (n : N) : bytes :=
  match k with
  | 0 => []
  | S k' => N_to_be k' (n / 256)%N ++ [(n mod 256)%N]
  end.

(** ASCII decimal *)
Definition is_digit (b : N) : bool := (48 <=? b)%N && (b <=? 57)%N.
Fixpoint dec_acc (acc : N) (ds : bytes) : N :=
  match ds with [] => acc | d :: r => dec_acc (acc * 10 + (d - 48)) r end.
Definition digits_to_N (ds : bytes) : N := dec_acc 0 ds.
Fixpoint N_to_digits_fuel (fuel : nat) (n : N) (acc : bytes) : bytes :=
  match fuel with
  | 0 => acc
  | S f => if (n <? 10)%N then (48 + n)%N :: acc
           else N_to_digits_fuel f (n / 10)%N ((48 + n mod 10)%N :: acc)
  end.
Definition N_to_digits (n : N) : bytes := N_to_digits_fuel (S (N.to_nat (N.log2 n))) n [].

(* ------------------------------------------------------------------------------------------ *)
(** * startswith / beq *)

Lemma beq_eq : forall a b, beq a b = true <-> a = b.
Proof.
  induction a as [|x a IH]; destruct b as [|y b]; simpl; split; intro H; try reflexivity; try discriminate.
  - apply andb_true_iff in H as [H1 H2]. apply N.eqb_eq in H1. apply IH in H2. now subst.
  - inversion H; subst. rewrite N.eqb_refl. simpl. now apply IH.
Qed.

Lemma startswith_app : forall p r, startswith p (p ++ r) = true.
Proof. induction p as [|x p IH]; intros r; simpl; [reflexivity|]. now rewrite N.eqb_refl, IH. Qed.

Lemma startswith_spec : forall p s, startswith p s = true <-> exists r, s = p ++ r.
Proof.
  induction p as [|x p IH]; intros s; simpl.
  - split; [intros _; now exists s | reflexivity].
  - destruct s as [|y s].
    + split; [discriminate | intros [r Hr]; discriminate].
    + rewrite andb_true_iff, N.eqb_eq, IH. split.
      * intros [-> [r ->]]. now exists r.
      * intros [r Hr]. inversion Hr; subst. split; [reflexivity | now exists r].
Qed.

Lemma startswith_skipn : forall p s, startswith p s = true -> s = p ++ skipn (length p) s.
Proof.
  intros p s H. apply startswith_spec in H as [r ->]. rewrite skipn_app, skipn_all, Nat.sub_diag. reflexivity.
Qed.

(** a match entirely inside [s] does not depend on what follows [s] *)
Lemma startswith_ext : forall p s c, startswith p s = true -> startswith p (s ++ c) = true.
Proof.
  intros p s c H. apply startswith_spec in H as [r ->]. rewrite <- app_assoc. apply startswith_app.
Qed.

Lemma startswith_ext_inv : forall p s c, length p <= length s -> startswith p (s ++ c) = true -> startswith p s = true.
Proof.
  induction p as [|x p IH]; intros s c Hl H; simpl in *; [reflexivity|].
  destruct s as [|y s]; simpl in *; [lia|].
  apply andb_true_iff in H as [H1 H2]. rewrite H1. simpl. apply (IH s c); [lia | assumption].
Qed.

Lemma startswith_length : forall p s, startswith p s = true -> length p <= length s.
Proof. intros p s H. apply startswith_spec in H as [r ->]. rewrite app_length. lia. Qed.

(* ------------------------------------------------------------------------------------------ *)
(** * split1 (= bytes.split(sep, 1), bytes.find) *)

Lemma split1_unfold : forall sep s,
  split1 sep s = if startswith sep s then Some ([], skipn (length sep) s)
                 else match s with
                      | [] => None
                      | x :: s' => match split1 sep s' with Some (a, r) => Some (x :: a, r) | None => None end
                      end.
Proof. intros sep [|x s]; reflexivity. Qed.

(** the two pieces and the separator make up the string *)
Lemma split1_sound : forall sep s a r, split1 sep s = Some (a, r) -> s = a ++ sep ++ r.
Proof.
  intros sep. induction s as [|x s IH]; intros a r H; rewrite split1_unfold in H.
  - destruct (startswith sep []) eqn:Hs; [|discriminate]. inversion H; subst.
    apply startswith_skipn in Hs. exact Hs.
  - destruct (startswith sep (x :: s)) eqn:Hs.
    + inversion H; subst. apply startswith_skipn in Hs. exact Hs.
    + destruct (split1 sep s) as [[a' r']|] eqn:Hr; [|discriminate]. inversion H; subst.
      simpl. f_equal. now apply IH.
Qed.

(** ... and the separator does not occur earlier: it is the LEFTMOST occurrence *)
Lemma split1_leftmost : forall sep s a r, split1 sep s = Some (a, r) ->
  forall a' r', s = a' ++ sep ++ r' -> length a <= length a'.
Proof.
  intros sep. induction s as [|x s IH]; intros a r H a' r' Heq; rewrite split1_unfold in H.
  - destruct (startswith sep []); [|discriminate]. inversion H; subst. simpl. lia.
  - destruct (startswith sep (x :: s)) eqn:Hs.
    + inversion H; subst. simpl. lia.
    + destruct (split1 sep s) as [[a1 r1]|] eqn:Hr; [|discriminate]. inversion H; subst.
      destruct a' as [|y a'].
      * simpl in Heq. rewrite Heq, startswith_app in Hs. discriminate.
      * simpl in Heq. inversion Heq; subst. simpl. apply le_n_S. eapply IH; eauto.
Qed.

(** [None] exactly when the separator does not occur *)
Lemma split1_none : forall sep s, split1 sep s = None -> forall a r, s <> a ++ sep ++ r.
Proof.
  intros sep. induction s as [|x s IH]; intros H a r Heq; rewrite split1_unfold in H.
  - destruct (startswith sep []) eqn:Hs; [discriminate|].
    destruct a; simpl in Heq.
    + rewrite Heq, startswith_app in Hs. discriminate.
    + discriminate.
  - destruct (startswith sep (x :: s)) eqn:Hs; [discriminate|].
    destruct (split1 sep s) as [[a1 r1]|] eqn:Hr; [discriminate|].
    destruct a as [|y a]; simpl in Heq.
    + rewrite Heq, startswith_app in Hs. discriminate.
    + inversion Heq; subst. now apply (IH eq_refl a r).
Qed.

Lemma split1_complete : forall sep s a r, s = a ++ sep ++ r -> exists a' r', split1 sep s = Some (a', r').
Proof.
  intros sep s a r Heq. destruct (split1 sep s) as [[a' r']|] eqn:H; [eauto|].
  exfalso. eapply split1_none; eauto.
Qed.

(** the leftmost occurrence found in a buffer is still the leftmost one after more bytes arrive *)
Lemma split1_app : forall sep s c a r, split1 sep s = Some (a, r) -> split1 sep (s ++ c) = Some (a, r ++ c).
Proof.
  intros sep. induction s as [|x s IH]; intros c a r H; rewrite split1_unfold in H.
  - destruct (startswith sep []) eqn:Hs; [|discriminate]. inversion H; subst.
    destruct sep; [|discriminate]. simpl. destruct c; reflexivity.
  - destruct (startswith sep (x :: s)) eqn:Hs.
    + inversion H; subst. rewrite split1_unfold. rewrite (startswith_ext _ _ c Hs).
      f_equal. f_equal. pose proof (startswith_length _ _ Hs) as Hl.
      rewrite skipn_app. replace (length sep - length (x :: s)) with 0 by lia. reflexivity.
    + destruct (split1 sep s) as [[a1 r1]|] eqn:Hr; [|discriminate]. inversion H; subst.
      change ((x :: s) ++ c) with (x :: (s ++ c)). rewrite split1_unfold.
      destruct (startswith sep (x :: s ++ c)) eqn:Hs2.
      * exfalso. (* then sep would start at 0 and reach beyond s; but a later start inside s exists *)
        pose proof (split1_sound _ _ _ _ Hr) as Hsnd.
        assert (Hl : length sep <= length (x :: s)).
        { subst s. simpl. rewrite !app_length. lia. }
        change (x :: s ++ c) with ((x :: s) ++ c) in Hs2.
        rewrite (startswith_ext_inv _ _ _ Hl Hs2) in Hs. discriminate.
      * now rewrite (IH c a1 r eq_refl).
Qed.

(** when the separator shows up only after more bytes arrive, it ends beyond the old buffer *)
Lemma split1_late : forall sep s c a r, sep <> [] -> split1 sep s = None -> split1 sep (s ++ c) = Some (a, r) ->
  length s < length a + length sep.
Proof.
  intros sep s c a r Hne. revert a r. induction s as [|x s IH]; intros a r Hn H.
  - destruct sep; [congruence|]. simpl. lia.
  - rewrite split1_unfold in Hn. destruct (startswith sep (x :: s)) eqn:Hs; [discriminate|].
    destruct (split1 sep s) as [[a1 r1]|] eqn:Hr; [discriminate|].
    change ((x :: s) ++ c) with (x :: (s ++ c)) in H. rewrite split1_unfold in H.
    destruct (startswith sep (x :: s ++ c)) eqn:Hs2.
    + inversion H; subst. simpl.
      destruct (le_lt_dec (length sep) (length (x :: s))) as [Hl|Hl]; [|simpl in Hl; lia].
      change (x :: s ++ c) with ((x :: s) ++ c) in Hs2.
      rewrite (startswith_ext_inv _ _ _ Hl Hs2) in Hs. discriminate.
    + destruct (split1 sep (s ++ c)) as [[a2 r2]|] eqn:Hr2; [|discriminate]. inversion H; subst.
      simpl. apply -> Nat.succ_lt_mono. eapply IH; eauto.
Qed.

Lemma split1_length : forall sep s a r, split1 sep s = Some (a, r) -> length s = length a + length sep + length r.
Proof. intros sep s a r H. apply split1_sound in H. subst. rewrite !app_length. lia. Qed.

(** a piece that does not contain the separator "when followed by it" is found back exactly:
    [clean sep a] says the first occurrence of [sep] in [a ++ sep] is the final one *)
Definition clean (sep a : bytes) : Prop := split1 sep (a ++ sep) = Some (a, []).
Definition cleanb (sep a : bytes) : bool :=
  match split1 sep (a ++ sep) with Some (a', []) => beq a' a | _ => false end.

Lemma cleanb_clean : forall sep a, cleanb sep a = true <-> clean sep a.
Proof.
  intros sep a. unfold cleanb, clean. destruct (split1 sep (a ++ sep)) as [[a' [|y r]]|]; split; intro H; try discriminate.
  - apply beq_eq in H. now subst.
  - inversion H; subst. now apply beq_eq.
Qed.

Lemma split1_clean : forall sep a r, clean sep a -> split1 sep (a ++ sep ++ r) = Some (a, r).
Proof. intros sep a r H. rewrite app_assoc. apply (split1_app _ _ r) in H. exact H. Qed.

(* ------------------------------------------------------------------------------------------ *)
(** * split_all (= bytes.split(sep)) *)

Lemma split1_nil : forall sep, sep <> [] -> split1 sep [] = None.
Proof. intros [|y sep] H; [congruence | reflexivity]. Qed.

Lemma split_fuel_enough : forall sep, sep <> [] -> forall n m s, length s <= n -> length s <= m ->
  split_fuel n sep s = split_fuel m sep s.
Proof.
  intros sep Hne. induction n as [|n IH]; intros m s Hn Hm.
  - destruct s; [|simpl in Hn; lia]. destruct m; cbn [split_fuel]; [reflexivity|].
    now rewrite split1_nil.
  - destruct m as [|m].
    + destruct s; [|simpl in Hm; lia]. cbn [split_fuel]. now rewrite split1_nil.
    + cbn [split_fuel]. destruct (split1 sep s) as [[a r]|] eqn:Hs; [|reflexivity].
      pose proof (split1_length _ _ _ _ Hs) as Hl. destruct sep as [|y sep]; [congruence|]. simpl in Hl.
      f_equal. apply IH; lia.
Qed.

Lemma split_all_unfold : forall sep s, sep <> [] ->
  split_all sep s = match split1 sep s with None => [s] | Some (a, r) => a :: split_all sep r end.
Proof.
  intros sep s Hne. unfold split_all. destruct s as [|x s].
  - cbn [length split_fuel]. now rewrite split1_nil.
  - cbn [length split_fuel]. destruct (split1 sep (x :: s)) as [[a r]|] eqn:Hs; [|reflexivity].
    pose proof (split1_length _ _ _ _ Hs) as Hl. destruct sep as [|y sep]; [congruence|]. simpl in Hl.
    f_equal. apply split_fuel_enough; [congruence | lia | lia].
Qed.

(** Python's law  sep.join(s.split(sep)) == s *)
Fixpoint join (sep : bytes) (ps : list bytes) : bytes :=
  match ps with
  | [] => []
  | [p] => p
  | p :: ps' => p ++ sep ++ join sep ps'
  end.

Lemma split_all_nonempty : forall sep s, sep <> [] -> split_all sep s <> [].
Proof. intros sep s Hne. rewrite split_all_unfold by assumption. destruct (split1 sep s) as [[a r]|]; discriminate. Qed.

Lemma split_join : forall sep, sep <> [] -> forall s, join sep (split_all sep s) = s.
Proof.
  intros sep Hne s. remember (length s) as n eqn:Hn. revert s Hn.
  induction n as [n IH] using lt_wf_ind. intros s Hn.
  rewrite split_all_unfold by assumption. destruct (split1 sep s) as [[a r]|] eqn:Hs; [|reflexivity].
  pose proof (split1_length _ _ _ _ Hs) as Hl. pose proof (split1_sound _ _ _ _ Hs) as Hsnd.
  assert (Hlt : length r < n). { destruct sep; [congruence|]. simpl in Hl. lia. }
  simpl. pose proof (split_all_nonempty sep r Hne) as Hne2.
  destruct (split_all sep r) as [|p ps] eqn:Hsp; [congruence|].
  rewrite <- Hsp, (IH (length r) Hlt r eq_refl). symmetry. exact Hsnd.
Qed.

(* ------------------------------------------------------------------------------------------ *)
(** * big-endian integers (struct "!B" "!H" "!I", int.from_bytes / to_bytes) *)

Lemma be_acc_app : forall a b acc, be_acc acc (a ++ b) = be_acc (be_acc acc a) b.
Proof. induction a as [|x a IH]; intros b acc; simpl; [reflexivity | apply IH]. Qed.

Lemma N_to_be_length : forall k n, length (N_to_be k n) = k.
Proof. induction k as [|k IH]; intros n; simpl; [reflexivity|]. rewrite app_length, IH. simpl. lia. Qed.

Lemma be_roundtrip : forall k n, (n < 256 ^ N.of_nat k)%N -> be_to_N (N_to_be k n) = n.
Proof.
  unfold be_to_N. induction k as [|k IH]; intros n Hn.
  - simpl in *. lia.
  - cbn [N_to_be]. rewrite be_acc_app. simpl.
    rewrite IH.
    + pose proof (N.div_mod n 256). lia.
    + rewrite Nat2N.inj_succ, N.pow_succ_r' in Hn. apply N.div_lt_upper_bound; lia.
Qed.

Lemma N_to_be_bytes : forall k n, Forall (fun b => (b < 256)%N) (N_to_be k n).
Proof.
  induction k as [|k IH]; intros n; simpl; [constructor|].
  apply Forall_app. split; [apply IH|]. constructor; [|constructor]. apply N.mod_lt. lia.
Qed.

Lemma be_acc_bound : forall bs acc, Forall (fun b => (b < 256)%N) bs ->
  (be_acc acc bs < (acc + 1) * 256 ^ N.of_nat (length bs))%N.
Proof.
  induction bs as [|b bs IH]; intros acc HF; simpl length.
  - simpl. lia.
  - inversion HF as [|? ? Hb HF']; subst. cbn [be_acc]. specialize (IH (acc * 256 + b)%N HF').
    rewrite Nat2N.inj_succ, N.pow_succ_r'. nia.
Qed.

Lemma be_to_N_bound : forall bs, Forall (fun b => (b < 256)%N) bs -> (be_to_N bs < 256 ^ N.of_nat (length bs))%N.
Proof. intros bs HF. pose proof (be_acc_bound bs 0%N HF). unfold be_to_N. lia. Qed.

(* ------------------------------------------------------------------------------------------ *)
(** * ASCII decimal: int(str(n)) == n, and the shape of str(n) *)

Lemma dec_acc_app : forall a b acc, dec_acc acc (a ++ b) = dec_acc (dec_acc acc a) b.
Proof. induction a as [|x a IH]; intros b acc; simpl; [reflexivity | apply IH]. Qed.

Lemma dec_acc_ge : forall ds acc, (acc <= dec_acc acc ds)%N.
Proof.
  induction ds as [|d ds IH]; intros acc; simpl; [lia|].
  specialize (IH (acc * 10 + (d - 48))%N). lia.
Qed.

Lemma pow10_succ : forall k, (10 ^ N.of_nat (S k) = 10 * 10 ^ N.of_nat k)%N.
Proof. intros k. rewrite Nat2N.inj_succ, N.pow_succ_r'. reflexivity. Qed.

Lemma pow10_pos : forall k, (0 < 10 ^ N.of_nat k)%N.
Proof. intros k. apply N.neq_0_lt_0. apply N.pow_nonzero. lia. Qed.

Lemma lt_pow10_log2 : forall n, (n < 10 ^ N.of_nat (S (N.to_nat (N.log2 n))))%N.
Proof.
  intros n. rewrite Nat2N.inj_succ, N2Nat.id. destruct (N.eq_dec n 0) as [->|Hn].
  - simpl. lia.
  - pose proof (N.log2_spec n ltac:(lia)) as [_ H].
    eapply N.lt_le_trans; [exact H|]. apply N.pow_le_mono_l. lia.
Qed.

Lemma digits_value : forall f n acc, (n < 10 ^ N.of_nat f)%N ->
  dec_acc 0 (N_to_digits_fuel f n acc) = dec_acc n acc.
Proof.
  induction f as [|f IH]; intros n acc Hn.
  - simpl in Hn. assert (n = 0%N) by lia. subst. reflexivity.
  - cbn [N_to_digits_fuel]. destruct (n <? 10)%N eqn:Hlt.
    + apply N.ltb_lt in Hlt. cbn [dec_acc]. f_equal. lia.
    + apply N.ltb_ge in Hlt. rewrite pow10_succ in Hn.
      rewrite IH by (apply N.div_lt_upper_bound; lia).
      cbn [dec_acc]. f_equal. pose proof (N.div_mod n 10 ltac:(lia)) as Hdm. clear Hn IH.
      remember (n / 10)%N as q. remember (n mod 10)%N as m. clear Heqq Heqm. lia.
Qed.

Lemma digits_to_N_to_digits : forall n, digits_to_N (N_to_digits n) = n.
Proof. intros n. unfold digits_to_N, N_to_digits. rewrite digits_value by apply lt_pow10_log2. reflexivity. Qed.

Definition digitp (x : N) : Prop := is_digit x = true.

Lemma is_digit_48_plus : forall m, (m < 10)%N -> is_digit (48 + m) = true.
Proof. intros m H. unfold is_digit. apply andb_true_iff. split; apply N.leb_le; lia. Qed.

Lemma digits_shape : forall f n acc, (n < 10 ^ N.of_nat f)%N -> (0 < n)%N ->
  exists d ds, N_to_digits_fuel f n acc = d :: ds ++ acc /\ digitp d /\ N.eqb d 48 = false /\
               Forall digitp ds /\ (10 ^ N.of_nat (length ds) <= n)%N.
Proof.
  induction f as [|f IH]; intros n acc Hn Hpos.
  - simpl in Hn. lia.
  - cbn [N_to_digits_fuel]. destruct (n <? 10)%N eqn:Hlt.
    + apply N.ltb_lt in Hlt. exists (48 + n)%N, []. repeat split.
      * now apply is_digit_48_plus.
      * apply N.eqb_neq. lia.
      * constructor.
      * simpl. lia.
    + apply N.ltb_ge in Hlt. rewrite pow10_succ in Hn.
      assert (Hq : (0 < n / 10)%N) by (apply N.div_str_pos; lia).
      destruct (IH (n / 10)%N ((48 + n mod 10)%N :: acc) ltac:(apply N.div_lt_upper_bound; lia) Hq)
        as (d & ds & Heq & Hd & Hd48 & Hds & Hlen).
      exists d, (ds ++ [(48 + n mod 10)%N]). repeat split; try assumption.
      * rewrite Heq. rewrite <- app_assoc. reflexivity.
      * apply Forall_app. split; [assumption|]. constructor; [|constructor].
        apply is_digit_48_plus. apply N.mod_lt. lia.
      * rewrite app_length. simpl. rewrite Nat.add_1_r, pow10_succ.
        pose proof (N.div_mod n 10 ltac:(lia)) as Hdm.
        remember (n / 10)%N as q. remember (n mod 10)%N as m. remember (10 ^ N.of_nat (length ds))%N as p.
        clear - Hdm Hlen. lia.
Qed.

