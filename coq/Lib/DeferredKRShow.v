(** DeferredKRShow: canonical printing of DeferredKR runs (correspondence check only); same format as DeferredKShow. *)
From Coq Require Import List Arith ZArith Bool String.
From TwLib Require Import Show DeferredK DeferredKR.
Import ListNotations.
Local Open Scope string_scope.

Definition show_rvalue (v : value) : string :=
  match v with
  | VNone => "N"
  | VInt z => show_Z z
  | VFail e => if Z.eqb e cancelled_error then "EC" else if Z.eqb e already_error then "EA"
               else if Z.eqb e recursion_error then "ER" else "E" ++ show_Z e
  | VDef i => "D" ++ show_nat i
  end.

Definition show_rev (e : ev) : list string :=
  match e with
  | ERun d k a => ["R" ++ show_nat d ++ "." ++ show_nat k ++ "(" ++ show_rvalue a ++ ")"]
  | EFired d _ _ => ["F" ++ show_nat d]
  | EAlready _ => ["A"]
  | ESwallow _ => ["S"]
  | ECancelNone _ => []
  | ECanceller d => ["K" ++ show_nat d]
  | ECancRaise _ e => ["X" ++ show_Z e]
  | ERecursion _ => ["RE"]
  end.

Definition show_revs (l : list ev) : string :=
  match flat_map show_rev l with [] => "-" | ss => String.concat "," ss end.

Definition rpending_ids (D : rdfr) : list nat :=
  flat_map (fun e => match e with RPair k _ _ => [k] | RCont _ => [] end) (rcbs D).

Definition show_rdfr (D : rdfr) : string :=
  show_bool (rcalled D) ++ ":" ++ match rres D with None => "-" | Some v => show_rvalue v end
  ++ ":" ++ show_Z (rpaused D) ++ ":" ++ show_list show_nat (rpending_ids D).

Definition show_rprogram (p : rprogram) : string :=
  match run_rprogram 2000 p with
  | None => "OUT-OF-FUEL"
  | Some (s, ls) =>
      String.concat " " (map show_revs ls) ++ " | " ++ String.concat " " (map show_rdfr (rheap_of s))
  end.
