(** Round-robin over a live list with a persistent CPython list iterator (cluster coop-triggers, C11):
    bounded wait.

    The machine is a pair (l, m): a list of ids and the index of a list iterator into it.  Events
    (the log is NEWEST FIRST, like the ghost logs of the models):
      ANext x   `next()` of the round-robin: the element at the index and index+1; when the iterator
                is exhausted a fresh iterator is taken (index 0) — x is the element the log CLAIMS was
                yielded ([consistent] says every claim is what the machine yields);
      AApp x    l.append(x);   ARem x   l.remove(x) (first occurrence, no-op when absent);
      AClear    the list is emptied / found empty and the iterator restarts;   ANop   anything else.

    Theorem [bounded_wait]: while an element t stays in the list and is not yielded, the number of
    `next()` calls is at most  N * (1 + #removals) + #appends  with N = (length at the start + #appends):
    every `next()` of another element brings the cursor one step closer to t (potential [dist]),
    an append moves it at most one step away, and a removal — which may shift t behind the cursor,
    so that t is skipped once — at most a whole round. *)
From Coq Require Import List Arith Bool Lia.
From TwLib Require Import PyListIter.
Import ListNotations.

Inductive aev := ANext (x : nat) | AApp (x : nat) | ARem (x : nat) | AClear | ANop.

Definition astate := (list nat * nat)%type.

(** what `next()` yields and the state it leaves *)
Definition anext (s : astate) : option nat * astate :=
  let '(l, m) := s in
  match it_next l m with
  | Some (x, m') => (Some x, (l, m'))
  | None =>
      match it_next l 0 with
      | Some (x, m') => (Some x, (l, m'))
      | None => (None, (l, 0))
      end
  end.

Definition astep (s : astate) (e : aev) : astate :=
  match e with
  | ANext _ => snd (anext s)
  | AApp x => (fst s ++ [x], snd s)
  | ARem x => (remove_first x (fst s), snd s)
  | AClear => ([], 0)
  | ANop => s
  end.

(** state after a log (newest first) *)
Definition aafter (s0 : astate) (o : list aev) : astate := fold_right (fun e s => astep s e) s0 o.

(** every ANext in the log claims exactly what the machine yields at that point *)
Fixpoint consistent (s0 : astate) (o : list aev) : Prop :=
  match o with
  | [] => True
  | e :: r => match e with ANext x => fst (anext (aafter s0 r)) = Some x | _ => True end /\ consistent s0 r
  end.

Definition count_next (o : list aev) : nat := length (filter (fun e => match e with ANext _ => true | _ => false end) o).
Definition count_app (o : list aev) : nat := length (filter (fun e => match e with AApp _ => true | _ => false end) o).
Definition count_rem (o : list aev) : nat := length (filter (fun e => match e with ARem _ => true | _ => false end) o).

(** t stays in the list and is not yielded *)
Definition undisturbed (t : nat) (e : aev) : Prop :=
  match e with ANext x => x <> t | ARem x => x <> t | AClear => False | _ => True end.

(** number of `next()` calls before the cursor reaches position p when nothing else happens *)
Definition dist (l : list nat) (m p : nat) : nat :=
  if Nat.leb m p then p - m else (length l - m) + p.

Lemma dist_lt l m p : p < length l -> dist l m p < length l.
Proof. unfold dist. intros H. destruct (Nat.leb_spec m p); lia. Qed.

Lemma nth_error_neq_index l m x t : nth_error l m = Some x -> x <> t -> In t l -> m <> index_of t l.
Proof. intros H Hx Hin ->. rewrite (nth_error_index_of t l Hin) in H. congruence. Qed.

(** a `next()` that yields another element brings the cursor exactly one step closer *)
Lemma anext_dist l m t x :
  In t l -> fst (anext (l, m)) = Some x -> x <> t ->
  let '(l', m') := snd (anext (l, m)) in
  l' = l /\ S (dist l m' (index_of t l)) = dist l m (index_of t l).
Proof.
  intros Hin Hy Hx. pose proof (index_of_lt t l Hin) as Hp. unfold anext in *. unfold it_next in *.
  destruct (nth_error l m) as [y|] eqn:E.
  - cbn in Hy. inversion Hy; subst y. cbn. split; [reflexivity|].
    pose proof (nth_error_neq_index l m x t E Hx Hin) as Hne.
    assert (Hm : m < length l) by (apply nth_error_Some; congruence).
    unfold dist. destruct (Nat.leb_spec (S m) (index_of t l)); destruct (Nat.leb_spec m (index_of t l)); lia.
  - apply nth_error_None in E. destruct (nth_error l 0) as [y|] eqn:E0.
    + cbn in Hy. inversion Hy; subst y. cbn. split; [reflexivity|].
      pose proof (nth_error_neq_index l 0 x t E0 Hx Hin) as Hne.
      unfold dist. destruct (Nat.leb_spec 1 (index_of t l)); destruct (Nat.leb_spec m (index_of t l)); lia.
    + cbn in Hy. discriminate.
Qed.

Lemma index_of_app t l x : In t l -> index_of t (l ++ [x]) = index_of t l.
Proof.
  induction l as [|y l IH]; cbn; [tauto|]. destruct (Nat.eqb_spec t y); [reflexivity|].
  intros [E | H]; [congruence|]. f_equal. auto.
Qed.

Lemma dist_app l m p x : dist (l ++ [x]) m p <= S (dist l m p).
Proof. unfold dist. rewrite app_length. cbn. destruct (Nat.leb_spec m p); lia. Qed.

Lemma remove_first_length_le x l : length (remove_first x l) <= length l.
Proof. induction l as [|y l IH]; cbn; [lia|]. destruct (Nat.eqb x y); cbn; lia. Qed.

(** the invariant carried along the log *)
Lemma bounded_wait_gen t s0 : In t (fst s0) -> forall o,
  Forall (undisturbed t) o -> consistent s0 o ->
  let s := aafter s0 o in
  In t (fst s)
  /\ length (fst s) <= length (fst s0) + count_app o
  /\ count_next o + dist (fst s) (snd s) (index_of t (fst s))
     <= dist (fst s0) (snd s0) (index_of t (fst s0)) + count_app o
        + count_rem o * (length (fst s0) + count_app o).
Proof.
  intros Hin0. induction o as [|e o IH]; intros Hu Hc.
  - cbn. split; [exact Hin0|]. split; lia.
  - inversion Hu as [|? ? Hue Huo]; subst. destruct Hc as [Hce Hco].
    specialize (IH Huo Hco). cbn zeta in IH. destruct IH as (Hin & Hlen & Hpot).
    cbn [aafter fold_right]. fold (aafter s0 o). set (s := aafter s0 o) in *.
    destruct s as [l m]. cbn [fst snd] in *.
    destruct e as [x | x | x | |]; cbn [astep undisturbed] in *.
    + (* next *)
      pose proof (anext_dist l m t x Hin Hce Hue) as Hd.
      destruct (snd (anext (l, m))) as [l' m'] eqn:En. destruct Hd as [-> Hd]. cbn [fst snd].
      unfold count_next, count_app, count_rem in *. cbn [filter length]. split; [exact Hin|]. split; [exact Hlen|]. lia.
    + (* append *)
      cbn [fst snd]. unfold count_next, count_app, count_rem in *. cbn [filter length].
      split; [apply in_or_app; left; exact Hin|]. split; [rewrite app_length; cbn; lia|].
      rewrite (index_of_app t l x Hin). pose proof (dist_app l m (index_of t l) x).
      set (N := length (fst s0) + length (filter _ o)) in *.
      assert (length (filter (fun e => match e with ARem _ => true | _ => false end) o) * N
              <= length (filter (fun e => match e with ARem _ => true | _ => false end) o) * S N) by (apply Nat.mul_le_mono_l; lia).
      replace (length (fst s0) + S (length (filter (fun e : aev => match e with AApp _ => true | _ => false end) o))) with (S N) by (unfold N; lia).
      lia.
    + (* remove another element *)
      cbn [fst snd]. unfold count_next, count_app, count_rem in *. cbn [filter length].
      assert (Hin' : In t (remove_first x l)) by (apply remove_first_In_neq; auto).
      split; [exact Hin'|]. pose proof (remove_first_length_le x l) as Hl. split; [lia|].
      pose proof (dist_lt (remove_first x l) m (index_of t (remove_first x l)) (index_of_lt t _ Hin')) as Hd.
      set (N := length (fst s0) + length (filter (fun e : aev => match e with AApp _ => true | _ => false end) o)) in *.
      cbn [Nat.mul]. lia.
    + destruct Hue.
    + cbn [fst snd]. unfold count_next, count_app, count_rem in *. cbn [filter length]. tauto.
Qed.

(** BOUNDED WAIT.  [o] is any stretch of the log (newest first) starting in state [s0] during which t stays
    listed and is not yielded: the number of `next()` calls in it is at most N*(1+removals)+appends, where
    N = (list length at the start) + appends bounds the list length throughout *)
Theorem bounded_wait t s0 o :
  In t (fst s0) -> Forall (undisturbed t) o -> consistent s0 o ->
  count_next o <= (length (fst s0) + count_app o) * (1 + count_rem o) + count_app o.
Proof.
  intros Hin Hu Hc. destruct (bounded_wait_gen t s0 Hin o Hu Hc) as (_ & _ & H).
  pose proof (dist_lt (fst s0) (snd s0) (index_of t (fst s0)) (index_of_lt t _ Hin)).
  set (N := length (fst s0) + count_app o) in *. nia.
Qed.

(** when the potential is 0 the next `next()` yields t: the bound is about the actual waiting time *)
Lemma dist_zero_yields l m t : In t l -> dist l m (index_of t l) = 0 -> fst (anext (l, m)) = Some t.
Proof.
  intros Hin Hd. pose proof (index_of_lt t l Hin) as Hp. pose proof (nth_error_index_of t l Hin) as Hn.
  unfold dist in Hd. unfold anext, it_next. destruct (Nat.leb_spec m (index_of t l)).
  - assert (m = index_of t l) by lia. subst m. rewrite Hn. reflexivity.
  - assert (E : nth_error l m = None) by (apply nth_error_None; lia). rewrite E.
    assert (index_of t l = 0) by lia. rewrite H0 in Hn. rewrite Hn. reflexivity.
Qed.
