(** WireDnsShow: printers for the DNS model, used by the C32 / C33 correspondence checks only. *)
From Coq Require Import List NArith ZArith Bool String Ascii.
From TwLib Require Import Show PyInt WireIter WireDns.
Import ListNotations.
Local Open Scope string_scope.

(** byte strings are passed to the model as hexadecimal string literals (Coq parses a string
    literal much faster than a list of numerals) *)
Definition hexval (c : ascii) : N :=
  let n := N_of_ascii c in
  if (n <? 58)%N then (n - 48)%N else (n - 87)%N.      (* '0'-'9', 'a'-'f' *)
Fixpoint hx (s : string) : list N :=
  match s with
  | String a (String b r) => (hexval a * 16 + hexval b)%N :: hx r
  | _ => []
  end.

Definition show_exn (e : pyexn) : string :=
  match e with
  | StructError => "StructError" | AssertionError => "AssertionError" | TypeError => "TypeError"
  | OverflowError => "OverflowError" | ValueError => "ValueError" | EOFError => "EOFError"
  | IndexError => "IndexError"
  end.

Fixpoint dotted (ls : list label) : list N :=
  match ls with
  | [] => []
  | [l] => l
  | l :: r => (l ++ [46%N] ++ dotted r)%list
  end.

Definition commas (l : list string) : string := String.concat "," l.

Definition show_fval (v : fval) : string :=
  match v with
  | VU n => "u" ++ show_N n
  | VS z => "s" ++ show_Z z
  | VName ls => "n" ++ show_hex (dotted ls)
  | VBytes b => "b" ++ show_hex b
  | VList l => "l" ++ String.concat ":" (map show_hex l)
  | VA6 p s n => "a" ++ show_N p ++ ":" ++ show_hex s ++ ":" ++ show_hex (dotted n)
  end.

Definition show_query (q : query) : string :=
  show_hex (dotted (q_name q)) ++ "/" ++ show_N (q_type q) ++ "/" ++ show_N (q_cls q).

Definition show_rr (r : rr) : string :=
  show_hex (dotted (r_name r)) ++ "/" ++ show_N (r_type r) ++ "/" ++ show_N (r_cls r) ++ "/" ++ show_N (r_ttl r)
  ++ "/" ++ String.concat ";" (map show_fval (r_data r)).

Definition show_header (h : header) : string :=
  commas (map show_N [h_id h; h_answer h; h_opCode h; h_auth h; h_trunc h; h_recDes h; h_recAv h;
                      h_authenticData h; h_checkingDisabled h; h_rCode h]).

Definition show_message (m : message) : string :=
  show_header (m_hdr m) ++ " Q[" ++ String.concat " " (map show_query (m_queries m))
  ++ "] AN[" ++ String.concat " " (map show_rr (m_answers m))
  ++ "] NS[" ++ String.concat " " (map show_rr (m_authority m))
  ++ "] AR[" ++ String.concat " " (map show_rr (m_additional m)) ++ "]".

Definition show_outcome {A} (f : A -> string) (o : outcome A) : string :=
  match o with Done a => f a | Raise e => "E:" ++ show_exn e | Fuel => "FUEL" end.

Inductive case :=
| CMsg (m : message) (maxSize : N)     (* toStr, then fromStr of the result *)
| CRaw (data : list N).                (* fromStr of arbitrary bytes *)

Definition run_show (c : case) : string :=
  match c with
  | CMsg m mx =>
      match enc_message m mx with
      | Err e => "E:" ++ show_exn e
      | Ok b => show_hex b ++ "|" ++ show_outcome show_message (dec_message b)
      end
  | CRaw d => show_outcome show_message (dec_message d)
  end.
