(** WireDnsTotal: totality and termination of the DNS decoders of WireDns.v (used by C33, and by
    C32 to discharge the fuel of Name.decode).

    Main results, for every message made of bytes ([bytes_ok]):
      [name_never_out_of_fuel]   Name.decode's loop ends within the model's budget — each pass
                                 either consumes input or adds a NEW pointer target below 2^14 to
                                 the visited set, so pointer cycles end in ValueError;
      [dec_message_safe]         decoding any byte string yields a message, EOFError or ValueError,
                                 never another exception class and never [Fuel]. *)
From Coq Require Import List NArith ZArith Bool Lia ZifyBool.
From TwLib Require Import PyInt WireIter WireDns.
Import ListNotations.
Open Scope N_scope.

Definition bytes_ok (msg : list N) : Prop := Forall (fun b => b < 256) msg.

(** the outcomes the DNS protocols treat as "malformed packet" or success *)
Definition safe {A} (o : outcome A) : Prop :=
  match o with
  | Done _ => True
  | Raise EOFError => True
  | Raise ValueError => True
  | _ => False
  end.

Lemma safe_obind {A B} (o : outcome A) (f : A -> outcome B) :
  safe o -> (forall a, o = Done a -> safe (f a)) -> safe (obind o f).
Proof. destruct o as [a|e|]; cbn; auto. Qed.

(** ------------------------------------------------------------------ reads --- *)

Lemma dropN_In {A} (n : N) (l : list A) x : In x (dropN n l) -> In x l.
Proof.
  revert n; induction l as [|y l IH]; intros n H; [destruct H|].
  cbn [dropN] in H. destruct (n =? 0); [exact H|]. right. eapply IH; eauto.
Qed.

Lemma takeN_In {A} (n : N) (l : list A) x : In x (takeN n l) -> In x l.
Proof.
  revert n; induction l as [|y l IH]; intros n H; [destruct H|].
  cbn [takeN] in H. destruct (n =? 0); [destruct H|]. destruct H as [H|H]; [now left|right; eapply IH; eauto].
Qed.

Lemma dropN_nonnil_lt {A} (n : N) (l : list A) : dropN n l <> [] -> n < blen l.
Proof.
  intros H. destruct (N.lt_ge_cases n (blen l)) as [L|G]; [exact L|].
  exfalso. apply H. now apply dropN_all.
Qed.

Lemma read1_spec msg pos b p : read1 msg pos = Done (b, p) -> p = pos + 1 /\ pos < blen msg /\ In b msg.
Proof.
  unfold read1. destruct (dropN pos msg) as [|x r] eqn:E; [discriminate|].
  intros H; inversion H; subst. repeat split.
  - apply dropN_nonnil_lt. rewrite E. discriminate.
  - apply (dropN_In pos). rewrite E. now left.
Qed.

Lemma read1_safe msg pos : safe (read1 msg pos).
Proof. unfold read1. destruct (dropN pos msg); exact I. Qed.

Lemma readp_safe msg pos l : safe (readp msg pos l).
Proof. unfold readp. destruct (_ <? _); exact I. Qed.

Lemma readp_spec msg pos l b p : readp msg pos l = Done (b, p) -> p = pos + l /\ blen b = l.
Proof.
  unfold readp. destruct (blen (slice msg pos l) <? l) eqn:E; [discriminate|].
  intros H; inversion H; subst. split; [reflexivity|].
  unfold slice in *. rewrite blen_takeN in *. lia.
Qed.

Lemma read_u_safe msg pos k : safe (read_u msg pos k).
Proof.
  unfold read_u. apply safe_obind; [apply readp_safe|]. intros [b p] _. exact I.
Qed.

(** ------------------------------------------------------------------ Name.decode terminates --- *)

Definition vis_ok (vis : list N) : Prop := NoDup vis /\ forall v, In v vis -> v < 16384.

(** pigeonhole: a duplicate-free list of numbers below 2^14 has at most 2^14 elements *)
Lemma vis_ok_length vis : vis_ok vis -> blen vis <= 16384.
Proof.
  intros [ND B].
  assert (incl vis (map N.of_nat (seq 0 (N.to_nat 16384)))) as I.
  { intros v Hv. specialize (B v Hv). apply in_map_iff. exists (N.to_nat v). split; [lia|].
    apply in_seq. lia. }
  pose proof (NoDup_incl_length ND I) as L. rewrite map_length, seq_length in L. unfold blen. lia.
Qed.

Lemma new_off_bound l b2 : b2 < 256 -> N.lor (N.shiftl (N.land l 63) 8) b2 < 16384.
Proof.
  intros B.
  assert (N.land l 63 < 64) as A.
  { change 63 with (N.ones 6). rewrite N.land_ones. apply N.mod_lt. discriminate. }
  rewrite N.shiftl_mul_pow2. change (2 ^ 8) with 256.
  set (a := N.land l 63 * 256) in *.
  destruct (N.eq_dec (N.lor a b2) 0) as [Z|NZ]; [rewrite Z; lia|].
  apply N.log2_lt_pow2 with (b := 14); [lia|]. rewrite N.log2_lor.
  apply N.max_lub_lt.
  - destruct (N.eq_dec a 0) as [->|Na]; [cbn; lia|]. apply N.log2_lt_pow2; [lia|]. change (2 ^ 14) with 16384. unfold a. lia.
  - destruct (N.eq_dec b2 0) as [->|Nb]; [cbn; lia|]. apply N.log2_lt_pow2; [lia|]. change (2 ^ 14) with 16384. lia.
Qed.

Definition name_mu (msg : list N) (s : nstate) : nat :=
  N.to_nat ((16385 - blen (n_vis s)) * (blen msg + 2) + (blen msg + 1 - N.min (n_pos s) (blen msg + 1))).

Lemma existsb_eqb_false x l : existsb (N.eqb x) l = false -> ~ In x l.
Proof.
  intros H I. assert (existsb (N.eqb x) l = true) as T.
  { apply existsb_exists. exists x. split; [exact I|apply N.eqb_refl]. }
  congruence.
Qed.

Lemma name_step_decreases msg : bytes_ok msg ->
  forall s s', vis_ok (n_vis s) -> name_step msg s = inl s' ->
  vis_ok (n_vis s') /\ (name_mu msg s' < name_mu msg s)%nat.
Proof.
  intros BO s s' VO H. unfold name_step in H.
  destruct (read1 msg (n_pos s)) as [[l p1]|e|] eqn:R1; try discriminate.
  apply read1_spec in R1 as (-> & Lt & _).
  destruct (l =? 0); [discriminate|].
  destruct (N.shiftr l 6 =? 3).
  - destruct (read1 msg (n_pos s + 1)) as [[b2 p2]|e|] eqn:R2; try discriminate.
    apply read1_spec in R2 as (-> & _ & Inb).
    destruct (existsb _ _) eqn:EX; [discriminate|]. inversion H; subst s'; clear H.
    cbn [n_vis n_pos].
    set (new := N.lor (N.shiftl (N.land l 63) 8) b2) in *.
    assert (new < 16384) as NB.
    { apply new_off_bound. unfold bytes_ok in BO. rewrite Forall_forall in BO. now apply BO. }
    assert (vis_ok (new :: n_vis s)) as VO'.
    { destruct VO as [ND B]. split.
      - constructor; [now apply existsb_eqb_false|exact ND].
      - intros v [<-|Hv]; [exact NB|now apply B]. }
    split; [exact VO'|].
    apply vis_ok_length in VO'. rewrite blen_cons in VO'.
    unfold name_mu. cbn [n_vis n_pos]. rewrite blen_cons.
    set (v := blen (n_vis s)) in *. set (L := blen msg) in *.
    replace (16385 - v) with ((16385 - (1 + v)) + 1) by lia.
    rewrite N.mul_add_distr_r. generalize ((16385 - (1 + v)) * (L + 2)). intros X. lia.
  - destruct (readp msg (n_pos s + 1) l) as [[lab p2]|e|] eqn:RP; try discriminate.
    apply readp_spec in RP as [-> _]. inversion H; subst s'; clear H.
    cbn [n_vis n_pos]. split; [exact VO|].
    unfold name_mu. cbn [n_vis n_pos].
    generalize ((16385 - blen (n_vis s)) * (blen msg + 2)). intros X. lia.
Qed.

Lemma name_step_no_fuel msg s r : name_step msg s = inr r -> r <> Fuel.
Proof.
  unfold name_step. pose proof (read1_safe msg (n_pos s)) as S1.
  destruct (read1 msg (n_pos s)) as [[l p1]|e|]; try (intros H; inversion H; subst; discriminate); [|destruct S1].
  destruct (l =? 0); [intros H; inversion H; discriminate|].
  destruct (N.shiftr l 6 =? 3).
  - pose proof (read1_safe msg p1) as S2.
    destruct (read1 msg p1) as [[b2 p2]|e|]; try (intros H; inversion H; subst; discriminate); [|destruct S2].
    destruct (existsb _ _); intros H; inversion H; discriminate.
  - pose proof (readp_safe msg p1 l) as S3.
    destruct (readp msg p1 l) as [[lab p2]|e|]; try (intros H; inversion H; subst; discriminate). destruct S3.
Qed.

Lemma name_step_safe msg s r : name_step msg s = inr r -> safe r.
Proof.
  unfold name_step. pose proof (read1_safe msg (n_pos s)) as S1.
  destruct (read1 msg (n_pos s)) as [[l p1]|e|]; try (intros H; inversion H; subst; exact S1).
  destruct (l =? 0); [intros H; inversion H; exact I|].
  destruct (N.shiftr l 6 =? 3).
  - pose proof (read1_safe msg p1) as S2.
    destruct (read1 msg p1) as [[b2 p2]|e|]; try (intros H; inversion H; subst; exact S2).
    destruct (existsb _ _); intros H; inversion H; exact I.
  - pose proof (readp_safe msg p1 l) as S3.
    destruct (readp msg p1 l) as [[lab p2]|e|]; try (intros H; inversion H; subst; exact S3).
Qed.

Lemma iter_nat_result_from_step {S R} (step : S -> S + R) (P : R -> Prop) :
  (forall s r, step s = inr r -> P r) -> forall n s r, iter_nat step n s = inr r -> P r.
Proof.
  intros H. induction n as [|n IH]; intros s r E; [discriminate|].
  cbn [iter_nat] in E. destruct (step s) as [s'|r'] eqn:St; [eapply IH; eauto|].
  inversion E; subst. eapply H; eauto.
Qed.

Lemma name_fuel_nat msg : Pos.to_nat (name_fuel msg) = S (N.to_nat (name_fuel_N msg)).
Proof.
  unfold name_fuel. pose proof (N.succ_pos_spec (name_fuel_N msg)) as E.
  assert (N.to_nat (N.pos (N.succ_pos (name_fuel_N msg))) = N.to_nat (N.succ (name_fuel_N msg))) as F by now rewrite E.
  cbn [N.to_nat] in F. rewrite F. lia.
Qed.

(** the loop always ends within the budget, from any state with a well-formed visited set *)
Lemma name_loop_ends msg s : bytes_ok msg -> vis_ok (n_vis s) ->
  exists r, iter_nat (name_step msg) (Pos.to_nat (name_fuel msg)) s = inr r.
Proof.
  intros BO VO.
  apply iter_nat_measure_inv with (mu := name_mu msg) (I := fun s => vis_ok (n_vis s)).
  - intros a a' Ia St. now apply name_step_decreases.
  - exact VO.
  - rewrite name_fuel_nat. unfold name_mu, name_fuel_N.
    pose proof (vis_ok_length _ VO) as VL.
    set (v := blen (n_vis s)) in *. set (L := blen msg) in *.
    assert ((16385 - v) * (L + 2) <= 16385 * (L + 2)) by (apply N.mul_le_mono_r; lia).
    revert H. generalize ((16385 - v) * (L + 2)) (16385 * (L + 2)). intros X Y H. lia.
Qed.

Lemma vis_ok_nil : vis_ok [].
Proof. split; [constructor|intros v []]. Qed.

Theorem name_never_out_of_fuel msg pos : bytes_ok msg -> dec_name msg pos <> Fuel /\ safe (dec_name msg pos).
Proof.
  intros BO. unfold dec_name. rewrite iter_pos_nat.
  destruct (name_loop_ends msg (mkN pos [] [] 0) BO vis_ok_nil) as [r E]. rewrite E.
  split.
  - eapply (iter_nat_result_from_step (name_step msg) (fun r => r <> Fuel)); [apply name_step_no_fuel|exact E].
  - eapply (iter_nat_result_from_step (name_step msg) safe); [apply name_step_safe|exact E].
Qed.

(** whatever number of passes produced a result, the budgeted run produces the same *)
Lemma dec_name_of_run msg pos n r :
  bytes_ok msg -> iter_nat (name_step msg) n (mkN pos [] [] 0) = inr r -> dec_name msg pos = r.
Proof.
  intros BO E. unfold dec_name. rewrite iter_pos_nat.
  destruct (name_loop_ends msg (mkN pos [] [] 0) BO vis_ok_nil) as [r' E']. rewrite E'.
  destruct (Nat.le_ge_cases n (Pos.to_nat (name_fuel msg))) as [L|G].
  - rewrite (iter_nat_mono _ _ _ _ _ E L) in E'. congruence.
  - rewrite (iter_nat_mono _ _ _ _ _ E' G) in E. congruence.
Qed.

(** ------------------------------------------------------------------ everything else is total --- *)

Lemma dec_charstrs_safe msg : forall fuel pos soFar len acc,
  (N.to_nat len < fuel + N.to_nat soFar)%nat -> safe (dec_charstrs fuel msg pos soFar len acc).
Proof.
  induction fuel as [|f IH]; intros pos soFar len acc H; cbn [dec_charstrs].
  - destruct (soFar <? len) eqn:E; [lia|exact I].
  - destruct (soFar <? len) eqn:E; [|exact I].
    apply safe_obind; [apply read1_safe|]. intros [L p1] _.
    apply safe_obind; [apply readp_safe|]. intros [d p2] _.
    apply IH. lia.
Qed.

Lemma dec_field_safe msg t pos rdlen : bytes_ok msg -> safe (dec_field msg t pos rdlen).
Proof.
  intros BO. destruct t; cbn [dec_field].
  - apply safe_obind; [apply read_u_safe|]. intros [n p] _. exact I.
  - apply safe_obind; [apply read_u_safe|]. intros [n p] _. exact I.
  - apply safe_obind; [apply read_u_safe|]. intros [n p] _. exact I.
  - apply safe_obind; [apply name_never_out_of_fuel, BO|]. intros [ls p] _. exact I.
  - apply safe_obind; [apply readp_safe|]. intros [b p] _. exact I.
  - apply safe_obind; [apply read1_safe|]. intros [l p1] _.
    apply safe_obind; [apply readp_safe|]. intros [b p2] _. exact I.
  - destruct (rdlen <? hdr); [exact I|]. apply safe_obind; [apply readp_safe|]. intros [b p] _. exact I.
  - apply safe_obind; [apply dec_charstrs_safe; lia|]. intros [l p] _. exact I.
  - apply safe_obind; [apply read_u_safe|]. intros [n p1] _.
    apply safe_obind; [apply readp_safe|]. intros [b p2] _. exact I.
  - apply safe_obind; [apply read1_safe|]. intros [plen p1] _.
    apply safe_obind.
    + destruct (a6_bytes plen =? 0)%Z; [exact I|]. destruct (a6_bytes plen <? 0)%Z; [exact I|].
      apply safe_obind; [apply readp_safe|]. intros [b p] _. exact I.
    + intros [suffix p2] _. destruct (plen =? 0); [exact I|].
      apply safe_obind; [apply name_never_out_of_fuel, BO|]. intros [ls p3] _. exact I.
Qed.

Lemma dec_fields_safe msg : bytes_ok msg -> forall ts pos rdlen, safe (dec_fields msg ts pos rdlen).
Proof.
  intros BO. induction ts as [|t r IH]; intros pos rdlen; cbn [dec_fields]; [exact I|].
  apply safe_obind; [now apply dec_field_safe|]. intros [v p] _.
  apply safe_obind; [apply IH|]. intros [vs p'] _. exact I.
Qed.

Lemma dec_query_safe msg pos : bytes_ok msg -> safe (dec_query msg pos).
Proof.
  intros BO. unfold dec_query.
  apply safe_obind; [apply name_never_out_of_fuel, BO|]. intros [ls p1] _.
  apply safe_obind; [apply readp_safe|]. intros [b p2] _. exact I.
Qed.

Lemma dec_rr_safe msg pos : bytes_ok msg -> safe (dec_rr msg pos).
Proof.
  intros BO. unfold dec_rr.
  apply safe_obind; [apply name_never_out_of_fuel, BO|]. intros [ls p1] _.
  apply safe_obind; [apply readp_safe|]. intros [b p2] _.
  apply safe_obind; [now apply dec_fields_safe|]. intros [vs p3] _. exact I.
Qed.

Lemma dec_loop_safe {A} (dec : list N -> N -> outcome (A * N)) msg :
  (forall pos, safe (dec msg pos)) -> forall n pos acc, safe (dec_loop dec n msg pos acc).
Proof.
  intros H. induction n as [|n IH]; intros pos acc; cbn [dec_loop]; [exact I|].
  specialize (H pos). destruct (dec msg pos) as [[x p]|e|]; [apply IH| |destruct H].
  destruct e; try destruct H; exact I.
Qed.

Lemma dec_section_safe msg eof n pos : bytes_ok msg -> safe (dec_section eof n msg pos).
Proof.
  intros BO. unfold dec_section. destruct eof; [exact I|].
  apply dec_loop_safe. intros p. now apply dec_rr_safe.
Qed.

Theorem dec_message_safe msg : bytes_ok msg -> safe (dec_message msg).
Proof.
  intros BO. unfold dec_message.
  apply safe_obind; [apply readp_safe|]. intros [h p0] _.
  apply safe_obind; [apply dec_loop_safe; intros p; now apply dec_query_safe|]. intros [[qs p1] eof1] _.
  destruct eof1; [exact I|].
  apply safe_obind; [now apply dec_section_safe|]. intros [[an p2] eof2] _.
  apply safe_obind; [now apply dec_section_safe|]. intros [[ns p3] eof3] _.
  apply safe_obind; [now apply dec_section_safe|]. intros [[ad p4] eof4] _. exact I.
Qed.

(** a pointer whose target is already in the visited set ends the loop with ValueError *)
Lemma revisit_refused msg s l b2 :
  read1 msg (n_pos s) = Done (l, n_pos s + 1) -> l <> 0 -> N.shiftr l 6 = 3 ->
  read1 msg (n_pos s + 1) = Done (b2, n_pos s + 2) ->
  In (N.lor (N.shiftl (N.land l 63) 8) b2) (n_vis s) ->
  name_step msg s = inr (Raise ValueError).
Proof.
  intros R1 NZ SH R2 I. unfold name_step. rewrite R1.
  replace (l =? 0) with false by lia. rewrite SH. cbn [N.eqb Pos.eqb]. rewrite R2.
  replace (existsb _ _) with true; [reflexivity|].
  symmetry. apply existsb_exists. eexists. split; [exact I|apply N.eqb_refl].
Qed.

Example cycle_example :
  let msg := [0;0;0;0;0;1;0;0;0;0;0;0; 192;14; 192;12; 0;1;0;1] in
  bytes_ok msg /\ dec_message msg = Raise ValueError.
Proof. split; [repeat constructor|vm_compute; reflexivity]. Qed.

(** an acyclic chain of compression pointers of any length is simply followed (no recursion depth,
    no hop limit): here 2000 hops, each pointer targeting the next one, ending in the root label *)
Fixpoint chain_ptrs (n : nat) (off : N) : list N :=
  match n with
  | O => [0]
  | S k => [192 + (off + 2) / 256; (off + 2) mod 256] ++ chain_ptrs k (off + 2)
  end.

Example long_chain_example :
  let msg := repeat 0 12 ++ chain_ptrs (N.to_nat 2000) 12 in
  blen msg = 4013 /\ dec_name msg 12 = Done ([], 14).
Proof. split; vm_compute; reflexivity. Qed.
