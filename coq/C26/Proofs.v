(** C26 proofs. *)
From Coq Require Import List NArith Bool Arith Lia.
From TwLib Require Import PyPath PyPathFacts.
From C26 Require Import Model.
Import ListNotations.

(** ---- small facts ---- *)



Lemma mk_absnormal : forall cwd s, isabs cwd = true -> absnormal (mk cwd s).
Proof.
  intros cwd s Hc. unfold mk, abspath. apply normpath_abs_absnormal.
  destruct (isabs s) eqn:E; [assumption | now apply pjoin_isabs].
Qed.




Lemma within_refl : forall p, absnormal p -> within p p.
Proof. intros p H. split; [apply prefix_of_refl | now apply absnormal_segments_ok]. Qed.

Lemma within_trans : forall a b c, within a b -> within b c -> within a c.
Proof. intros a b c [H1 _] [H2 H3]. split; [now apply prefix_of_trans with (segments b) | assumption]. Qed.






(** ---- FilePath.child ---- *)
Lemma child_spec : forall cwd p name r,
  absnormal p -> child cwd p name = Some r ->
  absnormal r /\ init_slashes r = init_slashes p
  /\ (segments r = segments p \/ exists c, okc c = true /\ segments r = segments p ++ [c]).
Proof.
  intros cwd p name r (k & cs & Hk & Hcs & ->) H. unfold child in H.
  destruct (has_sl (normpath name)) eqn:Hn; [discriminate|].
  pose proof (normpath_nonnil name) as Hne.
  set (n := normpath name) in *.
  rewrite abspath_abs in H by (apply pjoin_isabs; now apply render_isabs).
  rewrite (normpath_pjoin_name k cs n Hk Hcs Hn Hne) in H.
  rewrite (init_slashes_render_ok k cs Hk Hcs), (segments_render k cs Hcs).
  destruct (step_name_cases cs n Hcs Hn Hne) as [[_ E] | [[Hok E] | [_ E]]]; rewrite E in H.
  - (* "." : the parent itself *)
    destruct (startswith _ _); inversion H; subst r.
    split; [now apply absnormal_render|]. split; [now apply init_slashes_render_ok|].
    left. now apply segments_render.
  - (* an ordinary name: a direct child *)
    assert (Hcs' : forallb okc (cs ++ [n]) = true) by (rewrite forallb_app, Hcs; cbn; now rewrite Hok).
    destruct (startswith _ _); inversion H; subst r.
    split; [now apply absnormal_render|]. split; [now apply init_slashes_render_ok|].
    right. exists n. split; [assumption | now apply segments_render].
  - (* ".." : only the root is its own parent; anything else fails the prefix test *)
    destruct cs as [|c cs'] using rev_ind.
    + cbn [removelast] in H. destruct (startswith _ _); inversion H; subst r.
      split; [now apply absnormal_render|]. split; [now apply init_slashes_render_ok|].
      left. now apply segments_render.
    + rewrite removelast_last in H.
      rewrite forallb_app in Hcs. apply andb_true_iff in Hcs as [Hcs' Hc]. cbn in Hc. rewrite andb_true_r in Hc.
      rewrite (render_not_prefix_of_shorter k cs' c Hc) in H. discriminate.
Qed.

(** ---- FilePath.preauthChild (repaired containment test) ---- *)
Lemma inside_prefix : forall np p, inside np p = true -> prefix_of (segments p) (segments np) = true.
Proof.
  intros np p H. unfold inside in H. apply orb_true_iff in H as [H|H].
  - apply beq_eq in H. subst. apply prefix_of_refl.
  - destruct (endswith_sl p) eqn:E.
    + apply startswith_app in H as [t ->]. destruct (endswith_sl_snoc p E) as [p' ->].
      rewrite <- app_assoc. cbn [app]. rewrite segments_snoc_sl, segments_app. apply prefix_of_app.
    + apply startswith_app in H as [t ->]. rewrite <- app_assoc. cbn [app].
      rewrite segments_app. apply prefix_of_app.
Qed.

Lemma preauthChild_spec : forall cwd p path r,
  absnormal p -> preauthChild cwd p path = Some r -> absnormal r /\ within p r.
Proof.
  intros cwd p path r Hp H. unfold preauthChild in H.
  destruct (inside _ p) eqn:E; inversion H; subst r. clear H.
  rewrite abspath_abs in * by (apply pjoin_isabs; now apply absnormal_isabs).
  assert (Ha : absnormal (normpath (pjoin p (normpath path)))).
  { apply normpath_abs_absnormal. apply pjoin_isabs. now apply absnormal_isabs. }
  split; [assumption|]. split; [now apply inside_prefix | now apply absnormal_segments_ok].
Qed.

(** ---- descendant ---- *)
Lemma child_within : forall cwd p name r,
  absnormal p -> child cwd p name = Some r -> absnormal r /\ within p r.
Proof.
  intros cwd p name r Hp H. destruct (child_spec cwd p name r Hp H) as (Ha & _ & Hs).
  split; [assumption|]. split; [|now apply absnormal_segments_ok].
  destruct Hs as [-> | (c & _ & ->)]; [apply prefix_of_refl | apply prefix_of_app].
Qed.

Lemma descendant_spec : forall cwd segs p r,
  absnormal p -> descendant cwd p segs = Some r ->
  absnormal r /\ exists rest, segments r = segments p ++ rest /\ length rest <= length segs
                              /\ forallb okc rest = true.
Proof.
  induction segs as [|n segs IH]; intros p r Hp H; cbn in H.
  - inversion H; subst. split; [assumption|]. exists []. rewrite app_nil_r. repeat split; auto.
  - destruct (child cwd p n) as [q|] eqn:E; [|discriminate].
    destruct (child_spec cwd p n q Hp E) as (Hq & _ & Hs).
    destruct (IH q r Hq H) as (Hr & rest & E1 & E2 & E3). split; [assumption|].
    destruct Hs as [Hs | (c & Hc & Hs)]; rewrite Hs in E1.
    + exists rest. cbn. repeat split; auto.
    + exists (c :: rest). rewrite <- app_assoc in E1. cbn in *. rewrite Hc, E3. repeat split; auto. lia.
Qed.

(** ---- the pinned test is refuted ---- *)
Definition w_cwd : bytes := [47]%N.
Definition w_parent : bytes := [47;116;109;112;47;102;111;111]%N.                   (* /tmp/foo *)
Definition w_path : bytes := [46;46;47;102;111;111;98;97;114;47;120]%N.             (* ../foobar/x *)
Definition w_result : bytes := [47;116;109;112;47;102;111;111;98;97;114;47;120]%N.  (* /tmp/foobar/x *)

Lemma pinned_refuted :
  isabs w_cwd = true /\ absnormal (mk w_cwd w_parent)
  /\ preauthChild_pinned w_cwd (mk w_cwd w_parent) w_path = Some w_result
  /\ prefix_of (segments (mk w_cwd w_parent)) (segments w_result) = false
  /\ preauthChild w_cwd (mk w_cwd w_parent) w_path = None.
Proof.
  split; [reflexivity|]. split; [now apply mk_absnormal|]. repeat split; vm_compute; reflexivity.
Qed.

(** ---- static.File ---- *)
Lemma childSearchPreauth_spec : forall cwd ex p names f,
  absnormal p -> forallb okc names = true -> childSearchPreauth cwd ex p names = Some f ->
  absnormal f /\ within p f.
Proof.
  intros cwd ex p names f (k & cs & Hk & Hcs & ->). induction names as [|n names IH]; intros Hn H; [discriminate|].
  cbn in Hn. apply andb_true_iff in Hn as [Hn Hns]. cbn in H.
  destruct (ex (pjoin (render k cs) n)); [|now apply IH].
  inversion H; subst f. clear H IH.
  apply okc_spec in Hn as (N1 & N2 & N3 & N4).
  rewrite abspath_abs by (apply pjoin_isabs; now apply render_isabs).
  rewrite (normpath_pjoin_name k cs n Hk Hcs N2 N1).
  destruct (step_name_cases cs n Hcs N2 N1) as [[E _] | [[Hok E] | [E _]]]; try contradiction.
  rewrite E.
  assert (Hcs' : forallb okc (cs ++ [n]) = true) by (rewrite forallb_app, Hcs; cbn; now rewrite Hok).
  split; [now apply absnormal_render|]. split.
  - rewrite !segments_render by assumption. apply prefix_of_app.
  - now rewrite segments_render.
Qed.

Section StaticProofs.
  Variable cwd : bytes.
  Variables (isdir exists_ : bytes -> bool).
  Variable indexNames : list bytes.
  Hypothesis index_ok : forallb okc indexNames = true.

  Lemma getChild_spec : forall p seg,
    absnormal p ->
    match getChild cwd isdir exists_ indexNames p seg with
    | RFile f => absnormal f /\ within p f
    | RLister d => d = p
    | _ => True
    end.
  Proof.
    intros p seg Hp. unfold getChild.
    destruct (negb (utf8_valid seg)); [exact I|].
    destruct (negb (isdir p)); [exact I|].
    destruct (negb (is_nil seg)).
    - destruct (child cwd p seg) as [f|] eqn:E; [|exact I].
      destruct (has_nul f); [exact I|]. destruct (exists_ f); [|exact I].
      exact (child_within cwd p seg f Hp E).
    - destruct (childSearchPreauth cwd exists_ p indexNames) as [f|] eqn:E; [|reflexivity].
      destruct (exists_ f); [|exact I]. exact (childSearchPreauth_spec cwd exists_ p indexNames f Hp index_ok E).
  Qed.

  Lemma walk_spec : forall post root p acc r,
    absnormal p -> within root p -> walk cwd isdir exists_ indexNames p post = (acc, r) ->
    (forall a, In a acc -> within root (accessed a))
    /\ match r with
       | RFile f => absnormal f /\ within root f
       | RLister d => within root d
       | _ => True
       end.
  Proof.
    induction post as [|seg post IH]; intros root p acc r Hp Hw H; cbn in H.
    - inversion H; subst. split; [intros a []|]. now split.
    - pose proof (getChild_spec p seg Hp) as G.
      destruct (getChild cwd isdir exists_ indexNames p seg) as [f|d| |] eqn:E.
      + destruct G as [Hf Hpf]. apply (IH root f acc r Hf); [now apply within_trans with p | assumption].
      + subst d. inversion H; subst. split.
        * intros a [<-|[]]. exact Hw.
        * destruct post; [exact Hw | exact I].
      + inversion H; subst. split; [intros a []| exact I].
      + inversion H; subst. split; [intros a []| exact I].
  Qed.

  Lemma serve_segments_spec : forall root post acc o,
    absnormal root -> serve_segments cwd isdir exists_ indexNames root post = (acc, o) ->
    (forall a, In a acc -> within root (accessed a))
    /\ (forall f, o = Served f \/ o = Listing f -> within root f).
  Proof.
    intros root post acc o Hr H. unfold serve_segments in H.
    destruct (walk cwd isdir exists_ indexNames root post) as [acc0 r] eqn:W.
    destruct (walk_spec post root root acc0 r Hr (within_refl root Hr) W) as [A R].
    destruct r as [f|d| |].
    - destruct R as [_ Rf]. destruct (exists_ f).
      + destruct (isdir f); inversion H; subst.
        * split; [assumption|]. intros g [G|G]; discriminate.
        * split.
          -- intros a Ha. apply in_app_or in Ha as [Ha|[<-|[]]]; [now apply A | exact Rf].
          -- intros g [G|G]; inversion G; subst; exact Rf.
      + inversion H; subst. split; [assumption|]. intros g [G|G]; discriminate.
    - inversion H; subst. split; [assumption|]. intros g [G|G]; inversion G; subst; exact R.
    - inversion H; subst. split; [assumption|]. intros g [G|G]; discriminate.
    - inversion H; subst. split; [assumption|]. intros g [G|G]; discriminate.
  Qed.
End StaticProofs.

(** ---- the hypotheses are inhabited by non-trivial data ---- *)
Example ex_child :
  child w_cwd (mk w_cwd w_parent) [98;97;114]%N = Some [47;116;109;112;47;102;111;111;47;98;97;114]%N
  /\ child w_cwd (mk w_cwd w_parent) dotdot = None
  /\ child w_cwd (mk w_cwd [47;47]%N) dotdot = Some [47;47]%N.
Proof. repeat split; vm_compute; reflexivity. Qed.

(** ---- the statements exported by Property.v: parents are what FilePath(s) produces ---- *)
Lemma child_final : forall cwd s name r,
  isabs cwd = true ->
  child cwd (mk cwd s) name = Some r ->
  (segments r = segments (mk cwd s) \/ exists c, okc c = true /\ segments r = segments (mk cwd s) ++ [c])
  /\ init_slashes r = init_slashes (mk cwd s) /\ forallb okc (segments r) = true /\ normpath r = r.
Proof.
  intros cwd s name r Hc H. destruct (child_spec cwd _ name r (mk_absnormal cwd s Hc) H) as (Ha & Hi & Hs).
  repeat split; [assumption | assumption | now apply absnormal_segments_ok | now apply normpath_absnormal].
Qed.

Lemma preauth_final : forall cwd s path r,
  isabs cwd = true ->
  preauthChild cwd (mk cwd s) path = Some r ->
  prefix_of (segments (mk cwd s)) (segments r) = true /\ forallb okc (segments r) = true /\ normpath r = r.
Proof.
  intros cwd s path r Hc H. destruct (preauthChild_spec cwd _ path r (mk_absnormal cwd s Hc) H) as (Ha & Hp & Ho).
  repeat split; [assumption | assumption | now apply normpath_absnormal].
Qed.

Lemma descendant_final : forall cwd s segs r,
  isabs cwd = true ->
  descendant cwd (mk cwd s) segs = Some r ->
  (exists rest, segments r = segments (mk cwd s) ++ rest /\ length rest <= length segs /\ forallb okc rest = true)
  /\ forallb okc (segments r) = true /\ normpath r = r.
Proof.
  intros cwd s segs r Hc H. destruct (descendant_spec cwd segs _ r (mk_absnormal cwd s Hc) H) as (Ha & Hr).
  repeat split; [assumption | now apply absnormal_segments_ok | now apply normpath_absnormal].
Qed.

Lemma static_final : forall cwd isdir exists_ indexNames s urlpath acc o,
  isabs cwd = true -> forallb okc indexNames = true ->
  serve cwd isdir exists_ indexNames (mk cwd s) urlpath = (acc, o) ->
  (forall a, In a acc -> within (mk cwd s) (accessed a))
  /\ (forall f, o = Served f \/ o = Listing f -> within (mk cwd s) f).
Proof.
  intros cwd isdir ex idx s urlpath acc o Hc Hi H. unfold serve in H.
  exact (serve_segments_spec cwd isdir ex idx Hi _ _ acc o (mk_absnormal cwd s Hc) H).
Qed.

Lemma static_segments_final : forall cwd isdir exists_ indexNames s post acc o,
  isabs cwd = true -> forallb okc indexNames = true ->
  serve_segments cwd isdir exists_ indexNames (mk cwd s) post = (acc, o) ->
  (forall a, In a acc -> within (mk cwd s) (accessed a))
  /\ (forall f, o = Served f \/ o = Listing f -> within (mk cwd s) f).
Proof.
  intros cwd isdir ex idx s post acc o Hc Hi H.
  exact (serve_segments_spec cwd isdir ex idx Hi _ _ acc o (mk_absnormal cwd s Hc) H).
Qed.

(** containment of strings in the segment view really is about names below the parent:
    a path within [p] is [p]'s own components followed by ordinary names *)
Lemma within_meaning : forall p r, within p r ->
  exists rest, segments r = segments p ++ rest /\ forallb okc rest = true.
Proof.
  intros p r [H1 H2]. apply prefix_of_spec in H1 as [rest E]. exists rest. split; [assumption|].
  rewrite E, forallb_app in H2. now apply andb_true_iff in H2 as [_ H2].
Qed.

Example ex_static :
  let isdir := fun p => beq p [47;114]%N || beq p [47;114;47;115]%N in                 (* /r  /r/s *)
  let ex := fun p => isdir p || beq p [47;114;47;115;47;105]%N in                     (* /r/s/i *)
  serve [47]%N isdir ex [[105]%N] [47;114]%N [47;115;47]%N                               (* GET /s/ *)
  = ([AOpen [47;114;47;115;47;105]%N], Served [47;114;47;115;47;105]%N)
  /\ serve [47]%N isdir ex [[105]%N] [47;114]%N [47;37;50;101;37;50;101;47;115]%N      (* GET /%2e%2e/s *)
  = ([], NotFound).
Proof. split; vm_compute; reflexivity. Qed.
