(** C26 proofs. *)
From Coq Require Import List NArith Bool Arith Lia.
From TwLib Require Import PyPath PyPathFacts PyPathDir.
From C26 Require Import Model.
Import ListNotations.

(** ---- small facts ---- *)



Lemma mk_absnormal : forall cwd s, isabs cwd = true -> absnormal (mk cwd s).
Proof.
  intros cwd s Hc. unfold mk, abspath. apply normpath_abs_absnormal.
  destruct (isabs s) eqn:E; [assumption | now apply pjoin_isabs].
Qed.




Lemma within_refl : forall p, absnormal p -> within p p.
Proof. intros p H. split; [apply prefix_of_refl | now apply absnormal_segments_ok]. Qed.

Lemma within_trans : forall a b c, within a b -> within b c -> within a c.
Proof. intros a b c [H1 _] [H2 H3]. split; [now apply prefix_of_trans with (segments b) | assumption]. Qed.






(** ---- FilePath.child ---- *)
Lemma child_spec : forall cwd p name r,
  absnormal p -> child cwd p name = Some r ->
  absnormal r /\ init_slashes r = init_slashes p
  /\ (segments r = segments p \/ exists c, okc c = true /\ segments r = segments p ++ [c]).
Proof.
  intros cwd p name r (k & cs & Hk & Hcs & ->) H. unfold child in H.
  destruct (has_sl (normpath name)) eqn:Hn; [discriminate|].
  pose proof (normpath_nonnil name) as Hne.
  set (n := normpath name) in *.
  rewrite abspath_abs in H by (apply pjoin_isabs; now apply render_isabs).
  rewrite (normpath_pjoin_name k cs n Hk Hcs Hn Hne) in H.
  rewrite (init_slashes_render_ok k cs Hk Hcs), (segments_render k cs Hcs).
  destruct (step_name_cases cs n Hcs Hn Hne) as [[_ E] | [[Hok E] | [_ E]]]; rewrite E in H.
  - (* "." : the parent itself *)
    destruct (startswith _ _); inversion H; subst r.
    split; [now apply absnormal_render|]. split; [now apply init_slashes_render_ok|].
    left. now apply segments_render.
  - (* an ordinary name: a direct child *)
    assert (Hcs' : forallb okc (cs ++ [n]) = true) by (rewrite forallb_app, Hcs; cbn; now rewrite Hok).
    destruct (startswith _ _); inversion H; subst r.
    split; [now apply absnormal_render|]. split; [now apply init_slashes_render_ok|].
    right. exists n. split; [assumption | now apply segments_render].
  - (* ".." : only the root is its own parent; anything else fails the prefix test *)
    destruct cs as [|c cs'] using rev_ind.
    + cbn [removelast] in H. destruct (startswith _ _); inversion H; subst r.
      split; [now apply absnormal_render|]. split; [now apply init_slashes_render_ok|].
      left. now apply segments_render.
    + rewrite removelast_last in H.
      rewrite forallb_app in Hcs. apply andb_true_iff in Hcs as [Hcs' Hc]. cbn in Hc. rewrite andb_true_r in Hc.
      rewrite (render_not_prefix_of_shorter k cs' c Hc) in H. discriminate.
Qed.

(** ---- FilePath.preauthChild (repaired containment test) ---- *)
Lemma inside_prefix : forall np p, inside np p = true -> prefix_of (segments p) (segments np) = true.
Proof.
  intros np p H. unfold inside in H. apply orb_true_iff in H as [H|H].
  - apply beq_eq in H. subst. apply prefix_of_refl.
  - destruct (endswith_sl p) eqn:E.
    + apply startswith_app in H as [t ->]. destruct (endswith_sl_snoc p E) as [p' ->].
      rewrite <- app_assoc. cbn [app]. rewrite segments_snoc_sl, segments_app. apply prefix_of_app.
    + apply startswith_app in H as [t ->]. rewrite <- app_assoc. cbn [app].
      rewrite segments_app. apply prefix_of_app.
Qed.

Lemma preauthChild_spec : forall cwd p path r,
  absnormal p -> preauthChild cwd p path = Some r -> absnormal r /\ within p r.
Proof.
  intros cwd p path r Hp H. unfold preauthChild in H.
  destruct (inside _ p) eqn:E; inversion H; subst r. clear H.
  rewrite abspath_abs in * by (apply pjoin_isabs; now apply absnormal_isabs).
  assert (Ha : absnormal (normpath (pjoin p (normpath path)))).
  { apply normpath_abs_absnormal. apply pjoin_isabs. now apply absnormal_isabs. }
  split; [assumption|]. split; [now apply inside_prefix | now apply absnormal_segments_ok].
Qed.

(** ---- descendant ---- *)
Lemma child_within : forall cwd p name r,
  absnormal p -> child cwd p name = Some r -> absnormal r /\ within p r.
Proof.
  intros cwd p name r Hp H. destruct (child_spec cwd p name r Hp H) as (Ha & _ & Hs).
  split; [assumption|]. split; [|now apply absnormal_segments_ok].
  destruct Hs as [-> | (c & _ & ->)]; [apply prefix_of_refl | apply prefix_of_app].
Qed.

Lemma descendant_spec : forall cwd segs p r,
  absnormal p -> descendant cwd p segs = Some r ->
  absnormal r /\ exists rest, segments r = segments p ++ rest /\ length rest <= length segs
                              /\ forallb okc rest = true.
Proof.
  induction segs as [|n segs IH]; intros p r Hp H; cbn in H.
  - inversion H; subst. split; [assumption|]. exists []. rewrite app_nil_r. repeat split; auto.
  - destruct (child cwd p n) as [q|] eqn:E; [|discriminate].
    destruct (child_spec cwd p n q Hp E) as (Hq & _ & Hs).
    destruct (IH q r Hq H) as (Hr & rest & E1 & E2 & E3). split; [assumption|].
    destruct Hs as [Hs | (c & Hc & Hs)]; rewrite Hs in E1.
    + exists rest. cbn. repeat split; auto.
    + exists (c :: rest). rewrite <- app_assoc in E1. cbn in *. rewrite Hc, E3. repeat split; auto. lia.
Qed.

(** ---- the pinned test is refuted ---- *)
Definition w_cwd : bytes := [47]%N.
Definition w_parent : bytes := [47;116;109;112;47;102;111;111]%N.                   (* /tmp/foo *)
Definition w_path : bytes := [46;46;47;102;111;111;98;97;114;47;120]%N.             (* ../foobar/x *)
Definition w_result : bytes := [47;116;109;112;47;102;111;111;98;97;114;47;120]%N.  (* /tmp/foobar/x *)

Lemma pinned_refuted :
  isabs w_cwd = true /\ absnormal (mk w_cwd w_parent)
  /\ preauthChild_pinned w_cwd (mk w_cwd w_parent) w_path = Some w_result
  /\ prefix_of (segments (mk w_cwd w_parent)) (segments w_result) = false
  /\ preauthChild w_cwd (mk w_cwd w_parent) w_path = None.
Proof.
  split; [reflexivity|]. split; [now apply mk_absnormal|]. repeat split; vm_compute; reflexivity.
Qed.

(** ---- static.File ---- *)

(** a path whose components are [cs] followed by ONE ordinary name lies within [render k cs] *)
Lemma within_direct : forall k cs c, (k = 1 \/ k = 2) -> forallb okc cs = true -> okc c = true ->
  absnormal (render k (cs ++ [c])) /\ within (render k cs) (render k (cs ++ [c])).
Proof.
  intros k cs c Hk Hcs Hc.
  assert (Hall : forallb okc (cs ++ [c]) = true) by (rewrite forallb_app, Hcs; cbn; now rewrite Hc).
  split; [now apply absnormal_render|]. split.
  - rewrite !segments_render by assumption. apply prefix_of_app.
  - now rewrite segments_render.
Qed.

Lemma abspath_pjoin_okc : forall cwd k cs n, (k = 1 \/ k = 2) -> forallb okc cs = true -> okc n = true ->
  abspath cwd (pjoin (render k cs) n) = render k (cs ++ [n]).
Proof.
  intros cwd k cs n Hk Hcs Hn. pose proof Hn as Hn'. apply okc_spec in Hn' as (N1 & N2 & N3 & N4).
  rewrite abspath_abs by (apply pjoin_isabs; now apply render_isabs).
  rewrite (normpath_pjoin_name k cs n Hk Hcs N2 N1).
  destruct (step_name_cases cs n Hcs N2 N1) as [[E _] | [[_ E] | [E _]]]; try contradiction. now rewrite E.
Qed.

(** the string form of child's result *)
Lemma child_form : forall cwd k cs name r,
  (k = 1 \/ k = 2) -> forallb okc cs = true -> child cwd (render k cs) name = Some r ->
  r = render k cs \/ exists c, okc c = true /\ r = render k (cs ++ [c]).
Proof.
  intros cwd k cs name r Hk Hcs H.
  destruct (child_spec cwd (render k cs) name r (absnormal_render k cs Hk Hcs) H) as ((k' & cs' & Hk' & Hcs' & ->) & Hi & Hs).
  rewrite (init_slashes_render_ok k' cs' Hk' Hcs'), (init_slashes_render_ok k cs Hk Hcs) in Hi. subst k'.
  rewrite (segments_render k cs' Hcs'), (segments_render k cs Hcs) in Hs.
  destruct Hs as [-> | (c & Hc & ->)]; [now left | right; now exists c].
Qed.

Lemma childSearchPreauth_form : forall cwd ex k cs names f,
  (k = 1 \/ k = 2) -> forallb okc cs = true -> forallb okc names = true ->
  childSearchPreauth cwd ex (render k cs) names = Some f ->
  exists n, okc n = true /\ f = render k (cs ++ [n]).
Proof.
  intros cwd ex k cs names f Hk Hcs. induction names as [|n names IH]; intros Hn H; [discriminate|].
  cbn in Hn. apply andb_true_iff in Hn as [Hn Hns]. cbn in H.
  destruct (ex (pjoin (render k cs) n)); [|now apply IH].
  inversion H; subst f. exists n. split; [assumption | now apply abspath_pjoin_okc].
Qed.

Lemma okc_app_ext : forall c e, okc c = true -> has_sl e = false -> okc (c ++ e) = true.
Proof.
  intros c e Hc He. apply okc_spec in Hc as (C1 & C2 & C3 & C4). apply okc_spec. repeat split.
  - destruct c; [contradiction | discriminate].
  - unfold has_sl in *. rewrite existsb_app, C2, He. reflexivity.
  - intro E. destruct c as [|x [|y c']]; [contradiction | |].
    + cbn in E. inversion E; subst. now apply C3.
    + cbn in E. inversion E.
  - intro E. destruct c as [|x [|y [|z c3]]]; [contradiction | | |].
    + cbn in E. inversion E; subst. now apply C3.
    + cbn in E. inversion E; subst. now apply C4.
    + cbn in E. inversion E.
Qed.

Lemma render_snoc_ext : forall k cs c e, render k (cs ++ [c]) ++ e = render k (cs ++ [c ++ e]).
Proof.
  intros k cs c e. unfold render. rewrite <- app_assoc. f_equal. destruct cs as [|x cs'].
  - reflexivity.
  - rewrite !join_sl_snoc by discriminate. rewrite <- app_assoc. reflexivity.
Qed.

Section StaticProofs.
  Variable cwd : bytes.
  Variables (isdir exists_ : bytes -> bool).
  Variable listdir : bytes -> list bytes.
  Variable indexNames ignoredExts : list bytes.
  Variable processed : bytes -> bool.
  Variable children : list (bytes * nat).
  Hypothesis index_ok : forallb okc indexNames = true.
  (** configured extensions contain no '/' *)
  Hypothesis exts_ok : forallb (fun e => negb (has_sl e)) ignoredExts = true.
  (** the kernel lists directory entries: single ordinary names *)
  Hypothesis listdir_ok : forall d n, In n (listdir d) -> okc n = true.
  (** within one request a path that is a directory exists *)
  Hypothesis isdir_exists : forall p, isdir p = true -> exists_ p = true.

  Definition acc_within (root : bytes) (acc : list access) : Prop :=
    forall a, In a acc -> within root (accessed a).

  Lemma sibSearch_spec : forall k cs c exts acc g,
    (k = 1 \/ k = 2) -> forallb okc cs = true -> okc c = true ->
    forallb (fun e => negb (has_sl e)) exts = true ->
    sibSearch cwd exists_ listdir (render k (cs ++ [c])) exts = (acc, Some g) ->
    (exists c', okc c' = true /\ g = render k (cs ++ [c'])) /\ acc_within (render k cs) acc.
  Proof.
    intros k cs c exts. induction exts as [|e exts IH]; intros acc g Hk Hcs Hc He H; [discriminate|].
    cbn in He. apply andb_true_iff in He as [He Hes]. apply negb_true_iff in He.
    assert (Hall : forallb okc (cs ++ [c]) = true) by (rewrite forallb_app, Hcs; cbn; now rewrite Hc).
    assert (Wself : within (render k cs) (render k cs)) by (apply within_refl; now apply absnormal_render).
    cbn [sibSearch] in H. rewrite (dirname_child k cs c Hk Hcs Hc), (basename_child k cs c Hcs Hc) in H.
    destruct (is_nil e && exists_ (render k (cs ++ [c]))).
    - inversion H; subst. split; [|intros a []]. exists c. split; [assumption|].
      rewrite abspath_abs by now apply render_isabs. apply normpath_absnormal. now apply absnormal_render.
    - destruct (beq e star); cbn [fst snd] in H.
      + destruct (find _ (listdir (render k cs))) as [fn|] eqn:Ef.
        * inversion H; subst. apply find_some in Ef as [Hin _]. split.
          -- exists fn. split; [now apply listdir_ok with (render k cs) | apply abspath_pjoin_okc; auto].
             now apply listdir_ok with (render k cs).
          -- intros a [<-|[]]. exact Wself.
        * destruct (exists_ (render k (cs ++ [c]) ++ e)).
          -- inversion H; subst. split; [|intros a [<-|[]]; exact Wself].
             exists (c ++ e). split; [now apply okc_app_ext|]. rewrite render_snoc_ext.
             assert (Hall' : forallb okc (cs ++ [c ++ e]) = true)
               by (rewrite forallb_app, Hcs; cbn; now rewrite okc_app_ext).
             rewrite abspath_abs by now apply render_isabs. apply normpath_absnormal. now apply absnormal_render.
          -- destruct (sibSearch cwd exists_ listdir (render k (cs ++ [c])) exts) as [acc' o] eqn:Er.
             inversion H; subst. destruct (IH acc' g Hk Hcs Hc Hes eq_refl) as [G A]. split; [assumption|].
             intros a [<-|Ha]; [exact Wself | now apply A].
      + destruct (exists_ (render k (cs ++ [c]) ++ e)).
        * inversion H; subst. split; [|intros a []].
          exists (c ++ e). split; [now apply okc_app_ext|]. rewrite render_snoc_ext.
          assert (Hall' : forallb okc (cs ++ [c ++ e]) = true)
            by (rewrite forallb_app, Hcs; cbn; now rewrite okc_app_ext).
          rewrite abspath_abs by now apply render_isabs. apply normpath_absnormal. now apply absnormal_render.
        * destruct (sibSearch cwd exists_ listdir (render k (cs ++ [c])) exts) as [acc' o] eqn:Er.
          inversion H; subst. cbn [app]. now apply IH.
  Qed.

  Lemma sibSearch_acc : forall k cs c exts acc o,
    (k = 1 \/ k = 2) -> forallb okc cs = true -> okc c = true ->
    sibSearch cwd exists_ listdir (render k (cs ++ [c])) exts = (acc, o) -> acc_within (render k cs) acc.
  Proof.
    intros k cs c exts. induction exts as [|e exts IH]; intros acc o Hk Hcs Hc H.
    - inversion H. intros a [].
    - assert (Wself : within (render k cs) (render k cs)) by (apply within_refl; now apply absnormal_render).
      cbn [sibSearch] in H. rewrite (dirname_child k cs c Hk Hcs Hc) in H.
      destruct (is_nil e && exists_ _); [inversion H; intros a []|].
      destruct (sibSearch cwd exists_ listdir (render k (cs ++ [c])) exts) as [acc' o'] eqn:Er.
      specialize (IH acc' o' Hk Hcs Hc eq_refl).
      destruct (beq e star); cbn [fst snd] in H.
      + destruct (find _ _); [inversion H; intros a [<-|[]]; exact Wself|].
        destruct (exists_ _); inversion H; subst; intros a [<-|Ha]; try exact Wself; [contradiction | now apply IH].
      + destruct (exists_ _); inversion H; subst; [intros a [] | exact IH].
  Qed.

  (** the resources File.getChild can return from a File at the normal absolute path p *)
  Definition res_within (p : bytes) (g : res) : Prop :=
    match g with
    | RFile f | RProc f => absnormal f /\ within p f
    | RLister d => d = p
    | _ => True
    end.

  Lemma resolve_direct : forall k cs c,
    (k = 1 \/ k = 2) -> forallb okc cs = true -> okc c = true ->
    acc_within (render k cs) (fst (resolve cwd exists_ listdir ignoredExts processed (render k (cs ++ [c]))))
    /\ res_within (render k cs) (snd (resolve cwd exists_ listdir ignoredExts processed (render k (cs ++ [c])))).
  Proof.
    intros k cs c Hk Hcs Hc. unfold resolve.
    destruct (has_nul _); [split; [intros a [] | exact I]|].
    destruct (exists_ (render k (cs ++ [c]))).
    - cbn. split; [intros a []|]. destruct (within_direct k cs c Hk Hcs Hc) as [A W].
      destruct (processed _); now split.
    - destruct (sibSearch cwd exists_ listdir (render k (cs ++ [c])) ignoredExts) as [acc g] eqn:E.
      split.
      + destruct g; cbn; now apply sibSearch_acc with c ignoredExts o || now apply (sibSearch_acc k cs c ignoredExts acc _ Hk Hcs Hc E).
      + destruct g as [g|]; [|exact I].
        destruct (sibSearch_spec k cs c ignoredExts acc g Hk Hcs Hc exts_ok E) as [(c' & Hc' & ->) _].
        destruct (within_direct k cs c' Hk Hcs Hc') as [A W]. cbn. destruct (processed _); now split.
  Qed.

  Lemma getChild_spec : forall p seg,
    absnormal p ->
    acc_within p (fst (getChild cwd isdir exists_ listdir indexNames ignoredExts processed p seg))
    /\ res_within p (snd (getChild cwd isdir exists_ listdir indexNames ignoredExts processed p seg)).
  Proof.
    intros p seg (k & cs & Hk & Hcs & ->). unfold getChild.
    assert (Wself : within (render k cs) (render k cs)) by (apply within_refl; now apply absnormal_render).
    destruct (negb (utf8_valid seg)); [split; [intros a [] | exact I]|].
    destruct (negb (isdir (render k cs))) eqn:Ed; [split; [intros a [] | exact I]|].
    apply negb_false_iff in Ed.
    destruct (negb (is_nil seg)).
    - destruct (child cwd (render k cs) seg) as [f|] eqn:E; [|split; [intros a [] | exact I]].
      destruct (child_form cwd k cs seg f Hk Hcs E) as [-> | (c & Hc & ->)]; [|now apply resolve_direct].
      (* "." : the directory itself, which exists *)
      unfold resolve. destruct (has_nul _); [split; [intros a [] | exact I]|].
      rewrite (isdir_exists _ Ed). cbn. split; [intros a []|].
      destruct (processed _); (split; [now apply absnormal_render | exact Wself]).
    - destruct (childSearchPreauth cwd exists_ (render k cs) indexNames) as [f|] eqn:E.
      + destruct (childSearchPreauth_form cwd exists_ k cs indexNames f Hk Hcs index_ok E) as (n & Hn & ->).
        now apply resolve_direct.
      + cbn. split; [intros a [<-|[]]; exact Wself | reflexivity].
  Qed.

  Lemma acc_within_trans : forall root p acc, within root p -> acc_within p acc -> acc_within root acc.
  Proof. intros root p acc W A a Ha. apply within_trans with p; [assumption | now apply A]. Qed.

  Lemma walk_spec : forall post root p,
    absnormal p -> within root p ->
    let '(acc, g, rest) := walk cwd isdir exists_ listdir indexNames ignoredExts processed p post in
    acc_within root acc
    /\ match g with
       | RFile f | RProc f => absnormal f /\ within root f
       | RLister d => within root d
       | _ => True
       end.
  Proof.
    induction post as [|seg post IH]; intros root p Hp Hw; cbn [walk].
    - split; [intros a [] | now split].
    - destruct (getChild_spec p seg Hp) as [GA GR].
      destruct (getChild cwd isdir exists_ listdir indexNames ignoredExts processed p seg) as [acc g] eqn:E.
      cbn [fst snd] in GA, GR. pose proof (acc_within_trans root p acc Hw GA) as A0.
      destruct g as [f|d| | |f]; cbn in GR.
      + destruct GR as [Hf Hpf]. specialize (IH root f Hf (within_trans _ _ _ Hw Hpf)).
        destruct (walk cwd isdir exists_ listdir indexNames ignoredExts processed f post) as [[acc' g'] rest].
        destruct IH as [A1 R1]. split; [|exact R1].
        intros a Ha. apply in_app_or in Ha as [Ha|Ha]; [now apply A0 | now apply A1].
      + subst d. split; [assumption|]. destruct post; [exact Hw | exact I].
      + split; [assumption | exact I].
      + split; [assumption | exact I].
      + destruct GR as [Hf Hpf]. split; [assumption|]. split; [assumption | now apply within_trans with p].
  Qed.

  Lemma serve_segments_spec : forall root post acc o,
    absnormal root ->
    serve_segments cwd isdir exists_ listdir indexNames ignoredExts processed children root post = (acc, o) ->
    acc_within root acc
    /\ (forall f rest, o = Served f \/ o = Listing f \/ o = Processed f rest -> within root f).
  Proof.
    intros root post acc o Hr H.
    assert (W : forall acc o, serve_walk cwd isdir exists_ listdir indexNames ignoredExts processed root post = (acc, o) ->
              acc_within root acc /\ (forall f rest, o = Served f \/ o = Listing f \/ o = Processed f rest -> within root f)).
    { clear H acc o. intros acc o H. unfold serve_walk in H.
      pose proof (walk_spec post root root Hr (within_refl root Hr)) as WS.
      destruct (walk cwd isdir exists_ listdir indexNames ignoredExts processed root post) as [[acc0 g] rest0].
      destruct WS as [A R]. destruct g as [f|d| | |f].
      - destruct R as [_ Rf]. destruct (exists_ f).
        + destruct (isdir f); inversion H; subst.
          * split; [assumption|]. intros g r [G|[G|G]]; discriminate.
          * split.
            -- intros a Ha. apply in_app_or in Ha as [Ha|[<-|[]]]; [now apply A | exact Rf].
            -- intros g r [G|[G|G]]; inversion G; subst; exact Rf.
        + inversion H; subst. split; [assumption|]. intros g r [G|[G|G]]; discriminate.
      - inversion H; subst. split; [assumption|]. intros g r [G|[G|G]]; inversion G; subst; exact R.
      - inversion H; subst. split; [assumption|]. intros g r [G|[G|G]]; discriminate.
      - inversion H; subst. split; [assumption|]. intros g r [G|[G|G]]; discriminate.
      - destruct R as [_ Rf]. inversion H; subst. split; [assumption|].
        intros g r [G|[G|G]]; inversion G; subst; exact Rf. }
    unfold serve_segments in H. destruct post as [|seg r]; [now apply W|].
    destruct (assoc seg children); [|now apply W].
    inversion H; subst. split; [intros a []|]. intros g r' [G|[G|G]]; discriminate.
  Qed.
End StaticProofs.

(** ---- the hypotheses are inhabited by non-trivial data ---- *)
Example ex_child :
  child w_cwd (mk w_cwd w_parent) [98;97;114]%N = Some [47;116;109;112;47;102;111;111;47;98;97;114]%N
  /\ child w_cwd (mk w_cwd w_parent) dotdot = None
  /\ child w_cwd (mk w_cwd [47;47]%N) dotdot = Some [47;47]%N.
Proof. repeat split; vm_compute; reflexivity. Qed.

(** ---- the statements exported by Property.v: parents are what FilePath(s) produces ---- *)
Lemma child_final : forall cwd s name r,
  isabs cwd = true ->
  child cwd (mk cwd s) name = Some r ->
  (segments r = segments (mk cwd s) \/ exists c, okc c = true /\ segments r = segments (mk cwd s) ++ [c])
  /\ init_slashes r = init_slashes (mk cwd s) /\ forallb okc (segments r) = true /\ normpath r = r.
Proof.
  intros cwd s name r Hc H. destruct (child_spec cwd _ name r (mk_absnormal cwd s Hc) H) as (Ha & Hi & Hs).
  repeat split; [assumption | assumption | now apply absnormal_segments_ok | now apply normpath_absnormal].
Qed.

Lemma preauth_final : forall cwd s path r,
  isabs cwd = true ->
  preauthChild cwd (mk cwd s) path = Some r ->
  prefix_of (segments (mk cwd s)) (segments r) = true /\ forallb okc (segments r) = true /\ normpath r = r.
Proof.
  intros cwd s path r Hc H. destruct (preauthChild_spec cwd _ path r (mk_absnormal cwd s Hc) H) as (Ha & Hp & Ho).
  repeat split; [assumption | assumption | now apply normpath_absnormal].
Qed.

Lemma descendant_final : forall cwd s segs r,
  isabs cwd = true ->
  descendant cwd (mk cwd s) segs = Some r ->
  (exists rest, segments r = segments (mk cwd s) ++ rest /\ length rest <= length segs /\ forallb okc rest = true)
  /\ forallb okc (segments r) = true /\ normpath r = r.
Proof.
  intros cwd s segs r Hc H. destruct (descendant_spec cwd segs _ r (mk_absnormal cwd s Hc) H) as (Ha & Hr).
  repeat split; [assumption | now apply absnormal_segments_ok | now apply normpath_absnormal].
Qed.

Lemma static_final : forall cwd isdir exists_ listdir indexNames ignoredExts processed children s urlpath acc o,
  isabs cwd = true -> forallb okc indexNames = true ->
  forallb (fun e => negb (has_sl e)) ignoredExts = true ->
  (forall d n, In n (listdir d) -> okc n = true) ->
  (forall p, isdir p = true -> exists_ p = true) ->
  serve cwd isdir exists_ listdir indexNames ignoredExts processed children (mk cwd s) urlpath = (acc, o) ->
  (forall a, In a acc -> within (mk cwd s) (accessed a))
  /\ (forall f rest, o = Served f \/ o = Listing f \/ o = Processed f rest -> within (mk cwd s) f).
Proof.
  intros cwd isdir ex ls idx ign pr ch s urlpath acc o Hc Hi He Hl Hd H. unfold serve in H.
  exact (serve_segments_spec cwd isdir ex ls idx ign pr ch Hi He Hl Hd _ _ acc o (mk_absnormal cwd s Hc) H).
Qed.

Lemma static_segments_final : forall cwd isdir exists_ listdir indexNames ignoredExts processed children s post acc o,
  isabs cwd = true -> forallb okc indexNames = true ->
  forallb (fun e => negb (has_sl e)) ignoredExts = true ->
  (forall d n, In n (listdir d) -> okc n = true) ->
  (forall p, isdir p = true -> exists_ p = true) ->
  serve_segments cwd isdir exists_ listdir indexNames ignoredExts processed children (mk cwd s) post = (acc, o) ->
  (forall a, In a acc -> within (mk cwd s) (accessed a))
  /\ (forall f rest, o = Served f \/ o = Listing f \/ o = Processed f rest -> within (mk cwd s) f).
Proof.
  intros cwd isdir ex ls idx ign pr ch s post acc o Hc Hi He Hl Hd H.
  exact (serve_segments_spec cwd isdir ex ls idx ign pr ch Hi He Hl Hd _ _ acc o (mk_absnormal cwd s Hc) H).
Qed.

(** containment of strings in the segment view really is about names below the parent:
    a path within [p] is [p]'s own components followed by ordinary names *)
Lemma within_meaning : forall p r, within p r ->
  exists rest, segments r = segments p ++ rest /\ forallb okc rest = true.
Proof.
  intros p r [H1 H2]. apply prefix_of_spec in H1 as [rest E]. exists rest. split; [assumption|].
  rewrite E, forallb_app in H2. now apply andb_true_iff in H2 as [_ H2].
Qed.

Example ex_static :
  let isdir := fun p => beq p [47;114]%N || beq p [47;114;47;115]%N in                 (* /r  /r/s *)
  let ex := fun p => isdir p || beq p [47;114;47;115;47;105]%N || beq p [47;114;47;112;46;104]%N in  (* /r/s/i  /r/p.h *)
  let ls := fun d => if beq d [47;114]%N then [[115]; [112;46;104]]%N else [] in
  let serve' := serve [47]%N isdir ex ls [[105]%N] [star] (fun _ => false) [([120]%N, 7)] [47;114]%N in
  serve' [47;115;47]%N                                                                (* GET /s/ *)
  = ([AOpen [47;114;47;115;47;105]%N], Served [47;114;47;115;47;105]%N)
  /\ serve' [47;37;50;101;37;50;101;47;115]%N = ([], NotFound)                        (* GET /%2e%2e/s *)
  /\ serve' [47;112]%N                                                                (* GET /p  (ignoredExts "*") *)
  = ([AListdir [47;114]%N; AOpen [47;114;47;112;46;104]%N], Served [47;114;47;112;46;104]%N)
  /\ serve' [47;120;47;121]%N = ([], StaticChild 7 [[121]%N]).                         (* GET /x/y  (putChild) *)
Proof. repeat split; vm_compute; reflexivity. Qed.
