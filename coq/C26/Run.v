(** C26: printers used by the correspondence check only. *)
From Coq Require Import List NArith Bool String.
From TwLib Require Import Show PyPath PyPathDir.
From C26 Require Import Model.
Import ListNotations.
Local Open Scope string_scope.

Inductive case :=
| CNorm (s : bytes)                         (* os.path.normpath(s) *)
| CJoin (a b : bytes)                       (* os.path.join(a, b) *)
| CAbs (cwd s : bytes)                      (* os.path.abspath(s) *)
| CSegs (s : bytes)                         (* [c for c in s.split(b"/") if c] *)
| CUnq (s : bytes)                          (* unquote(s) and whether it decodes as UTF-8 *)
| CChild (cwd parent name : bytes)          (* FilePath(parent).child(name) *)
| CPre (cwd parent path : bytes)            (* FilePath(parent).preauthChild(path) *)
| CDesc (cwd parent : bytes) (segs : list bytes)
| CDir (s : bytes)                          (* os.path.dirname / basename / splitext(s)[1] *)
| CStatic (cwd root : bytes) (dirs files : list bytes) (listing : list (bytes * list bytes))
          (index ignored procexts : list bytes) (children : list (bytes * nat)) (url : bytes).

Definition show_res (r : option bytes) : string :=
  match r with Some p => "P:" ++ show_hex p | None => "X" end.

Definition show_access (a : access) : string :=
  match a with AOpen p => "o:" ++ show_hex p | AListdir p => "l:" ++ show_hex p end.

Definition show_outcome (o : outcome) : string :=
  match o with
  | Served p => "S:" ++ show_hex p
  | Listing p => "L:" ++ show_hex p
  | Redirect => "R"
  | NotFound => "N"
  | Error500 => "E"
  | Processed p rest => "P:" ++ show_hex p ++ ":" ++ String.concat "/" (map show_hex rest)
  | StaticChild i rest => "C:" ++ show_nat i ++ ":" ++ String.concat "/" (map show_hex rest)
  end.

Definition mem (l : list bytes) (p : bytes) : bool := existsb (beq p) l.

Definition run_show (c : case) : string :=
  match c with
  | CNorm s => "P:" ++ show_hex (normpath s)
  | CJoin a b => "P:" ++ show_hex (pjoin a b)
  | CAbs cwd s => "P:" ++ show_hex (abspath cwd s)
  | CSegs s => String.concat "," (map show_hex (segments s))
  | CUnq s => show_hex (unquote s) ++ (if utf8_valid (unquote s) then ":u" else ":b")
  | CChild cwd parent name => show_res (child cwd (mk cwd parent) name)
  | CPre cwd parent path => show_res (preauthChild cwd (mk cwd parent) path)
  | CDesc cwd parent segs => show_res (descendant cwd (mk cwd parent) segs)
  | CDir s => show_hex (dirname s) ++ "|" ++ show_hex (basename s) ++ "|" ++ show_hex (ext_of s)
  | CStatic cwd root dirs files listing index ignored procexts children url =>
      let isdir := mem dirs in
      let ex := fun p => mem dirs p || mem files p in
      let ls := fun d => match assoc d listing with Some l => l | None => [] end in
      let processed := fun g => mem procexts (ext_of g) in
      let '(acc, o) := serve cwd isdir ex ls index ignored processed children (mk cwd root) url in
      String.concat "," (map show_access acc) ++ "|" ++ show_outcome o
  end.
