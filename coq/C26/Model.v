(** C26: FilePath.child / preauthChild / descendant (src/twisted/python/filepath.py) and the path
    traversal of static.File (src/twisted/web/static.py getChild / render_GET, reached through
    server.Request.process's per-segment unquote and resource.getChildForRequest), on POSIX.

    Path strings are byte strings ([list N], see TwLib.PyPath); [str] paths are modelled by their
    filesystem encoding (the code only compares with '/', '.', and whole strings).  [cwd] is the
    process's current directory (only used by abspath for relative strings).

    [preauthChild] is the REPAIRED containment test (fixes/C26-preauthchild-prefix.patch);
    [preauthChild_pinned] is the test as it stands in the pinned source (string prefix without a
    separator), kept for the refutation theorem. *)
From Coq Require Import List NArith Bool Arith.
From TwLib Require Import PyPath PyPathDir.
Import ListNotations.

Section WithCwd.
  Variable cwd : bytes.

  (** FilePath(s).path *)
  Definition mk (s : bytes) : bytes := abspath cwd s.

  (** FilePath.child: None = InsecurePath *)
  Definition child (p name : bytes) : option bytes :=
    let norm := normpath name in
    if has_sl norm then None
    else
      let newpath := abspath cwd (pjoin p norm) in
      if startswith newpath p then Some newpath else None.

  (** the repaired containment test: equal, or below [p + sep] ([p] itself when it already ends with
      the separator, i.e. is a root) *)
  Definition inside (np p : bytes) : bool :=
    beq np p || startswith np (if endswith_sl p then p else p ++ [SL]).

  Definition preauthChild (p path : bytes) : option bytes :=
    let newpath := abspath cwd (pjoin p (normpath path)) in
    if inside newpath p then Some newpath else None.

  Definition preauthChild_pinned (p path : bytes) : option bytes :=
    let newpath := abspath cwd (pjoin p (normpath path)) in
    if startswith newpath p then Some newpath else None.

  (** AbstractFilePath.descendant: child after child *)
  Fixpoint descendant (p : bytes) (segs : list bytes) : option bytes :=
    match segs with
    | [] => Some p
    | n :: r => match child p n with Some q => descendant q r | None => None end
    end.

  (** FilePath.childSearchPreauth over the configured index names: first existing join(p, name),
      as clonePath (= abspath) of it *)
  Fixpoint childSearchPreauth (exists_ : bytes -> bool) (p : bytes) (names : list bytes) : option bytes :=
    match names with
    | [] => None
    | n :: r => if exists_ (pjoin p n) then Some (abspath cwd (pjoin p n))
                else childSearchPreauth exists_ p r
    end.
End WithCwd.

(** ---- bytes.decode("utf-8") succeeds?  (RFC 3629 well-formed sequences; trusted semantics of the
    CPython decoder, validated by the correspondence) ---- *)
Definition inr (lo hi x : N) : bool := N.leb lo x && N.leb x hi.
Definition cont (x : N) : bool := inr 128 191 x.

Fixpoint utf8_valid (s : bytes) : bool :=
  match s with
  | [] => true
  | a :: r =>
      if N.ltb a 128 then utf8_valid r
      else if inr 194 223 a then
        match r with b :: r1 => cont b && utf8_valid r1 | _ => false end
      else if inr 224 239 a then
        match r with
        | b :: c :: r2 =>
            (if N.eqb a 224 then inr 160 191 b else if N.eqb a 237 then inr 128 159 b else cont b)
            && cont c && utf8_valid r2
        | _ => false
        end
      else if inr 240 244 a then
        match r with
        | b :: c :: d :: r3 =>
            (if N.eqb a 240 then inr 144 191 b else if N.eqb a 244 then inr 128 143 b else cont b)
            && cont c && cont d && utf8_valid r3
        | _ => false
        end
      else false
  end.

(** ---- urllib.parse.unquote_to_bytes (twisted.web.http.unquote) ---- *)
Definition hexval (c : N) : option N :=
  if inr 48 57 c then Some (c - 48)%N
  else if inr 65 70 c then Some (c - 55)%N
  else if inr 97 102 c then Some (c - 87)%N
  else None.

Fixpoint unquote (s : bytes) : bytes :=
  match s with
  | [] => []
  | c :: r =>
      if N.eqb c 37 then
        match r with
        | a :: b :: r2 =>
            match hexval a, hexval b with
            | Some x, Some y => (16 * x + y)%N :: unquote r2
            | _, _ => c :: unquote r
            end
        | _ => c :: unquote r
        end
      else c :: unquote r
  end.

Definition has_nul (s : bytes) : bool := existsb (N.eqb 0) s.

(** ---- static.File ---- *)
Inductive access := AOpen (p : bytes) | AListdir (p : bytes).

Inductive outcome :=
| Served (p : bytes)        (* File.render_GET opened p for reading *)
| Listing (p : bytes)       (* DirectoryLister for p rendered *)
| Redirect                  (* a directory without trailing slash *)
| NotFound                  (* File.childNotFound (whatever resource is configured there) rendered *)
| Error500                  (* os.stat refused the name (embedded NUL): ValueError -> 500 *)
| Processed (p : bytes) (rest : list bytes)   (* self.processors[ext](p, registry) renders; [rest] = request.postpath *)
| StaticChild (i : nat) (rest : list bytes).  (* a resource registered with putChild on the root renders *)

Inductive res := RFile (p : bytes) | RLister (p : bytes) | RNotFound | RError | RProc (p : bytes).

Definition star : bytes := [42]%N.

Fixpoint assoc {A} (k : bytes) (l : list (bytes * A)) : option A :=
  match l with
  | [] => None
  | (k', v) :: r => if beq k k' then Some v else assoc k r
  end.

Section Static.
  Variable cwd : bytes.
  Variables (isdir exists_ : bytes -> bool).      (* the file system: arbitrary *)
  Variable listdir : bytes -> list bytes.         (* os.listdir, in the order the OS gives *)
  Variable indexNames : list bytes.
  Variable ignoredExts : list bytes.              (* File.ignoredExts: "" / "*" / ".ext" *)
  Variable processed : bytes -> bool.             (* self.processors has an entry for splitext(path)[1] *)
  Variable children : list (bytes * nat).         (* root.putChild(name, resource number i) *)

  (** FilePath.siblingExtensionSearch, given the extensions exts, on the (non-existing) path p; the ghost list records the
      directory listing the "*" extension performs *)
  Fixpoint sibSearch (p : bytes) (exts : list bytes) : list access * option bytes :=
    match exts with
    | [] => ([], None)
    | e :: r =>
        if is_nil e && exists_ p then ([], Some (abspath cwd p))
        else
          let wild := if beq e star
                      then ([AListdir (dirname p)],
                            find (fun fn => startswith fn (basename p ++ [DT])) (listdir (dirname p)))
                      else ([], None) in
          match snd wild with
          | Some fn => (fst wild, Some (abspath cwd (pjoin (dirname p) fn)))
          | None =>
              if exists_ (p ++ e) then (fst wild, Some (abspath cwd (p ++ e)))
              else let '(acc, o) := sibSearch p r in (fst wild ++ acc, o)
          end
    end.

  (** what File.getChild does once it holds the candidate path f *)
  Definition resolve (f : bytes) : list access * res :=
    if has_nul f then ([], RError)
    else
      let '(acc, g) := if exists_ f then ([], Some f) else sibSearch f ignoredExts in
      match g with
      | None => (acc, RNotFound)
      | Some g => (acc, if processed g then RProc g else RFile g)
      end.

  (** File.getChild for a File at [p] *)
  Definition getChild (p seg : bytes) : list access * res :=
    if negb (utf8_valid seg) then ([], RNotFound)
    else if negb (isdir p) then ([], RNotFound)
    else if negb (is_nil seg) then
      match child cwd p seg with
      | None => ([], RNotFound)
      | Some f => resolve f
      end
    else
      match childSearchPreauth cwd exists_ p indexNames with
      | None => ([AListdir p], RLister p)     (* DirectoryLister is built eagerly: listdir happens here *)
      | Some f => resolve f
      end.

  (** resource.getChildForRequest from a File at [p]: accesses, final resource, unconsumed segments *)
  Fixpoint walk (p : bytes) (post : list bytes) : list access * res * list bytes :=
    match post with
    | [] => ([], RFile p, [])
    | seg :: r =>
        let '(acc, g) := getChild p seg in
        match g with
        | RFile f => let '(acc', g', rest) := walk f r in (acc ++ acc', g', rest)
        | RLister d => (acc, match r with [] => RLister d | _ :: _ => RNotFound end, [])
        | RProc f => (acc, RProc f, r)          (* the harness's processors are leaves *)
        | RNotFound => (acc, RNotFound, [])
        | RError => (acc, RError, [])
        end
    end.

  (** render of the resource the traversal ended at *)
  Definition serve_walk (root : bytes) (post : list bytes) : list access * outcome :=
    let '(acc, r, rest) := walk root post in
    match r with
    | RFile f =>
        if exists_ f then
          if isdir f then (acc, Redirect) else (acc ++ [AOpen f], Served f)
        else (acc, NotFound)
    | RLister d => (acc, Listing d)
    | RProc f => (acc, Processed f rest)
    | RNotFound => (acc, NotFound)
    | RError => (acc, Error500)
    end.

  (** Request.process for a Site whose root resource is File(root) with [children] registered on it;
      [post] = map unquote (path[1:].split("/")) *)
  Definition serve_segments (root : bytes) (post : list bytes) : list access * outcome :=
    match post with
    | seg :: r =>
        match assoc seg children with
        | Some i => ([], StaticChild i r)
        | None => serve_walk root post
        end
    | [] => serve_walk root post
    end.

  Definition serve (root urlpath : bytes) : list access * outcome :=
    serve_segments root (map unquote (split_sl (tl urlpath))).
End Static.

Definition accessed (a : access) : bytes := match a with AOpen p | AListdir p => p end.

(** ---- the specification: containment is segment-wise prefix; no "..", ".", '/' or empty
    component remains in the result (so the kernel resolves it component by component below the
    parent, symbolic links aside) ---- *)
Definition within (parent r : bytes) : Prop :=
  prefix_of (segments parent) (segments r) = true /\ forallb okc (segments r) = true.
