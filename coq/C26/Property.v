(** C26 property theorems (nothing else lives here; each is closed by [exact]).

    Paths are byte strings; [mk cwd s] is what [FilePath(s)] stores ([abspath]); [segments] is the
    list of non-empty '/'-separated components of a path string; [okc c] says the component [c] is
    non-empty, contains no '/', and is neither "." nor "..".  [None] = InsecurePath raised.
    Every theorem holds for EVERY current directory [cwd] (absolute, as getcwd returns), every
    constructor argument [s] and every name / path / segment list / URL path over all of [N]. *)
From Coq Require Import List NArith Bool Arith.
From TwLib Require Import PyPath.
From C26 Require Import Model Proofs.
Import ListNotations.

(** FilePath(s).child(name) is the parent itself or a path directly inside it (one more ordinary
    component), with the same leading-slash form, fully normalised — or raises InsecurePath.  This is
    proved for the code AS IT STANDS (string-prefix test included). *)
Theorem child_is_self_or_direct_child_or_raises : forall cwd s name r,
  isabs cwd = true ->
  child cwd (mk cwd s) name = Some r ->
  (segments r = segments (mk cwd s) \/ exists c, okc c = true /\ segments r = segments (mk cwd s) ++ [c])
  /\ init_slashes r = init_slashes (mk cwd s) /\ forallb okc (segments r) = true /\ normpath r = r.
Proof. exact child_final. Qed.
Print Assumptions child_is_self_or_direct_child_or_raises.

(** FilePath(s).preauthChild(path) — with the repaired containment test — lies in the parent's
    subtree (component-wise prefix), has no "." / ".." / empty component left, or raises. *)
Theorem preauthChild_inside_subtree_or_raises : forall cwd s path r,
  isabs cwd = true ->
  preauthChild cwd (mk cwd s) path = Some r ->
  prefix_of (segments (mk cwd s)) (segments r) = true /\ forallb okc (segments r) = true /\ normpath r = r.
Proof. exact preauth_final. Qed.
Print Assumptions preauthChild_inside_subtree_or_raises.

(** the containment test of the pinned source (newpath.startswith(ourPath)) does NOT have this
    property: FilePath("/tmp/foo").preauthChild("../foobar/x") returns /tmp/foobar/x (finding F8);
    the repaired test refuses that input *)
Theorem preauthChild_pinned_prefix_sibling_refuted :
  isabs w_cwd = true /\ absnormal (mk w_cwd w_parent)
  /\ preauthChild_pinned w_cwd (mk w_cwd w_parent) w_path = Some w_result
  /\ prefix_of (segments (mk w_cwd w_parent)) (segments w_result) = false
  /\ preauthChild w_cwd (mk w_cwd w_parent) w_path = None.
Proof. exact pinned_refuted. Qed.
Print Assumptions preauthChild_pinned_prefix_sibling_refuted.

(** FilePath(s).descendant(segs): the parent's components followed by at most |segs| ordinary names *)
Theorem descendant_inside_subtree_or_raises : forall cwd s segs r,
  isabs cwd = true ->
  descendant cwd (mk cwd s) segs = Some r ->
  (exists rest, segments r = segments (mk cwd s) ++ rest /\ length rest <= length segs /\ forallb okc rest = true)
  /\ forallb okc (segments r) = true /\ normpath r = r.
Proof. exact descendant_final. Qed.
Print Assumptions descendant_inside_subtree_or_raises.

(** static.File(s) behind Request.process, with index names, ignoredExts (siblingExtensionSearch, "*"
    included), processors, putChild children on the root and whatever childNotFound is configured:
    for EVERY file-system state ([isdir], [exists_], [listdir] arbitrary, subject to: a directory
    exists, and listdir returns ordinary names), every list of ordinary index names, every list of
    slash-free ignored extensions, every processor table and every request path, each directory
    listed, the file opened for the response and the path handed to a processor lie in the root's
    subtree ([within root p]: root's components are a prefix of p's, and p has only ordinary
    components) *)
Theorem static_serves_only_inside_root :
  forall cwd isdir exists_ listdir indexNames ignoredExts processed children s urlpath acc o,
  isabs cwd = true -> forallb okc indexNames = true ->
  forallb (fun e => negb (has_sl e)) ignoredExts = true ->
  (forall d n, In n (listdir d) -> okc n = true) ->
  (forall p, isdir p = true -> exists_ p = true) ->
  serve cwd isdir exists_ listdir indexNames ignoredExts processed children (mk cwd s) urlpath = (acc, o) ->
  (forall a, In a acc -> within (mk cwd s) (accessed a))
  /\ (forall f rest, o = Served f \/ o = Listing f \/ o = Processed f rest -> within (mk cwd s) f).
Proof. exact static_final. Qed.
Print Assumptions static_serves_only_inside_root.

(** ... and the same for any list of already-unquoted segments (a superset of what unquote yields) *)
Theorem static_serves_only_inside_root_any_segments :
  forall cwd isdir exists_ listdir indexNames ignoredExts processed children s post acc o,
  isabs cwd = true -> forallb okc indexNames = true ->
  forallb (fun e => negb (has_sl e)) ignoredExts = true ->
  (forall d n, In n (listdir d) -> okc n = true) ->
  (forall p, isdir p = true -> exists_ p = true) ->
  serve_segments cwd isdir exists_ listdir indexNames ignoredExts processed children (mk cwd s) post = (acc, o) ->
  (forall a, In a acc -> within (mk cwd s) (accessed a))
  /\ (forall f rest, o = Served f \/ o = Listing f \/ o = Processed f rest -> within (mk cwd s) f).
Proof. exact static_segments_final. Qed.
Print Assumptions static_serves_only_inside_root_any_segments.

(** what [within] says, spelled out *)
Theorem within_is_componentwise_containment : forall p r, within p r ->
  exists rest, segments r = segments p ++ rest /\ forallb okc rest = true.
Proof. exact within_meaning. Qed.
Print Assumptions within_is_componentwise_containment.
