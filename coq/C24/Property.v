(** C24 property theorems: HTTP client request serialisation (twisted.web._newclient.Request).
    Model.v is the model of the code (validators regenerated into Gen.v from the source),
    Spec.v the independent RFC 9112 request parser.  Bytes are [N] (a superset of octets). *)
From Coq Require Import List NArith Bool.
From TwLib Require Import HttpClientBytes.
From C24 Require Import Gen Model Spec Proofs.
Import ListNotations.
Local Open Scope N_scope.

(** For EVERY request with a token method, a VCHAR target, exactly one Host value, header names
    that are tokens and are not Content-Length / Transfer-Encoding, header values free of CR and LF
    (what Headers guarantees), persistent or not, and a body that is absent, or produced as ANY
    list of writes (empty writes included) of total length = the announced length, or as ANY list
    of writes with unknown length, followed by the producer finishing:
    writeTo succeeds, leaves no producer registered, and the bytes it gave to the transport parse
    with the RFC parser as exactly one request (nothing left over) with that method, target,
    the headers in order (Connection: close unless persistent, the framing header, the caller's;
    values modulo surrounding optional white space) and exactly the body bytes written. *)
Theorem request_parses_back : forall (r : request) (content : bytes),
  (istoken (r_method r) = true /\ valid_uri (r_uri r) = true /\
   length (host_values (r_headers r)) = 1%nat /\
   Forall (fun h => istoken (fst h) = true /\ ~ In 13 (snd h) /\ ~ In 10 (snd h)
                    /\ is_framing_name (fst h) = false) (flatten (r_headers r))) ->
  match r_body r with
  | NoBody => content = []
  | Known len s => exists ws, s = map PWrite ws ++ [PFinish] /\ concat ws = content /\ lenN content = len
  | Unknown s => exists ws, s = map PWrite ws ++ [PFinish] /\ concat ws = content
  end ->
  exists o, write_to r = inr o /\ o_result o = OOk /\ o_registered o = false /\
    parse_request (o_out o) =
    Some (mkParsed (r_method r) (r_uri r)
            (map (fun h => (fst h, trim_ows (snd h)))
               ((if r_persistent r then [] else [(CONNECTION, CLOSE)]) ++
                match r_body r with
                | NoBody => if eqb_bytes (r_method r) PUT || eqb_bytes (r_method r) POST
                            then [(CONTENT_LENGTH, [48])] else []
                | Known len _ => [(CONTENT_LENGTH, show_dec len)]
                | Unknown _ => [(TRANSFER_ENCODING, CHUNKED)]
                end ++ flatten (r_headers r)))
            content []).
Proof. exact parses_back. Qed.
Print Assumptions request_parses_back.

(** ... and while the producer of an unknown-length body has not finished (or has failed), what
    is on the wire is never a complete message, whatever it wrote (this is what the unrepaired
    ChunkedEncoder.write violates on an empty write) *)
Theorem unfinished_chunked_request_is_incomplete : forall r ws tl,
  good_request r -> r_body r = Unknown (map PWrite ws ++ tl) -> (tl = [] \/ tl = [PFail]) ->
  parse_request (written r) = None.
Proof. exact unfinished_chunked_incomplete. Qed.
Print Assumptions unfinished_chunked_request_is_incomplete.

(** A method that is not an RFC 9110 token, a target that is not 1*VCHAR, or a Host count other
    than one: refused (ValueError / BadHeaders) with nothing written, whatever the body, whether
    the value came through the constructor or was assigned to the attribute later. *)
Theorem invalid_method_or_target_refused_before_write : forall r,
  is_token (r_method r) = false \/ is_target (r_uri r) = false \/
  length (host_values (r_headers r)) <> 1%nat ->
  (exists e, write_to r = inl e) /\ written r = [].
Proof. exact refused_before_write. Qed.
Print Assumptions invalid_method_or_target_refused_before_write.

(** The validators of the code (byte set of _istoken and range of _VALID_URI, regenerated from
    the source) are exactly RFC 9110 token and 1*VCHAR. *)
Theorem validators_are_rfc_token_and_vchar :
  (forall b, istoken b = is_token b) /\ (forall u, valid_uri u = is_target u).
Proof. exact (conj istoken_is_rfc_token valid_uri_is_rfc_target). Qed.
Print Assumptions validators_are_rfc_token_and_vchar.

(** LengthEnforcingConsumer, for EVERY producer script (any writes, finish/fail anywhere, writes
    after the end): what reaches the transport after the head never exceeds the announced length,
    and success means exactly that many bytes arrived. *)
Theorem length_enforced : forall len h script,
  let s := fst (cl_run (mkCl len true false OPending h true 0) script) in
  exists bodyp, c_out s = h ++ bodyp /\ lenN bodyp <= len /\ (c_result s = OOk -> lenN bodyp = len).
Proof. exact length_enforced_all. Qed.
Print Assumptions length_enforced.

(** ... and once writeTo's Deferred has fired, nothing the producer does later changes its result
    or puts another byte on the wire. *)
Theorem content_length_result_fires_once : forall len h pre post,
  let s1 := fst (cl_run (mkCl len true false OPending h true 0) pre) in
  let s2 := fst (cl_run (mkCl len true false OPending h true 0) (pre ++ post)) in
  c_result s1 <> OPending -> c_result s2 = c_result s1 /\ c_out s2 = c_out s1.
Proof. exact fires_once_all. Qed.
Print Assumptions content_length_result_fires_once.
