(** C24 proofs. *)
From Coq Require Import List NArith Bool Arith Lia.
From TwLib Require Import HttpClientBytes.
From C24 Require Import Gen Model Spec.
Import ListNotations.
Local Open Scope N_scope.

(** * A. the validators of the code (Gen.v) are the RFC character classes (Spec.v) *)

Lemma small_N_cases : forall (P : N -> Prop) (k : nat),
  (forall n, In n (seq 0 k) -> P (N.of_nat n)) -> forall c, c < N.of_nat k -> P c.
Proof.
  intros P k H c Hc. rewrite <- (Nnat.N2Nat.id c). apply H. apply in_seq. lia.
Qed.

Lemma tchar_pointwise : forall c, memb c token_chars = is_tchar c.
Proof.
  intro c. destruct (c <? 128) eqn:E.
  - apply N.ltb_lt in E. revert c E. apply (small_N_cases _ 128).
    assert (Hall : forallb (fun n => Bool.eqb (memb (N.of_nat n) token_chars) (is_tchar (N.of_nat n)))
                     (seq 0 128) = true) by (vm_compute; reflexivity).
    intros n Hn. rewrite forallb_forall in Hall. apply Hall in Hn. now apply eqb_prop in Hn.
  - apply N.ltb_ge in E.
    assert (H1 : memb c token_chars = false).
    { destruct (memb c token_chars) eqn:M; [|reflexivity]. apply memb_In in M.
      assert (Hlt : forallb (fun x => x <? 128) token_chars = true) by (vm_compute; reflexivity).
      rewrite forallb_forall in Hlt. apply Hlt in M. apply N.ltb_lt in M. lia. }
    rewrite H1. unfold is_tchar, is_alpha, is_digit.
    assert (H2 : c <=? 90 = false) by (apply N.leb_gt; lia).
    assert (H3 : c <=? 122 = false) by (apply N.leb_gt; lia).
    assert (H4 : c <=? 57 = false) by (apply N.leb_gt; lia).
    rewrite H2, H3, H4, !andb_false_r. cbn [orb].
    destruct (memb c [33; 35; 36; 37; 38; 39; 42; 43; 45; 46; 94; 95; 96; 124; 126]) eqn:M; [|reflexivity].
    apply memb_In in M.
    assert (Hlt : forallb (fun x => x <? 128) [33; 35; 36; 37; 38; 39; 42; 43; 45; 46; 94; 95; 96; 124; 126] = true)
      by (vm_compute; reflexivity).
    rewrite forallb_forall in Hlt. apply Hlt in M. apply N.ltb_lt in M. lia.
Qed.

Lemma nonempty_is_nil : forall b, nonempty b = negb (is_nil b).
Proof. now destruct b. Qed.

Lemma forallb_ext' : forall (f g : N -> bool) l, (forall c, f c = g c) -> forallb f l = forallb g l.
Proof. intros f g l H. induction l as [|x l IH]; [reflexivity|]. cbn. now rewrite H, IH. Qed.

Lemma istoken_is_rfc_token : forall b, istoken b = is_token b.
Proof.
  intro b. unfold istoken, is_token. rewrite nonempty_is_nil, andb_comm. f_equal.
  apply forallb_ext'. intros c. apply tchar_pointwise.
Qed.

Lemma valid_uri_is_rfc_target : forall u, valid_uri u = is_target u.
Proof. intro u. unfold valid_uri, is_target. now rewrite nonempty_is_nil. Qed.

(** * B. facts about tokens / targets *)

Lemma forallb_not_In : forall (p : N -> bool) l c, forallb p l = true -> p c = false -> ~ In c l.
Proof.
  intros p l c H Hc Hin. rewrite forallb_forall in H. apply H in Hin. congruence.
Qed.

Lemma token_no : forall b c, is_token b = true -> is_tchar c = false -> ~ In c b.
Proof.
  intros b c H Hc. unfold is_token in H. apply andb_true_iff in H. destruct H as [_ H].
  eapply forallb_not_In; eauto.
Qed.

Lemma target_no : forall b c, is_target b = true -> is_vchar c = false -> ~ In c b.
Proof.
  intros b c H Hc. unfold is_target in H. apply andb_true_iff in H. destruct H as [_ H].
  eapply forallb_not_In; eauto.
Qed.

Lemma not_In_app : forall (c : N) a b, ~ In c a -> ~ In c b -> ~ In c (a ++ b).
Proof. intros c a b Ha Hb H. apply in_app_or in H. tauto. Qed.

(** * C. the field section parses back *)

Definition good_field (h : bytes * bytes) : Prop := is_token (fst h) = true /\ ~ In 13 (snd h).

Definition trimmed (h : bytes * bytes) : bytes * bytes := (fst h, trim_ows (snd h)).

Lemma trim_ows_sp : forall v, trim_ows (32 :: v) = trim_ows v.
Proof. intro v. reflexivity. Qed.

Lemma parse_fields_wire : forall hs rest fuel,
  Forall good_field hs -> (length hs < fuel)%nat ->
  parse_fields fuel (concat (map field_line hs) ++ [13; 10] ++ rest) = Some (map trimmed hs, rest).
Proof.
  induction hs as [|h hs IH]; intros rest fuel Hg Hf.
  - destruct fuel as [|f]; [inversion Hf|]. reflexivity.
  - destruct fuel as [|f]; [inversion Hf|].
    inversion Hg as [|? ? [Hn Hv] Hg']; subst.
    destruct h as [name v]. cbn [fst snd] in *.
    cbn [map concat]. unfold field_line at 1. cbn [fst snd].
    replace (((name ++ [58; 32] ++ v ++ [13; 10]) ++ concat (map field_line hs)) ++ [13; 10] ++ rest)
      with ((name ++ 58 :: 32 :: v) ++ 13 :: 10 :: (concat (map field_line hs) ++ [13; 10] ++ rest)).
    2:{ repeat rewrite <- app_assoc. reflexivity. }
    cbn [parse_fields]. rewrite split_crlf_app.
    2:{ apply not_In_app; [eapply token_no; eauto|].
        intros [E | [E | E]]; try discriminate. contradiction. }
    assert (Hne : is_nil (name ++ 58 :: 32 :: v) = false) by (destruct name; reflexivity).
    rewrite Hne. rewrite split_at_app by (eapply token_no; eauto).
    rewrite Hn. rewrite IH by (assumption || (cbn [length] in Hf; lia)).
    rewrite trim_ows_sp. reflexivity.
Qed.

Lemma values_of_app : forall n a b, values_of n (a ++ b) = values_of n a ++ values_of n b.
Proof. intros. unfold values_of. now rewrite filter_app, map_app. Qed.

Lemma values_of_none : forall n hs,
  Forall (fun h => eqb_bytes (lower (fst h)) n = false) hs -> values_of n hs = [].
Proof.
  induction hs as [|h hs IH]; intro H; [reflexivity|].
  inversion H; subst. unfold values_of in *. cbn [filter]. rewrite H2. now apply IH.
Qed.

(** * D. the chunked body parses back *)

Lemma hex_no_cr : forall n, ~ In 13 (show_hexN n).
Proof. intros n H. apply show_hexN_digits in H. lia. Qed.

Lemma dec_no_cr : forall n, ~ In 13 (show_dec n).
Proof. intros n H. apply show_dec_digits in H. lia. Qed.

Lemma dechunk_chunks : forall ws tail fuel,
  Forall (fun w => w <> []) ws ->
  dechunk (length ws + fuel) (concat (map chunk ws) ++ tail) =
  match dechunk fuel tail with
  | Some (b, r) => Some (concat ws ++ b, r)
  | None => None
  end.
Proof.
  induction ws as [|d ws IH]; intros tail fuel Hne.
  - cbn. destruct (dechunk fuel tail) as [[b r]|]; reflexivity.
  - inversion Hne; subst.
    cbn [length plus map concat]. unfold chunk at 1.
    replace (((show_hexN (lenN d) ++ [13; 10] ++ d ++ [13; 10]) ++ concat (map chunk ws)) ++ tail)
      with (show_hexN (lenN d) ++ 13 :: 10 :: (d ++ 13 :: 10 :: (concat (map chunk ws) ++ tail))).
    2:{ repeat rewrite <- app_assoc. reflexivity. }
    cbn [dechunk]. rewrite split_crlf_app by apply hex_no_cr.
    rewrite read_show_hex.
    assert (Hz : lenN d =? 0 = false).
    { apply N.eqb_neq. intro E. apply lenN_nil_iff in E. contradiction. }
    rewrite Hz. rewrite take_n_app. cbn [starts_crlf]. rewrite !N.eqb_refl. cbn [andb].
    rewrite IH by assumption.
    destruct (dechunk fuel tail) as [[b r]|]; [|reflexivity].
    now rewrite app_assoc.
Qed.

Lemma dechunk_last : forall rest fuel, dechunk (S fuel) (last_chunk ++ rest) = Some ([], rest).
Proof. intros. reflexivity. Qed.

Lemma dechunk_more_fuel : forall fuel l b r k,
  dechunk fuel l = Some (b, r) -> dechunk (fuel + k) l = Some (b, r).
Proof.
  induction fuel as [|f IH]; intros l b r k H; [discriminate|].
  cbn [plus dechunk] in *.
  destruct (split_crlf l) as [[sz rest]|]; [|discriminate].
  destruct (read_hex sz) as [n|]; [|discriminate].
  destruct (n =? 0); [assumption|].
  destruct (take_n n rest) as [[d rest']|]; [|discriminate].
  destruct (starts_crlf rest') as [rest''|]; [|discriminate].
  destruct (dechunk f rest'') as [[b' r']|] eqn:E; [|discriminate].
  rewrite (IH _ _ _ k E). assumption.
Qed.

Lemma chunk_length_pos : forall d, (1 <= length (chunk d))%nat.
Proof.
  intro d. unfold chunk. pose proof (show_hexN_nonnil (lenN d)) as H.
  destruct (show_hexN (lenN d)); [contradiction|]. cbn [app length]. lia.
Qed.

Lemma chunks_length : forall ws, (length ws <= length (concat (map chunk ws)))%nat.
Proof.
  induction ws as [|d ws IH]; [cbn; lia|].
  cbn [map concat length]. rewrite app_length. pose proof (chunk_length_pos d). lia.
Qed.

(** the complete chunked body, with the fuel [parse_request] gives it *)
Lemma dechunk_complete : forall ws rest,
  Forall (fun w => w <> []) ws ->
  let l := concat (map chunk ws) ++ last_chunk ++ rest in
  dechunk (S (length l)) l = Some (concat ws, rest).
Proof.
  intros ws rest Hne l.
  assert (H : dechunk (length ws + 1) l = Some (concat ws, rest)).
  { unfold l. rewrite dechunk_chunks by assumption. rewrite dechunk_last. now rewrite app_nil_r. }
  assert (Hlen : (length ws + 1 <= S (length l))%nat).
  { unfold l. rewrite app_length. pose proof (chunks_length ws). unfold bytes in *. lia. }
  replace (S (length l)) with ((length ws + 1) + (S (length l) - (length ws + 1)))%nat by lia.
  now apply dechunk_more_fuel.
Qed.

(** an unfinished chunked body is not a complete message *)
Lemma dechunk_unfinished : forall ws fuel,
  Forall (fun w => w <> []) ws -> dechunk fuel (concat (map chunk ws)) = None.
Proof.
  induction ws as [|d ws IH]; intros fuel Hne.
  - destruct fuel; reflexivity.
  - inversion Hne; subst. destruct fuel as [|f]; [reflexivity|].
    cbn [map concat]. unfold chunk at 1.
    replace ((show_hexN (lenN d) ++ [13; 10] ++ d ++ [13; 10]) ++ concat (map chunk ws))
      with (show_hexN (lenN d) ++ 13 :: 10 :: (d ++ 13 :: 10 :: concat (map chunk ws))).
    2:{ repeat rewrite <- app_assoc. reflexivity. }
    cbn [dechunk]. rewrite split_crlf_app by apply hex_no_cr. rewrite read_show_hex.
    assert (Hz : lenN d =? 0 = false).
    { apply N.eqb_neq. intro E. apply lenN_nil_iff in E. contradiction. }
    rewrite Hz, take_n_app. cbn [starts_crlf]. rewrite !N.eqb_refl. cbn [andb].
    now rewrite IH.
Qed.

(** * E. the body machines on a well-behaved script *)

Definition complete_script (ws : list bytes) : list pop := map PWrite ws ++ [PFinish].

Definition nonempties (ws : list bytes) : list bytes := filter nonempty ws.

Lemma nonempties_ne : forall ws, Forall (fun w => w <> []) (nonempties ws).
Proof.
  intro ws. apply Forall_forall. intros w H. apply filter_In in H. destruct H as [_ H].
  intro E. subst. discriminate.
Qed.

Lemma concat_nonempties : forall ws, concat (nonempties ws) = concat ws.
Proof.
  induction ws as [|w ws IH]; [reflexivity|]. unfold nonempties in *. cbn [filter].
  destruct w as [|x w]; cbn [nonempty concat]; [assumption|]. now rewrite IH.
Qed.

Lemma ch_run_writes : forall ws s,
  h_open s = true ->
  ch_run s (map PWrite ws) =
  (mkCh true (h_result s) (h_out s ++ concat (map chunk (nonempties ws))) (h_reg s), map (fun _ => false) ws).
Proof.
  induction ws as [|w ws IH]; intros s Ho.
  - cbn. rewrite app_nil_r. destruct s; cbn in *; now subst.
  - cbn [map ch_run ch_step]. rewrite Ho. cbn [negb].
    destruct w as [|x w].
    + cbn [nonempty]. rewrite IH by assumption. reflexivity.
    + cbn [nonempty]. rewrite IH by reflexivity. cbn [h_result h_out h_reg].
      unfold nonempties. cbn [filter nonempty map concat]. now rewrite <- app_assoc.
Qed.

Lemma ch_run_app : forall a b s,
  ch_run s (a ++ b) =
  let '(s1, m1) := ch_run s a in let '(s2, m2) := ch_run s1 b in (s2, m1 ++ m2).
Proof.
  induction a as [|o a IH]; intros b s.
  - cbn. destruct (ch_run s b); reflexivity.
  - cbn [app ch_run]. destruct (ch_step s o) as [s1 m]. rewrite IH.
    destruct (ch_run s1 a) as [s2 ms]. destruct (ch_run s2 b) as [s3 ms']. reflexivity.
Qed.

Lemma ch_run_complete : forall ws h,
  fst (ch_run (mkCh true OPending h true) (complete_script ws)) =
  mkCh false OOk (h ++ concat (map chunk (nonempties ws)) ++ last_chunk) false.
Proof.
  intros ws h. unfold complete_script. rewrite ch_run_app, ch_run_writes by reflexivity.
  cbn. now rewrite <- app_assoc.
Qed.

Lemma cl_run_app : forall a b s,
  cl_run s (a ++ b) =
  let '(s1, m1) := cl_run s a in let '(s2, m2) := cl_run s1 b in (s2, m1 ++ m2).
Proof.
  induction a as [|o a IH]; intros b s.
  - cbn. destruct (cl_run s b); reflexivity.
  - cbn [app cl_run]. destruct (cl_step s o) as [s1 m]. rewrite IH.
    destruct (cl_run s1 a) as [s2 ms]. destruct (cl_run s2 b) as [s3 ms']. reflexivity.
Qed.

Lemma cl_run_writes : forall ws rem k dec res out reg st,
  rem = lenN (concat ws) + k ->
  cl_run (mkCl rem true dec res out reg st) (map PWrite ws) =
  (mkCl k true dec res (out ++ concat ws) reg st, map (fun _ => false) ws).
Proof.
  induction ws as [|w ws IH]; intros rem k dec res out reg st Hrem.
  - cbn in *. rewrite app_nil_r. now subst.
  - cbn [map cl_run cl_step c_open negb c_remaining c_decided c_result c_out c_reg c_stops].
    cbn [concat] in Hrem. rewrite lenN_app in Hrem.
    assert (Hle : lenN w <=? rem = true) by (apply N.leb_le; lia).
    rewrite Hle. rewrite (IH (rem - lenN w) k) by lia.
    cbn [concat]. now rewrite <- app_assoc.
Qed.

Lemma cl_run_complete : forall ws h,
  fst (cl_run (mkCl (lenN (concat ws)) true false OPending h true 0) (complete_script ws)) =
  mkCl 0 false true OOk (h ++ concat ws) false 0.
Proof.
  intros ws h. unfold complete_script. rewrite cl_run_app.
  rewrite (cl_run_writes ws _ 0) by lia. reflexivity.
Qed.

(** * F. request_parses_back *)

Definition is_framing_name (n : bytes) : bool :=
  eqb_bytes (lower n) h_transfer_encoding || eqb_bytes (lower n) h_content_length.

Definition good_request (r : request) : Prop :=
  istoken (r_method r) = true /\ valid_uri (r_uri r) = true /\
  length (host_values (r_headers r)) = 1%nat /\
  Forall (fun h => istoken (fst h) = true /\ ~ In 13 (snd h) /\ ~ In 10 (snd h)
                   /\ is_framing_name (fst h) = false) (flatten (r_headers r)).

Definition framing_header (r : request) : list (bytes * bytes) :=
  match r_body r with
  | NoBody => if eqb_bytes (r_method r) PUT || eqb_bytes (r_method r) POST
              then [(CONTENT_LENGTH, [48])] else []
  | Known len _ => [(CONTENT_LENGTH, show_dec len)]
  | Unknown _ => [(TRANSFER_ENCODING, CHUNKED)]
  end.

Definition body_is (b : body) (content : bytes) : Prop :=
  match b with
  | NoBody => content = []
  | Known len s => exists ws, s = complete_script ws /\ concat ws = content /\ lenN content = len
  | Unknown s => exists ws, s = complete_script ws /\ concat ws = content
  end.

Definition expected_headers (r : request) : list (bytes * bytes) :=
  map trimmed (wire_headers r (framing_header r)).

Lemma good_not_refused : forall r, good_request r -> refuse r = None.
Proof.
  intros r (Hm & Hu & Hh & _). unfold refuse, refuse_at_write.
  rewrite Hm, Hu, Hh. cbn. now destruct (r_late r).
Qed.

Lemma good_wire_fields : forall r fh,
  good_request r -> Forall good_field fh -> Forall good_field (wire_headers r fh).
Proof.
  intros r fh (_ & _ & _ & Hhs) Hfh. unfold wire_headers.
  apply Forall_app. split.
  - destruct (r_persistent r); [constructor|]. constructor; [|constructor].
    split; [reflexivity|]. cbn. intuition discriminate.
  - apply Forall_app. split; [assumption|].
    eapply Forall_impl; [|exact Hhs]. intros h (Hn & Hv & _ & _). split; [|assumption].
    now rewrite <- istoken_is_rfc_token.
Qed.

Lemma trim_digits : forall n, trim_ows (show_dec n) = show_dec n.
Proof.
  intro n.
  assert (Hd : forall l, (forall c, In c l -> 48 <= c <= 57) -> drop_ows l = l).
  { intros [|c l] H; [reflexivity|]. cbn [drop_ows]. unfold is_ows.
    specialize (H c (or_introl eq_refl)).
    assert (c =? 32 = false) by (apply N.eqb_neq; lia).
    assert (c =? 9 = false) by (apply N.eqb_neq; lia).
    now rewrite H0, H1. }
  unfold trim_ows. rewrite (Hd (show_dec n)) by apply show_dec_digits.
  rewrite Hd.
  - apply rev_involutive.
  - intros c Hc. apply in_rev in Hc. now apply show_dec_digits in Hc.
Qed.

Lemma user_values_none : forall r n,
  good_request r -> (n = h_transfer_encoding \/ n = h_content_length) ->
  values_of n (map trimmed (flatten (r_headers r))) = [].
Proof.
  intros r n (_ & _ & _ & Hhs) Hn. apply values_of_none.
  apply Forall_map. eapply Forall_impl; [|exact Hhs].
  intros h (_ & _ & _ & Hf). unfold trimmed. cbn [fst].
  unfold is_framing_name in Hf. apply orb_false_iff in Hf. destruct Hf as [H1 H2].
  destruct Hn; subst; assumption.
Qed.

Lemma framing_of_expected : forall r,
  good_request r ->
  framing_of (expected_headers r) =
  Some (match r_body r with
        | NoBody => if eqb_bytes (r_method r) PUT || eqb_bytes (r_method r) POST then FLen 0 else FNone
        | Known len _ => FLen len
        | Unknown _ => FChunked
        end).
Proof.
  intros r Hg. unfold expected_headers, wire_headers, framing_of.
  rewrite !map_app, !values_of_app.
  rewrite (user_values_none r h_transfer_encoding Hg (or_introl eq_refl)).
  rewrite (user_values_none r h_content_length Hg (or_intror eq_refl)).
  rewrite !app_nil_r.
  assert (Hc1 : forall p : bool, values_of h_transfer_encoding
            (map trimmed (if p then [] else [(CONNECTION, CLOSE)])) = []) by (now intros []).
  assert (Hc2 : forall p : bool, values_of h_content_length
            (map trimmed (if p then [] else [(CONNECTION, CLOSE)])) = []) by (now intros []).
  rewrite Hc1, Hc2. cbn [app].
  unfold framing_header. destruct (r_body r) as [|len s|s].
  - destruct (eqb_bytes (r_method r) PUT || eqb_bytes (r_method r) POST); reflexivity.
  - assert (Hte : values_of h_transfer_encoding (map trimmed [(CONTENT_LENGTH, show_dec len)]) = [])
      by reflexivity.
    assert (Hcl : values_of h_content_length (map trimmed [(CONTENT_LENGTH, show_dec len)])
                  = [show_dec len]).
    { unfold values_of, trimmed. cbn [map fst snd filter].
      replace (eqb_bytes (lower CONTENT_LENGTH) h_content_length) with true by reflexivity.
      cbn [map snd]. now rewrite trim_digits. }
    rewrite Hte, Hcl. cbn [map all_some]. rewrite read_show_dec. reflexivity.
  - reflexivity.
Qed.

Lemma take_n_all : forall a, take_n (lenN a) a = Some (a, []).
Proof. intro a. rewrite <- (app_nil_r a) at 2. apply take_n_app. Qed.

Lemma head_parses : forall r fh rest,
  good_request r -> Forall good_field fh ->
  let l := head r fh ++ rest in
  exists rest1,
    split_crlf l = Some (r_method r ++ 32 :: r_uri r ++ 32 :: HTTP11, rest1) /\
    parse_fields (S (length rest1)) rest1 = Some (map trimmed (wire_headers r fh), rest).
Proof.
  intros r fh rest Hg Hfh l.
  pose proof Hg as (Hm & Hu & _ & _).
  rewrite istoken_is_rfc_token in Hm. rewrite valid_uri_is_rfc_target in Hu.
  exists (concat (map field_line (wire_headers r fh)) ++ [13; 10] ++ rest).
  split.
  - unfold l, head.
    replace ((r_method r ++ [32] ++ r_uri r ++ [32] ++ Model.HTTP11 ++ [13; 10]
              ++ concat (map field_line (wire_headers r fh)) ++ [13; 10]) ++ rest)
      with ((r_method r ++ 32 :: r_uri r ++ 32 :: HTTP11) ++ 13 :: 10 ::
            (concat (map field_line (wire_headers r fh)) ++ [13; 10] ++ rest)).
    2:{ unfold Model.HTTP11, HTTP11. repeat (rewrite <- app_assoc; cbn [app]). reflexivity. }
    apply split_crlf_app.
    apply not_In_app; [eapply token_no; eauto|].
    intros [E | E]; [discriminate|]. apply in_app_or in E. destruct E as [E | E].
    + revert E. eapply target_no; eauto.
    + cbn in E. intuition discriminate.
  - apply parse_fields_wire.
    + now apply good_wire_fields.
    + rewrite !app_length.
      assert (Hlen : forall hs, (length hs <= length (concat (map field_line hs)))%nat).
      { induction hs as [|h hs IH]; [cbn; lia|]. cbn [map concat length]. rewrite app_length.
        unfold field_line at 1. rewrite !app_length. cbn [length]. unfold bytes in *. lia. }
      specialize (Hlen (wire_headers r fh)). unfold bytes in *. lia.
Qed.

Lemma request_line_parses : forall r,
  good_request r ->
  split_at 32 (r_method r ++ 32 :: r_uri r ++ 32 :: HTTP11) = Some (r_method r, r_uri r ++ 32 :: HTTP11) /\
  split_at 32 (r_uri r ++ 32 :: HTTP11) = Some (r_uri r, HTTP11) /\
  is_token (r_method r) = true /\ is_target (r_uri r) = true.
Proof.
  intros r (Hm & Hu & _ & _).
  rewrite istoken_is_rfc_token in Hm. rewrite valid_uri_is_rfc_target in Hu.
  repeat split; try assumption.
  - apply split_at_app. eapply token_no; eauto.
  - apply split_at_app. eapply target_no; eauto.
Qed.

Lemma framing_header_good : forall r, Forall good_field (framing_header r).
Proof.
  intro r. unfold framing_header. destruct (r_body r) as [|len s|s].
  - destruct (eqb_bytes (r_method r) PUT || eqb_bytes (r_method r) POST); repeat constructor.
    cbn. intuition discriminate.
  - repeat constructor. cbn [snd]. apply dec_no_cr.
  - repeat constructor. cbn. intuition discriminate.
Qed.

Lemma parse_of_head : forall r body_bytes,
  good_request r ->
  parse_request (head r (framing_header r) ++ body_bytes) =
  match framing_of (expected_headers r) with
  | None => None
  | Some FNone => Some (mkParsed (r_method r) (r_uri r) (expected_headers r) [] body_bytes)
  | Some (FLen n) =>
      match take_n n body_bytes with
      | Some (b, rest) => Some (mkParsed (r_method r) (r_uri r) (expected_headers r) b rest)
      | None => None
      end
  | Some FChunked =>
      match dechunk (S (length body_bytes)) body_bytes with
      | Some (b, rest) => Some (mkParsed (r_method r) (r_uri r) (expected_headers r) b rest)
      | None => None
      end
  end.
Proof.
  intros r body_bytes Hg.
  destruct (head_parses r (framing_header r) body_bytes Hg (framing_header_good r)) as (rest1 & H1 & H2).
  destruct (request_line_parses r Hg) as (H3 & H4 & H5 & H6).
  unfold parse_request. rewrite H1, H3, H4, H5, H6, eqb_bytes_refl. cbn [andb].
  rewrite H2. reflexivity.
Qed.

Theorem parses_back : forall r content,
  good_request r -> body_is (r_body r) content ->
  exists o, write_to r = inr o /\ o_result o = OOk /\ o_registered o = false /\
    parse_request (o_out o) =
    Some (mkParsed (r_method r) (r_uri r) (expected_headers r) content []).
Proof.
  intros r content Hg Hb.
  pose proof (framing_of_expected r Hg) as Hfr.
  pose proof (parse_of_head r) as Hp.
  unfold write_to. rewrite (good_not_refused r Hg).
  unfold framing_header in Hp. unfold body_is in Hb.
  destruct (r_body r) as [|len s|s] eqn:Eb.
  - subst content. eexists. split; [reflexivity|]. cbn [o_result o_registered o_out].
    repeat split.
    pose proof (Hp [] Hg) as Hp0. rewrite app_nil_r in Hp0. etransitivity; [exact Hp0|]. rewrite Hfr.
    destruct (eqb_bytes (r_method r) PUT || eqb_bytes (r_method r) POST); reflexivity.
  - destruct Hb as (ws & Hs & Hc & Hl). subst s len.
    pose proof (cl_run_complete ws (head r [(CONTENT_LENGTH, show_dec (lenN content))])) as Hrun.
    rewrite Hc in Hrun.
    destruct (cl_run _ (complete_script ws)) as [s1 ms] eqn:E. cbn [fst] in Hrun. subst s1.
    eexists. split; [reflexivity|]. cbn [o_result o_registered o_out c_result c_reg c_out].
    repeat split. rewrite (Hp content Hg), Hfr. now rewrite take_n_all.
  - destruct Hb as (ws & Hs & Hc). subst s.
    pose proof (ch_run_complete ws (head r [(TRANSFER_ENCODING, CHUNKED)])) as Hrun.
    destruct (ch_run _ (complete_script ws)) as [s1 ms] eqn:E. cbn [fst] in Hrun. subst s1.
    eexists. split; [reflexivity|]. cbn [o_result o_registered o_out h_result h_reg h_out].
    repeat split. rewrite (Hp _ Hg), Hfr.
    pose proof (dechunk_complete (nonempties ws) [] (nonempties_ne ws)) as Hd.
    cbn zeta in Hd. rewrite app_nil_r in Hd. rewrite Hd.
    now rewrite concat_nonempties, Hc.
Qed.

(** an unfinished chunked request (the producer has written, but neither finished nor failed,
    or has failed) is never a complete message on the wire *)
Theorem unfinished_chunked_incomplete : forall r ws tl,
  good_request r -> r_body r = Unknown (map PWrite ws ++ tl) -> (tl = [] \/ tl = [PFail]) ->
  parse_request (written r) = None.
Proof.
  intros r ws tl Hg Hb Htl. unfold written, write_to. rewrite (good_not_refused r Hg), Hb.
  rewrite ch_run_app, ch_run_writes by reflexivity.
  pose proof (parse_of_head r) as Hp. pose proof (framing_of_expected r Hg) as Hfr.
  unfold framing_header in Hp. rewrite Hb in Hp, Hfr.
  destruct Htl; subst tl; cbn [ch_run ch_step h_result h_out o_out];
    rewrite (Hp _ Hg), Hfr, dechunk_unfinished by apply nonempties_ne; reflexivity.
Qed.

(** * G. refusal before any write *)

Theorem refused_before_write : forall r,
  is_token (r_method r) = false \/ is_target (r_uri r) = false \/
  length (host_values (r_headers r)) <> 1%nat ->
  (exists e, write_to r = inl e) /\ written r = [].
Proof.
  intros r H.
  assert (Hr : exists e, refuse r = Some e).
  { unfold refuse, refuse_at_write.
    rewrite istoken_is_rfc_token, valid_uri_is_rfc_target.
    destruct (r_late r); cbn [negb andb].
    - destruct (Nat.eqb (length (host_values (r_headers r))) 1) eqn:Eh; cbn [negb]; [|eauto].
      destruct (is_token (r_method r)); cbn [negb]; [|eauto].
      destruct (is_target (r_uri r)); cbn [negb]; [|eauto].
      apply Nat.eqb_eq in Eh. destruct H as [H | [H | H]]; try discriminate. contradiction.
    - destruct (is_token (r_method r)) eqn:Em; cbn [negb andb]; [|eauto].
      destruct (is_target (r_uri r)) eqn:Eu; cbn [negb]; [|eauto].
      destruct (Nat.eqb (length (host_values (r_headers r))) 1) eqn:Eh; cbn [negb]; [|eauto].
      apply Nat.eqb_eq in Eh. destruct H as [H | [H | H]]; try discriminate. contradiction. }
  destruct Hr as [e He]. unfold written, write_to. rewrite He. split; [eauto | reflexivity].
Qed.


(** * H. LengthEnforcingConsumer: invariants over every producer script *)

Record cl_inv (len : N) (h : bytes) (s : cl_st) : Prop := mkInv {
  inv_out : exists bodyp, c_out s = h ++ bodyp /\ lenN bodyp + c_remaining s = len;
  inv_open : c_open s = negb (c_decided s);
  inv_pending : c_decided s = false <-> c_result s = OPending;
  inv_ok : c_result s = OOk -> c_remaining s = 0 }.

Definition cl_init (len : N) (h : bytes) : cl_st := mkCl len true false OPending h true 0.

Lemma cl_inv_init : forall len h, cl_inv len h (cl_init len h).
Proof.
  intros len h. constructor; cbn; try easy.
  exists []. rewrite app_nil_r. split; [reflexivity | unfold lenN; cbn; lia].
Qed.

Lemma cl_inv_step : forall len h s o, cl_inv len h s -> cl_inv len h (fst (cl_step s o)).
Proof.
  intros len h s o [(bp & Ho & Hl) Hop Hpe Hok].
  destruct s as [rem op dec res out reg st]. cbn in *. subst op.
  destruct o as [d| |]; cbn [cl_step c_open c_decided c_remaining c_result c_out c_reg c_stops].
  - destruct dec; cbn [negb fst].
    + constructor; cbn; eauto.
    + destruct (lenN d <=? rem) eqn:El; cbn [fst].
      * apply N.leb_le in El. constructor; cbn; eauto.
        -- exists (bp ++ d). rewrite Ho, app_assoc, lenN_app. split; [reflexivity | lia].
        -- intro E. apply Hok in E. lia.
      * constructor; cbn; eauto; try easy.
  - destruct dec; cbn [negb fst].
    + constructor; cbn; eauto.
    + constructor; cbn; eauto.
      * split; [discriminate|]. destruct (rem =? 0); discriminate.
      * destruct (rem =? 0) eqn:Ez; [intros _; now apply N.eqb_eq | discriminate].
  - destruct dec; cbn [negb fst].
    + constructor; cbn; eauto.
    + constructor; cbn; eauto; try easy.
Qed.

Lemma cl_inv_run : forall len h ops s, cl_inv len h s -> cl_inv len h (fst (cl_run s ops)).
Proof.
  induction ops as [|o ops IH]; intros s Hs; [assumption|].
  cbn [cl_run]. pose proof (cl_inv_step len h s o Hs) as H1.
  destruct (cl_step s o) as [s1 m]. cbn [fst] in H1. specialize (IH s1 H1).
  destruct (cl_run s1 ops) as [s2 ms]. exact IH.
Qed.

(** never more than [len] body bytes reach the transport; success means exactly [len] *)
Lemma length_enforced_all : forall len h script,
  let s := fst (cl_run (cl_init len h) script) in
  exists bodyp, c_out s = h ++ bodyp /\ lenN bodyp <= len /\ (c_result s = OOk -> lenN bodyp = len).
Proof.
  intros len h script s.
  destruct (cl_inv_run len h script _ (cl_inv_init len h)) as [(bp & Ho & Hl) _ _ Hok].
  fold s in Ho, Hl, Hok. exists bp. repeat split; [assumption | lia |].
  intro E. apply Hok in E. lia.
Qed.

(** once the returned Deferred has fired, nothing the producer does changes the result or the
    bytes on the wire (it fires once) *)
Lemma cl_decided_stable_step : forall s o,
  c_decided s = true -> c_open s = false ->
  let s' := fst (cl_step s o) in
  c_decided s' = true /\ c_open s' = false /\ c_result s' = c_result s /\ c_out s' = c_out s.
Proof.
  intros s o Hd Ho. destruct o as [d| |]; cbn [cl_step]; rewrite ?Ho, ?Hd; cbn; auto.
Qed.

Lemma cl_decided_stable_run : forall ops s,
  c_decided s = true -> c_open s = false ->
  let s' := fst (cl_run s ops) in c_result s' = c_result s /\ c_out s' = c_out s.
Proof.
  induction ops as [|o ops IH]; intros s Hd Ho; [split; reflexivity|].
  cbn [cl_run]. destruct (cl_decided_stable_step s o Hd Ho) as (H1 & H2 & H3 & H4).
  destruct (cl_step s o) as [s1 m]. cbn [fst] in *.
  destruct (IH s1 H1 H2) as [H5 H6]. destruct (cl_run s1 ops) as [s2 ms]. cbn [fst] in *.
  split; congruence.
Qed.

Lemma fires_once_all : forall len h pre post,
  let s1 := fst (cl_run (cl_init len h) pre) in
  let s2 := fst (cl_run (cl_init len h) (pre ++ post)) in
  c_result s1 <> OPending -> c_result s2 = c_result s1 /\ c_out s2 = c_out s1.
Proof.
  intros len h pre post s1 s2 Hne.
  destruct (cl_inv_run len h pre _ (cl_inv_init len h)) as [_ Hop Hpe _]. fold s1 in Hop, Hpe.
  assert (Hd : c_decided s1 = true).
  { destruct (c_decided s1); [reflexivity|]. exfalso. apply Hne. now apply Hpe. }
  assert (Ho : c_open s1 = false) by (now rewrite Hop, Hd).
  unfold s2. rewrite cl_run_app. fold (cl_init len h).
  destruct (cl_run (cl_init len h) pre) as [t1 m1] eqn:E1. cbn [fst] in *. subst s1.
  pose proof (cl_decided_stable_run post t1 Hd Ho) as H.
  destruct (cl_run t1 post) as [t2 m2]. exact H.
Qed.

(** * I. the hypotheses are inhabited by a non-trivial request *)
Example good_example :
  let r := mkReq POST [47; 120] false
                 [(HOST, [[104; 58; 56; 48]]); ([88; 45; 65], [[32; 97; 9; 98; 32]; []])]
                 (Unknown (complete_script [[97; 98; 99]; []; [100]])) false in
  good_request r /\ body_is (r_body r) [97; 98; 99; 100]
  /\ exists p, parse_request (written r) = Some p /\ p_body p = [97; 98; 99; 100] /\ p_rest p = [].
Proof.
  cbn zeta. split; [|split].
  - unfold good_request. cbn [r_method r_uri r_headers].
    repeat split; try reflexivity.
    repeat constructor; cbn; intuition discriminate.
  - cbn. exists [[97; 98; 99]; []; [100]]. split; reflexivity.
  - eexists. split; [vm_compute; reflexivity|]. split; reflexivity.
Qed.

Example overrun_example :
  let s := fst (cl_run (cl_init 3 []) [PWrite [1; 2]; PWrite [3; 4]; PFinish; PWrite [5]]) in
  c_result s = OWrongLength /\ c_out s = [1; 2] /\ c_stops s = 2%nat.
Proof. vm_compute. repeat split. Qed.

(** several separate values under one name - here the caller's own Connection header next to the
    generated `Connection: close` - all reach the wire, in order *)
Example connection_values_example :
  let upgrade := [85; 112; 103; 114; 97; 100; 101] in
  let h2s := [72; 84; 84; 80; 50; 45; 83; 101; 116; 116; 105; 110; 103; 115] in
  let r := mkReq [71; 69; 84] [47] false [(HOST, [[104]]); (CONNECTION, [upgrade; h2s])] NoBody false in
  good_request r
  /\ exists p, parse_request (written r) = Some p
               /\ p_headers p = [(CONNECTION, CLOSE); (HOST, [104]); (CONNECTION, upgrade); (CONNECTION, h2s)].
Proof.
  cbn zeta. split.
  - unfold good_request. cbn [r_method r_uri r_headers].
    repeat split; try reflexivity.
    repeat constructor; cbn; intuition discriminate.
  - eexists. split; [vm_compute; reflexivity | reflexivity].
Qed.
