(** C24 Model: twisted.web._newclient.Request.writeTo and its helpers
    (_writeHeaders, _writeToBodyProducerChunked / ContentLength, ChunkedEncoder,
    LengthEnforcingConsumer), as functions from a request and the body producer's script to the
    bytes handed to the transport and the API-level outcome.

    The two validators come from Gen.v (regenerated from the source on every run).
    ChunkedEncoder.write is modelled WITH the repair of fixes/C24-chunked-empty-write.patch:
    an empty write emits nothing (the unrepaired code emits "0\r\n\r\n", the last-chunk marker,
    in the middle of the body).  No proofs here. *)
From Coq Require Import List NArith Bool Arith.
From TwLib Require Import HttpClientBytes.
From C24 Require Import Gen.
Import ListNotations.
Local Open Scope N_scope.

(** ---- validators (shape of _abnf._istoken and of _VALID_URI.match) ---- *)
Definition nonempty (b : bytes) : bool := match b with [] => false | _ => true end.
Definition istoken (b : bytes) : bool := forallb (fun c => memb c token_chars) b && nonempty b.
Definition valid_uri (u : bytes) : bool :=
  nonempty u && forallb (fun c => (uri_lo <=? c) && (c <=? uri_hi)) u.

(** ---- the request and the body producer ---- *)
Inductive pop :=
| PWrite (d : bytes)      (* consumer.write(d) *)
| PFinish                 (* the Deferred returned by startProducing fires with None *)
| PFail.                  (* ... fails *)

Inductive body :=
| NoBody
| Known (len : N) (script : list pop)      (* bodyProducer.length = len *)
| Unknown (script : list pop).             (* bodyProducer.length is UNKNOWN_LENGTH *)

Record request := mkReq {
  r_method : bytes;
  r_uri : bytes;
  r_persistent : bool;
  r_headers : list (bytes * list bytes);   (* Headers.getAllRawHeaders(): canonical name, values *)
  r_body : body;
  r_late : bool  (* method/uri were assigned to the public attributes after construction *)
}.

Inductive outcome := OOk | OWrongLength | OProducerFailed | OPending.
Inductive refusal := RBadHeaders | RValueError.

(** what writeTo did: bytes given to the transport (in order, concatenated), the state of the
    returned Deferred, whether a producer is still registered with the transport, how many times
    stopProducing was called on the body producer, and for each producer op whether it was met
    with ExcessWrite *)
Record obs := mkObs {
  o_result : outcome; o_out : bytes; o_registered : bool; o_stops : nat; o_marks : list bool }.

Definition HOST : bytes := [72; 111; 115; 116].
Definition HTTP11 : bytes := [72; 84; 84; 80; 47; 49; 46; 49].
Definition CONNECTION : bytes := [67; 111; 110; 110; 101; 99; 116; 105; 111; 110].
Definition CLOSE : bytes := [99; 108; 111; 115; 101].
Definition CONTENT_LENGTH : bytes := [67; 111; 110; 116; 101; 110; 116; 45; 76; 101; 110; 103; 116; 104].
Definition TRANSFER_ENCODING : bytes :=
  [84; 114; 97; 110; 115; 102; 101; 114; 45; 69; 110; 99; 111; 100; 105; 110; 103].
Definition CHUNKED : bytes := [99; 104; 117; 110; 107; 101; 100].
Definition PUT : bytes := [80; 85; 84].
Definition POST : bytes := [80; 79; 83; 84].

Definition host_values (hs : list (bytes * list bytes)) : list bytes :=
  flat_map (fun h => if eqb_bytes (fst h) HOST then snd h else []) hs.

Definition flatten (hs : list (bytes * list bytes)) : list (bytes * bytes) :=
  flat_map (fun h => map (pair (fst h)) (snd h)) hs.

(** name + b": " + v + b"\r\n" *)
Definition field_line (h : bytes * bytes) : bytes := fst h ++ [58; 32] ++ snd h ++ [13; 10].

(** every header the request puts on the wire, in order *)
Definition wire_headers (r : request) (framing_header : list (bytes * bytes)) : list (bytes * bytes) :=
  (if r_persistent r then [] else [(CONNECTION, CLOSE)]) ++ framing_header ++ flatten (r_headers r).

(** _writeHeaders: the checks, in the order the code makes them *)
Definition refuse_at_write (r : request) : option refusal :=
  if negb (Nat.eqb (length (host_values (r_headers r))) 1) then Some RBadHeaders
  else if negb (istoken (r_method r)) then Some RValueError
  else if negb (valid_uri (r_uri r)) then Some RValueError
  else None.

(** Request.__init__ validates first (unless the attributes were assigned later) *)
Definition refuse (r : request) : option refusal :=
  if negb (r_late r) && negb (istoken (r_method r) && valid_uri (r_uri r)) then Some RValueError
  else refuse_at_write r.

Definition head (r : request) (framing_header : list (bytes * bytes)) : bytes :=
  r_method r ++ [32] ++ r_uri r ++ [32] ++ HTTP11 ++ [13; 10]
  ++ concat (map field_line (wire_headers r framing_header)) ++ [13; 10].

(** ---- LengthEnforcingConsumer + the `combine` logic of _writeToBodyProducerContentLength ---- *)
Record cl_st := mkCl {
  c_remaining : N;        (* LengthEnforcingConsumer._length *)
  c_open : bool;          (* LengthEnforcingConsumer._finished is not None *)
  c_decided : bool;       (* combine's state[0] is not None: the returned Deferred has fired *)
  c_result : outcome;
  c_out : bytes;
  c_reg : bool;
  c_stops : nat }.

Definition cl_step (s : cl_st) (o : pop) : cl_st * bool :=
  match o with
  | PWrite d =>
      if negb (c_open s) then
        (* stopProducing(); raise ExcessWrite() *)
        (mkCl (c_remaining s) false (c_decided s) (c_result s) (c_out s) (c_reg s) (S (c_stops s)), true)
      else if lenN d <=? c_remaining s then
        (mkCl (c_remaining s - lenN d) true (c_decided s) (c_result s) (c_out s ++ d) (c_reg s) (c_stops s), false)
      else
        (* stopProducing(); _finished.errback(WrongBodyLength); _allowNoMoreWrites() *)
        if c_decided s
        then (mkCl (c_remaining s) false true (c_result s) (c_out s) (c_reg s) (S (c_stops s)), false)
        else (mkCl (c_remaining s) false true OWrongLength (c_out s) false (S (c_stops s)), false)
  | PFinish =>
      if c_decided s then (s, false)
      else
        (* cbProducing: encoder._noMoreWritesExpected() *)
        let res := if c_open s then (if c_remaining s =? 0 then OOk else OWrongLength) else OOk in
        (mkCl (c_remaining s) false true res (c_out s) false (c_stops s), false)
  | PFail =>
      if c_decided s then (s, false)
      else (mkCl (c_remaining s) false true OProducerFailed (c_out s) false (c_stops s), false)
  end.

Fixpoint cl_run (s : cl_st) (ops : list pop) : cl_st * list bool :=
  match ops with
  | [] => (s, [])
  | o :: r => let '(s1, m) := cl_step s o in let '(s2, ms) := cl_run s1 r in (s2, m :: ms)
  end.

(** ---- ChunkedEncoder + _writeToBodyProducerChunked ---- *)
Definition chunk (d : bytes) : bytes := show_hexN (lenN d) ++ [13; 10] ++ d ++ [13; 10].
Definition last_chunk : bytes := [48; 13; 10; 13; 10].

Record ch_st := mkCh {
  h_open : bool;          (* ChunkedEncoder.transport is not None *)
  h_result : outcome;
  h_out : bytes;
  h_reg : bool }.

Definition ch_step (s : ch_st) (o : pop) : ch_st * bool :=
  match o with
  | PWrite d =>
      if negb (h_open s) then (s, true)                       (* raise ExcessWrite() *)
      else if nonempty d then (mkCh true (h_result s) (h_out s ++ chunk d) (h_reg s), false)
      else (s, false)                                         (* repaired: empty write = no bytes *)
  | PFinish =>
      match h_result s with
      | OPending => (mkCh false OOk (h_out s ++ last_chunk) false, false)  (* encoder.unregisterProducer() *)
      | _ => (s, false)
      end
  | PFail =>
      match h_result s with
      | OPending => (mkCh false OProducerFailed (h_out s) false, false)
      | _ => (s, false)
      end
  end.

Fixpoint ch_run (s : ch_st) (ops : list pop) : ch_st * list bool :=
  match ops with
  | [] => (s, [])
  | o :: r => let '(s1, m) := ch_step s o in let '(s2, ms) := ch_run s1 r in (s2, m :: ms)
  end.

(** ---- writeTo ---- *)
Definition write_to (r : request) : refusal + obs :=
  match refuse r with
  | Some e => inl e
  | None =>
      match r_body r with
      | NoBody =>
          let fh := if eqb_bytes (r_method r) PUT || eqb_bytes (r_method r) POST
                    then [(CONTENT_LENGTH, [48])] else [] in
          inr (mkObs OOk (head r fh) false 0 [])
      | Known len script =>
          let h := head r [(CONTENT_LENGTH, show_dec len)] in
          let '(s, ms) := cl_run (mkCl len true false OPending h true 0) script in
          inr (mkObs (c_result s) (c_out s) (c_reg s) (c_stops s) ms)
      | Unknown script =>
          let h := head r [(TRANSFER_ENCODING, CHUNKED)] in
          let '(s, ms) := ch_run (mkCh true OPending h true) script in
          inr (mkObs (h_result s) (h_out s) (h_reg s) 0 ms)
      end
  end.

(** the bytes given to the transport, whatever happened *)
Definition written (r : request) : bytes :=
  match write_to r with inl _ => [] | inr o => o_out o end.
