(** C24: printer used by the correspondence check only. *)
From Coq Require Import List NArith Bool String.
From TwLib Require Import Show HttpClientBytes.
From C24 Require Import Model.
Import ListNotations.
Local Open Scope string_scope.

Definition show_outcome (o : outcome) : string :=
  match o with
  | OOk => "ok" | OWrongLength => "err:WrongBodyLength" | OProducerFailed => "err:ProducerError"
  | OPending => "pending"
  end.

Definition run_show (r : request) : string :=
  match write_to r with
  | inl RBadHeaders => "refused:BadHeaders"
  | inl RValueError => "refused:ValueError"
  | inr o => show_outcome (o_result o) ++ "|" ++ show_hex (o_out o) ++ "|r" ++ show_bool (o_registered o)
             ++ "|s" ++ show_nat (o_stops o) ++ "|"
             ++ String.concat "" (map (fun b : bool => if b then "1" else "0") (o_marks o))
  end.
