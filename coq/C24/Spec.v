(** C24 Spec: an independent HTTP/1.1 *request* parser written from RFC 9110 / RFC 9112
    (request-line 9112 s.3, field lines 9112 s.5 / 9110 s.5, message body length 9112 s.6.3,
    chunked coding 9112 s.7.1).  It is the "independent HTTP/1.1 parser" of the property
    statement; it never looks at the model of the code.  (Cross-checked against h11 by the
    harness on every run.)  No proofs here. *)
From Coq Require Import List NArith Bool.
From TwLib Require Import HttpClientBytes.
Import ListNotations.
Local Open Scope N_scope.

(** RFC 9110 5.6.2: token = 1*tchar *)
Definition is_alpha (c : N) : bool := ((65 <=? c) && (c <=? 90)) || ((97 <=? c) && (c <=? 122)).
Definition is_digit (c : N) : bool := (48 <=? c) && (c <=? 57).
Definition is_tchar (c : N) : bool :=
  is_alpha c || is_digit c || memb c [33; 35; 36; 37; 38; 39; 42; 43; 45; 46; 94; 95; 96; 124; 126].
Definition is_nil (l : bytes) : bool := match l with [] => true | _ => false end.
Definition is_token (l : bytes) : bool := negb (is_nil l) && forallb is_tchar l.

(** request-target (RFC 9112 3.2): no whitespace, no controls: 1*VCHAR *)
Definition is_vchar (c : N) : bool := (33 <=? c) && (c <=? 126).
Definition is_target (l : bytes) : bool := negb (is_nil l) && forallb is_vchar l.

Definition HTTP11 : bytes := [72; 84; 84; 80; 47; 49; 46; 49].
Definition h_content_length : bytes := [99; 111; 110; 116; 101; 110; 116; 45; 108; 101; 110; 103; 116; 104].
Definition h_transfer_encoding : bytes :=
  [116; 114; 97; 110; 115; 102; 101; 114; 45; 101; 110; 99; 111; 100; 105; 110; 103].
Definition v_chunked : bytes := [99; 104; 117; 110; 107; 101; 100].

(** field-line = field-name ":" OWS field-value OWS ; section ends with an empty line *)
Fixpoint parse_fields (fuel : nat) (l : bytes) : option (list (bytes * bytes) * bytes) :=
  match fuel with
  | O => None
  | S f =>
      match split_crlf l with
      | None => None
      | Some (line, rest) =>
          if is_nil line then Some ([], rest)
          else match split_at 58 line with
               | None => None
               | Some (name, v) =>
                   if is_token name
                   then match parse_fields f rest with
                        | Some (hs, rest') => Some ((name, trim_ows v) :: hs, rest')
                        | None => None
                        end
                   else None
               end
      end
  end.

(** message body length, RFC 9112 6.3 (requests): Transfer-Encoding whose final (here: only)
    coding is chunked; else every Content-Length value must be the same valid decimal; a
    message with both is refused. *)
Inductive framing := FNone | FLen (n : N) | FChunked.

Definition values_of (name : bytes) (hs : list (bytes * bytes)) : list bytes :=
  map snd (filter (fun h => eqb_bytes (lower (fst h)) name) hs).

Fixpoint all_some {A} (l : list (option A)) : option (list A) :=
  match l with
  | [] => Some []
  | Some x :: r => match all_some r with Some xs => Some (x :: xs) | None => None end
  | None :: _ => None
  end.

Definition all_same (l : list N) : option N :=
  match l with
  | [] => None
  | x :: r => if forallb (N.eqb x) r then Some x else None
  end.

Definition framing_of (hs : list (bytes * bytes)) : option framing :=
  match values_of h_transfer_encoding hs, values_of h_content_length hs with
  | [], [] => Some FNone
  | [], cls => match all_some (map read_dec cls) with
               | Some ns => match all_same ns with Some n => Some (FLen n) | None => None end
               | None => None
               end
  | [v], [] => if eqb_bytes (lower v) v_chunked then Some FChunked else None
  | _, _ => None
  end.

(** chunked-body = *chunk last-chunk trailer-section CRLF; chunk extensions and trailers are
    not accepted (the client under test never sends them) *)
Definition starts_crlf (l : bytes) : option bytes :=
  match l with
  | c :: d :: r => if (c =? 13) && (d =? 10) then Some r else None
  | _ => None
  end.

Fixpoint dechunk (fuel : nat) (l : bytes) : option (bytes * bytes) :=
  match fuel with
  | O => None
  | S f =>
      match split_crlf l with
      | None => None
      | Some (szline, rest) =>
          match read_hex szline with
          | None => None
          | Some n =>
              if n =? 0 then
                match starts_crlf rest with Some rest' => Some ([], rest') | None => None end
              else
                match take_n n rest with
                | None => None
                | Some (d, rest') =>
                    match starts_crlf rest' with
                    | None => None
                    | Some rest'' =>
                        match dechunk f rest'' with
                        | Some (b, r) => Some (d ++ b, r)
                        | None => None
                        end
                    end
                end
          end
      end
  end.

Record parsed := mkParsed {
  p_method : bytes; p_target : bytes; p_headers : list (bytes * bytes); p_body : bytes; p_rest : bytes }.

(** one request from the front of [l]; [p_rest] is what follows it *)
Definition parse_request (l : bytes) : option parsed :=
  match split_crlf l with
  | None => None
  | Some (rl, rest) =>
      match split_at 32 rl with
      | None => None
      | Some (m, r1) =>
          match split_at 32 r1 with
          | None => None
          | Some (t, ver) =>
              if is_token m && is_target t && eqb_bytes ver HTTP11 then
                match parse_fields (S (length rest)) rest with
                | None => None
                | Some (hs, rest2) =>
                    match framing_of hs with
                    | None => None
                    | Some FNone => Some (mkParsed m t hs [] rest2)
                    | Some (FLen n) =>
                        match take_n n rest2 with
                        | Some (b, r) => Some (mkParsed m t hs b r)
                        | None => None
                        end
                    | Some FChunked =>
                        match dechunk (S (length rest2)) rest2 with
                        | Some (b, r) => Some (mkParsed m t hs b r)
                        | None => None
                        end
                    end
                end
              else None
          end
      end
  end.
