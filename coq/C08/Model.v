(** C08: the timed-call part of ReactorBase (src/twisted/internet/base.py): [_pendingTimedCalls] is a
    heapq ordered by DelayedCall.time (not getTime()), [_newTimedCalls] the staging list filled by
    callLater and drained by _insertNewDelayedCalls (from timeout() and runUntilCurrent()),
    [_cancellations] the lazy-deletion counter that triggers compaction (filter + heapify) at the end
    of runUntilCurrent.  [delayed_time] is applied lazily when the call reaches the top of the heap;
    reset-to-earlier and delay-below-zero sift the call up in place (_moveCallLaterSooner).
    Call functions are scripts of timer operations ([body i]).  Times are integers. *)
From Coq Require Import List Arith ZArith Bool.
From TwLib Require Import TimersCall TimersHeap.
Import ListNotations.
Local Open Scope Z_scope.

Definition dcall : call := mkCall 0 0 0 true true.     (* default for out-of-range reads *)

Record st := mkSt {
  hp : list call;      (* _pendingTimedCalls *)
  nw : list call;      (* _newTimedCalls *)
  cancels : Z;         (* _cancellations *)
  now : Z;             (* what reactor.seconds() returns *)
  next : nat;          (* number of calls created so far *)
  log : list ev;       (* newest first *)
  oof : bool
}.

Definition init : st := mkSt [] [] 0 0 0 [] false.

Definition emit (e : ev) (s : st) : st := mkSt (hp s) (nw s) (cancels s) (now s) (next s) (e :: log s) (oof s).

Definition classify (i : nat) (s : st) : ev :=
  if memn i (cancelled_ids (log s)) then EErrCancelled i
  else if memn i (run_ids (log s)) then EErrCalled i
  else ENoSuch i.

Fixpoint find_pos (i : nat) (l : list call) : option nat :=
  match l with
  | [] => None
  | c :: r => if Nat.eqb (cid c) i then Some O else option_map S (find_pos i r)
  end.

Definition active (c : call) : bool := negb (ccanc c).

(** getDelayedCalls() *)
Definition pending (s : st) : list call := filter active (hp s ++ nw s).

(** where an active call lives *)
Inductive place := InHeap (p : nat) (c : call) | InNew (c : call) | Nowhere.

Definition locate (i : nat) (s : st) : place :=
  match find_pos i (hp s) with
  | Some p => let c := nth p (hp s) dcall in if active c then InHeap p c else Nowhere
  | None => match find_id i (nw s) with
            | Some c => if active c then InNew c else Nowhere
            | None => Nowhere
            end
  end.

(** store the modified call; [moved] = DelayedCall invoked its resetter (_moveCallLaterSooner) *)
Definition put_back (s : st) (pl : place) (c' : call) (moved : bool) (dc : Z) (e : ev) : st :=
  match pl with
  | InHeap p _ =>
      let h1 := upd (hp s) p c' in
      let h2 := if moved then bubble_up ctime dcall p 0 p h1 else h1 in
      mkSt h2 (nw s) (cancels s + dc) (now s) (next s) (e :: log s) (oof s)
  | InNew _ => mkSt (hp s) (replace_id c' (nw s)) (cancels s + dc) (now s) (next s) (e :: log s) (oof s)
  | Nowhere => s
  end.

Definition place_call (pl : place) : option call :=
  match pl with InHeap _ c => Some c | InNew c => Some c | Nowhere => None end.

Definition exec_bop (s : st) (b : bop) : st :=
  match b with
  | BCallLater d =>
      let c := mkCall (next s) (now s + d) 0 false false in
      mkSt (hp s) (nw s ++ [c]) (cancels s) (now s) (S (next s)) (ENew (next s) (now s + d) :: log s) (oof s)
  | BCancel i =>
      let pl := locate i s in
      match place_call pl with
      | Some c => put_back s pl (set_canc c) false 1 (ECancel i)
      | None => emit (classify i s) s
      end
  | BReset i x =>
      let pl := locate i s in
      match place_call pl with
      | Some c => let r := do_reset (now s) x c in put_back s pl (fst r) (snd r) 0 (EReset i (getTime (fst r)))
      | None => emit (classify i s) s
      end
  | BDelay i x =>
      let pl := locate i s in
      match place_call pl with
      | Some c => let r := do_delay x c in put_back s pl (fst r) (snd r) 0 (EDelay i (getTime (fst r)))
      | None => emit (classify i s) s
      end
  | BSnap => emit (ESnap (snapshot (pending s))) s
  | BRaise => s                 (* only meaningful inside a call function, see [run_body] *)
  end.

(** _insertNewDelayedCalls *)
Definition insert_one (acc : list call * Z) (c : call) : list call * Z :=
  if ccanc c then (fst acc, snd acc - 1) else (heappush ctime dcall (fst acc) (activate c), snd acc).

Definition insert_new (s : st) : st :=
  let r := fold_left insert_one (nw s) (hp s, cancels s) in
  mkSt (fst r) [] (snd r) (now s) (next s) (log s) (oof s).

(** timeout(); [longest] is the constant 2147483 s in the case's time unit *)
Definition timeout (longest : Z) (s : st) : st :=
  let s1 := insert_new s in
  match hp s1 with
  | [] => emit (ETimeout None) s1
  | top :: _ => emit (ETimeout (Some (Z.max 0 (Z.min longest (ctime top - now s1))))) s1
  end.

Inductive op := Do (b : bop) | Adv (a : Z) | RunUntilCurrent | Timeout (longest : Z).

Section Reactor.
  Variable body : nat -> list bop.

  (** the while loop of runUntilCurrent; [tnow] is the value of seconds() read before the loop *)
  Fixpoint loop (fuel : nat) (tnow : Z) (s : st) : st :=
    match hp s with
    | [] => s
    | top :: _ =>
        if ctime top <=? tnow then
          match fuel with
          | O => mkSt (hp s) (nw s) (cancels s) (now s) (next s) (log s) true
          | S f =>
              match heappop ctime dcall (hp s) with
              | None => s
              | Some (c, h') =>
                  if ccanc c then
                    loop f tnow (mkSt h' (nw s) (cancels s - 1) (now s) (next s) (log s) (oof s))
                  else if 0 <? cdelay c then
                    loop f tnow (mkSt (heappush ctime dcall h' (activate c)) (nw s) (cancels s) (now s) (next s)
                                      (log s) (oof s))
                  else
                    let s1 := mkSt h' (nw s) (cancels s) (now s) (next s)
                                   (ERun c tnow (filter active h') :: log s) (oof s) in
                    (* an exception is caught and logged by the reactor (failuresHandled): the loop goes on *)
                    let res := run_body exec_bop (body (cid c)) s1 in
                    loop f tnow (emit (if snd res then ERaise (cid c) else EEnd (cid c)) (fst res))
              end
          end
        else s
    end.

  (** the compaction at the end of runUntilCurrent *)
  Definition compact (s : st) : st :=
    if (50 <? cancels s) && (Z.of_nat (length (hp s) / 2) <? cancels s) then
      mkSt (heapify ctime dcall (filter active (hp s))) (nw s) 0 (now s) (next s) (log s) (oof s)
    else s.

  Definition run_until_current (fuel : nat) (s : st) : st :=
    let s1 := emit EIter (insert_new s) in
    let s2 := compact (loop fuel (now s1) s1) in
    emit (EDone (now s2)) s2.

  Definition step (fuel : nat) (s : st) (o : op) : st :=
    match o with
    | Do b => exec_bop s b
    | Adv a => mkSt (hp s) (nw s) (cancels s) (now s + a) (next s) (log s) (oof s)
    | RunUntilCurrent => run_until_current fuel s
    | Timeout longest => timeout longest s
    end.

  Definition run (fuel : nat) (s : st) (ops : list op) : st := fold_left (step fuel) ops s.
End Reactor.

Definition nonneg_op (o : op) : Prop :=
  match o with Do b => nonneg_bop b | Adv a => 0 <= a | _ => True end.

(** what the theorems say about a run event: [others] = the other active calls in the timer heap *)
Definition good_ev (e : ev) : Prop :=
  match e with
  | ERun c n others =>
      getTime c <= n                                          (* never before its scheduled time *)
      /\ Forall (fun o => getTime c <= getTime o) others      (* none of them is scheduled earlier *)
  | _ => True
  end.
