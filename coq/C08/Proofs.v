(** C08 proofs: invariants of the reactor timer model over all histories and all call-body tables. *)
From Coq Require Import List Arith ZArith Bool Lia Permutation.
From TwLib Require Import TimersCall TimersCallFacts TimersListFacts TimersHeap TimersHeapFacts.
From C08 Require Import Model.
Import ListNotations.
Local Open Scope Z_scope.

Notation hheap := (heap ctime dcall).

(** ids of the active (not cancelled) calls of a list *)
Definition act (l : list call) : list nat := map cid (filter active l).

Lemma act_perm : forall l l', Permutation l l' -> Permutation (act l) (act l').
Proof. intros. unfold act. apply Permutation_map. apply filter_perm. assumption. Qed.

Lemma act_app : forall l l', act (l ++ l') = act l ++ act l'.
Proof. intros. unfold act. rewrite filter_app, map_app. reflexivity. Qed.

Lemma act_cons : forall c l, act (c :: l) = if active c then cid c :: act l else act l.
Proof. intros. unfold act. cbn. destruct (active c); reflexivity. Qed.

(** ---- point updates ---- *)
Lemma PU_Forall : forall (P : call -> Prop) L1 c c' L2,
  Forall P (L1 ++ c :: L2) -> P c' -> Forall P (L1 ++ c' :: L2).
Proof.
  intros P L1 c c' L2 H Hc. apply Forall_app in H. destruct H as [H1 H2]. inversion H2; subst.
  apply Forall_app. split; [assumption|]. constructor; assumption.
Qed.

Lemma PU_act_same : forall L1 c c' L2, active c' = active c -> cid c' = cid c ->
  act (L1 ++ c' :: L2) = act (L1 ++ c :: L2).
Proof. intros L1 c c' L2 Ha Hi. rewrite !act_app, !act_cons, Ha, Hi. reflexivity. Qed.

Lemma PU_act_cancel : forall L1 c c' L2, active c = true -> active c' = false ->
  Permutation (act (L1 ++ c :: L2)) (cid c :: act (L1 ++ c' :: L2)).
Proof.
  intros L1 c c' L2 Ha Hi. rewrite !act_app, !act_cons, Ha, Hi.
  apply Permutation_sym. apply Permutation_middle.
Qed.

Lemma upd_split : forall (l : list call) p x, (p < length l)%nat ->
  exists l1 l2, l = l1 ++ nth p l dcall :: l2 /\ upd l p x = l1 ++ x :: l2.
Proof.
  induction l as [|y r IH]; intros p x Hp; cbn in Hp; [lia|].
  destruct p; cbn.
  - exists [], r. split; reflexivity.
  - destruct (IH p x ltac:(lia)) as [l1 [l2 [E1 E2]]].
    exists (y :: l1), l2. cbn. split; [rewrite <- E1 | rewrite E2]; reflexivity.
Qed.

Lemma replace_split : forall i l c, find_id i l = Some c ->
  exists l1 l2, l = l1 ++ c :: l2 /\ forall c', cid c' = i -> replace_id c' l = l1 ++ c' :: l2.
Proof.
  intros i l. induction l as [|y r IH]; intros c H; cbn in H; [discriminate|].
  destruct (Nat.eqb (cid y) i) eqn:E.
  - inversion H; subst. exists [], r. split; [reflexivity|]. intros c' Hc'. cbn. rewrite Hc', E. reflexivity.
  - destruct (IH c H) as [l1 [l2 [E1 E2]]]. exists (y :: l1), l2. split; [cbn; rewrite <- E1; reflexivity|].
    intros c' Hc'. cbn. rewrite Hc', E, (E2 c' Hc'). reflexivity.
Qed.

Lemma find_pos_some : forall i l p, find_pos i l = Some p -> (p < length l)%nat /\ cid (nth p l dcall) = i.
Proof.
  intros i l. induction l as [|y r IH]; intros p H; cbn in H; [discriminate|].
  destruct (Nat.eqb (cid y) i) eqn:E.
  - inversion H; subst. cbn. apply Nat.eqb_eq in E. split; [lia | exact E].
  - destruct (find_pos i r) as [q|] eqn:Eq; cbn in H; [|discriminate]. inversion H; subst.
    destruct (IH q eq_refl) as [H1 H2]. cbn. split; [lia | exact H2].
Qed.

(** ---- DelayedCall arithmetic in the shape the heap needs ---- *)
Lemma reset_shape : forall now x c, let r := do_reset now x c in
  cid (fst r) = cid c /\ ccanc (fst r) = ccanc c /\ 0 <= cdelay (fst r)
  /\ (snd r = true -> ctime (fst r) <= ctime c) /\ (snd r = false -> ctime (fst r) = ctime c).
Proof.
  intros now x c. unfold do_reset. destruct (now + x <? ctime c) eqn:E; cbn.
  - apply Z.ltb_lt in E. repeat split; try lia; discriminate.
  - apply Z.ltb_ge in E. repeat split; try lia; discriminate.
Qed.

Lemma delay_shape : forall x c, let r := do_delay x c in
  cid (fst r) = cid c /\ ccanc (fst r) = ccanc c /\ 0 <= cdelay (fst r)
  /\ (snd r = true -> ctime (fst r) <= ctime c) /\ (snd r = false -> ctime (fst r) = ctime c).
Proof.
  intros x c. unfold do_delay. destruct (cdelay c + x <? 0) eqn:E; cbn.
  - apply Z.ltb_lt in E. repeat split; try lia; discriminate.
  - apply Z.ltb_ge in E. repeat split; try lia; discriminate.
Qed.

Ltac simpl_st := cbn [hp nw cancels now next log oof emit].

(** ---- the invariant ---- *)
Record Inv (s : st) : Prop := mkInv {
  inv_heap : hheap (hp s);
  inv_delay : Forall (fun c => 0 <= cdelay c) (hp s ++ nw s);
  inv_ids : Forall (fun c => (cid c < next s)%nat) (hp s ++ nw s);
  inv_part : Permutation (act (hp s ++ nw s) ++ run_ids (log s) ++ cancelled_ids (log s)) (seq 0 (next s));
  inv_log : Forall good_ev (log s)
}.

Lemma Inv_init : Inv init.
Proof. split; cbn; try constructor. apply heap_nil. Qed.

Lemma Inv_emit_plain : forall s e,
  run_of e = [] -> cancel_of e = [] -> good_ev e -> Inv s -> Inv (emit e s).
Proof.
  intros s e Hr Hc Hg [H1 H2 H3 H4 H5]. split; simpl_st; auto.
  rewrite trun_ids_cons, tcancelled_ids_cons, Hr, Hc. cbn [map app]. exact H4.
Qed.

Lemma Inv_classify : forall s i, Inv s -> Inv (emit (classify i s) s).
Proof.
  intros s i H. unfold classify.
  destruct (memn i (cancelled_ids (log s))); [|destruct (memn i (run_ids (log s)))];
    apply Inv_emit_plain; cbn; auto.
Qed.

(** one call of [hp ++ nw] is replaced by [c'] (same id), the heap is re-established *)
Lemma Inv_point : forall s hp' nw' L1 L2 c c' dc e,
  hp s ++ nw s = L1 ++ c :: L2 ->
  Permutation (hp' ++ nw') (L1 ++ c' :: L2) ->
  hheap hp' ->
  cid c' = cid c -> 0 <= cdelay c' ->
  ((active c' = active c /\ cancel_of e = []) \/ (active c = true /\ active c' = false /\ cancel_of e = [cid c])) ->
  run_of e = [] -> good_ev e ->
  Inv s -> Inv (mkSt hp' nw' dc (now s) (next s) (e :: log s) (oof s)).
Proof.
  intros s hp' nw' L1 L2 c c' dc e Hsplit Hperm Hheap Hid Hdel Hact Hrun Hgood [H1 H2 H3 H4 H5].
  rewrite Hsplit in *. split; simpl_st.
  - exact Hheap.
  - eapply Permutation_Forall; [apply Permutation_sym; exact Hperm|].
    eapply PU_Forall; [exact H2 | exact Hdel].
  - eapply Permutation_Forall; [apply Permutation_sym; exact Hperm|].
    eapply PU_Forall; [exact H3|]. cbn. rewrite Hid.
    apply Forall_app in H3. destruct H3 as [_ H3]. inversion H3; subst. assumption.
  - rewrite trun_ids_cons, tcancelled_ids_cons, Hrun. cbn [map app].
    eapply perm_trans; [apply Permutation_app_tail; apply act_perm; exact Hperm|].
    destruct Hact as [[Ha Hc]|[Ha [Ha' Hc]]]; rewrite Hc; cbn [app].
    + rewrite (PU_act_same L1 c c' L2 Ha Hid). exact H4.
    + eapply perm_trans; [|exact H4].
      eapply perm_trans; [apply tperm_move_mid|].
      change (cid c :: act (L1 ++ c' :: L2) ++ run_ids (log s) ++ cancelled_ids (log s))
        with ((cid c :: act (L1 ++ c' :: L2)) ++ run_ids (log s) ++ cancelled_ids (log s)).
      apply Permutation_app_tail. apply Permutation_sym. apply PU_act_cancel; assumption.
  - constructor; assumption.
Qed.

Lemma locate_heap : forall i s p c, locate i s = InHeap p c ->
  (p < length (hp s))%nat /\ c = nth p (hp s) dcall /\ active c = true /\ cid c = i.
Proof.
  intros i s p c H. unfold locate in H. destruct (find_pos i (hp s)) as [q|] eqn:E.
  - destruct (active (nth q (hp s) dcall)) eqn:Ea; [|discriminate]. inversion H; subst.
    destruct (find_pos_some _ _ _ E) as [H1 H2]. auto.
  - destruct (find_id i (nw s)) as [c0|]; [|discriminate]. destruct (active c0); discriminate.
Qed.

Lemma locate_new : forall i s c, locate i s = InNew c ->
  find_id i (nw s) = Some c /\ active c = true /\ cid c = i.
Proof.
  intros i s c H. unfold locate in H. destruct (find_pos i (hp s)) as [q|] eqn:E.
  - destruct (active (nth q (hp s) dcall)); discriminate.
  - destruct (find_id i (nw s)) as [c0|] eqn:Ef; [|discriminate].
    destruct (active c0) eqn:Ea; [|discriminate]. inversion H; subst.
    destruct (find_id_some _ _ _ Ef). auto.
Qed.

Lemma Inv_put_back : forall s i c c' moved dc e,
  Inv s -> place_call (locate i s) = Some c ->
  cid c' = cid c -> 0 <= cdelay c' ->
  (moved = true -> ctime c' <= ctime c) -> (moved = false -> ctime c' = ctime c) ->
  ((active c' = active c /\ cancel_of e = []) \/ (active c = true /\ active c' = false /\ cancel_of e = [cid c])) ->
  run_of e = [] -> good_ev e ->
  Inv (put_back s (locate i s) c' moved dc e).
Proof.
  intros s i c c' moved dc e HI Hpl Hid Hdel Hmt Hmf Hact Hrun Hgood.
  destruct (locate i s) as [p c0|c0|] eqn:El; cbn in Hpl; inversion Hpl; subst c0; cbn [put_back].
  - destruct (locate_heap _ _ _ _ El) as [Hp [Hc [Ha Hi]]].
    destruct (upd_split (hp s) p c' Hp) as [l1 [l2 [E1 E2]]]. rewrite <- Hc in E1.
    assert (Hh : hheap (if moved then bubble_up ctime dcall p 0 p (upd (hp s) p c') else upd (hp s) p c')
                 /\ Permutation (if moved then bubble_up ctime dcall p 0 p (upd (hp s) p c') else upd (hp s) p c')
                                (upd (hp s) p c')).
    { destruct moved.
      - apply move_sooner_spec; [apply (inv_heap _ HI) | exact Hp | rewrite <- Hc; auto].
      - split; [|apply Permutation_refl]. apply heap_upd_same_key; [apply (inv_heap _ HI) | exact Hp|].
        rewrite <- Hc. auto. }
    destruct Hh as [Hh Hp2].
    eapply (Inv_point s _ _ l1 (l2 ++ nw s) c c'); eauto.
    + rewrite E1 at 1. rewrite <- app_assoc. reflexivity.
    + eapply perm_trans; [apply Permutation_app_tail; exact Hp2|].
      rewrite E2, <- app_assoc. apply Permutation_refl.
  - destruct (locate_new _ _ _ El) as [Hf [Ha Hi]].
    destruct (replace_split _ _ _ Hf) as [l1 [l2 [E1 E2]]].
    eapply (Inv_point s _ _ (hp s ++ l1) l2 c c'); eauto.
    + rewrite E1 at 1. rewrite <- app_assoc. reflexivity.
    + rewrite (E2 c') by congruence. rewrite <- app_assoc. apply Permutation_refl.
    + apply (inv_heap _ HI).
Qed.

Lemma place_facts : forall s i c, Inv s -> place_call (locate i s) = Some c ->
  active c = true /\ cid c = i /\ 0 <= cdelay c.
Proof.
  intros s i c H Hpl. pose proof (inv_delay _ H) as Hd. rewrite Forall_forall in Hd.
  destruct (locate i s) as [p c0|c0|] eqn:El; cbn in Hpl; inversion Hpl; subst.
  - destruct (locate_heap _ _ _ _ El) as [Hp [Hc [Ha Hi]]]. split; [exact Ha|]. split; [exact Hi|].
    apply (Hd c). apply in_or_app. left. rewrite Hc. apply nth_In. exact Hp.
  - destruct (locate_new _ _ _ El) as [Hf [Ha Hi]]. split; [exact Ha|]. split; [exact Hi|].
    apply (Hd c). apply in_or_app. right. apply (find_id_some _ _ _ Hf).
Qed.

Lemma Inv_exec_bop : forall s b, Inv s -> Inv (exec_bop s b).
Proof.
  intros s b H. destruct b as [d|i|i x|i x| |]; cbn [exec_bop].
  - (* callLater *)
    destruct H as [H1 H2 H3 H4 H5]. split; simpl_st.
    + exact H1.
    + rewrite app_assoc. apply Forall_app. split; [exact H2|]. constructor; [cbn; lia | constructor].
    + rewrite app_assoc. apply Forall_app. split.
      * eapply Forall_impl; [|exact H3]. cbn. intros a Ha. lia.
      * constructor; [cbn; lia | constructor].
    + rewrite trun_ids_cons, tcancelled_ids_cons. cbn [run_of cancel_of map app].
      rewrite seq_S. cbn [plus].
      assert (E : act (hp s ++ nw s ++ [mkCall (next s) (now s + d) 0 false false])
                  = act (hp s ++ nw s) ++ [next s]).
      { rewrite (app_assoc (hp s) (nw s)), act_app. reflexivity. }
      rewrite E. apply tperm_add_one. exact H4.
    + constructor; [exact I | exact H5].
  - (* cancel *)
    destruct (place_call (locate i s)) as [c|] eqn:Hpl; [|apply Inv_classify; exact H].
    destruct (place_facts _ _ _ H Hpl) as [Ha [Hi Hd]].
    apply Inv_put_back with (c := c).
    + exact H.
    + exact Hpl.
    + reflexivity.
    + exact Hd.
    + discriminate.
    + reflexivity.
    + right. split; [exact Ha|]. split; [reflexivity|]. cbn. rewrite Hi. reflexivity.
    + reflexivity.
    + exact I.
  - (* reset *)
    destruct (place_call (locate i s)) as [c|] eqn:Hpl; [|apply Inv_classify; exact H].
    destruct (reset_shape (now s) x c) as [R1 [R2 [R3 [R4 R5]]]].
    apply Inv_put_back with (c := c).
    + exact H.
    + exact Hpl.
    + exact R1.
    + exact R3.
    + exact R4.
    + exact R5.
    + left. split; [|reflexivity]. unfold active. rewrite R2. reflexivity.
    + reflexivity.
    + exact I.
  - (* delay *)
    destruct (place_call (locate i s)) as [c|] eqn:Hpl; [|apply Inv_classify; exact H].
    destruct (delay_shape x c) as [R1 [R2 [R3 [R4 R5]]]].
    apply Inv_put_back with (c := c).
    + exact H.
    + exact Hpl.
    + exact R1.
    + exact R3.
    + exact R4.
    + exact R5.
    + left. split; [|reflexivity]. unfold active. rewrite R2. reflexivity.
    + reflexivity.
    + exact I.
  - apply Inv_emit_plain; cbn; auto.
  - exact H.
Qed.

Lemma Inv_exec_body : forall bs s, Inv s -> Inv (fst (run_body exec_bop bs s)).
Proof. intros bs s H. apply (run_body_inv st exec_bop Inv Inv_exec_bop). exact H. Qed.

(** a state whose heap / staging list were replaced by lists with the same active ids *)
Lemma Inv_relist : forall s hp' nw' dc b,
  hheap hp' ->
  Forall (fun c => 0 <= cdelay c) (hp' ++ nw') ->
  Forall (fun c => (cid c < next s)%nat) (hp' ++ nw') ->
  Permutation (act (hp' ++ nw')) (act (hp s ++ nw s)) ->
  Inv s -> Inv (mkSt hp' nw' dc (now s) (next s) (log s) b).
Proof.
  intros s hp' nw' dc b Hh Hd Hi Hp [H1 H2 H3 H4 H5]. split; simpl_st; auto.
  eapply perm_trans; [apply Permutation_app_tail; exact Hp | exact H4].
Qed.

(** ---- _insertNewDelayedCalls ---- *)
Lemma insert_fold : forall (P : call -> Prop) l h k,
  (forall c, P c -> P (activate c)) ->
  hheap h -> Forall P h -> Forall P l ->
  let r := fold_left insert_one l (h, k) in
  hheap (fst r) /\ Forall P (fst r) /\ Permutation (act (fst r)) (act (h ++ l)).
Proof.
  intros P l. induction l as [|c r IH]; intros h k HP Hh Hf Hl; cbn [fold_left].
  - cbn. rewrite app_nil_r. split; [exact Hh|]. split; [exact Hf | apply Permutation_refl].
  - inversion Hl; subst.
    assert (E : insert_one (h, k) c
                = if ccanc c then (h, k - 1) else (heappush ctime dcall h (activate c), k)) by reflexivity.
    rewrite E. clear E. destruct (ccanc c) eqn:Ec.
    + destruct (IH h (k - 1) HP Hh Hf) as [A1 [A2 A3]]; [assumption|].
      split; [exact A1|]. split; [exact A2|]. eapply perm_trans; [exact A3|].
      rewrite !act_app, act_cons. unfold active. rewrite Ec. cbn. apply Permutation_refl.
    + destruct (heappush_spec call ctime dcall h (activate c) Hh) as [Pp Hp].
      destruct (IH (heappush ctime dcall h (activate c)) k HP Hp) as [A1 [A2 A3]]; [|assumption|].
      { eapply Permutation_Forall; [apply Permutation_sym; exact Pp|]. constructor; [apply HP|]; assumption. }
      split; [exact A1|]. split; [exact A2|]. eapply perm_trans; [exact A3|].
      rewrite !act_app. eapply perm_trans; [apply Permutation_app_tail; apply act_perm; exact Pp|].
      rewrite !act_cons. unfold active, activate. cbn. rewrite Ec. cbn.
      apply Permutation_middle.
Qed.

Lemma Inv_insert_new : forall s, Inv s -> Inv (insert_new s).
Proof.
  intros s H. unfold insert_new.
  pose proof (inv_delay _ H) as Hd. pose proof (inv_ids _ H) as Hi.
  apply Forall_app in Hd. destruct Hd as [Hd1 Hd2]. apply Forall_app in Hi. destruct Hi as [Hi1 Hi2].
  destruct (insert_fold (fun c => 0 <= cdelay c /\ (cid c < next s)%nat) (nw s) (hp s) (cancels s)) as [A1 [A2 A3]].
  - intros c [Hc1 Hc2]. cbn. split; [lia | exact Hc2].
  - apply (inv_heap _ H).
  - rewrite Forall_forall in *. intros c Hc. split; auto.
  - rewrite Forall_forall in *. intros c Hc. split; auto.
  - apply Inv_relist; auto; rewrite app_nil_r.
    + eapply Forall_impl; [|exact A2]. cbn. tauto.
    + eapply Forall_impl; [|exact A2]. cbn. tauto.
    + exact A3.
Qed.

(** ---- the loop of runUntilCurrent ---- *)
Section WithBody.
  Variable body : nat -> list bop.

  Lemma exec_bop_now : forall s b, now (exec_bop s b) = now s.
  Proof.
    intros s b. destruct b; cbn [exec_bop]; try reflexivity;
      destruct (place_call (locate _ s)); try reflexivity; unfold put_back; destruct (locate _ s); reflexivity.
  Qed.

  (** the state with which the loop continues after popping [c] (rest of the heap [h']) *)
  Definition after_pop (tnow : Z) (s : st) (c : call) (h' : list call) : st :=
    if ccanc c then mkSt h' (nw s) (cancels s - 1) (now s) (next s) (log s) (oof s)
    else if 0 <? cdelay c then
      mkSt (heappush ctime dcall h' (activate c)) (nw s) (cancels s) (now s) (next s) (log s) (oof s)
    else
      let res := run_body exec_bop (body (cid c))
                   (mkSt h' (nw s) (cancels s) (now s) (next s) (ERun c tnow (filter active h') :: log s) (oof s)) in
      emit (if snd res then ERaise (cid c) else EEnd (cid c)) (fst res).

  Lemma loop_unfold : forall f tnow s top t c h',
    hp s = top :: t -> (ctime top <=? tnow) = true -> heappop ctime dcall (top :: t) = Some (c, h') ->
    loop body (S f) tnow s = loop body f tnow (after_pop tnow s c h').
  Proof.
    intros f tnow s top t c h' Eh Edue Ep. cbn [loop]. rewrite Eh, Edue, Ep. unfold after_pop.
    destruct (ccanc c); [reflexivity|]. destruct (0 <? cdelay c); reflexivity.
  Qed.

  Lemma Inv_after_pop : forall tnow s top t c h', Inv s ->
    hp s = top :: t -> ctime top <= tnow -> heappop ctime dcall (top :: t) = Some (c, h') ->
    Inv (after_pop tnow s c h').
  Proof.
    intros tnow s top t c h' H Eh Edue Ep. unfold after_pop.
    pose proof (inv_heap _ H) as Hh. rewrite Eh in Hh.
    destruct (heappop_spec call ctime dcall _ _ _ Hh Ep) as [Pp [Hh' Hmin]].
    pose proof (inv_delay _ H) as Hd. pose proof (inv_ids _ H) as Hi. rewrite Eh in Hd, Hi.
    assert (Hd' : Forall (fun c0 => 0 <= cdelay c0) ((c :: h') ++ nw s)).
    { eapply Permutation_Forall; [|exact Hd]. apply Permutation_app_tail. apply Permutation_sym. exact Pp. }
    assert (Hi' : Forall (fun c0 => (cid c0 < next s)%nat) ((c :: h') ++ nw s)).
    { eapply Permutation_Forall; [|exact Hi]. apply Permutation_app_tail. apply Permutation_sym. exact Pp. }
    assert (Hact : Permutation (act ((c :: h') ++ nw s)) (act (hp s ++ nw s))).
    { rewrite Eh. apply act_perm. apply Permutation_app_tail. exact Pp. }
    assert (Hctop : ctime c <= tnow).
    { assert (Hin : In top (c :: h')) by (eapply Permutation_in; [apply Permutation_sym; exact Pp | left; reflexivity]).
      destruct Hin as [->|Hin]; [exact Edue|]. specialize (Hmin top Hin). lia. }
    cbn [app] in Hd', Hi'. inversion Hd' as [|? ? Hdc Hdr]; subst. inversion Hi' as [|? ? Hic Hir]; subst.
    destruct (ccanc c) eqn:Ec.
    - apply Inv_relist; auto.
      eapply perm_trans; [|exact Hact]. cbn [app]. rewrite act_cons. unfold active. rewrite Ec. cbn.
      apply Permutation_refl.
    - destruct (0 <? cdelay c) eqn:Edel.
      + destruct (heappush_spec call ctime dcall h' (activate c) Hh') as [Pq Hq].
        apply Inv_relist; auto.
        * eapply Permutation_Forall; [apply Permutation_app_tail; apply Permutation_sym; exact Pq|].
          cbn [app]. constructor; [cbn; lia | exact Hdr].
        * eapply Permutation_Forall; [apply Permutation_app_tail; apply Permutation_sym; exact Pq|].
          cbn [app]. constructor; [exact Hic | exact Hir].
        * eapply perm_trans; [|exact Hact].
          eapply perm_trans; [apply act_perm; apply Permutation_app_tail; exact Pq|].
          cbn [app]. rewrite !act_cons. unfold active, activate. cbn. apply Permutation_refl.
      + apply Z.ltb_ge in Edel. assert (Hz : cdelay c = 0) by lia.
        cbn zeta. apply Inv_emit_plain; try (destruct (snd _); (reflexivity || exact I)).
        apply Inv_exec_body.
        destruct H as [H1 H2 H3 H4 H5]. split; simpl_st.
        * exact Hh'.
        * exact Hdr.
        * exact Hir.
        * rewrite trun_ids_cons, tcancelled_ids_cons. cbn [run_of cancel_of map app].
          eapply perm_trans; [|exact H4].
          eapply perm_trans; [apply tperm_move_mid2|].
          change (cid c :: act (h' ++ nw s) ++ run_ids (log s) ++ cancelled_ids (log s))
            with ((cid c :: act (h' ++ nw s)) ++ run_ids (log s) ++ cancelled_ids (log s)).
          apply Permutation_app_tail. eapply perm_trans; [|exact Hact].
          cbn [app]. rewrite act_cons. unfold active. rewrite Ec. cbn. apply Permutation_refl.
        * constructor; [|exact H5]. cbn. unfold getTime. split; [lia|].
          apply Forall_forall. intros o Ho. apply filter_In in Ho. destruct Ho as [Ho _].
          specialize (Hmin o Ho). apply Forall_app in Hdr. destruct Hdr as [Hdr _].
          rewrite Forall_forall in Hdr. specialize (Hdr o Ho). cbn in Hdr. lia.
  Qed.

  Lemma loop_spec : forall fuel tnow s, Inv s ->
    Inv (loop body fuel tnow s)
    /\ (oof (loop body fuel tnow s) = false -> Forall (fun c => tnow < ctime c) (hp (loop body fuel tnow s))).
  Proof.
    induction fuel as [|f IH]; intros tnow s H.
    - cbn [loop]. destruct (hp s) as [|top t] eqn:Eh; [split; [exact H | intros _; rewrite Eh; constructor]|].
      destruct (ctime top <=? tnow) eqn:Edue.
      + split; [|cbn; discriminate]. destruct H as [H1 H2 H3 H4 H5]. rewrite Eh in *. split; cbn; assumption.
      + split; [exact H|]. intros _. rewrite Eh. apply Z.leb_gt in Edue.
        pose proof (inv_heap _ H) as Hh. rewrite Eh in Hh. apply Forall_forall. intros y Hy.
        pose proof (heap_root_min_in call ctime dcall _ Hh y Hy) as Hm. cbn in Hm. lia.
    - destruct (hp s) as [|top t] eqn:Eh; [cbn [loop]; rewrite Eh; split; [exact H | intros _; rewrite Eh; constructor]|].
      destruct (ctime top <=? tnow) eqn:Edue.
      + destruct (heappop ctime dcall (top :: t)) as [[c h']|] eqn:Ep.
        * rewrite (loop_unfold f tnow s top t c h' Eh Edue Ep). apply IH.
          apply (Inv_after_pop tnow s top t c h' H Eh); [apply Z.leb_le; exact Edue | exact Ep].
        * apply heappop_none in Ep. discriminate.
      + cbn [loop]. rewrite Eh, Edue. split; [exact H|]. intros _. rewrite Eh. apply Z.leb_gt in Edue.
        pose proof (inv_heap _ H) as Hh. rewrite Eh in Hh. apply Forall_forall. intros y Hy.
        pose proof (heap_root_min_in call ctime dcall _ Hh y Hy) as Hm. cbn in Hm. lia.
  Qed.

  Lemma Inv_compact : forall s, Inv s -> Inv (compact s).
  Proof.
    intros s H. unfold compact.
    destruct ((50 <? cancels s) && (Z.of_nat (length (hp s) / 2) <? cancels s))%bool; [|exact H].
    destruct (heapify_spec call ctime dcall (filter active (hp s))) as [P Hh].
    pose proof (inv_delay _ H) as Hd. pose proof (inv_ids _ H) as Hi.
    apply Forall_app in Hd. destruct Hd as [Hd1 Hd2]. apply Forall_app in Hi. destruct Hi as [Hi1 Hi2].
    apply Inv_relist; auto.
    - apply Forall_app. split; [|exact Hd2].
      eapply Permutation_Forall; [apply Permutation_sym; exact P|].
      apply Forall_forall. intros c Hc. apply filter_In in Hc. rewrite Forall_forall in Hd1. apply Hd1. tauto.
    - apply Forall_app. split; [|exact Hi2].
      eapply Permutation_Forall; [apply Permutation_sym; exact P|].
      apply Forall_forall. intros c Hc. apply filter_In in Hc. rewrite Forall_forall in Hi1. apply Hi1. tauto.
    - rewrite !act_app. apply Permutation_app_tail.
      eapply perm_trans; [apply act_perm; exact P|]. unfold act. rewrite filter_idem. apply Permutation_refl.
  Qed.

  Lemma compact_hp_future : forall s tnow,
    Forall (fun c => tnow < ctime c) (hp s) -> Forall (fun c => tnow < ctime c) (hp (compact s)).
  Proof.
    intros s tnow H. unfold compact.
    destruct ((50 <? cancels s) && (Z.of_nat (length (hp s) / 2) <? cancels s))%bool; [|exact H]. cbn.
    destruct (heapify_spec call ctime dcall (filter active (hp s))) as [P _].
    eapply Permutation_Forall; [apply Permutation_sym; exact P|].
    apply Forall_forall. intros c Hc. apply filter_In in Hc. rewrite Forall_forall in H. apply H. tauto.
  Qed.

  Lemma compact_oof : forall s, oof (compact s) = oof s.
  Proof.
    intros s. unfold compact.
    destruct ((50 <? cancels s) && (Z.of_nat (length (hp s) / 2) <? cancels s))%bool; reflexivity.
  Qed.

  Lemma compact_now : forall s, now (compact s) = now s.
  Proof.
    intros s. unfold compact.
    destruct ((50 <? cancels s) && (Z.of_nat (length (hp s) / 2) <? cancels s))%bool; reflexivity.
  Qed.

  Lemma Inv_run_until_current : forall fuel s, Inv s -> Inv (run_until_current body fuel s).
  Proof.
    intros fuel s H. unfold run_until_current.
    apply Inv_emit_plain; cbn; auto. apply Inv_compact. apply loop_spec.
    apply Inv_emit_plain; cbn; auto. apply Inv_insert_new. exact H.
  Qed.

  Lemma Inv_timeout : forall L s, Inv s -> Inv (timeout L s).
  Proof.
    intros L s H. unfold timeout. pose proof (Inv_insert_new s H) as H1.
    destruct (hp (insert_new s)); apply Inv_emit_plain; cbn; auto.
  Qed.

  Lemma Inv_step : forall fuel s o, Inv s -> Inv (step body fuel s o).
  Proof.
    intros fuel s o H. destruct o as [b|a| |L]; cbn [step].
    - apply Inv_exec_bop. exact H.
    - destruct H as [H1 H2 H3 H4 H5]. split; assumption.
    - apply Inv_run_until_current. exact H.
    - apply Inv_timeout. exact H.
  Qed.

  Lemma Inv_run : forall fuel ops s, Inv s -> Inv (run body fuel s ops).
  Proof.
    intros fuel ops. induction ops as [|o r IH]; cbn; intros s H; [exact H|].
    apply IH. apply Inv_step. exact H.
  Qed.

  Lemma reach_Inv : forall fuel ops, Inv (run body fuel init ops).
  Proof. intros. apply Inv_run. apply Inv_init. Qed.


  (** ---- a call scheduled during an iteration does not run in that iteration ---- *)
  Lemma put_back_hp_ids : forall (N : nat) s i c c' moved dc e,
    place_call (locate i s) = Some c -> cid c' = cid c ->
    Forall (fun x => (cid x < N)%nat) (hp s) ->
    Forall (fun x => (cid x < N)%nat) (hp (put_back s (locate i s) c' moved dc e)).
  Proof.
    intros N s i c c' moved dc e Hpl Hid Hf.
    destruct (locate i s) as [p c0|c0|] eqn:El; cbn in Hpl; inversion Hpl; subst c0; cbn [put_back hp].
    - destruct (locate_heap _ _ _ _ El) as [Hp [Hc _]].
      destruct (upd_split (hp s) p c' Hp) as [l1 [l2 [E1 E2]]].
      assert (Hu : Forall (fun x => (cid x < N)%nat) (upd (hp s) p c')).
      { rewrite E2. rewrite E1 in Hf. eapply PU_Forall; [exact Hf|]. cbn. rewrite Hid, Hc.
        apply Forall_app in Hf. destruct Hf as [_ Hf]. inversion Hf; subst. assumption. }
      destruct moved; [|exact Hu].
      eapply Permutation_Forall; [|exact Hu]. apply Permutation_sym. apply bubble_up_perm.
      rewrite upd_length. exact Hp.
    - exact Hf.
  Qed.

  Lemma exec_bop_hp_ids : forall (N : nat) s b,
    Forall (fun x => (cid x < N)%nat) (hp s) -> Forall (fun x => (cid x < N)%nat) (hp (exec_bop s b)).
  Proof.
    intros N s b Hf. destruct b as [d|i|i x|i x| |]; cbn [exec_bop]; try exact Hf.
    - destruct (place_call (locate i s)) as [c|] eqn:Hpl; [|exact Hf].
      apply put_back_hp_ids with (c := c); auto.
    - destruct (place_call (locate i s)) as [c|] eqn:Hpl; [|exact Hf].
      apply put_back_hp_ids with (c := c); auto. apply reset_shape.
    - destruct (place_call (locate i s)) as [c|] eqn:Hpl; [|exact Hf].
      apply put_back_hp_ids with (c := c); auto. apply delay_shape.
  Qed.

  Lemma exec_bop_log : forall s b, log (exec_bop s b) = log s \/ exists e, log (exec_bop s b) = e :: log s /\ run_of e = [].
  Proof.
    intros s b. destruct b as [d|i|i x|i x| |]; cbn [exec_bop]; [right|right|right|right|right|left; reflexivity].
    - eexists. split; reflexivity.
    - destruct (place_call (locate i s)) as [c|] eqn:Hpl.
      + destruct (locate i s); cbn in Hpl; try discriminate; eexists; split; reflexivity.
      + unfold classify. destruct (memn _ _); [|destruct (memn _ _)]; eexists; split; reflexivity.
    - destruct (place_call (locate i s)) as [c|] eqn:Hpl.
      + destruct (locate i s); cbn in Hpl; try discriminate; eexists; split; reflexivity.
      + unfold classify. destruct (memn _ _); [|destruct (memn _ _)]; eexists; split; reflexivity.
    - destruct (place_call (locate i s)) as [c|] eqn:Hpl.
      + destruct (locate i s); cbn in Hpl; try discriminate; eexists; split; reflexivity.
      + unfold classify. destruct (memn _ _); [|destruct (memn _ _)]; eexists; split; reflexivity.
    - eexists. split; reflexivity.
  Qed.

  Lemma exec_body_old : forall (N : nat) bs s,
    Forall (fun x => (cid x < N)%nat) (hp s) ->
    Forall (fun x => (cid x < N)%nat) (hp (fst (run_body exec_bop bs s)))
    /\ (forall c n o, In (ERun c n o) (log (fst (run_body exec_bop bs s))) -> In (ERun c n o) (log s)).
  Proof.
    intros N bs. induction bs as [|b r IH]; intros s Hf; [cbn; split; auto|].
    assert (Hstep : Forall (fun x => (cid x < N)%nat) (hp (fst (run_body exec_bop r (exec_bop s b))))
                    /\ (forall c n o, In (ERun c n o) (log (fst (run_body exec_bop r (exec_bop s b)))) -> In (ERun c n o) (log s))).
    { destruct (IH (exec_bop s b) (exec_bop_hp_ids N s b Hf)) as [A1 A2]. split; [exact A1|].
      intros c n o Hin. specialize (A2 c n o Hin).
      destruct (exec_bop_log s b) as [El|[e [El Er]]]; rewrite El in A2; [exact A2|].
      destruct A2 as [->|A2]; [discriminate | exact A2]. }
    destruct b; try exact Hstep. cbn. split; auto.
  Qed.

  Lemma after_pop_old : forall (N : nat) tnow s c h',
    Forall (fun x => (cid x < N)%nat) (c :: h') -> hheap h' ->
    Forall (fun x => (cid x < N)%nat) (hp (after_pop tnow s c h'))
    /\ (forall c0 n o, In (ERun c0 n o) (log (after_pop tnow s c h')) -> In (ERun c0 n o) (log s) \/ (cid c0 < N)%nat).
  Proof.
    intros N tnow s c h' Hf Hh'. inversion Hf as [|? ? Hc Hr]; subst. unfold after_pop.
    destruct (ccanc c); [split; [exact Hr | auto]|].
    destruct (0 <? cdelay c).
    - split; [|auto]. cbn [hp]. destruct (heappush_spec call ctime dcall h' (activate c) Hh') as [Pq _].
      eapply Permutation_Forall; [apply Permutation_sym; exact Pq|]. constructor; assumption.
    - set (s1 := mkSt h' (nw s) (cancels s) (now s) (next s) (ERun c tnow (filter active h') :: log s) (oof s)).
      destruct (exec_body_old N (body (cid c)) s1 Hr) as [B1 B2]. split; [exact B1|].
      intros c0 n o Hin. cbn zeta in Hin. cbn [emit log] in Hin.
      destruct Hin as [Hin|Hin]; [destruct (snd _); discriminate|].
      apply B2 in Hin. cbn [s1 log] in Hin. destruct Hin as [Hin|Hin]; [|left; exact Hin].
      inversion Hin; subst. right. exact Hc.
  Qed.

  Lemma loop_runs_old : forall (N : nat) fuel tnow s, Inv s ->
    Forall (fun x => (cid x < N)%nat) (hp s) ->
    forall c n o, In (ERun c n o) (log (loop body fuel tnow s)) -> In (ERun c n o) (log s) \/ (cid c < N)%nat.
  Proof.
    intros N. induction fuel as [|f IH]; intros tnow s H Hf c0 n0 o0.
    - cbn [loop]. destruct (hp s) as [|top t]; [auto|]. destruct (_ <=? _); cbn; auto.
    - destruct (hp s) as [|top t] eqn:Eh; [cbn [loop]; rewrite Eh; auto|].
      destruct (ctime top <=? tnow) eqn:Edue; [|cbn [loop]; rewrite Eh, Edue; auto].
      destruct (heappop ctime dcall (top :: t)) as [[c h']|] eqn:Ep; [|apply heappop_none in Ep; discriminate].
      rewrite (loop_unfold f tnow s top t c h' Eh Edue Ep).
      pose proof (inv_heap _ H) as Hh. rewrite Eh in Hh.
      destruct (heappop_spec call ctime dcall _ _ _ Hh Ep) as [Pp [Hh' _]].
      assert (Hf' : Forall (fun x => (cid x < N)%nat) (c :: h')).
      { eapply Permutation_Forall; [apply Permutation_sym; exact Pp | exact Hf]. }
      destruct (after_pop_old N tnow s c h' Hf' Hh') as [A1 A2].
      intros Hin. apply IH in Hin; [|apply (Inv_after_pop tnow s top t c h' H Eh); [apply Z.leb_le; exact Edue | exact Ep] | exact A1].
      destruct Hin as [Hin|Hin]; [apply A2; exact Hin | right; exact Hin].
  Qed.

  Lemma iteration_runs_old : forall fuel ops, let s := run body fuel init ops in
    forall c n o, In (ERun c n o) (log (run_until_current body fuel s)) ->
    In (ERun c n o) (log s) \/ (cid c < next s)%nat.
  Proof.
    intros fuel ops s c n o Hin. unfold run_until_current in Hin. cbn [emit log] in Hin.
    destruct Hin as [Hin|Hin]; [discriminate|].
    assert (Hl : forall x, log (compact x) = log x).
    { intros x. unfold compact. destruct (_ && _)%bool; reflexivity. }
    rewrite Hl in Hin.
    set (s1 := mkSt (hp (insert_new s)) (nw (insert_new s)) (cancels (insert_new s)) (now (insert_new s))
                    (next (insert_new s)) (EIter :: log (insert_new s)) (oof (insert_new s))) in *.
    assert (H1 : Inv s1).
    { apply (Inv_emit_plain (insert_new s) EIter); cbn; auto. apply Inv_insert_new. apply reach_Inv. }
    apply (loop_runs_old (next s)) in Hin; [|exact H1|].
    - destruct Hin as [Hin|Hin]; [|right; exact Hin]. cbn [s1 log] in Hin.
      destruct Hin as [Hin|Hin]; [discriminate | left; exact Hin].
    - pose proof (inv_ids _ H1) as Hi. apply Forall_app in Hi. destruct Hi as [Hi _]. exact Hi.
  Qed.

  (** ---- statements exported by Property.v ---- *)
  Lemma reach_heap : forall fuel ops, let s := run body fuel init ops in
    heap ctime dcall (hp s) /\ Forall (fun c => 0 <= cdelay c) (hp s ++ nw s).
  Proof. intros fuel ops. destruct (reach_Inv fuel ops). split; assumption. Qed.

  Lemma reach_part : forall fuel ops, let s := run body fuel init ops in
    Permutation (map cid (pending s) ++ run_ids (log s) ++ cancelled_ids (log s)) (seq 0 (next s)).
  Proof. intros fuel ops. apply (inv_part _ (reach_Inv fuel ops)). Qed.

  Lemma reach_once : forall fuel ops, let s := run body fuel init ops in
    NoDup (run_ids (log s))
    /\ (forall i, In i (cancelled_ids (log s)) -> ~ In i (run_ids (log s)))
    /\ (forall i, In i (map cid (pending s)) <->
                  (i < next s)%nat /\ ~ In i (run_ids (log s)) /\ ~ In i (cancelled_ids (log s))).
  Proof.
    intros fuel ops s. pose proof (reach_part fuel ops) as Hp. fold s in Hp.
    assert (Hn : NoDup (map cid (pending s) ++ run_ids (log s) ++ cancelled_ids (log s))).
    { eapply Permutation_NoDup; [apply Permutation_sym; exact Hp | apply seq_NoDup]. }
    apply tNoDup_app_inv in Hn. destruct Hn as [Hn1 [Hn2 Hd1]].
    apply tNoDup_app_inv in Hn2. destruct Hn2 as [Hn2 [Hn3 Hd2]].
    split; [exact Hn2|]. split.
    - intros i Hc Hr. exact (Hd2 i Hr Hc).
    - intros i. split.
      + intros Hi. split; [|split].
        * assert (Hs : In i (seq 0 (next s))).
          { eapply Permutation_in; [exact Hp|]. apply in_or_app. left. exact Hi. }
          apply in_seq in Hs. lia.
        * intros Hr. apply (Hd1 i Hi). apply in_or_app. left. exact Hr.
        * intros Hr. apply (Hd1 i Hi). apply in_or_app. right. exact Hr.
      + intros [Hlt [Hnr Hnc]].
        assert (Hs : In i (seq 0 (next s))) by (apply in_seq; lia).
        eapply Permutation_in in Hs; [|apply Permutation_sym; exact Hp].
        apply in_app_or in Hs. destruct Hs as [Hs|Hs]; [exact Hs|].
        apply in_app_or in Hs. destruct Hs; tauto.
  Qed.

  Lemma reach_good : forall fuel ops e, In e (log (run body fuel init ops)) -> good_ev e.
  Proof.
    intros fuel ops e. pose proof (inv_log _ (reach_Inv fuel ops)) as H.
    rewrite Forall_forall in H. apply H.
  Qed.

  Lemma run_never_early : forall fuel ops c n others,
    In (ERun c n others) (log (run body fuel init ops)) -> getTime c <= n.
  Proof. intros fuel ops c n others H. apply (reach_good fuel ops _ H). Qed.

  Lemma run_is_earliest : forall fuel ops c n others,
    In (ERun c n others) (log (run body fuel init ops)) -> Forall (fun o => getTime c <= getTime o) others.
  Proof. intros fuel ops c n others H. apply (reach_good fuel ops _ H). Qed.

  Lemma run_body_now : forall bs s, now (fst (run_body exec_bop bs s)) = now s.
  Proof.
    intros bs s. apply (run_body_inv st exec_bop (fun x => now x = now s)); [|reflexivity].
    intros x b Hx. rewrite exec_bop_now. exact Hx.
  Qed.

  Lemma loop_now : forall fuel tnow s, now (loop body fuel tnow s) = now s.
  Proof.
    induction fuel as [|f IH]; intros tnow s; cbn [loop].
    - destruct (hp s); [reflexivity|]. destruct (_ <=? _); reflexivity.
    - destruct (hp s) as [|top t] eqn:E; [reflexivity|]. destruct (_ <=? _); [|reflexivity].
      destruct (heappop ctime dcall (top :: t)) as [[c h']|]; [|reflexivity].
      destruct (ccanc c); [rewrite IH; reflexivity|].
      destruct (0 <? cdelay c); [rewrite IH; reflexivity|].
      cbn zeta. rewrite IH. cbn [emit now]. rewrite run_body_now. reflexivity.
  Qed.

  (** an iteration that completes leaves only calls whose [time] is in the future in the heap *)
  Lemma iteration_done : forall fuel ops, let s := run body fuel init ops in
    let s' := run_until_current body fuel s in
    oof s' = false ->
    Forall (fun c => now s' < getTime c) (filter active (hp s')).
  Proof.
    intros fuel ops s s' Hoof. unfold s', run_until_current in *. cbn [emit hp now oof] in *.
    rewrite compact_oof in Hoof. rewrite compact_now.
    set (s1 := emit EIter (insert_new s)) in *.
    assert (H1 : Inv s1).
    { unfold s1. apply Inv_emit_plain; cbn; auto. apply Inv_insert_new. apply reach_Inv. }
    destruct (loop_spec fuel (now s1) s1 H1) as [HI Hf]. specialize (Hf Hoof).
    pose proof (loop_now fuel (now s1) s1) as Hnow.
    change (now (insert_new s)) with (now s1) in *. rewrite Hnow.
    pose proof (compact_hp_future _ _ Hf) as Hc.
    pose proof (inv_delay _ (Inv_compact _ HI)) as Hd. apply Forall_app in Hd. destruct Hd as [Hd _].
    apply Forall_forall. intros c Hin. apply filter_In in Hin. destruct Hin as [Hin _].
    rewrite Forall_forall in Hc, Hd. specialize (Hc c Hin). specialize (Hd c Hin). cbn in Hd.
    unfold getTime. lia.
  Qed.

  (** timeout(): never longer than the time until the earliest pending call; None only when nothing is pending *)
  Lemma timeout_sound : forall fuel ops L, let s := run body fuel init ops in
    let s' := timeout L s in
    match log s' with
    | ETimeout None :: _ => pending s' = []
    | ETimeout (Some t) :: _ => 0 <= t /\ forall c, In c (pending s') -> t <= Z.max 0 (getTime c - now s')
    | _ => False
    end.
  Proof.
    intros fuel ops L s s'. unfold s', timeout.
    pose proof (Inv_insert_new s (reach_Inv fuel ops)) as H1. fold s in H1.
    assert (Hnw : nw (insert_new s) = []) by reflexivity.
    destruct (hp (insert_new s)) as [|top t] eqn:Eh.
    - cbn [log emit]. unfold pending. cbn [hp nw emit]. rewrite Eh, Hnw. reflexivity.
    - cbn [log emit]. split; [lia|]. intros c Hc. unfold pending in Hc. cbn [hp nw emit now] in *.
      rewrite Hnw, app_nil_r in Hc.
      apply filter_In in Hc. destruct Hc as [Hc _]. rewrite Eh in Hc.
      pose proof (inv_heap _ H1) as Hh. rewrite Eh in Hh.
      pose proof (heap_root_min_in call ctime dcall _ Hh c Hc) as Hm. cbn in Hm.
      pose proof (inv_delay _ H1) as Hd. rewrite Eh in Hd. apply Forall_app in Hd. destruct Hd as [Hd _].
      rewrite Forall_forall in Hd. specialize (Hd c Hc). cbn in Hd. unfold getTime. lia.
  Qed.
End WithBody.

(** a non-trivial history: lazy delayed_time (reset to later), in-place sift-up (reset to earlier, negative
    delay), a call scheduled from a running call, a cancellation, two iterations *)
Definition ex_body (i : nat) : list bop :=
  match i with
  | 0%nat => [BCallLater 0; BCancel 1]
  | _ => []
  end.
Definition ex_ops : list op :=
  [Do (BCallLater 5); Do (BCallLater 5); Do (BCallLater 9); Do (BCallLater 7); RunUntilCurrent;
   Do (BReset 3 12); Do (BReset 2 6); Do (BDelay 3 (-4)); Timeout 1000; Adv 6; RunUntilCurrent; Timeout 1000;
   Adv 2; RunUntilCurrent; Timeout 1000].

Example ex_runs :
  let s := run ex_body 60 init ex_ops in
  rev (run_ids (log s)) = [0; 2; 4; 3]%nat /\ rev (run_times (log s)) = [5; 6; 6; 8]
  /\ cancelled_ids (log s) = [1%nat] /\ pending s = [] /\ oof s = false
  /\ In (ETimeout (Some 5)) (log s) /\ In (ETimeout (Some 0)) (log s) /\ In (ETimeout None) (log s).
Proof. vm_compute. repeat split; auto 20. Qed.

(** a call function that raises: the reactor logs the failure and goes on; the call counts as run, the other
    due calls run in the same iteration *)
Definition ex_raise_body (i : nat) : list bop :=
  match i with
  | 0%nat => [BCallLater 0; BRaise; BCancel 1]
  | _ => []
  end.
Example ex_raise :
  let s := run ex_raise_body 60 init [Do (BCallLater 5); Do (BCallLater 5); Adv 5; RunUntilCurrent] in
  rev (run_ids (log s)) = [0; 1]%nat /\ map cid (pending s) = [2%nat] /\ In (ERaise 0) (log s) /\ oof s = false.
Proof. vm_compute. repeat split; auto 20. Qed.
