(** C08 property theorems: for every table of call functions [body] (call #i's function performs the
    timer operations [body i] and may end by raising an exception, which the reactor logs before it goes on
    with the next call), every history [ops] of callLater / cancel / reset / delay /
    getDelayedCalls / clock advances / runUntilCurrent / timeout() from the fresh reactor, every fuel.
    The log is kept newest first.  Times are integers (dyadic rationals scaled by 2^k). *)
From Coq Require Import List Arith ZArith Bool Permutation.
From TwLib Require Import TimersCall TimersHeap.
From C08 Require Import Model Proofs ProofsCount.
Import ListNotations.
Local Open Scope Z_scope.

(** _pendingTimedCalls is a heap on DelayedCall.time after every operation (heappush, heappop, the
    in-place sift-up of _moveCallLaterSooner, lazy re-push of delayed calls, compaction by
    filter + heapify), and delayed_time is never negative *)
Theorem heap_inv_preserved : forall body fuel ops,
  let s := run body fuel init ops in
  heap ctime dcall (hp s) /\ Forall (fun c => 0 <= cdelay c) (hp s ++ nw s).
Proof. exact reach_heap. Qed.
Print Assumptions heap_inv_preserved.

(** every call ever created is in exactly one of: getDelayedCalls() / has run (once) / was cancelled *)
Theorem each_call_pending_or_ran_once_or_cancelled : forall body fuel ops,
  let s := run body fuel init ops in
  Permutation (map cid (pending s) ++ run_ids (log s) ++ cancelled_ids (log s)) (seq 0 (next s)).
Proof. exact reach_part. Qed.
Print Assumptions each_call_pending_or_ran_once_or_cancelled.

(** ... spelled out: no call runs twice, a cancelled call never runs, and getDelayedCalls() lists
    exactly the created calls that have neither run nor been cancelled *)
Theorem runs_once_iff_not_cancelled_and_getDelayedCalls_is_pending_set : forall body fuel ops,
  let s := run body fuel init ops in
  NoDup (run_ids (log s))
  /\ (forall i, In i (cancelled_ids (log s)) -> ~ In i (run_ids (log s)))
  /\ (forall i, In i (map cid (pending s)) <->
                (i < next s)%nat /\ ~ In i (run_ids (log s)) /\ ~ In i (cancelled_ids (log s))).
Proof. exact reach_once. Qed.
Print Assumptions runs_once_iff_not_cancelled_and_getDelayedCalls_is_pending_set.

(** a call never runs before its currently scheduled time (n = the clock when it runs) *)
Theorem never_before_scheduled_time : forall body fuel ops c n others,
  In (ERun c n others) (log (run body fuel init ops)) -> getTime c <= n.
Proof. exact run_never_early. Qed.
Print Assumptions never_before_scheduled_time.

(** when a call runs, no other pending call of the timer heap is scheduled earlier
    ([others] = the active calls left in _pendingTimedCalls; calls created during the iteration
    are in the staging list and, by the next theorem, cannot run in it) *)
Theorem no_pending_earlier_when_running : forall body fuel ops c n others,
  In (ERun c n others) (log (run body fuel init ops)) -> Forall (fun o => getTime c <= getTime o) others.
Proof. exact run_is_earliest. Qed.
Print Assumptions no_pending_earlier_when_running.

(** a call scheduled during an iteration does not run in that iteration: every call that
    runUntilCurrent runs existed when it was entered *)
Theorem scheduled_during_iteration_waits : forall body fuel ops,
  let s := run body fuel init ops in
  forall c n o, In (ERun c n o) (log (run_until_current body fuel s)) ->
  In (ERun c n o) (log s) \/ (cid c < next s)%nat.
Proof. exact iteration_runs_old. Qed.
Print Assumptions scheduled_during_iteration_waits.

(** an iteration that completes leaves no active call in the timer heap whose scheduled time has
    been reached: a call runs in the first iteration that starts at or after its time *)
Theorem runs_in_first_iteration_at_or_after : forall body fuel ops,
  let s := run body fuel init ops in
  let s' := run_until_current body fuel s in
  oof s' = false -> Forall (fun c => now s' < getTime c) (filter active (hp s')).
Proof. exact iteration_done. Qed.
Print Assumptions runs_in_first_iteration_at_or_after.

(** timeout() never exceeds the time until the earliest pending call, and is None only when no call
    is pending *)
Theorem timeout_le_time_to_earliest : forall body fuel ops L,
  let s := run body fuel init ops in
  let s' := timeout L s in
  match log s' with
  | ETimeout None :: _ => pending s' = []
  | ETimeout (Some t) :: _ => 0 <= t /\ forall c, In c (pending s') -> t <= Z.max 0 (getTime c - now s')
  | _ => False
  end.
Proof. exact timeout_sound. Qed.
Print Assumptions timeout_le_time_to_earliest.

(** the private counter _cancellations (it decides when runUntilCurrent compacts the heap) never exceeds the
    number of cancelled calls really stored in the heap and the staging list: compaction never fires without
    more than 50 such entries ... *)
Theorem cancellations_counter_never_overcounts : forall body fuel ops,
  let s := run body fuel init ops in cancels s <= ncanc (hp s ++ nw s).
Proof. exact reach_cnt. Qed.
Print Assumptions cancellations_counter_never_overcounts.

(** ... but it is not that number ("_cancellations = cancelled entries stored" is FALSE of the current code):
    compaction zeroes it while a call that a running call scheduled and cancelled in the same iteration is still
    in the staging list; from then on it undercounts (here it reaches -1), and every such event delays later
    compactions by one more entry.  Nothing the property observes depends on the counter. *)
Theorem cancellations_counter_is_not_exact :
  let s1 := run cnt_body 400 init cnt_ops in
  let s2 := step cnt_body 400 s1 RunUntilCurrent in
  (cancels s1 = 0 /\ ncanc (hp s1 ++ nw s1) = 1 /\ length (hp s1) = 8%nat)
  /\ (cancels s2 = -1 /\ ncanc (hp s2 ++ nw s2) = 0) /\ oof s2 = false.
Proof. exact cancellations_counter_undercounts. Qed.
Print Assumptions cancellations_counter_is_not_exact.
