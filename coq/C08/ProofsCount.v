(** C08, the private counter _cancellations: it never exceeds the number of cancelled calls that are really
    stored in the heap and the staging list (so compaction never fires without more than 50 such entries),
    but it is NOT equal to that number: compaction zeroes it while cancelled calls created during the same
    iteration still sit in the staging list, after which it undercounts by that many for ever (it can be
    negative).  Nothing observable depends on it (see design.d/C08.md). *)
From Coq Require Import List Arith ZArith Bool Lia Permutation.
From TwLib Require Import TimersCall TimersCallFacts TimersListFacts TimersHeap TimersHeapFacts.
From C08 Require Import Model Proofs.
Import ListNotations.
Local Open Scope Z_scope.

(** number of cancelled calls in a list *)
Definition ncanc (l : list call) : Z := Z.of_nat (length l) - Z.of_nat (length (act l)).
Definition Cnt (s : st) : Prop := cancels s <= ncanc (hp s ++ nw s).

Lemma act_length_le : forall l, (length (act l) <= length l)%nat.
Proof.
  induction l as [|c r IH]; [cbn; lia|]. rewrite act_cons. destruct (active c); cbn [length]; lia.
Qed.

Lemma ncanc_nonneg : forall l, 0 <= ncanc l.
Proof. intros l. unfold ncanc. pose proof (act_length_le l). lia. Qed.

Lemma ncanc_perm : forall l l', Permutation l l' -> ncanc l = ncanc l'.
Proof.
  intros l l' P. unfold ncanc. rewrite (Permutation_length P), (Permutation_length (act_perm _ _ P)). reflexivity.
Qed.

Lemma ncanc_app : forall l l', ncanc (l ++ l') = ncanc l + ncanc l'.
Proof. intros. unfold ncanc. rewrite act_app, !app_length. lia. Qed.

Lemma ncanc_cons : forall c l, ncanc (c :: l) = (if active c then 0 else 1) + ncanc l.
Proof. intros. unfold ncanc. rewrite act_cons. destruct (active c); cbn [length]; lia. Qed.

Lemma ncanc_point_same : forall L1 c c' L2, active c' = active c ->
  ncanc (L1 ++ c' :: L2) = ncanc (L1 ++ c :: L2).
Proof. intros. rewrite !ncanc_app, !ncanc_cons, H. reflexivity. Qed.

Lemma ncanc_point_cancel : forall L1 c c' L2, active c = true -> active c' = false ->
  ncanc (L1 ++ c' :: L2) = ncanc (L1 ++ c :: L2) + 1.
Proof. intros. rewrite !ncanc_app, !ncanc_cons, H, H0. lia. Qed.

Lemma Cnt_emit : forall e s, Cnt s -> Cnt (emit e s).
Proof. intros e s H. exact H. Qed.

(** the heap / staging list after put_back is a permutation of the point update *)
Lemma put_back_lists : forall s i c c' moved dc e,
  place_call (locate i s) = Some c -> cid c' = cid c ->
  exists L1 L2, hp s ++ nw s = L1 ++ c :: L2
    /\ Permutation (hp (put_back s (locate i s) c' moved dc e) ++ nw (put_back s (locate i s) c' moved dc e))
                   (L1 ++ c' :: L2)
    /\ cancels (put_back s (locate i s) c' moved dc e) = cancels s + dc.
Proof.
  intros s i c c' moved dc e Hpl Hid.
  destruct (locate i s) as [p c0|c0|] eqn:El; cbn in Hpl; inversion Hpl; subst c0; cbn [put_back hp nw cancels].
  - destruct (locate_heap _ _ _ _ El) as [Hp [Hc _]].
    destruct (upd_split (hp s) p c' Hp) as [l1 [l2 [E1 E2]]]. rewrite <- Hc in E1.
    exists l1, (l2 ++ nw s). split; [rewrite E1 at 1; rewrite <- app_assoc; reflexivity|]. split; [|reflexivity].
    assert (P : Permutation (if moved then bubble_up ctime dcall p 0 p (upd (hp s) p c') else upd (hp s) p c')
                            (upd (hp s) p c')).
    { destruct moved; [|apply Permutation_refl]. apply bubble_up_perm. rewrite upd_length. exact Hp. }
    eapply perm_trans; [apply Permutation_app_tail; exact P|]. rewrite E2, <- app_assoc. apply Permutation_refl.
  - destruct (locate_new _ _ _ El) as [Hf [_ Hi]].
    destruct (replace_split _ _ _ Hf) as [l1 [l2 [E1 E2]]].
    exists (hp s ++ l1), l2. split; [rewrite E1 at 1; rewrite <- app_assoc; reflexivity|]. split; [|reflexivity].
    rewrite (E2 c') by congruence. rewrite <- app_assoc. apply Permutation_refl.
Qed.

Lemma place_active : forall s i c, place_call (locate i s) = Some c -> active c = true.
Proof.
  intros s i c Hpl. destruct (locate i s) as [p c0|c0|] eqn:El; cbn in Hpl; inversion Hpl; subst.
  - apply (locate_heap _ _ _ _ El).
  - apply (locate_new _ _ _ El).
Qed.

Lemma Cnt_exec_bop : forall s b, Cnt s -> Cnt (exec_bop s b).
Proof.
  intros s b H. unfold Cnt in *. destruct b as [d|i|i x|i x| |]; cbn [exec_bop]; try exact H.
  - (* callLater *)
    cbn [hp nw cancels]. rewrite (app_assoc (hp s) (nw s)), ncanc_app, ncanc_cons. cbn [active ccanc negb].
    change (ncanc []) with 0. lia.
  - (* cancel *)
    destruct (place_call (locate i s)) as [c|] eqn:Hpl; [|exact H].
    destruct (put_back_lists s i c (set_canc c) false 1 (ECancel i) Hpl eq_refl) as [L1 [L2 [E1 [P E2]]]].
    rewrite E2, (ncanc_perm _ _ P), (ncanc_point_cancel L1 c (set_canc c) L2 (place_active _ _ _ Hpl) eq_refl), <- E1. lia.
  - (* reset *)
    destruct (place_call (locate i s)) as [c|] eqn:Hpl; [|exact H].
    destruct (reset_shape (now s) x c) as [R1 [R2 _]].
    destruct (put_back_lists s i c (fst (do_reset (now s) x c)) (snd (do_reset (now s) x c)) 0
                             (EReset i (getTime (fst (do_reset (now s) x c)))) Hpl R1) as [L1 [L2 [E1 [P E2]]]].
    rewrite E2, (ncanc_perm _ _ P), (ncanc_point_same L1 c _ L2), <- E1; [lia|]. unfold active. rewrite R2. reflexivity.
  - (* delay *)
    destruct (place_call (locate i s)) as [c|] eqn:Hpl; [|exact H].
    destruct (delay_shape x c) as [R1 [R2 _]].
    destruct (put_back_lists s i c (fst (do_delay x c)) (snd (do_delay x c)) 0
                             (EDelay i (getTime (fst (do_delay x c)))) Hpl R1) as [L1 [L2 [E1 [P E2]]]].
    rewrite E2, (ncanc_perm _ _ P), (ncanc_point_same L1 c _ L2), <- E1; [lia|]. unfold active. rewrite R2. reflexivity.
Qed.

Lemma Cnt_exec_body : forall bs s, Cnt s -> Cnt (fst (run_body exec_bop bs s)).
Proof. intros bs s H. apply (run_body_inv st exec_bop Cnt Cnt_exec_bop). exact H. Qed.

(** _insertNewDelayedCalls *)
Lemma insert_fold_cnt : forall l h k, heap ctime dcall h ->
  let r := fold_left insert_one l (h, k) in
  heap ctime dcall (fst r) /\ ncanc (fst r) = ncanc h /\ snd r = k - ncanc l.
Proof.
  induction l as [|c r IH]; intros h k Hh; cbn [fold_left].
  - cbn. unfold ncanc. cbn. split; [exact Hh|]. split; [reflexivity | lia].
  - assert (E : insert_one (h, k) c
                = if ccanc c then (h, k - 1) else (heappush ctime dcall h (activate c), k)) by reflexivity.
    rewrite E. clear E. rewrite ncanc_cons. unfold active. destruct (ccanc c) eqn:Ec; cbn [negb].
    + destruct (IH h (k - 1) Hh) as [A1 [A2 A3]]. split; [exact A1|]. split; [exact A2 | lia].
    + destruct (heappush_spec call ctime dcall h (activate c) Hh) as [Pp Hp].
      destruct (IH (heappush ctime dcall h (activate c)) k Hp) as [A1 [A2 A3]].
      split; [exact A1|]. split; [|lia]. rewrite A2, (ncanc_perm _ _ Pp), ncanc_cons.
      unfold active, activate. cbn. rewrite Ec. cbn. lia.
Qed.

Lemma Cnt_insert_new : forall s, Inv s -> Cnt s -> Cnt (insert_new s).
Proof.
  intros s HI H. unfold Cnt, insert_new in *. cbn [hp nw cancels].
  destruct (insert_fold_cnt (nw s) (hp s) (cancels s) (inv_heap _ HI)) as [_ [A2 A3]].
  rewrite app_nil_r, A2, A3. rewrite ncanc_app in H. lia.
Qed.

Section WithBody.
  Variable body : nat -> list bop.

  Lemma Cnt_after_pop : forall tnow s top t c h', Inv s -> Cnt s ->
    hp s = top :: t -> heappop ctime dcall (top :: t) = Some (c, h') -> Cnt (after_pop body tnow s c h').
  Proof.
    intros tnow s top t c h' HI H Eh Ep. unfold Cnt in *.
    pose proof (inv_heap _ HI) as Hh. rewrite Eh in Hh.
    destruct (heappop_spec call ctime dcall _ _ _ Hh Ep) as [Pp [Hh' _]].
    assert (E : ncanc (hp s ++ nw s) = (if active c then 0 else 1) + ncanc (h' ++ nw s)).
    { rewrite Eh, !ncanc_app, <- (ncanc_perm _ _ Pp), ncanc_cons. lia. }
    unfold after_pop. unfold active in E. destruct (ccanc c) eqn:Ec; cbn [negb] in E.
    - cbn [hp nw cancels]. lia.
    - destruct (0 <? cdelay c).
      + cbn [hp nw cancels]. destruct (heappush_spec call ctime dcall h' (activate c) Hh') as [Pq _].
        assert (Ea : active (activate c) = true) by (unfold active, activate; cbn [ccanc]; rewrite Ec; reflexivity).
        rewrite ncanc_app, (ncanc_perm _ _ Pq), ncanc_cons, Ea. rewrite (ncanc_app h') in E. lia.
      + cbn zeta. apply Cnt_emit. apply Cnt_exec_body. unfold Cnt. cbn [hp nw cancels]. lia.
  Qed.

  Lemma Cnt_loop : forall fuel tnow s, Inv s -> Cnt s -> Cnt (loop body fuel tnow s).
  Proof.
    induction fuel as [|f IH]; intros tnow s HI H.
    - cbn [loop]. destruct (hp s) as [|top t] eqn:Eh; [exact H|].
      destruct (ctime top <=? tnow); [|exact H]. unfold Cnt in *. cbn [hp nw cancels]. rewrite Eh in H. exact H.
    - destruct (hp s) as [|top t] eqn:Eh; [cbn [loop]; rewrite Eh; exact H|].
      destruct (ctime top <=? tnow) eqn:Edue; [|cbn [loop]; rewrite Eh, Edue; exact H].
      destruct (heappop ctime dcall (top :: t)) as [[c h']|] eqn:Ep; [|apply heappop_none in Ep; discriminate].
      rewrite (loop_unfold body f tnow s top t c h' Eh Edue Ep). apply IH.
      + apply (Inv_after_pop body tnow s top t c h' HI Eh); [apply Z.leb_le; exact Edue | exact Ep].
      + apply (Cnt_after_pop tnow s top t c h' HI H Eh Ep).
  Qed.

  Lemma Cnt_compact : forall s, Cnt s -> Cnt (compact s).
  Proof.
    intros s H. unfold compact. destruct (_ && _)%bool; [|exact H].
    unfold Cnt. cbn [hp nw cancels]. apply ncanc_nonneg.
  Qed.

  Lemma Cnt_step : forall fuel s o, Inv s -> Cnt s -> Cnt (step body fuel s o).
  Proof.
    intros fuel s o HI H. destruct o as [b|a| |L]; cbn [step].
    - apply Cnt_exec_bop. exact H.
    - exact H.
    - unfold run_until_current. apply Cnt_emit. apply Cnt_compact. apply Cnt_loop.
      + apply Inv_emit_plain; cbn; auto. apply Inv_insert_new. exact HI.
      + apply Cnt_emit. apply Cnt_insert_new; assumption.
    - unfold timeout. pose proof (Cnt_insert_new s HI H) as H1.
      destruct (hp (insert_new s)); apply Cnt_emit; exact H1.
  Qed.

  Lemma reach_cnt : forall fuel ops, let s := run body fuel init ops in
    cancels s <= ncanc (hp s ++ nw s).
  Proof.
    intros fuel ops. cbn zeta. unfold run.
    assert (G : forall ops s, Inv s -> Cnt s -> Cnt (fold_left (step body fuel) ops s)).
    { induction ops0 as [|o r IH]; cbn; intros s HI H; [exact H|].
      apply IH; [apply Inv_step; exact HI | apply Cnt_step; assumption]. }
    apply G; [apply Inv_init|]. unfold Cnt. cbn. unfold ncanc. cbn. lia.
  Qed.
End WithBody.

(** the counter is not exact: a running call schedules a call and cancels it at once, in an iteration that
    ends with compaction; the cancelled call is still staged when the counter is zeroed, and the next
    _insertNewDelayedCalls takes the counter to -1 *)
Definition cnt_body (i : nat) : list bop :=
  match i with 60%nat => [BCallLater 50; BCancel 61] | _ => [] end.
Definition cnt_ops : list op :=
  map (fun _ => Do (BCallLater 40)) (seq 0 60) ++ [Do (BCallLater 3); RunUntilCurrent]
  ++ map (fun i => Do (BCancel i)) (seq 0 52) ++ [Adv 3; RunUntilCurrent].

Lemma cancellations_counter_undercounts :
  let s1 := run cnt_body 400 init cnt_ops in
  let s2 := step cnt_body 400 s1 RunUntilCurrent in
  (cancels s1 = 0 /\ ncanc (hp s1 ++ nw s1) = 1 /\ length (hp s1) = 8%nat)   (* compacted; cancelled #61 still staged *)
  /\ (cancels s2 = -1 /\ ncanc (hp s2 ++ nw s2) = 0) /\ oof s2 = false.
Proof. vm_compute. repeat split. Qed.
