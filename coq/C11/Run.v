(** C11: printers used by the correspondence check only. *)
From Coq Require Import List Arith Bool String.
From TwLib Require Import Show.
From C11 Require Import Model.
Import ListNotations.
Local Open Scope string_scope.

Definition show_result (r : result) : string :=
  match r with
  | RIter => "I" | RStopped => "S" | RSched => "X" | RRaised => "R"
  | RDef j => "F" ++ show_nat j
  end.

Definition show_exc (x : exc) : string :=
  match x with XDone => "!D" | XStopped => "!S" | XFailed => "!F" | XSched => "!X" | XNotPaused => "!N" end.

(** ghost parts of the log (EReq, the snapshot inside EAdv) are not printed *)
Definition show_ev (e : ev) : string :=
  match e with
  | EOp => "/"
  | EAdv t _ _ _ _ => "a" ++ show_nat t ++ ";"
  | EReq _ _ => ""
  | EDone k r => "d" ++ show_nat k ++ ":" ++ show_result r ++ ";"
  | ESched => "s;"
  | ECancel => "c;"
  | EExc x => show_exc x ++ ";"
  | EDefErr j => "e" ++ show_nat j ++ ";"
  | EApp _ | ERem _ | EClear => ""
  end.

Definition show_final (s : st) : string :=
  String.concat "," (map (fun t => match comp (tk s t) with None => "-" | Some (_, r) => show_result r end)
                         (seq 0 (ntasks s))).

Definition run_show (c : bool * list op) : string :=
  let '(started0, ops) := c in
  let s := run (init started0) ops in
  String.concat "" (map show_ev (trace s)) ++ " |" ++ show_final s.
