(** C11 property theorems: for either `started` flag and EVERY history of cooperate / coiterate /
    whenDone / pause / resume / stop / scheduler ticks (any unit budget) / Deferred firings /
    Cooperator.stop / Cooperator.start on the model of the repaired task.py. *)
From Coq Require Import List Arith Bool.
From TwLib Require Import PyListIter.
From C11 Require Import Model Proofs.
Import ListNotations.

(** next() is only ever called on the iterator of a task whose pause count is 0 and that has not
    finished (completed, failed, stopped): the ghost snapshot inside every advance event says so *)
Theorem never_advanced_unless_runnable : forall b ops t p inc nw up,
  In (EAdv t p inc nw up) (trace (run (init b) ops)) -> p = 0 /\ inc = true.
Proof. exact never_advanced_unless_runnable_lemma. Qed.
Print Assumptions never_advanced_unless_runnable.

(** Cooperator._tasks holds exactly the runnable tasks (pause count 0, not finished), each once *)
Theorem scheduler_list_is_exactly_the_runnable_tasks : forall b ops,
  let s := run (init b) ops in
  NoDup (tasks s) /\ forall t, In t (tasks s) <-> runnable s t = true.
Proof. exact listed_iff_runnable_lemma. Qed.
Print Assumptions scheduler_list_is_exactly_the_runnable_tasks.

(** every whenDone()/coiterate() Deferred ever requested has fired exactly once if its task has
    finished and not at all otherwise (then it is still registered with the task); every firing carries
    the task's completion result *)
Theorem whenDone_fires_exactly_once : forall b ops k t,
  let s := run (init b) ops in
  In (EReq k t) (trace s) ->
  fired_count k (trace s) = (if finished s t then 1 else 0)
  /\ (forall r, In (EDone k r) (trace s) -> exists c, comp (tk s t) = Some (c, r))
  /\ (finished s t = false -> In k (dl (tk s t))).
Proof. exact whenDone_lemma. Qed.
Print Assumptions whenDone_fires_exactly_once.

(** Cooperator.stop() after any history: nothing stays listed or scheduled and EVERY runnable task is
    completed with SchedulerStopped (with the theorem above: each of their Deferreds fires, once) *)
Theorem coop_stop_completes_all : forall b ops,
  let s := run (init b) ops in
  let s' := step s CoopStop in
  tasks s' = [] /\ delayed s' = false /\ stopped s' = true
  /\ forall t, runnable s t = true -> comp (tk s' t) = Some (CSched, RSched).
Proof. exact coop_stop_lemma. Qed.
Print Assumptions coop_stop_completes_all.

(** pause() / stop() on a finished task raise the exception class of the way it finished and change
    nothing else; whenDone() on it returns an already-fired Deferred with the completion result *)
Theorem finished_ops_raise_matching_TaskFinished : forall s t c r,
  has t (emit EOp s) = true -> comp (tk s t) = Some (c, r) ->
  step s (Pause t) = emit (EExc (exc_of c)) (emit EOp s)
  /\ step s (Stop t) = emit (EExc (exc_of c)) (emit EOp s)
  /\ out (step s (WhenDone t)) = EDone (nextd s) r :: EReq (nextd s) t :: EOp :: out s.
Proof. exact finished_ops_lemma. Qed.
Print Assumptions finished_ops_raise_matching_TaskFinished.

Theorem resume_of_unpaused_task_raises_NotPaused : forall s t,
  has t (emit EOp s) = true -> pc (tk s t) = 0 -> step s (Resume t) = emit (EExc XNotPaused) (emit EOp s).
Proof. exact resume_not_paused_lemma. Qed.
Print Assumptions resume_of_unpaused_task_raises_NotPaused.

(** CPython semantics of `for x in l: l.remove(x)` (the pinned Cooperator.stop through _completeWith /
    _removeTask): exactly the elements at even positions are visited, the odd ones stay in the list *)
Theorem iterating_a_list_while_removing_visits_every_second : forall l,
  NoDup l -> for_removing (length l) l 0 = (evens l, odds l).
Proof. exact for_removing_all. Qed.
Print Assumptions iterating_a_list_while_removing_visits_every_second.

(** ... so with three runnable tasks the pinned loop never completes the middle one and its whenDone
    Deferred never fires (finding F2), whereas the repaired loop (the model above) completes it *)
Theorem coop_stop_unpatched_skips_a_task :
  let s := run (init true) f2_history in
  runnable s 1 = true /\ comp (tk (coop_stop_unpatched s) 1) = None
  /\ fired_count 0 (trace (coop_stop_unpatched s)) = 0
  /\ comp (tk (coop_stop s) 1) = Some (CSched, RSched) /\ fired_count 0 (trace (coop_stop s)) = 1.
Proof. exact unpatched_stop_skips_lemma. Qed.
Print Assumptions coop_stop_unpatched_skips_a_task.

(** the hypotheses are inhabited by a non-trivial history *)
Theorem sample_history_is_nontrivial :
  let s := run (init true) sample_history in
  In (EAdv 1 0 true 0 0) (trace s) /\ In (EReq 0 1) (trace s) /\ In (EDone 0 RIter) (trace s)
  /\ In (EDone 2 RRaised) (trace s) /\ finished s 0 = true /\ misuse s = false.
Proof. exact sample_history_nontrivial. Qed.
Print Assumptions sample_history_is_nontrivial.

(* NOT proved here (see design.d/C11.md): bounded_wait (no runnable task is starved) and
   "a call is scheduled exactly when a runnable task exists" are checked on the implementation by
   the oracle of harness/c11.py and through the correspondence only. *)
