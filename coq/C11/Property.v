(** C11 property theorems: for either `started` flag and EVERY history of cooperate / coiterate /
    whenDone / pause / resume / stop / scheduler ticks (any unit budget) / Deferred firings /
    Cooperator.stop / Cooperator.start on the model of the repaired task.py. *)
From Coq Require Import List Arith Bool.
From TwLib Require Import PyListIter PyListIterFair.
From C11 Require Import Model Proofs Proofs2.
Import ListNotations.

(** next() is only ever called on the iterator of a task whose pause count is 0 and that has not
    finished (completed, failed, stopped): the ghost snapshot inside every advance event says so *)
Theorem never_advanced_unless_runnable : forall b ops t p inc nw up,
  In (EAdv t p inc nw up) (trace (run (init b) ops)) -> p = 0 /\ inc = true.
Proof. exact never_advanced_unless_runnable_lemma. Qed.
Print Assumptions never_advanced_unless_runnable.

(** Cooperator._tasks holds exactly the runnable tasks (pause count 0, not finished), each once *)
Theorem scheduler_list_is_exactly_the_runnable_tasks : forall b ops,
  let s := run (init b) ops in
  NoDup (tasks s) /\ forall t, In t (tasks s) <-> runnable s t = true.
Proof. exact listed_iff_runnable_lemma. Qed.
Print Assumptions scheduler_list_is_exactly_the_runnable_tasks.

(** every whenDone()/coiterate() Deferred ever requested has fired exactly once if its task has
    finished and not at all otherwise (then it is still registered with the task); every firing carries
    the task's completion result *)
Theorem whenDone_fires_exactly_once : forall b ops k t,
  let s := run (init b) ops in
  In (EReq k t) (trace s) ->
  fired_count k (trace s) = (if finished s t then 1 else 0)
  /\ (forall r, In (EDone k r) (trace s) -> exists c, comp (tk s t) = Some (c, r))
  /\ (finished s t = false -> In k (dl (tk s t))).
Proof. exact whenDone_lemma. Qed.
Print Assumptions whenDone_fires_exactly_once.

(** Cooperator.stop() after any history: nothing stays listed or scheduled and EVERY runnable task is
    completed with SchedulerStopped (with the theorem above: each of their Deferreds fires, once) *)
Theorem coop_stop_completes_all : forall b ops,
  let s := run (init b) ops in
  let s' := step s CoopStop in
  tasks s' = [] /\ delayed s' = false /\ stopped s' = true
  /\ forall t, runnable s t = true -> comp (tk s' t) = Some (CSched, RSched).
Proof. exact coop_stop_lemma. Qed.
Print Assumptions coop_stop_completes_all.

(** pause() / stop() on a finished task raise the exception class of the way it finished and change
    nothing else; whenDone() on it returns an already-fired Deferred with the completion result *)
Theorem finished_ops_raise_matching_TaskFinished : forall s t c r,
  has t (emit EOp s) = true -> comp (tk s t) = Some (c, r) ->
  step s (Pause t) = emit (EExc (exc_of c)) (emit EOp s)
  /\ step s (Stop t) = emit (EExc (exc_of c)) (emit EOp s)
  /\ out (step s (WhenDone t)) = EDone (nextd s) r :: EReq (nextd s) t :: EOp :: out s.
Proof. exact finished_ops_lemma. Qed.
Print Assumptions finished_ops_raise_matching_TaskFinished.

Theorem resume_of_unpaused_task_raises_NotPaused : forall s t,
  has t (emit EOp s) = true -> pc (tk s t) = 0 -> step s (Resume t) = emit (EExc XNotPaused) (emit EOp s).
Proof. exact resume_not_paused_lemma. Qed.
Print Assumptions resume_of_unpaused_task_raises_NotPaused.

(** CPython semantics of `for x in l: l.remove(x)` (the pinned Cooperator.stop through _completeWith /
    _removeTask): exactly the elements at even positions are visited, the odd ones stay in the list *)
Theorem iterating_a_list_while_removing_visits_every_second : forall l,
  NoDup l -> for_removing (length l) l 0 = (evens l, odds l).
Proof. exact for_removing_all. Qed.
Print Assumptions iterating_a_list_while_removing_visits_every_second.

(** ... so with three runnable tasks the pinned loop never completes the middle one and its whenDone
    Deferred never fires (finding F2), whereas the repaired loop (the model above) completes it *)
Theorem coop_stop_unpatched_skips_a_task :
  let s := run (init true) f2_history in
  runnable s 1 = true /\ comp (tk (coop_stop_unpatched s) 1) = None
  /\ fired_count 0 (trace (coop_stop_unpatched s)) = 0
  /\ comp (tk (coop_stop s) 1) = Some (CSched, RSched) /\ fired_count 0 (trace (coop_stop s)) = 1.
Proof. exact unpatched_stop_skips_lemma. Qed.
Print Assumptions coop_stop_unpatched_skips_a_task.

(** the hypotheses are inhabited by a non-trivial history *)
Theorem sample_history_is_nontrivial :
  let s := run (init true) sample_history in
  In (EAdv 1 0 true 0 0) (trace s) /\ In (EReq 0 1) (trace s) /\ In (EDone 0 RIter) (trace s)
  /\ In (EDone 2 RRaised) (trace s) /\ finished s 0 = true /\ misuse s = false.
Proof. exact sample_history_nontrivial. Qed.
Print Assumptions sample_history_is_nontrivial.

(** between API calls a call of _tick is scheduled EXACTLY when some task is runnable (once the cooperator
    has been started); nothing is ever scheduled before start() *)
Theorem a_call_is_scheduled_exactly_when_a_task_is_runnable : forall b ops,
  let s := run (init b) ops in
  (started s = true -> (delayed s = true <-> exists t, runnable s t = true))
  /\ (started s = false -> delayed s = false).
Proof. exact scheduled_iff_runnable_lemma. Qed.
Print Assumptions a_call_is_scheduled_exactly_when_a_task_is_runnable.

(** histories in which every resume() matched an earlier pause() ([misuse] stays false): at every next() the task
    had no outstanding user pause and NO yielded Deferred still pending (ghost snapshot in the advance event);
    the pending count is exactly the number of its callbacks still waiting on unfired Deferreds, and for every
    unfinished task  _pauseCount = user pauses + pending yielded Deferreds *)
Theorem never_advanced_while_paused_or_waiting_on_a_yielded_Deferred : forall b ops,
  let s := run (init b) ops in
  misuse s = false ->
  (forall t p inc nw up, In (EAdv t p inc nw up) (trace s) -> nw = 0 /\ up = 0)
  /\ (forall t, nwait (tk s t) = nwaits t (dwait s))
  /\ (forall t, comp (tk s t) = None -> pc (tk s t) = upause (tk s t) + nwait (tk s t)).
Proof. exact never_advanced_while_waiting_lemma. Qed.
Print Assumptions never_advanced_while_paused_or_waiting_on_a_yielded_Deferred.

(** the ghost list events of the log (append / remove / clear / next claimed by each advance) replayed on the
    abstract round-robin machine of TwLib.PyListIterFair give exactly `_tasks` and the `_metarator` index, and
    every advance in the log is what that machine's next() yields *)
Theorem task_list_and_metarator_follow_the_logged_list_events : forall b ops,
  let s := run (init b) ops in
  aafter a0 (alog s) = (tasks s, meta s) /\ consistent a0 (alog s).
Proof. exact ghost_log_is_the_scheduler_lemma. Qed.
Print Assumptions task_list_and_metarator_follow_the_logged_list_events.

(** BOUNDED WAIT (no starvation).  Cut the ghost log of ANY history anywhere: [older] happened before, [seg] (newest
    first) is a stretch after it.  If task t is listed at the cut and throughout [seg] is neither removed from
    `_tasks` (not paused, not finished, no Cooperator.stop) nor advanced, then the number of work units done in
    [seg] is at most  N * (1 + removals) + appends,  N = (tasks listed at the cut) + appends. *)
Theorem bounded_wait : forall b ops seg older t,
  alog (run (init b) ops) = seg ++ older ->
  In t (fst (aafter a0 older)) ->
  Forall (undisturbed t) seg ->
  count_next seg <= (length (fst (aafter a0 older)) + count_app seg) * (1 + count_rem seg) + count_app seg.
Proof. exact bounded_wait_lemma. Qed.
Print Assumptions bounded_wait.

(** ... the same for every log of the abstract machine, not only those the model produces *)
Theorem bounded_wait_of_round_robin_over_a_live_list : forall t s0 o,
  In t (fst s0) -> Forall (undisturbed t) o -> consistent s0 o ->
  count_next o <= (length (fst s0) + count_app o) * (1 + count_rem o) + count_app o.
Proof. exact PyListIterFair.bounded_wait. Qed.
Print Assumptions bounded_wait_of_round_robin_over_a_live_list.

Theorem bounded_wait_hypotheses_are_inhabited :
  let s := run (init true) bw_history in
  let older := alog (run (init true) (firstn 3 bw_history)) in
  let seg := firstn (length (alog s) - length older) (alog s) in
  alog s = seg ++ older /\ In 2 (fst (aafter a0 older)) /\ Forall (undisturbed 2) seg /\ count_next seg = 2.
Proof. exact bounded_wait_inhabited. Qed.
Print Assumptions bounded_wait_hypotheses_are_inhabited.
