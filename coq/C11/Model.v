(** C11: task.Cooperator / task.CooperativeTask (src/twisted/internet/task.py) as a step
    function over histories of API calls, with the cooperator's `_metarator` as an explicit
    CPython list iterator (index into the live `_tasks` list, TwLib.PyListIter).

    The model is of the REPAIRED code (fixes/C11-coop-stop-copy.patch: Cooperator.stop iterates a
    copy of `_tasks`; fixes/C11-faillater-after-finish.patch: a yielded Deferred that fails after
    the task has finished no longer completes the task a second time).  [coop_stop_unpatched]
    below is the loop of the pinned code, kept only to state what was wrong with it.

    Tasks are numbered in creation order; the iterator of a task is a script of actions
    (StopIteration when the script is exhausted); Deferreds yielded by iterators are external,
    numbered, and fired by the history ([Fire j ok]); whenDone()/coiterate() Deferreds are
    numbered in request order.  The event log [out] (newest first) is the ghost history the
    theorems talk about; its printable part is what the correspondence check compares. *)
From Coq Require Import List Arith Bool.
From TwLib Require Import PyListIter.
Import ListNotations.

Inductive action := AYield | AYieldDef (j : nat) | ARaise.
Inductive cstate := CDone | CStopped | CFailed | CSched.
Inductive result := RIter | RStopped | RSched | RRaised | RDef (j : nat).
Inductive exc := XDone | XStopped | XFailed | XSched | XNotPaused.
Inductive dstate := DUnfired | DOk | DFail.

Inductive op :=
| Add (scr : list action) (co : bool)   (* cooperate(it) / coiterate(it) *)
| WhenDone (t : nat)
| Pause (t : nat)
| Resume (t : nat)
| Stop (t : nat)
| Tick (n : nat)                        (* run the scheduled _tick; terminator true after n units *)
| Fire (j : nat) (ok : bool)            (* callback / errback external Deferred j *)
| CoopStop
| CoopStart.

Inductive ev :=
| EOp                                   (* marker: next operation of the history begins *)
| EAdv (t : nat) (pc0 : nat) (incomplete : bool) (nw up : nat)
                                        (* next() called on t's iterator; ghost: t's pause count,
                                           "not finished", #unfired Deferreds it waits on, #user pauses *)
| EReq (k t : nat)                      (* ghost: whenDone Deferred k requested of task t *)
| EDone (k : nat) (r : result)          (* whenDone Deferred k fired with r *)
| ESched                                (* scheduler(self._tick) called *)
| ECancel                               (* the delayed call cancelled *)
| EExc (x : exc)                        (* the operation raised x *)
| EDefErr (j : nat)                     (* resume() raised NotPaused inside Deferred j's callback *)
| EApp (t : nat)                        (* ghost: _tasks.append(t) *)
| ERem (t : nat)                        (* ghost: _tasks.remove(t) *)
| EClear.                               (* ghost: _tasks is (found) empty and _metarator restarts *)

Record task := mkT {
  script : list action;
  pc : nat;                             (* _pauseCount *)
  comp : option (cstate * result);      (* _completionState / _completionResult *)
  dl : list nat;                        (* _deferreds (never cleared, as in the code) *)
  upause : nat;                         (* ghost: user pause() calls not yet resumed *)
  nwait : nat;                          (* ghost: yielded Deferreds not yet fired *)
  handle : bool                         (* false for coiterate(): no CooperativeTask handle *)
}.

Record st := mkS {
  tasks : list nat;                     (* Cooperator._tasks *)
  meta : nat;                           (* index of Cooperator._metarator into _tasks *)
  delayed : bool;                       (* _delayedCall is not None *)
  stopped : bool;
  started : bool;
  must : bool;                          (* _mustScheduleOnStart *)
  ntasks : nat;
  tk : nat -> task;
  defs : nat -> dstate;
  dwait : list (nat * nat);             (* (Deferred j, task t): t's callbacks are on j *)
  nextd : nat;                          (* next whenDone Deferred id *)
  misuse : bool;                        (* ghost: resume() was called without a matching pause() *)
  out : list ev
}.

Definition upd {A} (f : nat -> A) (i : nat) (v : A) : nat -> A :=
  fun j => if Nat.eqb j i then v else f j.

(* ---- field setters ---- *)
Definition set_tasks v s := mkS v (meta s) (delayed s) (stopped s) (started s) (must s) (ntasks s) (tk s) (defs s) (dwait s) (nextd s) (misuse s) (out s).
Definition set_meta v s := mkS (tasks s) v (delayed s) (stopped s) (started s) (must s) (ntasks s) (tk s) (defs s) (dwait s) (nextd s) (misuse s) (out s).
Definition set_delayed v s := mkS (tasks s) (meta s) v (stopped s) (started s) (must s) (ntasks s) (tk s) (defs s) (dwait s) (nextd s) (misuse s) (out s).
Definition set_stopped v s := mkS (tasks s) (meta s) (delayed s) v (started s) (must s) (ntasks s) (tk s) (defs s) (dwait s) (nextd s) (misuse s) (out s).
Definition set_started v s := mkS (tasks s) (meta s) (delayed s) (stopped s) v (must s) (ntasks s) (tk s) (defs s) (dwait s) (nextd s) (misuse s) (out s).
Definition set_must v s := mkS (tasks s) (meta s) (delayed s) (stopped s) (started s) v (ntasks s) (tk s) (defs s) (dwait s) (nextd s) (misuse s) (out s).
Definition set_ntasks v s := mkS (tasks s) (meta s) (delayed s) (stopped s) (started s) (must s) v (tk s) (defs s) (dwait s) (nextd s) (misuse s) (out s).
Definition set_tk v s := mkS (tasks s) (meta s) (delayed s) (stopped s) (started s) (must s) (ntasks s) v (defs s) (dwait s) (nextd s) (misuse s) (out s).
Definition set_defs v s := mkS (tasks s) (meta s) (delayed s) (stopped s) (started s) (must s) (ntasks s) (tk s) v (dwait s) (nextd s) (misuse s) (out s).
Definition set_dwait v s := mkS (tasks s) (meta s) (delayed s) (stopped s) (started s) (must s) (ntasks s) (tk s) (defs s) v (nextd s) (misuse s) (out s).
Definition set_nextd v s := mkS (tasks s) (meta s) (delayed s) (stopped s) (started s) (must s) (ntasks s) (tk s) (defs s) (dwait s) v (misuse s) (out s).
Definition set_misuse v s := mkS (tasks s) (meta s) (delayed s) (stopped s) (started s) (must s) (ntasks s) (tk s) (defs s) (dwait s) (nextd s) v (out s).
Definition emit e s := mkS (tasks s) (meta s) (delayed s) (stopped s) (started s) (must s) (ntasks s) (tk s) (defs s) (dwait s) (nextd s) (misuse s) (e :: out s).

Definition t_script v t := mkT v (pc t) (comp t) (dl t) (upause t) (nwait t) (handle t).
Definition t_pc v t := mkT (script t) v (comp t) (dl t) (upause t) (nwait t) (handle t).
Definition t_comp v t := mkT (script t) (pc t) v (dl t) (upause t) (nwait t) (handle t).
Definition t_dl v t := mkT (script t) (pc t) (comp t) v (upause t) (nwait t) (handle t).
Definition t_upause v t := mkT (script t) (pc t) (comp t) (dl t) v (nwait t) (handle t).
Definition t_nwait v t := mkT (script t) (pc t) (comp t) (dl t) (upause t) v (handle t).

Definition upd_task (t : nat) (f : task -> task) (s : st) : st := set_tk (upd (tk s) t (f (tk s t))) s.

Definition is_nil {A} (l : list A) : bool := match l with [] => true | _ => false end.
Definition is_none {A} (o : option A) : bool := match o with None => true | _ => false end.

Definition exc_of (c : cstate) : exc :=
  match c with CDone => XDone | CStopped => XStopped | CFailed => XFailed | CSched => XSched end.

(* ---- Cooperator._reschedule / _removeTask ---- *)
Definition reschedule (s : st) : st :=
  if negb (started s) then set_must true s
  else if negb (delayed s) && negb (is_nil (tasks s)) then emit ESched (set_delayed true s)
  else s.

Definition remove_task (t : nat) (s : st) : st :=
  let s1 := emit (ERem t) (set_tasks (remove_first t (tasks s)) s) in
  if is_nil (tasks s1) && delayed s1 then emit ECancel (set_delayed false s1) else s1.

(* ---- CooperativeTask._completeWith ---- *)
Definition fire_all (ks : list nat) (r : result) (s : st) : st :=
  fold_left (fun s k => emit (EDone k r) s) ks s.

Definition complete (t : nat) (c : cstate) (r : result) (s : st) : st :=
  let s1 := upd_task t (t_comp (Some (c, r))) s in
  let s2 := if Nat.eqb (pc (tk s1 t)) 0 then remove_task t s1 else s1 in
  fire_all (dl (tk s2 t)) r s2.

(* ---- Cooperator._addTask ---- *)
Definition add_task (t : nat) (s : st) : st :=
  let s1 := emit (EApp t) (set_tasks (tasks s ++ [t]) s) in
  if stopped s then complete t CSched RSched s1 else reschedule s1.

(* CooperativeTask.resume() once _pauseCount > 0 is known *)
Definition resume_body (t : nat) (s : st) : st :=
  let s1 := upd_task t (fun x => t_pc (pred (pc x)) x) s in
  if Nat.eqb (pc (tk s1 t)) 0 && is_none (comp (tk s1 t)) then add_task t s1 else s1.

(* CooperativeTask.pause() once _checkFinish passed *)
Definition pause_body (t : nat) (s : st) : st :=
  let s1 := upd_task t (fun x => t_pc (S (pc x)) x) s in
  if Nat.eqb (pc (tk s1 t)) 1 then remove_task t s1 else s1.

(* failLater (repaired: only a task that is not finished yet is failed) *)
Definition faillater (t j : nat) (s : st) : st :=
  if is_none (comp (tk s t)) then complete t CFailed (RDef j) s else s.

(* ---- CooperativeTask._oneWorkUnit ---- *)
Definition work_unit (t : nat) (s : st) : st :=
  let x := tk s t in
  let s0 := emit (EAdv t (pc x) (is_none (comp x)) (nwait x) (upause x)) s in
  match script x with
  | [] => complete t CDone RIter s0
  | AYield :: r => upd_task t (t_script r) s0
  | ARaise :: r => complete t CFailed RRaised (upd_task t (t_script r) s0)
  | AYieldDef j :: r =>
      let s1 := pause_body t (upd_task t (t_script r) s0) in
      match defs s1 j with
      | DUnfired => upd_task t (fun x => t_nwait (S (nwait x)) x) (set_dwait (dwait s1 ++ [(j, t)]) s1)
      | DOk => resume_body t s1
      | DFail => faillater t j s1
      end
  end.

(* ---- Cooperator._tasksWhileNotStopped: one `next` of the generator after the first ---- *)
Definition next_task (s : st) : option nat * st :=
  match it_next (tasks s) (meta s) with
  | Some (t, i) => (Some t, set_meta i s)
  | None =>                                   (* for-loop over _metarator ends: *)
      match it_next (tasks s) 0 with          (* self._metarator = iter(self._tasks); while self._tasks: *)
      | Some (t, i) => (Some t, set_meta i s)
      | None => (None, set_meta 0 s)
      end
  end.

Fixpoint units (n : nat) (s : st) : st :=
  match n with
  | 0 => s                                    (* terminator() returned true *)
  | S n' =>
      match next_task s with
      | (None, s1) => emit EClear s1
      | (Some t, s1) => units n' (work_unit t s1)
      end
  end.

(* ---- Cooperator._tick, called by the scheduler ---- *)
Definition tick (n : nat) (s : st) : st :=
  if delayed s then
    let s1 := set_delayed false s in
    let s2 := if is_nil (tasks s1) then s1 else units (Nat.max n 1) s1 in
    reschedule s2
  else s.

(* ---- CooperativeTask.whenDone ---- *)
Definition when_done (t : nat) (s : st) : st :=
  let k := nextd s in
  let s1 := emit (EReq k t) (set_nextd (S k) s) in
  match comp (tk s1 t) with
  | None => upd_task t (fun x => t_dl (dl x ++ [k]) x) s1
  | Some (_, r) => emit (EDone k r) s1
  end.

(* ---- firing an external Deferred: run the callbacks the waiting tasks put on it ---- *)
Definition on_fire (j : nat) (ok : bool) (s : st) (p : nat * nat) : st :=
  let t := snd p in
  let s1 := upd_task t (fun x => t_nwait (pred (nwait x)) x) s in
  if ok then
    if Nat.eqb (pc (tk s1 t)) 0 then emit (EDefErr j) s1 else resume_body t s1
  else faillater t j s1.

Definition fire (j : nat) (ok : bool) (s : st) : st :=
  let ws := filter (fun p => Nat.eqb (fst p) j) (dwait s) in
  let s1 := set_dwait (filter (fun p => negb (Nat.eqb (fst p) j)) (dwait s)) s in
  fold_left (on_fire j ok) ws s1.

(* ---- Cooperator.stop (repaired: for taskObj in list(self._tasks)) / start ---- *)
Definition coop_stop (s : st) : st :=
  let s1 := set_stopped true s in
  let s2 := fold_left (fun s t => complete t CSched RSched s) (tasks s1) s1 in
  let s3 := emit EClear (set_meta 0 (set_tasks [] s2)) in   (* self._tasks = []: _metarator is left on the old, now empty list *)
  if delayed s3 then emit ECancel (set_delayed false s3) else s3.

Definition coop_start (s : st) : st :=
  let s1 := set_started true (set_stopped false s) in
  if must s1 then reschedule (set_must false s1) else s1.

Definition has (t : nat) (s : st) : bool := Nat.ltb t (ntasks s) && handle (tk s t).

Definition step (s0 : st) (o : op) : st :=
  let s := emit EOp s0 in
  match o with
  | Add scr co =>
      let t := ntasks s in
      let s1 := set_ntasks (S t) (set_tk (upd (tk s) t (mkT scr 0 None [] 0 0 (negb co))) s) in
      let s2 := add_task t s1 in
      if co then when_done t s2 else s2
  | WhenDone t => if has t s then when_done t s else s
  | Pause t =>
      if has t s then
        match comp (tk s t) with
        | Some (c, _) => emit (EExc (exc_of c)) s
        | None => pause_body t (upd_task t (fun x => t_upause (S (upause x)) x) s)
        end
      else s
  | Resume t =>
      if has t s then
        if Nat.eqb (pc (tk s t)) 0 then emit (EExc XNotPaused) s
        else
          let s1 := if Nat.eqb (upause (tk s t)) 0 then set_misuse true s
                    else upd_task t (fun x => t_upause (pred (upause x)) x) s in
          resume_body t s1
      else s
  | Stop t =>
      if has t s then
        match comp (tk s t) with
        | Some (c, _) => emit (EExc (exc_of c)) s
        | None => complete t CStopped RStopped s
        end
      else s
  | Tick n => tick n s
  | Fire j ok =>
      match defs s j with
      | DUnfired => fire j ok (set_defs (upd (defs s) j (if ok then DOk else DFail)) s)
      | _ => s
      end
  | CoopStop => coop_stop s
  | CoopStart => coop_start s
  end.

Definition run (s : st) (ops : list op) : st := fold_left step ops s.

(* slots of tasks that do not exist yet are inert (finished, paused, no handle) *)
Definition dummy_task : task := mkT [] 1 (Some (CDone, RIter)) [] 0 0 false.
Definition init (started0 : bool) : st :=
  mkS [] 0 false false started0 false 0 (fun _ => dummy_task) (fun _ => DUnfired) [] 0 false [].

(** ---- the loop of the pinned (unpatched) Cooperator.stop: `for taskObj in self._tasks` while
    _completeWith removes taskObj from that very list ---- *)
Fixpoint stop_loop_unpatched (fuel i : nat) (s : st) : st :=
  match fuel with
  | 0 => s
  | S f =>
      match it_next (tasks s) i with
      | None => s
      | Some (t, i') => stop_loop_unpatched f i' (complete t CSched RSched s)
      end
  end.

Definition coop_stop_unpatched (s : st) : st :=
  let s1 := set_stopped true s in
  let s2 := stop_loop_unpatched (length (tasks s1)) 0 s1 in
  let s3 := set_tasks [] s2 in
  if delayed s3 then emit ECancel (set_delayed false s3) else s3.

(** ---- ghost readings of the log ---- *)
Definition trace (s : st) : list ev := rev (out s).

Definition fired_count (k : nat) (l : list ev) : nat :=
  length (filter (fun e => match e with EDone k' _ => Nat.eqb k' k | _ => false end) l).

Definition finished (s : st) (t : nat) : bool := negb (is_none (comp (tk s t))).
Definition runnable (s : st) (t : nat) : bool := Nat.eqb (pc (tk s t)) 0 && is_none (comp (tk s t)).
