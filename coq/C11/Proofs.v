(** C11: invariants of the Cooperator model over every history.
    Part 1: the `_tasks` list holds exactly the runnable tasks, once each ([inv1]). *)
From Coq Require Import List Arith Bool Lia.
From TwLib Require Import PyListIter.
From C11 Require Import Model.
Import ListNotations.

Lemma upd_same {A} (f : nat -> A) i v : upd f i v i = v.
Proof. unfold upd. rewrite Nat.eqb_refl. reflexivity. Qed.
Lemma upd_other {A} (f : nat -> A) i v j : j <> i -> upd f i v j = f j.
Proof. unfold upd. intros H. destruct (Nat.eqb_spec j i); [contradiction|reflexivity]. Qed.

Lemma NoDup_app_single (l : list nat) t : NoDup l -> ~ In t l -> NoDup (l ++ [t]).
Proof.
  induction 1 as [|x r Hx Hr IH]; cbn; intros Hn.
  - constructor; [auto | constructor].
  - constructor.
    + rewrite in_app_iff. cbn. intuition.
    + apply IH. tauto.
Qed.

(** ---- what the primitive helpers do to (tasks, ntasks, tk) ---- *)
Definition same_core (s s' : st) : Prop :=
  tasks s' = tasks s /\ ntasks s' = ntasks s /\ tk s' = tk s.

Lemma same_core_refl s : same_core s s.
Proof. repeat split. Qed.
Lemma same_core_trans s1 s2 s3 : same_core s1 s2 -> same_core s2 s3 -> same_core s1 s3.
Proof. unfold same_core. intuition congruence. Qed.

Lemma fire_all_core ks r s : same_core s (fire_all ks r s).
Proof.
  unfold fire_all. revert s. induction ks as [|k ks IH]; intros s; cbn; [apply same_core_refl|].
  eapply same_core_trans; [|apply IH]. repeat split.
Qed.

Lemma reschedule_core s : same_core s (reschedule s).
Proof.
  unfold reschedule. destruct (negb (started s)); [repeat split|].
  destruct (negb (delayed s) && negb (is_nil (tasks s))); repeat split.
Qed.

Lemma remove_task_fields t s :
  tasks (remove_task t s) = remove_first t (tasks s) /\ ntasks (remove_task t s) = ntasks s
  /\ tk (remove_task t s) = tk s.
Proof.
  unfold remove_task. cbn.
  destruct (is_nil (remove_first t (tasks s)) && delayed s); repeat split.
Qed.

Lemma complete_fields t c r s :
  tasks (complete t c r s) = (if Nat.eqb (pc (tk s t)) 0 then remove_first t (tasks s) else tasks s)
  /\ ntasks (complete t c r s) = ntasks s
  /\ tk (complete t c r s) = upd (tk s) t (t_comp (Some (c, r)) (tk s t)).
Proof.
  unfold complete.
  match goal with |- context [fire_all ?ks r ?s2] => destruct (fire_all_core ks r s2) as (E1 & E2 & E3) end.
  rewrite E1, E2, E3. clear E1 E2 E3. cbn. rewrite upd_same. cbn.
  destruct (Nat.eqb (pc (tk s t)) 0).
  - destruct (remove_task_fields t (upd_task t (t_comp (Some (c, r))) s)) as (F1 & F2 & F3).
    rewrite F1, F2, F3. repeat split.
  - repeat split.
Qed.

(** ---- inv1 ---- *)
Definition inv1 (s : st) : Prop :=
  NoDup (tasks s)
  /\ (forall t, In t (tasks s) <-> (pc (tk s t) = 0 /\ comp (tk s t) = None))
  /\ (forall t, ntasks s <= t -> comp (tk s t) <> None).

Lemma inv1_core s s' : same_core s s' -> inv1 s -> inv1 s'.
Proof. intros (E1 & E2 & E3). unfold inv1. rewrite E1, E2, E3. tauto. Qed.

Lemma In_remove_first_iff t u l : u <> t -> (In u (remove_first t l) <-> In u l).
Proof. intros H. split; [apply remove_first_In | apply remove_first_In_neq; exact H]. Qed.

(** a change that touches only task [t]'s record, keeps or drops [t] from the list and leaves
    [t] listed exactly when it is runnable *)
Lemma inv1_change t s s' :
  inv1 s ->
  ntasks s' = ntasks s ->
  (forall u, u <> t -> tk s' u = tk s u) ->
  (comp (tk s' t) = None -> comp (tk s t) = None) ->
  (tasks s' = tasks s \/ tasks s' = remove_first t (tasks s)) ->
  (In t (tasks s') <-> (pc (tk s' t) = 0 /\ comp (tk s' t) = None)) ->
  inv1 s'.
Proof.
  intros (Hnd & Hiff & Hfree) En Eo Hc Et Ht. unfold inv1. rewrite En. split; [|split].
  - destruct Et as [E | E]; rewrite E; [exact Hnd | apply remove_first_NoDup; exact Hnd].
  - intros u. destruct (Nat.eq_dec u t) as [-> | Hne]; [exact Ht|].
    rewrite (Eo u Hne), <- Hiff. destruct Et as [E | E]; rewrite E; [tauto|].
    apply In_remove_first_iff. exact Hne.
  - intros u Hu. destruct (Nat.eq_dec u t) as [-> | Hne].
    + intros H. apply (Hfree t Hu). auto.
    + rewrite (Eo u Hne). auto.
Qed.

Lemma complete_inv1 t c r s : inv1 s -> inv1 (complete t c r s).
Proof.
  intros H. destruct (complete_fields t c r s) as (E1 & E2 & E3).
  apply (inv1_change t s); [exact H | exact E2 | | | |].
  - intros u Hu. rewrite E3. apply upd_other. exact Hu.
  - rewrite E3, upd_same. cbn. discriminate.
  - rewrite E1. destruct (Nat.eqb (pc (tk s t)) 0); auto.
  - rewrite E3, upd_same. cbn. split; [|intros [_ X]; discriminate].
    rewrite E1. destruct H as (Hnd & Hiff & _). intros Hin. exfalso.
    destruct (Nat.eqb_spec (pc (tk s t)) 0) as [Hz | Hz].
    + eapply remove_first_not_In; eauto.
    + apply Hiff in Hin. tauto.
Qed.

(** the list invariant with a hole at [t] (t has just become runnable but is not listed yet) *)
Definition inv1x (t : nat) (s : st) : Prop :=
  NoDup (tasks s) /\ ~ In t (tasks s)
  /\ (forall u, u <> t -> (In u (tasks s) <-> (pc (tk s u) = 0 /\ comp (tk s u) = None)))
  /\ (forall u, ntasks s <= u -> u <> t -> comp (tk s u) <> None)
  /\ t < ntasks s.

Lemma add_task_inv1 t s :
  inv1x t s -> pc (tk s t) = 0 -> comp (tk s t) = None -> inv1 (add_task t s).
Proof.
  intros (Hnd & Hnin & Hiff & Hfree & Hlt) Hp Hc. unfold add_task.
  assert (Hmid : inv1 (set_tasks (tasks s ++ [t]) s)).
  { unfold inv1. cbn. split; [|split].
    - apply NoDup_app_single; auto.
    - intros u. rewrite in_app_iff. cbn. destruct (Nat.eq_dec u t) as [-> | Hne]; [tauto|].
      rewrite <- (Hiff u Hne). intuition congruence.
    - intros u Hu. destruct (Nat.eq_dec u t) as [-> | Hne]; [lia | auto]. }
  destruct (stopped s).
  - apply complete_inv1. exact Hmid.
  - eapply inv1_core; [apply reschedule_core | exact Hmid].
Qed.

Lemma inv1_lt s t : inv1 s -> comp (tk s t) = None -> t < ntasks s.
Proof.
  intros (_ & _ & Hfree) Hc. destruct (le_lt_dec (ntasks s) t) as [Hle | Hlt]; [|exact Hlt].
  exfalso. exact (Hfree t Hle Hc).
Qed.

Lemma resume_body_inv1 t s : inv1 s -> pc (tk s t) <> 0 -> inv1 (resume_body t s).
Proof.
  intros H Hp. unfold resume_body.
  set (s1 := upd_task t (fun x => t_pc (pred (pc x)) x) s).
  assert (Hnin : ~ In t (tasks s)).
  { destruct H as (_ & Hiff & _). intros Hin. apply Hiff in Hin. tauto. }
  assert (E1 : tasks s1 = tasks s) by reflexivity.
  assert (E2 : ntasks s1 = ntasks s) by reflexivity.
  assert (E3 : forall u, u <> t -> tk s1 u = tk s u).
  { intros u Hu. unfold s1. cbn. apply upd_other. exact Hu. }
  assert (E4 : comp (tk s1 t) = comp (tk s t)).
  { unfold s1. cbn. rewrite upd_same. reflexivity. }
  destruct (Nat.eqb (pc (tk s1 t)) 0 && is_none (comp (tk s1 t))) eqn:Ec.
  - apply andb_prop in Ec. destruct Ec as [Ea Eb]. apply Nat.eqb_eq in Ea.
    assert (Hc : comp (tk s1 t) = None) by (destruct (comp (tk s1 t)); [discriminate | reflexivity]).
    apply add_task_inv1; auto.
    assert (Hlt : t < ntasks s) by (apply inv1_lt; [exact H | congruence]).
    destruct H as (Hnd & Hiff & Hfree). unfold inv1x. rewrite E1, E2.
    split; [exact Hnd|]. split; [exact Hnin|]. split; [|split].
    + intros u Hu. rewrite (E3 u Hu). apply Hiff.
    + intros u Hu Hne. rewrite (E3 u Hne). auto.
    + exact Hlt.
  - apply (inv1_change t s); [exact H | exact E2 | exact E3 | | left; exact E1 |].
    + rewrite E4. auto.
    + rewrite E1. split; [tauto|]. intros [Ha Hb]. rewrite Ha, Hb in Ec. discriminate.
Qed.

Lemma pause_body_inv1 t s : inv1 s -> inv1 (pause_body t s).
Proof.
  intros H. unfold pause_body.
  set (s1 := upd_task t (fun x => t_pc (S (pc x)) x) s).
  assert (Ep : pc (tk s1 t) = S (pc (tk s t))) by (unfold s1; cbn; rewrite upd_same; reflexivity).
  assert (E3 : forall u, u <> t -> tk s1 u = tk s u).
  { intros u Hu. unfold s1. cbn. apply upd_other. exact Hu. }
  assert (E4 : comp (tk s1 t) = comp (tk s t)) by (unfold s1; cbn; rewrite upd_same; reflexivity).
  destruct (Nat.eqb_spec (pc (tk s1 t)) 1) as [E1 | E1].
  - destruct (remove_task_fields t s1) as (F1 & F2 & F3).
    apply (inv1_change t s); [exact H | exact F2 | | | |].
    + intros u Hu. rewrite F3. auto.
    + rewrite F3, E4. auto.
    + rewrite F1. right. reflexivity.
    + rewrite F1, F3, Ep. split; [|intros [X _]; discriminate].
      intros Hin. exfalso. destruct H as (Hnd & _). eapply remove_first_not_In; eauto.
  - apply (inv1_change t s); [exact H | reflexivity | exact E3 | | left; reflexivity |].
    + rewrite E4. auto.
    + rewrite Ep. split; [|intros [X _]; discriminate].
      intros Hin. exfalso. destruct H as (_ & Hiff & _). apply Hiff in Hin. destruct Hin as [Hz _].
      apply E1. rewrite Ep, Hz. reflexivity.
Qed.

Lemma faillater_inv1 t j s : inv1 s -> inv1 (faillater t j s).
Proof. intros H. unfold faillater. destruct (is_none (comp (tk s t))); [apply complete_inv1|]; exact H. Qed.

(** changing only ghost / script fields of one task *)
Lemma upd_task_inv1 t f s :
  (forall x, pc (f x) = pc x /\ comp (f x) = comp x) -> inv1 s -> inv1 (upd_task t f s).
Proof.
  intros Hf H. destruct (Hf (tk s t)) as [Hp Hc].
  apply (inv1_change t s); [exact H | reflexivity | | | left; reflexivity |].
  - intros u Hu. cbn. apply upd_other. exact Hu.
  - cbn. rewrite upd_same, Hc. auto.
  - cbn. rewrite upd_same, Hp, Hc. destruct H as (_ & Hiff & _). apply Hiff.
Qed.

Lemma work_unit_inv1 t s : inv1 s -> In t (tasks s) -> inv1 (work_unit t s).
Proof.
  intros H Hin. unfold work_unit.
  set (s0 := emit _ s). assert (H0 : inv1 s0) by exact H.
  destruct (script (tk s t)) as [|a r].
  - apply complete_inv1. exact H0.
  - destruct a as [|j|].
    + apply upd_task_inv1; [intros x; split; reflexivity | exact H0].
    + set (s1 := pause_body t _).
      assert (H1 : inv1 s1).
      { apply pause_body_inv1. apply upd_task_inv1; [intros x; split; reflexivity | exact H0]. }
      assert (Hp : pc (tk s1 t) <> 0).
      { unfold s1, pause_body.
        match goal with |- context [if ?c then _ else _] => destruct c end.
        - match goal with |- context [remove_task t ?z] => destruct (remove_task_fields t z) as (_ & _ & F3) end.
          rewrite F3. cbn. rewrite !upd_same. cbn. discriminate.
        - cbn. rewrite !upd_same. cbn. discriminate. }
      destruct (defs s1 j).
      * apply upd_task_inv1; [intros x; split; reflexivity | exact H1].
      * apply resume_body_inv1; assumption.
      * apply faillater_inv1. exact H1.
    + apply complete_inv1. apply upd_task_inv1; [intros x; split; reflexivity | exact H0].
Qed.

Lemma next_task_spec s o s' :
  next_task s = (o, s') ->
  same_core s s' /\ out s' = out s /\ match o with Some t => In t (tasks s) | None => tasks s = [] end.
Proof.
  unfold next_task. destruct (it_next (tasks s) (meta s)) as [[t i]|] eqn:E1.
  - intros X. inversion X; subst. apply it_next_In in E1. repeat split; tauto.
  - destruct (it_next (tasks s) 0) as [[t i]|] eqn:E2; intros X; inversion X; subst.
    + apply it_next_In in E2. repeat split; tauto.
    + apply it_next_None in E2. repeat split. destruct (tasks s); [reflexivity | cbn in E2; lia].
Qed.

Lemma units_inv1 n : forall s, inv1 s -> inv1 (units n s).
Proof.
  induction n as [|n IH]; intros s H; cbn; [exact H|].
  destruct (next_task s) as [o s1] eqn:E. apply next_task_spec in E. destruct E as (Hc & _ & Ho).
  assert (H1 : inv1 s1) by (eapply inv1_core; eauto).
  destruct o as [t|]; [|exact H1].
  apply IH. apply work_unit_inv1; [exact H1|]. destruct Hc as (Et & _). rewrite Et. exact Ho.
Qed.

Lemma tick_inv1 n s : inv1 s -> inv1 (tick n s).
Proof.
  intros H. unfold tick. destruct (delayed s); [|exact H].
  eapply inv1_core; [apply reschedule_core|].
  destruct (is_nil (tasks (set_delayed false s))); [exact H|]. apply units_inv1. exact H.
Qed.

Lemma when_done_inv1 t s : inv1 s -> inv1 (when_done t s).
Proof.
  intros H. unfold when_done.
  set (s1 := emit _ _). assert (H1 : inv1 s1) by exact H.
  destruct (comp (tk s1 t)) as [[c r]|]; [exact H1|].
  apply upd_task_inv1; [intros x; split; reflexivity | exact H1].
Qed.

Lemma on_fire_inv1 j ok s p : inv1 s -> inv1 (on_fire j ok s p).
Proof.
  intros H. unfold on_fire.
  set (s1 := upd_task _ _ s).
  assert (H1 : inv1 s1) by (apply upd_task_inv1; [intros x; split; reflexivity | exact H]).
  destruct ok.
  - destruct (Nat.eqb_spec (pc (tk s1 (snd p))) 0); [exact H1|]. apply resume_body_inv1; assumption.
  - apply faillater_inv1. exact H1.
Qed.

Lemma fold_left_inv {A} (P : st -> Prop) (f : st -> A -> st) l :
  (forall s a, P s -> P (f s a)) -> forall s, P s -> P (fold_left f l s).
Proof. intros Hf. induction l as [|a l IH]; intros s H; cbn; [exact H|]. apply IH, Hf, H. Qed.

Lemma fire_inv1 j ok s : inv1 s -> inv1 (fire j ok s).
Proof. intros H. unfold fire. apply fold_left_inv; [intros; apply on_fire_inv1; assumption | exact H]. Qed.

(** every task of [l] is finished after completing each of them *)
Lemma fold_complete_comp l c r : forall s t,
  In t l -> comp (tk (fold_left (fun s t => complete t c r s) l s) t) <> None.
Proof.
  induction l as [|x l IH]; intros s t Hin; [destruct Hin|]. cbn.
  destruct (in_dec Nat.eq_dec t l) as [Hl | Hl]; [apply IH; exact Hl|].
  destruct Hin as [-> | Hin]; [|contradiction].
  assert (G : forall l' s', comp (tk s' t) <> None ->
              comp (tk (fold_left (fun s t => complete t c r s) l' s') t) <> None).
  { induction l' as [|y l' IH']; intros s' Hs'; cbn; [exact Hs'|]. apply IH'.
    destruct (complete_fields y c r s') as (_ & _ & E3). rewrite E3.
    destruct (Nat.eq_dec t y) as [-> | Hne]; [rewrite upd_same; cbn; discriminate|].
    rewrite upd_other by exact Hne. exact Hs'. }
  apply G. destruct (complete_fields t c r s) as (_ & _ & E3). rewrite E3, upd_same. cbn. discriminate.
Qed.

Lemma coop_stop_inv1 s : inv1 s -> inv1 (coop_stop s).
Proof.
  intros H. unfold coop_stop.
  set (s2 := fold_left _ _ _).
  assert (H2 : inv1 s2).
  { unfold s2. apply fold_left_inv; [intros; apply complete_inv1; assumption | exact H]. }
  assert (Hall : forall t, In t (tasks s) -> comp (tk s2 t) <> None).
  { intros t Hin. unfold s2. apply fold_complete_comp. exact Hin. }
  assert (H3 : inv1 (set_meta 0 (set_tasks [] s2))).
  { destruct H2 as (Hnd & Hiff & Hfree). unfold inv1. cbn. split; [constructor|]. split; [|exact Hfree].
    intros t. split; [tauto|]. intros [Hp Hc]. exfalso.
    (* t runnable in s2: it is in tasks s2, which is a sub-list of tasks s, all of which are finished *)
    assert (Hin2 : In t (tasks s2)) by (apply Hiff; auto).
    assert (Hsub : forall l s', (forall u, In u (tasks (fold_left (fun s t => complete t CSched RSched s) l s')) -> In u (tasks s'))).
    { induction l as [|y l IH]; intros s' u Hu; cbn in Hu; [exact Hu|]. apply IH in Hu.
      destruct (complete_fields y CSched RSched s') as (E1 & _ & _). rewrite E1 in Hu.
      destruct (Nat.eqb (pc (tk s' y)) 0); [eapply remove_first_In; eauto | exact Hu]. }
    apply (Hall t); [|exact Hc]. apply (Hsub (tasks (set_stopped true s)) (set_stopped true s) t). exact Hin2. }
  match goal with |- inv1 (if ?c then _ else _) => destruct c end; exact H3.
Qed.

Lemma coop_start_inv1 s : inv1 s -> inv1 (coop_start s).
Proof.
  intros H. unfold coop_start. cbn [must set_started set_stopped].
  destruct (must s); [|exact H]. eapply inv1_core; [apply reschedule_core | exact H].
Qed.

Lemma step_inv1 s o : inv1 s -> inv1 (step s o).
Proof.
  intros H0. unfold step. set (s1 := emit EOp s). assert (H : inv1 s1) by exact H0.
  clearbody s1. clear H0 s. rename s1 into s.
  destruct o as [scr co | t | t | t | t | n | j ok | |].
  - (* Add *)
    set (t := ntasks s). set (s1 := set_ntasks _ _).
    assert (Ha : inv1 (add_task t s1)).
    { destruct H as (Hnd & Hiff & Hfree). apply add_task_inv1.
      - unfold inv1x, s1. cbn. split; [exact Hnd|]. split; [|split; [|split]].
        + intros Hin. apply Hiff in Hin. destruct Hin as [_ Hc]. apply (Hfree t); [unfold t; lia | exact Hc].
        + intros u Hu. rewrite upd_other by exact Hu. apply Hiff.
        + intros u Hu Hne. rewrite upd_other by exact Hne. apply Hfree. unfold t in *. lia.
        + unfold t. lia.
      - unfold s1. cbn. rewrite upd_same. reflexivity.
      - unfold s1. cbn. rewrite upd_same. reflexivity. }
    destruct co; [apply when_done_inv1|]; exact Ha.
  - destruct (has t s); [apply when_done_inv1|]; exact H.
  - destruct (has t s); [|exact H]. destruct (comp (tk s t)) as [[c r]|]; [exact H|].
    apply pause_body_inv1. apply upd_task_inv1; [intros x; split; reflexivity | exact H].
  - destruct (has t s); [|exact H]. destruct (Nat.eqb_spec (pc (tk s t)) 0) as [E | E]; [exact H|].
    apply resume_body_inv1.
    + destruct (Nat.eqb (upause (tk s t)) 0); [exact H|].
      apply upd_task_inv1; [intros x; split; reflexivity | exact H].
    + destruct (Nat.eqb (upause (tk s t)) 0); [exact E|]. cbn. rewrite upd_same. exact E.
  - destruct (has t s); [|exact H]. destruct (comp (tk s t)) as [[c r]|]; [exact H|].
    apply complete_inv1. exact H.
  - apply tick_inv1. exact H.
  - destruct (defs s j); [|exact H|exact H]. apply fire_inv1. exact H.
  - apply coop_stop_inv1. exact H.
  - apply coop_start_inv1. exact H.
Qed.

Lemma init_inv1 b : inv1 (init b).
Proof.
  unfold inv1, init. cbn. split; [constructor|]. split.
  - intros t. split; [tauto|]. intros [X _]. discriminate.
  - intros t _. discriminate.
Qed.

Lemma run_inv {P : st -> Prop} (Hstep : forall s o, P s -> P (step s o)) ops :
  forall s, P s -> P (run s ops).
Proof. unfold run. induction ops as [|o r IH]; intros s H; cbn; [exact H|]. apply IH, Hstep, H. Qed.

Lemma reach_inv1 b ops : inv1 (run (init b) ops).
Proof. apply (run_inv step_inv1). apply init_inv1. Qed.

(** ---- Part 2: what the helpers add to the log ---- *)
Definition ext (Q : ev -> Prop) (s s' : st) : Prop := exists l, out s' = l ++ out s /\ Forall Q l.

Lemma ext_refl Q s : ext Q s s.
Proof. exists []. split; [reflexivity | constructor]. Qed.
Lemma ext_trans Q s1 s2 s3 : ext Q s1 s2 -> ext Q s2 s3 -> ext Q s1 s3.
Proof.
  intros (l1 & E1 & F1) (l2 & E2 & F2). exists (l2 ++ l1). split.
  - rewrite E2, E1, app_assoc. reflexivity.
  - apply Forall_app. split; assumption.
Qed.
Lemma ext_same Q s s' : out s' = out s -> ext Q s s'.
Proof. intros E. exists []. split; [exact E | constructor]. Qed.
Lemma ext_emit (Q : ev -> Prop) e s : Q e -> ext Q s (emit e s).
Proof. intros H. exists [e]. split; [reflexivity | constructor; [exact H | constructor]]. Qed.
Lemma ext_weaken (Q Q' : ev -> Prop) s s' : (forall e, Q e -> Q' e) -> ext Q s s' -> ext Q' s s'.
Proof. intros H (l & E & F). exists l. split; [exact E|]. eapply Forall_impl; eauto. Qed.

Lemma ext_fold {A} Q (f : st -> A -> st) l :
  (forall s a, ext Q s (f s a)) -> forall s, ext Q s (fold_left f l s).
Proof.
  intros Hf. induction l as [|a l IH]; intros s; cbn; [apply ext_refl|].
  eapply ext_trans; [apply Hf | apply IH].
Qed.

Definition noadv (e : ev) : Prop := match e with EAdv _ _ _ _ _ => False | _ => True end.

Lemma ext_cons (Q : ev -> Prop) s s' s'' e : out s'' = e :: out s' -> Q e -> ext Q s s' -> ext Q s s''.
Proof.
  intros E H (l & El & F). exists (e :: l). split; [rewrite E, El; reflexivity | constructor; assumption].
Qed.

Ltac ext_step :=
  first [ apply ext_refl | apply ext_same; reflexivity
        | eexists [_]; split; [cbn; reflexivity | repeat constructor]
        | eexists [_; _]; split; [cbn; reflexivity | repeat constructor] ].

Lemma fire_all_noadv ks r s : ext noadv s (fire_all ks r s).
Proof. unfold fire_all. apply ext_fold. intros. ext_step. Qed.
Lemma reschedule_noadv s : ext noadv s (reschedule s).
Proof.
  unfold reschedule. destruct (negb (started s)); [ext_step|].
  destruct (negb (delayed s) && negb (is_nil (tasks s))); ext_step.
Qed.
Lemma remove_task_noadv t s : ext noadv s (remove_task t s).
Proof. unfold remove_task. match goal with |- context [if ?c then _ else _] => destruct c end; ext_step. Qed.
Lemma complete_noadv t c r s : ext noadv s (complete t c r s).
Proof.
  unfold complete. eapply ext_trans; [|apply fire_all_noadv].
  match goal with |- context [if ?c then _ else _] => destruct c end.
  - eapply ext_trans; [|apply remove_task_noadv]. ext_step.
  - ext_step.
Qed.
Lemma add_task_noadv t s : ext noadv s (add_task t s).
Proof.
  unfold add_task. destruct (stopped s).
  - eapply ext_trans; [|apply complete_noadv]. ext_step.
  - eapply ext_trans; [|apply reschedule_noadv]. ext_step.
Qed.
Lemma resume_body_noadv t s : ext noadv s (resume_body t s).
Proof.
  unfold resume_body. match goal with |- context [if ?c then _ else _] => destruct c end.
  - eapply ext_trans; [|apply add_task_noadv]. ext_step.
  - ext_step.
Qed.
Lemma pause_body_noadv t s : ext noadv s (pause_body t s).
Proof.
  unfold pause_body. match goal with |- context [if ?c then _ else _] => destruct c end.
  - eapply ext_trans; [|apply remove_task_noadv]. ext_step.
  - ext_step.
Qed.
Lemma faillater_noadv t j s : ext noadv s (faillater t j s).
Proof. unfold faillater. destruct (is_none (comp (tk s t))); [apply complete_noadv | ext_step]. Qed.
Lemma when_done_noadv t s : ext noadv s (when_done t s).
Proof.
  unfold when_done. match goal with |- context [match ?c with _ => _ end] => destruct c as [[? ?]|] end.
  - ext_step.
  - ext_step.
Qed.
Lemma on_fire_noadv j ok s p : ext noadv s (on_fire j ok s p).
Proof.
  unfold on_fire. destruct ok.
  - match goal with |- context [if ?c then _ else _] => destruct c end.
    + ext_step.
    + eapply ext_trans; [|apply resume_body_noadv]. ext_step.
  - eapply ext_trans; [|apply faillater_noadv]. ext_step.
Qed.
Lemma fire_noadv j ok s : ext noadv s (fire j ok s).
Proof. unfold fire. eapply ext_trans; [|apply ext_fold; intros; apply on_fire_noadv]. ext_step. Qed.
Lemma coop_stop_noadv s : ext noadv s (coop_stop s).
Proof.
  unfold coop_stop. set (s2 := fold_left _ _ _).
  assert (E2 : ext noadv s s2).
  { unfold s2. eapply ext_trans; [|apply ext_fold; intros; apply complete_noadv]. ext_step. }
  match goal with |- context [if ?c then _ else _] => destruct c end;
    (eapply ext_trans; [exact E2|]; ext_step).
Qed.
Lemma coop_start_noadv s : ext noadv s (coop_start s).
Proof.
  unfold coop_start. match goal with |- context [if ?c then _ else _] => destruct c end.
  - eapply ext_trans; [|apply reschedule_noadv]. ext_step.
  - ext_step.
Qed.

(** every next() happens on a task that is neither paused nor finished *)
Definition good_ev (e : ev) : Prop :=
  match e with EAdv _ p b _ _ => p = 0 /\ b = true | _ => True end.

Lemma noadv_good e : noadv e -> good_ev e.
Proof. destruct e; cbn; tauto. Qed.

Lemma work_unit_good t s : inv1 s -> In t (tasks s) -> ext good_ev s (work_unit t s).
Proof.
  intros (_ & Hiff & _) Hin. apply Hiff in Hin. destruct Hin as [Hp Hc].
  unfold work_unit.
  set (s0 := emit _ s).
  assert (E0 : ext good_ev s s0).
  { apply ext_emit. cbn. rewrite Hp, Hc. split; reflexivity. }
  assert (W : forall s', ext noadv s0 s' -> ext good_ev s s').
  { intros s' H. eapply ext_trans; [exact E0|]. eapply ext_weaken; [apply noadv_good | exact H]. }
  apply W.
  destruct (script (tk s t)) as [|a r].
  - apply complete_noadv.
  - destruct a as [|j|].
    + ext_step.
    + set (s1 := pause_body t _).
      assert (E1 : ext noadv s0 s1).
      { unfold s1. eapply ext_trans; [|apply pause_body_noadv]. ext_step. }
      destruct (defs s1 j).
      * eapply ext_trans; [exact E1|]. ext_step.
      * eapply ext_trans; [exact E1|]. apply resume_body_noadv.
      * eapply ext_trans; [exact E1|]. apply faillater_noadv.
    + eapply ext_trans; [|apply complete_noadv]. ext_step.
Qed.

Lemma units_good n : forall s, inv1 s -> ext good_ev s (units n s).
Proof.
  induction n as [|n IH]; intros s H; cbn; [apply ext_refl|].
  destruct (next_task s) as [o s1] eqn:E. apply next_task_spec in E. destruct E as (Hc & Ho & Hin).
  assert (H1 : inv1 s1) by (eapply inv1_core; eauto).
  destruct o as [t|]; [|exists [EClear]; split; [cbn; rewrite Ho; reflexivity | repeat constructor]].
  assert (Hin1 : In t (tasks s1)) by (destruct Hc as (Et & _); rewrite Et; exact Hin).
  eapply ext_trans; [apply ext_same; exact Ho|].
  eapply ext_trans; [exact (work_unit_good t s1 H1 Hin1)|].
  apply IH. apply work_unit_inv1; assumption.
Qed.

Lemma step_good s o : inv1 s -> ext good_ev s (step s o).
Proof.
  intros H0. unfold step. set (s1 := emit EOp s).
  assert (H : inv1 s1) by exact H0.
  eapply ext_trans; [apply (ext_emit good_ev EOp s); exact I|]. fold s1.
  clearbody s1. clear H0 s. rename s1 into s.
  assert (W : forall s', ext noadv s s' -> ext good_ev s s').
  { intros s' X. eapply ext_weaken; [apply noadv_good | exact X]. }
  destruct o as [scr co | t | t | t | t | n | j ok | |].
  - apply W. set (s1 := set_ntasks _ _).
    assert (E : ext noadv s (add_task (ntasks s) s1)).
    { eapply ext_trans; [|apply add_task_noadv]. ext_step. }
    destruct co; [|exact E]. eapply ext_trans; [exact E | apply when_done_noadv].
  - apply W. destruct (has t s); [apply when_done_noadv | ext_step].
  - apply W. destruct (has t s); [|ext_step]. destruct (comp (tk s t)) as [[c r]|]; [ext_step|].
    eapply ext_trans; [|apply pause_body_noadv]. ext_step.
  - apply W. destruct (has t s); [|ext_step]. destruct (Nat.eqb (pc (tk s t)) 0); [ext_step|].
    eapply ext_trans; [|apply resume_body_noadv]. destruct (Nat.eqb (upause (tk s t)) 0); ext_step.
  - apply W. destruct (has t s); [|ext_step]. destruct (comp (tk s t)) as [[c r]|]; [ext_step|].
    apply complete_noadv.
  - unfold tick. destruct (delayed s); [|apply ext_refl].
    eapply ext_trans; [|eapply ext_weaken; [apply noadv_good | apply reschedule_noadv]].
    destruct (is_nil (tasks (set_delayed false s))); [ext_step|].
    eapply ext_trans; [|apply units_good; exact H]. ext_step.
  - apply W. destruct (defs s j); [|ext_step|ext_step].
    eapply ext_trans; [|apply fire_noadv]. ext_step.
  - apply W. apply coop_stop_noadv.
  - apply W. apply coop_start_noadv.
Qed.

Definition adv_ok (s : st) : Prop := Forall good_ev (out s).

Lemma reach_adv b ops : inv1 (run (init b) ops) /\ adv_ok (run (init b) ops).
Proof.
  apply (run_inv (P := fun s => inv1 s /\ adv_ok s)).
  - intros s o [H1 H2]. split; [apply step_inv1; exact H1|].
    destruct (step_good s o H1) as (l & E & F). unfold adv_ok. rewrite E. apply Forall_app. split; assumption.
  - split; [apply init_inv1 | constructor].
Qed.

Lemma never_advanced_unless_runnable_lemma : forall b ops t p inc nw up,
  In (EAdv t p inc nw up) (trace (run (init b) ops)) -> p = 0 /\ inc = true.
Proof.
  intros b ops t p inc nw up Hin. unfold trace in Hin. apply in_rev in Hin.
  destruct (reach_adv b ops) as [_ H]. unfold adv_ok in H. rewrite Forall_forall in H.
  exact (H _ Hin).
Qed.

(** ---- Part 3: every whenDone / coiterate Deferred fires exactly once, when its task finishes ---- *)
Definition reqd (o : list ev) : list (nat * nat) :=
  flat_map (fun e => match e with EReq k t => [(k, t)] | _ => [] end) o.
Definition dones (o : list ev) : list (nat * result) :=
  flat_map (fun e => match e with EDone k r => [(k, r)] | _ => [] end) o.
Definition cnt {B} (k : nat) (ds : list (nat * B)) : nat :=
  length (filter (fun p => Nat.eqb (fst p) k) ds).

Definition neutral (e : ev) : Prop := match e with EReq _ _ | EDone _ _ => False | _ => True end.

Lemma reqd_neutral l : Forall neutral l -> reqd l = [].
Proof. induction 1 as [|e l He Hl IH]; cbn; [reflexivity|]. destruct e; cbn in *; tauto. Qed.
Lemma dones_neutral l : Forall neutral l -> dones l = [].
Proof. induction 1 as [|e l He Hl IH]; cbn; [reflexivity|]. destruct e; cbn in *; tauto. Qed.
Lemma reqd_app a b : reqd (a ++ b) = reqd a ++ reqd b.
Proof. apply flat_map_app. Qed.
Lemma dones_app a b : dones (a ++ b) = dones a ++ dones b.
Proof. apply flat_map_app. Qed.

Lemma cnt_app {B} k (a b : list (nat * B)) : cnt k (a ++ b) = cnt k a + cnt k b.
Proof. unfold cnt. rewrite filter_app, app_length. reflexivity. Qed.
Lemma cnt_zero {B} k (ds : list (nat * B)) : (forall r, ~ In (k, r) ds) -> cnt k ds = 0.
Proof.
  induction ds as [|[k' r] ds IH]; intros H; [reflexivity|]. unfold cnt in *. cbn.
  destruct (Nat.eqb_spec k' k) as [-> | Hne].
  - exfalso. apply (H r). left. reflexivity.
  - apply IH. intros r' Hin. apply (H r'). right. exact Hin.
Qed.
Lemma cnt_pos {B} k r (ds : list (nat * B)) : In (k, r) ds -> cnt k ds <> 0.
Proof.
  induction ds as [|[k' r'] ds IH]; intros H; [destruct H|]. unfold cnt in *. cbn.
  destruct H as [E | H].
  - inversion E; subst. rewrite Nat.eqb_refl. cbn. discriminate.
  - destruct (Nat.eqb k' k); cbn; [discriminate | apply IH; exact H].
Qed.

Definition newdones (r : result) (ks : list nat) : list (nat * result) := rev (map (fun k => (k, r)) ks).

Lemma In_newdones k r' r ks : In (k, r') (newdones r ks) <-> (r' = r /\ In k ks).
Proof.
  unfold newdones. rewrite <- in_rev, in_map_iff. split.
  - intros (x & E & Hin). inversion E; subst. auto.
  - intros [-> Hin]. exists k. auto.
Qed.
Lemma cnt_newdones_in k r ks : NoDup ks -> In k ks -> cnt k (newdones r ks) = 1.
Proof.
  unfold newdones. induction 1 as [|x ks Hx Hnd IH]; intros Hin; [destruct Hin|].
  cbn [map rev]. rewrite cnt_app. destruct Hin as [-> | Hin].
  - rewrite (cnt_zero k).
    + unfold cnt. cbn. rewrite Nat.eqb_refl. reflexivity.
    + intros r' H. apply (In_newdones k r' r ks) in H. tauto.
  - rewrite IH by exact Hin. unfold cnt. cbn.
    destruct (Nat.eqb_spec x k); [subst; contradiction | reflexivity].
Qed.
Lemma cnt_newdones_notin k r ks : ~ In k ks -> cnt k (newdones r ks) = 0.
Proof. intros H. apply cnt_zero. intros r' Hin. apply In_newdones in Hin. tauto. Qed.

Definition reqs_ok (s : st) : Prop :=
  let R := reqd (out s) in
  let D := dones (out s) in
  (forall k t, In (k, t) R ->
     k < nextd s /\ t < ntasks s /\
     match comp (tk s t) with
     | None => In k (dl (tk s t)) /\ cnt k D = 0
     | Some (_, r) => cnt k D = 1 /\ (forall r', In (k, r') D -> r' = r)
     end)
  /\ (forall t k, In k (dl (tk s t)) -> In (k, t) R)
  /\ (forall t, NoDup (dl (tk s t)))
  /\ (forall k t t', In (k, t) R -> In (k, t') R -> t = t')
  /\ (forall k r, In (k, r) D -> exists t, In (k, t) R).

Definition wframe (s s' : st) : Prop :=
  ext neutral s s' /\ nextd s' = nextd s /\ ntasks s' = ntasks s
  /\ forall t, comp (tk s' t) = comp (tk s t) /\ dl (tk s' t) = dl (tk s t).

Lemma wframe_refl s : wframe s s.
Proof. split; [apply ext_refl|]. repeat split. Qed.
Lemma wframe_trans s1 s2 s3 : wframe s1 s2 -> wframe s2 s3 -> wframe s1 s3.
Proof.
  intros (A1 & B1 & C1 & D1) (A2 & B2 & C2 & D2). split; [eapply ext_trans; eauto|].
  split; [congruence|]. split; [congruence|]. intros t. destruct (D1 t), (D2 t). split; congruence.
Qed.

Lemma reqs_ok_frame s s' : wframe s s' -> reqs_ok s -> reqs_ok s'.
Proof.
  intros ((l & El & Fl) & En & Ent & Et) H. unfold reqs_ok in *.
  rewrite El, reqd_app, dones_app, (reqd_neutral l Fl), (dones_neutral l Fl), En, Ent. cbn [app].
  destruct H as (H1 & H2 & H3 & H4 & H5). split; [|split; [|split; [|split]]]; auto.
  - intros k t Hin. destruct (Et t) as [Ec Ed]. rewrite Ec, Ed. apply H1. exact Hin.
  - intros t k. destruct (Et t) as [_ Ed]. rewrite Ed. apply H2.
  - intros t. destruct (Et t) as [_ Ed]. rewrite Ed. apply H3.
Qed.

Ltac wf_tk := intros ?u; cbn;
  try (match goal with |- context [upd _ ?t _ ?u] =>
         destruct (Nat.eq_dec u t) as [-> | ?Hne]; [rewrite ?upd_same | rewrite ?upd_other by assumption] end);
  split; reflexivity.

Lemma reschedule_wf s : wframe s (reschedule s).
Proof.
  unfold reschedule. destruct (negb (started s)); [split; [ext_step | repeat split]|].
  destruct (negb (delayed s) && negb (is_nil (tasks s))); (split; [ext_step | repeat split]).
Qed.
Lemma remove_task_wf t s : wframe s (remove_task t s).
Proof.
  unfold remove_task. match goal with |- context [if ?c then _ else _] => destruct c end;
    (split; [ext_step | repeat split]).
Qed.
Lemma upd_task_wf t f s :
  (forall x, comp (f x) = comp x /\ dl (f x) = dl x) -> wframe s (upd_task t f s).
Proof.
  intros Hf. split; [ext_step|]. repeat split; cbn;
    (destruct (Nat.eq_dec t0 t) as [-> | Hne]; [rewrite upd_same; apply Hf | rewrite upd_other by exact Hne; reflexivity]).
Qed.
Lemma pause_body_wf t s : wframe s (pause_body t s).
Proof.
  unfold pause_body. match goal with |- context [if ?c then _ else _] => destruct c end.
  - eapply wframe_trans; [|apply remove_task_wf]. apply upd_task_wf. intros x. split; reflexivity.
  - apply upd_task_wf. intros x. split; reflexivity.
Qed.

Lemma fire_all_out ks r s :
  out (fire_all ks r s) = rev (map (fun k => EDone k r) ks) ++ out s
  /\ nextd (fire_all ks r s) = nextd s.
Proof.
  unfold fire_all. revert s. induction ks as [|k ks IH]; intros s; cbn; [split; reflexivity|].
  destruct (IH (emit (EDone k r) s)) as [E1 E2]. rewrite E1, E2. cbn. rewrite <- app_assoc. split; reflexivity.
Qed.

Lemma dones_newdones r ks : dones (rev (map (fun k => EDone k r) ks)) = newdones r ks.
Proof.
  unfold newdones. induction ks as [|k ks IH]; [reflexivity|]. cbn [map rev].
  rewrite dones_app, IH. reflexivity.
Qed.
Lemma reqd_newdones r ks : reqd (rev (map (fun k => EDone k r) ks)) = [].
Proof. induction ks as [|k ks IH]; [reflexivity|]. cbn [map rev]. rewrite reqd_app, IH. reflexivity. Qed.

Lemma complete_reqs t c r s : comp (tk s t) = None -> reqs_ok s -> reqs_ok (complete t c r s).
Proof.
  intros Hc H. unfold complete.
  set (s1 := upd_task t (t_comp (Some (c, r))) s).
  set (s2 := if Nat.eqb (pc (tk s1 t)) 0 then remove_task t s1 else s1).
  assert (F12 : wframe s1 s2).
  { unfold s2. destruct (Nat.eqb (pc (tk s1 t)) 0); [apply remove_task_wf | apply wframe_refl]. }
  destruct F12 as ((l & El & Fl) & En & Ent & Et).
  destruct (fire_all_out (dl (tk s2 t)) r s2) as [Eo End].
  assert (Edl : dl (tk s2 t) = dl (tk s t)).
  { destruct (Et t) as [_ E]. rewrite E. unfold s1. cbn. rewrite upd_same. reflexivity. }
  destruct (fire_all_core (dl (tk s2 t)) r s2) as (_ & Ent3 & Etk3).
  set (s3 := fire_all (dl (tk s2 t)) r s2) in *.
  assert (Ecomp : forall u, comp (tk s3 u) = if Nat.eqb u t then Some (c, r) else comp (tk s u)).
  { intros u. rewrite Etk3. destruct (Et u) as [E _]. rewrite E. unfold s1. cbn. unfold upd.
    destruct (Nat.eqb u t); reflexivity. }
  assert (Edls : forall u, dl (tk s3 u) = dl (tk s u)).
  { intros u. rewrite Etk3. destruct (Et u) as [_ E]. rewrite E. unfold s1. cbn. unfold upd.
    destruct (Nat.eqb_spec u t) as [-> | _]; reflexivity. }
  unfold reqs_ok in *. destruct H as (H1 & H2 & H3 & H4 & H5).
  rewrite Eo, End, Ent3, Ent, En, El. change (out s1) with (out s). change (nextd s1) with (nextd s).
  change (ntasks s1) with (ntasks s).
  rewrite !reqd_app, !dones_app, reqd_newdones, dones_newdones, (reqd_neutral l Fl), (dones_neutral l Fl), Edl.
  cbn [app]. set (ks := dl (tk s t)) in *.
  split; [|split; [|split; [|split]]].
  - intros k u Hin. destruct (H1 k u Hin) as (A & B & C). split; [exact A|]. split; [exact B|].
    rewrite Ecomp. destruct (Nat.eqb_spec u t) as [-> | Hne].
    + rewrite Hc in C. destruct C as [Ck C0]. fold ks in Ck. split.
      * rewrite cnt_app, C0, (cnt_newdones_in k r ks (H3 t) Ck). reflexivity.
      * intros r' Hr'. apply in_app_or in Hr'. destruct Hr' as [X | X].
        -- apply In_newdones in X. tauto.
        -- exfalso. exact (cnt_pos _ _ _ X C0).
    + assert (Hk : ~ In k ks).
      { intros X. apply (H2 t k) in X. apply Hne. exact (H4 k u t Hin X). }
      rewrite cnt_app, (cnt_newdones_notin k r ks Hk). cbn [plus].
      destruct (comp (tk s u)) as [[c' r'']|]; [|rewrite Edls; exact C].
      destruct C as [C1 C2]. split; [exact C1|]. intros r' Hr'. apply in_app_or in Hr'.
      destruct Hr' as [X | X]; [apply In_newdones in X; tauto | auto].
  - intros u k. rewrite Edls. apply H2.
  - intros u. rewrite Edls. apply H3.
  - exact H4.
  - intros k r' Hin. apply in_app_or in Hin. destruct Hin as [X | X]; [|eauto].
    apply In_newdones in X. destruct X as [_ X]. exists t. apply H2. exact X.
Qed.

Lemma set_wf s s' :
  out s' = out s -> nextd s' = nextd s -> ntasks s' = ntasks s -> tk s' = tk s -> wframe s s'.
Proof.
  intros A B C D. split; [apply ext_same; exact A|]. split; [exact B|]. split; [exact C|].
  intros t. rewrite D. split; reflexivity.
Qed.

Lemma add_task_reqs t s : comp (tk s t) = None -> reqs_ok s -> reqs_ok (add_task t s).
Proof.
  intros Hc H. unfold add_task.
  assert (H1 : reqs_ok (set_tasks (tasks s ++ [t]) s)).
  { eapply reqs_ok_frame; [|exact H]. apply set_wf; reflexivity. }
  destruct (stopped s).
  - apply complete_reqs; [exact Hc | exact H1].
  - eapply reqs_ok_frame; [apply reschedule_wf | exact H1].
Qed.

Lemma resume_body_reqs t s : reqs_ok s -> reqs_ok (resume_body t s).
Proof.
  intros H. unfold resume_body.
  set (s1 := upd_task t _ s).
  assert (H1 : reqs_ok s1).
  { eapply reqs_ok_frame; [|exact H]. apply upd_task_wf. intros x. split; reflexivity. }
  destruct (Nat.eqb (pc (tk s1 t)) 0); cbn [andb]; [|exact H1].
  destruct (comp (tk s1 t)) eqn:Ec; cbn [is_none]; [exact H1|].
  apply add_task_reqs; assumption.
Qed.

Lemma faillater_reqs t j s : reqs_ok s -> reqs_ok (faillater t j s).
Proof.
  intros H. unfold faillater. destruct (comp (tk s t)) eqn:Ec; cbn [is_none]; [exact H|].
  apply complete_reqs; assumption.
Qed.

Lemma work_unit_reqs t s : comp (tk s t) = None -> reqs_ok s -> reqs_ok (work_unit t s).
Proof.
  intros Hc H. unfold work_unit.
  set (s0 := emit _ s).
  assert (H0 : reqs_ok s0).
  { eapply reqs_ok_frame; [|exact H]. split; [ext_step | repeat split]. }
  assert (Hc0 : comp (tk s0 t) = None) by exact Hc.
  destruct (script (tk s t)) as [|a r].
  - apply complete_reqs; assumption.
  - destruct a as [|j|].
    + eapply reqs_ok_frame; [|exact H0]. apply upd_task_wf. intros x. split; reflexivity.
    + set (s1 := pause_body t _).
      assert (H1 : reqs_ok s1).
      { unfold s1. eapply reqs_ok_frame; [apply pause_body_wf|].
        eapply reqs_ok_frame; [|exact H0]. apply upd_task_wf. intros x. split; reflexivity. }
      destruct (defs s1 j).
      * eapply reqs_ok_frame; [apply upd_task_wf; intros x; split; reflexivity|].
        eapply reqs_ok_frame; [|exact H1]. apply set_wf; reflexivity.
      * apply resume_body_reqs. exact H1.
      * apply faillater_reqs. exact H1.
    + apply complete_reqs.
      * cbn. rewrite upd_same. cbn. exact Hc.
      * eapply reqs_ok_frame; [|exact H0]. apply upd_task_wf. intros x. split; reflexivity.
Qed.

Definition inv2 (s : st) : Prop := inv1 s /\ reqs_ok s.

Lemma next_task_meta s o s' : next_task s = (o, s') -> exists i, s' = set_meta i s.
Proof.
  unfold next_task. destruct (it_next (tasks s) (meta s)) as [[t i]|].
  - intros X. inversion X. eauto.
  - destruct (it_next (tasks s) 0) as [[t i]|]; intros X; inversion X; eauto.
Qed.

Lemma units_inv2 n : forall s, inv2 s -> inv2 (units n s).
Proof.
  induction n as [|n IH]; intros s [H R]; cbn; [split; assumption|].
  destruct (next_task s) as [o s1] eqn:E. destruct (next_task_meta _ _ _ E) as [i Ei].
  apply next_task_spec in E. destruct E as (Hc & Ho & Hin).
  assert (H1 : inv1 s1) by (eapply inv1_core; eauto).
  assert (R1 : reqs_ok s1).
  { eapply reqs_ok_frame; [|exact R]. rewrite Ei. apply set_wf; reflexivity. }
  destruct o as [t|]; [|split; assumption].
  assert (Hin1 : In t (tasks s1)) by (destruct Hc as (Et & _); rewrite Et; exact Hin).
  apply IH. split; [apply work_unit_inv1; assumption|].
  apply work_unit_reqs; [|exact R1]. destruct H1 as (_ & Hiff & _). apply Hiff in Hin1. tauto.
Qed.

Lemma tick_inv2 n s : inv2 s -> inv2 (tick n s).
Proof.
  intros [H R]. unfold tick. destruct (delayed s); [|split; assumption].
  set (s1 := set_delayed false s).
  assert (I1 : inv2 s1).
  { split; [exact H|]. eapply reqs_ok_frame; [|exact R]. apply set_wf; reflexivity. }
  set (s2 := if is_nil (tasks s1) then s1 else units (Nat.max n 1) s1).
  assert (I2 : inv2 s2) by (unfold s2; destruct (is_nil (tasks s1)); [exact I1 | apply units_inv2; exact I1]).
  destruct I2 as [H2 R2]. split.
  - eapply inv1_core; [apply reschedule_core | exact H2].
  - eapply reqs_ok_frame; [apply reschedule_wf | exact R2].
Qed.

Lemma when_done_reqs t s : t < ntasks s -> reqs_ok s -> reqs_ok (when_done t s).
Proof.
  intros Hlt (H1 & H2 & H3 & H4 & H5). unfold when_done.
  set (k := nextd s).
  assert (Hfresh : forall u, ~ In (k, u) (reqd (out s))).
  { intros u X. destruct (H1 k u X) as (A & _). unfold k in A. lia. }
  assert (Hcnt : cnt k (dones (out s)) = 0).
  { apply cnt_zero. intros r X. destruct (H5 k r X) as [u Hu]. exact (Hfresh u Hu). }
  cbn [tk emit set_nextd comp].
  destruct (comp (tk s t)) as [[c r]|] eqn:Ec.
  - unfold reqs_ok. cbn.
    split; [|split; [|split; [|split]]].
    + intros k' u [E | Hin].
      * inversion E; subst. split; [lia|]. split; [exact Hlt|]. rewrite Ec. split.
        -- unfold cnt in *. cbn. rewrite Nat.eqb_refl. cbn. f_equal. exact Hcnt.
        -- intros r' [X | X]; [inversion X; reflexivity|]. exfalso. exact (cnt_pos _ _ _ X Hcnt).
      * destruct (H1 k' u Hin) as (A & B & C). split; [lia|]. split; [exact B|].
        assert (Hne : k' <> k) by (unfold k; lia).
        destruct (comp (tk s u)) as [[c' r'']|].
        -- destruct C as [C1 C2]. split.
           ++ unfold cnt in *. cbn. destruct (Nat.eqb_spec k k'); [congruence | exact C1].
           ++ intros r' [X | X]; [inversion X; congruence | auto].
        -- destruct C as [C1 C2]. split; [exact C1|].
           unfold cnt in *. cbn. destruct (Nat.eqb_spec k k'); [congruence | exact C2].
    + intros u k' Hin. right. apply H2. exact Hin.
    + exact H3.
    + intros k' u u' [E | X] [E' | X'].
      * congruence.
      * inversion E; subst. exfalso. exact (Hfresh _ X').
      * inversion E'; subst. exfalso. exact (Hfresh _ X).
      * eauto.
    + intros k' r' [E | X].
      * inversion E; subst. exists t. left. reflexivity.
      * destruct (H5 k' r' X) as [u Hu]. exists u. right. exact Hu.
  - unfold reqs_ok. cbn.
    assert (Hkn : ~ In k (dl (tk s t))).
    { intros X. apply H2 in X. exact (Hfresh _ X). }
    split; [|split; [|split; [|split]]].
    + intros k' u [E | Hin].
      * inversion E; subst. split; [lia|]. split; [exact Hlt|]. rewrite upd_same. cbn. rewrite Ec.
        split; [apply in_or_app; right; left; reflexivity | exact Hcnt].
      * destruct (H1 k' u Hin) as (A & B & C). split; [lia|]. split; [exact B|].
        destruct (Nat.eq_dec u t) as [-> | Hne].
        -- rewrite upd_same. cbn. rewrite Ec in *. destruct C as [C1 C2].
           split; [apply in_or_app; left; exact C1 | exact C2].
        -- rewrite upd_other by exact Hne. exact C.
    + intros u k'. destruct (Nat.eq_dec u t) as [-> | Hne].
      * rewrite upd_same. cbn. intros X. apply in_app_or in X. destruct X as [X | [<- | []]].
        -- right. apply H2. exact X.
        -- left. reflexivity.
      * rewrite upd_other by exact Hne. intros X. right. apply H2. exact X.
    + intros u. destruct (Nat.eq_dec u t) as [-> | Hne].
      * rewrite upd_same. cbn. apply NoDup_app_single; [apply H3 | exact Hkn].
      * rewrite upd_other by exact Hne. apply H3.
    + intros k' u u' [E | X] [E' | X'].
      * congruence.
      * inversion E; subst. exfalso. exact (Hfresh _ X').
      * inversion E'; subst. exfalso. exact (Hfresh _ X).
      * eauto.
    + intros k' r' X. destruct (H5 k' r' X) as [u Hu]. exists u. right. exact Hu.
Qed.

Lemma on_fire_reqs j ok s p : reqs_ok s -> reqs_ok (on_fire j ok s p).
Proof.
  intros H. unfold on_fire. set (s1 := upd_task _ _ s).
  assert (H1 : reqs_ok s1).
  { eapply reqs_ok_frame; [|exact H]. apply upd_task_wf. intros x. split; reflexivity. }
  destruct ok.
  - destruct (Nat.eqb (pc (tk s1 (snd p))) 0).
    + eapply reqs_ok_frame; [|exact H1]. split; [ext_step | repeat split].
    + apply resume_body_reqs. exact H1.
  - apply faillater_reqs. exact H1.
Qed.

Lemma fire_reqs j ok s : reqs_ok s -> reqs_ok (fire j ok s).
Proof.
  intros H. unfold fire. apply fold_left_inv; [intros; apply on_fire_reqs; assumption|].
  eapply reqs_ok_frame; [|exact H]. apply set_wf; reflexivity.
Qed.

Lemma fold_complete_reqs c r l : forall s,
  NoDup l -> (forall t, In t l -> comp (tk s t) = None) -> reqs_ok s ->
  reqs_ok (fold_left (fun s t => complete t c r s) l s).
Proof.
  induction l as [|x l IH]; intros s Hnd Hc H; cbn; [exact H|].
  inversion Hnd as [|? ? Hx Hnd']; subst. apply IH; [exact Hnd'| |].
  - intros t Hin. destruct (complete_fields x c r s) as (_ & _ & E3). rewrite E3.
    rewrite upd_other by (intros ->; contradiction). apply Hc. right. exact Hin.
  - apply complete_reqs; [apply Hc; left; reflexivity | exact H].
Qed.

Lemma coop_stop_reqs s : inv1 s -> reqs_ok s -> reqs_ok (coop_stop s).
Proof.
  intros (Hnd & Hiff & _) H. unfold coop_stop.
  set (s2 := fold_left _ _ _).
  assert (H2 : reqs_ok s2).
  { unfold s2. apply fold_complete_reqs; [exact Hnd | |].
    - intros t Hin. apply Hiff in Hin. tauto.
    - eapply reqs_ok_frame; [|exact H]. apply set_wf; reflexivity. }
  assert (H3 : reqs_ok (emit EClear (set_meta 0 (set_tasks [] s2)))).
  { eapply reqs_ok_frame; [|exact H2]. split; [ext_step | repeat split]. }
  match goal with |- reqs_ok (if ?c then _ else _) => destruct c end; [|exact H3].
  eapply reqs_ok_frame; [|exact H3]. split; [ext_step | repeat split].
Qed.

Lemma coop_start_reqs s : reqs_ok s -> reqs_ok (coop_start s).
Proof.
  intros H. unfold coop_start. cbn [must set_started set_stopped].
  assert (H1 : reqs_ok (set_started true (set_stopped false s))).
  { eapply reqs_ok_frame; [|exact H]. apply set_wf; reflexivity. }
  destruct (must s); [|exact H1].
  eapply reqs_ok_frame; [apply reschedule_wf|]. eapply reqs_ok_frame; [|exact H1]. apply set_wf; reflexivity.
Qed.

Lemma has_lt t s : has t s = true -> t < ntasks s.
Proof. unfold has. intros H. apply andb_prop in H. destruct H as [H _]. apply Nat.ltb_lt. exact H. Qed.

Lemma step_inv2 s o : inv2 s -> inv2 (step s o).
Proof.
  intros [H0 R0]. split; [apply step_inv1; exact H0|].
  unfold step. set (s1 := emit EOp s).
  assert (H : inv1 s1) by exact H0.
  assert (R : reqs_ok s1).
  { eapply reqs_ok_frame; [|exact R0]. split; [ext_step | repeat split]. }
  clearbody s1. clear H0 R0 s. rename s1 into s.
  destruct o as [scr co | t | t | t | t | n | j ok | |].
  - set (t := ntasks s). set (s1 := set_ntasks _ _).
    assert (R1 : reqs_ok s1).
    { destruct R as (H1 & H2 & H3 & H4 & H5). unfold reqs_ok, s1. cbn.
      assert (Hno : forall k, ~ In (k, t) (reqd (out s))).
      { intros k X. destruct (H1 k t X) as (_ & B & _). unfold t in B. lia. }
      split; [|split; [|split; [|split]]]; auto.
      - intros k u Hin. destruct (H1 k u Hin) as (A & B & C). split; [exact A|]. split; [lia|].
        rewrite upd_other; [exact C|]. intros ->. exact (Hno k Hin).
      - intros u k. destruct (Nat.eq_dec u t) as [-> | Hne].
        + rewrite upd_same. cbn. tauto.
        + rewrite upd_other by exact Hne. apply H2.
      - intros u. destruct (Nat.eq_dec u t) as [-> | Hne].
        + rewrite upd_same. cbn. constructor.
        + rewrite upd_other by exact Hne. apply H3. }
    assert (Ra : reqs_ok (add_task t s1)).
    { apply add_task_reqs; [|exact R1]. unfold s1. cbn. rewrite upd_same. reflexivity. }
    destruct co; [|exact Ra]. apply when_done_reqs; [|exact Ra].
    assert (E : ntasks (add_task t s1) = S t).
    { unfold add_task. destruct (stopped s1).
      - match goal with |- ntasks (complete t CSched RSched ?z) = _ => destruct (complete_fields t CSched RSched z) as (_ & E & _) end. rewrite E. reflexivity.
      - match goal with |- ntasks (reschedule ?z) = _ => destruct (reschedule_core z) as (_ & E & _) end. rewrite E. reflexivity. }
    rewrite E. lia.
  - destruct (has t s) eqn:Eh; [|exact R]. apply when_done_reqs; [apply has_lt; exact Eh | exact R].
  - destruct (has t s); [|exact R]. destruct (comp (tk s t)) as [[c r]|].
    + eapply reqs_ok_frame; [|exact R]. split; [ext_step | repeat split].
    + eapply reqs_ok_frame; [apply pause_body_wf|]. eapply reqs_ok_frame; [|exact R].
      apply upd_task_wf. intros x. split; reflexivity.
  - destruct (has t s); [|exact R]. destruct (Nat.eqb (pc (tk s t)) 0).
    + eapply reqs_ok_frame; [|exact R]. split; [ext_step | repeat split].
    + apply resume_body_reqs. destruct (Nat.eqb (upause (tk s t)) 0).
      * eapply reqs_ok_frame; [|exact R]. apply set_wf; reflexivity.
      * eapply reqs_ok_frame; [|exact R]. apply upd_task_wf. intros x. split; reflexivity.
  - destruct (has t s); [|exact R]. destruct (comp (tk s t)) as [[c r]|] eqn:Ec.
    + eapply reqs_ok_frame; [|exact R]. split; [ext_step | repeat split].
    + apply complete_reqs; assumption.
  - apply tick_inv2. split; assumption.
  - destruct (defs s j); [|exact R|exact R]. apply fire_reqs.
    eapply reqs_ok_frame; [|exact R]. apply set_wf; reflexivity.
  - apply coop_stop_reqs; assumption.
  - apply coop_start_reqs. exact R.
Qed.

Lemma init_reqs b : reqs_ok (init b).
Proof.
  unfold reqs_ok, init. cbn. split; [|split; [|split; [|split]]]; try tauto.
  intros t. constructor.
Qed.

Lemma reach_inv2 b ops : inv2 (run (init b) ops).
Proof. apply (run_inv step_inv2). split; [apply init_inv1 | apply init_reqs]. Qed.

(** ---- Part 4: the statements exported by Property.v ---- *)
Lemma In_req_reqd k t o : In (EReq k t) o <-> In (k, t) (reqd o).
Proof.
  induction o as [|e o IH]; cbn; [tauto|]. rewrite in_app_iff, <- IH.
  destruct e; cbn; split; intros H; try tauto; try (destruct H as [H | H]; [discriminate | tauto]).
  - destruct H as [H | H]; [inversion H; auto | tauto].
  - destruct H as [[H | []] | H]; [inversion H; auto | tauto].
Qed.
Lemma In_done_dones k r o : In (EDone k r) o <-> In (k, r) (dones o).
Proof.
  induction o as [|e o IH]; cbn; [tauto|]. rewrite in_app_iff, <- IH.
  destruct e; cbn; split; intros H; try tauto; try (destruct H as [H | H]; [discriminate | tauto]).
  - destruct H as [H | H]; [inversion H; auto | tauto].
  - destruct H as [[H | []] | H]; [inversion H; auto | tauto].
Qed.
Lemma filter_rev_length {A} (P : A -> bool) l : length (filter P (rev l)) = length (filter P l).
Proof.
  induction l as [|x l IH]; [reflexivity|]. cbn. rewrite filter_app, app_length, IH. cbn.
  destruct (P x); cbn; lia.
Qed.
Lemma fired_count_cnt k o : fired_count k o = cnt k (dones o).
Proof.
  induction o as [|e o IH]; [reflexivity|].
  change (dones (e :: o)) with ((match e with EDone k r => [(k, r)] | _ => [] end) ++ dones o).
  rewrite cnt_app, <- IH. unfold fired_count, cnt. cbn [filter].
  destruct e; cbn; try reflexivity. destruct (Nat.eqb k0 k); reflexivity.
Qed.

Lemma whenDone_lemma b ops k t :
  let s := run (init b) ops in
  In (EReq k t) (trace s) ->
  fired_count k (trace s) = (if finished s t then 1 else 0)
  /\ (forall r, In (EDone k r) (trace s) -> exists c, comp (tk s t) = Some (c, r))
  /\ (finished s t = false -> In k (dl (tk s t))).
Proof.
  intros s Hin. destruct (reach_inv2 b ops) as [_ R]. fold s in R.
  destruct R as (H1 & _). unfold trace in *. apply in_rev in Hin. apply In_req_reqd in Hin.
  destruct (H1 k t Hin) as (_ & _ & C). unfold fired_count. rewrite filter_rev_length.
  fold (fired_count k (out s)). rewrite fired_count_cnt. unfold finished.
  destruct (comp (tk s t)) as [[c r]|]; cbn [is_none negb].
  - destruct C as [C1 C2]. split; [exact C1|]. split; [|discriminate].
    intros r' X. apply in_rev in X. apply In_done_dones in X. rewrite (C2 r' X). eauto.
  - destruct C as [C1 C2]. split; [exact C2|]. split; [|auto].
    intros r' X. apply in_rev in X. apply In_done_dones in X. exfalso. exact (cnt_pos _ _ _ X C2).
Qed.

Lemma listed_iff_runnable_lemma b ops :
  let s := run (init b) ops in
  NoDup (tasks s) /\ forall t, In t (tasks s) <-> runnable s t = true.
Proof.
  intros s. destruct (reach_inv1 b ops) as (Hnd & Hiff & _). fold s in Hnd, Hiff. split; [exact Hnd|].
  intros t. rewrite Hiff. unfold runnable. rewrite andb_true_iff, Nat.eqb_eq.
  destruct (comp (tk s t)); cbn; intuition congruence.
Qed.

Lemma fold_complete_comp_eq l c r : forall s t,
  NoDup l -> In t l -> comp (tk (fold_left (fun s t => complete t c r s) l s) t) = Some (c, r).
Proof.
  assert (G : forall l' s' t x, ~ In t l' -> comp (tk s' t) = x ->
              comp (tk (fold_left (fun s t => complete t c r s) l' s') t) = x).
  { induction l' as [|y l' IH']; intros s' t x Hn Hs'; cbn; [exact Hs'|]. apply IH'; [cbn in Hn; tauto|].
    destruct (complete_fields y c r s') as (_ & _ & E3). rewrite E3.
    rewrite upd_other; [exact Hs' | intros ->; apply Hn; left; reflexivity]. }
  induction l as [|x l IH]; intros s t Hnd Hin; [destruct Hin|]. cbn.
  inversion Hnd as [|? ? Hx Hnd']; subst. destruct Hin as [-> | Hin].
  - apply G; [exact Hx|]. destruct (complete_fields t c r s) as (_ & _ & E3). rewrite E3, upd_same. reflexivity.
  - apply IH; assumption.
Qed.

Lemma coop_stop_lemma b ops :
  let s := run (init b) ops in
  let s' := step s CoopStop in
  tasks s' = [] /\ delayed s' = false /\ stopped s' = true
  /\ forall t, runnable s t = true -> comp (tk s' t) = Some (CSched, RSched).
Proof.
  intros s s'. destruct (listed_iff_runnable_lemma b ops) as [Hnd Hiff]. fold s in Hnd, Hiff.
  unfold s', step, coop_stop.
  set (s2 := fold_left _ _ _).
  assert (Hst : stopped s2 = true).
  { unfold s2. apply (fold_left_inv (fun z => stopped z = true)); [|reflexivity].
    intros z a Hz. unfold complete.
    match goal with |- context [fire_all ?ks ?r ?z2] =>
      assert (X : stopped (fire_all ks r z2) = stopped z2) end.
    { unfold fire_all. generalize (dl (tk (if Nat.eqb (pc (tk (upd_task a (t_comp (Some (CSched, RSched))) z) a)) 0
         then remove_task a (upd_task a (t_comp (Some (CSched, RSched))) z)
         else upd_task a (t_comp (Some (CSched, RSched))) z) a)).
      intros ks. match goal with |- stopped (fold_left _ ks ?w) = _ => generalize w end.
      induction ks as [|k ks IH]; intros w; cbn; [reflexivity|]. rewrite IH. reflexivity. }
    rewrite X. destruct (Nat.eqb _ 0); [|exact Hz]. unfold remove_task.
    match goal with |- context [if ?c then _ else _] => destruct c end; exact Hz. }
  assert (Hall : forall t, runnable s t = true -> comp (tk s2 t) = Some (CSched, RSched)).
  { intros t Ht. apply Hiff in Ht. unfold s2. apply fold_complete_comp_eq; assumption. }
  destruct (delayed (emit EClear (set_meta 0 (set_tasks [] s2)))) eqn:Ed; cbn;
    (split; [reflexivity|]); (split; [first [reflexivity | exact Ed]|]); (split; [exact Hst | exact Hall]).
Qed.

Lemma finished_ops_lemma s t c r :
  has t (emit EOp s) = true -> comp (tk s t) = Some (c, r) ->
  step s (Pause t) = emit (EExc (exc_of c)) (emit EOp s)
  /\ step s (Stop t) = emit (EExc (exc_of c)) (emit EOp s)
  /\ out (step s (WhenDone t)) = EDone (nextd s) r :: EReq (nextd s) t :: EOp :: out s.
Proof.
  intros Hh Hc. unfold step. rewrite Hh. cbn [tk emit]. rewrite Hc.
  split; [reflexivity|]. split; [reflexivity|]. unfold when_done. cbn. rewrite Hc. reflexivity.
Qed.

Lemma resume_not_paused_lemma s t :
  has t (emit EOp s) = true -> pc (tk s t) = 0 -> step s (Resume t) = emit (EExc XNotPaused) (emit EOp s).
Proof. intros Hh Hp. unfold step. rewrite Hh. cbn [tk emit]. rewrite Hp. reflexivity. Qed.

(** what was wrong with the pinned Cooperator.stop(): three runnable tasks, the middle one is skipped *)
Definition f2_history : list op := [Add [AYield] false; Add [AYield] false; Add [AYield] false; WhenDone 1].

Lemma unpatched_stop_skips_lemma :
  let s := run (init true) f2_history in
  runnable s 1 = true /\ comp (tk (coop_stop_unpatched s) 1) = None
  /\ fired_count 0 (trace (coop_stop_unpatched s)) = 0
  /\ comp (tk (coop_stop s) 1) = Some (CSched, RSched) /\ fired_count 0 (trace (coop_stop s)) = 1.
Proof. vm_compute. repeat split. Qed.

(** a non-trivial history: three tasks, Deferreds, pause/resume, stop, ticks; its log contains
    advances, requests and completions, so the theorems above are not vacuous *)
Definition sample_history : list op :=
  [Add [AYield; AYieldDef 0; AYield] false; Add [AYield; AYield] true; Add [ARaise] false; WhenDone 0; WhenDone 2;
   Tick 2; Pause 1; Tick 3; Fire 0 true; Resume 1; Tick 20; Tick 20; Stop 0; WhenDone 0].

Lemma sample_history_nontrivial :
  let s := run (init true) sample_history in
  In (EAdv 1 0 true 0 0) (trace s) /\ In (EReq 0 1) (trace s) /\ In (EDone 0 RIter) (trace s)
  /\ In (EDone 2 RRaised) (trace s) /\ finished s 0 = true /\ misuse s = false.
Proof. vm_compute. repeat split; tauto. Qed.
