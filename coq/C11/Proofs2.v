(** C11 proofs, second file:
    Part 5  a call is scheduled exactly when a runnable task exists ([schedP]);
    Part 6  pauseCount = user pauses + pending yielded Deferreds ([glink]) — never advanced while waiting;
    Part 7  the `_tasks` list and `_metarator` follow the ghost list events of the log ([sim]) — bounded wait
            through TwLib.PyListIterFair. *)
From Coq Require Import List Arith Bool Lia.
From TwLib Require Import PyListIter PyListIterFair.
From C11 Require Import Model Proofs.
Import ListNotations.

(** ================= Part 5: scheduling ================= *)
Definition weak (s : st) : Prop :=
  (delayed s = true -> is_nil (tasks s) = false /\ started s = true)
  /\ (started s = false -> is_nil (tasks s) = false -> must s = true).
Definition strong (s : st) : Prop :=
  started s = true -> is_nil (tasks s) = false -> delayed s = true.
(** [mid = true] inside a tick (the delayed call has been consumed), [false] between API calls *)
Definition schedP (mid : bool) (s : st) : Prop := weak s /\ (mid = false -> strong s).

Definition vframe (s s' : st) : Prop :=
  tasks s' = tasks s /\ delayed s' = delayed s /\ started s' = started s /\ must s' = must s /\ stopped s' = stopped s.

Lemma vframe_refl s : vframe s s. Proof. repeat split. Qed.
Lemma vframe_trans a b c : vframe a b -> vframe b c -> vframe a c.
Proof. unfold vframe. intuition congruence. Qed.
Lemma schedP_vframe mid s s' : vframe s s' -> schedP mid s -> schedP mid s'.
Proof. intros (A & B & C & D & _). unfold schedP, weak, strong. rewrite A, B, C, D. tauto. Qed.

Lemma fire_all_vframe ks r s : vframe s (fire_all ks r s).
Proof.
  unfold fire_all. revert s. induction ks as [|k ks IH]; intros s; cbn; [apply vframe_refl|].
  eapply vframe_trans; [|apply IH]. repeat split.
Qed.

Lemma is_nil_remove_first t l : is_nil (remove_first t l) = false -> is_nil l = false.
Proof. destruct l; [cbn; auto | reflexivity]. Qed.

Lemma remove_task_sched mid t s : schedP mid s -> schedP mid (remove_task t s).
Proof.
  intros [[W1 W2] S]. unfold remove_task. cbn [tasks delayed emit set_tasks].
  pose proof (is_nil_remove_first t (tasks s)) as Hn.
  destruct (is_nil (remove_first t (tasks s))) eqn:En; destruct (delayed s) eqn:Ed; cbn [andb];
    unfold schedP, weak, strong in *; cbn; rewrite ?En, ?Ed; repeat split; intros; try discriminate; try congruence; auto.
  all: try (destruct (W1 eq_refl); auto; fail).
  exfalso. assert (X : delayed s = true) by (apply S; auto). congruence.
Qed.

Lemma reschedule_sched mid s : schedP mid s -> schedP mid (reschedule s).
Proof.
  intros [[W1 W2] S]. unfold reschedule.
  destruct (started s) eqn:Es; cbn [negb].
  - destruct (delayed s) eqn:Ed; cbn [negb andb]; [unfold schedP, weak, strong; rewrite ?Es, ?Ed; tauto|].
    destruct (is_nil (tasks s)) eqn:En; cbn [negb];
      unfold schedP, weak, strong; cbn; rewrite ?Es, ?Ed, ?En; repeat split; intros; try discriminate; auto.
  - unfold schedP, weak, strong. cbn. rewrite Es. repeat split; intros; try discriminate; auto.
    all: match goal with H : delayed _ = true |- _ => destruct (W1 H); auto; congruence end.
Qed.

Lemma reschedule_establish s : weak s -> schedP false (reschedule s).
Proof.
  intros [W1 W2]. unfold reschedule.
  destruct (started s) eqn:Es; cbn [negb].
  - destruct (delayed s) eqn:Ed; cbn [negb andb].
    + unfold schedP, weak, strong. rewrite Es, Ed. destruct (W1 eq_refl). repeat split; auto; intros; discriminate.
    + destruct (is_nil (tasks s)) eqn:En; cbn [negb];
        unfold schedP, weak, strong; cbn; rewrite ?Es, ?Ed, ?En; repeat split; intros; try discriminate; auto.
  - unfold schedP, weak, strong. cbn. rewrite Es. repeat split; intros; try discriminate; auto.
    all: match goal with H : delayed _ = true |- _ => destruct (W1 H); auto; congruence end.
Qed.

Lemma complete_sched mid t c r s : schedP mid s -> schedP mid (complete t c r s).
Proof.
  intros H. unfold complete. eapply schedP_vframe; [apply fire_all_vframe|].
  match goal with |- context [if ?c then _ else _] => destruct c end.
  - apply remove_task_sched. eapply schedP_vframe; [|exact H]. repeat split.
  - eapply schedP_vframe; [|exact H]. repeat split.
Qed.

Lemma is_nil_app_single (l : list nat) t : is_nil (l ++ [t]) = false.
Proof. destruct l; reflexivity. Qed.

(** _addTask of a task that is not listed and has pause count 0 *)
Lemma add_task_sched mid t s :
  ~ In t (tasks s) -> pc (tk s t) = 0 -> schedP mid s -> schedP mid (add_task t s).
Proof.
  intros Hnin Hp H. unfold add_task.
  destruct (stopped s) eqn:Est.
  - (* append, then _completeWith removes it again: the list, and what is scheduled, are unchanged *)
    unfold complete. eapply schedP_vframe; [apply fire_all_vframe|].
    cbn [tk upd_task set_tk emit set_tasks]. rewrite upd_same. cbn [pc t_comp]. rewrite Hp. cbn [Nat.eqb].
    unfold remove_task. cbn [tasks delayed emit set_tasks upd_task set_tk].
    rewrite (remove_first_app_notin (tasks s) t [] Hnin), app_nil_r.
    destruct H as [[W1 W2] S].
    destruct (is_nil (tasks s)) eqn:En; destruct (delayed s) eqn:Ed; cbn [andb];
      try (destruct (W1 eq_refl); congruence);
      unfold schedP, weak, strong; cbn; rewrite ?En, ?Ed; repeat split; intros; try discriminate; try congruence; auto.
    all: try (destruct (W1 eq_refl); auto; fail).
    all: exfalso; match goal with Hm : _ = false, Hs : started _ = true |- _ => pose proof (S Hm Hs En) as X end; congruence.
  - destruct H as [[W1 W2] S]. unfold reschedule. cbn [started delayed tasks emit set_tasks].
    rewrite is_nil_app_single. cbn [negb andb].
    destruct (started s) eqn:Es; cbn [negb].
    + destruct (delayed s) eqn:Ed; cbn [negb];
        unfold schedP, weak, strong; cbn; rewrite ?Es, ?Ed, ?is_nil_app_single; repeat split; intros; try discriminate; auto.
    + unfold schedP, weak, strong; cbn; rewrite ?Es, ?is_nil_app_single. repeat split; intros; try discriminate; auto.
      destruct (delayed s) eqn:Ed; [destruct (W1 eq_refl); discriminate | discriminate].
Qed.

Lemma upd_task_vframe t f s : vframe s (upd_task t f s). Proof. repeat split. Qed.

Lemma resume_body_sched mid t s : inv1 s -> pc (tk s t) <> 0 -> schedP mid s -> schedP mid (resume_body t s).
Proof.
  intros (_ & Hiff & _) Hp H. unfold resume_body.
  set (s1 := upd_task t _ s).
  assert (H1 : schedP mid s1) by (eapply schedP_vframe; [apply upd_task_vframe | exact H]).
  destruct (Nat.eqb (pc (tk s1 t)) 0) eqn:E; cbn [andb]; [|exact H1].
  destruct (is_none (comp (tk s1 t))); [|exact H1].
  apply add_task_sched; [|apply Nat.eqb_eq; exact E|exact H1].
  change (tasks s1) with (tasks s). intros Hin. apply Hiff in Hin. tauto.
Qed.

Lemma pause_body_sched mid t s : schedP mid s -> schedP mid (pause_body t s).
Proof.
  intros H. unfold pause_body. match goal with |- context [if ?c then _ else _] => destruct c end.
  - apply remove_task_sched. eapply schedP_vframe; [apply upd_task_vframe | exact H].
  - eapply schedP_vframe; [apply upd_task_vframe | exact H].
Qed.

Lemma faillater_sched mid t j s : schedP mid s -> schedP mid (faillater t j s).
Proof. intros H. unfold faillater. destruct (is_none _); [apply complete_sched|]; exact H. Qed.

Lemma work_unit_sched t s : inv1 s -> In t (tasks s) -> schedP true s -> schedP true (work_unit t s).
Proof.
  intros Hi Hin H. unfold work_unit. set (s0 := emit _ s).
  assert (H0 : schedP true s0) by (eapply schedP_vframe; [|exact H]; repeat split).
  assert (Hi0 : inv1 s0) by exact Hi.
  destruct (script (tk s t)) as [|a r].
  - apply complete_sched. exact H0.
  - destruct a as [|j|].
    + eapply schedP_vframe; [apply upd_task_vframe | exact H0].
    + set (sa := upd_task t (t_script r) s0).
      assert (Hia : inv1 sa) by (apply upd_task_inv1; [intros x; split; reflexivity | exact Hi0]).
      assert (Ha : schedP true sa) by (eapply schedP_vframe; [apply upd_task_vframe | exact H0]).
      set (s1 := pause_body t sa).
      assert (H1 : schedP true s1) by (apply pause_body_sched; exact Ha).
      assert (Hi1 : inv1 s1) by (apply pause_body_inv1; exact Hia).
      assert (Hp : pc (tk s1 t) <> 0).
      { unfold s1, pause_body.
        match goal with |- context [if ?c then _ else _] => destruct c end.
        - match goal with |- context [remove_task t ?z] => destruct (remove_task_fields t z) as (_ & _ & F3) end.
          rewrite F3. cbn. rewrite !upd_same. cbn. discriminate.
        - cbn. rewrite !upd_same. cbn. discriminate. }
      destruct (defs s1 j).
      * eapply schedP_vframe; [apply upd_task_vframe|]. eapply schedP_vframe; [|exact H1]. repeat split.
      * apply resume_body_sched; assumption.
      * apply faillater_sched. exact H1.
    + apply complete_sched. eapply schedP_vframe; [apply upd_task_vframe | exact H0].
Qed.

Lemma units_sched n : forall s, inv1 s -> schedP true s -> schedP true (units n s).
Proof.
  induction n as [|n IH]; intros s Hi H; cbn; [exact H|].
  destruct (next_task s) as [o s1] eqn:E. destruct (next_task_meta _ _ _ E) as [i Ei].
  apply next_task_spec in E. destruct E as (Hc & Ho & Hin).
  assert (H1 : schedP true s1) by (eapply schedP_vframe; [|exact H]; rewrite Ei; repeat split).
  assert (Hi1 : inv1 s1) by (eapply inv1_core; eauto).
  destruct o as [t|]; [|eapply schedP_vframe; [|exact H1]; repeat split].
  assert (Hin1 : In t (tasks s1)) by (destruct Hc as (Et & _); rewrite Et; exact Hin).
  apply IH; [apply work_unit_inv1; assumption | apply work_unit_sched; assumption].
Qed.

Lemma tick_sched n s : inv1 s -> schedP false s -> schedP false (tick n s).
Proof.
  intros Hi H. unfold tick. destruct (delayed s) eqn:Ed; [|exact H].
  apply reschedule_establish.
  set (s1 := set_delayed false s).
  assert (H1 : schedP true s1).
  { destruct H as [[W1 W2] _]. unfold schedP, weak, s1. cbn. repeat split; intros; try discriminate; auto. }
  destruct (is_nil (tasks s1)); [exact (proj1 H1)|]. apply (units_sched _ s1 Hi H1).
Qed.

Lemma when_done_vframe t s : vframe s (when_done t s).
Proof. unfold when_done. cbn [tk emit set_nextd comp]. destruct (comp (tk s t)) as [[? ?]|]; repeat split. Qed.

Lemma on_fire_sched mid j ok s p : inv1 s -> schedP mid s -> schedP mid (on_fire j ok s p).
Proof.
  intros Hi H. unfold on_fire. set (s1 := upd_task _ _ s).
  assert (H1 : schedP mid s1) by (eapply schedP_vframe; [apply upd_task_vframe | exact H]).
  assert (Hi1 : inv1 s1) by (apply upd_task_inv1; [intros x; split; reflexivity | exact Hi]).
  destruct ok.
  - destruct (Nat.eqb_spec (pc (tk s1 (snd p))) 0).
    + eapply schedP_vframe; [|exact H1]. repeat split.
    + apply resume_body_sched; assumption.
  - apply faillater_sched. exact H1.
Qed.

Lemma fire_sched mid j ok s : inv1 s -> schedP mid s -> schedP mid (fire j ok s).
Proof.
  intros Hi H. unfold fire.
  apply (fold_left_inv (fun z => inv1 z /\ schedP mid z)).
  - intros z a [A B]. split; [apply on_fire_inv1; exact A | apply on_fire_sched; assumption].
  - split; [exact Hi|]. eapply schedP_vframe; [|exact H]. repeat split.
Qed.

Lemma coop_stop_sched s : schedP false (coop_stop s).
Proof.
  unfold coop_stop. match goal with |- context [if ?c then _ else _] => destruct c eqn:Ed end;
    unfold schedP, weak, strong; cbn; cbn in Ed; rewrite ?Ed; repeat split; intros; try discriminate; auto.
Qed.

Lemma coop_start_sched s : schedP false s -> schedP false (coop_start s).
Proof.
  intros [[W1 W2] S]. unfold coop_start. cbn [must set_started set_stopped].
  destruct (must s) eqn:Em.
  - apply reschedule_establish. unfold weak. cbn. split; [|intros; discriminate].
    intros Hd. destruct (W1 Hd). auto.
  - unfold schedP, weak, strong. cbn. rewrite Em. repeat split; intros; try discriminate; auto.
    all: try (match goal with H : delayed _ = true |- _ => destruct (W1 H); auto; fail end).
    destruct (started s) eqn:Es; [apply S; auto|]. exfalso.
    match goal with Hn : is_nil _ = false |- _ => specialize (W2 eq_refl Hn) end. congruence.
Qed.

Lemma step_sched s o : inv1 s -> schedP false s -> schedP false (step s o).
Proof.
  intros Hi0 H0. unfold step. set (s1 := emit EOp s).
  assert (Hi : inv1 s1) by exact Hi0.
  assert (H : schedP false s1) by (eapply schedP_vframe; [|exact H0]; repeat split).
  clearbody s1. clear Hi0 H0 s. rename s1 into s.
  destruct o as [scr co | t | t | t | t | n | j ok | |].
  - set (t := ntasks s). set (s1 := set_ntasks _ _).
    assert (Ha : schedP false (add_task t s1)).
    { apply add_task_sched.
      - change (tasks s1) with (tasks s). destruct Hi as (_ & Hiff & Hfree). intros Hin. apply Hiff in Hin.
        destruct Hin as [_ Hc]. apply (Hfree t); [unfold t; lia | exact Hc].
      - unfold s1. cbn. rewrite upd_same. reflexivity.
      - eapply schedP_vframe; [|exact H]. repeat split. }
    destruct co; [|exact Ha]. eapply schedP_vframe; [apply when_done_vframe | exact Ha].
  - destruct (has t s); [|exact H]. eapply schedP_vframe; [apply when_done_vframe | exact H].
  - destruct (has t s); [|exact H]. destruct (comp (tk s t)) as [[c r]|].
    + eapply schedP_vframe; [|exact H]. repeat split.
    + apply pause_body_sched. eapply schedP_vframe; [apply upd_task_vframe | exact H].
  - destruct (has t s); [|exact H]. destruct (Nat.eqb_spec (pc (tk s t)) 0) as [E | E].
    + eapply schedP_vframe; [|exact H]. repeat split.
    + apply resume_body_sched.
      * destruct (Nat.eqb (upause (tk s t)) 0); [exact Hi|].
        apply upd_task_inv1; [intros x; split; reflexivity | exact Hi].
      * destruct (Nat.eqb (upause (tk s t)) 0); [exact E|]. cbn. rewrite upd_same. exact E.
      * destruct (Nat.eqb (upause (tk s t)) 0); (eapply schedP_vframe; [|exact H]; repeat split).
  - destruct (has t s); [|exact H]. destruct (comp (tk s t)) as [[c r]|].
    + eapply schedP_vframe; [|exact H]. repeat split.
    + apply complete_sched. exact H.
  - apply tick_sched; assumption.
  - destruct (defs s j); [|exact H|exact H]. apply fire_sched; [exact Hi|].
    eapply schedP_vframe; [|exact H]. repeat split.
  - apply coop_stop_sched.
  - apply coop_start_sched. exact H.
Qed.

Lemma reach_sched b ops : inv1 (run (init b) ops) /\ schedP false (run (init b) ops).
Proof.
  apply (run_inv (P := fun s => inv1 s /\ schedP false s)).
  - intros s o [A B]. split; [apply step_inv1; exact A | apply step_sched; assumption].
  - split; [apply init_inv1|]. unfold schedP, weak, strong, init. cbn. repeat split; intros; discriminate.
Qed.

Lemma scheduled_iff_runnable_lemma b ops :
  let s := run (init b) ops in
  (started s = true -> (delayed s = true <-> exists t, runnable s t = true))
  /\ (started s = false -> delayed s = false).
Proof.
  intros s. destruct (reach_sched b ops) as [_ [[W1 W2] S]]. fold s in W1, W2, S.
  destruct (listed_iff_runnable_lemma b ops) as [_ Hiff]. fold s in Hiff.
  split.
  - intros Es. split.
    + intros Hd. destruct (W1 Hd) as [Hn _]. destruct (tasks s) as [|t l] eqn:Et; [discriminate|].
      exists t. apply Hiff. left. reflexivity.
    + intros [t Ht]. apply S; [reflexivity | exact Es |]. apply Hiff in Ht. destruct (tasks s); [destruct Ht | reflexivity].
  - intros Es. destruct (delayed s) eqn:Ed; [|reflexivity]. destruct (W1 eq_refl). congruence.
Qed.

(** ================= Part 7: the task list and the metarator follow the ghost list events ================= *)
Definition aev_of (e : ev) : aev :=
  match e with
  | EAdv t _ _ _ _ => ANext t
  | EApp t => AApp t
  | ERem t => ARem t
  | EClear => AClear
  | _ => ANop
  end.
Definition alog (s : st) : list aev := map aev_of (out s).
Definition a0 : astate := ([], 0).
Definition sim (s : st) : Prop :=
  aafter a0 (alog s) = (tasks s, meta s) /\ consistent a0 (alog s).

Definition quiet (e : ev) : Prop := aev_of e = ANop.
Definition sframe (s s' : st) : Prop := ext quiet s s' /\ tasks s' = tasks s /\ meta s' = meta s.

Lemma sframe_refl s : sframe s s. Proof. split; [apply ext_refl | split; reflexivity]. Qed.
Lemma sframe_trans a b c : sframe a b -> sframe b c -> sframe a c.
Proof. intros (A1 & B1 & C1) (A2 & B2 & C2). split; [eapply ext_trans; eauto | split; congruence]. Qed.

Lemma aafter_quiet l : Forall quiet l -> forall o, aafter a0 (map aev_of (l ++ o)) = aafter a0 (map aev_of o)
                                              /\ (consistent a0 (map aev_of (l ++ o)) <-> consistent a0 (map aev_of o)).
Proof.
  induction 1 as [|e l He Hl IH]; intros o; cbn [app map]; [tauto|].
  destruct (IH o) as [A B]. cbn [aafter fold_right consistent]. fold (aafter a0 (map aev_of (l ++ o))).
  unfold quiet in He. rewrite He. cbn [astep]. split; [exact A | tauto].
Qed.

Lemma sim_frame s s' : sframe s s' -> sim s -> sim s'.
Proof.
  intros ((l & El & Fl) & Et & Em) [A B]. unfold sim, alog in *. rewrite El, Et, Em.
  destruct (aafter_quiet l Fl (out s)) as [X Y]. rewrite X. split; [exact A | apply Y; exact B].
Qed.

Ltac sfr := split; [ext_step | split; reflexivity].

Lemma fire_all_sframe ks r s : sframe s (fire_all ks r s).
Proof.
  unfold fire_all. revert s. induction ks as [|k ks IH]; intros s; cbn; [apply sframe_refl|].
  eapply sframe_trans; [|apply IH]. sfr.
Qed.
Lemma reschedule_sframe s : sframe s (reschedule s).
Proof.
  unfold reschedule. destruct (negb (started s)); [sfr|].
  destruct (negb (delayed s) && negb (is_nil (tasks s))); sfr.
Qed.

Lemma remove_task_sim t s : sim s -> sim (remove_task t s).
Proof.
  intros [A B]. unfold remove_task.
  assert (H1 : sim (emit (ERem t) (set_tasks (remove_first t (tasks s)) s))).
  { unfold sim, alog in *. cbn [out emit set_tasks map aev_of aafter fold_right consistent tasks meta].
    fold (aafter a0 (map aev_of (out s))). rewrite A. cbn. split; [reflexivity | tauto]. }
  match goal with |- context [if ?c then _ else _] => destruct c end; [|exact H1].
  eapply sim_frame; [|exact H1]. sfr.
Qed.

Lemma complete_sim t c r s : sim s -> sim (complete t c r s).
Proof.
  intros H. unfold complete. eapply sim_frame; [apply fire_all_sframe|].
  match goal with |- context [if ?c then _ else _] => destruct c end.
  - apply remove_task_sim. eapply sim_frame; [|exact H]. sfr.
  - eapply sim_frame; [|exact H]. sfr.
Qed.

Lemma add_task_sim t s : sim s -> sim (add_task t s).
Proof.
  intros [A B]. unfold add_task.
  assert (H1 : sim (emit (EApp t) (set_tasks (tasks s ++ [t]) s))).
  { unfold sim, alog in *. cbn [out emit set_tasks map aev_of aafter fold_right consistent tasks meta].
    fold (aafter a0 (map aev_of (out s))). rewrite A. cbn. split; [reflexivity | tauto]. }
  destruct (stopped s); [apply complete_sim; exact H1|].
  eapply sim_frame; [apply reschedule_sframe | exact H1].
Qed.

Lemma upd_task_sframe t f s : sframe s (upd_task t f s). Proof. sfr. Qed.

Lemma resume_body_sim t s : sim s -> sim (resume_body t s).
Proof.
  intros H. unfold resume_body. set (s1 := upd_task _ _ s).
  assert (H1 : sim s1) by (eapply sim_frame; [apply upd_task_sframe | exact H]).
  match goal with |- context [if ?c then _ else _] => destruct c end; [apply add_task_sim|]; exact H1.
Qed.
Lemma pause_body_sim t s : sim s -> sim (pause_body t s).
Proof.
  intros H. unfold pause_body. set (s1 := upd_task _ _ s).
  assert (H1 : sim s1) by (eapply sim_frame; [apply upd_task_sframe | exact H]).
  match goal with |- context [if ?c then _ else _] => destruct c end; [apply remove_task_sim|]; exact H1.
Qed.
Lemma faillater_sim t j s : sim s -> sim (faillater t j s).
Proof. intros H. unfold faillater. destruct (is_none _); [apply complete_sim|]; exact H. Qed.

(** the part of _oneWorkUnit after the advance has been logged *)
Lemma work_unit_sim t s :
  (forall p b nw up, sim (emit (EAdv t p b nw up) s)) -> sim (work_unit t s).
Proof.
  intros H. unfold work_unit. set (s0 := emit _ s).
  assert (H0 : sim s0) by apply H.
  destruct (script (tk s t)) as [|a r].
  - apply complete_sim. exact H0.
  - destruct a as [|j|].
    + eapply sim_frame; [apply upd_task_sframe | exact H0].
    + set (s1 := pause_body t _).
      assert (H1 : sim s1).
      { unfold s1. apply pause_body_sim. eapply sim_frame; [apply upd_task_sframe | exact H0]. }
      destruct (defs s1 j).
      * eapply sim_frame; [apply upd_task_sframe|]. eapply sim_frame; [|exact H1]. sfr.
      * apply resume_body_sim. exact H1.
      * apply faillater_sim. exact H1.
    + apply complete_sim. eapply sim_frame; [apply upd_task_sframe | exact H0].
Qed.

(** next_task IS the abstract `next()` *)
Lemma next_task_anext s : 
  anext (tasks s, meta s) = (fst (next_task s), (tasks (snd (next_task s)), meta (snd (next_task s)))).
Proof.
  unfold anext, next_task. destruct (it_next (tasks s) (meta s)) as [[t i]|]; [reflexivity|].
  destruct (it_next (tasks s) 0) as [[t i]|]; reflexivity.
Qed.

Lemma units_sim n : forall s, sim s -> sim (units n s).
Proof.
  induction n as [|n IH]; intros s [A B]; cbn [units]; [split; assumption|].
  pose proof (next_task_anext s) as Hn. pose proof (next_task_spec s) as Hs.
  destruct (next_task s) as [o s1] eqn:E. cbn [fst snd] in Hn. specialize (Hs o s1 eq_refl).
  destruct Hs as (_ & Ho & Hin). destruct o as [t|].
  - apply IH. apply work_unit_sim. intros p b nw up.
    unfold sim, alog in *. cbn [out emit map aev_of aafter fold_right consistent tasks meta].
    rewrite Ho. fold (aafter a0 (map aev_of (out s))). rewrite A. cbn [astep]. rewrite Hn. cbn [fst snd].
    split; [reflexivity | tauto].
  - destruct (next_task_meta _ _ _ E) as [i Ei]. 
    unfold sim, alog in *. cbn [out emit map aev_of aafter fold_right consistent tasks meta].
    rewrite Ho. cbn [astep]. split; [|tauto].
    assert (Et : tasks s1 = []) by (rewrite Ei; exact Hin).
    assert (Em : meta s1 = 0).
    { unfold next_task in E. rewrite Hin in E. unfold it_next in E. destruct (meta s); cbn in E; inversion E; reflexivity. }
    rewrite Et, Em. reflexivity.
Qed.

Lemma tick_sim n s : sim s -> sim (tick n s).
Proof.
  intros H. unfold tick. destruct (delayed s); [|exact H].
  eapply sim_frame; [apply reschedule_sframe|].
  assert (H1 : sim (set_delayed false s)) by (eapply sim_frame; [|exact H]; sfr).
  destruct (is_nil _); [exact H1 | apply units_sim; exact H1].
Qed.

Lemma when_done_sframe t s : sframe s (when_done t s).
Proof. unfold when_done. cbn [tk emit set_nextd comp]. destruct (comp (tk s t)) as [[? ?]|]; sfr. Qed.

Lemma on_fire_sim j ok s p : sim s -> sim (on_fire j ok s p).
Proof.
  intros H. unfold on_fire. set (s1 := upd_task _ _ s).
  assert (H1 : sim s1) by (eapply sim_frame; [apply upd_task_sframe | exact H]).
  destruct ok.
  - destruct (Nat.eqb _ 0); [eapply sim_frame; [|exact H1]; sfr | apply resume_body_sim; exact H1].
  - apply faillater_sim. exact H1.
Qed.

Lemma fire_sim j ok s : sim s -> sim (fire j ok s).
Proof.
  intros H. unfold fire. apply fold_left_inv; [intros; apply on_fire_sim; assumption|].
  eapply sim_frame; [|exact H]. sfr.
Qed.

Lemma coop_stop_sim s : sim s -> sim (coop_stop s).
Proof.
  intros H. unfold coop_stop. set (s2 := fold_left _ _ _).
  assert (H2 : sim s2).
  { unfold s2. apply fold_left_inv; [intros; apply complete_sim; assumption|]. eapply sim_frame; [|exact H]. sfr. }
  assert (H3 : sim (emit EClear (set_meta 0 (set_tasks [] s2)))).
  { destruct H2 as [A B]. unfold sim, alog in *. cbn. split; [reflexivity | tauto]. }
  match goal with |- sim (if ?c then _ else _) => destruct c end; [|exact H3].
  eapply sim_frame; [|exact H3]. sfr.
Qed.

Lemma coop_start_sim s : sim s -> sim (coop_start s).
Proof.
  intros H. unfold coop_start. cbn [must set_started set_stopped].
  assert (H1 : sim (set_started true (set_stopped false s))) by (eapply sim_frame; [|exact H]; sfr).
  destruct (must s); [|exact H1].
  eapply sim_frame; [apply reschedule_sframe|]. eapply sim_frame; [|exact H1]. sfr.
Qed.

Lemma step_sim s o : sim s -> sim (step s o).
Proof.
  intros H0. unfold step. set (s1 := emit EOp s).
  assert (H : sim s1) by (eapply sim_frame; [|exact H0]; sfr).
  clearbody s1. clear H0 s. rename s1 into s.
  destruct o as [scr co | t | t | t | t | n | j ok | |].
  - set (s1 := set_ntasks _ _).
    assert (Ha : sim (add_task (ntasks s) s1)) by (apply add_task_sim; eapply sim_frame; [|exact H]; sfr).
    destruct co; [|exact Ha]. eapply sim_frame; [apply when_done_sframe | exact Ha].
  - destruct (has t s); [|exact H]. eapply sim_frame; [apply when_done_sframe | exact H].
  - destruct (has t s); [|exact H]. destruct (comp (tk s t)) as [[c r]|]; [eapply sim_frame; [|exact H]; sfr|].
    apply pause_body_sim. eapply sim_frame; [apply upd_task_sframe | exact H].
  - destruct (has t s); [|exact H]. destruct (Nat.eqb (pc (tk s t)) 0); [eapply sim_frame; [|exact H]; sfr|].
    apply resume_body_sim. destruct (Nat.eqb (upause (tk s t)) 0); (eapply sim_frame; [|exact H]; sfr).
  - destruct (has t s); [|exact H]. destruct (comp (tk s t)) as [[c r]|]; [eapply sim_frame; [|exact H]; sfr|].
    apply complete_sim. exact H.
  - apply tick_sim. exact H.
  - destruct (defs s j); [|exact H|exact H]. apply fire_sim. eapply sim_frame; [|exact H]. sfr.
  - apply coop_stop_sim. exact H.
  - apply coop_start_sim. exact H.
Qed.

Lemma reach_sim b ops : sim (run (init b) ops).
Proof. apply (run_inv step_sim). split; [reflexivity | exact I]. Qed.

(** BOUNDED WAIT for the Cooperator: cut the ghost log of any history anywhere — [older] is what happened
    before, [seg] (newest first) a stretch after it.  If task t is listed at the cut and throughout [seg] is neither
    removed from `_tasks` (not paused, not finished, no Cooperator.stop) nor advanced, then the number of work
    units done in [seg] is at most N*(1+removals)+appends, N = (tasks listed at the cut) + appends. *)
Lemma bounded_wait_lemma b ops seg older t :
  alog (run (init b) ops) = seg ++ older ->
  In t (fst (aafter a0 older)) ->
  Forall (undisturbed t) seg ->
  count_next seg <= (length (fst (aafter a0 older)) + count_app seg) * (1 + count_rem seg) + count_app seg.
Proof.
  intros Hcut Hin Hu. destruct (reach_sim b ops) as [_ Hc]. rewrite Hcut in Hc.
  apply (bounded_wait t (aafter a0 older) seg Hin Hu).
  (* consistency of the stretch, started from the state at the cut *)
  clear Hcut Hin Hu. induction seg as [|e seg IH]; [exact I|].
  cbn [app consistent] in Hc. destruct Hc as [He Hr]. cbn [consistent]. split; [|apply IH; exact Hr].
  destruct e; auto. unfold aafter in *. rewrite fold_right_app in He. exact He.
Qed.

Lemma ghost_log_is_the_scheduler_lemma b ops :
  let s := run (init b) ops in
  aafter a0 (alog s) = (tasks s, meta s) /\ consistent a0 (alog s).
Proof. exact (reach_sim b ops). Qed.

(** ================= Part 6: pauseCount = user pauses + pending yielded Deferreds ================= *)
Definition nwaits (t : nat) (w : list (nat * nat)) : nat := length (filter (fun p => Nat.eqb (snd p) t) w).

(** [extra]: callbacks already taken off [dwait] by a firing in progress but not yet run *)
Definition glinkx (extra : list (nat * nat)) (s : st) : Prop :=
  (forall t, nwait (tk s t) = nwaits t (dwait s) + nwaits t extra)
  /\ (misuse s = false -> forall t, comp (tk s t) = None -> pc (tk s t) = upause (tk s t) + nwait (tk s t))
  /\ (forall t, ntasks s <= t -> nwait (tk s t) = 0).
Definition glink := glinkx [].

(** helpers that leave pause counts, the ghost counters, the waiting list, `misuse` and the task count alone
    (a task may become finished, never unfinished) *)
Definition gframe (s s' : st) : Prop :=
  dwait s' = dwait s /\ misuse s' = misuse s /\ ntasks s' = ntasks s
  /\ forall t, pc (tk s' t) = pc (tk s t) /\ upause (tk s' t) = upause (tk s t) /\ nwait (tk s' t) = nwait (tk s t)
               /\ (comp (tk s' t) = None -> comp (tk s t) = None).

Lemma gframe_refl s : gframe s s. Proof. repeat split; auto. Qed.
Lemma gframe_trans a b c : gframe a b -> gframe b c -> gframe a c.
Proof.
  intros (A1 & B1 & C1 & D1) (A2 & B2 & C2 & D2). split; [congruence|]. split; [congruence|]. split; [congruence|].
  intros t. destruct (D1 t) as (P1 & U1 & N1 & K1), (D2 t) as (P2 & U2 & N2 & K2). repeat split; try congruence; auto.
Qed.
Lemma glinkx_frame x s s' : gframe s s' -> glinkx x s -> glinkx x s'.
Proof.
  intros (A & B & C & D) (G1 & G2 & G3). unfold glinkx. rewrite A, B, C. split; [|split].
  - intros t. destruct (D t) as (_ & _ & N & _). rewrite N. apply G1.
  - intros Hm t Hc. destruct (D t) as (P & U & N & K). rewrite P, U, N. apply G2; auto.
  - intros t Ht. destruct (D t) as (_ & _ & N & _). rewrite N. apply G3. exact Ht.
Qed.

Ltac gfr := split; [reflexivity | split; [reflexivity | split; [reflexivity | intros ?t; repeat split; auto]]].

Lemma fire_all_gframe ks r s : gframe s (fire_all ks r s).
Proof.
  unfold fire_all. revert s. induction ks as [|k ks IH]; intros s; cbn; [apply gframe_refl|].
  eapply gframe_trans; [|apply IH]. gfr.
Qed.
Lemma reschedule_gframe s : gframe s (reschedule s).
Proof.
  unfold reschedule. destruct (negb (started s)); [gfr|].
  destruct (negb (delayed s) && negb (is_nil (tasks s))); gfr.
Qed.
Lemma remove_task_gframe t s : gframe s (remove_task t s).
Proof. unfold remove_task. match goal with |- context [if ?c then _ else _] => destruct c end; gfr. Qed.

Lemma upd_comp_gframe t c s : gframe s (upd_task t (t_comp (Some c)) s).
Proof.
  split; [reflexivity|]. split; [reflexivity|]. split; [reflexivity|]. intros u. cbn.
  destruct (Nat.eq_dec u t) as [-> | Hne]; [rewrite upd_same; cbn; repeat split; auto; discriminate|].
  rewrite upd_other by exact Hne. repeat split; auto.
Qed.

Lemma complete_gframe t c r s : gframe s (complete t c r s).
Proof.
  unfold complete. eapply gframe_trans; [|apply fire_all_gframe].
  match goal with |- context [if ?c then _ else _] => destruct c end.
  - eapply gframe_trans; [apply upd_comp_gframe | apply remove_task_gframe].
  - apply upd_comp_gframe.
Qed.
Lemma add_task_gframe t s : gframe s (add_task t s).
Proof.
  unfold add_task. destruct (stopped s).
  - eapply gframe_trans; [|apply complete_gframe]. gfr.
  - eapply gframe_trans; [|apply reschedule_gframe]. gfr.
Qed.
Lemma faillater_gframe t j s : gframe s (faillater t j s).
Proof. unfold faillater. destruct (is_none _); [apply complete_gframe | apply gframe_refl]. Qed.

(** a change of one task's pause count followed by frame steps *)
Definition pcchange (t : nat) (f : nat -> nat) (s s' : st) : Prop :=
  dwait s' = dwait s /\ misuse s' = misuse s /\ ntasks s' = ntasks s
  /\ forall u, pc (tk s' u) = (if Nat.eqb u t then f (pc (tk s u)) else pc (tk s u))
               /\ upause (tk s' u) = upause (tk s u) /\ nwait (tk s' u) = nwait (tk s u)
               /\ (comp (tk s' u) = None -> comp (tk s u) = None).

Lemma pcchange_frame t f a b c : pcchange t f a b -> gframe b c -> pcchange t f a c.
Proof.
  intros (A1 & B1 & C1 & D1) (A2 & B2 & C2 & D2). split; [congruence|]. split; [congruence|]. split; [congruence|].
  intros u. destruct (D1 u) as (P1 & U1 & N1 & K1), (D2 u) as (P2 & U2 & N2 & K2). repeat split; try congruence; auto.
Qed.

Lemma upd_pc_change t f s : pcchange t f s (upd_task t (fun x => t_pc (f (pc x)) x) s).
Proof.
  split; [reflexivity|]. split; [reflexivity|]. split; [reflexivity|]. intros u. cbn.
  destruct (Nat.eqb_spec u t) as [-> | Hne]; [rewrite upd_same; cbn; repeat split; auto|].
  rewrite upd_other by exact Hne. repeat split; auto.
Qed.

Lemma resume_body_change t s : pcchange t pred s (resume_body t s).
Proof.
  unfold resume_body. match goal with |- context [if ?c then _ else _] => destruct c end.
  - eapply pcchange_frame; [apply (upd_pc_change t pred) | apply add_task_gframe].
  - apply (upd_pc_change t pred).
Qed.
Lemma pause_body_change t s : pcchange t S s (pause_body t s).
Proof.
  unfold pause_body. match goal with |- context [if ?c then _ else _] => destruct c end.
  - eapply pcchange_frame; [apply (upd_pc_change t S) | apply remove_task_gframe].
  - apply (upd_pc_change t S).
Qed.

Lemma nwaits_app t a b : nwaits t (a ++ b) = nwaits t a + nwaits t b.
Proof. unfold nwaits. rewrite filter_app, app_length. reflexivity. Qed.
Lemma nwaits_single t j u : nwaits t [(j, u)] = if Nat.eqb u t then 1 else 0.
Proof. unfold nwaits. cbn. destruct (Nat.eqb u t); reflexivity. Qed.
Lemma nwaits_nil t : nwaits t [] = 0. Proof. reflexivity. Qed.

(** _oneWorkUnit keeps the link (t is listed: pause count 0, not finished) *)
Lemma work_unit_glink t s : inv1 s -> In t (tasks s) -> glink s -> glink (work_unit t s).
Proof.
  intros Hi Hin G. pose proof Hi as (_ & Hiff & _). apply Hiff in Hin. destruct Hin as [Hp Hc].
  assert (Hlt : t < ntasks s) by (apply inv1_lt; assumption).
  unfold work_unit. set (s0 := emit _ s).
  assert (G0 : glink s0) by (eapply glinkx_frame; [|exact G]; gfr).
  destruct (script (tk s t)) as [|a r].
  - eapply glinkx_frame; [apply complete_gframe | exact G0].
  - assert (Gs : forall r', glink (upd_task t (t_script r') s0)).
    { intros r'. eapply glinkx_frame; [|exact G0]. split; [reflexivity|]. split; [reflexivity|]. split; [reflexivity|].
      intros u. cbn. destruct (Nat.eq_dec u t) as [-> | Hne]; [rewrite upd_same | rewrite upd_other by exact Hne]; repeat split; auto. }
    destruct a as [|j|].
    + apply Gs.
    + set (sa := upd_task t (t_script r) s0). specialize (Gs r). fold sa in Gs.
      assert (Hpa : pc (tk sa t) = 0) by (unfold sa; cbn; rewrite upd_same; exact Hp).
      assert (Hca : comp (tk sa t) = None) by (unfold sa; cbn; rewrite upd_same; exact Hc).
      pose proof (pause_body_change t sa) as (A & B & C & D).
      set (s1 := pause_body t sa) in *.
      destruct Gs as (G1 & G2 & G3).
      destruct (defs s1 j).
      * (* unfired: one more pending Deferred, pause count one higher *)
        unfold glink, glinkx. cbn [dwait misuse ntasks tk upd_task set_tk set_dwait]. rewrite A, B, C.
        split; [|split].
        -- intros u. rewrite nwaits_app, nwaits_single, nwaits_nil, Nat.add_0_r.
           destruct (D u) as (_ & _ & N & _).
           destruct (Nat.eqb_spec t u) as [<- | Hne].
           ++ rewrite upd_same. cbn [nwait t_nwait]. rewrite N, G1, nwaits_nil. lia.
           ++ rewrite upd_other by (intros E; apply Hne; symmetry; exact E). rewrite N, G1, nwaits_nil. lia.
        -- intros Hm u Hcu. destruct (D u) as (P & U & N & K).
           destruct (Nat.eq_dec u t) as [-> | Hne].
           ++ rewrite upd_same in *. cbn in *. rewrite P, U, N, Nat.eqb_refl. rewrite (G2 Hm t Hca) in *. lia.
           ++ rewrite upd_other in * by exact Hne. rewrite P, U, N.
              destruct (Nat.eqb_spec u t); [contradiction|]. apply G2; auto.
        -- intros u Hu. destruct (D u) as (_ & _ & N & _).
           destruct (Nat.eq_dec u t) as [-> | Hne]; [change (ntasks sa) with (ntasks s) in Hu; lia|].
           rewrite upd_other by exact Hne. rewrite N. apply G3. exact Hu.
      * (* already fired with success: pause and resume cancel *)
        pose proof (resume_body_change t s1) as (A' & B' & C' & D').
        unfold glink, glinkx. rewrite A', B', C', A, B, C. split; [|split].
        -- intros u. destruct (D' u) as (_ & _ & N' & _), (D u) as (_ & _ & N & _). rewrite N', N. apply G1.
        -- intros Hm u Hcu. destruct (D' u) as (P' & U' & N' & K'), (D u) as (P & U & N & K).
           rewrite P', U', N', P, U, N. destruct (Nat.eqb u t); [cbn [pred]|]; apply G2; auto.
        -- intros u Hu. destruct (D' u) as (_ & _ & N' & _), (D u) as (_ & _ & N & _). rewrite N', N. apply G3. exact Hu.
      * (* already failed: the task is finished by failLater (it was unfinished) *)
        assert (Hc1 : comp (tk s1 t) = None).
        { unfold s1, pause_body. match goal with |- context [if ?c then _ else _] => destruct c end.
          - match goal with |- context [remove_task t ?z] => destruct (remove_task_fields t z) as (_ & _ & F3) end.
            rewrite F3. cbn. rewrite upd_same. cbn. exact Hca.
          - cbn. rewrite upd_same. cbn. exact Hca. }
        unfold faillater. rewrite Hc1. cbn [is_none].
        pose proof (complete_gframe t CFailed (RDef j) s1) as (A' & B' & C' & D').
        assert (Hfin : comp (tk (complete t CFailed (RDef j) s1) t) <> None).
        { destruct (complete_fields t CFailed (RDef j) s1) as (_ & _ & E3). rewrite E3, upd_same. cbn. discriminate. }
        unfold glink, glinkx. rewrite A', B', C', A, B, C. split; [|split].
        -- intros u. destruct (D' u) as (_ & _ & N' & _), (D u) as (_ & _ & N & _). rewrite N', N. apply G1.
        -- intros Hm u Hcu. destruct (D' u) as (P' & U' & N' & K'), (D u) as (P & U & N & K).
           rewrite P', U', N', P, U, N. destruct (Nat.eqb_spec u t) as [-> | Hne]; [contradiction|]. apply G2; auto.
        -- intros u Hu. destruct (D' u) as (_ & _ & N' & _), (D u) as (_ & _ & N & _). rewrite N', N. apply G3. exact Hu.
    + eapply glinkx_frame; [apply complete_gframe | apply Gs].
Qed.

Lemma units_glink n : forall s, inv1 s -> glink s -> glink (units n s).
Proof.
  induction n as [|n IH]; intros s Hi G; cbn [units]; [exact G|].
  destruct (next_task s) as [o s1] eqn:E. destruct (next_task_meta _ _ _ E) as [i Ei].
  apply next_task_spec in E. destruct E as (Hc & Ho & Hin).
  assert (G1 : glink s1) by (eapply glinkx_frame; [|exact G]; rewrite Ei; gfr).
  assert (Hi1 : inv1 s1) by (eapply inv1_core; eauto).
  destruct o as [t|]; [|eapply glinkx_frame; [|exact G1]; gfr].
  assert (Hin1 : In t (tasks s1)) by (destruct Hc as (Et & _); rewrite Et; exact Hin).
  apply IH; [apply work_unit_inv1; assumption | apply work_unit_glink; assumption].
Qed.

Lemma tick_glink n s : inv1 s -> glink s -> glink (tick n s).
Proof.
  intros Hi G. unfold tick. destruct (delayed s); [|exact G].
  eapply glinkx_frame; [apply reschedule_gframe|].
  assert (G1 : glink (set_delayed false s)) by (eapply glinkx_frame; [|exact G]; gfr).
  destruct (is_nil _); [exact G1 | apply units_glink; [exact Hi | exact G1]].
Qed.

Lemma nwaits_cons t p rest : nwaits t (p :: rest) = (if Nat.eqb (snd p) t then 1 else 0) + nwaits t rest.
Proof. unfold nwaits. cbn. destruct (Nat.eqb (snd p) t); reflexivity. Qed.

Lemma nwaits_partition t (f : nat * nat -> bool) w :
  nwaits t w = nwaits t (filter (fun p => negb (f p)) w) + nwaits t (filter f w).
Proof.
  induction w as [|p w IH]; [reflexivity|]. cbn [filter]. destruct (f p); cbn [negb]; rewrite !nwaits_cons, IH; lia.
Qed.

(** one callback of a fired Deferred *)
Lemma on_fire_glink j ok p rest s : glinkx (p :: rest) s -> glinkx rest (on_fire j ok s p).
Proof.
  intros (G1 & G2 & G3). unfold on_fire. set (t := snd p).
  set (s1 := upd_task t (fun x => t_nwait (pred (nwait x)) x) s).
  assert (Hge : nwait (tk s t) = S (nwaits t (dwait s) + nwaits t rest)).
  { rewrite G1, nwaits_cons. fold t. rewrite Nat.eqb_refl. lia. }
  assert (E1 : forall u, nwait (tk s1 u) = nwaits u (dwait s) + nwaits u rest).
  { intros u. unfold s1. cbn. destruct (Nat.eq_dec u t) as [-> | Hne].
    - rewrite upd_same. cbn. rewrite Hge. reflexivity.
    - rewrite upd_other by exact Hne. rewrite G1, nwaits_cons. fold t.
      destruct (Nat.eqb_spec t u); [subst; contradiction | reflexivity]. }
  assert (E2 : forall u, pc (tk s1 u) = pc (tk s u) /\ upause (tk s1 u) = upause (tk s u) /\ comp (tk s1 u) = comp (tk s u)).
  { intros u. unfold s1. cbn. destruct (Nat.eq_dec u t) as [-> | Hne]; [rewrite upd_same | rewrite upd_other by exact Hne]; repeat split. }
  assert (E3 : forall u, u <> t -> nwait (tk s1 u) = nwait (tk s u)).
  { intros u Hne. unfold s1. cbn. rewrite upd_other by exact Hne. reflexivity. }
  assert (G3' : forall u, ntasks s <= u -> nwait (tk s1 u) = 0).
  { intros u Hu. destruct (Nat.eq_dec u t) as [-> | Hne]; [rewrite (G3 t Hu) in Hge; discriminate|].
    rewrite E3 by exact Hne. apply G3. exact Hu. }
  (* the balance of every task but t is untouched; t's is re-established case by case *)
  assert (Bal : misuse s = false -> forall u, u <> t -> comp (tk s1 u) = None ->
                pc (tk s1 u) = upause (tk s1 u) + nwait (tk s1 u)).
  { intros Hm u Hne Hcu. destruct (E2 u) as (P & U & K). rewrite P, U, E3 by exact Hne. apply G2; [exact Hm | congruence]. }
  destruct ok.
  - destruct (Nat.eqb_spec (pc (tk s1 t)) 0) as [Hz | Hnz].
    + (* NotPaused inside the callback: impossible when the link holds for an unfinished task *)
      unfold glinkx. cbn [dwait misuse ntasks tk emit]. split; [exact E1|]. split; [|exact G3'].
      intros Hm u Hcu. destruct (Nat.eq_dec u t) as [-> | Hne]; [|apply Bal; assumption].
      exfalso. destruct (E2 t) as (P & U & K). rewrite K in Hcu. pose proof (G2 Hm t Hcu) as X.
      rewrite P in Hz. rewrite Hz, Hge in X. lia.
    + pose proof (resume_body_change t s1) as (A & B & C & D).
      unfold glinkx. rewrite A, B, C. cbn [dwait misuse ntasks]. change (dwait s1) with (dwait s).
      split; [|split].
      * intros u. destruct (D u) as (_ & _ & N & _). rewrite N. apply E1.
      * intros Hm u Hcu. destruct (D u) as (P & U & N & K). rewrite P, U, N.
        destruct (Nat.eqb_spec u t) as [-> | Hne]; [|apply Bal; auto].
        specialize (K Hcu). destruct (E2 t) as (P1 & U1 & K1). rewrite K1 in K.
        pose proof (G2 Hm t K) as X. rewrite P1, U1, E1. rewrite Hge in X. lia.
      * intros u Hu. destruct (D u) as (_ & _ & N & _). rewrite N. apply G3'. exact Hu.
  - pose proof (faillater_gframe t j s1) as (A & B & C & D).
    unfold glinkx. rewrite A, B, C. change (dwait s1) with (dwait s). split; [|split].
    + intros u. destruct (D u) as (_ & _ & N & _). rewrite N. apply E1.
    + intros Hm u Hcu. destruct (D u) as (P & U & N & K). rewrite P, U, N.
      destruct (Nat.eq_dec u t) as [-> | Hne]; [|apply Bal; auto].
      (* t: after failLater it is finished *)
      exfalso. unfold faillater in Hcu. destruct (comp (tk s1 t)) eqn:Ec; cbn [is_none] in Hcu; [congruence|].
      destruct (complete_fields t CFailed (RDef j) s1) as (_ & _ & F3). rewrite F3, upd_same in Hcu. discriminate.
    + intros u Hu. destruct (D u) as (_ & _ & N & _). rewrite N. apply G3'. exact Hu.
Qed.

Lemma fold_on_fire_glink j ok : forall ws s, glinkx ws s -> glink (fold_left (on_fire j ok) ws s).
Proof.
  induction ws as [|p ws IH]; intros s G; cbn [fold_left]; [exact G|]. apply IH. apply on_fire_glink. exact G.
Qed.

Lemma fire_glink j ok s : glink s -> glink (fire j ok s).
Proof.
  intros (G1 & G2 & G3). unfold fire. apply fold_on_fire_glink.
  unfold glinkx. cbn [dwait misuse ntasks tk set_dwait]. split; [|split; [exact G2 | exact G3]].
  intros t. rewrite G1, nwaits_nil, Nat.add_0_r.
  rewrite (nwaits_partition t (fun p => Nat.eqb (fst p) j) (dwait s)). reflexivity.
Qed.

Lemma when_done_gframe t s : gframe s (when_done t s).
Proof.
  unfold when_done. cbn [tk emit set_nextd comp]. destruct (comp (tk s t)) as [[? ?]|]; [gfr|].
  split; [reflexivity|]. split; [reflexivity|]. split; [reflexivity|]. intros u. cbn.
  destruct (Nat.eq_dec u t) as [-> | Hne]; [rewrite upd_same | rewrite upd_other by exact Hne]; repeat split; auto.
Qed.

Lemma coop_stop_gframe s : gframe s (coop_stop s).
Proof.
  unfold coop_stop. set (s2 := fold_left _ _ _).
  assert (F2 : gframe s s2).
  { unfold s2. apply (fold_left_inv (fun z => gframe s z)).
    - intros z a Hz. eapply gframe_trans; [exact Hz | apply complete_gframe].
    - gfr. }
  match goal with |- context [if ?c then _ else _] => destruct c end; (eapply gframe_trans; [exact F2|]; gfr).
Qed.

Lemma coop_start_gframe s : gframe s (coop_start s).
Proof.
  unfold coop_start. cbn [must set_started set_stopped]. destruct (must s); [|gfr].
  eapply gframe_trans; [|apply reschedule_gframe]. gfr.
Qed.

Lemma step_glink s o : inv1 s -> glink s -> glink (step s o).
Proof.
  intros Hi0 G0. unfold step. set (s1 := emit EOp s).
  assert (Hi : inv1 s1) by exact Hi0.
  assert (G : glink s1) by (eapply glinkx_frame; [|exact G0]; gfr).
  clearbody s1. clear Hi0 G0 s. rename s1 into s.
  destruct o as [scr co | t | t | t | t | n | j ok | |].
  - (* Add: a fresh record in slot ntasks *)
    set (t := ntasks s). set (s1 := set_ntasks _ _).
    assert (G1 : glink s1).
    { destruct G as (A & B & C). unfold glink, glinkx, s1. cbn [dwait misuse ntasks tk set_ntasks set_tk]. split; [|split].
      - intros u. destruct (Nat.eq_dec u t) as [-> | Hne]; [|rewrite upd_other by exact Hne; apply A].
        rewrite upd_same. cbn [nwait]. rewrite <- A. symmetry. apply C. unfold t. lia.
      - intros Hm u Hcu. destruct (Nat.eq_dec u t) as [-> | Hne]; [rewrite upd_same; reflexivity|].
        rewrite upd_other in * by exact Hne. apply B; auto.
      - intros u Hu. destruct (Nat.eq_dec u t) as [-> | Hne]; [rewrite upd_same; reflexivity|].
        rewrite upd_other by exact Hne. apply C. unfold t in *. lia. }
    assert (Ga : glink (add_task t s1)) by (eapply glinkx_frame; [apply add_task_gframe | exact G1]).
    destruct co; [|exact Ga]. eapply glinkx_frame; [apply when_done_gframe | exact Ga].
  - destruct (has t s); [|exact G]. eapply glinkx_frame; [apply when_done_gframe | exact G].
  - (* pause(): one more user pause, pause count one higher *)
    destruct (has t s); [|exact G]. destruct (comp (tk s t)) as [[c r]|] eqn:Ec; [eapply glinkx_frame; [|exact G]; gfr|].
    set (sa := upd_task t (fun x => t_upause (S (upause x)) x) s).
    pose proof (pause_body_change t sa) as (A & B & C & D). destruct G as (G1 & G2 & G3).
    unfold glink, glinkx. rewrite A, B, C. change (dwait sa) with (dwait s). change (misuse sa) with (misuse s).
    change (ntasks sa) with (ntasks s). split; [|split].
    + intros u. destruct (D u) as (_ & _ & N & _). rewrite N. unfold sa. cbn.
      destruct (Nat.eq_dec u t) as [-> | Hne]; [rewrite upd_same | rewrite upd_other by exact Hne]; apply G1.
    + intros Hm u Hcu. destruct (D u) as (P & U & N & K). rewrite P, U, N. specialize (K Hcu). unfold sa in *. cbn in *.
      destruct (Nat.eqb_spec u t) as [-> | Hne].
      * rewrite upd_same in *. cbn in *. rewrite (G2 Hm t K). lia.
      * rewrite upd_other in * by exact Hne. apply G2; auto.
    + intros u Hu. destruct (D u) as (_ & _ & N & _). rewrite N. unfold sa. cbn.
      destruct (Nat.eq_dec u t) as [-> | Hne]; [rewrite upd_same | rewrite upd_other by exact Hne]; apply G3; exact Hu.
  - (* resume() *)
    destruct (has t s); [|exact G]. destruct (Nat.eqb_spec (pc (tk s t)) 0) as [Ez | Enz]; [eapply glinkx_frame; [|exact G]; gfr|].
    destruct G as (G1 & G2 & G3).
    destruct (Nat.eqb_spec (upause (tk s t)) 0) as [Eu | Eu].
    + (* unmatched resume(): `misuse` is set, the balance claim lapses *)
      pose proof (resume_body_change t (set_misuse true s)) as (A & B & C & D).
      unfold glink, glinkx. rewrite A, B, C. cbn [dwait misuse ntasks set_misuse]. split; [|split].
      * intros u. destruct (D u) as (_ & _ & N & _). rewrite N. apply G1.
      * intros X. discriminate.
      * intros u Hu. destruct (D u) as (_ & _ & N & _). rewrite N. apply G3. exact Hu.
    + set (sa := upd_task t (fun x => t_upause (pred (upause x)) x) s).
      pose proof (resume_body_change t sa) as (A & B & C & D).
      unfold glink, glinkx. rewrite A, B, C. change (dwait sa) with (dwait s). change (misuse sa) with (misuse s).
      change (ntasks sa) with (ntasks s). split; [|split].
      * intros u. destruct (D u) as (_ & _ & N & _). rewrite N. unfold sa. cbn.
        destruct (Nat.eq_dec u t) as [-> | Hne]; [rewrite upd_same | rewrite upd_other by exact Hne]; apply G1.
      * intros Hm u Hcu. destruct (D u) as (P & U & N & K). rewrite P, U, N. specialize (K Hcu). unfold sa in *. cbn in *.
        destruct (Nat.eqb_spec u t) as [-> | Hne].
        -- rewrite upd_same in *. cbn in *. pose proof (G2 Hm t K). lia.
        -- rewrite upd_other in * by exact Hne. apply G2; auto.
      * intros u Hu. destruct (D u) as (_ & _ & N & _). rewrite N. unfold sa. cbn.
        destruct (Nat.eq_dec u t) as [-> | Hne]; [rewrite upd_same | rewrite upd_other by exact Hne]; apply G3; exact Hu.
  - destruct (has t s); [|exact G]. destruct (comp (tk s t)) as [[c r]|]; [eapply glinkx_frame; [|exact G]; gfr|].
    eapply glinkx_frame; [apply complete_gframe | exact G].
  - apply tick_glink; assumption.
  - destruct (defs s j); [|exact G|exact G]. apply fire_glink. eapply glinkx_frame; [|exact G]. gfr.
  - eapply glinkx_frame; [apply coop_stop_gframe | exact G].
  - eapply glinkx_frame; [apply coop_start_gframe | exact G].
Qed.

Lemma reach_glink b ops : inv1 (run (init b) ops) /\ glink (run (init b) ops).
Proof.
  apply (run_inv (P := fun s => inv1 s /\ glink s)).
  - intros s o [A B]. split; [apply step_inv1; exact A | apply step_glink; assumption].
  - split; [apply init_inv1|]. unfold glink, glinkx, init. cbn. repeat split; intros; try reflexivity. discriminate.
Qed.

(** ---- `misuse` only ever changes in resume(); the ghost snapshot in every advance event ---- *)
Lemma work_unit_misuse t s : misuse (work_unit t s) = misuse s.
Proof.
  unfold work_unit. set (s0 := emit _ s). change (misuse s) with (misuse s0).
  destruct (script (tk s t)) as [|a r].
  - destruct (complete_gframe t CDone RIter s0) as (_ & B & _). exact B.
  - destruct a as [|j|].
    + reflexivity.
    + set (sa := upd_task t (t_script r) s0). change (misuse s0) with (misuse sa).
      destruct (pause_body_change t sa) as (_ & B & _). set (s1 := pause_body t sa) in *. rewrite <- B.
      destruct (defs s1 j).
      * reflexivity.
      * destruct (resume_body_change t s1) as (_ & B' & _). exact B'.
      * destruct (faillater_gframe t j s1) as (_ & B' & _). exact B'.
    + destruct (complete_gframe t CFailed RRaised (upd_task t (t_script r) s0)) as (_ & B & _). exact B.
Qed.

Lemma units_misuse n : forall s, misuse (units n s) = misuse s.
Proof.
  induction n as [|n IH]; intros s; cbn [units]; [reflexivity|].
  destruct (next_task s) as [o s1] eqn:E. destruct (next_task_meta _ _ _ E) as [i ->].
  destruct o as [t|]; [|reflexivity]. rewrite IH, work_unit_misuse. reflexivity.
Qed.

Lemma tick_misuse n s : misuse (tick n s) = misuse s.
Proof.
  unfold tick. destruct (delayed s); [|reflexivity].
  destruct (reschedule_gframe (if is_nil (tasks (set_delayed false s)) then set_delayed false s
                               else units (Nat.max n 1) (set_delayed false s))) as (_ & B & _).
  rewrite B. destruct (is_nil _); [reflexivity | rewrite units_misuse; reflexivity].
Qed.

Lemma on_fire_misuse j ok s p : misuse (on_fire j ok s p) = misuse s.
Proof.
  unfold on_fire. set (s1 := upd_task _ _ s). change (misuse s) with (misuse s1). destruct ok.
  - destruct (Nat.eqb _ 0); [reflexivity|]. destruct (resume_body_change (snd p) s1) as (_ & B & _). exact B.
  - destruct (faillater_gframe (snd p) j s1) as (_ & B & _). exact B.
Qed.

Lemma step_misuse_mono s o : misuse (step s o) = false -> misuse s = false.
Proof.
  unfold step. set (s1 := emit EOp s). change (misuse s) with (misuse s1). clearbody s1.
  destruct o as [scr co | t | t | t | t | n | j ok | |].
  - set (s2 := set_ntasks _ _). change (misuse s1) with (misuse s2).
    destruct (add_task_gframe (ntasks s1) s2) as (_ & B & _).
    destruct co; [|rewrite B; auto]. destruct (when_done_gframe (ntasks s1) (add_task (ntasks s1) s2)) as (_ & B' & _).
    rewrite B', B. auto.
  - destruct (has t s1); [|auto]. destruct (when_done_gframe t s1) as (_ & B & _). rewrite B. auto.
  - destruct (has t s1); [|auto]. destruct (comp (tk s1 t)) as [[c r]|]; [auto|].
    match goal with |- misuse (pause_body t ?z) = _ -> _ => destruct (pause_body_change t z) as (_ & B & _) end. rewrite B. auto.
  - destruct (has t s1); [|auto]. destruct (Nat.eqb (pc (tk s1 t)) 0); [auto|].
    match goal with |- misuse (resume_body t ?z) = _ -> _ => destruct (resume_body_change t z) as (_ & B & _) end. rewrite B.
    destruct (Nat.eqb (upause (tk s1 t)) 0); [cbn; discriminate | auto].
  - destruct (has t s1); [|auto]. destruct (comp (tk s1 t)) as [[c r]|]; [auto|].
    destruct (complete_gframe t CStopped RStopped s1) as (_ & B & _). rewrite B. auto.
  - rewrite tick_misuse. auto.
  - destruct (defs s1 j); [|auto|auto]. unfold fire.
    match goal with |- misuse (fold_left _ ?ws ?z) = _ -> _ =>
      assert (X : forall l z', misuse (fold_left (on_fire j ok) l z') = misuse z') end.
    { induction l as [|p l IH]; intros z'; cbn [fold_left]; [reflexivity|]. rewrite IH, on_fire_misuse. reflexivity. }
    rewrite X. auto.
  - destruct (coop_stop_gframe s1) as (_ & B & _). rewrite B. auto.
  - destruct (coop_start_gframe s1) as (_ & B & _). rewrite B. auto.
Qed.

Definition good_ev2 (e : ev) : Prop := match e with EAdv _ _ _ nw up => nw = 0 /\ up = 0 | _ => True end.
Lemma noadv_good2 e : noadv e -> good_ev2 e. Proof. destruct e; cbn; tauto. Qed.

Lemma work_unit_ext (Q : ev -> Prop) t s :
  Q (EAdv t (pc (tk s t)) (is_none (comp (tk s t))) (nwait (tk s t)) (upause (tk s t))) ->
  (forall e, noadv e -> Q e) -> ext Q s (work_unit t s).
Proof.
  intros Hq Hn. unfold work_unit. set (s0 := emit _ s).
  assert (E0 : ext Q s s0) by (apply ext_emit; exact Hq).
  assert (W : forall s', ext noadv s0 s' -> ext Q s s').
  { intros s' H. eapply ext_trans; [exact E0|]. eapply ext_weaken; [exact Hn | exact H]. }
  apply W. destruct (script (tk s t)) as [|a r].
  - apply complete_noadv.
  - destruct a as [|j|].
    + ext_step.
    + set (s1 := pause_body t _).
      assert (E1 : ext noadv s0 s1) by (unfold s1; eapply ext_trans; [|apply pause_body_noadv]; ext_step).
      destruct (defs s1 j); (eapply ext_trans; [exact E1|]); [ext_step | apply resume_body_noadv | apply faillater_noadv].
    + eapply ext_trans; [|apply complete_noadv]. ext_step.
Qed.

Lemma units_good2 n : forall s, inv1 s -> glink s -> misuse s = false -> ext good_ev2 s (units n s).
Proof.
  induction n as [|n IH]; intros s Hi G Hm; cbn [units]; [apply ext_refl|].
  destruct (next_task s) as [o s1] eqn:E. destruct (next_task_meta _ _ _ E) as [i Ei].
  apply next_task_spec in E. destruct E as (Hc & Ho & Hin).
  assert (Hi1 : inv1 s1) by (eapply inv1_core; eauto).
  assert (G1 : glink s1) by (eapply glinkx_frame; [|exact G]; rewrite Ei; gfr).
  assert (Hm1 : misuse s1 = false) by (rewrite Ei; exact Hm).
  destruct o as [t|]; [|exists [EClear]; split; [cbn; rewrite Ho; reflexivity | repeat constructor]].
  assert (Hin1 : In t (tasks s1)) by (destruct Hc as (Et & _); rewrite Et; exact Hin).
  eapply ext_trans; [apply ext_same; exact Ho|].
  eapply ext_trans.
  - apply (work_unit_ext good_ev2 t s1); [|exact noadv_good2]. cbn.
    destruct Hi1 as (_ & Hiff & _). apply Hiff in Hin1. destruct Hin1 as [Hp Hcn].
    destruct G1 as (_ & G2 & _). pose proof (G2 Hm1 t Hcn) as X. rewrite Hp in X. lia.
  - apply IH; [apply work_unit_inv1; assumption | apply work_unit_glink; assumption | rewrite work_unit_misuse; exact Hm1].
Qed.

Lemma step_good2 s o : inv1 s -> glink s -> misuse s = false -> ext good_ev2 s (step s o).
Proof.
  intros Hi G Hm. unfold step. set (s1 := emit EOp s).
  assert (E1 : ext good_ev2 s s1) by (apply ext_emit; exact I).
  eapply ext_trans; [exact E1|].
  assert (W : forall s', ext noadv s1 s' -> ext good_ev2 s1 s').
  { intros s' X. eapply ext_weaken; [exact noadv_good2 | exact X]. }
  destruct o as [scr co | t | t | t | t | n | j ok | |];
    [apply W | apply W | apply W | apply W | apply W | | apply W | apply W | apply W].
  - set (s2 := set_ntasks _ _).
    assert (E : ext noadv s1 (add_task (ntasks s1) s2)) by (eapply ext_trans; [|apply add_task_noadv]; ext_step).
    destruct co; [|exact E]. eapply ext_trans; [exact E | apply when_done_noadv].
  - destruct (has t s1); [apply when_done_noadv | ext_step].
  - destruct (has t s1); [|ext_step]. destruct (comp (tk s1 t)) as [[c r]|]; [ext_step|].
    eapply ext_trans; [|apply pause_body_noadv]. ext_step.
  - destruct (has t s1); [|ext_step]. destruct (Nat.eqb (pc (tk s1 t)) 0); [ext_step|].
    eapply ext_trans; [|apply resume_body_noadv]. destruct (Nat.eqb (upause (tk s1 t)) 0); ext_step.
  - destruct (has t s1); [|ext_step]. destruct (comp (tk s1 t)) as [[c r]|]; [ext_step|]. apply complete_noadv.
  - unfold tick. destruct (delayed s1); [|apply ext_refl].
    eapply ext_trans; [|eapply ext_weaken; [exact noadv_good2 | apply reschedule_noadv]].
    destruct (is_nil (tasks (set_delayed false s1))); [ext_step|].
    eapply ext_trans; [|apply units_good2; [exact Hi | eapply glinkx_frame; [|exact G]; gfr | exact Hm]]. ext_step.
  - destruct (defs s1 j); [|ext_step|ext_step]. eapply ext_trans; [|apply fire_noadv]. ext_step.
  - apply coop_stop_noadv.
  - apply coop_start_noadv.
Qed.

Definition adv2_ok (s : st) : Prop := misuse s = false -> Forall good_ev2 (out s).

Lemma reach_adv2 b ops : (inv1 (run (init b) ops) /\ glink (run (init b) ops)) /\ adv2_ok (run (init b) ops).
Proof.
  apply (run_inv (P := fun s => (inv1 s /\ glink s) /\ adv2_ok s)).
  - intros s o [[Hi G] A]. split; [split; [apply step_inv1; exact Hi | apply step_glink; assumption]|].
    intros Hm. pose proof (step_misuse_mono s o Hm) as Hm0.
    destruct (step_good2 s o Hi G Hm0) as (l & E & F). rewrite E. apply Forall_app. split; [exact F | apply A; exact Hm0].
  - split; [split; [apply init_inv1|]|intros _; constructor].
    unfold glink, glinkx, init. cbn. repeat split; intros; try reflexivity. discriminate.
Qed.

(** every resume() in the history matched an earlier pause() ([misuse] stayed false): then at every advance the
    task had no outstanding user pause and NO yielded Deferred still pending; and the pending count of the model
    is exactly the number of its callbacks still waiting on unfired Deferreds *)
Lemma never_advanced_while_waiting_lemma b ops :
  let s := run (init b) ops in
  misuse s = false ->
  (forall t p inc nw up, In (EAdv t p inc nw up) (trace s) -> nw = 0 /\ up = 0)
  /\ (forall t, nwait (tk s t) = nwaits t (dwait s))
  /\ (forall t, comp (tk s t) = None -> pc (tk s t) = upause (tk s t) + nwait (tk s t)).
Proof.
  intros s Hm. destruct (reach_adv2 b ops) as [[_ (G1 & G2 & _)] A]. fold s in G1, G2, A. split; [|split].
  - intros t p inc nw up Hin. unfold trace in Hin. apply in_rev in Hin.
    specialize (A Hm). rewrite Forall_forall in A. exact (A _ Hin).
  - intros t. rewrite G1, nwaits_nil. lia.
  - intros t Hc. apply G2; assumption.
Qed.

(** the hypotheses of the bounded-wait theorem are inhabited: three tasks, two ticks of one unit; task 2 waits
    through the stretch made of the two ticks *)
Definition bw_history : list op :=
  [Add [AYield; AYield] false; Add [AYield; AYield] false; Add [AYield; AYield] false; Tick 1; Tick 1].
Lemma bounded_wait_inhabited :
  let s := run (init true) bw_history in
  let older := alog (run (init true) (firstn 3 bw_history)) in
  let seg := firstn (length (alog s) - length older) (alog s) in
  alog s = seg ++ older /\ In 2 (fst (aafter a0 older)) /\ Forall (undisturbed 2) seg /\ count_next seg = 2.
Proof.
  vm_compute. split; [reflexivity|]. split; [tauto|]. split; [|reflexivity].
  repeat constructor; discriminate.
Qed.
