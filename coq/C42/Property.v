From C42 Require Import Model.
Theorem placeholder : True. Proof. exact I. Qed.
Print Assumptions placeholder.
