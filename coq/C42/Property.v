(** C42 property theorems: the IMAP4 client parses what the IMAP4 server serialises.
    [collapse] = collapseNestedLists, [parse] = parseNestedParens (with collapseStrings / splitOn /
    splitQuoted), [norm] = the structure with integers replaced by their decimal text.

    FULL STATEMENT (the property):
        forall x : list item, parse (collapse x) = Ok (map norm x)
    for every nested structure of byte strings (any bytes), None and integers.  It is FALSE of the
    current code (finding F16, [parse_collapse_roundtrip_refuted]).  Proved below: the round trip for
    every list, of any length, of None / integers / byte strings that are sent quoted (no CR, no LF, at
    most 1000 bytes) and contain no backslash -- any other bytes, including double quotes, braces,
    parentheses, brackets, NIL-like text.  Nested lists and literal strings are covered by evaluation
    only (Example nested_examples and the correspondence run), see design.d/C42.md. *)
From Coq Require Import List NArith ZArith Bool.
From C42 Require Import Model Proofs.
Import ListNotations.
Local Open Scope N_scope.

Theorem parse_collapse_roundtrip_partial : forall l : list item,
  Forall flat_atom l -> parse (collapse l) = Ok (map norm l).
Proof. exact flat_roundtrip. Qed.
Print Assumptions parse_collapse_roundtrip_partial.

(** F16: a string ending in a backslash raises MismatchedQuoting; backslash-quote comes back with the
    backslash doubled; already _quote followed by splitQuoted fails on a single backslash. *)
Theorem parse_collapse_roundtrip_refuted :
  parse (collapse [IStr [97; 92]]) = Err EQuoting
  /\ parse (collapse [IStr [120; 92; 34; 121]]) = Ok [IStr [120; 92; 92; 34; 121]]
  /\ split_quoted (quote [92]) = Err EQuoting.
Proof. exact roundtrip_refuted. Qed.
Print Assumptions parse_collapse_roundtrip_refuted.

(** under the exact guard (no backslash) every byte string survives _quote followed by splitQuoted *)
Theorem quoted_string_roundtrip_partial : forall s : list N,
  nobs s -> split_quoted (quote s) = Ok [IStr s].
Proof. exact quote_roundtrip. Qed.
Print Assumptions quoted_string_roundtrip_partial.

(** the serialisation of a flat list is never mis-framed by the scanner: it yields only character
    elements whose concatenation is the input (no literal, no nesting, no error), so the whole parse is
    splitQuoted of the text *)
Theorem flat_serialisation_scans_as_text : forall l : list item,
  Forall flat_atom l ->
  exists es, scan_all (collapse l) = Ok es /\ forallb is_eb es = true /\ ebytes es = collapse l.
Proof. intros l H. exact (scan_all_plain _ (qrun_collapse l H)). Qed.
Print Assumptions flat_serialisation_scans_as_text.

(** _quote's two replace passes are one escaping pass (backslash and double quote get a backslash) *)
Theorem quote_is_single_pass_escape : forall s : list N, quote s = [DQ] ++ flat_map escb s ++ [DQ].
Proof. exact quote_escb. Qed.
Print Assumptions quote_is_single_pass_escape.
