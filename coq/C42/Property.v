(** C42 property theorems: the IMAP4 client parses what the IMAP4 server serialises.
    [collapse] = collapseNestedLists, [parse] = parseNestedParens (with collapseStrings / splitOn /
    splitQuoted), [norm] = the structure with integers replaced by their decimal text.

    The property as stated ("for any nested structure of byte strings, None and integers") is FALSE of
    the current code: finding F16, [parse_collapse_roundtrip_refuted].  It is proved below for EVERY
    nested structure, of any depth and size, under the exact guard [wf_item]: every byte string that is
    sent as a quoted string (no CR, no LF, at most 1000 bytes) contains no backslash.  Strings sent as
    literals may contain anything (backslashes included); quoted strings may contain any other byte
    (double quotes, braces, parentheses, brackets, NIL-like text, NUL, 8-bit bytes). *)
From Coq Require Import List NArith ZArith Bool.
From C42 Require Import Model Proofs ProofsNested.
Import ListNotations.
Local Open Scope N_scope.

Theorem parse_collapse_roundtrip : forall x : list item,
  Forall wf_item x -> parse (collapse x) = Ok (map norm x).
Proof. exact nested_roundtrip. Qed.
Print Assumptions parse_collapse_roundtrip.

(** what [wf_item] says, spelled out: at every depth, a string is either sent as a literal or is free of
    backslashes *)
Theorem guard_unfolded : forall l : list item,
  (wf_item (IList l) <-> Forall wf_item l)
  /\ (forall s, wf_item (IStr s) <-> (needs_literal s = true \/ Forall (fun b => b <> BS) s))
  /\ wf_item INil /\ (forall z, wf_item (IInt z)).
Proof. exact wf_item_unfold. Qed.
Print Assumptions guard_unfolded.

(** for ANY structure (no guard) the scanner frames the serialisation correctly: quoted strings,
    literals of the announced length and nested parentheses are recognised as such *)
Theorem serialisation_is_framed_correctly : forall x : list item,
  scan_all (collapse x) = Ok (elems_join (map elems_piece x)).
Proof. exact scan_all_collapse. Qed.
Print Assumptions serialisation_is_framed_correctly.

(** splitQuoted does not depend on whitespace around its input (its strip() is harmless) *)
Theorem split_quoted_ignores_outer_whitespace : forall s : list N, split_quoted s = sq_full s.
Proof. exact split_quoted_unstripped. Qed.
Print Assumptions split_quoted_ignores_outer_whitespace.

(** F16: a string ending in a backslash raises MismatchedQuoting; backslash-quote comes back with the
    backslash doubled; already _quote followed by splitQuoted fails on a single backslash. *)
Theorem parse_collapse_roundtrip_refuted :
  parse (collapse [IStr [97; 92]]) = Err EQuoting
  /\ parse (collapse [IStr [120; 92; 34; 121]]) = Ok [IStr [120; 92; 92; 34; 121]]
  /\ split_quoted (quote [92]) = Err EQuoting.
Proof. exact roundtrip_refuted. Qed.
Print Assumptions parse_collapse_roundtrip_refuted.

(** under the exact guard (no backslash) every byte string survives _quote followed by splitQuoted *)
Theorem quoted_string_roundtrip_partial : forall s : list N,
  nobs s -> split_quoted (quote s) = Ok [IStr s].
Proof. exact quote_roundtrip. Qed.
Print Assumptions quoted_string_roundtrip_partial.

(** _quote's two replace passes are one escaping pass (backslash and double quote get a backslash) *)
Theorem quote_is_single_pass_escape : forall s : list N, quote s = [DQ] ++ flat_map escb s ++ [DQ].
Proof. exact quote_escb. Qed.
Print Assumptions quote_is_single_pass_escape.
