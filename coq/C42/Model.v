(** C42: the IMAP4 client parses what the server serialises (src/twisted/mail/imap4.py).

    Serialiser: collapseNestedLists / _quote / _needsLiteral (None -> NIL, ints -> decimal text, bytes ->
                literal {n}CRLF... when they contain CR or LF or are longer than 1000 bytes, else a quoted
                string with backslash and double quote escaped; nested lists in parentheses).
    Parser:     parseNestedParens (byte scanner with a stack of lists; in a quoted string a backslash takes
                the next byte with it; {n}CRLF literals) -> collapseStrings / splitOn (maximal runs of
                non-list elements; runs of literals joined; runs of characters handed to splitQuoted)
                -> splitQuoted as pinned (finding F16 stays: the small repair contradicts an assertion of
                the existing suite, see design.d/C42.md) ; parseNestedParens AS REPAIRED by
                fixes/C42-trailing-literal-strip.patch (no s.strip() of the whole input).
    Bytes are N. *)
From Coq Require Import List NArith ZArith Bool Decimal DecimalN.
Import ListNotations.
Local Open Scope N_scope.

Definition SP : N := 32.  Definition DQ : N := 34.  Definition BS : N := 92.
Definition LP : N := 40.  Definition RP : N := 41.  Definition LB : N := 91.  Definition RB : N := 93.
Definition LC : N := 123. Definition RC : N := 125. Definition CR : N := 13.  Definition LF : N := 10.
Definition NIL : list N := [78; 73; 76].

(** string.whitespace *)
Definition is_ws (b : N) : bool := existsb (N.eqb b) [32; 9; 10; 13; 11; 12].

Inductive item := INil | IInt (z : Z) | IStr (s : list N) | IList (l : list item).

Inductive err := ENesting | EQuoting | EValue | EIndex.
Inductive result (A : Type) := Ok (a : A) | Err (e : err).
Arguments Ok {A} a.  Arguments Err {A} e.
Definition bind {A B} (r : result A) (f : A -> result B) : result B :=
  match r with Ok a => f a | Err e => Err e end.

(** ---- decimal text (str(int) / int(bytes) on plain digit strings) ---- *)
Fixpoint uint_bytes (u : uint) : list N :=
  match u with
  | Nil => []
  | D0 u => 48 :: uint_bytes u | D1 u => 49 :: uint_bytes u | D2 u => 50 :: uint_bytes u
  | D3 u => 51 :: uint_bytes u | D4 u => 52 :: uint_bytes u | D5 u => 53 :: uint_bytes u
  | D6 u => 54 :: uint_bytes u | D7 u => 55 :: uint_bytes u | D8 u => 56 :: uint_bytes u
  | D9 u => 57 :: uint_bytes u
  end.
Definition dec_N (n : N) : list N := uint_bytes (N.to_uint n).
Definition dec_Z (z : Z) : list N :=
  match z with Z0 => dec_N 0 | Zpos p => dec_N (Npos p) | Zneg p => 45 :: dec_N (Npos p) end.

Fixpoint bytes_uint (bs : list N) : option uint :=
  match bs with
  | [] => Some Nil
  | b :: r =>
      match bytes_uint r with
      | None => None
      | Some u =>
          if b =? 48 then Some (D0 u) else if b =? 49 then Some (D1 u) else if b =? 50 then Some (D2 u)
          else if b =? 51 then Some (D3 u) else if b =? 52 then Some (D4 u) else if b =? 53 then Some (D5 u)
          else if b =? 54 then Some (D6 u) else if b =? 55 then Some (D7 u) else if b =? 56 then Some (D8 u)
          else if b =? 57 then Some (D9 u) else None
      end
  end.
(** int(b) for a non-empty string of ASCII digits; anything else is outside the modelled fragment and
    treated as ValueError (the harness does not send such inputs to the model) *)
Definition parse_dec (bs : list N) : option N :=
  match bs with
  | [] => None
  | _ => match bytes_uint bs with Some u => Some (N.of_uint u) | None => None end
  end.

(** ---- serialiser ---- *)
Definition replace1 (x : N) (rep : list N) (s : list N) : list N :=
  flat_map (fun b => if b =? x then rep else [b]) s.
(** _quote *)
Definition quote (s : list N) : list N := [DQ] ++ replace1 DQ [BS; DQ] (replace1 BS [BS; BS] s) ++ [DQ].
(** _needsLiteral *)
Definition needs_literal (s : list N) : bool :=
  existsb (N.eqb LF) s || existsb (N.eqb CR) s || Nat.ltb 1000 (length s).
Definition literal (s : list N) : list N := [LC] ++ dec_N (N.of_nat (length s)) ++ [RC; CR; LF] ++ s.

(** b" ".join without the leading separator *)
Fixpoint join_sp (ps : list (list N)) : list N :=
  match ps with
  | [] => []
  | [p] => p
  | p :: r => p ++ SP :: join_sp r
  end.

Fixpoint piece (i : item) : list N :=
  match i with
  | INil => NIL
  | IInt z => dec_Z z
  | IStr s => if needs_literal s then literal s else quote s
  | IList l => [LP] ++ join_sp (map piece l) ++ [RP]
  end.
(** collapseNestedLists *)
Definition collapse (l : list item) : list N := join_sp (map piece l).

(** ---- parseNestedParens: the scanner ---- *)
Inductive elem :=
| EB (bs : list N)       (* one byte, or backslash + next byte inside a quoted string *)
| ELit (s : list N)      (* a literal, kept apart as a 1-tuple *)
| ESub (l : list elem).

Inductive mode :=
| MNorm | MQuote | MQuoteEsc
| MLitHdr (ds : list N)            (* between "{" and "}", reversed *)
| MLitSkip (n : N) (two : bool)    (* the two bytes after "}" (taken to be CR LF without looking) *)
| MLitBody (n : N) (acc : list N). (* n more bytes, reversed accumulator *)

Record pst := mkp { md : mode; top : list elem; stk : list (list elem) }.   (* lists reversed *)

Definition push (st : pst) (m : mode) (e : elem) : pst := mkp m (e :: top st) (stk st).
Definition enter_body (st : pst) (n : N) : pst :=
  if n =? 0 then push st MNorm (ELit []) else mkp (MLitBody n []) (top st) (stk st).

Definition pstep (st : pst) (c : N) : result pst :=
  match md st with
  | MQuote =>
      if c =? BS then Ok (mkp MQuoteEsc (top st) (stk st))
      else if c =? DQ then Ok (push st MNorm (EB [c]))
      else Ok (push st MQuote (EB [c]))
  | MQuoteEsc => Ok (push st MQuote (EB [BS; c]))
  | MNorm =>
      if c =? DQ then Ok (push st MQuote (EB [c]))
      else if c =? LC then Ok (mkp (MLitHdr []) (top st) (stk st))
      else if (c =? LP) || (c =? LB) then Ok (mkp MNorm [] (top st :: stk st))
      else if (c =? RP) || (c =? RB) then
        match stk st with
        | [] => Err ENesting
        | up :: rest => Ok (mkp MNorm (ESub (List.rev (top st)) :: up) rest)
        end
      else Ok (push st MNorm (EB [c]))
  | MLitHdr ds =>
      if c =? RC then
        match parse_dec (List.rev ds) with
        | Some n => Ok (mkp (MLitSkip n true) (top st) (stk st))
        | None => Err EValue
        end
      else Ok (mkp (MLitHdr (c :: ds)) (top st) (stk st))
  | MLitSkip n true => Ok (mkp (MLitSkip n false) (top st) (stk st))
  | MLitSkip n false => Ok (enter_body st n)
  | MLitBody n acc =>
      if N.pred n =? 0 then Ok (push st MNorm (ELit (List.rev (c :: acc))))
      else Ok (mkp (MLitBody (N.pred n) (c :: acc)) (top st) (stk st))
  end.

Fixpoint scan (st : pst) (bs : list N) : result pst :=
  match bs with
  | [] => Ok st
  | c :: r => bind (pstep st c) (fun st' => scan st' r)
  end.

(** end of input *)
Definition finish (st : pst) : result (list elem) :=
  let after :=
    match md st with
    | MLitHdr _ => Err EValue                                  (* s.find(b"}") == -1 *)
    | MQuoteEsc => Ok (push st MQuote (EB [BS]))
    | MLitSkip _ _ => Ok (push st MNorm (ELit []))
    | MLitBody _ acc => Ok (push st MNorm (ELit (List.rev acc)))    (* slice shorter than announced *)
    | _ => Ok st
    end in
  bind after (fun st' => match stk st' with [] => Ok (List.rev (top st')) | _ => Err ENesting end).

Definition scan_all (bs : list N) : result (list elem) := bind (scan (mkp MNorm [] []) bs) finish.

(** ---- splitQuoted (as pinned: a quote is taken as escaped when the PREVIOUS BYTE is a backslash, and
        backslashes are never un-doubled -- finding F16) ---- *)
Record sq := mks { inq : bool; inw : bool; word : list N; res : list item; prev : option N }.
(* word and res reversed; prev = s[i-1] *)

Definition emit_word (w : list N) : item :=
  let s := List.rev w in if list_eq_dec N.eq_dec s NIL then INil else IStr s.

Definition prev_is_bs (st : sq) : bool := match prev st with Some b => b =? BS | None => false end.

Definition sq_step (st : sq) (c : N) : result sq :=
  let p := Some c in
  if c =? DQ then
    if prev_is_bs st then
      match word st with
      | [] => Err EIndex                                          (* word.pop() on an empty list *)
      | _ :: w => Ok (mks (inq st) (inw st) (DQ :: w) (res st) p)
      end
    else if negb (inq st) then Ok (mks true (inw st) (word st) (res st) p)
    else Ok (mks false (inw st) [] (IStr (List.rev (word st)) :: res st) p)
  else if negb (inw st) && negb (inq st) && negb (is_ws c) then Ok (mks (inq st) true (c :: word st) (res st) p)
  else if inw st && negb (inq st) && is_ws c then Ok (mks (inq st) false [] (emit_word (word st) :: res st) p)
  else if inw st || inq st then Ok (mks (inq st) (inw st) (c :: word st) (res st) p)
  else Ok (mks (inq st) (inw st) (word st) (res st) p).

Fixpoint sq_run (st : sq) (bs : list N) : result sq :=
  match bs with
  | [] => Ok st
  | c :: r => bind (sq_step st c) (fun st' => sq_run st' r)
  end.

Fixpoint drop_ws (s : list N) : list N :=
  match s with b :: r => if is_ws b then drop_ws r else s | [] => [] end.
Definition strip (s : list N) : list N := List.rev (drop_ws (List.rev (drop_ws s))).

Definition sq_init : sq := mks false false [] [] None.
Definition sq_finish (st : sq) : result (list item) :=
  if inq st then Err EQuoting
  else if inw st then Ok (List.rev (emit_word (word st) :: res st))
  else Ok (List.rev (res st)).
Definition split_quoted (s : list N) : result (list item) := bind (sq_run sq_init (strip s)) sq_finish.

(** ---- collapseStrings / splitOn ---- *)
Definition is_lit (e : elem) : bool := match e with ELit _ => true | _ => false end.
Definition elem_bytes (e : elem) : list N := match e with EB b => b | ELit s => s | ESub _ => [] end.
Definition emit_run (lit : bool) (acc : list N) : result (list item) :=
  if lit then Ok [IStr acc] else split_quoted acc.

Fixpoint so_go (es : list elem) (cur : bool) (acc : list N) : result (list item) :=
  match es with
  | [] => emit_run cur acc
  | e :: r =>
      if Bool.eqb (is_lit e) cur then so_go r cur (acc ++ elem_bytes e)
      else bind (emit_run cur acc) (fun a => bind (so_go r (is_lit e) (elem_bytes e)) (fun b => Ok (a ++ b)))
  end.
(** splitOn(run, isinstance tuple, ...) on a non-empty run; nothing for an empty one *)
Definition split_on (es : list elem) : result (list item) :=
  match es with [] => Ok [] | e :: r => so_go r (is_lit e) (elem_bytes e) end.

(** [run] = the pending run of non-list elements, reversed *)
Definition cs_go (rec : elem -> result (list item)) : list elem -> list elem -> result (list item) :=
  fix go (es : list elem) (run : list elem) {struct es} : result (list item) :=
  match es with
  | [] => split_on (List.rev run)
  | (ESub _ as e) :: r =>
      bind (split_on (List.rev run)) (fun a =>
      bind (rec e) (fun sub =>
      bind (go r []) (fun b => Ok (a ++ IList sub :: b))))
  | e :: r => go r (e :: run)
  end.
Fixpoint cs_elem (e : elem) : result (list item) :=
  match e with ESub l => cs_go (fun e' => cs_elem e') l [] | _ => Ok [] end.
(** collapseStrings *)
Definition collapse_strings (es : list elem) : result (list item) := cs_go cs_elem es [].

(** parseNestedParens *)
Definition parse (bs : list N) : result (list item) := bind (scan_all bs) collapse_strings.

(** ---- vocabulary of the theorems ---- *)
(** what the client gets back: integers as their decimal text *)
Fixpoint norm (i : item) : item :=
  match i with
  | IInt z => IStr (dec_Z z)
  | IList l => IList (map norm l)
  | _ => i
  end.
