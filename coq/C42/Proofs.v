(** C42 proofs. *)
From Coq Require Import List NArith ZArith Bool Lia.
Require Decimal DecimalN DecimalPos.
From C42 Require Import Model.
Import ListNotations.
Local Open Scope N_scope.

Lemma neq_eqb : forall a b : N, a <> b -> (a =? b) = false.
Proof. intros; now apply N.eqb_neq. Qed.

(** ---- _quote: two replace passes = one escaping pass ---- *)
Definition escb (b : N) : list N := if b =? BS then [BS; BS] else if b =? DQ then [BS; DQ] else [b].

Lemma replace1_app : forall x rep a b, replace1 x rep (a ++ b) = replace1 x rep a ++ replace1 x rep b.
Proof. intros; unfold replace1; apply flat_map_app. Qed.

Lemma quote_escb : forall s, quote s = [DQ] ++ flat_map escb s ++ [DQ].
Proof.
  intros s. unfold quote. do 2 f_equal.
  induction s as [|b s IH]; [reflexivity|].
  change (b :: s) with ([b] ++ s). rewrite !replace1_app, IH, flat_map_app. f_equal.
  unfold escb, replace1. cbn [flat_map app]. destruct (N.eqb_spec b BS) as [->|Hb]; [reflexivity|].
  cbn [flat_map app]. destruct (N.eqb_spec b DQ); reflexivity.
Qed.

(** ---- decimal text ---- *)
Definition wordchar (b : N) : bool := negb (is_ws b) && negb (b =? DQ).
(** bytes the scanner treats as ordinary characters outside a quoted string *)
Definition plainchar (b : N) : bool :=
  negb ((b =? DQ) || (b =? LC) || (b =? LP) || (b =? LB) || (b =? RP) || (b =? RB)).
Definition digit (b : N) : bool := (48 <=? b) && (b <=? 57).

Lemma uint_digits : forall u, forallb digit (uint_bytes u) = true.
Proof. induction u; cbn [uint_bytes forallb]; try rewrite IHu; reflexivity. Qed.

Lemma to_uint_nonnil : forall n, N.to_uint n <> Decimal.Nil.
Proof. intros [|p]; [discriminate|]. apply DecimalPos.Unsigned.to_uint_nonnil. Qed.

Lemma dec_N_nonempty : forall n, dec_N n <> [].
Proof.
  intros n. unfold dec_N. pose proof (to_uint_nonnil n) as H.
  destruct (N.to_uint n); try discriminate. contradiction.
Qed.

Lemma digit_props : forall b, digit b = true ->
  wordchar b = true /\ plainchar b = true /\ b <> 78 /\ b <> BS.
Proof.
  intros b H. unfold digit in H. apply andb_true_iff in H as [H1 H2].
  apply N.leb_le in H1. apply N.leb_le in H2.
  assert (Hc : b = 48 \/ b = 49 \/ b = 50 \/ b = 51 \/ b = 52 \/ b = 53 \/ b = 54 \/ b = 55 \/ b = 56 \/ b = 57) by lia.
  repeat (destruct Hc as [->|Hc]; [repeat split; try reflexivity; discriminate|]).
  subst b. repeat split; try reflexivity; discriminate.
Qed.

(** atoms written without quotes: NIL and integers *)
Definition atomtext (w : list N) : Prop :=
  w <> [] /\ forallb wordchar w = true /\ forallb plainchar w = true /\ Forall (fun b => b <> BS) w.

Lemma forallb_impl : forall (A : Type) (f g : A -> bool) l,
  (forall x, f x = true -> g x = true) -> forallb f l = true -> forallb g l = true.
Proof.
  intros A f g l H. induction l as [|x l IH]; [reflexivity|]. cbn [forallb]. intros E.
  apply andb_true_iff in E as [E1 E2]. now rewrite (H _ E1), (IH E2).
Qed.

Lemma digits_atomtext_parts : forall w, forallb digit w = true ->
  forallb wordchar w = true /\ forallb plainchar w = true /\ Forall (fun b => b <> BS) w.
Proof.
  intros w H. repeat split.
  - eapply forallb_impl; [|exact H]. intros x Hx. apply (digit_props x Hx).
  - eapply forallb_impl; [|exact H]. intros x Hx. apply (digit_props x Hx).
  - apply Forall_forall. intros x Hx. rewrite forallb_forall in H. apply (digit_props x (H x Hx)).
Qed.

Lemma dec_Z_atomtext : forall z, atomtext (dec_Z z) /\ dec_Z z <> NIL.
Proof.
  intros z.
  assert (HN : forall n, atomtext (dec_N n) /\ dec_N n <> NIL).
  { intros n. pose proof (uint_digits (N.to_uint n)) as Hd. fold (dec_N n) in Hd.
    destruct (digits_atomtext_parts _ Hd) as (H1 & H2 & H3).
    split; [split; [apply dec_N_nonempty|repeat split; assumption]|].
    intros E. rewrite E in Hd. discriminate Hd. }
  destruct z as [|p|p]; cbn [dec_Z]; try apply HN.
  destruct (HN (Npos p)) as [(H0 & H1 & H2 & H3) _].
  split; [|discriminate]. split; [discriminate|]. repeat split.
  - cbn [forallb]. now rewrite H1.
  - cbn [forallb]. now rewrite H2.
  - constructor; [discriminate|exact H3].
Qed.

Lemma NIL_atomtext : atomtext NIL.
Proof. split; [discriminate|]. repeat split; try reflexivity. repeat constructor; discriminate. Qed.

(** ---- the scanner on text without literals or parentheses outside quoted strings ---- *)
Inductive qmode := QNorm | QQuote | QEsc.
Definition qstep (m : qmode) (c : N) : option qmode :=
  match m with
  | QNorm => if c =? DQ then Some QQuote else if plainchar c then Some QNorm else None
  | QQuote => if c =? BS then Some QEsc else if c =? DQ then Some QNorm else Some QQuote
  | QEsc => Some QQuote
  end.
Fixpoint qrun (m : qmode) (bs : list N) : option qmode :=
  match bs with
  | [] => Some m
  | c :: r => match qstep m c with Some m' => qrun m' r | None => None end
  end.

Lemma qrun_app : forall a m b, qrun m (a ++ b) = match qrun m a with Some m' => qrun m' b | None => None end.
Proof.
  induction a as [|c a IH]; intros m b; [reflexivity|]. cbn [app qrun].
  destruct (qstep m c); [apply IH|reflexivity].
Qed.

Definition mode_of (m : qmode) : mode := match m with QNorm => MNorm | QQuote => MQuote | QEsc => MQuoteEsc end.
Definition pend (m : qmode) : list N := match m with QEsc => [BS] | _ => [] end.
Definition is_eb (e : elem) : bool := match e with EB _ => true | _ => false end.
Definition ebytes (es : list elem) : list N := flat_map elem_bytes es.

Lemma ebytes_app : forall a b, ebytes (a ++ b) = ebytes a ++ ebytes b.
Proof. intros; apply flat_map_app. Qed.

Lemma plainchar_tests : forall c, plainchar c = true ->
  (c =? DQ) = false /\ (c =? LC) = false /\ ((c =? LP) || (c =? LB)) = false /\ ((c =? RP) || (c =? RB)) = false.
Proof.
  intros c H. unfold plainchar in H. apply negb_true_iff in H.
  repeat (apply orb_false_iff in H as [H ?]). repeat split; try assumption; apply orb_false_iff; split; assumption.
Qed.

Ltac fin := cbn [top push List.rev pend]; rewrite ?ebytes_app; cbn; rewrite ?app_nil_r, <- ?app_assoc; reflexivity.

Lemma scan_plain : forall bs m m' tp sk,
  qrun m bs = Some m' ->
  forallb is_eb tp = true ->
  exists tp', scan (mkp (mode_of m) tp sk) bs = Ok (mkp (mode_of m') tp' sk)
              /\ forallb is_eb tp' = true
              /\ ebytes (List.rev tp') ++ pend m' = ebytes (List.rev tp) ++ pend m ++ bs.
Proof.
  induction bs as [|c bs IH]; intros m m' tp sk Hq Htp.
  - cbn in Hq. injection Hq as <-. exists tp. repeat split; [exact Htp|now rewrite app_nil_r].
  - cbn [qrun] in Hq. destruct (qstep m c) as [m1|] eqn:Hs; [|discriminate Hq].
    assert (Hstep : exists tp1, pstep (mkp (mode_of m) tp sk) c = Ok (mkp (mode_of m1) tp1 sk)
                      /\ forallb is_eb tp1 = true
                      /\ ebytes (List.rev tp1) ++ pend m1 = ebytes (List.rev tp) ++ pend m ++ [c]).
    { destruct m; cbn [qstep] in Hs; unfold pstep; cbn [md mode_of top stk].
      - destruct (N.eqb_spec c DQ) as [->|Hd].
        + injection Hs as <-. eexists. split; [reflexivity|]. split; [cbn; exact Htp|]. fin.
        + destruct (plainchar c) eqn:Hp; [|discriminate Hs]. injection Hs as <-.
          destruct (plainchar_tests c Hp) as (_ & -> & -> & ->).
          eexists. split; [reflexivity|]. split; [cbn; exact Htp|]. fin.
      - destruct (N.eqb_spec c BS) as [->|Hb].
        + injection Hs as <-. eexists. split; [reflexivity|]. split; [exact Htp|]. fin.
        + destruct (N.eqb_spec c DQ) as [->|Hd]; injection Hs as <-;
            (eexists; split; [reflexivity|]; split; [cbn; exact Htp|]; fin).
      - injection Hs as <-. eexists. split; [reflexivity|]. split; [cbn; exact Htp|]. fin. }
    destruct Hstep as (tp1 & Hp1 & Heb1 & Hby1).
    destruct (IH m1 m' tp1 sk Hq Heb1) as (tp' & Hsc & Heb' & Hby').
    exists tp'. cbn [scan]. rewrite Hp1. cbn [bind]. split; [exact Hsc|]. split; [exact Heb'|].
    rewrite Hby', app_assoc, Hby1, <- !app_assoc. reflexivity.
Qed.

Lemma scan_all_plain : forall bs, qrun QNorm bs = Some QNorm ->
  exists es, scan_all bs = Ok es /\ forallb is_eb es = true /\ ebytes es = bs.
Proof.
  intros bs Hq. destruct (scan_plain bs QNorm QNorm [] [] Hq eq_refl) as (tp' & Hsc & Heb & Hby).
  exists (List.rev tp'). unfold scan_all. cbn [mode_of] in Hsc. rewrite Hsc. cbn [bind finish md stk top].
  split; [reflexivity|]. split.
  - rewrite forallb_forall in *. intros x Hx. apply Heb. now apply in_rev.
  - cbn [pend] in Hby. now rewrite app_nil_r in Hby.
Qed.

(** ---- collapseStrings on a run without lists or literals = splitQuoted of the joined bytes ---- *)
Lemma so_go_eb : forall es acc, forallb is_eb es = true -> so_go es false acc = split_quoted (acc ++ ebytes es).
Proof.
  induction es as [|e es IH]; intros acc H.
  - cbn. now rewrite app_nil_r.
  - cbn [forallb] in H. apply andb_true_iff in H as [He Hes]. destruct e; try discriminate He.
    cbn [so_go is_lit Bool.eqb elem_bytes]. rewrite (IH _ Hes). cbn [ebytes flat_map elem_bytes].
    now rewrite app_assoc.
Qed.

Lemma cs_go_eb : forall rec es run, forallb is_eb es = true -> cs_go rec es run = split_on (List.rev run ++ es).
Proof.
  induction es as [|e es IH]; intros run H.
  - cbn. now rewrite app_nil_r.
  - cbn [forallb] in H. apply andb_true_iff in H as [He Hes]. destruct e; try discriminate He.
    cbn [cs_go]. rewrite (IH _ Hes). cbn [List.rev]. now rewrite <- app_assoc.
Qed.

Lemma split_quoted_nil : split_quoted [] = Ok [].
Proof. reflexivity. Qed.

Lemma collapse_strings_eb : forall es, forallb is_eb es = true -> collapse_strings es = split_quoted (ebytes es).
Proof.
  intros es H. unfold collapse_strings. rewrite (cs_go_eb _ es [] H). cbn [List.rev app].
  destruct es as [|e es]; [reflexivity|].
  cbn [forallb] in H. apply andb_true_iff in H as [He Hes]. destruct e; try discriminate He.
  cbn [split_on is_lit elem_bytes]. now rewrite (so_go_eb es bs Hes).
Qed.

(** ---- splitQuoted (pinned), on strings without backslash ---- *)
Definition good (st : sq) : Prop :=
  inq st = false /\ inw st = false /\ word st = [] /\ prev_is_bs st = false.

Lemma sq_run_app : forall a st b, sq_run st (a ++ b) = bind (sq_run st a) (fun st' => sq_run st' b).
Proof.
  induction a as [|c a IH]; intros st b; [reflexivity|]. cbn [app sq_run].
  destruct (sq_step st c); cbn [bind]; [apply IH|reflexivity].
Qed.

Definition nobs (s : list N) : Prop := Forall (fun b => b <> BS) s.
Definition pbs (p : option N) : bool := match p with Some b => b =? BS | None => false end.

(** one source byte of a quoted string, escaped *)
Lemma sq_escb : forall b iw w r p, b <> BS -> pbs p = false ->
  exists p', sq_run (mks true iw w r p) (escb b) = Ok (mks true iw (b :: w) r p') /\ pbs p' = false.
Proof.
  intros b iw w r p Hb Hp. unfold escb. rewrite (neq_eqb _ _ Hb).
  destruct (N.eqb_spec b DQ) as [->|Hd].
  - exists (Some DQ). split; [|reflexivity]. cbn [sq_run].
    assert (E1 : sq_step (mks true iw w r p) BS = Ok (mks true iw (BS :: w) r (Some BS))).
    { destruct iw; reflexivity. }
    rewrite E1. cbn [bind]. reflexivity.
  - exists (Some b). split; [|cbn; exact (neq_eqb _ _ Hb)]. cbn [sq_run]. unfold sq_step.
    rewrite (neq_eqb _ _ Hd). cbn [inq inw word res negb]. destruct iw; reflexivity.
Qed.

Lemma sq_body : forall s iw w r p, nobs s -> pbs p = false ->
  exists p', sq_run (mks true iw w r p) (flat_map escb s) = Ok (mks true iw (List.rev s ++ w) r p') /\ pbs p' = false.
Proof.
  induction s as [|b s IH]; intros iw w r p Hs Hp.
  - exists p. split; [reflexivity|exact Hp].
  - inversion Hs as [|? ? Hb Hs']; subst. cbn [flat_map]. rewrite sq_run_app.
    destruct (sq_escb b iw w r p Hb Hp) as (p1 & E1 & P1). rewrite E1. cbn [bind].
    destruct (IH iw (b :: w) r p1 Hs' P1) as (p' & E & P'). exists p'. split; [|exact P'].
    rewrite E. cbn [List.rev]. now rewrite <- app_assoc.
Qed.

(** a whole quoted string, from a state between tokens *)
Lemma sq_quoted : forall s st, good st -> nobs s ->
  exists st', sq_run st (quote s) = Ok st' /\ good st' /\ res st' = IStr s :: res st.
Proof.
  intros s [q iw w r p] (Hq & Hw & Hwd & Hp) Hs. cbn in Hq, Hw, Hwd. unfold prev_is_bs in Hp. cbn [prev] in Hp. subst.
  rewrite quote_escb. cbn [app sq_run].
  assert (Hopen : sq_step (mks false false [] r p) DQ = Ok (mks true false [] r (Some DQ))).
  { unfold sq_step. cbn [N.eqb DQ Pos.eqb]. unfold prev_is_bs. cbn [prev]. now rewrite Hp. }
  rewrite Hopen. cbn [bind]. rewrite sq_run_app.
  destruct (sq_body s false [] r (Some DQ) Hs eq_refl) as (p' & E & P'). rewrite E. cbn [bind sq_run].
  rewrite app_nil_r.
  assert (Hclose : sq_step (mks true false (List.rev s) r p') DQ = Ok (mks false false [] (IStr s :: r) (Some DQ))).
  { unfold sq_step. cbn [N.eqb DQ Pos.eqb]. unfold prev_is_bs. cbn [prev inq inw word res]. change (match p' with Some b => b =? BS | None => false end) with (pbs p').
    rewrite P'. cbn [negb]. now rewrite rev_involutive. }
  rewrite Hclose. cbn [bind].
  eexists. split; [reflexivity|]. split; [|reflexivity]. repeat split.
Qed.

(** an unquoted atom: the machine is inside the word afterwards *)
Lemma sq_word_tail : forall w acc r p, forallb wordchar w = true ->
  exists p', sq_run (mks false true acc r p) w = Ok (mks false true (List.rev w ++ acc) r p').
Proof.
  induction w as [|c w IH]; intros acc r p H.
  - exists p. reflexivity.
  - cbn [forallb] in H. apply andb_true_iff in H as [Hc Hw].
    unfold wordchar in Hc. apply andb_true_iff in Hc as [Hws Hdq].
    apply negb_true_iff in Hws. apply negb_true_iff in Hdq.
    destruct (IH (c :: acc) r (Some c) Hw) as (p' & E). exists p'.
    cbn [sq_run]. unfold sq_step. cbn [inq inw word res]. rewrite Hdq, Hws. cbn [negb andb orb bind].
    rewrite E. cbn [List.rev]. now rewrite <- app_assoc.
Qed.

Lemma sq_word : forall w st, good st -> w <> [] -> forallb wordchar w = true ->
  exists p', sq_run st w = Ok (mks false true (List.rev w) (res st) p').
Proof.
  intros w [q iw wd r p] (Hq & Hw & Hwd & Hp) Hne H. cbn in Hq, Hw, Hwd. subst.
  destruct w as [|c w]; [contradiction|].
  cbn [forallb] in H. apply andb_true_iff in H as [Hc Hrest].
  unfold wordchar in Hc. apply andb_true_iff in Hc as [Hws Hdq].
  apply negb_true_iff in Hws. apply negb_true_iff in Hdq.
  destruct (sq_word_tail w [c] r (Some c) Hrest) as (p' & E). exists p'.
  cbn [sq_run]. unfold sq_step. cbn [inq inw word res]. rewrite Hdq, Hws. cbn [negb andb bind].
  rewrite E. cbn [List.rev res]. reflexivity.
Qed.

(** ---- flat lists of atoms ---- *)
Definition quotable (s : list N) : Prop := needs_literal s = false.
(** None, integers, and byte strings that are sent quoted and contain no backslash *)
Definition flat_atom (i : item) : Prop :=
  match i with INil | IInt _ => True | IStr s => quotable s /\ nobs s | IList _ => False end.

Lemma emit_word_rev : forall w, emit_word (List.rev w) = if list_eq_dec N.eq_dec w NIL then INil else IStr w.
Proof. intros w. unfold emit_word. now rewrite rev_involutive. Qed.

(** one atom followed by the separating space *)
Lemma sq_piece_sp : forall i st, good st -> flat_atom i ->
  exists st', sq_run st (piece i ++ [SP]) = Ok st' /\ good st' /\ res st' = norm i :: res st.
Proof.
  intros i st Hg Hi. rewrite sq_run_app.
  assert (Hword : forall w, atomtext w ->
            exists st', bind (sq_run st w) (fun s1 => sq_run s1 [SP]) = Ok st' /\ good st'
                        /\ res st' = (if list_eq_dec N.eq_dec w NIL then INil else IStr w) :: res st).
  { intros w (Hne & Hwc & _ & _). destruct (sq_word w st Hg Hne Hwc) as (p' & E). rewrite E. cbn [bind sq_run].
    change (sq_step (mks false true (List.rev w) (res st) p') SP)
      with (Ok (mks false false [] (emit_word (List.rev w) :: res st) (Some SP))).
    cbn [bind]. rewrite emit_word_rev.
    eexists. split; [reflexivity|]. split; [|reflexivity]. repeat split. }
  destruct i as [|z|s|l]; cbn [piece norm]; try contradiction.
  - destruct (Hword NIL NIL_atomtext) as (st' & E & G & R). exists st'. split; [exact E|]. split; [exact G|].
    rewrite R. destruct (list_eq_dec N.eq_dec NIL NIL) as [_|Hn]; [reflexivity|now contradiction Hn].
  - destruct (dec_Z_atomtext z) as [Ha Hn]. destruct (Hword _ Ha) as (st' & E & G & R).
    exists st'. split; [exact E|]. split; [exact G|]. rewrite R.
    destruct (list_eq_dec N.eq_dec (dec_Z z) NIL); [contradiction|reflexivity].
  - cbn [flat_atom] in Hi. destruct Hi as [Hi Hs]. unfold quotable in Hi. rewrite Hi.
    destruct (sq_quoted s st Hg Hs) as (s1 & E & (G1 & G2 & G3 & G4) & R). rewrite E. cbn [bind sq_run].
    destruct s1 as [q iw w r p]. cbn in G1, G2, G3, R. subst.
    assert (Hsp : sq_step (mks false false [] (IStr s :: res st) p) SP = Ok (mks false false [] (IStr s :: res st) (Some SP))).
    { reflexivity. }
    rewrite Hsp. cbn [bind].
    eexists. split; [reflexivity|]. split; [|reflexivity]. repeat split.
Qed.

(** the last atom, followed by the end of the input *)
Lemma sq_piece_end : forall i st, good st -> flat_atom i ->
  bind (sq_run st (piece i)) sq_finish = Ok (List.rev (norm i :: res st)).
Proof.
  intros i st Hg Hi.
  assert (Hword : forall w, atomtext w ->
            bind (sq_run st w) sq_finish
            = Ok (List.rev ((if list_eq_dec N.eq_dec w NIL then INil else IStr w) :: res st))).
  { intros w (Hne & Hwc & _ & _). destruct (sq_word w st Hg Hne Hwc) as (p' & E). rewrite E. cbn [bind].
    unfold sq_finish. cbn [inq inw word res]. now rewrite emit_word_rev. }
  destruct i as [|z|s|l]; cbn [piece norm]; try contradiction.
  - rewrite (Hword NIL NIL_atomtext). destruct (list_eq_dec N.eq_dec NIL NIL) as [_|Hn]; [reflexivity|now contradiction Hn].
  - destruct (dec_Z_atomtext z) as [Ha Hn]. rewrite (Hword _ Ha).
    destruct (list_eq_dec N.eq_dec (dec_Z z) NIL); [contradiction|reflexivity].
  - cbn [flat_atom] in Hi. destruct Hi as [Hi Hs]. unfold quotable in Hi. rewrite Hi.
    destruct (sq_quoted s st Hg Hs) as (s1 & E & (G1 & G2 & G3 & G4) & R). rewrite E. cbn [bind].
    unfold sq_finish. now rewrite G1, G2, R.
Qed.

Lemma sq_flat : forall l st, good st -> Forall flat_atom l -> l <> [] ->
  bind (sq_run st (collapse l)) sq_finish = Ok (List.rev (res st) ++ map norm l).
Proof.
  unfold collapse. induction l as [|i l IH]; intros st Hg Hl Hne; [contradiction|].
  inversion Hl as [|? ? Hi Hl']; subst. destruct l as [|j l].
  - cbn [map join_sp]. rewrite (sq_piece_end i st Hg Hi). cbn [List.rev]. reflexivity.
  - change (join_sp (map piece (i :: j :: l))) with (piece i ++ SP :: join_sp (map piece (j :: l))).
    change (piece i ++ SP :: join_sp (map piece (j :: l))) with (piece i ++ [SP] ++ join_sp (map piece (j :: l))).
    rewrite app_assoc, sq_run_app.
    destruct (sq_piece_sp i st Hg Hi) as (st' & E & G & R). rewrite E. cbn [bind].
    rewrite (IH st' G Hl') by discriminate. rewrite R. cbn [List.rev map]. now rewrite <- app_assoc.
Qed.

(** strip leaves the serialisation of a flat list alone *)
Definition hd_ok (s : list N) : bool := match s with b :: _ => negb (is_ws b) | [] => false end.

Lemma drop_ws_hd : forall s, hd_ok s = true -> drop_ws s = s.
Proof. intros [|b s] H; [reflexivity|]. cbn in *. apply negb_true_iff in H. now rewrite H. Qed.

Lemma strip_id : forall s, hd_ok s = true -> hd_ok (List.rev s) = true -> strip s = s.
Proof. intros s H1 H2. unfold strip. now rewrite (drop_ws_hd _ H1), (drop_ws_hd _ H2), rev_involutive. Qed.

Lemma hd_ok_app : forall a b, hd_ok a = true -> hd_ok (a ++ b) = true.
Proof. intros [|x a] b H; [discriminate H|exact H]. Qed.

Lemma atomtext_ends : forall w, atomtext w -> hd_ok w = true /\ hd_ok (List.rev w) = true.
Proof.
  intros w (Hne & Hwc & _ & _).
  assert (Hall : forall x, In x w -> negb (is_ws x) = true).
  { rewrite forallb_forall in Hwc. intros x Hx. specialize (Hwc x Hx). unfold wordchar in Hwc.
    now apply andb_true_iff in Hwc as [H _]. }
  split.
  - destruct w as [|b w]; [contradiction|]. apply Hall. now left.
  - destruct (List.rev w) as [|b r] eqn:E.
    + apply (f_equal (@List.rev N)) in E. rewrite rev_involutive in E. cbn in E. contradiction.
    + cbn. apply Hall. apply in_rev. rewrite E. now left.
Qed.

Lemma piece_ends : forall i, flat_atom i -> hd_ok (piece i) = true /\ hd_ok (List.rev (piece i)) = true.
Proof.
  intros [|z|s|l] H; cbn [piece]; try contradiction.
  - apply atomtext_ends, NIL_atomtext.
  - apply atomtext_ends, dec_Z_atomtext.
  - cbn [flat_atom] in H. destruct H as [H _]. unfold quotable in H. rewrite H. unfold quote. split; [reflexivity|].
    rewrite !rev_app_distr. reflexivity.
Qed.

Lemma collapse_ends : forall l, Forall flat_atom l -> l <> [] ->
  hd_ok (collapse l) = true /\ hd_ok (List.rev (collapse l)) = true.
Proof.
  unfold collapse. induction l as [|i l IH]; intros Hl Hne; [contradiction|].
  inversion Hl as [|? ? Hi Hl']; subst. destruct (piece_ends i Hi) as [P1 P2]. destruct l as [|j l].
  - cbn [map join_sp]. split; assumption.
  - change (join_sp (map piece (i :: j :: l))) with (piece i ++ SP :: join_sp (map piece (j :: l))).
    destruct (IH Hl') as [I1 I2]; [discriminate|]. split.
    + now apply hd_ok_app.
    + rewrite rev_app_distr. cbn [List.rev]. rewrite <- app_assoc. now apply hd_ok_app.
Qed.

Lemma split_quoted_flat : forall l, Forall flat_atom l -> split_quoted (collapse l) = Ok (map norm l).
Proof.
  intros l Hl. destruct l as [|i l]; [reflexivity|].
  destruct (collapse_ends (i :: l) Hl) as [E1 E2]; [discriminate|].
  unfold split_quoted. rewrite (strip_id _ E1 E2).
  rewrite (sq_flat (i :: l) sq_init) by (try assumption; try discriminate; repeat split).
  reflexivity.
Qed.

(** every backslash-free byte string survives _quote followed by splitQuoted *)
Lemma quote_roundtrip : forall s, nobs s -> split_quoted (quote s) = Ok [IStr s].
Proof.
  intros s Hs. unfold split_quoted.
  assert (E1 : hd_ok (quote s) = true) by reflexivity.
  assert (E2 : hd_ok (List.rev (quote s)) = true) by (unfold quote; rewrite !rev_app_distr; reflexivity).
  rewrite (strip_id _ E1 E2).
  destruct (sq_quoted s sq_init) as (s1 & E & (G1 & G2 & _) & R); [repeat split|exact Hs|].
  rewrite E. cbn [bind]. unfold sq_finish. now rewrite G1, G2, R.
Qed.

(** F16: the full statement is false of the pinned code *)
Lemma roundtrip_refuted :
  parse (collapse [IStr [97; 92]]) = Err EQuoting
  /\ parse (collapse [IStr [120; 92; 34; 121]]) = Ok [IStr [120; 92; 92; 34; 121]]
  /\ split_quoted (quote [92]) = Err EQuoting.
Proof. repeat split; vm_compute; reflexivity. Qed.

(** ---- the scanner accepts the serialisation of a flat list ---- *)
Lemma qrun_atomtext : forall w, atomtext w -> qrun QNorm w = Some QNorm.
Proof.
  intros w (_ & Hwc & Hpl & _). induction w as [|c w IH]; [reflexivity|].
  cbn [forallb] in Hwc, Hpl. apply andb_true_iff in Hwc as [Hc Hw]. apply andb_true_iff in Hpl as [Hp Hps].
  cbn [qrun qstep]. destruct (plainchar_tests c Hp) as (-> & _). rewrite Hp. now apply IH.
Qed.

Lemma qrun_body : forall s, qrun QQuote (flat_map escb s) = Some QQuote.
Proof.
  induction s as [|b s IH]; [reflexivity|]. cbn [flat_map]. rewrite qrun_app. unfold escb.
  destruct (N.eqb_spec b BS) as [->|Hb]; [exact IH|]. destruct (N.eqb_spec b DQ) as [->|Hd]; [exact IH|].
  cbn [qrun qstep]. now rewrite (neq_eqb _ _ Hb), (neq_eqb _ _ Hd).
Qed.

Lemma qrun_piece : forall i, flat_atom i -> qrun QNorm (piece i) = Some QNorm.
Proof.
  intros [|z|s|l] H; cbn [piece]; try contradiction.
  - apply qrun_atomtext, NIL_atomtext.
  - apply qrun_atomtext, dec_Z_atomtext.
  - cbn [flat_atom] in H. destruct H as [H _]. unfold quotable in H. rewrite H, quote_escb.
    cbn [app qrun qstep N.eqb DQ Pos.eqb]. rewrite qrun_app, qrun_body. reflexivity.
Qed.

Lemma qrun_collapse : forall l, Forall flat_atom l -> qrun QNorm (collapse l) = Some QNorm.
Proof.
  unfold collapse. induction l as [|i l IH]; intros Hl; [reflexivity|].
  inversion Hl as [|? ? Hi Hl']; subst. destruct l as [|j l].
  - cbn [map join_sp]. now apply qrun_piece.
  - change (join_sp (map piece (i :: j :: l))) with (piece i ++ SP :: join_sp (map piece (j :: l))).
    rewrite qrun_app, (qrun_piece i Hi). cbn [qrun qstep]. cbn [N.eqb SP DQ Pos.eqb]. apply IH, Hl'.
Qed.

(** ---- the property theorem (flat lists) ---- *)
Lemma flat_roundtrip : forall l, Forall flat_atom l -> parse (collapse l) = Ok (map norm l).
Proof.
  intros l Hl. unfold parse.
  destruct (scan_all_plain _ (qrun_collapse l Hl)) as (es & Hs & Heb & Hby).
  rewrite Hs. cbn [bind]. rewrite (collapse_strings_eb es Heb), Hby. apply split_quoted_flat, Hl.
Qed.

(** nested structures with literals (backslash-free): evaluated, not proved (see design.d/C42.md) *)
Example nested_examples :
  let x := [INil; IInt 5; IStr NIL; IList [IStr []; IList [IStr [40]]; IList []]; IStr [97; 10; 98];
            IStr [34; 34]; IList [IStr [123; 51; 125]; IStr [13; 10; 32]]; IStr [120; 10; 32]] in
  parse (collapse x) = Ok (map norm x).
Proof. vm_compute. reflexivity. Qed.

(** the hypotheses of the flat theorem are inhabited by a hostile list *)
Example hostile_flat :
  Forall flat_atom [IStr [34]; IStr [34; 32; 34]; INil; IStr NIL; IInt (-25); IStr []; IStr [40; 123; 51; 125; 41; 32]].
Proof. repeat constructor; discriminate. Qed.
