(** C42: the round trip for nested lists and literals (under the exact guard: quoted strings are
    backslash-free). *)
From Coq Require Import List NArith ZArith Bool Lia.
Require Decimal DecimalN DecimalPos.
From C42 Require Import Model Proofs.
Import ListNotations.
Local Open Scope N_scope.

(** ---- splitQuoted does not depend on surrounding whitespace (so [strip] can be ignored) ---- *)
Definition sq_full (s : list N) : result (list item) := bind (sq_run sq_init s) sq_finish.

Definition allws (s : list N) : Prop := Forall (fun b => is_ws b = true) s.

Lemma drop_ws_split : forall s, exists pre, s = pre ++ drop_ws s /\ allws pre.
Proof.
  induction s as [|b s IH]; [exists []; split; [reflexivity|constructor]|].
  cbn [drop_ws]. destruct (is_ws b) eqn:E.
  - destruct IH as (pre & H1 & H2). exists (b :: pre). split; [cbn; now rewrite <- H1|now constructor].
  - exists []. split; [reflexivity|constructor].
Qed.

Lemma allws_rev : forall s, allws s -> allws (List.rev s).
Proof. intros s H. unfold allws in *. rewrite Forall_forall in *. intros x Hx. apply H. now apply in_rev. Qed.

Lemma strip_split : forall s, exists pre post, s = pre ++ strip s ++ post /\ allws pre /\ allws post.
Proof.
  intros s. destruct (drop_ws_split s) as (pre & H1 & H2).
  destruct (drop_ws_split (List.rev (drop_ws s))) as (q & H3 & H4).
  exists pre, (List.rev q). split; [|split; [exact H2|apply allws_rev, H4]].
  unfold strip. rewrite H1 at 1. f_equal.
  apply (f_equal (@List.rev N)) in H3. rewrite rev_involutive, rev_app_distr in H3. exact H3.
Qed.

(** whitespace in front: nothing happens (only the look-back byte changes, to a non-backslash) *)
Definition same_but_prev (a b : sq) : Prop :=
  inq a = inq b /\ inw a = inw b /\ word a = word b /\ res a = res b /\ prev_is_bs a = prev_is_bs b.

Lemma step_same : forall a b c, same_but_prev a b -> sq_step a c = sq_step b c.
Proof.
  intros [q1 w1 wd1 r1 p1] [q2 w2 wd2 r2 p2] c (H1 & H2 & H3 & H4 & H5). cbn in H1, H2, H3, H4. subst.
  unfold sq_step. rewrite H5. reflexivity.
Qed.

Lemma is_ws_not_special : forall c, is_ws c = true -> (c =? DQ) = false /\ (c =? BS) = false.
Proof.
  intros c H. unfold is_ws in H. cbn [existsb] in H.
  repeat (apply orb_true_iff in H as [H|H]; [apply N.eqb_eq in H; subst c; split; reflexivity|]). discriminate H.
Qed.

Lemma lead_ws : forall pre st, allws pre -> inq st = false -> inw st = false ->
  exists st', sq_run st pre = Ok st' /\ inq st' = false /\ inw st' = false /\ word st' = word st /\ res st' = res st
              /\ (prev_is_bs st' = false \/ (pre = [] /\ st' = st)).
Proof.
  induction pre as [|c pre IH]; intros st Hw Hq Hi.
  - exists st. repeat split; try assumption. right. split; reflexivity.
  - inversion Hw as [|? ? Hc Hw']; subst. destruct (is_ws_not_special c Hc) as [Hd Hb].
    assert (Hs : sq_step st c = Ok (mks false false (word st) (res st) (Some c))).
    { unfold sq_step. rewrite Hd, Hq, Hi, Hc. cbn. reflexivity. }
    cbn [sq_run]. rewrite Hs. cbn [bind].
    destruct (IH (mks false false (word st) (res st) (Some c)) Hw' eq_refl eq_refl) as (st' & R & A & B' & C & D & E).
    exists st'. split; [exact R|]. repeat split; try assumption. left.
    destruct E as [E|[-> ->]]; [exact E|]. unfold prev_is_bs. cbn [prev]. exact Hb.
Qed.

(** whitespace at the end: same result as stopping before it *)
Lemma trail_ws : forall post st, allws post -> bind (sq_run st post) sq_finish = sq_finish st.
Proof.
  induction post as [|c post IH]; intros st Hw; [reflexivity|].
  inversion Hw as [|? ? Hc Hw']; subst. destruct (is_ws_not_special c Hc) as [Hd Hb].
  cbn [sq_run]. unfold sq_step at 1. rewrite Hd, Hc.
  destruct (inq st) eqn:Hq, (inw st) eqn:Hi; cbn [negb andb orb bind]; rewrite (IH _ Hw');
    unfold sq_finish; cbn [inq inw word res]; rewrite ?Hq, ?Hi; reflexivity.
Qed.

Lemma finish_same : forall a b, same_but_prev a b -> sq_finish a = sq_finish b.
Proof.
  intros [q1 w1 wd1 r1 p1] [q2 w2 wd2 r2 p2] (H1 & H2 & H3 & H4 & _). cbn in H1, H2, H3, H4. subst. reflexivity.
Qed.

Lemma split_quoted_unstripped : forall s, split_quoted s = sq_full s.
Proof.
  intros s. destruct (strip_split s) as (pre & post & E & Hpre & Hpost).
  unfold split_quoted, sq_full. rewrite E at 2.
  rewrite sq_run_app. destruct (lead_ws pre sq_init Hpre eq_refl eq_refl) as (st' & R & A & B' & C & D & F).
  rewrite R. cbn [bind]. rewrite sq_run_app.
  assert (Hs : same_but_prev st' sq_init).
  { repeat split; try assumption. destruct F as [F|[_ ->]]; [exact F|reflexivity]. }
  destruct (strip s) as [|c r].
  - cbn [sq_run bind]. rewrite (trail_ws post st' Hpost). symmetry. apply finish_same, Hs.
  - cbn [sq_run]. rewrite (step_same st' sq_init c Hs).
    destruct (sq_step sq_init c) as [s1|e]; [|reflexivity]. cbn [bind].
    destruct (sq_run s1 r) as [s2|e]; [|reflexivity]. cbn [bind]. symmetry. apply trail_ws, Hpost.
Qed.

(** ---- what the scanner makes of a serialisation ---- *)
Fixpoint elems_join (ps : list (list elem)) : list elem :=
  match ps with
  | [] => []
  | [p] => p
  | p :: r => p ++ EB [SP] :: elems_join r
  end.
Definition ebyte (b : N) : elem := EB [b].
Definition qelem (b : N) : elem := if b =? BS then EB [BS; BS] else if b =? DQ then EB [BS; DQ] else EB [b].
Fixpoint elems_piece (i : item) : list elem :=
  match i with
  | INil => map ebyte NIL
  | IInt z => map ebyte (dec_Z z)
  | IStr s => if needs_literal s then [ELit s] else EB [DQ] :: map qelem s ++ [EB [DQ]]
  | IList l => [ESub (elems_join (map elems_piece l))]
  end.

(** tokens: items and the separating spaces *)
Inductive tok := TSp | TIt (i : item).
Definition tok_elems (t : tok) : list elem := match t with TSp => [EB [SP]] | TIt i => elems_piece i end.
Definition seg (ts : list tok) : list elem := flat_map tok_elems ts.
Definition tok_out (t : tok) : list item := match t with TSp => [] | TIt i => [norm i] end.
Definition outs (ts : list tok) : list item := flat_map tok_out ts.
Definition tok_bytes (t : tok) : list N := match t with TSp => [SP] | TIt i => piece i end.
Definition cbytes (ts : list tok) : list N := flat_map tok_bytes ts.

(** no two items without a space between them *)
Fixpoint sep_ok (ts : list tok) : bool :=
  match ts with
  | [] => true
  | TSp :: r => sep_ok r
  | TIt _ :: r => match r with TIt _ :: _ => false | _ => sep_ok r end
  end.

Lemma sep_ok_tail : forall t ts, sep_ok (t :: ts) = true -> sep_ok ts = true.
Proof. intros [|i] ts H; cbn in H; [exact H|]. destruct ts as [|[|j] r]; try exact H. discriminate H. Qed.

Lemma sep_ok_app : forall a b, sep_ok (a ++ b) = true -> sep_ok a = true /\ sep_ok b = true.
Proof.
  induction a as [|t a IH]; intros b H; [split; [reflexivity|exact H]|].
  pose proof (sep_ok_tail _ _ H) as Ht. destruct (IH b Ht) as [H1 H2]. split; [|exact H2].
  destruct t as [|i]; [exact H1|]. cbn [sep_ok]. destruct a as [|[|j] a']; try exact H1. cbn in H. discriminate H.
Qed.

Lemma outs_app : forall a b, outs (a ++ b) = outs a ++ outs b.
Proof. intros; apply flat_map_app. Qed.
Lemma seg_app : forall a b, seg (a ++ b) = seg a ++ seg b.
Proof. intros; apply flat_map_app. Qed.
Lemma cbytes_app : forall a b, cbytes (a ++ b) = cbytes a ++ cbytes b.
Proof. intros; apply flat_map_app. Qed.

(** character tokens: spaces and items written as NIL, digits or a quoted backslash-free string *)
Definition ctok (t : tok) : Prop := match t with TSp => True | TIt i => flat_atom i end.

Lemma good_sp : forall st, good st ->
  exists st', sq_step st SP = Ok st' /\ good st' /\ res st' = res st.
Proof.
  intros [q iw w r p] (Hq & Hw & Hwd & Hp). cbn in Hq, Hw, Hwd. subst.
  eexists. split; [reflexivity|]. split; [repeat split|reflexivity].
Qed.

Lemma sq_tokens_n : forall n ts st, (length ts <= n)%nat -> Forall ctok ts -> sep_ok ts = true -> good st ->
  bind (sq_run st (cbytes ts)) sq_finish = Ok (List.rev (res st) ++ outs ts).
Proof.
  induction n as [|n IH]; intros ts st Hn Hc Hs Hg.
  - destruct ts; [|cbn in Hn; lia]. cbn [cbytes flat_map sq_run bind outs].
    destruct Hg as (Hq & Hw & _). unfold sq_finish. rewrite Hq, Hw. now rewrite app_nil_r.
  - destruct ts as [|t ts].
    + cbn [cbytes flat_map sq_run bind outs]. destruct Hg as (Hq & Hw & _). unfold sq_finish. rewrite Hq, Hw.
      now rewrite app_nil_r.
    + inversion Hc as [|? ? Ht Hc']; subst. cbn [length] in Hn. destruct t as [|i].
      * cbn [cbytes flat_map tok_bytes app sq_run]. destruct (good_sp st Hg) as (st' & E & G & R). rewrite E. cbn [bind].
        fold (cbytes ts). rewrite (IH ts st') by (try assumption; lia). rewrite R. reflexivity.
      * cbn [ctok] in Ht. destruct ts as [|[|j] ts'].
        -- cbn [cbytes flat_map tok_bytes]. rewrite app_nil_r. rewrite (sq_piece_end i st Hg Ht).
           cbn [List.rev outs flat_map tok_out app]. reflexivity.
        -- change (cbytes (TIt i :: TSp :: ts')) with (piece i ++ [SP] ++ cbytes ts').
           rewrite app_assoc, sq_run_app. destruct (sq_piece_sp i st Hg Ht) as (st' & E & G & R). rewrite E. cbn [bind].
           inversion Hc' as [|? ? _ Hc'']; subst. cbn [sep_ok] in Hs. cbn [length] in Hn.
           rewrite (IH ts' st') by (try assumption; lia). rewrite R.
           cbn [List.rev outs flat_map tok_out app]. now rewrite <- app_assoc.
        -- cbn in Hs. discriminate Hs.
Qed.

Lemma split_quoted_tokens : forall ts, Forall ctok ts -> sep_ok ts = true -> split_quoted (cbytes ts) = Ok (outs ts).
Proof.
  intros ts Hc Hs. rewrite split_quoted_unstripped. unfold sq_full.
  rewrite (sq_tokens_n (length ts) ts sq_init) by (try assumption; try lia; repeat split). reflexivity.
Qed.

(** ---- splitOn over a run of flat tokens (characters and literals) ---- *)
Definition is_lit_item (i : item) : bool := match i with IStr s => needs_literal s | _ => false end.
(** a flat item whose quoted form is backslash-free, or a literal *)
Definition wf_flat (i : item) : Prop :=
  match i with INil | IInt _ => True | IStr s => needs_literal s = true \/ nobs s | IList _ => False end.
Definition ftok (t : tok) : Prop := match t with TSp => True | TIt i => wf_flat i end.

Lemma wf_flat_atom : forall i, wf_flat i -> is_lit_item i = false -> flat_atom i.
Proof.
  intros [|z|s|l] H L; cbn in *; try exact I; [|contradiction].
  split; [exact L|]. destruct H as [H|H]; [rewrite H in L; discriminate L|exact H].
Qed.

Lemma map_qelem_eb : forall s, forallb is_eb (map qelem s) = true.
Proof.
  induction s as [|b s IH]; [reflexivity|]. cbn [map forallb]. rewrite IH. unfold qelem.
  destruct (b =? BS); [reflexivity|]. destruct (b =? DQ); reflexivity.
Qed.

Lemma ebytes_map_qelem : forall s, ebytes (map qelem s) = flat_map escb s.
Proof.
  induction s as [|b s IH]; [reflexivity|]. unfold ebytes in *. cbn [map flat_map]. rewrite IH. f_equal.
  unfold qelem, escb. destruct (b =? BS); [reflexivity|]. destruct (b =? DQ); reflexivity.
Qed.

Lemma map_ebyte_eb : forall w, forallb is_eb (map ebyte w) = true /\ ebytes (map ebyte w) = w.
Proof.
  induction w as [|b w [IH1 IH2]]; [split; reflexivity|]. split.
  - cbn [map forallb]. now rewrite IH1.
  - unfold ebytes in *. cbn [map flat_map ebyte elem_bytes app]. now rewrite IH2.
Qed.

(** a character token scans to character elements spelling its bytes *)
Lemma ctok_elems : forall t, ctok t -> forallb is_eb (tok_elems t) = true /\ ebytes (tok_elems t) = tok_bytes t.
Proof.
  intros [|[|z|s|l]] H; cbn [tok_elems tok_bytes elems_piece piece]; try contradiction.
  - split; reflexivity.
  - apply map_ebyte_eb.
  - apply map_ebyte_eb.
  - cbn [ctok flat_atom] in H. destruct H as [H _]. unfold quotable in H. rewrite H. split.
    + cbn [forallb is_eb]. rewrite forallb_app, map_qelem_eb. reflexivity.
    + rewrite quote_escb. unfold ebytes. cbn [flat_map elem_bytes app]. rewrite flat_map_app.
      fold (ebytes (map qelem s)). rewrite ebytes_map_qelem. cbn. rewrite ?app_nil_r. reflexivity.
Qed.

Lemma so_go_eb_app : forall es1 es2 acc, forallb is_eb es1 = true ->
  so_go (es1 ++ es2) false acc = so_go es2 false (acc ++ ebytes es1).
Proof.
  induction es1 as [|e es1 IH]; intros es2 acc H.
  - cbn. now rewrite app_nil_r.
  - cbn [forallb] in H. apply andb_true_iff in H as [He Hes]. destruct e; try discriminate He.
    cbn [app so_go is_lit Bool.eqb elem_bytes]. rewrite (IH _ _ Hes). unfold ebytes. cbn [flat_map elem_bytes].
    now rewrite app_assoc.
Qed.

Lemma lit_tok_elems : forall i, wf_flat i -> is_lit_item i = true -> exists s, i = IStr s /\ tok_elems (TIt i) = [ELit s].
Proof.
  intros [|z|s|l] H L; cbn in L; try discriminate L. exists s. split; [reflexivity|].
  cbn [tok_elems elems_piece]. now rewrite L.
Qed.

(** from inside a run of character tokens [cp] (already accumulated) *)
Lemma so_go_tokens : forall ts cp, Forall ctok cp -> Forall ftok ts -> sep_ok (cp ++ ts) = true ->
  so_go (seg ts) false (cbytes cp) = Ok (outs (cp ++ ts)).
Proof.
  induction ts as [|t ts IH]; intros cp Hcp Hts Hs.
  - rewrite app_nil_r in *. cbn [seg flat_map so_go emit_run]. now apply split_quoted_tokens.
  - inversion Hts as [|? ? Ht Hts']; subst.
    assert (Hchar : ctok t -> so_go (seg (t :: ts)) false (cbytes cp) = Ok (outs (cp ++ t :: ts))).
    { intros Hc. destruct (ctok_elems t Hc) as [E1 E2].
      change (seg (t :: ts)) with (tok_elems t ++ seg ts). rewrite (so_go_eb_app _ _ _ E1), E2.
      assert (Eb : cbytes cp ++ tok_bytes t = cbytes (cp ++ [t])).
      { rewrite cbytes_app. cbn [cbytes flat_map]. now rewrite app_nil_r. }
      rewrite Eb, (IH (cp ++ [t])).
      - now rewrite <- app_assoc.
      - apply Forall_app. split; [exact Hcp|now constructor].
      - exact Hts'.
      - now rewrite <- app_assoc. }
    destruct t as [|i]; [apply Hchar; exact I|].
    destruct (is_lit_item i) eqn:L; [|apply Hchar, wf_flat_atom; assumption].
    destruct (lit_tok_elems i Ht L) as (s & -> & E).
    change (seg (TIt (IStr s) :: ts)) with (tok_elems (TIt (IStr s)) ++ seg ts). rewrite E. cbn [app so_go is_lit Bool.eqb].
    destruct (sep_ok_app _ _ Hs) as [Hs1 Hs2].
    cbn [emit_run]. rewrite (split_quoted_tokens cp Hcp Hs1). cbn [bind elem_bytes].
    rewrite outs_app. cbn [outs flat_map tok_out norm app].
    destruct ts as [|[|j] ts'].
    + cbn [seg flat_map so_go emit_run bind outs tok_out app]. reflexivity.
    + change (seg (TSp :: ts')) with (EB [SP] :: seg ts'). cbn [so_go is_lit Bool.eqb emit_run bind elem_bytes].
      change (so_go (seg ts') false [SP]) with (so_go (seg (TSp :: ts')) false (cbytes [])).
      rewrite (IH []).
      * cbn [bind app outs flat_map tok_out]. reflexivity.
      * constructor.
      * exact Hts'.
      * cbn [app sep_ok]. cbn [sep_ok] in Hs2. exact Hs2.
    + cbn [sep_ok] in Hs2. discriminate Hs2.
Qed.

Lemma so_go_from_nil : forall es, match es with e :: _ => is_lit e = false | [] => True end ->
  split_on es = so_go es false [].
Proof.
  intros [|e es] H; [reflexivity|]. cbn [split_on so_go]. rewrite H. reflexivity.
Qed.
