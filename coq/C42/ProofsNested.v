(** C42: the round trip for nested lists and literals (under the exact guard: quoted strings are
    backslash-free). *)
From Coq Require Import List NArith ZArith Bool Lia.
Require Decimal DecimalN DecimalPos.
From C42 Require Import Model Proofs.
Import ListNotations.
Local Open Scope N_scope.

(** ---- splitQuoted does not depend on surrounding whitespace (so [strip] can be ignored) ---- *)
Definition sq_full (s : list N) : result (list item) := bind (sq_run sq_init s) sq_finish.

Definition allws (s : list N) : Prop := Forall (fun b => is_ws b = true) s.

Lemma drop_ws_split : forall s, exists pre, s = pre ++ drop_ws s /\ allws pre.
Proof.
  induction s as [|b s IH]; [exists []; split; [reflexivity|constructor]|].
  cbn [drop_ws]. destruct (is_ws b) eqn:E.
  - destruct IH as (pre & H1 & H2). exists (b :: pre). split; [cbn; now rewrite <- H1|now constructor].
  - exists []. split; [reflexivity|constructor].
Qed.

Lemma allws_rev : forall s, allws s -> allws (List.rev s).
Proof. intros s H. unfold allws in *. rewrite Forall_forall in *. intros x Hx. apply H. now apply in_rev. Qed.

Lemma strip_split : forall s, exists pre post, s = pre ++ strip s ++ post /\ allws pre /\ allws post.
Proof.
  intros s. destruct (drop_ws_split s) as (pre & H1 & H2).
  destruct (drop_ws_split (List.rev (drop_ws s))) as (q & H3 & H4).
  exists pre, (List.rev q). split; [|split; [exact H2|apply allws_rev, H4]].
  unfold strip. rewrite H1 at 1. f_equal.
  apply (f_equal (@List.rev N)) in H3. rewrite rev_involutive, rev_app_distr in H3. exact H3.
Qed.

(** whitespace in front: nothing happens (only the look-back byte changes, to a non-backslash) *)
Definition same_but_prev (a b : sq) : Prop :=
  inq a = inq b /\ inw a = inw b /\ word a = word b /\ res a = res b /\ prev_is_bs a = prev_is_bs b.

Lemma step_same : forall a b c, same_but_prev a b -> sq_step a c = sq_step b c.
Proof.
  intros [q1 w1 wd1 r1 p1] [q2 w2 wd2 r2 p2] c (H1 & H2 & H3 & H4 & H5). cbn in H1, H2, H3, H4. subst.
  unfold sq_step. rewrite H5. reflexivity.
Qed.

Lemma is_ws_not_special : forall c, is_ws c = true -> (c =? DQ) = false /\ (c =? BS) = false.
Proof.
  intros c H. unfold is_ws in H. cbn [existsb] in H.
  repeat (apply orb_true_iff in H as [H|H]; [apply N.eqb_eq in H; subst c; split; reflexivity|]). discriminate H.
Qed.

Lemma lead_ws : forall pre st, allws pre -> inq st = false -> inw st = false ->
  exists st', sq_run st pre = Ok st' /\ inq st' = false /\ inw st' = false /\ word st' = word st /\ res st' = res st
              /\ (prev_is_bs st' = false \/ (pre = [] /\ st' = st)).
Proof.
  induction pre as [|c pre IH]; intros st Hw Hq Hi.
  - exists st. repeat split; try assumption. right. split; reflexivity.
  - inversion Hw as [|? ? Hc Hw']; subst. destruct (is_ws_not_special c Hc) as [Hd Hb].
    assert (Hs : sq_step st c = Ok (mks false false (word st) (res st) (Some c))).
    { unfold sq_step. rewrite Hd, Hq, Hi, Hc. cbn. reflexivity. }
    cbn [sq_run]. rewrite Hs. cbn [bind].
    destruct (IH (mks false false (word st) (res st) (Some c)) Hw' eq_refl eq_refl) as (st' & R & A & B' & C & D & E).
    exists st'. split; [exact R|]. repeat split; try assumption. left.
    destruct E as [E|[-> ->]]; [exact E|]. unfold prev_is_bs. cbn [prev]. exact Hb.
Qed.

(** whitespace at the end: same result as stopping before it *)
Lemma trail_ws : forall post st, allws post -> bind (sq_run st post) sq_finish = sq_finish st.
Proof.
  induction post as [|c post IH]; intros st Hw; [reflexivity|].
  inversion Hw as [|? ? Hc Hw']; subst. destruct (is_ws_not_special c Hc) as [Hd Hb].
  cbn [sq_run]. unfold sq_step at 1. rewrite Hd, Hc.
  destruct (inq st) eqn:Hq, (inw st) eqn:Hi; cbn [negb andb orb bind]; rewrite (IH _ Hw');
    unfold sq_finish; cbn [inq inw word res]; rewrite ?Hq, ?Hi; reflexivity.
Qed.

Lemma finish_same : forall a b, same_but_prev a b -> sq_finish a = sq_finish b.
Proof.
  intros [q1 w1 wd1 r1 p1] [q2 w2 wd2 r2 p2] (H1 & H2 & H3 & H4 & _). cbn in H1, H2, H3, H4. subst. reflexivity.
Qed.

Lemma split_quoted_unstripped : forall s, split_quoted s = sq_full s.
Proof.
  intros s. destruct (strip_split s) as (pre & post & E & Hpre & Hpost).
  unfold split_quoted, sq_full. rewrite E at 2.
  rewrite sq_run_app. destruct (lead_ws pre sq_init Hpre eq_refl eq_refl) as (st' & R & A & B' & C & D & F).
  rewrite R. cbn [bind]. rewrite sq_run_app.
  assert (Hs : same_but_prev st' sq_init).
  { repeat split; try assumption. destruct F as [F|[_ ->]]; [exact F|reflexivity]. }
  destruct (strip s) as [|c r].
  - cbn [sq_run bind]. rewrite (trail_ws post st' Hpost). symmetry. apply finish_same, Hs.
  - cbn [sq_run]. rewrite (step_same st' sq_init c Hs).
    destruct (sq_step sq_init c) as [s1|e]; [|reflexivity]. cbn [bind].
    destruct (sq_run s1 r) as [s2|e]; [|reflexivity]. cbn [bind]. symmetry. apply trail_ws, Hpost.
Qed.

(** ---- what the scanner makes of a serialisation ---- *)
Fixpoint elems_join (ps : list (list elem)) : list elem :=
  match ps with
  | [] => []
  | [p] => p
  | p :: r => p ++ EB [SP] :: elems_join r
  end.
Definition ebyte (b : N) : elem := EB [b].
Definition qelem (b : N) : elem := if b =? BS then EB [BS; BS] else if b =? DQ then EB [BS; DQ] else EB [b].
Fixpoint elems_piece (i : item) : list elem :=
  match i with
  | INil => map ebyte NIL
  | IInt z => map ebyte (dec_Z z)
  | IStr s => if needs_literal s then [ELit s] else EB [DQ] :: map qelem s ++ [EB [DQ]]
  | IList l => [ESub (elems_join (map elems_piece l))]
  end.

(** tokens: items and the separating spaces *)
Inductive tok := TSp | TIt (i : item).
Definition tok_elems (t : tok) : list elem := match t with TSp => [EB [SP]] | TIt i => elems_piece i end.
Definition seg (ts : list tok) : list elem := flat_map tok_elems ts.
Definition tok_out (t : tok) : list item := match t with TSp => [] | TIt i => [norm i] end.
Definition outs (ts : list tok) : list item := flat_map tok_out ts.
Definition tok_bytes (t : tok) : list N := match t with TSp => [SP] | TIt i => piece i end.
Definition cbytes (ts : list tok) : list N := flat_map tok_bytes ts.

(** no two items without a space between them *)
Fixpoint sep_ok (ts : list tok) : bool :=
  match ts with
  | [] => true
  | TSp :: r => sep_ok r
  | TIt _ :: r => match r with TIt _ :: _ => false | _ => sep_ok r end
  end.

Lemma sep_ok_tail : forall t ts, sep_ok (t :: ts) = true -> sep_ok ts = true.
Proof. intros [|i] ts H; cbn in H; [exact H|]. destruct ts as [|[|j] r]; try exact H. discriminate H. Qed.

Lemma sep_ok_app : forall a b, sep_ok (a ++ b) = true -> sep_ok a = true /\ sep_ok b = true.
Proof.
  induction a as [|t a IH]; intros b H; [split; [reflexivity|exact H]|].
  pose proof (sep_ok_tail _ _ H) as Ht. destruct (IH b Ht) as [H1 H2]. split; [|exact H2].
  destruct t as [|i]; [exact H1|]. cbn [sep_ok]. destruct a as [|[|j] a']; try exact H1. cbn in H. discriminate H.
Qed.

Lemma outs_app : forall a b, outs (a ++ b) = outs a ++ outs b.
Proof. intros; apply flat_map_app. Qed.
Lemma seg_app : forall a b, seg (a ++ b) = seg a ++ seg b.
Proof. intros; apply flat_map_app. Qed.
Lemma cbytes_app : forall a b, cbytes (a ++ b) = cbytes a ++ cbytes b.
Proof. intros; apply flat_map_app. Qed.

(** character tokens: spaces and items written as NIL, digits or a quoted backslash-free string *)
Definition ctok (t : tok) : Prop := match t with TSp => True | TIt i => flat_atom i end.

Lemma good_sp : forall st, good st ->
  exists st', sq_step st SP = Ok st' /\ good st' /\ res st' = res st.
Proof.
  intros [q iw w r p] (Hq & Hw & Hwd & Hp). cbn in Hq, Hw, Hwd. subst.
  eexists. split; [reflexivity|]. split; [repeat split|reflexivity].
Qed.

Lemma sq_tokens_n : forall n ts st, (length ts <= n)%nat -> Forall ctok ts -> sep_ok ts = true -> good st ->
  bind (sq_run st (cbytes ts)) sq_finish = Ok (List.rev (res st) ++ outs ts).
Proof.
  induction n as [|n IH]; intros ts st Hn Hc Hs Hg.
  - destruct ts; [|cbn in Hn; lia]. cbn [cbytes flat_map sq_run bind outs].
    destruct Hg as (Hq & Hw & _). unfold sq_finish. rewrite Hq, Hw. now rewrite app_nil_r.
  - destruct ts as [|t ts].
    + cbn [cbytes flat_map sq_run bind outs]. destruct Hg as (Hq & Hw & _). unfold sq_finish. rewrite Hq, Hw.
      now rewrite app_nil_r.
    + inversion Hc as [|? ? Ht Hc']; subst. cbn [length] in Hn. destruct t as [|i].
      * cbn [cbytes flat_map tok_bytes app sq_run]. destruct (good_sp st Hg) as (st' & E & G & R). rewrite E. cbn [bind].
        fold (cbytes ts). rewrite (IH ts st') by (try assumption; lia). rewrite R. reflexivity.
      * cbn [ctok] in Ht. destruct ts as [|[|j] ts'].
        -- cbn [cbytes flat_map tok_bytes]. rewrite app_nil_r. rewrite (sq_piece_end i st Hg Ht).
           cbn [List.rev outs flat_map tok_out app]. reflexivity.
        -- change (cbytes (TIt i :: TSp :: ts')) with (piece i ++ [SP] ++ cbytes ts').
           rewrite app_assoc, sq_run_app. destruct (sq_piece_sp i st Hg Ht) as (st' & E & G & R). rewrite E. cbn [bind].
           inversion Hc' as [|? ? _ Hc'']; subst. cbn [sep_ok] in Hs. cbn [length] in Hn.
           rewrite (IH ts' st') by (try assumption; lia). rewrite R.
           cbn [List.rev outs flat_map tok_out app]. now rewrite <- app_assoc.
        -- cbn in Hs. discriminate Hs.
Qed.

Lemma split_quoted_tokens : forall ts, Forall ctok ts -> sep_ok ts = true -> split_quoted (cbytes ts) = Ok (outs ts).
Proof.
  intros ts Hc Hs. rewrite split_quoted_unstripped. unfold sq_full.
  rewrite (sq_tokens_n (length ts) ts sq_init) by (try assumption; try lia; repeat split). reflexivity.
Qed.

(** ---- splitOn over a run of flat tokens (characters and literals) ---- *)
Definition is_lit_item (i : item) : bool := match i with IStr s => needs_literal s | _ => false end.
(** a flat item whose quoted form is backslash-free, or a literal *)
Definition wf_flat (i : item) : Prop :=
  match i with INil | IInt _ => True | IStr s => needs_literal s = true \/ nobs s | IList _ => False end.
Definition ftok (t : tok) : Prop := match t with TSp => True | TIt i => wf_flat i end.

Lemma wf_flat_atom : forall i, wf_flat i -> is_lit_item i = false -> flat_atom i.
Proof.
  intros [|z|s|l] H L; cbn in *; try exact I; [|contradiction].
  split; [exact L|]. destruct H as [H|H]; [rewrite H in L; discriminate L|exact H].
Qed.

Lemma map_qelem_eb : forall s, forallb is_eb (map qelem s) = true.
Proof.
  induction s as [|b s IH]; [reflexivity|]. cbn [map forallb]. rewrite IH. unfold qelem.
  destruct (b =? BS); [reflexivity|]. destruct (b =? DQ); reflexivity.
Qed.

Lemma ebytes_map_qelem : forall s, ebytes (map qelem s) = flat_map escb s.
Proof.
  induction s as [|b s IH]; [reflexivity|]. unfold ebytes in *. cbn [map flat_map]. rewrite IH. f_equal.
  unfold qelem, escb. destruct (b =? BS); [reflexivity|]. destruct (b =? DQ); reflexivity.
Qed.

Lemma map_ebyte_eb : forall w, forallb is_eb (map ebyte w) = true /\ ebytes (map ebyte w) = w.
Proof.
  induction w as [|b w [IH1 IH2]]; [split; reflexivity|]. split.
  - cbn [map forallb]. now rewrite IH1.
  - unfold ebytes in *. cbn [map flat_map ebyte elem_bytes app]. now rewrite IH2.
Qed.

(** a character token scans to character elements spelling its bytes *)
Lemma ctok_elems : forall t, ctok t -> forallb is_eb (tok_elems t) = true /\ ebytes (tok_elems t) = tok_bytes t.
Proof.
  intros [|[|z|s|l]] H; cbn [tok_elems tok_bytes elems_piece piece]; try contradiction.
  - split; reflexivity.
  - apply map_ebyte_eb.
  - apply map_ebyte_eb.
  - cbn [ctok flat_atom] in H. destruct H as [H _]. unfold quotable in H. rewrite H. split.
    + cbn [forallb is_eb]. rewrite forallb_app, map_qelem_eb. reflexivity.
    + rewrite quote_escb. unfold ebytes. cbn [flat_map elem_bytes app]. rewrite flat_map_app.
      fold (ebytes (map qelem s)). rewrite ebytes_map_qelem. cbn. rewrite ?app_nil_r. reflexivity.
Qed.

Lemma so_go_eb_app : forall es1 es2 acc, forallb is_eb es1 = true ->
  so_go (es1 ++ es2) false acc = so_go es2 false (acc ++ ebytes es1).
Proof.
  induction es1 as [|e es1 IH]; intros es2 acc H.
  - cbn. now rewrite app_nil_r.
  - cbn [forallb] in H. apply andb_true_iff in H as [He Hes]. destruct e; try discriminate He.
    cbn [app so_go is_lit Bool.eqb elem_bytes]. rewrite (IH _ _ Hes). unfold ebytes. cbn [flat_map elem_bytes].
    now rewrite app_assoc.
Qed.

Lemma lit_tok_elems : forall i, wf_flat i -> is_lit_item i = true -> exists s, i = IStr s /\ tok_elems (TIt i) = [ELit s].
Proof.
  intros [|z|s|l] H L; cbn in L; try discriminate L. exists s. split; [reflexivity|].
  cbn [tok_elems elems_piece]. now rewrite L.
Qed.

(** from inside a run of character tokens [cp] (already accumulated) *)
Lemma so_go_tokens : forall ts cp, Forall ctok cp -> Forall ftok ts -> sep_ok (cp ++ ts) = true ->
  so_go (seg ts) false (cbytes cp) = Ok (outs (cp ++ ts)).
Proof.
  induction ts as [|t ts IH]; intros cp Hcp Hts Hs.
  - rewrite app_nil_r in *. cbn [seg flat_map so_go emit_run]. now apply split_quoted_tokens.
  - inversion Hts as [|? ? Ht Hts']; subst.
    assert (Hchar : ctok t -> so_go (seg (t :: ts)) false (cbytes cp) = Ok (outs (cp ++ t :: ts))).
    { intros Hc. destruct (ctok_elems t Hc) as [E1 E2].
      change (seg (t :: ts)) with (tok_elems t ++ seg ts). rewrite (so_go_eb_app _ _ _ E1), E2.
      assert (Eb : cbytes cp ++ tok_bytes t = cbytes (cp ++ [t])).
      { rewrite cbytes_app. cbn [cbytes flat_map]. now rewrite app_nil_r. }
      rewrite Eb, (IH (cp ++ [t])).
      - now rewrite <- app_assoc.
      - apply Forall_app. split; [exact Hcp|now constructor].
      - exact Hts'.
      - now rewrite <- app_assoc. }
    destruct t as [|i]; [apply Hchar; exact I|].
    destruct (is_lit_item i) eqn:L; [|apply Hchar, wf_flat_atom; assumption].
    destruct (lit_tok_elems i Ht L) as (s & -> & E).
    change (seg (TIt (IStr s) :: ts)) with (tok_elems (TIt (IStr s)) ++ seg ts). rewrite E. cbn [app so_go is_lit Bool.eqb].
    destruct (sep_ok_app _ _ Hs) as [Hs1 Hs2].
    cbn [emit_run]. rewrite (split_quoted_tokens cp Hcp Hs1). cbn [bind elem_bytes].
    rewrite outs_app. cbn [outs flat_map tok_out norm app].
    destruct ts as [|[|j] ts'].
    + cbn [seg flat_map so_go emit_run bind outs tok_out app]. reflexivity.
    + change (seg (TSp :: ts')) with (EB [SP] :: seg ts'). cbn [so_go is_lit Bool.eqb emit_run bind elem_bytes].
      change (so_go (seg ts') false [SP]) with (so_go (seg (TSp :: ts')) false (cbytes [])).
      rewrite (IH []).
      * cbn [bind app outs flat_map tok_out]. reflexivity.
      * constructor.
      * exact Hts'.
      * cbn [app sep_ok]. cbn [sep_ok] in Hs2. exact Hs2.
    + cbn [sep_ok] in Hs2. discriminate Hs2.
Qed.

Lemma so_go_from_nil : forall es, match es with e :: _ => is_lit e = false | [] => True end ->
  split_on es = so_go es false [].
Proof.
  intros [|e es] H; [reflexivity|]. cbn [split_on so_go]. rewrite H. reflexivity.
Qed.

Lemma ctok_head : forall t, ctok t -> exists e es, tok_elems t = e :: es /\ is_lit e = false.
Proof.
  intros [|[|z|s|l]] H; cbn [tok_elems elems_piece]; try contradiction.
  - eexists _, _. split; reflexivity.
  - eexists _, _. split; reflexivity.
  - destruct (dec_Z_atomtext z) as [(Hne & _) _]. destruct (dec_Z z) as [|b w]; [contradiction|].
    eexists _, _. split; reflexivity.
  - cbn [ctok flat_atom] in H. destruct H as [H _]. unfold quotable in H. rewrite H.
    eexists _, _. split; reflexivity.
Qed.

(** right after a literal *)
Lemma so_go_after_literal : forall s ts, Forall ftok ts -> sep_ok (TIt (IStr s) :: ts) = true ->
  so_go (seg ts) true s = Ok (IStr s :: outs ts).
Proof.
  intros s ts Hts Hs. destruct ts as [|[|j] ts'].
  - reflexivity.
  - change (seg (TSp :: ts')) with (EB [SP] :: seg ts'). cbn [so_go is_lit Bool.eqb emit_run bind elem_bytes].
    change (so_go (seg ts') false [SP]) with (so_go (seg (TSp :: ts')) false (cbytes [])).
    rewrite (so_go_tokens (TSp :: ts') []); [reflexivity|constructor|exact Hts|].
    cbn [app]. cbn [sep_ok] in Hs. exact Hs.
  - cbn [sep_ok] in Hs. discriminate Hs.
Qed.

Lemma split_on_tokens : forall ts, Forall ftok ts -> sep_ok ts = true -> split_on (seg ts) = Ok (outs ts).
Proof.
  intros [|t ts] Hts Hs; [reflexivity|].
  inversion Hts as [|? ? Ht Hts']; subst.
  assert (Hchar : ctok t -> split_on (seg (t :: ts)) = Ok (outs (t :: ts))).
  { intros Hc. destruct (ctok_head t Hc) as (e & es & E & L).
    rewrite so_go_from_nil.
    - apply (so_go_tokens (t :: ts) []); [constructor|exact Hts|exact Hs].
    - change (seg (t :: ts)) with (tok_elems t ++ seg ts). rewrite E. exact L. }
  destruct t as [|i]; [apply Hchar; exact I|].
  destruct (is_lit_item i) eqn:L; [|apply Hchar, wf_flat_atom; assumption].
  destruct (lit_tok_elems i Ht L) as (s & -> & E).
  change (seg (TIt (IStr s) :: ts)) with (tok_elems (TIt (IStr s)) ++ seg ts). rewrite E.
  cbn [app split_on is_lit elem_bytes]. now rewrite (so_go_after_literal s ts Hts' Hs).
Qed.

(** ---- collapseStrings over tokens that may be sub-lists ---- *)
Definition nosub (e : elem) : bool := match e with ESub _ => false | _ => true end.

Lemma cs_go_nosub_app : forall rec es1 es2 run, forallb nosub es1 = true ->
  cs_go rec (es1 ++ es2) run = cs_go rec es2 (List.rev es1 ++ run).
Proof.
  induction es1 as [|e es1 IH]; intros es2 run H; [reflexivity|].
  cbn [forallb] in H. apply andb_true_iff in H as [He Hes].
  destruct e; try discriminate He; cbn [app cs_go]; rewrite (IH _ _ Hes); cbn [List.rev]; now rewrite <- app_assoc.
Qed.

Lemma map_ebyte_nosub : forall w, forallb nosub (map ebyte w) = true.
Proof. induction w as [|b w IH]; [reflexivity|]. cbn [map forallb ebyte nosub andb]. exact IH. Qed.

Lemma map_qelem_nosub : forall s, forallb nosub (map qelem s) = true.
Proof.
  induction s as [|b s IH]; [reflexivity|]. cbn [map forallb]. rewrite IH. unfold qelem.
  destruct (b =? BS); [reflexivity|]. destruct (b =? DQ); reflexivity.
Qed.

Lemma ftok_nosub : forall t, ftok t -> forallb nosub (tok_elems t) = true.
Proof.
  intros [|i] H; [reflexivity|]. destruct i as [|z|s|l]; cbn [tok_elems elems_piece].
  - apply map_ebyte_nosub.
  - apply map_ebyte_nosub.
  - destruct (needs_literal s); [reflexivity|]. cbn [forallb nosub andb]. rewrite forallb_app, map_qelem_nosub. reflexivity.
  - contradiction.
Qed.

(** what is known about a token: a flat item with backslash-free quoting, or a sub-list on which
    collapseStrings already gives the right answer *)
Definition tokwf (t : tok) : Prop :=
  match t with
  | TSp => True
  | TIt (IList l) => cs_elem (ESub (elems_join (map elems_piece l))) = Ok (map norm l)
  | TIt i => wf_flat i
  end.

Lemma cs_go_tokens : forall ts pend, Forall ftok pend -> Forall tokwf ts -> sep_ok (pend ++ ts) = true ->
  cs_go cs_elem (seg ts) (List.rev (seg pend)) = Ok (outs (pend ++ ts)).
Proof.
  induction ts as [|t ts IH]; intros pend Hp Hts Hs.
  - rewrite app_nil_r in *. cbn [seg flat_map cs_go]. rewrite rev_involutive. now apply split_on_tokens.
  - inversion Hts as [|? ? Ht Hts']; subst.
    assert (Hflat : ftok t -> cs_go cs_elem (seg (t :: ts)) (List.rev (seg pend)) = Ok (outs (pend ++ t :: ts))).
    { intros Hf. change (seg (t :: ts)) with (tok_elems t ++ seg ts).
      rewrite (cs_go_nosub_app _ _ _ _ (ftok_nosub t Hf)), <- rev_app_distr.
      assert (Es : seg pend ++ tok_elems t = seg (pend ++ [t])).
      { rewrite seg_app. cbn [seg flat_map]. now rewrite app_nil_r. }
      rewrite Es, (IH (pend ++ [t])).
      - now rewrite <- app_assoc.
      - apply Forall_app. split; [exact Hp|now constructor].
      - exact Hts'.
      - now rewrite <- app_assoc. }
    destruct t as [|i]; [apply Hflat; exact I|].
    destruct i as [|z|s|l]; try (apply Hflat; exact Ht).
    cbn [tokwf] in Ht.
    change (seg (TIt (IList l) :: ts)) with (ESub (elems_join (map elems_piece l)) :: seg ts).
    cbn [cs_go]. rewrite rev_involutive.
    destruct (sep_ok_app _ _ Hs) as [Hs1 Hs2].
    rewrite (split_on_tokens pend Hp Hs1). cbn [bind]. rewrite Ht. cbn [bind].
    change (@nil elem) with (List.rev (seg [])).
    rewrite (IH [] (Forall_nil _) Hts' (sep_ok_tail _ _ Hs2)). cbn [bind app].
    rewrite outs_app. cbn [outs flat_map tok_out norm app]. reflexivity.
Qed.

Fixpoint toks (l : list item) : list tok :=
  match l with
  | [] => []
  | [i] => [TIt i]
  | i :: r => TIt i :: TSp :: toks r
  end.

Lemma seg_toks : forall l, seg (toks l) = elems_join (map elems_piece l).
Proof.
  induction l as [|i l IH]; [reflexivity|]. destruct l as [|j l].
  - cbn. now rewrite app_nil_r.
  - change (toks (i :: j :: l)) with (TIt i :: TSp :: toks (j :: l)).
    change (seg (TIt i :: TSp :: toks (j :: l))) with (elems_piece i ++ EB [SP] :: seg (toks (j :: l))).
    rewrite IH. reflexivity.
Qed.

Lemma outs_toks : forall l, outs (toks l) = map norm l.
Proof.
  induction l as [|i l IH]; [reflexivity|]. destruct l as [|j l]; [reflexivity|].
  change (toks (i :: j :: l)) with (TIt i :: TSp :: toks (j :: l)).
  change (outs (TIt i :: TSp :: toks (j :: l))) with (norm i :: outs (toks (j :: l))). now rewrite IH.
Qed.

Lemma sep_ok_toks : forall l, sep_ok (toks l) = true.
Proof.
  induction l as [|i l IH]; [reflexivity|]. destruct l as [|j l]; [reflexivity|].
  change (toks (i :: j :: l)) with (TIt i :: TSp :: toks (j :: l)). cbn [sep_ok]. exact IH.
Qed.

Lemma tokwf_toks : forall l, Forall (fun i => tokwf (TIt i)) l -> Forall tokwf (toks l).
Proof.
  induction l as [|i l IH]; intros H; [constructor|]. inversion H as [|? ? Hi Hl]; subst.
  destruct l as [|j l]; [repeat constructor; exact Hi|].
  change (toks (i :: j :: l)) with (TIt i :: TSp :: toks (j :: l)).
  constructor; [exact Hi|]. constructor; [exact I|]. apply IH, Hl.
Qed.

(** ---- the guard, at every nesting depth ---- *)
Fixpoint wf_item (i : item) : Prop :=
  match i with
  | INil | IInt _ => True
  | IStr s => needs_literal s = true \/ nobs s
  | IList l => (fix all (l : list item) : Prop := match l with [] => True | x :: r => wf_item x /\ all r end) l
  end.

Lemma wf_item_list : forall l, wf_item (IList l) <-> Forall wf_item l.
Proof.
  induction l as [|x l IH].
  - split; intros _; [constructor|exact I].
  - split; intros H.
    + change (wf_item x /\ wf_item (IList l)) in H. destruct H as [Hx Hl].
      constructor; [exact Hx|apply (proj1 IH); exact Hl].
    + inversion H as [|? ? Hx Hl]; subst. change (wf_item x /\ wf_item (IList l)).
      split; [exact Hx|apply (proj2 IH); exact Hl].
Qed.

Fixpoint item_ind' (P : item -> Prop) (HN : P INil) (HI : forall z, P (IInt z)) (HS : forall s, P (IStr s))
  (HL : forall l, Forall P l -> P (IList l)) (i : item) {struct i} : P i :=
  match i with
  | INil => HN
  | IInt z => HI z
  | IStr s => HS s
  | IList l => HL l ((fix go (l : list item) : Forall P l :=
                        match l with
                        | [] => Forall_nil P
                        | x :: r => Forall_cons x (item_ind' P HN HI HS HL x) (go r)
                        end) l)
  end.

Lemma item_tokwf : forall i, wf_item i -> tokwf (TIt i).
Proof.
  induction i as [|z|s|l IH] using item_ind'; intros H; try exact H.
  cbn [tokwf]. apply wf_item_list in H.
  assert (Hall : Forall (fun i => tokwf (TIt i)) l).
  { clear -IH H. induction l as [|x l IHl]; [constructor|].
    inversion IH as [|? ? Hx Hl]; subst. inversion H as [|? ? Wx Wl]; subst.
    constructor; [apply Hx, Wx|apply IHl; assumption]. }
  rewrite <- seg_toks.
  change (cs_elem (ESub (seg (toks l)))) with (cs_go cs_elem (seg (toks l)) (List.rev (seg []))).
  rewrite (cs_go_tokens (toks l) [] (Forall_nil _) (tokwf_toks l Hall) (sep_ok_toks l)).
  cbn [app]. now rewrite outs_toks.
Qed.

Lemma collapse_strings_nested : forall x, Forall wf_item x ->
  collapse_strings (elems_join (map elems_piece x)) = Ok (map norm x).
Proof.
  intros x H. apply wf_item_list in H. exact (item_tokwf (IList x) H).
Qed.

(** ---- the scanner on a whole serialisation (any structure, no guard needed) ---- *)
Lemma scan_chars : forall w tp sk rest, forallb plainchar w = true ->
  scan (mkp MNorm tp sk) (w ++ rest) = scan (mkp MNorm (List.rev (map ebyte w) ++ tp) sk) rest.
Proof.
  induction w as [|c w IH]; intros tp sk rest H; [reflexivity|].
  cbn [forallb] in H. apply andb_true_iff in H as [Hc Hw].
  destruct (plainchar_tests c Hc) as (E1 & E2 & E3 & E4).
  cbn [app scan]. unfold pstep at 1. cbn [md]. rewrite E1, E2, E3, E4. cbn [bind top stk]; unfold push; cbn [top stk].
  rewrite (IH _ _ _ Hw). cbn [map List.rev]. now rewrite <- app_assoc.
Qed.

Lemma scan_qbyte : forall b tp sk rest,
  scan (mkp MQuote tp sk) (escb b ++ rest) = scan (mkp MQuote (qelem b :: tp) sk) rest.
Proof.
  intros b tp sk rest. unfold escb, qelem.
  destruct (N.eqb_spec b BS) as [->|Hb]; [|destruct (N.eqb_spec b DQ) as [->|Hd]].
  - reflexivity.
  - reflexivity.
  - cbn [app scan]. unfold pstep at 1. cbn [md]. rewrite (neq_eqb _ _ Hb), (neq_eqb _ _ Hd). reflexivity.
Qed.

Lemma scan_qbody : forall s tp sk rest,
  scan (mkp MQuote tp sk) (flat_map escb s ++ rest) = scan (mkp MQuote (List.rev (map qelem s) ++ tp) sk) rest.
Proof.
  induction s as [|b s IH]; intros tp sk rest; [reflexivity|].
  cbn [flat_map map List.rev]. rewrite <- !app_assoc, scan_qbyte, IH. reflexivity.
Qed.

Lemma scan_quoted : forall s tp sk rest,
  scan (mkp MNorm tp sk) (quote s ++ rest)
  = scan (mkp MNorm (List.rev (EB [DQ] :: map qelem s ++ [EB [DQ]]) ++ tp) sk) rest.
Proof.
  intros s tp sk rest. rewrite quote_escb. rewrite <- !app_assoc. cbn [app scan].
  unfold pstep at 1. cbn [md N.eqb DQ Pos.eqb bind top stk]; unfold push; cbn [top stk].
  rewrite scan_qbody. cbn [app scan]. unfold pstep at 1. cbn [md N.eqb DQ BS Pos.eqb bind top stk]; unfold push; cbn [top stk].
  cbn [List.rev]. rewrite rev_app_distr. cbn [List.rev app]. rewrite <- !app_assoc. reflexivity.
Qed.

Lemma bytes_uint_bytes : forall u, bytes_uint (uint_bytes u) = Some u.
Proof. induction u; cbn [uint_bytes bytes_uint]; try rewrite IHu; reflexivity. Qed.

Lemma parse_dec_dec_N : forall n, parse_dec (dec_N n) = Some n.
Proof.
  intros n. unfold parse_dec. pose proof (dec_N_nonempty n) as Hne.
  destruct (dec_N n) as [|b w] eqn:E; [contradiction|]. rewrite <- E. unfold dec_N.
  rewrite bytes_uint_bytes. now rewrite DecimalN.Unsigned.of_to.
Qed.

Lemma scan_hdr : forall w ds tp sk rest, Forall (fun b => b <> RC) w ->
  scan (mkp (MLitHdr ds) tp sk) (w ++ rest) = scan (mkp (MLitHdr (List.rev w ++ ds)) tp sk) rest.
Proof.
  induction w as [|c w IH]; intros ds tp sk rest H; [reflexivity|].
  inversion H as [|? ? Hc Hw]; subst. cbn [app scan]. unfold pstep at 1. cbn [md]. rewrite (neq_eqb _ _ Hc).
  cbn [bind top stk]. rewrite (IH _ _ _ _ Hw). cbn [List.rev]. now rewrite <- app_assoc.
Qed.

Lemma scan_body : forall s acc tp sk rest, s <> [] ->
  scan (mkp (MLitBody (N.of_nat (length s)) acc) tp sk) (s ++ rest)
  = scan (mkp MNorm (ELit (List.rev acc ++ s) :: tp) sk) rest.
Proof.
  induction s as [|c s IH]; intros acc tp sk rest Hne; [contradiction|].
  cbn [app scan]. unfold pstep at 1. cbn [md]. destruct s as [|c' s'].
  - cbn [length N.of_nat N.pred Pos.of_succ_nat Pos.pred_N N.eqb bind top stk List.rev]; unfold push; cbn [top stk]. reflexivity.
  - assert (E : N.pred (N.of_nat (length (c :: c' :: s'))) = N.of_nat (length (c' :: s'))).
    { cbn [length]. rewrite !Nat2N.inj_succ. now rewrite N.pred_succ. }
    rewrite E. assert (E0 : (N.of_nat (length (c' :: s')) =? 0) = false).
    { apply N.eqb_neq. cbn [length]. rewrite Nat2N.inj_succ. apply N.neq_succ_0. }
    rewrite E0. cbn [bind top stk]. rewrite IH by discriminate. cbn [List.rev]. now rewrite <- app_assoc.
Qed.

Lemma needs_literal_nonempty : forall s, needs_literal s = true -> s <> [].
Proof. intros s H ->. discriminate H. Qed.

Lemma digit_not_rc : forall w, forallb digit w = true -> Forall (fun b => b <> RC) w.
Proof.
  intros w H. apply Forall_forall. intros x Hx. rewrite forallb_forall in H. specialize (H x Hx).
  intros ->. discriminate H.
Qed.

Lemma scan_literal : forall s tp sk rest, needs_literal s = true ->
  scan (mkp MNorm tp sk) (literal s ++ rest) = scan (mkp MNorm (ELit s :: tp) sk) rest.
Proof.
  intros s tp sk rest H. pose proof (needs_literal_nonempty s H) as Hne.
  unfold literal. rewrite <- !app_assoc. cbn [app scan]. unfold pstep at 1. cbn [md N.eqb LC DQ Pos.eqb bind top stk].
  rewrite scan_hdr by (apply digit_not_rc; apply uint_digits).
  cbn [scan]. unfold pstep at 1. cbn [md N.eqb RC Pos.eqb]. rewrite app_nil_r, rev_involutive, parse_dec_dec_N.
  cbn [bind top stk scan]. unfold pstep at 1. cbn [md bind top stk]. unfold pstep at 1. cbn [md bind].
  unfold enter_body.
  assert (E0 : (N.of_nat (length s) =? 0) = false).
  { apply N.eqb_neq. destruct s; [contradiction|]. cbn [length]. rewrite Nat2N.inj_succ. apply N.neq_succ_0. }
  rewrite E0. cbn [top stk]. rewrite (scan_body s [] tp sk rest Hne). reflexivity.
Qed.

Lemma rev_elems_join_cons : forall p q r,
  elems_join (p :: q :: r) = p ++ EB [SP] :: elems_join (q :: r).
Proof. reflexivity. Qed.

Lemma scan_item : forall i tp sk rest,
  scan (mkp MNorm tp sk) (piece i ++ rest) = scan (mkp MNorm (List.rev (elems_piece i) ++ tp) sk) rest.
Proof.
  induction i as [|z|s|l IH] using item_ind'; intros tp sk rest.
  - cbn [piece elems_piece]. apply scan_chars. apply NIL_atomtext.
  - cbn [piece elems_piece]. apply scan_chars. apply dec_Z_atomtext.
  - cbn [piece elems_piece]. destruct (needs_literal s) eqn:E.
    + rewrite (scan_literal s tp sk rest E). reflexivity.
    + apply scan_quoted.
  - assert (Hjoin : forall tp sk rest,
              scan (mkp MNorm tp sk) (join_sp (map piece l) ++ rest)
              = scan (mkp MNorm (List.rev (elems_join (map elems_piece l)) ++ tp) sk) rest).
    { clear tp sk rest. induction l as [|x l IHl]; intros tp sk rest; [reflexivity|].
      inversion IH as [|? ? Hx Hl]; subst. destruct l as [|y l].
      - cbn [map join_sp elems_join]. apply Hx.
      - change (join_sp (map piece (x :: y :: l))) with (piece x ++ SP :: join_sp (map piece (y :: l))).
        change (elems_join (map elems_piece (x :: y :: l)))
          with (elems_piece x ++ EB [SP] :: elems_join (map elems_piece (y :: l))).
        rewrite <- app_assoc, Hx. cbn [app scan]. unfold pstep at 1. cbn [md N.eqb SP DQ LC LP LB RP RB Pos.eqb orb bind top stk]; unfold push; cbn [top stk].
        rewrite (IHl Hl). rewrite rev_app_distr. cbn [List.rev]. rewrite <- !app_assoc. reflexivity. }
    cbn [piece elems_piece]. rewrite <- !app_assoc. cbn [app scan]. unfold pstep at 1.
    cbn [md N.eqb LP DQ LC Pos.eqb orb bind top stk]. rewrite Hjoin. cbn [scan]. unfold pstep at 1.
    cbn [md N.eqb RP DQ LC LP LB Pos.eqb orb bind top stk]. rewrite app_nil_r, rev_involutive. reflexivity.
Qed.

Lemma scan_all_collapse : forall x, scan_all (collapse x) = Ok (elems_join (map elems_piece x)).
Proof.
  intros x. unfold scan_all, collapse.
  assert (Hjoin : forall l tp sk rest,
            scan (mkp MNorm tp sk) (join_sp (map piece l) ++ rest)
            = scan (mkp MNorm (List.rev (elems_join (map elems_piece l)) ++ tp) sk) rest).
  { induction l as [|i l IHl]; intros tp sk rest; [reflexivity|]. destruct l as [|y l].
    - cbn [map join_sp elems_join]. apply scan_item.
    - change (join_sp (map piece (i :: y :: l))) with (piece i ++ SP :: join_sp (map piece (y :: l))).
      change (elems_join (map elems_piece (i :: y :: l)))
        with (elems_piece i ++ EB [SP] :: elems_join (map elems_piece (y :: l))).
      rewrite <- app_assoc, scan_item. cbn [app scan]. unfold pstep at 1.
      cbn [md N.eqb SP DQ LC LP LB RP RB Pos.eqb orb bind top stk]; unfold push; cbn [top stk].
      rewrite IHl. rewrite rev_app_distr. cbn [List.rev]. rewrite <- !app_assoc. reflexivity. }
  rewrite <- (app_nil_r (join_sp (map piece x))), Hjoin. cbn [scan bind finish md stk top].
  rewrite app_nil_r, rev_involutive. reflexivity.
Qed.

(** ---- the round trip for every nested structure under the exact guard ---- *)
Lemma nested_roundtrip : forall x, Forall wf_item x -> parse (collapse x) = Ok (map norm x).
Proof.
  intros x H. unfold parse. rewrite scan_all_collapse. cbn [bind]. now apply collapse_strings_nested.
Qed.

Lemma wf_item_unfold : forall l : list item,
  (wf_item (IList l) <-> Forall wf_item l)
  /\ (forall s, wf_item (IStr s) <-> (needs_literal s = true \/ Forall (fun b => b <> BS) s))
  /\ wf_item INil /\ (forall z, wf_item (IInt z)).
Proof.
  intros l. split; [apply wf_item_list|]. split; [intros s; reflexivity|]. split; [exact I|intros z; exact I].
Qed.

(** the guard is inhabited by a hostile nested structure (backslashes only inside literals) *)
Example hostile_nested :
  Forall wf_item [INil; IInt (-7); IStr NIL; IList [IStr []; IList [IStr [40; 34]]; IList []];
                  IStr [97; 10; 92; 98]; IList [IStr [123; 51; 125]; IStr [13; 10; 32]]; IStr [92; 10; 32]].
Proof.
  assert (Q : forall s, forallb (fun b => negb (b =? BS)) s = true -> wf_item (IStr s)).
  { intros s H. right. apply Forall_forall. intros x Hx. rewrite forallb_forall in H. specialize (H x Hx).
    apply negb_true_iff in H. now apply N.eqb_neq. }
  assert (L : forall s, needs_literal s = true -> wf_item (IStr s)) by (intros s H; left; exact H).
  constructor; [exact I|]. constructor; [exact I|]. constructor; [apply Q; reflexivity|].
  constructor.
  { apply wf_item_list. constructor; [apply Q; reflexivity|]. constructor.
    - apply wf_item_list. constructor; [apply Q; reflexivity|constructor].
    - constructor; [apply wf_item_list; constructor|constructor]. }
  constructor; [apply L; reflexivity|]. constructor.
  { apply wf_item_list. constructor; [apply Q; reflexivity|]. constructor; [apply L; reflexivity|constructor]. }
  constructor; [apply L; reflexivity|constructor].
Qed.
