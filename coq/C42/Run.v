(** C42: printers used by the correspondence check only. *)
From Coq Require Import List NArith ZArith Bool String.
From TwLib Require Import Show.
From C42 Require Import Model.
Import ListNotations.
Local Open Scope string_scope.

Fixpoint show_item (i : item) : string :=
  match i with
  | INil => "NIL"
  | IInt z => "i" ++ show_Z z
  | IStr s => "s" ++ show_hex s
  | IList l => "(" ++ String.concat "," (map show_item l) ++ ")"
  end.

Definition show_err (e : err) : string :=
  match e with
  | ENesting => "!MismatchedNesting" | EQuoting => "!MismatchedQuoting"
  | EValue => "!ValueError" | EIndex => "!IndexError"
  end.

Definition show_res (r : result (list item)) : string :=
  match r with Ok l => show_item (IList l) | Err e => show_err e end.

(** a structure: serialise, then parse the serialisation *)
Definition run_show (x : list item) : string :=
  let s := collapse x in "s=" ++ show_hex s ++ " p=" ++ show_res (parse s).
(** a raw byte string handed to the parser *)
Definition run_show_raw (s : list N) : string := "s=" ++ show_hex s ++ " p=" ++ show_res (parse s).
Definition run_case (c : list item + list N) : string :=
  match c with inl x => run_show x | inr s => run_show_raw s end.
