(** C14: invariants of the FileDescriptor write-path model over every history. *)
From Coq Require Import List Arith Bool NArith Lia.
From C14 Require Import Model.
Import ListNotations.

(** ---- list facts ---- *)
Lemma skipn_firstn_step {A} (l : list A) o k :
  firstn k (skipn o l) ++ skipn (o + k) l = skipn o l.
Proof.
  revert l. induction o as [|o IH]; intros l; cbn [skipn plus].
  - apply firstn_skipn.
  - destruct l as [|x l]; [destruct k; reflexivity | apply IH].
Qed.

Lemma length_zero_nil {A} (l : list A) : length l = 0 -> l = [].
Proof. destruct l; cbn; [reflexivity | discriminate]. Qed.

Lemma app_not_nil_l {A} (a b : list A) : a <> [] -> a ++ b <> [].
Proof. destruct a; cbn; [congruence | discriminate]. Qed.

Lemma app_not_nil_r {A} (a b : list A) : b <> [] -> a ++ b <> [].
Proof. destruct a; cbn; [auto | discriminate]. Qed.

(** bytes accepted by the OS, read off a newest-first log *)
Fixpoint os_rl (l : list ev) : bytes :=
  match l with [] => [] | e :: r => os_rl r ++ os_accepted e end.

Lemma os_rl_rev l : os_rl l = os_bytes (rev l).
Proof.
  induction l as [|e l IH]; [reflexivity|]. cbn [os_rl rev]. unfold os_bytes in *.
  rewrite flat_map_app, IH. cbn. rewrite app_nil_r. reflexivity.
Qed.

(** what each logged event asserts about the moment it was logged *)
Definition ev_ok (e : ev) : Prop :=
  match e with
  | ELost true pull wd wr se => wr = se /\ (pull = true -> wd = true)
  | ECloseWrite pull wr se => wr = se /\ pull = false
  | _ => True
  end.

Section Proofs.
  Variables (slimit bsize : nat).

  Record Inv (s : st) : Prop := mkInv {
    i_bytes : written s = sent s ++ unsent s;
    i_tlen : tlen s = length (concat (temp s));
    i_off : off s <= length (dbuf s);
    i_reset : off s = length (dbuf s) -> tlen s = 0 -> dbuf s = [];
    i_wd : wdisconnected s = true -> unsent s = [];
    i_conn : connected s = true -> disconnected s = false;
    i_prod : producer s <> None -> disconnected s = false;
    i_told0 : gtold s = true -> is_streaming s = true;
    i_writing : unsent s <> [] -> connected s = true -> writing s = true;
    i_closing : connected s = true -> disconnecting s = true -> producer s = None -> writing s = true;
    i_told : gtold s = true -> ppaused s = true /\ unsent s <> [];
    i_over : is_streaming s = true -> gtold s = false -> gwrote s = true -> length (unsent s) <= bsize;
    i_log : Forall ev_ok (log s);
    i_sent : sent s = os_rl (log s);
    (* a transport that was never connected has accepted nothing *)
    i_pre : connected s = true \/ disconnected s = true \/
            (written s = [] /\ disconnecting s = false /\ gtold s = false)
  }.

  Lemma init_inv : Inv init.
  Proof.
    constructor; cbn; try reflexivity; try discriminate; try lia; auto; try congruence.
  Qed.

  (** the part of the invariant that connectionLost needs *)
  Record Core (s : st) : Prop := mkCore {
    c_bytes : written s = sent s ++ unsent s;
    c_tlen : tlen s = length (concat (temp s));
    c_off : off s <= length (dbuf s);
    c_reset : off s = length (dbuf s) -> tlen s = 0 -> dbuf s = [];
    c_wd : wdisconnected s = true -> unsent s = [];
    c_told0 : gtold s = true -> is_streaming s = true;
    c_log : Forall ev_ok (log s);
    c_sent : sent s = os_rl (log s)
  }.

  Lemma inv_core s : Inv s -> Core s.
  Proof. intros []; constructor; assumption. Qed.

  Lemma is_streaming_some s : is_streaming s = true -> producer s <> None.
  Proof. unfold is_streaming. destruct (producer s); [discriminate | discriminate]. Qed.

  Lemma conn_lost_inv clean s :
    Core s ->
    (clean = true -> written s = sent s /\ (is_pull s = true -> wdisconnected s = true)) ->
    Inv (conn_lost clean s).
  Proof.
    intros [Hb Ht Ho Hr Hw H0 Hl Hs] Hc. unfold conn_lost.
    assert (Hev : ev_ok (ELost clean (is_pull s) (wdisconnected s) (written s) (sent s))).
    { destruct clean; cbn; auto. }
    destruct (producer s) as [[[id str] scr]|] eqn:Ep; cbn; rewrite ?Ep; cbn.
    - constructor; cbn; unfold is_streaming; cbn; rewrite ?app_nil_r; auto; try discriminate; try congruence.
      all: try (repeat constructor; auto).
    - assert (Hg0 : gtold s = false).
      { destruct (gtold s); [|reflexivity]. specialize (H0 eq_refl). unfold is_streaming in H0.
        rewrite Ep in H0. discriminate. }
      constructor; cbn; unfold is_streaming; cbn; rewrite ?Ep, ?Hg0, ?app_nil_r; auto; try discriminate; try congruence.
      all: try (constructor; auto).
  Qed.

  (** ---- write / writeSequence ---- *)
  Lemma maybe_pause_cases s :
    (maybe_pause bsize s = s /\ (is_streaming s = true -> length (dbuf s) + tlen s <= bsize)) \/
    (exists id, is_streaming s = true /\ bsize < length (dbuf s) + tlen s /\
                maybe_pause bsize s = emit (EPause id) (set_gtold true (set_ppaused true s))).
  Proof.
    unfold maybe_pause, is_streaming. destruct (producer s) as [[[id [|]] scr]|].
    - destruct (Nat.ltb_spec bsize (length (dbuf s) + tlen s)).
      + right. exists id. auto.
      + left. auto.
    - left. split; [reflexivity | discriminate].
    - left. split; [reflexivity | discriminate].
  Qed.

  Lemma unsent_le_measure s : off s <= length (dbuf s) -> tlen s = length (concat (temp s)) ->
    length (unsent s) <= length (dbuf s) + tlen s.
  Proof. intros Ho Ht. unfold unsent. rewrite app_length, skipn_length. lia. Qed.

  (** the common shape of an accepted write: [ds] appended to the temporary buffer *)
  Definition accept (ds : list bytes) (s : st) : st :=
    set_writing true (maybe_pause bsize
      (set_gwrote true (set_written (written s ++ concat ds)
         (set_tlen (tlen s + length (concat ds)) (set_temp (temp s ++ ds) s))))).

  Lemma accept_inv ds s :
    Inv s -> connected s = true -> wdisconnected s = false ->
    (concat ds = [] -> gtold s = true -> unsent s <> []) ->
    Inv (accept ds s).
  Proof.
    intros [Hb Ht Ho Hr Hw Hc Hp H0 Hwr Hcl Htd Hov Hl Hs Hpre] Hcon Hwd _. unfold accept.
    set (s0 := set_gwrote true (set_written (written s ++ concat ds)
         (set_tlen (tlen s + length (concat ds)) (set_temp (temp s ++ ds) s)))).
    unfold unsent in *.
    assert (Hu : skipn (off s) (dbuf s) ++ concat (temp s ++ ds)
                 = (skipn (off s) (dbuf s) ++ concat (temp s)) ++ concat ds).
    { rewrite concat_app, app_assoc. reflexivity. }
    destruct (maybe_pause_cases s0) as [[E Hle] | [id [Hstr [Hlt E]]]]; rewrite E.
    - constructor; cbn; auto.
      + rewrite Hu, Hb. rewrite <- !app_assoc. reflexivity.
      + rewrite concat_app, app_length. lia.
      + intros E1 E2. apply Hr; lia.
      + rewrite Hwd. discriminate.
      + intros Hg. destruct (Htd Hg) as [Hpp Hne]. split; [assumption|].
        rewrite Hu. apply app_not_nil_l. assumption.
      + intros Hstr _ _. change (is_streaming s0 = true) in Hstr. specialize (Hle Hstr).
        unfold s0 in Hle. cbn in Hle.
        rewrite app_length, skipn_length, concat_app, app_length. lia.
    - constructor; cbn; auto.
      + rewrite Hu, Hb. rewrite <- !app_assoc. reflexivity.
      + rewrite concat_app, app_length. lia.
      + intros E1 E2. apply Hr; lia.
      + rewrite Hwd. discriminate.
      + intros _. split; [reflexivity|]. rewrite Hu.
        intros En. apply app_eq_nil in En. destruct En as [En1 En2].
        apply app_eq_nil in En1. destruct En1 as [Ea Eb].
        unfold s0 in Hlt; cbn in Hlt. rewrite En2 in Hlt. cbn in Hlt.
        assert (Etl : tlen s = 0) by (rewrite Ht, Eb; reflexivity).
        assert (Eof : off s = length (dbuf s)).
        { apply (f_equal (@length _)) in Ea. rewrite skipn_length in Ea. cbn in Ea. lia. }
        rewrite (Hr Eof Etl) in Hlt. cbn in Hlt. lia.
      + intros _ Hf. discriminate.
      + constructor; [exact I | assumption].
      + rewrite app_nil_r. exact Hs.
  Qed.

  Lemma write_inv d s : Inv s -> Inv (write bsize d s).
  Proof.
    intros HI. unfold write.
    destruct (connected s) eqn:Ec; cbn [negb orb]; [|exact HI].
    destruct (wdisconnected s) eqn:Ew; [exact HI|].
    destruct d as [|x d]; [exact HI|].
    pose proof (accept_inv [x :: d] s HI Ec Ew) as H.
    unfold accept in H. cbn [concat] in H. rewrite app_nil_r in H.
    apply H. discriminate.
  Qed.

  Lemma write_seq_inv ds s : Inv s -> Inv (write_seq bsize ds s).
  Proof.
    intros HI. unfold write_seq.
    destruct (connected s) eqn:Ec; cbn [negb orb]; [|exact HI].
    destruct (wdisconnected s) eqn:Ew; [exact HI|].
    destruct ds as [|x ds]; [exact HI|].
    apply (accept_inv (x :: ds) s HI Ec Ew).
    intros _ Hg. apply (i_told s HI Hg).
  Qed.

  (** ---- loseConnection / loseWriteConnection / unregisterProducer ---- *)
  Lemma lose_inv s : Inv s -> Inv (lose s).
  Proof.
    intros HI. unfold lose.
    destruct (connected s) eqn:Ec; cbn [andb]; [|exact HI].
    destruct (disconnecting s) eqn:Ed; cbn [negb]; [exact HI|].
    destruct (wdisconnected s) eqn:Ew.
    - apply conn_lost_inv.
      + destruct HI. constructor; cbn; auto.
      + intros _. cbn. split; [|intros _; exact Ew].
        rewrite (i_bytes s HI), (i_wd s HI Ew), app_nil_r. reflexivity.
    - destruct HI as [Hb Ht Ho Hr Hw Hc Hp H0 Hwr Hcl Htd Hov Hl Hs Hpre]. constructor; cbn; auto.
  Qed.

  Lemma losew_inv s : Inv s -> Inv (losew s).
  Proof.
    intros [Hb Ht Ho Hr Hw Hc Hp H0 Hwr Hcl Htd Hov Hl Hs Hpre]. unfold losew. constructor; cbn; auto.
  Qed.

  Lemma unregister_inv s : Inv s -> Inv (unregister s).
  Proof.
    intros [Hb Ht Ho Hr Hw Hc Hp H0 Hwr Hcl Htd Hov Hl Hs Hpre]. unfold unregister. cbn.
    destruct (connected s && disconnecting s) eqn:E.
    - constructor; cbn; auto; try discriminate; try congruence.
      clear - Hpre. intuition auto.
    - apply andb_false_iff in E.
      constructor; cbn; auto; try discriminate; try congruence.
      + intros E1 E2 _. destruct E; congruence.
      + clear - Hpre. intuition auto.
  Qed.

  Lemma pact_inv s a : Inv s -> Inv (pact_apply bsize s a).
  Proof.
    destruct a; cbn; [apply write_inv | apply write_seq_inv | apply unregister_inv | apply lose_inv | apply losew_inv].
  Qed.

  Lemma pacts_inv acts : forall s, Inv s -> Inv (fold_left (pact_apply bsize) acts s).
  Proof.
    induction acts as [|a r IH]; intros s H; cbn; [exact H|]. apply IH, pact_inv, H.
  Qed.

  (** ---- resumeProducing ---- *)
  Lemma resume_inv s : producer s <> None -> Inv (set_gtold false s) -> Inv (resume bsize s).
  Proof.
    intros Hsome HI. unfold resume.
    destruct (producer s) as [[[id str] scr]|] eqn:Ep; [|congruence].
    assert (H1 : Inv (emit (EResume id) (set_gtold false s))).
    { destruct HI as [Hb Ht Ho Hr Hw Hc Hp H0 Hwr Hcl Htd Hov Hl Hs Hpre]. cbn in *.
      constructor; cbn; rewrite ?app_nil_r; auto. constructor; [exact I | assumption]. }
    destruct scr as [|acts rest]; [exact H1|].
    apply pacts_inv.
    destruct H1 as [Hb Ht Ho Hr Hw Hc Hp H0 Hwr Hcl Htd Hov Hl Hs Hpre]. cbn in *.
    constructor; cbn; auto; try discriminate.
    - intros _. apply Hp. rewrite Ep. discriminate.
    - unfold is_streaming in *. cbn in *. rewrite Ep in Hov. exact Hov.
  Qed.
  Lemma inv_set_gtold_false s : Inv s -> gtold s = false -> Inv (set_gtold false s).
  Proof.
    intros [Hb Ht Ho Hr Hw Hc Hp H0 Hwr Hcl Htd Hov Hl Hs Hpre] Hg.
    constructor; cbn; auto; try discriminate.
    clear - Hpre. intuition auto.
  Qed.

  Lemma gtold_false_without_producer s : Inv s -> producer s = None -> gtold s = false.
  Proof.
    intros HI Ep. destruct (gtold s) eqn:Eg; [|reflexivity].
    pose proof (i_told0 s HI Eg) as H. unfold is_streaming in H. rewrite Ep in H. discriminate.
  Qed.

  (** ---- registerProducer ---- *)
  Lemma register_inv str scr s : Inv s -> Inv (register bsize str scr s).
  Proof.
    intros HI. unfold register.
    destruct (producer s) as [p|] eqn:Ep.
    - destruct HI as [Hb Ht Ho Hr Hw Hc Hp H0 Hwr Hcl Htd Hov Hl Hs Hpre].
      constructor; cbn; rewrite ?app_nil_r; auto. constructor; [exact I | assumption].
    - pose proof (gtold_false_without_producer s HI Ep) as Hg0.
      destruct (disconnected s) eqn:Ed.
      + destruct HI as [Hb Ht Ho Hr Hw Hc Hp H0 Hwr Hcl Htd Hov Hl Hs Hpre].
        constructor; cbn; rewrite ?app_nil_r; auto. constructor; [exact I | assumption].
      + set (s1 := set_gwrote false (set_nextid (S (nextid s)) (set_producer (Some (nextid s, str, scr)) s))).
        assert (H1 : Inv s1).
        { destruct HI as [Hb Ht Ho Hr Hw Hc Hp H0 Hwr Hcl Htd Hov Hl Hs Hpre]. unfold s1.
          constructor; cbn; auto; try discriminate; try congruence.
          all: try (intros _; exact Ed).
          all: try (rewrite Hg0; discriminate). }
        destruct str; [exact H1|].
        apply resume_inv; [unfold s1; cbn; discriminate|].
        apply inv_set_gtold_false; [exact H1 | unfold s1; cbn; exact Hg0].
  Qed.

  (** ---- doWrite ---- *)
  Lemma coalesce_inv s : Inv s -> Inv (coalesce slimit s).
  Proof.
    intros HI. unfold coalesce. destruct (Nat.ltb _ slimit); [|exact HI].
    destruct HI as [Hb Ht Ho Hr Hw Hc Hp H0 Hwr Hcl Htd Hov Hl Hs Hpre]. unfold unsent in *.
    constructor; cbn; rewrite ?app_nil_r; auto; try lia.
    intros E _. symmetry in E. apply length_zero_nil in E. exact E.
  Qed.

  (** after the OS accepted a prefix: everything but the two facts that wait for the buffer reset *)
  Record Mid (s : st) : Prop := mkMid {
    m_bytes : written s = sent s ++ unsent s;
    m_tlen : tlen s = length (concat (temp s));
    m_off : off s <= length (dbuf s);
    m_wd : wdisconnected s = true -> unsent s = [];
    m_conn : connected s = true -> disconnected s = false;
    m_prod : producer s <> None -> disconnected s = false;
    m_told0 : gtold s = true -> is_streaming s = true;
    m_writing : unsent s <> [] -> connected s = true -> writing s = true;
    m_closing : connected s = true -> disconnecting s = true -> producer s = None -> writing s = true;
    m_told : gtold s = true -> ppaused s = true;
    m_over : is_streaming s = true -> gtold s = false -> gwrote s = true -> length (unsent s) <= bsize;
    m_log : Forall ev_ok (log s);
    m_sent : sent s = os_rl (log s);
    m_pre : connected s = true \/ disconnected s = true \/
            (written s = [] /\ disconnecting s = false /\ gtold s = false)
  }.

  Lemma os_accept_mid k s : Inv s -> Mid (os_accept k s).
  Proof.
    intros [Hb Ht Ho Hr Hw Hc Hp H0 Hwr Hcl Htd Hov Hl Hs Hpre]. unfold os_accept.
    set (offered := skipn (off s) (dbuf s)). set (l := Nat.min k (length offered)).
    assert (Hl_le : l <= length (dbuf s) - off s).
    { unfold l, offered. rewrite skipn_length. lia. }
    assert (Hsplit : unsent s = firstn l offered ++ skipn (off s + l) (dbuf s) ++ concat (temp s)).
    { unfold unsent, offered. rewrite app_assoc, skipn_firstn_step. reflexivity. }
    unfold unsent in *.
    constructor; cbn; auto.
    - rewrite Hb, Hsplit, <- !app_assoc. reflexivity.
    - lia.
    - intros Hwd. specialize (Hw Hwd). rewrite Hsplit in Hw. apply app_eq_nil in Hw. apply Hw.
    - intros Hne. apply Hwr. rewrite Hsplit. apply app_not_nil_r. exact Hne.
    - intros Hg. apply (Htd Hg).
    - intros E1 E2 E3. specialize (Hov E1 E2 E3). rewrite Hsplit, app_length in Hov. lia.
    - constructor; [exact I | assumption].
    - rewrite Hs. reflexivity.
  Qed.

  Lemma mid_not_drained s :
    Mid s -> Nat.eqb (off s) (length (dbuf s)) && Nat.eqb (tlen s) 0 = false ->
    (forall (Hr0 : off s = length (dbuf s) -> tlen s = 0 -> dbuf s = []), Inv s).
  Proof.
    intros [Hb Ht Ho Hw Hc Hp H0 Hwr Hcl Htd Hov Hl Hs Hpre] E Hr0.
    constructor; auto.
    intros Hg. split; [auto|].
    apply andb_false_iff in E. unfold unsent. destruct E as [E | E].
    - apply Nat.eqb_neq in E. apply app_not_nil_l. intros En.
      apply (f_equal (@length _)) in En. rewrite skipn_length in En. cbn in En. lia.
    - apply Nat.eqb_neq in E. apply app_not_nil_r. intros En. rewrite Ht, En in E. cbn in E. lia.
  Qed.

  Lemma finish_inv s :
    Core s -> unsent s = [] -> is_pull s = false -> gtold s = false ->
    (connected s = true -> disconnected s = false) -> (producer s <> None -> disconnected s = false) ->
    (connected s = true \/ disconnected s = true \/ (written s = [] /\ disconnecting s = false /\ gtold s = false)) ->
    Inv (finish s).
  Proof.
    intros HC Hu Hpull Hg Hc Hp Hpre. unfold finish.
    assert (Hws : written s = sent s).
    { rewrite (c_bytes s HC), Hu, app_nil_r. reflexivity. }
    destruct (disconnecting s) eqn:Ed.
    - apply conn_lost_inv; [exact HC|]. intros _. split; [exact Hws|]. rewrite Hpull. discriminate.
    - destruct HC as [Hb Ht Ho Hr Hw H0 Hl Hs].
      destruct (wdisconnecting s) eqn:Ewd.
      + constructor; cbn; rewrite ?app_nil_r; auto; try (rewrite Hg; discriminate);
          try (fold (unsent s); rewrite Hu; cbn; intros; try congruence; lia).
        * rewrite Ed. discriminate.
        * constructor; [cbn; auto | assumption].
        * clear - Hpre Ed Hg. rewrite ?Ed, ?Hg. intuition auto.
      + constructor; cbn; auto; try (rewrite Hg; discriminate);
          try (rewrite Hu; cbn; intros; try congruence; lia).
        * rewrite Ed. discriminate.
        * clear - Hpre Ed Hg. rewrite ?Ed, ?Hg. intuition auto.
  Qed.

  Lemma after_drain_inv s :
    Mid s -> Nat.eqb (off s) (length (dbuf s)) && Nat.eqb (tlen s) 0 = true ->
    Inv (after_drain bsize s).
  Proof.
    intros [Hb Ht Ho Hw Hc Hp H0 Hwr Hcl Htd Hov Hl Hs Hpre] E.
    apply andb_true_iff in E. destruct E as [E1 E2].
    apply Nat.eqb_eq in E1. apply Nat.eqb_eq in E2.
    assert (Hct : concat (temp s) = []) by (apply length_zero_nil; lia).
    assert (Hu : unsent s = []).
    { unfold unsent. rewrite E1, skipn_all, Hct. reflexivity. }
    unfold after_drain.
    set (s3 := set_writing false (set_off 0 (set_dbuf [] s))).
    assert (Hu3 : unsent s3 = []) by (unfold unsent, s3; cbn; exact Hct).
    assert (HC3 : Core s3).
    { unfold s3. constructor; cbn; auto.
      - rewrite Hb, Hu. unfold unsent; cbn. rewrite Hct. reflexivity. }
    destruct (producer s3) as [[[id str] scr]|] eqn:Ep.
    - destruct (negb str || ppaused s3) eqn:Eb.
      + apply resume_inv; [cbn; unfold s3 in Ep; cbn in Ep; rewrite Ep; discriminate|].
        unfold s3 in *. cbn in Ep.
        constructor; cbn; auto; try discriminate; try congruence; try (rewrite Hct; cbn; auto; try congruence; lia).
        all: try (rewrite Hb, Hu, Hct; reflexivity).
        all: try (clear - Hpre; intuition auto).
      + apply orb_false_iff in Eb. destruct Eb as [Eb1 Eb2]. apply negb_false_iff in Eb1. subst str.
        apply finish_inv; auto.
        * unfold is_pull. rewrite Ep. reflexivity.
        * unfold s3 in *. cbn in *. destruct (gtold s); [|reflexivity]. rewrite (Htd eq_refl) in Eb2. discriminate.
    - apply finish_inv; auto.
      + unfold is_pull. rewrite Ep. reflexivity.
      + unfold s3 in *. cbn in *. destruct (gtold s); [|reflexivity].
        specialize (H0 eq_refl). unfold is_streaming in H0. rewrite Ep in H0. discriminate.
  Qed.

  Lemma do_write_inv r s : Inv s -> Inv (do_write slimit bsize r s).
  Proof.
    intros HI0. unfold do_write. pose proof (coalesce_inv s HI0) as HI.
    set (s1 := coalesce slimit s) in *. clearbody s1.
    destruct r as [k|].
    - pose proof (os_accept_mid k s1 HI) as HM. cbv zeta.
      set (s2 := os_accept k s1) in *.
      destruct (Nat.eqb (off s2) (length (dbuf s2)) && Nat.eqb (tlen s2) 0) eqn:E.
      + apply after_drain_inv; assumption.
      + apply (mid_not_drained s2 HM E).
        intros A B. rewrite A, B, !Nat.eqb_refl in E. discriminate.
    - apply conn_lost_inv; [|discriminate].
      destruct HI as [Hb Ht Ho Hr Hw Hc Hp H0 Hwr Hcl Htd Hov Hl Hs Hpre].
      constructor; cbn; rewrite ?app_nil_r; auto. constructor; [exact I | assumption].
  Qed.

  (** ---- every step, every history ---- *)
  Lemma step_inv s o : Inv s -> Inv (step slimit bsize s o).
  Proof.
    intros HI. destruct o; cbn [step].
    - apply write_inv, HI.
    - apply write_seq_inv, HI.
    - apply register_inv, HI.
    - apply unregister_inv, HI.
    - apply lose_inv, HI.
    - apply losew_inv, HI.
    - destruct (writing s); [apply do_write_inv, HI | exact HI].
    - destruct (writing s); [apply do_write_inv, HI | exact HI].
    - destruct (connected s); [|exact HI].
      apply conn_lost_inv; [apply inv_core, HI | discriminate].
    - destruct (negb (connected s) && negb (disconnected s)) eqn:E; [|exact HI].
      apply andb_true_iff in E. destruct E as [E1 E2]. apply negb_true_iff in E1, E2.
      destruct HI as [Hb Ht Ho Hr Hw Hc Hp H0 Hwr Hcl Htd Hov Hl Hs Hpre].
      assert (Hw0 : written s = [] /\ disconnecting s = false /\ gtold s = false)
        by (destruct Hpre as [H|[H|H]]; [congruence | congruence | exact H]).
      destruct Hw0 as [W [D G]].
      assert (Hu : unsent s = []).
      { rewrite W in Hb. symmetry in Hb. apply app_eq_nil in Hb. apply Hb. }
      constructor; cbn; auto.
      all: try (intros _; exact E2).
      all: try (rewrite Hu; congruence).
      all: try (rewrite D; discriminate).
  Qed.

  Lemma run_from_inv ops : forall s, Inv s -> Inv (fold_left (step slimit bsize) ops s).
  Proof.
    induction ops as [|o r IH]; intros s H; cbn; [exact H|]. apply IH, step_inv, H.
  Qed.

  Lemma init_pre_inv : Inv init_pre.
  Proof.
    constructor; cbn; try reflexivity; try discriminate; try lia; auto; try congruence.
  Qed.

  Lemma run_inv pre ops : Inv (run slimit bsize pre ops).
  Proof. apply run_from_inv. destruct pre; [apply init_pre_inv | apply init_inv]. Qed.

  (** ---- the property statements, read off the invariant ---- *)
  Lemma reach_buffer pre ops :
    let s := run slimit bsize pre ops in
    written s = os_bytes (rev (log s)) ++ skipn (off s) (dbuf s) ++ concat (temp s).
  Proof.
    cbv zeta. pose proof (run_inv pre ops) as HI. rewrite <- os_rl_rev, <- (i_sent _ HI). apply (i_bytes _ HI).
  Qed.

  Lemma reach_prefix pre ops :
    let s := run slimit bsize pre ops in exists rest, written s = os_bytes (rev (log s)) ++ rest.
  Proof. cbv zeta. eexists. apply reach_buffer. Qed.

  Lemma reach_close pre ops clean pull wd wr se :
    In (ELost clean pull wd wr se) (log (run slimit bsize pre ops)) -> clean = true ->
    wr = se /\ (pull = true -> wd = true).
  Proof.
    intros Hin Hc. pose proof (i_log _ (run_inv pre ops)) as HF. rewrite Forall_forall in HF.
    specialize (HF _ Hin). subst clean. exact HF.
  Qed.

  Lemma reach_halfclose pre ops pull wr se :
    In (ECloseWrite pull wr se) (log (run slimit bsize pre ops)) -> wr = se /\ pull = false.
  Proof.
    intros Hin. pose proof (i_log _ (run_inv pre ops)) as HF. rewrite Forall_forall in HF. exact (HF _ Hin).
  Qed.

  Lemma reach_paused_over pre ops :
    let s := run slimit bsize pre ops in
    is_streaming s = true -> gwrote s = true -> bsize < length (unsent s) -> gtold s = true.
  Proof.
    cbv zeta. intros H1 H2 H3. pose proof (run_inv pre ops) as HI.
    destruct (gtold (run slimit bsize pre ops)) eqn:Eg; [reflexivity|].
    pose proof (i_over _ HI H1 Eg H2). lia.
  Qed.

  Lemma reach_paused_pending pre ops :
    let s := run slimit bsize pre ops in
    gtold s = true ->
    is_streaming s = true /\ ppaused s = true /\ unsent s <> [] /\ connected s = true /\ writing s = true.
  Proof.
    cbv zeta. intros Hg. pose proof (run_inv pre ops) as HI.
    destruct (i_told _ HI Hg) as [Hp Hne]. pose proof (i_told0 _ HI Hg) as Hs.
    assert (Hc : connected (run slimit bsize pre ops) = true).
    { pose proof (i_prod _ HI (is_streaming_some _ Hs)) as Hd.
      destruct (i_pre _ HI) as [H|[H|[_ [_ H]]]]; [exact H | congruence | congruence]. }
    repeat split; auto. apply (i_writing _ HI); assumption.
  Qed.

  Lemma reach_no_stall pre ops :
    let s := run slimit bsize pre ops in
    connected s = true ->
    (unsent s <> [] -> writing s = true) /\
    (disconnecting s = true -> producer s = None -> writing s = true).
  Proof.
    cbv zeta. intros Hc. pose proof (run_inv pre ops) as HI. split.
    - intros Hne. apply (i_writing _ HI); assumption.
    - apply (i_closing _ HI Hc).
  Qed.

  Lemma reach_pre pre ops :
    let s := run slimit bsize pre ops in
    connected s = false -> disconnected s = false -> written s = [] /\ sent s = [] /\ unsent s = [].
  Proof.
    cbv zeta. intros Hc Hd. pose proof (run_inv pre ops) as HI.
    destruct (i_pre _ HI) as [H|[H|[W _]]]; [congruence | congruence|].
    pose proof (i_bytes _ HI) as Hb. rewrite W in Hb. symmetry in Hb. apply app_eq_nil in Hb.
    destruct Hb as [A B]. auto.
  Qed.

  (** the pause decision itself: pauseProducing is called by an accepted write exactly when the code's measure
      len(dataBuffer) + _tempDataLen exceeds bufferSize and a streaming producer is registered *)
  Lemma pause_iff_measure s :
    (exists id, maybe_pause bsize s = emit (EPause id) (set_gtold true (set_ppaused true s)))
    <-> (is_streaming s = true /\ bsize < length (dbuf s) + tlen s).
  Proof.
    split.
    - intros [id E]. destruct (maybe_pause_cases s) as [[E1 _] | [id' [H1 [H2 _]]]]; [|auto].
      rewrite E1 in E. apply (f_equal log) in E. cbn in E. exfalso.
      apply (f_equal (@length _)) in E. cbn in E. lia.
    - intros [H1 H2]. destruct (maybe_pause_cases s) as [[_ Hle] | [id [_ [_ E]]]].
      + specialize (Hle H1). lia.
      + exists id. exact E.
  Qed.
End Proofs.

(** ---- examples: the hypotheses of the theorems are met by real histories ---- *)
Example ex_paused_over :
  let s := run 4 2 false [Register true []; Write [1;2;3;4]%N; DoWrite 1] in
  is_streaming s = true /\ gwrote s = true /\ 2 < length (unsent s) /\ gtold s = true.
Proof. vm_compute. repeat split; lia. Qed.

Example ex_clean_close_after_flush :
  In (ELost true false false [1;2;3]%N [1;2;3]%N)
     (log (run 2 3 false [Write [1;2;3]%N; DoWrite 1; Lose; DoWrite 1; DoWrite 9; DoWrite 9])).
Proof. vm_compute. auto. Qed.

(** the only way a clean close meets a registered pull producer: the write side was shut down before *)
Example ex_close_with_pull_producer_after_half_close :
  In (ELost true true true [] [])
     (log (run 2 2 false [LoseW; DoWrite 5; Register false [[PW [97]%N]]; Lose])).
Proof. vm_compute. auto. Qed.

(** the pause measure counts the already-sent prefix of dataBuffer: a producer can be paused although fewer than
    bufferSize bytes are waiting (conservative; it is resumed at the drain) *)
Example ex_pause_measure_overcounts :
  let s := run 1 3 false [Write [1;2;3]%N; DoWrite 2; Register true []; Write [4]%N] in
  gtold s = true /\ length (unsent s) = 2.
Proof. vm_compute. auto. Qed.

(** outside the C14 statement (see design.d/C14.md): loseWriteConnection while a pull producer is registered; when
    the producer unregisters nothing re-registers the writer, so the half-close is never carried out *)
Example ex_half_close_forgotten :
  let s := run 4 3 false [Register false [[PW [97]%N]; [PUnreg]]; LoseW; DoWrite 9; DoWrite 9; DoWrite 9] in
  wdisconnecting s = true /\ wdisconnected s = false /\ producer s = None /\ unsent s = [] /\ writing s = false
  /\ connected s = true.
Proof. vm_compute. auto 10. Qed.

(** a client transport before the connection is established accepts nothing; what is written after Connect is sent *)
Example ex_nothing_accepted_before_connect :
  let s := run 4 9 true [Write [1;2]%N; WriteSeq [[3]%N]; Connect; Write [4]%N; DoWrite 9] in
  written s = [4]%N /\ sent s = [4]%N.
Proof. vm_compute. auto. Qed.
