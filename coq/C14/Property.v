(** C14 property theorems: for every SEND_LIMIT / bufferSize and every history of write, writeSequence,
    registerProducer (scripted push or pull producer), unregisterProducer, loseConnection,
    loseWriteConnection, doWrite with an adversarial accepted count or an OS error, and outside loss.
    [log] is newest first; [written]/[gtold]/[gwrote] are ghost fields defined in Model.v.
    [pre] = the transport starts as a client transport whose connection is not yet established (connected = 0,
    disconnected = 0) and is connected later by a [Connect] op; otherwise it starts connected. *)
From Coq Require Import List Arith Bool NArith.
From C14 Require Import Model Proofs.
Import ListNotations.

(** the bytes accepted by write()/writeSequence() are exactly: what the OS accepted so far (concatenation of the
    accepted prefixes of every writeSomeData call, in call order), then dataBuffer[offset:], then the temporary
    buffer -- nothing lost, duplicated or reordered *)
Theorem buffer_represents_unsent : forall slimit bsize pre ops,
  let s := run slimit bsize pre ops in
  written s = os_bytes (rev (log s)) ++ skipn (off s) (dbuf s) ++ concat (temp s).
Proof. exact reach_buffer. Qed.
Print Assumptions buffer_represents_unsent.

Theorem os_bytes_are_prefix_of_written : forall slimit bsize pre ops,
  let s := run slimit bsize pre ops in exists rest, written s = os_bytes (rev (log s)) ++ rest.
Proof. exact reach_prefix. Qed.
Print Assumptions os_bytes_are_prefix_of_written.

(** whenever connectionLost(ConnectionDone) happens (flush path of doWrite, or loseConnection after the write
    side was shut down), everything accepted so far has been handed to the OS; and if a pull producer is still
    registered at that moment, the write side had already been shut down (no byte of it could be accepted) *)
Theorem os_bytes_equal_written_at_close_and_no_close_while_pull_producer_registered :
  forall slimit bsize pre ops clean pull wd wr se,
  In (ELost clean pull wd wr se) (log (run slimit bsize pre ops)) -> clean = true ->
  wr = se /\ (pull = true -> wd = true).
Proof. exact reach_close. Qed.
Print Assumptions os_bytes_equal_written_at_close_and_no_close_while_pull_producer_registered.

(** the write side is shut down (_closeWriteConnection) only after the flush and never while a pull producer
    is registered *)
Theorem half_close_only_after_flush : forall slimit bsize pre ops pull wr se,
  In (ECloseWrite pull wr se) (log (run slimit bsize pre ops)) -> wr = se /\ pull = false.
Proof. exact reach_halfclose. Qed.
Print Assumptions half_close_only_after_flush.

(** a registered streaming producer that has written since it registered has been told to pause (the last call
    made on it is pauseProducing) whenever more than bufferSize bytes are waiting *)
Theorem streaming_producer_paused_when_over_bufferSize : forall slimit bsize pre ops,
  let s := run slimit bsize pre ops in
  is_streaming s = true -> gwrote s = true -> bsize < length (unsent s) -> gtold s = true.
Proof. exact reach_paused_over. Qed.
Print Assumptions streaming_producer_paused_when_over_bufferSize.

(** pauseProducing is called by an accepted write exactly when a streaming producer is registered and the code's
    measure len(dataBuffer) + _tempDataLen exceeds bufferSize *)
Theorem pause_exactly_when_measure_over_bufferSize : forall bsize s,
  (exists id, maybe_pause bsize s = emit (EPause id) (set_gtold true (set_ppaused true s)))
  <-> (is_streaming s = true /\ bsize < length (dbuf s) + tlen s).
Proof. exact pause_iff_measure. Qed.
Print Assumptions pause_exactly_when_measure_over_bufferSize.

(** a producer that was told to pause is never left with a drained buffer: while it is paused there are bytes
    waiting, the transport is connected and registered for writing and producerPaused is set -- so the drain
    (doWrite's resume branch) has not happened yet, and when it happens the ghost can only be cleared by the
    resumeProducing call (Model.resume), unregisterProducer or connectionLost *)
Theorem paused_streaming_producer_resumed_on_drain : forall slimit bsize pre ops,
  let s := run slimit bsize pre ops in
  gtold s = true ->
  is_streaming s = true /\ ppaused s = true /\ unsent s <> [] /\ connected s = true /\ writing s = true.
Proof. exact reach_paused_pending. Qed.
Print Assumptions paused_streaming_producer_resumed_on_drain.

(** nothing is forgotten: while connected, waiting bytes keep the descriptor registered for writing, and so does a
    pending loseConnection once no producer is registered *)
Theorem pending_data_and_pending_close_keep_writer_registered : forall slimit bsize pre ops,
  let s := run slimit bsize pre ops in
  connected s = true ->
  (unsent s <> [] -> writing s = true) /\
  (disconnecting s = true -> producer s = None -> writing s = true).
Proof. exact reach_no_stall. Qed.
Print Assumptions pending_data_and_pending_close_keep_writer_registered.

(** "written while connected": a transport that has never been connected (connected = 0, disconnected = 0) has accepted
    nothing -- no byte written before the connection is established is buffered or reaches the OS *)
Theorem nothing_accepted_before_connect : forall slimit bsize pre ops,
  let s := run slimit bsize pre ops in
  connected s = false -> disconnected s = false -> written s = [] /\ sent s = [] /\ unsent s = [].
Proof. exact reach_pre. Qed.
Print Assumptions nothing_accepted_before_connect.
