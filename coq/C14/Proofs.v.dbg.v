(** C14: invariants of the FileDescriptor write-path model over every history. *)
From Coq Require Import List Arith Bool NArith Lia.
From C14 Require Import Model.
Import ListNotations.

(** ---- list facts ---- *)
Lemma skipn_firstn_step {A} (l : list A) o k :
  firstn k (skipn o l) ++ skipn (o + k) l = skipn o l.
Proof.
  revert l. induction o as [|o IH]; intros l; cbn [skipn plus].
  - apply firstn_skipn.
  - destruct l as [|x l]; [destruct k; reflexivity | apply IH].
Qed.

Lemma length_zero_nil {A} (l : list A) : length l = 0 -> l = [].
Proof. destruct l; cbn; [reflexivity | discriminate]. Qed.

Lemma app_not_nil_l {A} (a b : list A) : a <> [] -> a ++ b <> [].
Proof. destruct a; cbn; [congruence | discriminate]. Qed.

Lemma app_not_nil_r {A} (a b : list A) : b <> [] -> a ++ b <> [].
Proof. destruct a; cbn; [auto | discriminate]. Qed.

(** bytes accepted by the OS, read off a newest-first log *)
Fixpoint os_rl (l : list ev) : bytes :=
  match l with [] => [] | e :: r => os_rl r ++ os_accepted e end.

Lemma os_rl_rev l : os_rl l = os_bytes (rev l).
Proof.
  induction l as [|e l IH]; [reflexivity|]. cbn [os_rl rev]. unfold os_bytes in *.
  rewrite flat_map_app, IH. cbn. rewrite app_nil_r. reflexivity.
Qed.

(** what each logged event asserts about the moment it was logged *)
Definition ev_ok (e : ev) : Prop :=
  match e with
  | ELost true pull wd wr se => wr = se /\ (pull = true -> wd = true)
  | ECloseWrite pull wr se => wr = se /\ pull = false
  | _ => True
  end.

Section Proofs.
  Variables (slimit bsize : nat).

  Record Inv (s : st) : Prop := mkInv {
    i_bytes : written s = sent s ++ unsent s;
    i_tlen : tlen s = length (concat (temp s));
    i_off : off s <= length (dbuf s);
    i_reset : off s = length (dbuf s) -> tlen s = 0 -> dbuf s = [];
    i_wd : wdisconnected s = true -> unsent s = [];
    i_conn : connected s = negb (disconnected s);
    i_prod : producer s <> None -> connected s = true;
    i_told0 : gtold s = true -> is_streaming s = true;
    i_writing : unsent s <> [] -> connected s = true -> writing s = true;
    i_closing : connected s = true -> disconnecting s = true -> producer s = None -> writing s = true;
    i_told : gtold s = true -> ppaused s = true /\ unsent s <> [];
    i_over : is_streaming s = true -> gtold s = false -> gwrote s = true -> length (unsent s) <= bsize;
    i_log : Forall ev_ok (log s);
    i_sent : sent s = os_rl (log s)
  }.

  Lemma init_inv : Inv init.
  Proof.
    constructor; cbn; try reflexivity; try discriminate; try lia; auto; try congruence.
  Qed.

  (** the part of the invariant that connectionLost needs *)
  Record Core (s : st) : Prop := mkCore {
    c_bytes : written s = sent s ++ unsent s;
    c_tlen : tlen s = length (concat (temp s));
    c_off : off s <= length (dbuf s);
    c_reset : off s = length (dbuf s) -> tlen s = 0 -> dbuf s = [];
    c_wd : wdisconnected s = true -> unsent s = [];
    c_told0 : gtold s = true -> is_streaming s = true;
    c_log : Forall ev_ok (log s);
    c_sent : sent s = os_rl (log s)
  }.

  Lemma inv_core s : Inv s -> Core s.
  Proof. intros []; constructor; assumption. Qed.

  Lemma is_streaming_some s : is_streaming s = true -> producer s <> None.
  Proof. unfold is_streaming. destruct (producer s); [discriminate | discriminate]. Qed.

  Lemma conn_lost_inv clean s :
    Core s ->
    (clean = true -> written s = sent s /\ (is_pull s = true -> wdisconnected s = true)) ->
    Inv (conn_lost clean s).
  Proof.
    intros [Hb Ht Ho Hr Hw H0 Hl Hs] Hc. unfold conn_lost.
    assert (Hev : ev_ok (ELost clean (is_pull s) (wdisconnected s) (written s) (sent s))).
    { destruct clean; cbn; auto. }
    destruct (producer s) as [[[id str] scr]|] eqn:Ep; cbn; rewrite ?Ep; cbn.
    - constructor; cbn; unfold is_streaming; cbn; rewrite ?app_nil_r; auto; try discriminate; try congruence.
      all: try (repeat constructor; auto).
    - assert (Hg0 : gtold s = false).
      { destruct (gtold s); [|reflexivity]. specialize (H0 eq_refl). unfold is_streaming in H0.
        rewrite Ep in H0. discriminate. }
      constructor; cbn; unfold is_streaming; cbn; rewrite ?Ep, ?Hg0, ?app_nil_r; auto; try discriminate; try congruence.
      all: try (constructor; auto).
  Qed.

  (** ---- write / writeSequence ---- *)
  Lemma maybe_pause_cases s :
    (maybe_pause bsize s = s /\ (is_streaming s = true -> length (dbuf s) + tlen s <= bsize)) \/
    (exists id, is_streaming s = true /\ bsize < length (dbuf s) + tlen s /\
                maybe_pause bsize s = emit (EPause id) (set_gtold true (set_ppaused true s))).
  Proof.
    unfold maybe_pause, is_streaming. destruct (producer s) as [[[id [|]] scr]|].
    - destruct (Nat.ltb_spec bsize (length (dbuf s) + tlen s)).
      + right. exists id. auto.
      + left. auto.
    - left. split; [reflexivity | discriminate].
    - left. split; [reflexivity | discriminate].
  Qed.

  Lemma unsent_le_measure s : off s <= length (dbuf s) -> tlen s = length (concat (temp s)) ->
    length (unsent s) <= length (dbuf s) + tlen s.
  Proof. intros Ho Ht. unfold unsent. rewrite app_length, skipn_length. lia. Qed.

  (** the common shape of an accepted write: [ds] appended to the temporary buffer *)
  Definition accept (ds : list bytes) (s : st) : st :=
    set_writing true (maybe_pause bsize
      (set_gwrote true (set_written (written s ++ concat ds)
         (set_tlen (tlen s + length (concat ds)) (set_temp (temp s ++ ds) s))))).

  Lemma accept_inv ds s :
    Inv s -> connected s = true -> wdisconnected s = false ->
    (concat ds = [] -> gtold s = true -> unsent s <> []) ->
    Inv (accept ds s).
  Proof.
    intros [Hb Ht Ho Hr Hw Hc Hp H0 Hwr Hcl Htd Hov Hl Hs] Hcon Hwd _. unfold accept.
    set (s0 := set_gwrote true (set_written (written s ++ concat ds)
         (set_tlen (tlen s + length (concat ds)) (set_temp (temp s ++ ds) s)))).
    assert (Hu : unsent s0 = unsent s ++ concat ds).
    { unfold unsent, s0; cbn. rewrite concat_app, app_assoc. reflexivity. }
    assert (Ht0 : tlen s0 = length (concat (temp s0))).
    { unfold s0; cbn. rewrite concat_app, app_length. lia. }
    destruct (maybe_pause_cases s0) as [[E Hle] | [id [Hstr [Hlt E]]]]; rewrite E.
    - constructor; cbn; auto.
      all: match goal with |- ?G => idtac "GOAL" G end.
      all: shelve.
    - constructor; cbn; auto.
      all: match goal with |- ?G => idtac "GOAL2" G end.
      all: shelve.
  Abort.

  Lemma write_inv d s : Inv s -> Inv (write bsize d s).
  Proof.
    intros HI. unfold write.
    destruct (connected s) eqn:Ec; cbn [negb orb]; [|exact HI].
    destruct (wdisconnected s) eqn:Ew; [exact HI|].
    destruct d as [|x d]; [exact HI|].
    pose proof (accept_inv [x :: d] s HI Ec Ew) as H.
    unfold accept in H. cbn [concat] in H. rewrite app_nil_r in H.
    apply H. discriminate.
  Qed.

  Lemma write_seq_inv ds s : Inv s -> Inv (write_seq bsize ds s).
  Proof.
    intros HI. unfold write_seq.
    destruct (connected s) eqn:Ec; cbn [negb orb]; [|exact HI].
    destruct (wdisconnected s) eqn:Ew; [exact HI|].
    destruct ds as [|x ds]; [exact HI|].
    apply (accept_inv (x :: ds) s HI Ec Ew).
    intros _ Hg. apply (i_told s HI Hg).
  Qed.

  (** ---- loseConnection / loseWriteConnection / unregisterProducer ---- *)
  Lemma lose_inv s : Inv s -> Inv (lose s).
  Proof.
    intros HI. unfold lose.
    destruct (connected s) eqn:Ec; cbn [andb]; [|exact HI].
    destruct (disconnecting s) eqn:Ed; cbn [negb]; [exact HI|].
    destruct (wdisconnected s) eqn:Ew.
    - apply conn_lost_inv.
      + destruct HI. constructor; cbn; auto.
      + intros _. cbn. split; [|intros _; exact Ew].
        rewrite (i_bytes s HI), (i_wd s HI Ew), app_nil_r. reflexivity.
    - destruct HI as [Hb Ht Ho Hr Hw Hc Hp H0 Hwr Hcl Htd Hov Hl Hs]. constructor; cbn; auto.
  Qed.

  Lemma losew_inv s : Inv s -> Inv (losew s).
  Proof.
    intros [Hb Ht Ho Hr Hw Hc Hp H0 Hwr Hcl Htd Hov Hl Hs]. unfold losew. constructor; cbn; auto.
  Qed.

  Lemma unregister_inv s : Inv s -> Inv (unregister s).
  Proof.
    intros [Hb Ht Ho Hr Hw Hc Hp H0 Hwr Hcl Htd Hov Hl Hs]. unfold unregister. cbn.
    destruct (connected s && disconnecting s) eqn:E.
    - constructor; cbn; auto; try discriminate; try congruence.
    - apply andb_false_iff in E.
      constructor; cbn; auto; try discriminate; try congruence.
      intros E1 E2 _. destruct E; congruence.
  Qed.

  Lemma pact_inv s a : Inv s -> Inv (pact_apply bsize s a).
  Proof.
    destruct a; cbn; [apply write_inv | apply write_seq_inv | apply unregister_inv | apply lose_inv | apply losew_inv].
  Qed.

  Lemma pacts_inv acts : forall s, Inv s -> Inv (fold_left (pact_apply bsize) acts s).
  Proof.
    induction acts as [|a r IH]; intros s H; cbn; [exact H|]. apply IH, pact_inv, H.
  Qed.

  (** ---- resumeProducing ---- *)
  Lemma resume_inv s : producer s <> None -> Inv (set_gtold false s) -> Inv (resume bsize s).
  Proof.
    intros Hsome HI. unfold resume.
    destruct (producer s) as [[[id str] scr]|] eqn:Ep; [|congruence].
    assert (H1 : Inv (emit (EResume id) (set_gtold false s))).
    { destruct HI as [Hb Ht Ho Hr Hw Hc Hp H0 Hwr Hcl Htd Hov Hl Hs]. cbn in *.
      constructor; cbn; auto. constructor; [exact I | assumption]. }
    destruct scr as [|acts rest]; [exact H1|].
    apply pacts_inv.
    destruct H1 as [Hb Ht Ho Hr Hw Hc Hp H0 Hwr Hcl Htd Hov Hl Hs]. cbn in *.
    constructor; cbn; auto; try discriminate.
    - intros _. apply Hp. rewrite Ep. discriminate.
    - unfold is_streaming in *. cbn in *. rewrite Ep in Hov. exact Hov.
  Qed.
End Proofs.
