(** C14: abstract.FileDescriptor's write path (src/twisted/internet/abstract.py) as a step function.

    State = the attributes the write path uses (connected / disconnected / disconnecting /
    _writeDisconnecting / _writeDisconnected, dataBuffer + offset, _tempDataBuffer + _tempDataLen,
    producer / streamingProducer / producerPaused), whether the reactor has the descriptor as a writer /
    reader, and GHOST fields the code does not have: [written] (every byte accepted by write() /
    writeSequence()), [sent] (every byte the OS accepted), [gtold] (the last call made on the registered
    streaming producer was pauseProducing), [gwrote] (a write was accepted since the producer was
    registered) and the event [log] (newest first).

    The OS is an adversary: [DoWrite k] accepts [min k (length offered)] bytes; [DoWriteErr] makes
    writeSomeData return an exception; [Drop] is a connection loss reported from outside.
    Producers are scripted: the i-th resumeProducing call performs the i-th list of [pact]s.
    SEND_LIMIT ([slimit]) and bufferSize ([bsize]) are parameters. *)
From Coq Require Import List Arith Bool NArith.
Import ListNotations.

Definition bytes := list N.

(** what a producer does inside one resumeProducing call *)
Inductive pact := PW (d : bytes) | PWS (ds : list bytes) | PUnreg | PLose | PLoseW.

Inductive op :=
| Write (d : bytes)
| WriteSeq (ds : list bytes)
| Register (streaming : bool) (script : list (list pact))
| Unregister
| Lose                      (* loseConnection *)
| LoseW                     (* loseWriteConnection *)
| DoWrite (k : nat)         (* reactor: descriptor writable; OS accepts at most k bytes *)
| DoWriteErr                (* reactor: descriptor writable; writeSomeData returns an exception *)
| Drop                      (* connection lost for an outside reason *)
| Connect.                  (* a client transport's connection is established (tcp.BaseClient.doConnect /
                               _connectDone): stopReading, stopWriting, connected = 1, startReading *)

Inductive ev :=
| EOs (offered : bytes) (k : nat)     (* writeSomeData(offered) returned k *)
| EOsErr (offered : bytes)            (* writeSomeData(offered) returned an exception *)
| EPause (id : nat) | EResume (id : nat) | EStop (id : nat)    (* calls on producer number id *)
| ECloseWrite (pull : bool) (wr se : bytes)                    (* _closeWriteConnection; ghost as for ELost *)
| ELost (clean pull wd : bool) (wr se : bytes)
      (* connectionLost; clean = ConnectionDone.  Ghost snapshot taken at that moment: a pull producer is
         registered; _writeDisconnected; all bytes accepted by write()/writeSequence() so far; all bytes
         accepted by the OS so far *)
| ERegErr.                            (* registerProducer raised RuntimeError *)

Record st := mk {
  connected : bool;
  disconnected : bool;
  disconnecting : bool;
  wdisconnecting : bool;
  wdisconnected : bool;
  dbuf : bytes;
  off : nat;
  temp : list bytes;
  tlen : nat;
  producer : option (nat * bool * list (list pact));
  ppaused : bool;
  nextid : nat;
  writing : bool;
  reading : bool;
  written : bytes;
  sent : bytes;
  gtold : bool;
  gwrote : bool;
  log : list ev
}.

Definition set_connected (v : bool) (s : st) : st := mk v (disconnected s) (disconnecting s) (wdisconnecting s) (wdisconnected s) (dbuf s) (off s) (temp s) (tlen s) (producer s) (ppaused s) (nextid s) (writing s) (reading s) (written s) (sent s) (gtold s) (gwrote s) (log s).
Definition set_disconnected (v : bool) (s : st) : st := mk (connected s) v (disconnecting s) (wdisconnecting s) (wdisconnected s) (dbuf s) (off s) (temp s) (tlen s) (producer s) (ppaused s) (nextid s) (writing s) (reading s) (written s) (sent s) (gtold s) (gwrote s) (log s).
Definition set_disconnecting (v : bool) (s : st) : st := mk (connected s) (disconnected s) v (wdisconnecting s) (wdisconnected s) (dbuf s) (off s) (temp s) (tlen s) (producer s) (ppaused s) (nextid s) (writing s) (reading s) (written s) (sent s) (gtold s) (gwrote s) (log s).
Definition set_wdisconnecting (v : bool) (s : st) : st := mk (connected s) (disconnected s) (disconnecting s) v (wdisconnected s) (dbuf s) (off s) (temp s) (tlen s) (producer s) (ppaused s) (nextid s) (writing s) (reading s) (written s) (sent s) (gtold s) (gwrote s) (log s).
Definition set_wdisconnected (v : bool) (s : st) : st := mk (connected s) (disconnected s) (disconnecting s) (wdisconnecting s) v (dbuf s) (off s) (temp s) (tlen s) (producer s) (ppaused s) (nextid s) (writing s) (reading s) (written s) (sent s) (gtold s) (gwrote s) (log s).
Definition set_dbuf (v : bytes) (s : st) : st := mk (connected s) (disconnected s) (disconnecting s) (wdisconnecting s) (wdisconnected s) v (off s) (temp s) (tlen s) (producer s) (ppaused s) (nextid s) (writing s) (reading s) (written s) (sent s) (gtold s) (gwrote s) (log s).
Definition set_off (v : nat) (s : st) : st := mk (connected s) (disconnected s) (disconnecting s) (wdisconnecting s) (wdisconnected s) (dbuf s) v (temp s) (tlen s) (producer s) (ppaused s) (nextid s) (writing s) (reading s) (written s) (sent s) (gtold s) (gwrote s) (log s).
Definition set_temp (v : list bytes) (s : st) : st := mk (connected s) (disconnected s) (disconnecting s) (wdisconnecting s) (wdisconnected s) (dbuf s) (off s) v (tlen s) (producer s) (ppaused s) (nextid s) (writing s) (reading s) (written s) (sent s) (gtold s) (gwrote s) (log s).
Definition set_tlen (v : nat) (s : st) : st := mk (connected s) (disconnected s) (disconnecting s) (wdisconnecting s) (wdisconnected s) (dbuf s) (off s) (temp s) v (producer s) (ppaused s) (nextid s) (writing s) (reading s) (written s) (sent s) (gtold s) (gwrote s) (log s).
Definition set_producer (v : option (nat * bool * list (list pact))) (s : st) : st := mk (connected s) (disconnected s) (disconnecting s) (wdisconnecting s) (wdisconnected s) (dbuf s) (off s) (temp s) (tlen s) v (ppaused s) (nextid s) (writing s) (reading s) (written s) (sent s) (gtold s) (gwrote s) (log s).
Definition set_ppaused (v : bool) (s : st) : st := mk (connected s) (disconnected s) (disconnecting s) (wdisconnecting s) (wdisconnected s) (dbuf s) (off s) (temp s) (tlen s) (producer s) v (nextid s) (writing s) (reading s) (written s) (sent s) (gtold s) (gwrote s) (log s).
Definition set_nextid (v : nat) (s : st) : st := mk (connected s) (disconnected s) (disconnecting s) (wdisconnecting s) (wdisconnected s) (dbuf s) (off s) (temp s) (tlen s) (producer s) (ppaused s) v (writing s) (reading s) (written s) (sent s) (gtold s) (gwrote s) (log s).
Definition set_writing (v : bool) (s : st) : st := mk (connected s) (disconnected s) (disconnecting s) (wdisconnecting s) (wdisconnected s) (dbuf s) (off s) (temp s) (tlen s) (producer s) (ppaused s) (nextid s) v (reading s) (written s) (sent s) (gtold s) (gwrote s) (log s).
Definition set_reading (v : bool) (s : st) : st := mk (connected s) (disconnected s) (disconnecting s) (wdisconnecting s) (wdisconnected s) (dbuf s) (off s) (temp s) (tlen s) (producer s) (ppaused s) (nextid s) (writing s) v (written s) (sent s) (gtold s) (gwrote s) (log s).
Definition set_written (v : bytes) (s : st) : st := mk (connected s) (disconnected s) (disconnecting s) (wdisconnecting s) (wdisconnected s) (dbuf s) (off s) (temp s) (tlen s) (producer s) (ppaused s) (nextid s) (writing s) (reading s) v (sent s) (gtold s) (gwrote s) (log s).
Definition set_sent (v : bytes) (s : st) : st := mk (connected s) (disconnected s) (disconnecting s) (wdisconnecting s) (wdisconnected s) (dbuf s) (off s) (temp s) (tlen s) (producer s) (ppaused s) (nextid s) (writing s) (reading s) (written s) v (gtold s) (gwrote s) (log s).
Definition set_gtold (v : bool) (s : st) : st := mk (connected s) (disconnected s) (disconnecting s) (wdisconnecting s) (wdisconnected s) (dbuf s) (off s) (temp s) (tlen s) (producer s) (ppaused s) (nextid s) (writing s) (reading s) (written s) (sent s) v (gwrote s) (log s).
Definition set_gwrote (v : bool) (s : st) : st := mk (connected s) (disconnected s) (disconnecting s) (wdisconnecting s) (wdisconnected s) (dbuf s) (off s) (temp s) (tlen s) (producer s) (ppaused s) (nextid s) (writing s) (reading s) (written s) (sent s) (gtold s) v (log s).
Definition set_log (v : list ev) (s : st) : st := mk (connected s) (disconnected s) (disconnecting s) (wdisconnecting s) (wdisconnected s) (dbuf s) (off s) (temp s) (tlen s) (producer s) (ppaused s) (nextid s) (writing s) (reading s) (written s) (sent s) (gtold s) (gwrote s) v.

Definition unsent (s : st) : bytes := skipn (off s) (dbuf s) ++ concat (temp s).
Definition emit (e : ev) (s : st) : st := set_log (e :: log s) s.
Definition is_pull (s : st) : bool :=
  match producer s with Some (_, false, _) => true | _ => false end.
Definition is_streaming (s : st) : bool :=
  match producer s with Some (_, true, _) => true | _ => false end.

Definition init : st :=
  mk true false false false false [] 0 [] 0 None false 0 false true [] [] false false [].

(** a client transport before its connection is established: connected = 0 and disconnected = 0 *)
Definition init_pre : st :=
  mk false false false false false [] 0 [] 0 None false 0 false false [] [] false false [].

Section WithLimits.
  Variables (slimit bsize : nat).

  (** FileDescriptor.connectionLost (the reactor removed the descriptor, or loseConnection calls it) *)
  Definition conn_lost (clean : bool) (s : st) : st :=
    let s1 := emit (ELost clean (is_pull s) (wdisconnected s) (written s) (sent s)) s in
    let s2 := set_connected false (set_disconnected true s1) in
    let s3 := match producer s2 with
              | Some (id, _, _) => emit (EStop id) (set_gtold false (set_producer None s2))
              | None => s2
              end in
    set_writing false (set_reading false s3).

  Definition maybe_pause (s : st) : st :=
    match producer s with
    | Some (id, true, _) =>
        if Nat.ltb bsize (length (dbuf s) + tlen s)
        then emit (EPause id) (set_gtold true (set_ppaused true s))
        else s
    | _ => s
    end.

  Definition write (d : bytes) (s : st) : st :=
    if negb (connected s) || wdisconnected s then s
    else match d with
         | [] => s
         | _ => set_writing true (maybe_pause
                  (set_gwrote true (set_written (written s ++ d)
                     (set_tlen (tlen s + length d) (set_temp (temp s ++ [d]) s)))))
         end.

  Definition write_seq (ds : list bytes) (s : st) : st :=
    if negb (connected s) || wdisconnected s then s
    else match ds with
         | [] => s
         | _ => set_writing true (maybe_pause
                  (set_gwrote true (set_written (written s ++ concat ds)
                     (set_tlen (tlen s + length (concat ds)) (set_temp (temp s ++ ds) s)))))
         end.

  Definition lose (s : st) : st :=
    if connected s && negb (disconnecting s) then
      if wdisconnected s then conn_lost true (set_writing false (set_reading false s))
      else set_disconnecting true (set_writing true (set_reading false s))
    else s.

  Definition losew (s : st) : st := set_writing true (set_wdisconnecting true s).

  Definition unregister (s : st) : st :=
    let s1 := set_gtold false (set_producer None s) in
    if connected s1 && disconnecting s1 then set_writing true s1 else s1.

  Definition pact_apply (s : st) (a : pact) : st :=
    match a with
    | PW d => write d s
    | PWS ds => write_seq ds s
    | PUnreg => unregister s
    | PLose => lose s
    | PLoseW => losew s
    end.

  (** producer.resumeProducing() on the registered producer *)
  Definition resume (s : st) : st :=
    match producer s with
    | Some (id, str, scr) =>
        let s1 := emit (EResume id) (set_gtold false s) in
        match scr with
        | [] => s1
        | acts :: rest => fold_left pact_apply acts (set_producer (Some (id, str, rest)) s1)
        end
    | None => s
    end.

  Definition register (str : bool) (scr : list (list pact)) (s : st) : st :=
    match producer s with
    | Some _ => emit ERegErr s
    | None =>
        if disconnected s then emit (EStop (nextid s)) (set_nextid (S (nextid s)) s)
        else
          let s1 := set_gwrote false (set_nextid (S (nextid s)) (set_producer (Some (nextid s, str, scr)) s)) in
          if str then s1 else resume s1
    end.

  (** the tail of doWrite once the buffers are empty and no producer is to be resumed *)
  Definition finish (s : st) : st :=
    if disconnecting s then conn_lost true s               (* _postLoseConnection -> CONNECTION_DONE -> reactor *)
    else if wdisconnecting s
         then emit (ECloseWrite (is_pull s) (written s) (sent s)) (set_wdisconnected true s)
         else s.

  (** doWrite, first part: if less than SEND_LIMIT bytes are left in dataBuffer, join the temporary buffer to it *)
  Definition coalesce (s : st) : st :=
    if Nat.ltb (length (dbuf s) - off s) slimit
    then set_tlen 0 (set_temp [] (set_off 0 (set_dbuf (skipn (off s) (dbuf s) ++ concat (temp s)) s)))
    else s.

  (** writeSomeData(dataBuffer[offset:]) returns min k (length offered) *)
  Definition os_accept (k : nat) (s : st) : st :=
    let offered := skipn (off s) (dbuf s) in
    let l := Nat.min k (length offered) in
    emit (EOs offered l) (set_sent (sent s ++ firstn l offered) (set_off (off s + l) s)).

  (** nothing left to send: reset the buffer, stop writing, then producer / close / half-close *)
  Definition after_drain (s : st) : st :=
    let s3 := set_writing false (set_off 0 (set_dbuf [] s)) in
    match producer s3 with
    | Some (_, str, _) =>
        if negb str || ppaused s3 then resume (set_ppaused false s3) else finish s3
    | None => finish s3
    end.

  Definition do_write (r : option nat) (s : st) : st :=
    let s1 := coalesce s in
    match r with
    | None => conn_lost false (emit (EOsErr (skipn (off s1) (dbuf s1))) s1)
    | Some k =>
        let s2 := os_accept k s1 in
        if Nat.eqb (off s2) (length (dbuf s2)) && Nat.eqb (tlen s2) 0 then after_drain s2 else s2
    end.

  Definition step (s : st) (o : op) : st :=
    match o with
    | Write d => write d s
    | WriteSeq ds => write_seq ds s
    | Register str scr => register str scr s
    | Unregister => unregister s
    | Lose => lose s
    | LoseW => losew s
    | DoWrite k => if writing s then do_write (Some k) s else s
    | DoWriteErr => if writing s then do_write None s else s
    | Drop => if connected s then conn_lost false s else s
    | Connect =>
        if negb (connected s) && negb (disconnected s)
        then set_reading true (set_connected true (set_writing false (set_reading false s)))
        else s
    end.

  Definition run (pre : bool) (ops : list op) : st := fold_left step ops (if pre then init_pre else init).
End WithLimits.

(** ---- ghost readings of the event log (chronological order = [rev (log s)]) ---- *)
Definition os_accepted (e : ev) : bytes := match e with EOs d k => firstn k d | _ => [] end.
Definition os_bytes (chron : list ev) : bytes := flat_map os_accepted chron.
