(** C14: printers used by the correspondence check only. *)
From Coq Require Import List Arith Bool NArith String.
From TwLib Require Import Show.
From C14 Require Import Model.
Import ListNotations.
Local Open Scope string_scope.

Definition show_ev (e : ev) : string :=
  match e with
  | EOs d k => "o" ++ show_hex d ++ ":" ++ show_nat k
  | EOsErr d => "x" ++ show_hex d
  | EPause i => "P" ++ show_nat i
  | EResume i => "R" ++ show_nat i
  | EStop i => "S" ++ show_nat i
  | ECloseWrite _ _ _ => "CW"
  | ELost c _ _ _ _ => if c then "L1" else "L0"
  | ERegErr => "E"
  end.

(** events of one step = the new prefix of the (newest-first) log *)
Definition new_events (before after : list ev) : list ev :=
  rev (firstn (List.length after - List.length before) after).

Fixpoint run_show_from (sl bs : nat) (s : st) (ops : list op) : list string :=
  match ops with
  | [] => []
  | o :: r =>
      let s' := step sl bs s o in
      let es := new_events (log s) (log s') in
      ((match es with [] => "-" | _ => String.concat "," (map show_ev es) end)
         ++ "|" ++ (if writing s' then "W" else "") ++ (if reading s' then "R" else ""))
        :: run_show_from sl bs s' r
  end.

Definition run_show (c : bool * nat * nat * list op) : string :=
  let '(pre, sl, bs, ops) := c in
  String.concat " " (run_show_from sl bs (if pre then init_pre else init) ops).
