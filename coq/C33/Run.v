(** C33: printers used by the correspondence check only. *)
From Coq Require Import List NArith ZArith Bool String Ascii.
From TwLib Require Import Show PyInt WireIter WireDns WireDnsShow.
From C33 Require Import Model.
Import ListNotations.
Local Open Scope string_scope.

Inductive case33 :=
| KRaw (data : list N)                          (* Message.fromStr of arbitrary bytes *)
| KTcp (data : list N) (cuts : list N)          (* DNSProtocol.dataReceived over the stream cut into segments *)
| KUdp (data : list N).                         (* DNSDatagramProtocol.datagramReceived *)

(** cut [data] into chunks of the given sizes (a zero or missing size takes the rest) *)
Fixpoint chunks (cuts : list N) (data : list N) : list (list N) :=
  match cuts with
  | [] => match data with [] => [] | _ => [data] end
  | k :: r => match data with
              | [] => []
              | _ => if (k =? 0)%N then [data] else takeN k data :: chunks r (dropN k data)
              end
  end.

Definition show_frame (f : list N) : string := show_outcome show_message (dec_message f).

Definition run33 (c : case33) : string :=
  match c with
  | KRaw d => show_outcome show_message (dec_message d)
  | KTcp d cuts =>
      let s := ffeed_all dns_bad (finit) (chunks cuts d) in
      String.concat " ; " (map show_frame (f_outs s)) ++ "|"
      ++ match f_err s with None => "ok" | Some e => show_exn e end
  | KUdp d =>
      match udp_receive d with
      | UDelivered m => "delivered:" ++ show_message m
      | UDropped => "dropped"
      | UUnexpected _ => "unexpected"
      end
  end.
