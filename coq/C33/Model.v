(** C33: the decoders are coq/Lib/WireDns.v (shared with C32); their termination / totality
    development is coq/Lib/WireDnsTotal.v.  This file adds the TCP framing of DNSProtocol
    (dataReceived: 2-byte big-endian length prefix, then the message), in the REPAIRED form of
    fixes/C33-tcp-length-prefix-split.patch: when fewer than two bytes of the prefix have arrived the
    loop stops and waits (the pinned code went on to compare with length None -> TypeError).
    No proofs here. *)
From Coq Require Import List NArith ZArith Bool.
From TwLib Require Export PyInt WireIter WireDns.
Import ListNotations.
Open Scope N_scope.

Section Framer.
(** [bad frame] = Some e when Message.fromStr(frame) raises e (it is not caught in dataReceived) *)
Variable bad : list N -> option pyexn.

Inductive fstep :=
| FStop (len : option N) (buf : list N)      (* wait for more data, in this state *)
| FErr (e : pyexn)
| FDeliver (frame : list N) (buf : list N).  (* a message was handed on; length is None again *)

(** one pass of `while self.buffer:` *)
Definition fstep_of (len : option N) (buf : list N) : fstep :=
  match buf with
  | [] => FStop len []
  | _ :: _ =>
    let hdr := match len with
               | Some n => Some (n, buf)
               | None => if blen buf <? 2 then None else Some (from_be (takeN 2 buf), dropN 2 buf)
               end in
    match hdr with
    | None => FStop None buf
    | Some (n, b1) =>
        if n <=? blen b1 then
          match bad (takeN n b1) with
          | Some e => FErr e
          | None => FDeliver (takeN n b1) (dropN n b1)
          end
        else FStop (Some n) b1
    end
  end.

Record fstate := mkF { f_len : option N; f_buf : list N; f_outs : list (list N); f_err : option pyexn; f_fuel_ok : bool }.

Fixpoint frun (fuel : nat) (len : option N) (buf : list N) (outs : list (list N)) : fstate :=
  match fuel with
  | O => mkF len buf outs None false
  | S f =>
    match fstep_of len buf with
    | FStop l b => mkF l b outs None true
    | FErr e => mkF None [] outs (Some e) true      (* the exception leaves dataReceived: the connection is gone *)
    | FDeliver fr b => frun f None b (outs ++ [fr])
    end
  end.

Definition ffuel (buf : list N) : nat := S (S (2 * length buf)).

(** dataReceived(chunk); after an exception the connection is gone *)
Definition ffeed (st : fstate) (chunk : list N) : fstate :=
  match f_err st with
  | Some _ => st
  | None => let buf := f_buf st ++ chunk in frun (ffuel buf) (f_len st) buf (f_outs st)
  end.

Definition finit : fstate := mkF None [] [] None true.
Definition ffeed_all (st : fstate) (chunks : list (list N)) : fstate := fold_left ffeed chunks st.
End Framer.

(** the instance used by DNSProtocol: the frame goes through Message.fromStr *)
Definition dns_bad (frame : list N) : option pyexn :=
  match dec_message frame with Done _ => None | Raise e => Some e | Fuel => Some AssertionError end.

(** ---- the UDP path: DNSDatagramProtocol.datagramReceived ----
    Message.fromStr inside try / except EOFError ("Truncated packet") / except ValueError ("Invalid
    packet") / except BaseException ("Unexpected decoding error"); every branch logs and returns, so
    nothing is ever raised to the transport; a decoded message is handed to the controller. *)
Inductive udp_result :=
| UDelivered (m : message)
| UDropped                       (* EOFError / ValueError: logged as a malformed packet, dropped *)
| UUnexpected (e : option pyexn). (* anything else: logged as "Unexpected decoding error" *)

Definition udp_receive (msg : list N) : udp_result :=
  match dec_message msg with
  | Done m => UDelivered m
  | Raise EOFError => UDropped
  | Raise ValueError => UDropped
  | Raise e => UUnexpected (Some e)
  | Fuel => UUnexpected None
  end.
