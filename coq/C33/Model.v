(** C33: the model is coq/Lib/WireDns.v (shared with C32); the termination / totality development
    is coq/Lib/WireDnsTotal.v.  Nothing else is needed here. *)
From TwLib Require Export PyInt WireIter WireDns.
