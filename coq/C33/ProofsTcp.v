(** C33: the TCP framing of DNSProtocol.dataReceived (repaired) is independent of how the stream
    is cut into segments. *)
From Coq Require Import List NArith ZArith Bool Lia ZifyBool.
From TwLib Require Import PyInt WireIter WireDns WireDnsTotal.
From C33 Require Import Model.
Import ListNotations.
Open Scope N_scope.

Lemma takeN_app_le {A} n (a b : list A) : n <= blen a -> takeN n (a ++ b) = takeN n a.
Proof.
  revert n; induction a as [|x a IH]; intros n H.
  - cbn in H. assert (n = 0) by lia. subst. now rewrite !takeN_0.
  - rewrite blen_cons in H. cbn [app takeN]. destruct (n =? 0); [reflexivity|]. f_equal. apply IH. lia.
Qed.

Lemma dropN_app_le {A} n (a b : list A) : n <= blen a -> dropN n (a ++ b) = dropN n a ++ b.
Proof.
  revert n; induction a as [|x a IH]; intros n H.
  - cbn in H. assert (n = 0) by lia. subst. now rewrite !dropN_0.
  - rewrite blen_cons in H. cbn [app dropN]. destruct (n =? 0) eqn:E; [reflexivity|]. apply IH. lia.
Qed.

Section Framer.
Variable bad : list N -> option pyexn.

Definition fmu (len : option N) (buf : list N) : nat :=
  (2 * length buf + match len with Some _ => 1 | None => 0 end)%nat.

Lemma length_dropN_le {A} n (l : list A) : (length (dropN n l) <= length l)%nat.
Proof. pose proof (blen_dropN n l) as B. unfold blen in B. lia. Qed.

Lemma fstep_decreases len buf fr b : fstep_of bad len buf = FDeliver fr b -> (fmu None b < fmu len buf)%nat.
Proof.
  unfold fstep_of. destruct buf as [|x r]; [discriminate|].
  destruct len as [n|].
  - destruct (n <=? blen (x :: r)); [|discriminate]. destruct (bad _); [discriminate|].
    intros H. assert (b = dropN n (x :: r)) by congruence. subst b. unfold fmu. cbv beta iota. pose proof (length_dropN_le n (x :: r)). lia.
  - destruct (blen (x :: r) <? 2) eqn:L2; [discriminate|].
    destruct (_ <=? _); [|discriminate]. destruct (bad _); [discriminate|].
    intros H. assert (b = dropN (from_be (takeN 2 (x :: r))) (dropN 2 (x :: r))) by congruence. subst b.
    unfold fmu. cbv beta iota.
    pose proof (length_dropN_le (from_be (takeN 2 (x :: r))) (dropN 2 (x :: r))).
    pose proof (blen_dropN 2 (x :: r)) as B. unfold blen in *. lia.
Qed.

Lemma frun_fuel : forall f1 f2 len buf outs,
  (fmu len buf < f1)%nat -> (fmu len buf < f2)%nat -> frun bad f1 len buf outs = frun bad f2 len buf outs.
Proof.
  induction f1 as [|f1 IH]; intros f2 len buf outs H1 H2; [lia|].
  destruct f2 as [|f2]; [lia|]. cbn [frun].
  destruct (fstep_of bad len buf) as [l b|e|fr b] eqn:S; try reflexivity.
  apply fstep_decreases in S. apply IH; lia.
Qed.

Definition frunL len buf outs := frun bad (ffuel buf) len buf outs.

Lemma ffuel_enough len buf : (fmu len buf < ffuel buf)%nat.
Proof. unfold fmu, ffuel. destruct len; cbv beta iota; lia. Qed.

Lemma frunL_unfold len buf outs :
  frunL len buf outs =
  match fstep_of bad len buf with
  | FStop l b => mkF l b outs None true
  | FErr e => mkF None [] outs (Some e) true
  | FDeliver fr b => frunL None b (outs ++ [fr])
  end.
Proof.
  unfold frunL at 1. unfold ffuel. remember (S (2 * length buf)) as f eqn:Ef. cbn [frun].
  destruct (fstep_of bad len buf) as [l b|e|fr b] eqn:S; try reflexivity.
  apply frun_fuel; [|apply ffuel_enough]. apply fstep_decreases in S. unfold fmu in *. destruct len; cbv beta iota in *; lia.
Qed.

Definition fbody (n : N) (b1 : list N) : fstep :=
  if n <=? blen b1 then
    match bad (takeN n b1) with Some e => FErr e | None => FDeliver (takeN n b1) (dropN n b1) end
  else FStop (Some n) b1.

Lemma fstep_some n b : b <> [] \/ 0 < n -> fstep_of bad (Some n) b = fbody n b.
Proof.
  intros H. unfold fstep_of, fbody. destruct b as [|x r]; [|reflexivity].
  destruct H as [H|H]; [congruence|]. change (blen (@nil N)) with 0. replace (n <=? 0) with false by lia. reflexivity.
Qed.

Lemma fstep_none b : b <> [] ->
  fstep_of bad None b = if blen b <? 2 then FStop None b else fbody (from_be (takeN 2 b)) (dropN 2 b).
Proof.
  intros H. unfold fstep_of, fbody. destruct b as [|x r]; [congruence|].
  destruct (blen (x :: r) <? 2); reflexivity.
Qed.

Lemma fbody_app n b1 c : n <= blen b1 ->
  fbody n (b1 ++ c) = match bad (takeN n b1) with Some e => FErr e | None => FDeliver (takeN n b1) (dropN n b1 ++ c) end.
Proof.
  intros L. unfold fbody. replace (n <=? blen (b1 ++ c)) with true by (rewrite blen_app; lia).
  now rewrite takeN_app_le, dropN_app_le by exact L.
Qed.

Lemma app_nonnil {A} (a b : list A) : a <> [] -> a ++ b <> [].
Proof. destruct a; [congruence|cbn; congruence]. Qed.

(** prefix stability of one pass *)
Lemma fstep_app len buf c :
  match fstep_of bad len buf with
  | FDeliver fr b => fstep_of bad len (buf ++ c) = FDeliver fr (b ++ c)
  | FErr e => fstep_of bad len (buf ++ c) = FErr e
  | FStop l b => fstep_of bad len (buf ++ c) = fstep_of bad l (b ++ c)
  end.
Proof.
  destruct buf as [|x r]; [reflexivity|].
  assert (NE : x :: r <> []) by congruence. set (buf := x :: r) in *.
  destruct len as [n|].
  - rewrite (fstep_some n buf (or_introl NE)). unfold fbody at 1.
    destruct (n <=? blen buf) eqn:L; [|reflexivity].
    rewrite (fstep_some n (buf ++ c) (or_introl (app_nonnil _ _ NE))), fbody_app by lia.
    destruct (bad (takeN n buf)); reflexivity.
  - rewrite (fstep_none buf NE). destruct (blen buf <? 2) eqn:L2; [reflexivity|].
    set (n := from_be (takeN 2 buf)). set (b1 := dropN 2 buf).
    assert (fstep_of bad None (buf ++ c) = fbody n (b1 ++ c)) as E.
    { rewrite (fstep_none (buf ++ c) (app_nonnil _ _ NE)).
      replace (blen (buf ++ c) <? 2) with false by (rewrite blen_app; lia).
      unfold n, b1. now rewrite takeN_app_le, dropN_app_le by lia. }
    unfold fbody at 1. destruct (n <=? blen b1) eqn:L.
    + rewrite E, fbody_app by lia. destruct (bad (takeN n b1)); reflexivity.
    + rewrite E. symmetry. apply fstep_some.
      destruct (b1 ++ c) eqn:EQ; [right; lia|left; congruence].
Qed.

(** prefix stability of the loop *)
Lemma frunL_app c : forall k len buf outs,
  (fmu len buf <= k)%nat ->
  let r := frunL len buf outs in
  match f_err r with
  | None => frunL len (buf ++ c) outs = frunL (f_len r) (f_buf r ++ c) (f_outs r)
  | Some e => let r2 := frunL len (buf ++ c) outs in f_err r2 = Some e /\ f_outs r2 = f_outs r
  end.
Proof.
  induction k as [|k IH]; intros len buf outs H; cbn zeta.
  - (* measure 0: empty buffer, no pending length *)
    assert (buf = [] /\ len = None) as [-> ->].
    { unfold fmu in H. destruct buf; [|cbn in H; lia]. destruct len; [lia|auto]. }
    rewrite (frunL_unfold None []). cbn [fstep_of f_err f_len f_buf f_outs]. reflexivity.
  - rewrite (frunL_unfold len buf). pose proof (fstep_app len buf c) as A.
    destruct (fstep_of bad len buf) as [l b|e|fr b] eqn:S.
    + cbn [f_err f_len f_buf f_outs]. rewrite (frunL_unfold len (buf ++ c)), A, <- frunL_unfold. reflexivity.
    + cbn [f_err f_outs]. rewrite (frunL_unfold len (buf ++ c)), A. cbn. auto.
    + rewrite (frunL_unfold len (buf ++ c)), A. apply IH. apply fstep_decreases in S. lia.
Qed.

(** ------------------------------------------------------------------ segmentation independence --- *)

Definition fsame (a b : fstate) : Prop :=
  f_outs a = f_outs b /\ f_err a = f_err b /\ (f_err a = None -> f_len a = f_len b /\ f_buf a = f_buf b).

Lemma fsame_refl a : fsame a a.
Proof. unfold fsame; auto. Qed.

Lemma fsame_trans a b c : fsame a b -> fsame b c -> fsame a c.
Proof.
  unfold fsame. intros (A1 & A2 & A3) (B1 & B2 & B3). split; [congruence|]. split; [congruence|].
  intros H. destruct (A3 H) as [X1 X2]. assert (H2 : f_err b = None) by congruence.
  destruct (B3 H2) as [Y1 Y2]. split; congruence.
Qed.

Lemma ffeed_whole B : ffeed bad (finit) B = frunL None B [].
Proof. reflexivity. Qed.

Lemma ffeed_after B c : fsame (ffeed bad (frunL None B []) c) (frunL None (B ++ c) []).
Proof.
  pose proof (frunL_app c (fmu None B) None B [] (le_n _)) as A. cbn zeta in A.
  remember (frunL None B []) as R eqn:HR. destruct R as [rl rb ro re rf].
  cbn [f_err f_len f_buf f_outs] in A. unfold ffeed. cbn [f_err f_len f_buf f_outs].
  destruct re as [e|].
  - destruct A as [A1 A2]. unfold fsame. cbn [f_outs f_err]. rewrite A1, A2. repeat split; congruence.
  - change (frun bad (ffuel (rb ++ c)) rl (rb ++ c) ro) with (frunL rl (rb ++ c) ro). rewrite <- A. apply fsame_refl.
Qed.

Lemma ffeed_dead st c : f_err st <> None -> ffeed bad st c = st.
Proof. unfold ffeed. destruct (f_err st); [reflexivity|congruence]. Qed.

Lemma ffeed_fsame a b c : fsame a b -> fsame (ffeed bad a c) (ffeed bad b c).
Proof.
  intros (H1 & H2 & H3). destruct (f_err a) as [e|] eqn:E.
  - rewrite !ffeed_dead by congruence. unfold fsame. rewrite E. repeat split; congruence.
  - destruct (H3 eq_refl) as [L B]. unfold ffeed. rewrite E, <- H2, <- L, <- B, <- H1. apply fsame_refl.
Qed.

Lemma ffeed_all_cons st c cs : ffeed_all bad st (c :: cs) = ffeed_all bad (ffeed bad st c) cs.
Proof. reflexivity. Qed.

Lemma ffeed_all_fsame cs : forall a b, fsame a b -> fsame (ffeed_all bad a cs) (ffeed_all bad b cs).
Proof.
  induction cs as [|c cs IH]; intros a b H; [exact H|]. rewrite !ffeed_all_cons. apply IH. now apply ffeed_fsame.
Qed.

Lemma ffeed_all_split : forall cs B, fsame (ffeed_all bad (frunL None B []) cs) (frunL None (B ++ concat cs) []).
Proof.
  induction cs as [|c cs IH]; intros B.
  - cbn. rewrite app_nil_r. apply fsame_refl.
  - rewrite ffeed_all_cons. cbn [concat]. eapply fsame_trans.
    + apply ffeed_all_fsame. apply ffeed_after.
    + rewrite app_assoc. apply IH.
Qed.

Theorem tcp_any_split cs : fsame (ffeed_all bad finit cs) (ffeed bad finit (concat cs)).
Proof. rewrite ffeed_whole. exact (ffeed_all_split cs []). Qed.

(** the loop ends within its budget *)
Lemma frunL_fuel_ok : forall k len buf outs, (fmu len buf <= k)%nat -> f_fuel_ok (frunL len buf outs) = true.
Proof.
  induction k as [|k IH]; intros len buf outs H; rewrite frunL_unfold.
  - assert (buf = [] /\ len = None) as [-> ->].
    { unfold fmu in H. destruct buf; [|cbn in H; lia]. destruct len; [lia|auto]. }
    reflexivity.
  - destruct (fstep_of bad len buf) as [l b|e|fr b] eqn:S; try reflexivity.
    apply IH. apply fstep_decreases in S. lia.
Qed.

(** a well-framed stream: every message arrives, in order *)
Lemma frames_delivered : forall frames outs,
  Forall (fun f => bad f = None /\ blen f < 65536) frames ->
  frunL None (concat (map (fun f => to_be 2 (blen f) ++ f) frames)) outs = mkF None [] (outs ++ frames) None true.
Proof.
  induction frames as [|f r IH]; intros outs F.
  - cbn [map concat]. rewrite frunL_unfold. cbn [fstep_of]. now rewrite app_nil_r.
  - inversion F as [|? ? [B L] Fr]; subst. cbn [map concat].
    set (rest := concat (map (fun f => to_be 2 (blen f) ++ f) r)).
    rewrite frunL_unfold.
    assert (NE : (to_be 2 (blen f) ++ f) ++ rest <> []).
    { apply app_nonnil, app_nonnil. intros E. apply (f_equal (@length N)) in E. rewrite length_to_be in E. discriminate. }
    rewrite (fstep_none _ NE).
    replace (blen ((to_be 2 (blen f) ++ f) ++ rest) <? 2) with false by (rewrite !blen_app, blen_to_be; change (N.of_nat 2) with 2; lia).
    rewrite <- app_assoc.
    replace (takeN 2 (to_be 2 (blen f) ++ f ++ rest)) with (to_be 2 (blen f))
      by (symmetry; rewrite <- (blen_to_be 2 (blen f)) at 1; apply takeN_app_exact).
    replace (dropN 2 (to_be 2 (blen f) ++ f ++ rest)) with (f ++ rest)
      by (symmetry; rewrite <- (blen_to_be 2 (blen f)) at 1; apply dropN_app_exact).
    rewrite from_be_to_be_small by (change (256 ^ N.of_nat 2) with 65536; exact L).
    rewrite fbody_app by lia. rewrite (takeN_all (blen f) f), (dropN_all (blen f) f) by lia.
    rewrite B. cbn [app]. unfold rest. rewrite (IH (outs ++ [f]) Fr). now rewrite <- app_assoc.
Qed.

End Framer.

(** DNSProtocol: the frames go through Message.fromStr; whatever that raises on arbitrary bytes is
    EOFError or ValueError (C33 decode_total), so that is all dataReceived can raise *)
Lemma dns_bad_safe frame e : bytes_ok frame -> dns_bad frame = Some e -> e = EOFError \/ e = ValueError.
Proof.
  intros BO H. unfold dns_bad in H. pose proof (dec_message_safe frame BO) as S.
  destruct (dec_message frame) as [m|x|]; [discriminate| |destruct S].
  inversion H; subst. destruct e; try destruct S; auto.
Qed.

Lemma frun_err_from_bad bad : forall fuel len buf outs e,
  f_err (frun bad fuel len buf outs) = Some e -> exists fr, bad fr = Some e /\ (forall x, In x fr -> In x buf).
Proof.
  induction fuel as [|f IH]; intros len buf outs e H; [discriminate|].
  cbn [frun] in H. unfold fstep_of in H. destruct buf as [|y r]; [discriminate|].
  set (buf := y :: r) in *.
  destruct (match len with Some n => Some (n, buf) | None => if blen buf <? 2 then None else Some (from_be (takeN 2 buf), dropN 2 buf) end)
    as [[n b1]|] eqn:HD; [|discriminate].
  assert (forall x, In x b1 -> In x buf) as SUB.
  { destruct len as [n'|].
    - assert (b1 = buf) by congruence. subst b1. auto.
    - destruct (blen buf <? 2); [discriminate|]. assert (b1 = dropN 2 buf) by congruence. subst b1.
      intros x I. eapply dropN_In; eauto. }
  destruct (n <=? blen b1); [|discriminate].
  destruct (bad (takeN n b1)) as [e'|] eqn:B.
  - cbn [f_err] in H. inversion H; subst. exists (takeN n b1). split; [exact B|].
    intros x I. apply SUB. eapply takeN_In; eauto.
  - destruct (IH None (dropN n b1) _ e H) as (fr & Bf & Sf). exists fr. split; [exact Bf|].
    intros x I. apply SUB. eapply dropN_In. apply Sf. exact I.
Qed.

(** whatever segmentation: dataReceived raises nothing but EOFError / ValueError, for any byte stream *)
Theorem tcp_errors_allowed cs e :
  bytes_ok (concat cs) -> f_err (ffeed_all dns_bad finit cs) = Some e -> e = EOFError \/ e = ValueError.
Proof.
  intros BO H. destruct (tcp_any_split dns_bad cs) as (_ & E & _). rewrite E in H.
  unfold ffeed in H. cbn [f_err finit f_buf f_len f_outs app] in H.
  destruct (frun_err_from_bad dns_bad _ _ _ _ e H) as (fr & Bf & Sf).
  apply (dns_bad_safe fr e); [|exact Bf].
  unfold bytes_ok in *. rewrite Forall_forall in *. intros x I. apply BO, Sf, I.
Qed.

(** UDP: every datagram made of bytes is either delivered or dropped as malformed; the "unexpected
    decoding error" branch is never taken *)
Lemma udp_never_unexpected msg : bytes_ok msg -> (exists m, udp_receive msg = UDelivered m) \/ udp_receive msg = UDropped.
Proof.
  intros BO. unfold udp_receive. pose proof (dec_message_safe msg BO) as S.
  destruct (dec_message msg) as [m|e|]; [left; eauto| |destruct S].
  destruct e; try destruct S; right; reflexivity.
Qed.
