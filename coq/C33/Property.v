(** C33 property theorems (nothing else lives here; each is closed by [exact]).
    Model: coq/Lib/WireDns.v; proofs: coq/Lib/WireDnsTotal.v.
    [bytes_ok msg] = every element of the input is a byte (< 256).
    [safe o] = o is a decoded value, EOFError or ValueError - never another exception class, never
    the model's out-of-budget marker [Fuel]. *)
From Coq Require Import List NArith ZArith Bool.
From TwLib Require Import PyInt WireIter WireDns WireDnsTotal.
From C33 Require Import Model ProofsTcp.
Import ListNotations.
Open Scope N_scope.

(** decoding ANY byte string as a DNS message (Message.fromStr) yields a message, EOFError or
    ValueError *)
Theorem decode_total : forall msg : list N,
  bytes_ok msg ->
  match dec_message msg with
  | Done _ => True
  | Raise EOFError => True
  | Raise ValueError => True
  | _ => False
  end.
Proof. exact dec_message_safe. Qed.
Print Assumptions decode_total.

(** Name.decode from ANY offset of ANY byte string ends within the budget
    (2^14 + 1) * (len + 2) + len + 2 passes of its loop - pointer cycles included: every pass either
    consumes input or adds a new target below 2^14 to the visited set *)
Theorem fuel_never_exhausted : forall (msg : list N) (pos : N),
  bytes_ok msg -> dec_name msg pos <> Fuel /\ safe (dec_name msg pos).
Proof. exact name_never_out_of_fuel. Qed.
Print Assumptions fuel_never_exhausted.

(** the termination argument itself: one pass of the loop that goes on keeps the visited set
    duplicate-free and below 2^14 and strictly decreases
    (16385 - |visited|) * (len + 2) + (len + 1 - min(pos, len + 1)) *)
Theorem name_loop_measure_decreases : forall (msg : list N),
  bytes_ok msg ->
  forall s s', vis_ok (n_vis s) -> name_step msg s = inl s' ->
  vis_ok (n_vis s') /\ (name_mu msg s' < name_mu msg s)%nat.
Proof. exact name_step_decreases. Qed.
Print Assumptions name_loop_measure_decreases.

(** a pointer cycle is refused: a pointer whose target was already visited raises ValueError *)
Theorem revisited_pointer_is_refused : forall (msg : list N) (s : nstate) (l b2 : N),
  read1 msg (n_pos s) = Done (l, n_pos s + 1) -> l <> 0 -> N.shiftr l 6 = 3 ->
  read1 msg (n_pos s + 1) = Done (b2, n_pos s + 2) ->
  In (N.lor (N.shiftl (N.land l 63) 8) b2) (n_vis s) ->
  name_step msg s = inr (Raise ValueError).
Proof. exact revisit_refused. Qed.
Print Assumptions revisited_pointer_is_refused.

(** the other loops of the decoders (TXT strings, section counts) are bounded by their length
    fields; every record layout, including rdlengths smaller than the layout, is total *)
Theorem record_decoding_total : forall (msg : list N) (ts : list fty) (pos rdlen : N),
  bytes_ok msg -> safe (dec_fields msg ts pos rdlen).
Proof. intros msg ts pos rdlen BO. exact (dec_fields_safe msg BO ts pos rdlen). Qed.
Print Assumptions record_decoding_total.

(** ---- the TCP path: DNSProtocol.dataReceived (2-byte length prefix), REPAIRED form ---- *)

(** the result does not depend on how the byte stream is cut into segments (1-byte first segment,
    prefix split in two, several messages in one segment, ...): same messages handed on in the same
    order, same exception; and the same framing state when nothing was raised.  [bad] is any
    "fromStr raises" predicate. *)
Theorem tcp_segmentation_independent : forall (bad : list N -> option pyexn) (segments : list (list N)),
  let a := ffeed_all bad (finit) segments in
  let b := ffeed bad (finit) (concat segments) in
  f_outs a = f_outs b /\ f_err a = f_err b /\ (f_err a = None -> f_len a = f_len b /\ f_buf a = f_buf b).
Proof. exact tcp_any_split. Qed.
Print Assumptions tcp_segmentation_independent.

(** with Message.fromStr as the consumer, any byte stream under any segmentation makes dataReceived
    raise nothing but EOFError or ValueError *)
Theorem tcp_only_malformed_packet_errors : forall (segments : list (list N)) (e : pyexn),
  bytes_ok (concat segments) -> f_err (ffeed_all dns_bad finit segments) = Some e -> e = EOFError \/ e = ValueError.
Proof. exact tcp_errors_allowed. Qed.
Print Assumptions tcp_only_malformed_packet_errors.

(** a stream of well-framed messages is delivered completely and in order, nothing left over *)
Theorem tcp_frames_delivered : forall (bad : list N -> option pyexn) (frames : list (list N)) (outs : list (list N)),
  Forall (fun f => bad f = None /\ blen f < 65536) frames ->
  frun bad (ffuel (concat (map (fun f => to_be 2 (blen f) ++ f) frames))) None
       (concat (map (fun f => to_be 2 (blen f) ++ f) frames)) outs
  = mkF None [] (outs ++ frames) None true.
Proof. exact frames_delivered. Qed.
Print Assumptions tcp_frames_delivered.

(** the framing loop ends within its budget 2 * len + 2 *)
Theorem tcp_loop_terminates : forall (bad : list N -> option pyexn) (len : option N) (buf : list N) (outs : list (list N)),
  f_fuel_ok (frun bad (ffuel buf) len buf outs) = true.
Proof. intros bad len buf outs. exact (frunL_fuel_ok bad (fmu len buf) len buf outs (le_n _)). Qed.
Print Assumptions tcp_loop_terminates.

(** ---- the UDP path: DNSDatagramProtocol.datagramReceived ---- *)

(** any datagram is either decoded and handed on, or dropped as a truncated / invalid packet; the
    catch-all "Unexpected decoding error" branch is never reached, and nothing is raised (the handler
    returns in every branch - that part, incl. the log line, is tied by the harness only) *)
Theorem udp_datagram_delivered_or_dropped : forall msg : list N,
  bytes_ok msg -> (exists m, udp_receive msg = UDelivered m) \/ udp_receive msg = UDropped.
Proof. exact udp_never_unexpected. Qed.
Print Assumptions udp_datagram_delivered_or_dropped.
