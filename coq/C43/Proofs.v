(** C43 proofs: quoting round trips on the generated functions; no CR/LF/NUL on the wire;
    content preservation and the character limit with textwrap.wrap as an oracle; the octet
    limit (false in general: F17). *)
From Coq Require Import List NArith ZArith Bool Arith Lia.
From TwLib Require Import PyStr CodecsText.
From C43 Require Import Gen Model.
Import ListNotations.
Local Open Scope N_scope.

(** ---------------- quoting = per-character maps ---------------- *)

Definition lq (c : N) : list N :=
  if c =? 16 then [16; 16] else if c =? 0 then [16; 48] else if c =? 10 then [16; 110]
  else if c =? 13 then [16; 114] else [c].

Definition xq (c : N) : list N := if c =? 92 then [92; 92] else if c =? 1 then [92; 97] else [c].

Ltac quote_cases c :=
  let n1 := fresh "n1" in let n2 := fresh "n2" in let n3 := fresh "n3" in
  let n4 := fresh "n4" in let n5 := fresh "n5" in let n6 := fresh "n6" in
  destruct (N.eqb_spec c 16) as [->|n1]; [reflexivity|];
  destruct (N.eqb_spec c 0) as [->|n2]; [reflexivity|];
  destruct (N.eqb_spec c 10) as [->|n3]; [reflexivity|];
  destruct (N.eqb_spec c 13) as [->|n4]; [reflexivity|];
  destruct (N.eqb_spec c 92) as [->|n5]; [reflexivity|];
  destruct (N.eqb_spec c 1) as [->|n6]; [reflexivity|];
  apply N.eqb_neq in n1; apply N.eqb_neq in n2; apply N.eqb_neq in n3; apply N.eqb_neq in n4;
  apply N.eqb_neq in n5; apply N.eqb_neq in n6;
  unfold lq, xq, subst1;
  repeat (progress (cbn [flat_map app]; rewrite ?n1, ?n2, ?n3, ?n4, ?n5, ?n6)); reflexivity.

Lemma lowQuote_flat : forall s, lowQuote s = flat_map lq s.
Proof.
  intros s. unfold lowQuote. cbv zeta.
  rewrite (py_replace_single _ _ s), !replace_single_chain.
  apply flat_map_ext'. intros c. quote_cases c.
Qed.

Lemma ctcpQuote_flat : forall s, ctcpQuote s = flat_map xq s.
Proof.
  intros s. unfold ctcpQuote. cbv zeta.
  rewrite (py_replace_single _ _ s), !replace_single_chain.
  apply flat_map_ext'. intros c. quote_cases c.
Qed.

(** ---------------- round trips ---------------- *)

Lemma low_roundtrip : forall s, lowDequote (lowQuote s) = s.
Proof.
  intros s. unfold lowDequote. rewrite lowQuote_flat. apply re_sub_escape_flat_map.
  intros c _. unfold lq, mEscape_re_char.
  destruct (N.eqb_spec c 16) as [->|n1]; [right; exists 16; split; reflexivity|].
  destruct (N.eqb_spec c 0) as [->|n2]; [right; exists 48; split; reflexivity|].
  destruct (N.eqb_spec c 10) as [->|n3]; [right; exists 110; split; reflexivity|].
  destruct (N.eqb_spec c 13) as [->|n4]; [right; exists 114; split; reflexivity|].
  left. split; reflexivity.
Qed.

Lemma ctcp_roundtrip : forall s, ctcpDequote (ctcpQuote s) = s.
Proof.
  intros s. unfold ctcpDequote. rewrite ctcpQuote_flat. apply re_sub_escape_flat_map.
  intros c _. unfold xq, xEscape_re_char.
  destruct (N.eqb_spec c 92) as [->|n1]; [right; exists 92; split; reflexivity|].
  destruct (N.eqb_spec c 1) as [->|n2]; [right; exists 97; split; reflexivity|].
  left. split; reflexivity.
Qed.

(** ---------------- what quoted text can contain ---------------- *)

Lemma lq_clean : forall c x, In x (lq c) -> x <> 0 /\ x <> 10 /\ x <> 13.
Proof.
  intros c x H. unfold lq in H.
  destruct (N.eqb_spec c 16); [cbn in H; intuition (subst; discriminate)|].
  destruct (N.eqb_spec c 0); [cbn in H; intuition (subst; discriminate)|].
  destruct (N.eqb_spec c 10); [cbn in H; intuition (subst; discriminate)|].
  destruct (N.eqb_spec c 13); [cbn in H; intuition (subst; discriminate)|].
  cbn in H. destruct H as [<- | []]. repeat split; assumption.
Qed.

Lemma lowQuote_clean : forall s x, In x (lowQuote s) -> x <> 0 /\ x <> 10 /\ x <> 13.
Proof.
  intros s x H. rewrite lowQuote_flat in H. apply in_flat_map in H. destruct H as [c [_ Hx]].
  exact (lq_clean c x Hx).
Qed.

Lemma xq_clean : forall c x, In x (xq c) -> x <> 1.
Proof.
  intros c x H. unfold xq in H.
  destruct (N.eqb_spec c 92); [cbn in H; intuition (subst; discriminate)|].
  destruct (N.eqb_spec c 1); [cbn in H; intuition (subst; discriminate)|].
  cbn in H. destruct H as [<- | []]. assumption.
Qed.

Lemma ctcpQuote_clean : forall s x, In x (ctcpQuote s) -> x <> 1.
Proof.
  intros s x H. rewrite ctcpQuote_flat in H. apply in_flat_map in H. destruct H as [c [_ Hx]].
  exact (xq_clean c x Hx).
Qed.

(** octets of a sent line before its terminator *)
Lemma wire_clean : forall line b, In b (utf8_str (lowQuote line)) -> b <> 0 /\ b <> 10 /\ b <> 13.
Proof.
  intros line b H. unfold utf8_str in H. apply in_flat_map in H. destruct H as [c [Hc Hb]].
  destruct (utf8_bytes c b Hb) as [[_ ->] | Hge].
  - exact (lowQuote_clean line c Hc).
  - repeat split; intros ->; discriminate Hge || (apply N.leb_le in Hge; discriminate Hge).
Qed.

(** plain characters are sent as themselves, one octet each *)
Definition plain (c : N) : Prop := c < 128 /\ c <> 0 /\ c <> 10 /\ c <> 13 /\ c <> 16.

Lemma lq_plain : forall c, plain c -> lq c = [c].
Proof.
  intros c [_ [H0 [H10 [H13 H16]]]]. unfold lq.
  apply N.eqb_neq in H0. apply N.eqb_neq in H10. apply N.eqb_neq in H13. apply N.eqb_neq in H16.
  rewrite H16, H0, H10, H13. reflexivity.
Qed.

Lemma wire_plain : forall line, Forall plain line -> utf8_str (lowQuote line) = line.
Proof.
  intros line H. rewrite lowQuote_flat. unfold utf8_str.
  induction H as [|c l Hc Hl IH]; [reflexivity|].
  cbn [flat_map]. rewrite (lq_plain c Hc). cbn [flat_map app].
  destruct Hc as [Hlt _]. rewrite (utf8_ascii c Hlt). cbn [app]. f_equal. exact IH.
Qed.

(** ---------------- splitting ---------------- *)

Section Wrap.
  Variable is_space : N -> bool.
  Hypothesis space_lf : is_space 10 = true.
  Definition ns (c : N) : bool := negb (is_space c).

  Variable wrap : list N -> Z -> list (list N).
  Hypothesis wrap_width : forall l w, (1 <= w)%Z -> Forall (fun p => (Z.of_nat (length p) <= w)%Z) (wrap l w).
  Hypothesis wrap_content : forall l w, (1 <= w)%Z -> filter ns (concat (wrap l w)) = filter ns l.
  Hypothesis wrap_chars : forall l w p c, In p (wrap l w) -> In c p -> In c l \/ c = 32.

  Lemma split_lf_content : forall s cur, filter ns (concat (split_lf_aux cur s)) = filter ns (cur ++ s).
  Proof.
    induction s as [|c s IH]; intros cur.
    - cbn. rewrite !app_nil_r. reflexivity.
    - cbn [split_lf_aux]. destruct (N.eqb_spec c 10) as [->|n].
      + cbn [concat]. rewrite !filter_app, IH. cbn [app filter]. unfold ns at 4. rewrite space_lf. reflexivity.
      + rewrite IH, <- app_assoc. reflexivity.
  Qed.

  Lemma pieces_content : forall w lines, (1 <= w)%Z ->
    filter ns (concat (flat_map (fun l => wrap l w) lines)) = filter ns (concat lines).
  Proof.
    intros w lines Hw. induction lines as [|l lines IH]; [reflexivity|].
    cbn [flat_map concat]. rewrite concat_app, !filter_app, IH, wrap_content by exact Hw. reflexivity.
  Qed.

  Lemma split_lf_chars : forall s cur l c, In l (split_lf_aux cur s) -> In c l ->
    In c cur \/ (In c s /\ c <> 10).
  Proof.
    induction s as [|x s IH]; intros cur l c Hl Hc.
    - cbn in Hl. destruct Hl as [<- | []]. left. exact Hc.
    - cbn [split_lf_aux] in Hl. destruct (N.eqb_spec x 10) as [->|n].
      + destruct Hl as [<- | Hl]; [left; exact Hc|].
        destruct (IH [] l c Hl Hc) as [[] | [H1 H2]]. right. split; [right; exact H1 | exact H2].
      + destruct (IH (cur ++ [x]) l c Hl Hc) as [H | [H1 H2]].
        * apply in_app_or in H. destruct H as [H | [<- | []]]; [left; exact H|].
          right. split; [left; reflexivity | exact n].
        * right. split; [right; exact H1 | exact H2].
  Qed.

  Variables (nicklen : nat) (msgType user message : list N) (len : option Z).
  Let fmt := fmt_of msgType user.
  Let w := width_of nicklen fmt len.

  Lemma send_with_cases :
    ((limit_of nicklen fmt len <= minimum_of fmt)%Z /\ send_with wrap nicklen msgType user message len = OValueError)
    \/ ((1 <= w)%Z /\
        send_with wrap nicklen msgType user message len
        = OSent (map (fun piece => wire_line (fmt ++ piece)) (pieces_of wrap w message))).
  Proof.
    unfold send_with, send_message. fold fmt. fold w.
    destruct (limit_of nicklen fmt len <=? minimum_of fmt)%Z eqn:E.
    - left. apply Z.leb_le in E. split; [exact E | reflexivity].
    - right. apply Z.leb_gt in E. split; [unfold w, width_of; lia|].
      rewrite map_length, Nat.eqb_refl. unfold pieces_of. rewrite flat_map_concat_map. reflexivity.
  Qed.

  Lemma content_preserved : (1 <= w)%Z ->
    filter ns (concat (pieces_of wrap w message)) = filter ns message.
  Proof.
    intros Hw. unfold pieces_of. rewrite pieces_content by exact Hw.
    unfold split_lf. rewrite split_lf_content. reflexivity.
  Qed.

  Lemma chars_le_limit : (1 <= w)%Z -> forall p, In p (pieces_of wrap w message) ->
    (Z.of_nat (length (fmt ++ p)) + 2 <= limit_of nicklen fmt len)%Z.
  Proof.
    intros Hw p Hp. unfold pieces_of in Hp. apply in_flat_map in Hp. destruct Hp as [l [_ Hp]].
    pose proof (wrap_width l w Hw) as HW. rewrite Forall_forall in HW. specialize (HW p Hp).
    rewrite app_length, Nat2Z.inj_add. unfold w, width_of, minimum_of in HW. fold fmt in HW. lia.
  Qed.

  Lemma octets_le_limit_plain : (1 <= w)%Z -> Forall plain fmt ->
    Forall (fun c => c = 10 \/ plain c) message ->
    forall p, In p (pieces_of wrap w message) ->
    (Z.of_nat (length (wire_line (fmt ++ p))) <= limit_of nicklen fmt len)%Z.
  Proof.
    intros Hw Hfmt Hmsg p Hp.
    assert (Hpl : Forall plain (fmt ++ p)).
    { apply Forall_app. split; [exact Hfmt|]. apply Forall_forall. intros c Hc.
      unfold pieces_of in Hp. apply in_flat_map in Hp. destruct Hp as [l [Hl Hp]].
      destruct (wrap_chars l w p c Hp Hc) as [Hin | ->].
      - unfold split_lf in Hl. destruct (split_lf_chars message [] l c Hl Hin) as [[] | [Hm Hn]].
        rewrite Forall_forall in Hmsg. destruct (Hmsg c Hm) as [-> | Hpc]; [contradiction | exact Hpc].
      - unfold plain. repeat split; discriminate. }
    unfold wire_line. rewrite (wire_plain _ Hpl). rewrite app_length. cbn [length].
    pose proof (chars_le_limit Hw p Hp). lia.
  Qed.
End Wrap.

Lemma send_summary :
  forall (is_space : N -> bool) (wrap : list N -> Z -> list (list N)),
  is_space 10 = true ->
  (forall l w, (1 <= w)%Z -> Forall (fun p => (Z.of_nat (length p) <= w)%Z) (wrap l w)) ->
  (forall l w, (1 <= w)%Z -> filter (fun c => negb (is_space c)) (concat (wrap l w)) = filter (fun c => negb (is_space c)) l) ->
  forall (nicklen : nat) (msgType user message : list N) (len : option Z),
  let fmt := fmt_of msgType user in
  let w := width_of nicklen fmt len in
  ((limit_of nicklen fmt len <= minimum_of fmt)%Z /\ send_with wrap nicklen msgType user message len = OValueError)
  \/ ((1 <= w)%Z
      /\ send_with wrap nicklen msgType user message len
         = OSent (map (fun piece => wire_line (fmt ++ piece)) (pieces_of wrap w message))
      /\ filter (fun c => negb (is_space c)) (concat (pieces_of wrap w message))
         = filter (fun c => negb (is_space c)) message
      /\ forall p, In p (pieces_of wrap w message) ->
           (Z.of_nat (length (fmt ++ p)) + 2 <= limit_of nicklen fmt len)%Z).
Proof.
  intros is_space wrap Hlf Hw Hc nicklen msgType user message len fmt w.
  destruct (send_with_cases wrap nicklen msgType user message len) as [H | [H1 H2]]; [left; exact H|].
  right. split; [exact H1|]. split; [exact H2|]. split.
  - exact (content_preserved is_space Hlf wrap Hc nicklen msgType user message len H1).
  - exact (chars_le_limit wrap Hw nicklen msgType user message len H1).
Qed.

(** what the receiver reconstructs from a sent line (low-level dequoting of the decoded line) is
    fmt ++ piece itself; with textwrap's whitespace normalisation (pieces contain no CR / LF) no CR or
    LF of the text travels quoted and comes back inside the delivered message *)
Lemma reconstructed_clean :
  forall (wrap : list N -> Z -> list (list N)),
  (forall l w p c, In p (wrap l w) -> In c p -> c <> 10 /\ c <> 13) ->
  forall (w : Z) (fmt message p : list N) (c : N),
  (forall x, In x fmt -> x <> 10 /\ x <> 13) ->
  In p (pieces_of wrap w message) ->
  lowDequote (lowQuote (fmt ++ p)) = fmt ++ p /\ (In c (lowDequote (lowQuote (fmt ++ p))) -> c <> 10 /\ c <> 13).
Proof.
  intros wrap Hws w fmt message p c Hfmt Hp. split; [apply low_roundtrip|].
  rewrite low_roundtrip. intros Hc. apply in_app_or in Hc. destruct Hc as [Hc | Hc]; [exact (Hfmt c Hc)|].
  unfold pieces_of in Hp. apply in_flat_map in Hp. destruct Hp as [l [_ Hp]]. exact (Hws l w p c Hp Hc).
Qed.

(** ---------------- the rate-limited queue is a FIFO ---------------- *)

Lemma q_step_order : forall st o,
  q_sent (q_step st o) ++ q_queue (q_step st o)
  = (q_sent st ++ q_queue st) ++ match o with QSend l => [l] | QTick => [] end.
Proof.
  intros [q snt t] [l|]; destruct t; destruct q as [|h r];
    unfold q_step, q_send, q_fire; cbn [q_queue q_sent q_timer app];
    rewrite ?app_nil_r, <- ?app_assoc; reflexivity.
Qed.

Lemma q_run_order : forall ops st,
  q_sent (q_run st ops) ++ q_queue (q_run st ops) = (q_sent st ++ q_queue st) ++ q_sends ops.
Proof.
  induction ops as [|o ops IH]; intros st; [cbn; rewrite app_nil_r; reflexivity|].
  cbn [q_run fold_left q_sends flat_map]. fold (q_run (q_step st o) ops). rewrite IH, q_step_order.
  rewrite <- !app_assoc. reflexivity.
Qed.

(** what has been written is always a prefix of what was handed to sendLine, in the same order *)
Lemma q_sent_prefix : forall ops, exists rest, q_sends ops = q_sent (q_run q_init ops) ++ rest.
Proof. intros ops. exists (q_queue (q_run q_init ops)). symmetry. apply (q_run_order ops q_init). Qed.

(** a non-empty queue always has its timer armed *)
Definition q_ok (st : qstate) : Prop := q_queue st = [] \/ q_timer st = true.

Lemma q_step_ok : forall st o, q_ok st -> q_ok (q_step st o).
Proof.
  intros [q snt t] o H. unfold q_ok in *. cbn [q_queue q_timer] in H.
  destruct o as [l|]; unfold q_step, q_send, q_fire; cbn [q_queue q_timer].
  - destruct t; cbn [q_queue q_timer]; [right; reflexivity|].
    destruct H as [-> | H]; [|discriminate]. cbn. right. reflexivity.
  - destruct t; [|exact H]. destruct q as [|h r]; cbn; [left | right]; reflexivity.
Qed.

Lemma q_run_ok : forall ops st, q_ok st -> q_ok (q_run st ops).
Proof.
  induction ops as [|o ops IH]; intros st H; [exact H|].
  cbn [q_run fold_left]. apply IH. apply q_step_ok. exact H.
Qed.

(** ... so as many ticks as there are queued lines drain it *)
Lemma q_drain : forall n st, q_ok st -> length (q_queue st) = n ->
  q_queue (q_run st (repeat QTick n)) = [].
Proof.
  induction n as [|n IH]; intros [q snt t] Hok Hlen; cbn [q_queue] in Hlen.
  - destruct q; [reflexivity | discriminate].
  - destruct q as [|h r]; [discriminate|]. cbn [length] in Hlen.
    destruct Hok as [H | H]; cbn [q_queue q_timer] in H; [discriminate|]. subst t.
    cbn [repeat q_run fold_left q_step q_timer q_fire q_queue q_sent].
    apply IH; [right; reflexivity | cbn; lia].
Qed.

Lemma q_fifo_total : forall ops,
  let st := q_run q_init ops in
  q_sent (q_run st (repeat QTick (length (q_queue st)))) = q_sends ops.
Proof.
  intros ops st.
  pose proof (q_run_ok ops q_init (or_introl eq_refl)) as Hok. fold st in Hok.
  pose proof (q_drain (length (q_queue st)) st Hok eq_refl) as Hd.
  pose proof (q_run_order (repeat QTick (length (q_queue st))) st) as Ho.
  rewrite Hd, app_nil_r in Ho. rewrite Ho.
  assert (Ht : forall n, q_sends (repeat QTick n) = []) by (induction n; [reflexivity | exact IHn]).
  rewrite Ht, app_nil_r. apply (q_run_order ops q_init).
Qed.

(** ---------------- reconnecting keeps the FIFO ---------------- *)

Lemma q_fifo_from : forall st0 ops, q_queue st0 = [] -> q_sent st0 = [] ->
  let st := q_run st0 ops in
  q_sent st ++ q_queue st = q_sends ops
  /\ q_sent (q_run st (repeat QTick (length (q_queue st)))) = q_sends ops.
Proof.
  intros st0 ops Hq Hs st.
  pose proof (q_run_order ops st0) as Ho. rewrite Hq, Hs in Ho. cbn [app] in Ho. fold st in Ho.
  split; [exact Ho|].
  pose proof (q_run_ok ops st0 (or_introl Hq)) as Hok. fold st in Hok.
  pose proof (q_drain (length (q_queue st)) st Hok eq_refl) as Hd.
  pose proof (q_run_order (repeat QTick (length (q_queue st))) st) as Ho2.
  rewrite Hd, app_nil_r in Ho2. rewrite Ho2.
  assert (Ht : forall n, q_sends (repeat QTick n) = []) by (induction n; [reflexivity | exact IHn]).
  rewrite Ht, app_nil_r. exact Ho.
Qed.

(** ---------------- CTCP messages round-trip ---------------- *)

Lemma split_on_chunk : forall q rest cur, ~ In 1 q ->
  split_on_aux 1 cur (q ++ 1 :: rest) = (cur ++ q) :: split_on_aux 1 [] rest.
Proof.
  induction q as [|c q IH]; intros rest cur H.
  - cbn. rewrite app_nil_r. reflexivity.
  - cbn [app split_on_aux]. destruct (N.eqb_spec c 1) as [->|n]; [exfalso; apply H; left; reflexivity|].
    rewrite IH by (intros Hin; apply H; right; exact Hin). rewrite <- app_assoc. reflexivity.
Qed.

Definition wrapx (q : list N) : list N := 1 :: q ++ [1].

Lemma split_on_wrapped : forall qs, Forall (fun q => ~ In 1 q) qs ->
  split_on_aux 1 [] (flat_map wrapx qs) = flat_map (fun q => [[]; q]) qs ++ [[]].
Proof.
  induction qs as [|q qs IH]; intros H; [reflexivity|].
  inversion H as [|? ? Hq Hqs]; subst.
  cbn [flat_map]. unfold wrapx at 1. cbn [app split_on_aux]. change (1 =? 1) with true. cbn iota.
  rewrite <- app_assoc. cbn [app]. rewrite split_on_chunk by exact Hq. rewrite (IH Hqs). reflexivity.
Qed.

Lemma alternate_wrapped : forall qs,
  exists n, alternate false (flat_map (fun q => [[]; q]) qs ++ [[]]) = (n, qs) /\ filter nonempty n = [].
Proof.
  induction qs as [|q qs [n [E F]]].
  - exists [[]]. split; reflexivity.
  - exists ([] :: n). cbn [flat_map app alternate negb]. rewrite E. split; [reflexivity | exact F].
Qed.

Lemma xq_nonempty : forall c, xq c <> [].
Proof. intros c. unfold xq. destruct (c =? 92); [discriminate|]. destruct (c =? 1); discriminate. Qed.

Lemma ctcpQuote_nonempty : forall s, s <> [] -> nonempty (ctcpQuote s) = true.
Proof.
  intros [|c s] H; [contradiction|]. rewrite ctcpQuote_flat. cbn [flat_map].
  pose proof (xq_nonempty c) as Hc. destruct (xq c); [contradiction | reflexivity].
Qed.

Lemma split_first_space_tag : forall tag cur, ~ In 32 tag ->
  (forall rest, split_first_space cur (tag ++ 32 :: rest) = (cur ++ tag, Some rest))
  /\ split_first_space cur tag = (cur ++ tag, None).
Proof.
  induction tag as [|c tag IH]; intros cur H.
  - split; [intros rest|]; cbn; rewrite app_nil_r; reflexivity.
  - assert (Hc : (c =? 32) = false) by (apply N.eqb_neq; intros ->; apply H; left; reflexivity).
    assert (Ht : ~ In 32 tag) by (intros Hin; apply H; right; exact Hin).
    destruct (IH (cur ++ [c]) Ht) as [I1 I2].
    split; [intros rest|]; cbn [app split_first_space]; rewrite Hc, ?I1, ?I2, <- app_assoc; reflexivity.
Qed.

Definition xmsg_wf (m : xmsg) : Prop := ~ In 32 (fst m) /\ ctcp_body m <> [].

Lemma extract_one : forall m, xmsg_wf m ->
  split_first_space [] (ctcpDequote (ctcpQuote (ctcp_body m))) = ctcp_norm m.
Proof.
  intros [tag data] [Ht _]. cbn [fst] in Ht. rewrite ctcp_roundtrip. unfold ctcp_body, ctcp_norm. cbn [fst snd].
  destruct (split_first_space_tag tag [] Ht) as [I1 I2].
  destruct data as [[|d ds]|]; cbn [app]; rewrite ?I1, ?I2; reflexivity.
Qed.

Lemma ctcp_message_roundtrip : forall msgs, Forall xmsg_wf msgs ->
  ctcp_extract (ctcp_stringify msgs) = (map ctcp_norm msgs, []).
Proof.
  intros msgs H. unfold ctcp_extract, ctcp_stringify.
  set (qs := map (fun m => ctcpQuote (ctcp_body m)) msgs).
  assert (Ef : flat_map (fun m => [1] ++ ctcpQuote (ctcp_body m) ++ [1]) msgs
               = flat_map wrapx qs).
  { unfold qs. clear H. induction msgs as [|m msgs IH]; [reflexivity|]. cbn [flat_map map]. rewrite IH. reflexivity. }
  rewrite Ef.
  assert (Hno : Forall (fun q => ~ In 1 q) qs).
  { unfold qs. apply Forall_forall. intros q Hq. apply in_map_iff in Hq. destruct Hq as [m [<- _]].
    intros Hin. exact (ctcpQuote_clean _ 1 Hin eq_refl). }
  rewrite (split_on_wrapped qs Hno).
  destruct (alternate_wrapped qs) as [n [E F]]. rewrite E, F. f_equal.
  assert (Hne : filter nonempty qs = qs).
  { unfold qs. clear Ef Hno E. induction H as [|m msgs [_ Hb] Hms IH]; [reflexivity|].
    cbn [map filter]. rewrite (ctcpQuote_nonempty _ Hb), IH. reflexivity. }
  rewrite Hne. unfold qs. rewrite map_map.
  clear Ef Hno E Hne. induction H as [|m msgs Hm Hms IH]; [reflexivity|].
  cbn [map]. rewrite (extract_one m Hm), IH. reflexivity.
Qed.

(** ---------------- the octet limit is false in general (F17) ---------------- *)

Definition ex_msgType : list N := [80; 82; 73; 86; 77; 83; 71].     (* PRIVMSG *)
Definition ex_user : list N := [117].                               (* u *)
Definition ex_message : list N := repeat 233 20.                    (* twenty e-acute *)
Definition ex_wrapped : list (list (list N)) := [[repeat 233 17; repeat 233 3]].

Lemma octet_limit_refuted :
  (* the pieces respect the width (30 - 13 = 17 characters) and keep the content ... *)
  Forall (fun p => (Z.of_nat (length p) <= 17)%Z) (concat ex_wrapped)
  /\ concat (concat ex_wrapped) = ex_message
  /\ exists wires line,
       send_message 9 ex_msgType ex_user ex_message (Some 30%Z) ex_wrapped = OSent wires
       /\ In line wires /\ (30 < Z.of_nat (length line))%Z.
Proof.
  split; [repeat constructor; cbn; lia|]. split; [reflexivity|].
  eexists. eexists. split; [vm_compute; reflexivity|]. split; [left; reflexivity|]. vm_compute. reflexivity.
Qed.

(** quoting expands NUL / CR / LF / DLE to two characters: also beyond the limit *)
Lemma octet_limit_refuted_quoting :
  exists wires line,
    send_message 9 ex_msgType ex_user (repeat 16 17) (Some 30%Z) [[repeat 16 17]] = OSent wires
    /\ In line wires /\ (30 < Z.of_nat (length line))%Z.
Proof.
  eexists. eexists. split; [vm_compute; reflexivity|]. split; [left; reflexivity|]. vm_compute. reflexivity.
Qed.

Example roundtrip_example :
  lowDequote (lowQuote [16; 0; 10; 13; 16; 48; 97; 16]) = [16; 0; 10; 13; 16; 48; 97; 16]
  /\ ctcpDequote (ctcpQuote [92; 1; 92; 97; 1; 98; 92]) = [92; 1; 92; 97; 1; 98; 92].
Proof. vm_compute. split; reflexivity. Qed.
