(** C43: printers used by the correspondence check only. *)
From Coq Require Import List NArith ZArith String.
From TwLib Require Import Show PyStr CodecsText.
From C43 Require Import Gen Model.
Import ListNotations.
Local Open Scope string_scope.

Definition show_str (s : list N) : string := show_list show_N s.

Inductive case :=
| CQuote (s : list N)          (* lowQuote, lowDequote of it, ctcpQuote, ctcpDequote of it; and dequotes of s itself *)
| CSend (nicklen : nat) (msgType user message : list N) (len : option Z) (wrapped : list (list (list N)))
| CHist (calls : list case)    (* several calls on ONE client: the model has no state, each call stands alone *)
| CRate (calls : list (case * nat)).   (* lineRate set: calls on one client, each followed by that many clock
                                           ticks of lineRate seconds; then the queue is drained *)

Definition show_send (nl : nat) (mt u m : list N) (len : option Z) (wr : list (list (list N))) : string :=
  match send_message nl mt u m len wr with
  | OValueError => "ValueError"
  | OBadTable => "BADTABLE"
  | OSent wires => String.concat "|" (map show_hex wires)
  end.

Definition outcome_of (c : case) : outcome :=
  match c with
  | CSend nl mt u m len wr => send_message nl mt u m len wr
  | _ => OBadTable
  end.

(** the queue model driven by the calls: per call the outcome, the number of lines written after
    the call's ticks; finally all lines in the order they were written *)
Fixpoint rate_run (st : qstate) (calls : list (case * nat)) : list string * list nat * qstate :=
  match calls with
  | [] => ([], [], st)
  | (c, ticks) :: r =>
      let '(tag, st1) := match outcome_of c with
                         | OSent wires => ("ok", fold_left q_send wires st)
                         | OValueError => ("ValueError", st)
                         | OBadTable => ("BADTABLE", st)
                         end in
      let st2 := q_run st1 (repeat QTick ticks) in
      let '(tags, counts, st3) := rate_run st2 r in
      (tag :: tags, List.length (q_sent st2) :: counts, st3)
  end.

Definition show_rate (calls : list (case * nat)) : string :=
  let '(tags, counts, st) := rate_run q_init calls in
  let st' := q_run st (repeat QTick (S (List.length (q_queue st)))) in
  String.concat ";" tags ++ " @ " ++ String.concat "," (map show_nat counts) ++ " @ "
  ++ String.concat "|" (map show_hex (q_sent st')).

Fixpoint run_show (c : case) : string :=
  match c with
  | CQuote s =>
      show_str (lowQuote s) ++ " " ++ show_str (lowDequote (lowQuote s)) ++ " " ++ show_str (lowDequote s)
      ++ " " ++ show_str (ctcpQuote s) ++ " " ++ show_str (ctcpDequote (ctcpQuote s)) ++ " " ++ show_str (ctcpDequote s)
  | CSend nl mt u m len wr => show_send nl mt u m len wr
  | CHist calls => String.concat ";" (map run_show calls)
  | CRate calls => show_rate calls
  end.
