(** C43: printers used by the correspondence check only. *)
From Coq Require Import List NArith ZArith String.
From TwLib Require Import Show PyStr CodecsText.
From C43 Require Import Gen Model.
Import ListNotations.
Local Open Scope string_scope.

Definition show_str (s : list N) : string := show_list show_N s.

Inductive case :=
| CQuote (s : list N)          (* lowQuote, lowDequote of it, ctcpQuote, ctcpDequote of it; and dequotes of s itself *)
| CSend (nicklen : nat) (msgType user message : list N) (len : option Z) (wrapped : list (list (list N))).

Definition run_show (c : case) : string :=
  match c with
  | CQuote s =>
      show_str (lowQuote s) ++ " " ++ show_str (lowDequote (lowQuote s)) ++ " " ++ show_str (lowDequote s)
      ++ " " ++ show_str (ctcpQuote s) ++ " " ++ show_str (ctcpDequote (ctcpQuote s)) ++ " " ++ show_str (ctcpDequote s)
  | CSend nl mt u m len wr =>
      match send_message nl mt u m len wr with
      | OValueError => "ValueError"
      | OBadTable => "BADTABLE"
      | OSent wires => String.concat "|" (map show_hex wires)
      end
  end.
