(** C43: printers used by the correspondence check only. *)
From Coq Require Import List NArith ZArith String.
From TwLib Require Import Show PyStr CodecsText.
From C43 Require Import Gen Model.
Import ListNotations.
Local Open Scope string_scope.

Definition show_str (s : list N) : string := show_list show_N s.

Inductive case :=
| CQuote (s : list N)          (* lowQuote, lowDequote of it, ctcpQuote, ctcpDequote of it; and dequotes of s itself *)
| CSend (nicklen : nat) (msgType user message : list N) (len : option Z) (wrapped : list (list (list N)))
| CHist (calls : list case)    (* several calls on ONE client: the model has no state, each call stands alone *)
| CRate (calls : list (case * nat)) (reconn : option (nat * nat))
      (* lineRate set: calls on one client, each followed by that many clock ticks of lineRate seconds;
         reconn = Some (a, gap): after the a-th call and its ticks the connection is lost, the clock ticks
         gap times, and the same client is connected to a new transport; at the end the queue is drained *)
| CCtcp (msgs : list xmsg).    (* ctcpExtract (ctcpStringify msgs) *)

Definition show_send (nl : nat) (mt u m : list N) (len : option Z) (wr : list (list (list N))) : string :=
  match send_message nl mt u m len wr with
  | OValueError => "ValueError"
  | OBadTable => "BADTABLE"
  | OSent wires => String.concat "|" (map show_hex wires)
  end.

Definition outcome_of (c : case) : outcome :=
  match c with
  | CSend nl mt u m len wr => send_message nl mt u m len wr
  | _ => OBadTable
  end.

(** the queue model driven by the calls: per call the outcome and the number of lines on the current
    transport after the call's ticks; finally, per transport, all lines in the order they were written *)
Fixpoint rate_run (i : nat) (reconn : option (nat * nat)) (st : qstate) (olds : list (list (list N)))
         (calls : list (case * nat)) : list string * list nat * qstate * list (list (list N)) :=
  match calls with
  | [] => ([], [], st, olds)
  | (c, ticks) :: r =>
      let '(tag, st1) := match outcome_of c with
                         | OSent wires => ("ok", fold_left q_send wires st)
                         | OValueError => ("ValueError", st)
                         | OBadTable => ("BADTABLE", st)
                         end in
      let st2 := q_run st1 (repeat QTick ticks) in
      let '(st3, olds') :=
        match reconn with
        | Some (a, gap) =>
            if Nat.eqb a (S i)
            then let stg := q_run st2 (repeat QTick gap) in (q_connect stg, (olds ++ [q_sent stg])%list)
            else (st2, olds)
        | None => (st2, olds)
        end in
      let '(tags, counts, st4, olds'') := rate_run (S i) reconn st3 olds' r in
      (tag :: tags, List.length (q_sent st2) :: counts, st4, olds'')
  end.

Definition show_rate (calls : list (case * nat)) (reconn : option (nat * nat)) : string :=
  let '(tags, counts, st, olds) := rate_run 0 reconn q_init [] calls in
  let st' := q_run st (repeat QTick (S (List.length (q_queue st)))) in
  String.concat ";" tags ++ " @ " ++ String.concat "," (map show_nat counts) ++ " @ "
  ++ String.concat "/" (map (fun ls => String.concat "|" (map show_hex ls)) ((olds ++ [q_sent st'])%list)).

Definition show_xmsg (m : xmsg) : string := show_pair show_str (show_option show_str) m.

Definition show_ctcp (msgs : list xmsg) : string :=
  let (e, n) := ctcp_extract (ctcp_stringify msgs) in
  "E" ++ show_list show_xmsg e ++ "N" ++ show_list show_str n.

Fixpoint run_show (c : case) : string :=
  match c with
  | CQuote s =>
      show_str (lowQuote s) ++ " " ++ show_str (lowDequote (lowQuote s)) ++ " " ++ show_str (lowDequote s)
      ++ " " ++ show_str (ctcpQuote s) ++ " " ++ show_str (ctcpDequote (ctcpQuote s)) ++ " " ++ show_str (ctcpDequote s)
  | CSend nl mt u m len wr => show_send nl mt u m len wr
  | CHist calls => String.concat ";" (map run_show calls)
  | CRate calls reconn => show_rate calls reconn
  | CCtcp msgs => show_ctcp msgs
  end.
