(** C43: printers used by the correspondence check only. *)
From Coq Require Import List NArith ZArith String.
From TwLib Require Import Show PyStr CodecsText.
From C43 Require Import Gen Model.
Import ListNotations.
Local Open Scope string_scope.

Definition show_str (s : list N) : string := show_list show_N s.

Inductive case :=
| CQuote (s : list N)          (* lowQuote, lowDequote of it, ctcpQuote, ctcpDequote of it; and dequotes of s itself *)
| CSend (nicklen : nat) (msgType user message : list N) (len : option Z) (wrapped : list (list (list N)))
| CHist (calls : list case).   (* several calls on ONE client: the model has no state, each call stands alone *)

Definition show_send (nl : nat) (mt u m : list N) (len : option Z) (wr : list (list (list N))) : string :=
  match send_message nl mt u m len wr with
  | OValueError => "ValueError"
  | OBadTable => "BADTABLE"
  | OSent wires => String.concat "|" (map show_hex wires)
  end.

Fixpoint run_show (c : case) : string :=
  match c with
  | CQuote s =>
      show_str (lowQuote s) ++ " " ++ show_str (lowDequote (lowQuote s)) ++ " " ++ show_str (lowDequote s)
      ++ " " ++ show_str (ctcpQuote s) ++ " " ++ show_str (ctcpDequote (ctcpQuote s)) ++ " " ++ show_str (ctcpDequote s)
  | CSend nl mt u m len wr => show_send nl mt u m len wr
  | CHist calls => String.concat ";" (map run_show calls)
  end.
