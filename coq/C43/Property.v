(** C43 property theorems (nothing else lives here; each is closed by [exact]).
    [lowQuote]/[lowDequote]/[ctcpQuote]/[ctcpDequote] and the tables are generated from irc.py
    (Gen.v); [send_message]/[send_with] model IRCClient._sendMessage -> split -> sendLine.
    Characters are code points, the wire is octets; all statements are for texts of any length. *)
From Coq Require Import List NArith ZArith Bool.
From TwLib Require Import PyStr CodecsText.
From C43 Require Import Gen Model Proofs.
Import ListNotations.
Local Open Scope N_scope.

Theorem lowDequote_lowQuote : forall s : list N, lowDequote (lowQuote s) = s.
Proof. exact low_roundtrip. Qed.
Print Assumptions lowDequote_lowQuote.

Theorem ctcpDequote_ctcpQuote : forall s : list N, ctcpDequote (ctcpQuote s) = s.
Proof. exact ctcp_roundtrip. Qed.
Print Assumptions ctcpDequote_ctcpQuote.

(** low-level quoted text contains no NUL, LF, CR; CTCP-quoted text no X-DELIM *)
Theorem quoted_text_has_no_delimiters : forall s x : _,
  (In x (lowQuote s) -> x <> 0 /\ x <> 10 /\ x <> 13) /\ (In x (ctcpQuote s) -> x <> 1).
Proof. intros s x. exact (conj (lowQuote_clean s x) (ctcpQuote_clean s x)). Qed.
Print Assumptions quoted_text_has_no_delimiters.

(** every line written to the transport, whatever the text: no NUL, CR or LF among its octets
    before the final CR LF *)
Theorem lines_have_no_CR_LF : forall (line : list N) (b : N),
  wire_line line = utf8_str (lowQuote line) ++ [13; 10]
  /\ (In b (utf8_str (lowQuote line)) -> b <> 0 /\ b <> 10 /\ b <> 13).
Proof. intros line b. exact (conj eq_refl (wire_clean line b)). Qed.
Print Assumptions lines_have_no_CR_LF.

(** textwrap.wrap is an oracle with three facts (each checked against CPython on every case):
    pieces are at most [w] characters; the non-whitespace characters of the pieces are those of
    the line, in order; every character of a piece is a character of the line or a space.
    Then: either ValueError (limit <= len(fmt)+2), or exactly one line per piece is sent, each
    [fmt ++ piece] quoted and encoded; the pieces carry the message's non-whitespace characters in
    order; and every line has at most [limit] CHARACTERS before quoting, terminator included. *)
Theorem content_preserved_modulo_whitespace :
  forall (is_space : N -> bool) (wrap : list N -> Z -> list (list N)),
  is_space 10 = true ->
  (forall l w, (1 <= w)%Z -> Forall (fun p => (Z.of_nat (length p) <= w)%Z) (wrap l w)) ->
  (forall l w, (1 <= w)%Z -> filter (fun c => negb (is_space c)) (concat (wrap l w)) = filter (fun c => negb (is_space c)) l) ->
  forall (nicklen : nat) (msgType user message : list N) (len : option Z),
  let fmt := fmt_of msgType user in
  let w := width_of nicklen fmt len in
  ((limit_of nicklen fmt len <= minimum_of fmt)%Z /\ send_with wrap nicklen msgType user message len = OValueError)
  \/ ((1 <= w)%Z
      /\ send_with wrap nicklen msgType user message len
         = OSent (map (fun piece => wire_line (fmt ++ piece)) (pieces_of wrap w message))
      /\ filter (fun c => negb (is_space c)) (concat (pieces_of wrap w message))
         = filter (fun c => negb (is_space c)) message
      /\ forall p, In p (pieces_of wrap w message) ->
           (Z.of_nat (length (fmt ++ p)) + 2 <= limit_of nicklen fmt len)%Z).
Proof. exact send_summary. Qed.
Print Assumptions content_preserved_modulo_whitespace.

(** What the receiver reconstructs: low-level dequoting of a sent line gives back exactly
    fmt ++ piece, and -- with the fourth oracle fact, textwrap's whitespace normalisation (pieces
    contain no CR / LF; checked per case) -- it contains no CR or LF: no CR/LF of the text travels as
    M_QUOTE 'r' / M_QUOTE 'n' and reappears inside the delivered message. *)
Theorem reconstructed_parts_have_no_CR_LF :
  forall (wrap : list N -> Z -> list (list N)),
  (forall l w p c, In p (wrap l w) -> In c p -> c <> 10 /\ c <> 13) ->
  forall (w : Z) (fmt message p : list N) (c : N),
  (forall x, In x fmt -> x <> 10 /\ x <> 13) ->
  In p (pieces_of wrap w message) ->
  lowDequote (lowQuote (fmt ++ p)) = fmt ++ p /\ (In c (lowDequote (lowQuote (fmt ++ p))) -> c <> 10 /\ c <> 13).
Proof. exact reconstructed_clean. Qed.
Print Assumptions reconstructed_parts_have_no_CR_LF.

(** The rate-limited output queue (lineRate set) is a FIFO: for ANY interleaving of sendLine calls
    and timer ticks, what has been written so far followed by what is still queued is exactly the
    sequence of lines handed to sendLine, in that order; and once the clock has ticked as often as
    there are queued lines, everything has been written, in that order. *)
Theorem rate_limited_queue_is_fifo : forall ops : list qop,
  q_sent (q_run q_init ops) ++ q_queue (q_run q_init ops) = q_sends ops
  /\ q_sent (q_run (q_run q_init ops) (repeat QTick (length (q_queue (q_run q_init ops))))) = q_sends ops.
Proof. intros ops. exact (conj (q_run_order ops q_init) (q_fifo_total ops)). Qed.
Print Assumptions rate_limited_queue_is_fifo.

(** Reconnecting the same client object: whatever the queue and its timer were doing (state [st]),
    after [connectionMade] the lines handed to sendLine are again written in order -- first what
    the new transport has received, then what is still queued -- and draining writes them all. *)
Theorem reconnect_keeps_fifo : forall (st : qstate) (ops : list qop),
  q_sent (q_run (q_connect st) ops) ++ q_queue (q_run (q_connect st) ops) = q_sends ops
  /\ q_sent (q_run (q_run (q_connect st) ops) (repeat QTick (length (q_queue (q_run (q_connect st) ops)))))
     = q_sends ops.
Proof. intros st ops. exact (q_fifo_from (q_connect st) ops eq_refl eq_refl). Qed.
Print Assumptions reconnect_keeps_fifo.

(** CTCP at message level: ctcpExtract (ctcpStringify msgs) gives back every (tag, data) -- any data,
    including leading / trailing / only spaces, X-DELIM, backslashes -- in order, with no "normal"
    text; the one thing not preserved is that empty data comes back as absent data.  (Tags contain no
    space; a message is not the empty tag with no data.) *)
Theorem ctcpExtract_ctcpStringify : forall msgs : list (list N * option (list N)),
  Forall (fun m => ~ In 32 (fst m) /\ ctcp_body m <> []) msgs ->
  ctcp_extract (ctcp_stringify msgs)
  = (map (fun m => (fst m, match snd m with Some [] => None | d => d end)) msgs, []).
Proof. exact ctcp_message_roundtrip. Qed.
Print Assumptions ctcpExtract_ctcpStringify.

(** FULL STATEMENT (false, finding F17): every sent line is at most [limit] OCTETS.
    Proved part: it holds when fmt and the message are plain ASCII (no NUL, CR, DLE; LF allowed
    in the message) ... *)
Theorem line_octets_le_limit_partial :
  forall (wrap : list N -> Z -> list (list N)),
  (forall l w, (1 <= w)%Z -> Forall (fun p => (Z.of_nat (length p) <= w)%Z) (wrap l w)) ->
  (forall l w p c, In p (wrap l w) -> In c p -> In c l \/ c = 32) ->
  forall (nicklen : nat) (msgType user message : list N) (len : option Z),
  let fmt := fmt_of msgType user in
  let w := width_of nicklen fmt len in
  (1 <= w)%Z ->
  Forall (fun c => c < 128 /\ c <> 0 /\ c <> 10 /\ c <> 13 /\ c <> 16) fmt ->
  Forall (fun c => c = 10 \/ (c < 128 /\ c <> 0 /\ c <> 10 /\ c <> 13 /\ c <> 16)) message ->
  forall p, In p (pieces_of wrap w message) ->
  (Z.of_nat (length (wire_line (fmt ++ p))) <= limit_of nicklen fmt len)%Z.
Proof.
  intros wrap Hw Hch nicklen msgType user message len fmt w H1 Hf Hm p Hp.
  exact (octets_le_limit_plain wrap Hw Hch nicklen msgType user message len H1 Hf Hm p Hp).
Qed.
Print Assumptions line_octets_le_limit_partial.

(** ... and is refuted: 20 two-octet characters, limit 30: pieces of 17 and 3 characters as the
    width requires, first line 11 + 34 + 2 = 47 octets *)
Theorem line_octets_le_limit_refuted :
  Forall (fun p => (Z.of_nat (length p) <= 17)%Z) (concat ex_wrapped)
  /\ concat (concat ex_wrapped) = ex_message
  /\ exists wires line,
       send_message 9 ex_msgType ex_user ex_message (Some 30%Z) ex_wrapped = OSent wires
       /\ In line wires /\ (30 < Z.of_nat (length line))%Z.
Proof. exact octet_limit_refuted. Qed.
Print Assumptions line_octets_le_limit_refuted.

(** ... also by quoting alone: 17 DLE characters, limit 30, one line of 11 + 34 + 2 octets *)
Theorem line_octets_le_limit_refuted_by_quoting :
  exists wires line,
    send_message 9 ex_msgType ex_user (repeat 16 17) (Some 30%Z) [[repeat 16 17]] = OSent wires
    /\ In line wires /\ (30 < Z.of_nat (length line))%Z.
Proof. exact octet_limit_refuted_quoting. Qed.
Print Assumptions line_octets_le_limit_refuted_by_quoting.
