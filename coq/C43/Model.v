(** C43: hand-written model of [IRCClient._sendMessage] / [split] / [_reallySendLine] on top of the
    generated quoting functions (Gen.v).  [textwrap.wrap] is an oracle: the model takes, for each
    "\n"-separated line of the message, the pieces CPython returned ([wrapped]); the theorems take
    it as a [Section] variable with the three facts used about it.  Characters are code points
    ([list N]); the wire format is octets ([list N], UTF-8). *)
From Coq Require Import List NArith ZArith Bool.
From TwLib Require Import PyStr CodecsText.
From C43 Require Import Gen.
Import ListNotations.
Local Open Scope N_scope.

(** [s.split("\n")] *)
Fixpoint split_lf_aux (cur s : list N) : list (list N) :=
  match s with
  | [] => [cur]
  | c :: r => if c =? 10 then cur :: split_lf_aux [] r else split_lf_aux (cur ++ [c]) r
  end.
Definition split_lf (s : list N) : list (list N) := split_lf_aux [] s.

(** fmt = f"{msgType} {user} :" *)
Definition fmt_of (msgType user : list N) : list N := msgType ++ [32] ++ user ++ [32; 58].

(** [_reallySendLine]: lowQuote, encode, "\r", then LineReceiver.sendLine adds the delimiter "\n" *)
Definition wire_line (line : list N) : list N := utf8_str (lowQuote line) ++ [13; 10].

(** [_safeMaximumLineLength(fmt)]: 512 - len(":" + "a"*NICKLEN + "!" + "b"*10 + "@" + "c"*63 + " " + fmt) - 10 *)
Definition safe_max (nicklen : nat) (fmt : list N) : Z :=
  (512 - Z.of_nat (1 + nicklen + 1 + 10 + 1 + 63 + 1 + length fmt) - 10)%Z.

Definition limit_of (nicklen : nat) (fmt : list N) (len : option Z) : Z :=
  match len with Some l => l | None => safe_max nicklen fmt end.

Definition minimum_of (fmt : list N) : Z := (Z.of_nat (length fmt) + 2)%Z.

(** the width handed to textwrap.wrap *)
Definition width_of (nicklen : nat) (fmt : list N) (len : option Z) : Z :=
  (limit_of nicklen fmt len - minimum_of fmt)%Z.

Inductive outcome :=
| OValueError                          (* length <= len(fmt) + 2 *)
| OSent (wire : list (list N))         (* the lines written to the transport, in order *)
| OBadTable.                           (* the oracle table does not match the message's lines *)

(** [wrapped]: for each element of [message.split("\n")], what textwrap.wrap(line, width) returned *)
Definition send_message (nicklen : nat) (msgType user message : list N) (len : option Z)
           (wrapped : list (list (list N))) : outcome :=
  let fmt := fmt_of msgType user in
  if (limit_of nicklen fmt len <=? minimum_of fmt)%Z then OValueError
  else if Nat.eqb (length wrapped) (length (split_lf message))
       then OSent (map (fun piece => wire_line (fmt ++ piece)) (concat wrapped))
       else OBadTable.

(** the same with textwrap.wrap as a function *)
Definition send_with (wrap : list N -> Z -> list (list N)) (nicklen : nat) (msgType user message : list N)
           (len : option Z) : outcome :=
  send_message nicklen msgType user message len
    (map (fun l => wrap l (width_of nicklen (fmt_of msgType user) len)) (split_lf message)).

Definition pieces_of (wrap : list N -> Z -> list (list N)) (w : Z) (message : list N) : list (list N) :=
  flat_map (fun l => wrap l w) (split_lf message).

(** ---------------------------------------------------------------- the rate-limited output queue
    ([lineRate] set): [sendLine] appends to [_queue] and, when no timer is pending, calls
    [_sendLine]; [_sendLine] (also the timer's callback) pops the OLDEST line, writes it and re-arms
    the timer, or disarms it when the queue is empty.  Lines here are whatever [sendLine] is given. *)
Record qstate := mkQ { q_queue : list (list N); q_sent : list (list N); q_timer : bool }.

Definition q_init : qstate := mkQ [] [] false.

(** [_sendLine] *)
Definition q_fire (st : qstate) : qstate :=
  match q_queue st with
  | [] => mkQ [] (q_sent st) false
  | l :: r => mkQ r (q_sent st ++ [l]) true
  end.

(** [sendLine(l)] with lineRate set *)
Definition q_send (st : qstate) (l : list N) : qstate :=
  let st' := mkQ (q_queue st ++ [l]) (q_sent st) (q_timer st) in
  if q_timer st then st' else q_fire st'.

Inductive qop := QSend (l : list N) | QTick.     (* QTick: the clock reaches the timer (if armed) *)

Definition q_step (st : qstate) (o : qop) : qstate :=
  match o with
  | QSend l => q_send st l
  | QTick => if q_timer st then q_fire st else st
  end.

Definition q_run (st : qstate) (ops : list qop) : qstate := fold_left q_step ops st.

Definition q_sends (ops : list qop) : list (list N) :=
  flat_map (fun o => match o with QSend l => [l] | QTick => [] end) ops.

(** [connectionLost] leaves the queue and its timer alone; [connectionMade] (reconnect of the same
    client object on a new transport) starts with an empty queue -- but the timer, armed or not,
    is carried over: a timer still pending from the old connection delays the first line of the new
    one and then drains the NEW queue.  The lines written so far stay with the old transport. *)
Definition q_connect (st : qstate) : qstate := mkQ [] [] (q_timer st).

(** ---------------------------------------------------------------- CTCP messages
    [ctcpStringify] / [ctcpExtract] on lists of (tag, data) with data = None | Some text *)
Definition xmsg := (list N * option (list N))%type.

(** "tag data" when data is a non-empty string, else the tag alone *)
Definition ctcp_body (m : xmsg) : list N :=
  match snd m with
  | Some (d :: ds) => fst m ++ [32] ++ d :: ds
  | _ => fst m
  end.

Definition ctcp_stringify (msgs : list xmsg) : list N :=
  flat_map (fun m => [1] ++ ctcpQuote (ctcp_body m) ++ [1]) msgs.

(** [s.split(sep)] for a one-character separator *)
Fixpoint split_on_aux (sep : N) (cur s : list N) : list (list N) :=
  match s with
  | [] => [cur]
  | c :: r => if c =? sep then cur :: split_on_aux sep [] r else split_on_aux sep (cur ++ [c]) r
  end.

(** X1 extended X2 normal X3 extended ...: (normal, extended) *)
Fixpoint alternate (odd : bool) (l : list (list N)) : list (list N) * list (list N) :=
  match l with
  | [] => ([], [])
  | x :: r => let (n, e) := alternate (negb odd) r in if odd then (n, x :: e) else (x :: n, e)
  end.

Definition nonempty (l : list N) : bool := match l with [] => false | _ => true end.

(** [m = s.split(SPC, 1)]: tag, and the data if there is a space *)
Fixpoint split_first_space (cur s : list N) : xmsg :=
  match s with
  | [] => (cur, None)
  | c :: r => if c =? 32 then (cur, Some r) else split_first_space (cur ++ [c]) r
  end.

(** (extended, normal) *)
Definition ctcp_extract (message : list N) : list xmsg * list (list N) :=
  let (n, e) := alternate false (split_on_aux 1 [] message) in
  (map (fun x => split_first_space [] (ctcpDequote x)) (filter nonempty e), filter nonempty n).

(** what comes back: empty data is indistinguishable from absent data *)
Definition ctcp_norm (m : xmsg) : xmsg := (fst m, match snd m with Some [] => None | d => d end).
