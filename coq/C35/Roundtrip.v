(** C35: what the sender frames, the specification parser delivers — under the stated hypotheses on the
    cipher, MAC and compression oracles. *)
From Coq Require Import List NArith ZArith Bool Lia ZifyBool.
From TwLib Require Import Seg.
From C35 Require Import Model Basics Proofs.
Import ListNotations.
Local Open Scope N_scope.

Lemma pad_len_ok bs n : 4 <= bs -> (5 + n + pad_len bs n) mod bs = 0 /\ 4 <= pad_len bs n /\ pad_len bs n <= bs + 3.
Proof.
  intro H. unfold pad_len.
  assert ((5 + n) mod bs < bs) as Hr by (apply N.mod_lt; lia).
  pose proof (N.div_mod (5 + n) bs ltac:(lia)) as Hd.
  set (r := (5 + n) mod bs) in *. set (q := (5 + n) / bs) in *.
  destruct (N.ltb_spec (bs - r) 4).
  - split; [|lia]. replace (5 + n + (bs - r + bs)) with ((q + 2) * bs) by nia. apply N.mod_mul. lia.
  - split; [|lia]. replace (5 + n + (bs - r)) with ((q + 1) * bs) by nia. apply N.mod_mul. lia.
Qed.

Ltac Zify.zify_post_hook ::= Z.to_euclidean_division_equations.

Lemma be32_enc32 n : n < 4294967296 -> be32 (enc32 n) = n.
Proof. intro H. unfold be32, enc32. lia. Qed.

Lemma mod0_ge bs n : 0 < bs -> 0 < n -> n mod bs = 0 -> bs <= n.
Proof.
  intros Hb Hn Hm. apply N.mod_divide in Hm; [|lia]. destruct Hm as [k ->].
  destruct k as [|p]; [lia|]. rewrite <- (N.mul_1_l bs) at 1. apply N.mul_le_mono_r. lia.
Qed.

Lemma take_take {A} n m (l : list A) : n <= m -> take n (take m l) = take n l.
Proof.
  revert n m. induction l as [|x r IH]; intros n m H; cbn [take]; [reflexivity|].
  destruct (N.eqb_spec m 0); [assert (n = 0) as -> by lia; reflexivity|]. cbn [take].
  destruct (N.eqb_spec n 0); [reflexivity|]. rewrite IH by lia. reflexivity.
Qed.
Lemma nth_take (i : nat) m (l : bytes) : N.of_nat i < m -> nth i (take m l) 0 = nth i l 0.
Proof.
  revert i m. induction l as [|x r IH]; intros i m H; cbn [take]; [reflexivity|].
  destruct (N.eqb_spec m 0); [lia|]. destruct i; [reflexivity|]. cbn [nth]. apply IH. lia.
Qed.

Lemma frame_enc_block (c : ciphers) (z padding : bytes) :
  4 <= encBlock c -> len padding = send_pad c (len z) -> len (frame z padding) < 4294967296 ->
  len (frame z padding) mod encBlock c = 0 /\
  be32 (take 4 (frame z padding)) + 4 = len (frame z padding) /\
  nth 4 (frame z padding) 0 = len padding /\ 4 <= len padding /\ len padding <= encBlock c + 3.
Proof.
  intros Hb Hp Hlt. unfold send_pad in Hp.
  assert (len (frame z padding) = 5 + len z + len padding) as L.
  { unfold frame, enc32. rewrite !len_app. unfold len. cbn [length]. lia. }
  destruct (pad_len_ok (encBlock c) (len z) Hb) as (Hm & H4 & Hu). rewrite <- Hp in Hm, H4, Hu.
  split; [rewrite L; exact Hm|]. split; [|split; [reflexivity|split; assumption]].
  assert (take 4 (frame z padding) = enc32 (1 + len z + len padding)) as ->.
  { unfold frame. change 4 with (len (enc32 (1 + len z + len padding))). apply take_app_exact. }
  rewrite be32_enc32 by lia. lia.
Qed.

(** outgoing AES (16-byte blocks), incoming 3DES or none (8): a 14-byte payload is padded with 13 bytes to 32 = 2 x 16;
    padding to the INCOMING block size would give 5 bytes and a 24-byte packet, not a whole number of AES blocks *)
Example pad_16_out_8_in :
  let c := mkcip 16 8 in
  send_pad c 14 = 13 /\ (5 + 14 + send_pad c 14) mod 16 = 0 /\
  pad_len (decBlock c) 14 = 5 /\ (5 + 14 + pad_len (decBlock c) 14) mod 16 = 8.
Proof. vm_compute. repeat split; reflexivity. Qed.

Section RT.
  Variables ES DS CS ZS : Type.
  Variable enc : ES -> bytes -> bytes * ES.
  Variable dec : DS -> bytes -> bytes * DS.
  Variable mac : N -> bytes -> bytes.
  Variable verify : N -> bytes -> bytes -> bool.
  Variable comp : CS -> bytes -> bytes * CS.
  Variable decomp : ZS -> bytes -> option (bytes * ZS).
  Variables bs ms : N.
  Hypothesis Hbs : 8 <= bs.

  (** the oracles' contracts *)
  Variable csync : ES -> DS -> Prop.        (* encryptor and decryptor hold the same key stream position / chaining block *)
  Variable zsync : CS -> ZS -> Prop.        (* compressor and decompressor share the same history *)
  Hypothesis cipher_ok : forall e d x y e', csync e d -> enc e x = (y, e') -> bs <= len x -> len x mod bs = 0 ->
    len y = len x /\
    exists d1 d2, dec d (take bs y) = (take bs x, d1) /\ dec d1 (drop bs y) = (drop bs x, d2) /\ csync e' d2.
  Hypothesis mac_ok : forall seq p, verify seq p (mac seq p) = true /\ len (mac seq p) = ms.
  Hypothesis comp_ok : forall c z x y c', zsync c z -> comp c x = (y, c') ->
    exists z', decomp z y = Some (x, z') /\ zsync c' z'.

  Notation send_packet := (send_packet ES CS enc mac comp).
  Notation packet_step := (packet_step DS ZS dec verify decomp bs ms).
  Notation astep := (astep DS ZS dec verify decomp bs ms).

  (** a payload the sender may frame: padding of the length sendPacket computes, packet within the
      receiver's 1 MiB limit *)
  Definition sendable (c : CS) (payload padding : bytes) : Prop :=
    let z := fst (comp c payload) in
    len padding = pad_len bs (len z) /\ 1 + len z + len padding <= 1048576.

  Lemma packet_roundtrip seq e c d z payload padding wire s' tail :
    csync e d -> zsync c z -> sendable c payload padding ->
    send_packet (mks _ _ seq e c) payload padding = (wire, s') ->
    exists d' z', packet_step (mkm _ _ true seq d z) (wire ++ tail)
                  = Emit [EDeliver payload] (mkm _ _ true (seq + 1) d' z') tail /\
                  oseq _ _ s' = seq + 1 /\ csync (es _ _ s') d' /\ zsync (cs _ _ s') z'.
  Proof.
    intros Hc Hz [Hpad Hmax] Hsend. unfold Model.send_packet in Hsend. cbn [oseq es cs] in Hsend.
    destruct (comp c payload) as [zp c'] eqn:Ecomp. cbn [fst] in *.
    destruct (enc e (frame zp padding)) as [ct e'] eqn:Eenc. injection Hsend as <- <-. cbn [oseq es cs].
    set (packet := frame zp padding) in *.
    assert (len packet = 5 + len zp + len padding) as Lp.
    { unfold packet, frame, enc32. rewrite !len_app. unfold len. cbn [length]. lia. }
    destruct (pad_len_ok bs (len zp) ltac:(lia)) as (Hmod & Hp4 & _). rewrite <- Hpad in Hmod, Hp4.
    assert (len packet mod bs = 0) as Lm by (rewrite Lp; exact Hmod).
    assert (bs <= len packet) as Lb by (apply mod0_ge; lia).
    destruct (cipher_ok e d packet ct e' Hc Eenc Lb Lm) as (Lct & d1 & d2 & D1 & D2 & Hc').
    destruct (comp_ok c z payload zp c' Hz Ecomp) as (z' & Dz & Hz').
    destruct (mac_ok seq packet) as [Hv Lmac].
    exists d2, z'. split; [|auto].
    unfold Model.packet_step. cbn [ds inseq zs].
    rewrite <- app_assoc.
    destruct (N.ltb_spec (len (ct ++ mac seq packet ++ tail)) bs) as [Hlt|_]; [rewrite len_app in Hlt; lia|].
    rewrite (take_app_le bs ct _) by lia. rewrite D1.
    unfold Model.packet_body. cbn [inseq zs].
    assert (take 4 (take bs packet) = enc32 (1 + len zp + len padding)) as T4.
    { rewrite take_take by lia. unfold packet, frame.
      change 4 with (len (enc32 (1 + len zp + len padding))). apply take_app_exact. }
    assert (nth 4 (take bs packet) 0 = len padding) as N4.
    { rewrite nth_take by lia. reflexivity. }
    rewrite T4, N4, be32_enc32 by lia.
    set (plen := 1 + len zp + len padding) in *.
    assert (4 + plen = len ct) as Lc by lia.
    destruct (N.ltb_spec 1048576 plen); [lia|].
    destruct (N.ltb_spec (len (ct ++ mac seq packet ++ tail)) (plen + 4 + ms)) as [Hlt|_];
      [rewrite !len_app in Hlt; lia|].
    replace ((plen + 4) mod bs) with 0 by (rewrite <- Lm, Lp; f_equal; lia). cbn [N.eqb negb].
    rewrite Lc, take_app_exact, drop_app_exact, D2, take_drop.
    replace (len packet =? len ct) with true by (symmetry; apply N.eqb_eq; lia). cbn [negb].
    rewrite <- Lmac, take_app_exact, drop_app_exact, Hv. rewrite Lmac.
    replace (negb (ms =? 0) && negb true) with false by (destruct (ms =? 0); reflexivity).
    destruct (N.eqb_spec (len padding) 0); [lia|].
    assert (take (len packet - len padding - 5) (drop 5 packet) = zp) as Tz.
    { assert (drop 5 packet = zp ++ padding) as ->.
      { unfold packet, frame. rewrite app_assoc.
        exact (drop_app_exact (enc32 (1 + len zp + len padding) ++ [len padding]) (zp ++ padding)). }
      replace (len packet - len padding - 5) with (len zp) by lia. apply take_app_exact. }
    rewrite Tz, Dz. reflexivity.
  Qed.

  (** the sender's byte stream for a list of payloads *)
  Fixpoint send_all (s : sst ES CS) (items : list (bytes * bytes)) : bytes * sst ES CS :=
    match items with
    | [] => ([], s)
    | (p, pad) :: r => let '(w, s1) := send_packet s p pad in let '(w', s2) := send_all s1 r in (w ++ w', s2)
    end.
  Fixpoint all_sendable (s : sst ES CS) (items : list (bytes * bytes)) : Prop :=
    match items with
    | [] => True
    | (p, pad) :: r => sendable (cs _ _ s) p pad /\ all_sendable (snd (send_packet s p pad)) r
    end.

  Lemma stream_roundtrip : forall items seq e c d z,
    csync e d -> zsync c z -> all_sendable (mks _ _ seq e c) items ->
    exists x', spec_parse DS ZS dec verify decomp bs ms (mkm _ _ true seq d z) (fst (send_all (mks _ _ seq e c) items))
               = (map (fun it => EDeliver (fst it)) items, Some (x', []))
               /\ inseq _ _ x' = seq + len items /\ gotv _ _ x' = true.
  Proof.
    assert (Hb0 : 0 < bs) by lia.
    induction items as [|[p pad] r IH]; intros seq e c d z Hc Hz Hall; unfold spec_parse in *.
    - cbn [send_all fst map]. rewrite (fdrain_unfold' DS ZS dec verify decomp bs ms Hb0).
      unfold Model.astep, Model.packet_step. cbn [gotv].
      destruct (N.ltb_spec (len (@nil N)) bs) as [_|Hx]; [|rewrite len_nil in Hx; lia].
      eexists. split; [reflexivity|]. cbn [inseq gotv]. rewrite len_nil. split; [lia|reflexivity].
    - cbn [send_all all_sendable] in *. destruct Hall as [Hs Hrest].
      destruct (send_packet (mks _ _ seq e c) p pad) as [w s1] eqn:Esend.
      destruct (send_all s1 r) as [w' s2] eqn:Eall. cbn [fst snd] in *.
      destruct (packet_roundtrip seq e c d z p pad w s1 w' Hc Hz Hs Esend) as (d' & z' & Hstep & Hseq & Hc' & Hz').
      rewrite (fdrain_unfold' DS ZS dec verify decomp bs ms Hb0).
      unfold Model.astep at 1. cbn [gotv]. rewrite Hstep.
      destruct s1 as [seq1 e1 c1]. cbn [oseq es cs] in *. subst seq1.
      destruct (IH (seq + 1) e1 c1 d' z' Hc' Hz' Hrest) as (x' & Hx & Hq & Hg). rewrite Eall in Hx. cbn [fst] in Hx.
      rewrite Hx. cbn [map fst app]. exists x'. split; [reflexivity|]. rewrite len_cons. split; [lia|exact Hg].
  Qed.

  (** sender stream, cut into deliveries in any way, through the receiver as written *)
  Lemma delivered_any_segmentation items seq e c d z chunks :
    csync e d -> zsync c z -> all_sendable (mks _ _ seq e c) items ->
    Forall (fun it => fst it <> []) items ->
    concat chunks = fst (send_all (mks _ _ seq e c) items) ->
    fst (feed_all DS ZS dec verify decomp bs ms (mkc DS ZS [] None (mkm _ _ true seq d z) false) chunks)
    = map (fun it => EDeliver (fst it)) items.
  Proof.
    intros Hc Hz Hall Hne Hcat.
    destruct (stream_roundtrip items seq e c d z Hc Hz Hall) as (x' & Hx & _ & _).
    rewrite (any_segmentation DS ZS dec verify decomp bs ms ltac:(lia) (mkm _ _ true seq d z) chunks _ Hcat).
    - rewrite Hx. reflexivity.
    - unfold Model.astep, Model.packet_step. cbn [gotv]. destruct (N.ltb_spec (len (@nil N)) bs) as [|Hx0]; [reflexivity|].
      rewrite len_nil in Hx0. lia.
    - rewrite Hx. cbn [fst]. clear - Hne. induction Hne as [|it r H _ IH]; cbn [map]; constructor; auto.
      destruct it as [p pad]. cbn in *. destruct p; [congruence|exact I].
  Qed.

  (** ---------- re-keying: at every NEWKEYS the cipher AND compression contexts of a direction are replaced, on both
      ends, by fresh synchronised ones; the sequence numbers are not reset (RFC 4253 section 7.3 / 6.4) ---------- *)
  Record epoch := mkep { ep_e : ES; ep_c : CS; ep_d : DS; ep_z : ZS; ep_items : list (bytes * bytes) }.

  (** every key generation starts from synchronised contexts and frames sendable packets *)
  Fixpoint epochs_ok (seq : N) (eps : list epoch) : Prop :=
    match eps with
    | [] => True
    | ep :: r => csync (ep_e ep) (ep_d ep) /\ zsync (ep_c ep) (ep_z ep) /\
                 all_sendable (mks _ _ seq (ep_e ep) (ep_c ep)) (ep_items ep) /\
                 epochs_ok (seq + len (ep_items ep)) r
    end.

  (** the receiver across re-keys: each generation's stream is parsed with that generation's decryptor and
      decompressor, the incoming sequence number running on *)
  Fixpoint parse_epochs (seq : N) (eps : list epoch) : list ev :=
    match eps with
    | [] => []
    | ep :: r =>
        fst (spec_parse DS ZS dec verify decomp bs ms (mkm _ _ true seq (ep_d ep) (ep_z ep))
                        (fst (send_all (mks _ _ seq (ep_e ep) (ep_c ep)) (ep_items ep))))
        ++ parse_epochs (seq + len (ep_items ep)) r
    end.

  Lemma epochs_roundtrip : forall eps seq, epochs_ok seq eps ->
    parse_epochs seq eps = flat_map (fun ep => map (fun it => EDeliver (fst it)) (ep_items ep)) eps.
  Proof.
    induction eps as [|ep r IH]; intros seq H; [reflexivity|]. cbn [parse_epochs flat_map epochs_ok] in *.
    destruct H as (Hc & Hz & Hs & Hr).
    destruct (stream_roundtrip (ep_items ep) seq (ep_e ep) (ep_c ep) (ep_d ep) (ep_z ep) Hc Hz Hs) as (x' & Hx & _ & _).
    rewrite Hx. cbn [fst]. rewrite (IH _ Hr). reflexivity.
  Qed.
End RT.
