(** C35: the receiver as written (cached first block, dataReceived loop) equals, for every segmentation of
    the byte stream, the pure one-frame parser run on the whole stream; round trip and tamper detection. *)
From Coq Require Import List NArith Bool Lia.
From TwLib Require Import Seg.
From C35 Require Import Model Basics.
Import ListNotations.
Local Open Scope N_scope.

Section P.
  Variables ES DS CS ZS : Type.
  Variable enc : ES -> bytes -> bytes * ES.
  Variable dec : DS -> bytes -> bytes * DS.
  Variable mac : N -> bytes -> bytes.
  Variable verify : N -> bytes -> bytes -> bool.
  Variable comp : CS -> bytes -> bytes * CS.
  Variable decomp : ZS -> bytes -> option (bytes * ZS).
  Variables bs ms : N.
  Hypothesis Hbs : 0 < bs.

  Notation mode := (mode DS ZS).
  Notation packet_body := (packet_body DS ZS dec verify decomp bs ms).
  Notation packet_step := (packet_step DS ZS dec verify decomp bs ms).
  Notation version_step := (@version_step DS ZS).
  Notation astep := (astep DS ZS dec verify decomp bs ms).
  Notation get_packet := (get_packet DS ZS dec verify decomp bs ms).
  Notation packet_loop := (packet_loop DS ZS dec verify decomp bs ms).
  Notation data_received := (data_received DS ZS dec verify decomp bs ms).
  Notation feed_all := (feed_all DS ZS dec verify decomp bs ms).
  Notation cst := (cst DS ZS).

  (** ---------- a complete packet (or a failure) is not affected by bytes that follow it ---------- *)
  Lemma packet_body_app (x : mode) b f ds1 c :
    match packet_body x b f ds1 with
    | POk _ _ p x' rest => packet_body x (b ++ c) f ds1 = POk _ _ p x' (rest ++ c) /\ (length rest < length b)%nat
    | PFail _ _ k => packet_body x (b ++ c) f ds1 = PFail _ _ k
    | PWait _ _ => True
    end.
  Proof.
    unfold Model.packet_body.
    set (plen := be32 (take 4 f)). set (padlen := nth 4 f 0).
    destruct (1048576 <? plen); [reflexivity|].
    destruct (N.ltb_spec (len b) (plen + 4 + ms)) as [Hs|Hs]; [exact I|].
    destruct (N.ltb_spec (len (b ++ c)) (plen + 4 + ms)) as [Hs'|_]; [rewrite len_app in Hs'; lia|].
    destruct (negb ((plen + 4) mod bs =? 0)); [reflexivity|].
    rewrite (take_app_le (4 + plen) b c) by lia. rewrite (drop_app_le (4 + plen) b c) by lia.
    destruct (dec ds1 (drop bs (take (4 + plen) b))) as [rp ds2].
    destruct (negb (len (f ++ rp) =? 4 + plen)); [reflexivity|].
    assert (ms <= len (drop (4 + plen) b)) as Hm by (rewrite len_drop; lia).
    rewrite (take_app_le ms _ c Hm), (drop_app_le ms _ c Hm).
    destruct (negb (ms =? 0) && negb (verify (inseq _ _ x) (f ++ rp) (take ms (drop (4 + plen) b)))); [reflexivity|].
    destruct (decomp (zs _ _ x) _) as [[p zs']|]; [|reflexivity].
    split; [reflexivity|]. apply len_length. rewrite !len_drop. lia.
  Qed.

  (** ---------- the three local facts of TwLib.Seg.Framed for the pure step ---------- *)
  Lemma astep_shrinks x b evs x' r : astep x b = Emit evs x' r -> (length r < length b)%nat.
  Proof.
    unfold Model.astep. destruct (gotv _ _ x).
    - unfold Model.packet_step. destruct (len b <? bs); [discriminate|].
      destruct (dec (ds _ _ x) (take bs b)) as [f ds1].
      pose proof (packet_body_app x b f ds1 []) as H.
      destruct (packet_body x b f ds1); try discriminate. intro E. inversion E; subst. apply H.
    - unfold Model.version_step. destruct (scan 4096 [] b) as [[l rest]|] eqn:Hs.
      + destruct (supported _); [|discriminate]. intro E. inversion E; subst. eapply scan_shrinks, Hs.
      + destruct (_ <? _); discriminate.
  Qed.

  Lemma astep_emit_stable x b c evs x' r : astep x b = Emit evs x' r -> astep x (b ++ c) = Emit evs x' (r ++ c).
  Proof.
    unfold Model.astep. destruct (gotv _ _ x).
    - unfold Model.packet_step. destruct (N.ltb_spec (len b) bs) as [|Hb]; [discriminate|].
      destruct (N.ltb_spec (len (b ++ c)) bs) as [Hb'|_]; [rewrite len_app in Hb'; lia|].
      rewrite (take_app_le bs b c Hb).
      destruct (dec (ds _ _ x) (take bs b)) as [f ds1].
      pose proof (packet_body_app x b f ds1 c) as H.
      destruct (packet_body x b f ds1); try discriminate. intro E. inversion E; subst.
      destruct H as [-> _]. reflexivity.
    - unfold Model.version_step. destruct (scan 4096 [] b) as [[l rest]|] eqn:Hs.
      + rewrite (scan_app _ _ _ c _ _ Hs). destruct (supported _); [|discriminate].
        intro E. inversion E; subst. reflexivity.
      + destruct (_ <? _); discriminate.
  Qed.

  Lemma astep_fail_stable x b c evs : astep x b = Fail evs -> astep x (b ++ c) = Fail evs.
  Proof.
    unfold Model.astep. destruct (gotv _ _ x).
    - unfold Model.packet_step. destruct (N.ltb_spec (len b) bs) as [|Hb]; [discriminate|].
      destruct (N.ltb_spec (len (b ++ c)) bs) as [Hb'|_]; [rewrite len_app in Hb'; lia|].
      rewrite (take_app_le bs b c Hb).
      destruct (dec (ds _ _ x) (take bs b)) as [f ds1].
      pose proof (packet_body_app x b f ds1 c) as H.
      destruct (packet_body x b f ds1); try discriminate. intro E. inversion E; subst.
      rewrite H. reflexivity.
    - unfold Model.version_step. destruct (scan 4096 [] b) as [[l rest]|] eqn:Hs.
      + rewrite (scan_app _ _ _ c _ _ Hs). destruct (supported _); [discriminate|]. auto.
      + destruct (N.ltb_spec 4096 (len b)) as [Hl|]; [|discriminate]. intro E.
        rewrite (scan_none_app _ _ _ c Hs) by lia.
        destruct (N.ltb_spec 4096 (len (b ++ c))) as [|Hl']; [exact E|rewrite len_app in Hl'; lia].
  Qed.

  (** the specification: iterate the pure step over the whole stream *)
  Definition spec_parse (x : mode) (stream : bytes) : list ev * option (mode * bytes) := fdrain astep x stream.

  (** segmentation invariance of the specification (instance of TwLib.Seg.framed_all_chunkings) *)
  Lemma spec_any_chunking x cs stream : astep x [] = Wait -> concat cs = stream ->
    run (bfeed (fdrain astep)) (Some (x, [])) cs = spec_parse x stream.
  Proof.
    intros H0 Hc. apply framed_all_chunkings; auto.
    - intros; eapply astep_shrinks; eauto.
    - intros; eapply astep_emit_stable; eauto.
    - intros; eapply astep_fail_stable; eauto.
  Qed.

  (** ---------- the code as written simulates the specification ---------- *)
  Definition ne (e : ev) : Prop := match e with EDeliver [] => False | _ => True end.

  Definition R (c : cst) (x : mode) (b : bytes) : Prop :=
    cdead _ _ c = false /\ cbuf _ _ c = b /\
    match cfirst _ _ c with
    | None => cmode _ _ c = x
    | Some f => gotv _ _ x = true /\ bs <= len b /\ dec (ds _ _ x) (take bs b) = (f, ds _ _ (cmode _ _ c)) /\
                cmode _ _ c = with_ds DS ZS x (ds _ _ (cmode _ _ c))
    end.
  Definition Rres (c : cst) (s : option (mode * bytes)) : Prop :=
    match s with Some (x, b) => R c x b | None => cdead _ _ c = true end.

  Lemma packet_body_mode (x1 x2 : mode) b f d :
    inseq _ _ x1 = inseq _ _ x2 -> zs _ _ x1 = zs _ _ x2 -> packet_body x1 b f d = packet_body x2 b f d.
  Proof. destruct x1, x2. cbn. intros -> ->. reflexivity. Qed.

  Lemma fdrain_unfold' x b :
    fdrain astep x b = match astep x b with
                       | Emit ev x' rest => let (ev', s) := fdrain astep x' rest in (ev ++ ev', s)
                       | Wait => ([], Some (x, b))
                       | Fail ev => (ev, None)
                       end.
  Proof. apply fdrain_unfold. intros; eapply astep_shrinks; eauto. Qed.

  Lemma loop_sim : forall n c x b, (length b < n)%nat -> R c x b -> gotv _ _ x = true ->
    forall evs s', fdrain astep x b = (evs, s') -> Forall ne evs ->
    exists c', packet_loop n c = (evs, c') /\ Rres c' s'.
  Proof.
    induction n as [|n IH]; intros c x b Hn HR Hg evs s' Hd Hne; [lia|].
    rewrite fdrain_unfold' in Hd.
    assert (Hst : astep x b = packet_step x b) by (unfold Model.astep; rewrite Hg; reflexivity).
    rewrite Hst in Hd. clear Hst. unfold Model.packet_step in Hd.
    destruct HR as (Hdead & Hbuf & Hf). cbn [Model.packet_loop]. unfold Model.get_packet. rewrite Hbuf.
    destruct (N.ltb_spec (len b) bs) as [Hs|Hs].
    - injection Hd as <- <-. exists c. split; [reflexivity|]. split; [exact Hdead|split; [exact Hbuf|]].
      destruct (cfirst _ _ c); [destruct Hf as (_ & Hle & _); lia|exact Hf].
    - assert (exists f ds1, dec (ds _ _ x) (take bs b) = (f, ds1) /\
                (match cfirst _ _ c with Some f0 => (f0, ds _ _ (cmode _ _ c)) | None => dec (ds _ _ (cmode _ _ c)) (take bs b) end) = (f, ds1) /\
                inseq _ _ (cmode _ _ c) = inseq _ _ x /\ zs _ _ (cmode _ _ c) = zs _ _ x /\ gotv _ _ (cmode _ _ c) = true)
        as (f & ds1 & E1 & E2 & Eq & Ez & Eg).
      { destruct (cfirst _ _ c) as [f0|].
        - destruct Hf as (_ & _ & Hdec & Hm). exists f0, (ds _ _ (cmode _ _ c)). rewrite Hm. destruct x; cbn in *. subst. auto.
        - subst x. destruct (dec _ _) as [f ds1]. exists f, ds1. auto. }
      rewrite E1 in Hd. rewrite E2. rewrite (packet_body_mode (cmode _ _ c) x b f ds1 Eq Ez).
      pose proof (packet_body_app x b f ds1 []) as Hsh.
      destruct (packet_body x b f ds1) as [|k|p x' rest].
      + injection Hd as <- <-. eexists. split; [reflexivity|]. repeat split; auto. cbn.
        repeat split; auto. unfold with_ds. destruct x, (cmode _ _ c); cbn in *. subst. reflexivity.
      + injection Hd as <- <-. eexists. split; [reflexivity|]. reflexivity.
      + destruct (fdrain astep x' rest) as [ev2 s2] eqn:Hd2. cbv beta iota in Hd. injection Hd as <- <-.
        inversion Hne as [|? ? Hp Hne']; subst. destruct p as [|p0 pr]; [exact (False_ind _ Hp)|]. cbn [is_nil].
        assert (gotv _ _ x' = true) as Hg'.
        { clear - Hsh. revert Hsh. unfold Model.packet_body.
          repeat match goal with |- context [if ?c then _ else _] => destruct c end; try discriminate. all: try (intros [? ?]; discriminate).
          all: destruct (dec _ _); repeat match goal with |- context [if ?c then _ else _] => destruct c end; try discriminate; try (intros [? ?]; discriminate).
          all: destruct (decomp _ _) as [[? ?]|]; try (intros [? ?]; discriminate). all: intros [E _]; inversion E; reflexivity. }
        destruct Hsh as [_ Hlt].
        destruct (IH (mkc _ _ rest None x' false) x' rest ltac:(lia) ltac:(repeat split; auto) Hg' ev2 s2 Hd2 Hne') as (c' & Hl & Hr).
        rewrite Hl. exists c'. split; [reflexivity|exact Hr].
  Qed.

  Lemma data_received_sim c x b data evs s' : R c x b ->
    bfeed (fdrain astep) (Some (x, b)) data = (evs, s') -> Forall ne evs ->
    exists c', data_received c data = (evs, c') /\ Rres c' s'.
  Proof.
    intros HR Hd Hne. cbn [bfeed] in Hd. pose proof HR as (Hdead & Hbuf & Hf).
    unfold Model.data_received. rewrite Hdead, Hbuf.
    destruct (gotv _ _ x) eqn:Hg.
    - assert (gotv _ _ (cmode _ _ c) = true) as ->.
      { destruct (cfirst _ _ c); [destruct Hf as (_ & _ & _ & ->); exact Hg|rewrite Hf; exact Hg]. }
      apply (loop_sim (S (length (b ++ data))) _ x (b ++ data)); auto.
      split; [reflexivity|split; [reflexivity|]]. cbn [cfirst cmode].
      destruct (cfirst _ _ c) as [f|]; [|exact Hf]. destruct Hf as (G & L & E & M).
      repeat split; auto; [rewrite len_app; lia|]. rewrite take_app_le by exact L. exact E.
    - assert (cfirst _ _ c = None /\ cmode _ _ c = x) as [Hc Hm].
      { destruct (cfirst _ _ c); [destruct Hf as (G & _); congruence|auto]. }
      rewrite Hm, Hg. rewrite fdrain_unfold' in Hd.
      assert (Hst : astep x (b ++ data) = version_step x (b ++ data)) by (unfold Model.astep; rewrite Hg; reflexivity).
      rewrite Hst in Hd. clear Hst.
      destruct (version_step x (b ++ data)) as [ev1 x1 rest| |ev1] eqn:Hv.
      + destruct (fdrain astep x1 rest) as [ev2 s2] eqn:Hd2. injection Hd as <- <-.
        apply Forall_app in Hne. destruct Hne as [_ Hne2].
        assert (gotv _ _ x1 = true) as Hg1.
        { unfold Model.version_step in Hv. destruct (scan _ _ _) as [[? ?]|]; [|destruct (_ <? _); discriminate].
          destruct (supported _); [|discriminate]. inversion Hv. reflexivity. }
        destruct (loop_sim (S (length rest)) (mkc _ _ rest None x1 false) x1 rest ltac:(lia)
                           ltac:(repeat split; auto) Hg1 ev2 s2 Hd2 Hne2) as (c' & Hl & Hr).
        rewrite Hl. exists c'. split; [reflexivity|exact Hr].
      + injection Hd as <- <-. eexists. split; [reflexivity|]. repeat split; auto.
      + injection Hd as <- <-. eexists. split; [reflexivity|]. reflexivity.
  Qed.

  Lemma dead_absorbs c data : cdead _ _ c = true -> data_received c data = ([], c).
  Proof. intro H. unfold Model.data_received. rewrite H. reflexivity. Qed.

  Lemma feed_all_sim : forall chunks c s evs s', Rres c s ->
    run (bfeed (fdrain astep)) s chunks = (evs, s') -> Forall ne evs ->
    exists c', feed_all c chunks = (evs, c') /\ Rres c' s'.
  Proof.
    induction chunks as [|d r IH]; intros c s evs s' HR Hrun Hne; cbn [run Model.feed_all] in *.
    - injection Hrun as <- <-. exists c. auto.
    - destruct (bfeed (fdrain astep) s d) as [e1 s1] eqn:Hb.
      destruct (run (bfeed (fdrain astep)) s1 r) as [e2 s2] eqn:Hr. injection Hrun as <- <-.
      apply Forall_app in Hne. destruct Hne as [N1 N2].
      destruct s as [[x b]|].
      + destruct (data_received_sim c x b d e1 s1 HR Hb N1) as (c1 & E1 & R1). rewrite E1.
        destruct (IH c1 s1 e2 s2 R1 Hr N2) as (c2 & E2 & R2). rewrite E2. exists c2. auto.
      + cbn in Hb. injection Hb as <- <-. rewrite dead_absorbs by exact HR.
        destruct (IH c None e2 s2 HR Hr N2) as (c2 & E2 & R2). rewrite E2. exists c2. auto.
  Qed.

  (** Every segmentation: the events the code produces for the deliveries [chunks] are the events of the
      specification parser on the whole stream (provided no packet decodes to an empty payload, where the
      [while packet:] loop of dataReceived would stop early). *)
  Lemma any_segmentation x0 chunks stream :
    concat chunks = stream -> astep x0 [] = Wait ->
    Forall ne (fst (spec_parse x0 stream)) ->
    fst (feed_all (mkc DS ZS [] None x0 false) chunks) = fst (spec_parse x0 stream).
  Proof.
    intros Hc H0 Hne.
    pose proof (spec_any_chunking x0 chunks stream H0 Hc) as Hrun.
    destruct (spec_parse x0 stream) as [evs s'] eqn:Hs. cbn [fst] in *.
    destruct (feed_all_sim chunks (mkc DS ZS [] None x0 false) (Some (x0, [])) evs s') as (c' & E & _); auto.
    - repeat split; reflexivity.
    - rewrite E. reflexivity.
  Qed.

  (** ---------- delivery implies the MAC was verified over exactly the decrypted packet ---------- *)
  Lemma delivered_mac_verified (x : mode) b f ds1 p x' rest :
    packet_body x b f ds1 = POk _ _ p x' rest -> ms <> 0 ->
    let plen := be32 (take 4 f) in
    verify (inseq _ _ x) (f ++ fst (dec ds1 (drop bs (take (4 + plen) b)))) (take ms (drop (4 + plen) b)) = true /\
    inseq _ _ x' = inseq _ _ x + 1.
  Proof.
    unfold Model.packet_body. intros H Hms. cbv zeta.
    destruct (1048576 <? _); [discriminate|]. destruct (len b <? _); [discriminate|].
    destruct (negb (_ mod bs =? 0)); [discriminate|].
    destruct (dec ds1 _) as [rp ds2]. cbn [fst].
    destruct (negb (len (f ++ rp) =? _)); [discriminate|].
    destruct (N.eqb_spec ms 0); [contradiction|]. cbn [negb andb] in H.
    destruct (verify _ _ _); [|discriminate]. cbn [negb] in H.
    destruct (decomp _ _) as [[q zq]|]; [|discriminate]. inversion H. auto.
  Qed.

  Lemma mac_failure_disconnects (x : mode) b f ds1 :
    ms <> 0 ->
    let plen := be32 (take 4 f) in
    verify (inseq _ _ x) (f ++ fst (dec ds1 (drop bs (take (4 + plen) b)))) (take ms (drop (4 + plen) b)) = false ->
    match packet_body x b f ds1 with POk _ _ _ _ _ => False | PWait _ _ => True | PFail _ _ c => c = 2 \/ c = 5 end.
  Proof.
    intros Hms plen Hv. destruct (packet_body x b f ds1) as [|c|p x' rest] eqn:E; auto.
    - revert E. unfold Model.packet_body. fold plen.
      destruct (1048576 <? _); [intro E; inversion E; auto|]. destruct (len b <? _); [discriminate|].
      destruct (negb (_ mod bs =? 0)); [intro E; inversion E; auto|].
      destruct (dec ds1 _) as [rp ds2]. cbn [fst] in Hv.
      destruct (negb (len (f ++ rp) =? _)); [intro E; inversion E; auto|].
      destruct (N.eqb_spec ms 0); [contradiction|]. rewrite Hv. cbn. intro E; inversion E; auto.
    - destruct (delivered_mac_verified x b f ds1 p x' rest E Hms) as [Hv' _]. fold plen in Hv'. congruence.
  Qed.
End P.
