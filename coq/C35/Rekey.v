(** C35: messages handed to sendPacket while a key exchange is in progress are sent, afterwards, in send order. *)
From Coq Require Import List NArith Bool Lia.
From C35 Require Import Model.
Import ListNotations.
Local Open Scope N_scope.

Record KInv (ops : list kop) (s : kst) : Prop := {
  k_q : Forall (fun m => held m = true) (kq s);
  k_idle : inkex s = false -> kq s = [];
  k_held : filter held (kwire s) ++ kq s = filter held (ksent ops);
  k_free : filter (fun m => negb (held m)) (kwire s) = filter (fun m => negb (held m)) (ksent ops) }.

Lemma ksent_app a b : ksent (a ++ b) = ksent a ++ ksent b.
Proof. apply flat_map_app. Qed.

Lemma filter_held_q q : Forall (fun m => held m = true) q ->
  filter held q = q /\ filter (fun m => negb (held m)) q = [].
Proof.
  induction 1 as [|m r H _ [IH1 IH2]]; [auto|]. cbn. rewrite H. cbn. rewrite IH1, IH2. auto.
Qed.

Lemma KInv_step ops s o : KInv ops s -> KInv (ops ++ [o]) (kstep s o).
Proof.
  intros [Q I H F]. destruct o as [t p| |]; cbn [kstep].
  - assert (Hh : held (t, p) = negb (allowed t)) by reflexivity.
    destruct (inkex s && negb (allowed t)) eqn:E.
    + apply andb_true_iff in E. destruct E as [Ek Ea].
      split; cbn [kq inkex kwire]; rewrite ?ksent_app, ?filter_app; cbn [ksent flat_map filter app];
        rewrite ?Hh, ?Ea; cbn [negb]; rewrite ?app_nil_r.
      * apply Forall_app. split; [exact Q|]. constructor; [rewrite Hh; exact Ea|constructor].
      * discriminate.
      * rewrite app_assoc, H. reflexivity.
      * exact F.
    + split; cbn [kq inkex kwire]; rewrite ?ksent_app, ?filter_app; cbn [ksent flat_map filter app];
        rewrite ?Hh; auto.
      * destruct (negb (allowed t)) eqn:Ea; cbn [negb]; rewrite ?app_nil_r.
        -- assert (inkex s = false) as Ek by (destruct (inkex s); [discriminate|reflexivity]).
           rewrite (I Ek) in H |- *. rewrite app_nil_r in H. rewrite app_nil_r, H. reflexivity.
        -- exact H.
      * destruct (negb (allowed t)); cbn [negb]; rewrite ?app_nil_r, F; reflexivity.
  - destruct (inkex s) eqn:Ek.
    + split; rewrite ?ksent_app; cbn [ksent flat_map]; rewrite ?app_nil_r; auto. intro; congruence.
    + split; cbn [kq inkex kwire]; rewrite ?ksent_app; cbn [ksent flat_map]; rewrite ?app_nil_r; auto.
      rewrite (I eq_refl), app_nil_r in H. rewrite ?app_nil_r. exact H.
  - destruct (filter_held_q _ Q) as [Fq Fn].
    split; cbn [kq inkex kwire]; rewrite ?ksent_app, ?filter_app; cbn [ksent flat_map]; rewrite ?app_nil_r; auto.
    + rewrite Fq. exact H.
    + rewrite Fn, app_nil_r. exact F.
Qed.

Lemma KInv_run : forall ops done s, KInv done s -> KInv (done ++ ops) (fold_left kstep ops s).
Proof.
  induction ops as [|o r IH]; intros done s H; cbn [fold_left].
  - rewrite app_nil_r. exact H.
  - replace (done ++ o :: r) with ((done ++ [o]) ++ r) by (rewrite <- app_assoc; reflexivity).
    apply IH, KInv_step, H.
Qed.

Lemma KInv_reach ops : KInv ops (krun ops).
Proof. apply (KInv_run ops [] (mkk false [] [])). split; cbn; auto. Qed.

(** Why BOTH ends must replace the compression context at NEWKEYS.  A toy streaming codec with the one feature of
    zlib that matters here: a fresh deflate stream starts with a header (120 = 0x78) which only a fresh inflate
    context strips.  Context = "header already sent / seen". *)
Definition toy_comp (c : bool) (x : bytes) : bytes * bool := if c then (x, true) else (120 :: x, true).
Definition toy_decomp (z : bool) (y : bytes) : option (bytes * bool) :=
  if z then Some (y, true) else match y with 120 :: r => Some (r, true) | _ => None end.

(** fresh on both ends (what _newKeys does for both directions): round trip, and the contexts stay in step *)
Example fresh_contexts_round_trip : forall x,
  toy_decomp false (fst (toy_comp false x)) = Some (x, true) /\ toy_decomp true (fst (toy_comp true x)) = Some (x, true).
Proof. intro x. split; reflexivity. Qed.

(** sender re-keyed (fresh deflate stream), receiver kept its old inflate context: the payload does not come back *)
Example stale_inflate_context_fails : forall x,
  toy_decomp true (fst (toy_comp false x)) <> Some (x, true).
Proof.
  assert (Hc : forall (l : bytes) a, a :: l <> l).
  { induction l as [|b r IH]; intros a H; [discriminate|]. inversion H as [[Ha Hr]]. exact (IH b Hr). }
  intros x H. cbn in H. inversion H as [E]. exact (Hc x 120 E).
Qed.
